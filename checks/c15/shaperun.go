package c15

import (
	"fmt"
	"strings"

	rdb "github.com/rqlite/rqlite/v10/db"
	"verif/internal/vf"
)

// Request-shape part. The text part sends every text as the bare request
// {statements:[{sql:text}]}. A client controls much more of a request than
// the text: bound parameters on a statement (which SQLite ignores when the
// text has no placeholder), per-statement and per-request flags, and further
// statements in the same request. This part takes texts that the node has
// just been observed to refuse as a bare request (through the same entry
// point) and sends them again in other shapes. The oracle is the one of the
// text part: nothing read back from the node may differ afterwards.

type shapeRun struct {
	c  *vf.Ctx
	h  *harness
	sc *scratch
	// (pragma, shape class, connection) that violate with that class alone
	singleBad map[string]bool
	singles   []*shape
	rot       int
	n         int
}

func newShapeRun(c *vf.Ctx, h *harness, sc *scratch) *shapeRun {
	return &shapeRun{c: c, h: h, sc: sc, singleBad: map[string]bool{}, singles: singleShapes()}
}

// refused reports whether a bare send was turned down without any effect.
func refused(sr *sendResult) bool {
	return sr != nil && !sr.Accepted && sr.Broken == "" && len(sr.Changed) == 0
}

// probe sends text in shape sh through entry e (the bare request with the same
// text has been refused through e) and judges the outcome.
func (s *shapeRun) probe(t *tspec, text, e string, sh *shape) {
	c := s.c
	s.n++
	rec := &caseRec{N: s.n, Spec: t, Text: text, Truth: s.sc.evaluate(text, sh), Guard: rdb.IsBreakingPragma(text), Shape: sh}
	c.Eval(1)
	c.Count("shaped_requests_sent", 1)
	for _, cl := range sh.classes() {
		c.Count("shape_element:"+cl, 1)
	}
	if len(rec.Truth.Changed) > 0 {
		c.Nontrivial(text + "\x00" + e + "\x00" + sh.key())
	}
	sr, err := s.h.send(e, text, t, sh)
	if err != nil {
		c.Logf("shape case %d: %v", s.n, err)
		c.Inconclusive("node unavailable")
		return
	}
	rec.Sends = []*sendResult{sr}
	if sr.Accepted {
		c.Count("shaped_requests_accepted:"+e, 1)
	} else {
		c.Count("shaped_requests_rejected:"+e, 1)
	}
	if sr.Broken != "" {
		c.Violation("node-broken:"+t.Pragma+":shape:"+strings.Join(sh.classes(), "+"),
			fmt.Sprintf("after %s of %q in request shape %s the node could not be used: %s", e, text, sh.key(), sr.Broken), rec)
		return
	}
	if len(sr.Changed) == 0 {
		c.Held(1)
		if s.n%131 == 7 {
			c.Sample(rec)
		}
		return
	}
	conn := "rw"
	for _, d := range sr.Changed {
		if strings.HasPrefix(d, "ro.") {
			conn = "ro"
		}
	}
	skey := func(cl string) string { return t.Pragma + "|" + cl + "|" + conn }
	classes := sh.classes()
	class := ""
	if len(classes) == 1 {
		class = classes[0]
		s.singleBad[skey(class)] = true
	} else {
		for _, cl := range classes {
			if s.singleBad[skey(cl)] {
				class = cl
				break
			}
		}
		if class == "" {
			// not yet known: try each element alone on the node
			for _, cl := range classes {
				sr2, err := s.h.send(e, text, t, sh.single(cl))
				c.Count("shape_attribution_requests", 1)
				if err == nil && sr2 != nil && len(sr2.Changed) > 0 {
					s.singleBad[skey(cl)] = true
					class = cl
					break
				}
			}
		}
		if class == "" {
			class = strings.Join(classes, "+")
		}
	}
	key := fmt.Sprintf("shape-bypass:%s:%s", t.Pragma, class)
	if conn == "ro" {
		key += "@ro-connection"
	}
	state := "accepted"
	if !sr.Accepted {
		state = "rejected (" + sr.Err + ") but effective"
	}
	c.Violation(key, fmt.Sprintf("%q, refused as a bare request, in request shape %s via %s was %s and changed: %s",
		text, sh.key(), e, state, strings.Join(sr.Changed, ", ")), rec)
}

// systematic: the plain `PRAGMA name = value` of every protected pragma (plus
// the value that matters on the read-only pool, plus the bare wal_checkpoint)
// in every single-element shape through Execute, Request and Query.
func (s *shapeRun) systematic() {
	var specs []*tspec
	for _, p := range protected {
		specs = append(specs, &tspec{Pragma: p})
	}
	specs = append(specs,
		&tspec{Pragma: "query_only", Val: 6},
		&tspec{Pragma: "wal_checkpoint", Syntax: "read"},
		&tspec{Pragma: "synchronous", Schema: "main", KwCase: 1, NmCase: 3, Val: 3})
	lvl := 0
	for _, t := range specs {
		text := t.text()
		ents := []string{"execute", "request", entries[2+lvl%4]}
		lvl++
		for _, e := range ents {
			sr, err := s.h.send(e, text, t, nil)
			if err != nil {
				s.c.Inconclusive("node unavailable")
				continue
			}
			s.c.Count("shape_control_requests", 1)
			if !refused(sr) {
				// the text part reports this; a shape adds nothing
				s.c.Count("shape_controls_not_refused", 1)
				continue
			}
			for _, sh := range s.singles {
				s.probe(t, text, e, sh)
			}
		}
	}
}

// after is called by the text part for a text whose bare request has just been
// refused through every entry of ents: one single-element shape (rotating) and
// one seeded random combination, each through one of those entries.
func (s *shapeRun) after(i int, t *tspec, text string, ents []string) {
	sh := s.singles[s.rot%len(s.singles)]
	s.probe(t, text, ents[s.rot%len(ents)], sh)
	s.rot++
	s.probe(t, text, ents[s.rot%len(ents)], genShape(s.c.Rand(1<<40+uint64(i))))
}
