package main

import _ "verif/checks/c25"
