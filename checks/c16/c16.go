// Package c16: read consistency levels behave as documented (DESIGN §6 C16).
//
// Part (a): store.IsStaleRead against an independent spec written from the
// property text, exhaustively over a grid, in the driver process.
// Part (b): leader + follower + non-voter in one worker process; Store.Query is
// called directly on each node at every level under seeded scenarios (steady,
// leadership move, partition, apply lag created at the fsm.apply.entry hook on
// one node's FSM goroutine only, restart, linearizable-vs-apply, linearizable
// read stalled inside the read-index path while leadership is lost/regained -
// linterm.go). The worker
// only reports what it observed (samples taken before and after every call);
// the verdicts are computed here from those observations.
package c16

import (
	"encoding/json"
	"fmt"
	"os"
	"path/filepath"
	"strings"
	"sync"
	"time"

	"github.com/rqlite/rqlite/v10/store"
	"verif/internal/vf"
)

func init() {
	vf.Register("C16", "exploration", run)
	vf.RegisterWorker("c16", worker)
}

const boundaryMargin = 20 * time.Millisecond

// ---------------------------------------------------------------------------
// Independent spec of the staleness rule, from the property text:
//
//	"A 'none' read with a freshness bound is refused when the node has not
//	 heard from the leader within the bound, or in strict mode when it is
//	 behind and its last applied entry was appended more than the bound before
//	 it was applied."
//
// heard: whether the node ever heard from the leader; age: time since then.
// hasApplied: whether an applied entry with a known append time exists.
// behind: applied index < index of the newest command entry it was sent.
// lag: apply time minus append time of the last applied entry.
func specStale(bound time.Duration, heard bool, age time.Duration, strict, hasApplied, behind bool, lag time.Duration) bool {
	if bound == 0 {
		return false // no freshness bound given
	}
	if !heard || age > bound {
		return true
	}
	return strict && hasApplied && behind && lag > bound
}

type gridPoint struct {
	Age      string `json:"age"` // duration or "never"
	Fresh    string `json:"freshness"`
	Strict   bool   `json:"strict"`
	AppZero  bool   `json:"appended_zero"`
	FsmIdx   uint64 `json:"fsm_index"`
	CmdIdx   uint64 `json:"commit_index"`
	Lag      string `json:"apply_minus_append"`
	Got      bool   `json:"got"`
	Want     bool   `json:"want"`
	ElapsedU int64  `json:"call_us"`
}

func partA(c *vf.Ctx) {
	ms := time.Millisecond
	ages := []time.Duration{-50 * ms, 1 * ms, 5 * ms, 10 * ms, 25 * ms, 75 * ms, 100 * ms, 150 * ms, 250 * ms, 500 * ms,
		900 * ms, 975 * ms, 1025 * ms, 1100 * ms, 2000 * ms, 3000 * ms, 4900 * ms, 4975 * ms, 5025 * ms, 5100 * ms,
		7000 * ms, 10000 * ms, 2 * time.Hour, -1 /* never */}
	bounds := []time.Duration{0, 50 * ms, 200 * ms, 1000 * ms, 5000 * ms, time.Hour}
	lags := []time.Duration{-1000 * ms, -1 * ms, 0, 1, 1 * ms, 49 * ms, 50*ms - 1, 50 * ms, 50*ms + 1, 51 * ms,
		199 * ms, 200 * ms, 200*ms + 1, 201 * ms, 500 * ms, 999 * ms, 1000*ms - 1, 1000 * ms, 1000*ms + 1, 1001 * ms,
		2000 * ms, 4999 * ms, 5000 * ms, 5000*ms + 1, 5001 * ms, 7000 * ms, 10000 * ms, time.Hour, time.Hour + 1, 3 * time.Hour}
	// (fsmIndex, commitIndex): equal, behind by one, behind by many, ahead.
	idx := [][2]uint64{{5, 5}, {0, 0}, {5, 6}, {5, 900}, {0, 3}, {6, 5}, {900, 0}}
	base := time.Date(2026, 1, 2, 3, 4, 5, 0, time.UTC)
	var skipped, points int64
	for _, age := range ages {
		for _, b := range bounds {
			for _, strict := range []bool{false, true} {
				for _, appZero := range []bool{false, true} {
					for _, ix := range idx {
						for _, lag := range lags {
							heard := age != -1
							var lc time.Time
							t0 := time.Now()
							if heard {
								lc = t0.Add(-age)
							}
							var app, upd time.Time
							upd = base.Add(lag)
							if !appZero {
								app = base
							} else {
								upd = time.Time{}.Add(lag + time.Hour) // anything; appended-at unknown
							}
							got := store.IsStaleRead(lc, upd, app, ix[0], ix[1], b.Nanoseconds(), strict)
							el := time.Since(t0)
							points++
							// The function reads the wall clock: the age it saw lies in
							// [age, age+el]. Skip when the bound is within the margin of it.
							if heard && b != 0 && b >= age-boundaryMargin && b <= age+el+boundaryMargin {
								skipped++
								continue
							}
							behind := ix[0] < ix[1]
							want := specStale(b, heard, age, strict, !appZero, behind, lag)
							c.Eval(1)
							gp := gridPoint{Age: age.String(), Fresh: b.String(), Strict: strict, AppZero: appZero, FsmIdx: ix[0], CmdIdx: ix[1],
								Lag: lag.String(), Got: got, Want: want, ElapsedU: el.Microseconds()}
							if !heard {
								gp.Age = "never"
							}
							// non-trivial: a bound is set and the outcome is not decided by
							// the first (last-contact) clause alone
							if b != 0 && heard && age <= b {
								c.Nontrivial(fmt.Sprintf("a|%v|%v|%v|%v|%v|%v", age, b, strict, appZero, ix, lag))
								if strict && !appZero && lag > b && ix[0] != ix[1] {
									c.Count("grid_strict_lag_over_bound_points", 1)
								}
							}
							if got == want {
								c.Held(1)
								continue
							}
							key := "isstaleread:"
							switch {
							case got && !want && strict && ix[0] > ix[1]:
								key += "strict:applied-index-ahead-of-command-index-treated-as-behind"
							case got && !want:
								key += "refuses-though-spec-serves"
							default:
								key += "serves-though-spec-refuses"
							}
							c.Violation(key, fmt.Sprintf("store.IsStaleRead(lastContact=now-%s, applyMinusAppend=%s, appendedAtZero=%v, fsmIndex=%d, commitIndex=%d, freshness=%s, strict=%v) = %v, spec from the property text says %v",
								gp.Age, lag, appZero, ix[0], ix[1], b, strict, got, want), gp)
						}
					}
				}
			}
		}
	}
	c.Count("grid_points", points)
	c.Count("grid_points_skipped_near_wallclock_boundary", skipped)
}

// ---------------------------------------------------------------------------
// Part (b): observations reported by the worker.

type sample struct {
	OK        bool    `json:"ok"`
	FsmIdx    uint64  `json:"fsm"`
	CmdIdx    uint64  `json:"cmd"`
	UpdNs     int64   `json:"upd"` // UnixNano of fsm_update_time (0 = zero time)
	AppNs     int64   `json:"app"` // UnixNano of leader_appended_at_time (0 = zero time)
	ContactMs float64 `json:"contact_ms"`
	Never     bool    `json:"never"`
	AtNs      int64   `json:"at"`                 // monotonic-ish offset of the sample (ns since worker start)
	LastLog   uint64  `json:"last_log,omitempty"` // raft's last_log_index statistic of the node
}

type obs struct {
	Node      string  `json:"node"`
	Role      string  `json:"role"` // role at set-up: leader | follower | nonvoter
	Phase     string  `json:"phase"`
	Level     string  `json:"level"`
	FreshMs   float64 `json:"fresh_ms"`
	Strict    bool    `json:"strict"`
	LeaderB   bool    `json:"leader_b"`
	LeaderA   bool    `json:"leader_a"`
	Events    int64   `json:"leader_events"` // leadership observations on this node during the call (re-read 400 ms later if suspicious)
	VoterB    bool    `json:"voter_b"`
	VoterA    bool    `json:"voter_a"`
	VoterErr  bool    `json:"voter_err,omitempty"`
	Served    bool    `json:"served"`
	Err       string  `json:"err,omitempty"`
	EffLevel  string  `json:"eff_level,omitempty"`
	Rows      int64   `json:"rows"`
	WantRows  int64   `json:"want_rows"` // rows acknowledged before the call started (-1 = not tracked)
	B         sample  `json:"b"`
	A         sample  `json:"a"`
	Full      bool    `json:"full"`             // b/a samples taken
	CutMs     float64 `json:"cut_ms,omitempty"` // node cut off from all others for this long when the call started (held until after it ended)
	CommitB   uint64  `json:"commit_b,omitempty"`
	WriteIdx  uint64  `json:"write_idx,omitempty"`
	LeaderFsm uint64  `json:"leader_fsm,omitempty"` // leader's applied command index, no write in flight
	Streak    int     `json:"streak,omitempty"`     // consecutive served linearizable reads under the same cut
	TermCI    int64   `json:"term_ci,omitempty"`    // linearizable: node's raft term when the read had just sampled the commit index (hook), 0 = point not reached
	TermVL    int64   `json:"term_vl,omitempty"`    // linearizable: node's raft term when the quorum had just confirmed leadership (hook), 0 = point not reached
	Disturb   string  `json:"disturb,omitempty"`    // what was done to the leadership while the read was stalled at a hook point
	// catch-up scenarios: index of the newest write that (1) the harness issued on the
	// leader and saw acknowledged while the node was cut off / on a slow link and (2)
	// is in the node's own raft log (index <= last_log_index) - i.e. the newest
	// command entry the node is known to have been sent, established without the
	// node's command_commit_index statistic. 0 = none / not tracked.
	SentCmdB uint64 `json:"sent_cmd_b,omitempty"`
	SentCmdA uint64 `json:"sent_cmd_a,omitempty"`
}

type scnResult struct {
	Case     int            `json:"case"`
	Kind     string         `json:"kind"`
	Params   map[string]any `json:"params"`
	SetupErr string         `json:"setup_err,omitempty"`
	Obs      []obs          `json:"obs"`
	Notes    []string       `json:"notes,omitempty"`
}

var scnKinds = []string{"steady", "strict-lag", "partition", "restart", "leader-move", "strict-lag", "lin-apply", "partition-leader"}

func run(c *vf.Ctx) {
	c.Rule("(a) every point of the grid last-contact age (24 values incl. never/negative) x freshness (6) x strict (2) x appended-at zero/non-zero x (fsmIndex,commitIndex) (7 pairs: equal, behind, ahead) x apply-minus-append (30 values incl. exact bounds +-1ns); points whose freshness lies within +-20 ms of the age interval the wall-clock read could have seen are skipped; non-trivial = bound set and last contact within it (decided by the strict clause). (b) seeded scenarios on a live leader+follower+non-voter cluster (steady levels, leadership move with concurrent weak reads, partition of follower/non-voter/leader, apply lag on one node's FSM goroutine via the fsm.apply.entry hook, follower restart, linearizable read racing a delayed apply, and linearizable reads stalled at the hook points linread.after_commit_index / linread.after_verify_leader while the node loses its leadership by transfer or isolation and, in most variants, regains it in a later term, with and without writes acknowledged by the interim leader - every variant in every run; catch-up: 3-5 writes acknowledged by the leader while the non-voter is cut off for >= 1.6 s, or issued concurrently over a slowed leader->follower link, so that the node is sent several command entries in one request, its FSM goroutine delayed 0.6-0.9 s per entry, strict/non-strict reads with bounds below and above the delay fired throughout the catch-up); Store.Query called directly on each node for every level; non-trivial = scenario in which at least one call received a must-serve/must-refuse verdict from the sampled state")
	c.Assume("the spec in specStale is a faithful reading of the property text; 'behind' = applied command index < index of the newest command entry the node was sent")
	c.Assume("a node 'believes it is leader' iff Store.IsLeader(); a weak read is only judged when IsLeader was false before and after the call and no leadership observation was delivered to the node in between (re-read 400 ms later)")
	c.Assume("last-contact age during a call lies between max(0, age_after - elapsed) and age_before + elapsed, ages taken from raft's own last_contact statistic; verdicts need 20 ms clearance from the bound, otherwise the call is not judged")
	c.Assume("catch-up scenarios: a write the leader acknowledged to the harness at raft index W is a command entry; if W <= the node's raft last_log_index statistic (before and after the call) the node has been sent it, so with fsm_index < W the node is behind whatever its command_commit_index statistic says")
	c.Assume("strict verdicts only when fsm_index, command_commit_index, fsm_update_time and leader_appended_at_time (Store.Stats) were identical before and after the call")
	c.Assume("the raft term reported by Store.Stats never decreases; for every linearizable read the term is sampled on the reading goroutine at the hook right after the commit index was sampled and at the hook right after the quorum confirmed leadership; only a served read with two different non-zero samples is a violation")
	if c.ReplayFile != "" {
		replay(c)
		return
	}
	partA(c)
	c.Exhaustive(false)
	c.Extra("grid_exhaustive", true)

	nScn := c.N(32, 480)
	nLin := c.N(6, 90) // "lin-term-change" scenarios, case numbers from linTermBase
	nCu := c.N(4, 48)  // "catch-up" scenarios, case numbers from catchUpBase
	tmp := vf.TempDir("c16")
	defer os.RemoveAll(tmp)
	par := 4
	sem := make(chan struct{}, par)
	var wg sync.WaitGroup
	var mu sync.Mutex
	judged := 0
	var cases []int
	for i := 0; i < nScn; i++ {
		cases = append(cases, i)
		if nLin > 0 && i%(nScn/nLin) == 0 && len(cases)-i-1 < nLin {
			cases = append(cases, linTermBase+len(cases)-i-1)
		}
	}
	for k := 0; k < nCu; k++ {
		// spread over the list so that they overlap with cheaper scenarios
		at := (2*k + 1) * len(cases) / (2 * nCu)
		cases = append(cases[:at], append([]int{catchUpBase + k}, cases[at:]...)...)
	}
	for _, i := range cases {
		wg.Add(1)
		go func(i int) {
			defer wg.Done()
			sem <- struct{}{}
			defer func() { <-sem }()
			args := []string{fmt.Sprint(i), fmt.Sprint(c.Seed), c.Tier, filepath.Join(tmp, fmt.Sprintf("s%d", i))}
			logp := filepath.Join(tmp, fmt.Sprintf("s%d.log", i))
			out, code, ok := vf.RunWorkerOnce(false, "c16", args, nil, logp, 6*time.Minute)
			os.Remove(logp)
			var r scnResult
			found := false
			for _, line := range strings.Split(string(out), "\n") {
				if strings.HasPrefix(line, "{") && json.Unmarshal([]byte(line), &r) == nil {
					found = true
				}
			}
			mu.Lock()
			defer mu.Unlock()
			c.Eval(1)
			if !found || !ok || code != 0 {
				c.Logf("scenario %d: exit=%d finished=%v result=%v", i, code, ok, found)
				c.Inconclusive("worker did not finish cleanly")
				if !found {
					return
				}
			}
			judged++
			judgeScenario(c, r)
		}(i)
	}
	wg.Wait()
	withVerdict := int(c.Counter("scenarios_with_verdict"))
	c.Logf("scenarios judged: %d of %d, with verdicts: %d", judged, len(cases), withVerdict)
	c.Require(int64(100000+nScn*3/4), 40000)
	if withVerdict < nScn/2 || c.Counter("none_refused:strict-behind-lag-over-bound") == 0 || c.Counter("none_refused:no-contact-within-bound") == 0 ||
		c.Counter("weak_refused_by_non_leader") == 0 || c.Counter("auto_nonvoter_none") == 0 || c.Counter("lin_term_change_judged") == 0 {
		// the live part saw too little (the grid alone would satisfy the thresholds)
		c.Inconclusive("live scenarios observed too little")
		c.Require(1<<40, 1<<30)
	}
}

// replay re-runs the case stored in a replay file: a live scenario is run
// three more times with the seed it was found with; a grid point means the
// whole (sub-second) grid is evaluated again.
func replay(c *vf.Ctx) {
	b, err := os.ReadFile(c.ReplayFile)
	if err != nil {
		panic(err)
	}
	var rf struct {
		Seed int64  `json:"seed"`
		Tier string `json:"tier"`
		Case struct {
			Scenario *int `json:"scenario"`
		} `json:"case"`
	}
	if err := json.Unmarshal(b, &rf); err != nil {
		panic(err)
	}
	if rf.Case.Scenario == nil {
		partA(c)
		c.Require(1, 1)
		return
	}
	tmp := vf.TempDir("c16r")
	defer os.RemoveAll(tmp)
	for k := 0; k < 3; k++ {
		args := []string{fmt.Sprint(*rf.Case.Scenario), fmt.Sprint(rf.Seed), rf.Tier, filepath.Join(tmp, fmt.Sprintf("r%d", k))}
		out, _, _ := vf.RunWorkerOnce(false, "c16", args, nil, filepath.Join(tmp, "log"), 6*time.Minute)
		var r scnResult
		for _, line := range strings.Split(string(out), "\n") {
			if strings.HasPrefix(line, "{") {
				json.Unmarshal([]byte(line), &r)
			}
		}
		c.Eval(1)
		judgeScenario(c, r)
	}
	c.Require(1, 1)
}

func judgeScenario(c *vf.Ctx, r scnResult) {
	if r.SetupErr != "" {
		c.Inconclusive("setup: " + trimErr(r.SetupErr))
		c.Logf("scenario %d (%s): setup: %s", r.Case, r.Kind, r.SetupErr)
		return
	}
	c.Count("scenario:"+r.Kind, 1)
	decided := 0
	bad := false
	for _, o := range r.Obs {
		c.Count("calls", 1)
		c.Count("calls:"+o.Level+":"+o.Role, 1)
		v, key, what := judgeObs(c, r, o)
		switch v {
		case "held":
			decided++
		case "violation":
			decided++
			bad = true
			rep := map[string]any{"scenario": r.Case, "kind": r.Kind, "params": r.Params, "obs": o}
			c.Violation(key, fmt.Sprintf("scenario %d (%s %v): %s", r.Case, r.Kind, r.Params, what), rep)
		}
	}
	c.Count("verdicts", int64(decided))
	if decided > 0 {
		pk, _ := json.Marshal(r.Params)
		c.Nontrivial("b|" + r.Kind + "|" + string(pk))
		c.Count("scenarios_with_verdict", 1)
		if !bad {
			c.Held(1)
		}
		small := r
		if len(small.Obs) > 6 {
			small.Obs = small.Obs[:6]
		}
		c.Sample(small)
	} else {
		c.Inconclusive("scenario produced no verdict (" + r.Kind + ")")
	}
}

func trimErr(s string) string {
	if i := strings.IndexByte(s, ':'); i > 0 {
		return s[:i]
	}
	return s
}

// judgeObs returns ("held"|"violation"|"", key, what).
func judgeObs(c *vf.Ctx, r scnResult, o obs) (string, string, string) {
	notLeader := !o.LeaderB && !o.LeaderA && o.Events == 0
	isLeader := o.LeaderB && o.LeaderA && o.Events == 0
	stableVoter := !o.VoterErr && o.VoterB == o.VoterA
	desc := fmt.Sprintf("node %s (%s) level=%s freshness=%.0fms strict=%v: served=%v err=%q effective=%s; leader before/after=%v/%v events=%d voter=%v/%v",
		o.Node, o.Role, o.Level, o.FreshMs, o.Strict, o.Served, o.Err, o.EffLevel, o.LeaderB, o.LeaderA, o.Events, o.VoterB, o.VoterA)
	switch o.Level {
	case "weak":
		if o.Served {
			if notLeader {
				return "violation", "weak:served-by-non-leader:" + o.Role, "weak read served by a node that did not believe it was leader. " + desc
			}
			c.Count("weak_served_by_leader", 1)
			return "held", "", ""
		}
		if notLeader {
			c.Count("weak_refused_by_non_leader", 1)
			return "held", "", ""
		}
		return "", "", ""
	case "auto":
		if !stableVoter {
			return "", "", ""
		}
		if o.VoterB {
			// must behave as weak
			if o.Served {
				if o.EffLevel != "WEAK" {
					return "violation", "auto:voter:resolved-" + strings.ToLower(o.EffLevel), "auto on a voter did not resolve to weak. " + desc
				}
				if notLeader {
					return "violation", "auto:voter:served-by-non-leader", "auto (= weak) on a voter served by a node that did not believe it was leader. " + desc
				}
				c.Count("auto_voter_leader_weak", 1)
				return "held", "", ""
			}
			if notLeader && o.Err == "not leader" {
				c.Count("auto_voter_follower_refused", 1)
				return "held", "", ""
			}
			return "", "", ""
		}
		// non-voter: must behave as none (no freshness given => must be served)
		if o.Served {
			if o.EffLevel != "NONE" {
				return "violation", "auto:nonvoter:resolved-" + strings.ToLower(o.EffLevel), "auto on a non-voter did not resolve to none. " + desc
			}
			c.Count("auto_nonvoter_none", 1)
			return "held", "", ""
		}
		if o.Err == "not leader" {
			return "violation", "auto:nonvoter:resolved-weak", "auto on a non-voter was refused as if it were weak. " + desc
		}
		if o.Err == "stale read" && o.FreshMs == 0 {
			return "violation", "auto:nonvoter:refused-stale-without-bound", "auto on a non-voter without freshness bound refused as stale. " + desc
		}
		return "", "", ""
	case "linearizable":
		// "confirmed leadership with a quorum in an unchanged term": the term the
		// node was in when the read had just sampled the commit index and the
		// term it was in when the quorum had just confirmed its leadership were
		// both observed on the reading goroutine (raft terms never decrease).
		if o.TermCI > 0 && o.TermVL > 0 && o.TermCI != o.TermVL {
			c.Count("lin_term_change_judged", 1)
			if o.Served {
				return "violation", "linearizable:served-across-term-change", fmt.Sprintf("linearizable read served although the node's term was %d when the read sampled the commit index and %d when the quorum confirmed its leadership (leadership during the read: %s). %s",
					o.TermCI, o.TermVL, map[bool]string{true: o.Disturb, false: "not disturbed by the harness"}[o.Disturb != ""], desc)
			}
			c.Count("lin_refused_after_term_change", 1)
			return "held", "", ""
		}
		if o.Served && notLeader {
			return "violation", "linearizable:served-by-non-leader:" + o.Role, "linearizable read served by a node that did not believe it was leader. " + desc
		}
		if o.Served && o.CutMs > 0 {
			// cut off from every other node for the whole call: no quorum can
			// have confirmed leadership. Judged on the third consecutive one
			// (one ack that was already in flight before the cut cannot serve three).
			if o.Streak >= 3 {
				return "violation", "linearizable:served-without-quorum", fmt.Sprintf("three consecutive linearizable reads served by a node cut off from all others for %.0f ms. %s", o.CutMs, desc)
			}
			return "", "", ""
		}
		if o.Served && o.WriteIdx != 0 {
			if o.CommitB >= o.WriteIdx {
				if o.Rows < o.WantRows {
					return "violation", "linearizable:returned-before-apply", fmt.Sprintf("linearizable read started with commit index %d >= write index %d but returned %d rows, want %d. %s", o.CommitB, o.WriteIdx, o.Rows, o.WantRows, desc)
				}
				c.Count("lin_waited_for_committed_write:"+o.EffLevel, 1)
				return "held", "", ""
			}
			return "", "", ""
		}
		if o.Served && isLeader && o.WantRows >= 0 {
			if o.Rows < o.WantRows {
				return "violation", "linearizable:missing-acknowledged-writes", fmt.Sprintf("linearizable read on the leader returned %d rows, %d writes were acknowledged before. %s", o.Rows, o.WantRows, desc)
			}
			c.Count("lin_leader_served", 1)
			return "held", "", ""
		}
		if !o.Served && (notLeader || o.CutMs > 0) {
			c.Count("lin_refused_non_leader_or_cut", 1)
			return "held", "", ""
		}
		if !o.Served && o.Disturb != "" && o.Disturb != "none" && o.TermCI > 0 && o.TermVL == 0 {
			// leadership was taken away while the read was stalled before the
			// confirmation, and the confirmation did not succeed
			c.Count("lin_refused_confirmation_failed_after_disturbance", 1)
			return "held", "", ""
		}
		if o.Served && o.TermCI > 0 && o.TermCI == o.TermVL {
			c.Count("lin_served_terms_equal_at_hooks", 1)
		}
		return "", "", ""
	case "strong":
		if o.Served && notLeader {
			c.Count("strong_served_by_non_leader_(not_in_property)", 1)
		}
		return "", "", ""
	case "none":
		return judgeNone(c, r, o, desc)
	}
	return "", "", ""
}

func judgeNone(c *vf.Ctx, r scnResult, o obs, desc string) (string, string, string) {
	if !o.Served && o.Err != "stale read" {
		return "", "", "" // some other error (not open, ...): no verdict
	}
	if o.FreshMs == 0 {
		if !o.Served {
			return "violation", "none:no-bound:refused:" + o.Role, "none read without freshness bound refused as stale. " + desc
		}
		c.Count("none_nobound_served", 1)
		return "held", "", ""
	}
	if o.LeaderB || o.LeaderA || o.Events != 0 {
		return "", "", "" // the leader has no "last heard from the leader"
	}
	if !o.Full || !o.B.OK || !o.A.OK {
		return "", "", ""
	}
	bound := time.Duration(o.FreshMs * float64(time.Millisecond))
	el := time.Duration(o.A.AtNs - o.B.AtNs)
	ms := func(f float64) time.Duration { return time.Duration(f * float64(time.Millisecond)) }
	// last-contact clause
	contactRefuse, contactServe := false, false
	if o.B.Never && o.A.Never {
		contactRefuse = true
	} else if !o.B.Never && !o.A.Never {
		upper := ms(o.B.ContactMs) + el
		lower := ms(o.A.ContactMs) - el
		if lower < 0 {
			lower = 0
		}
		if lower > bound+boundaryMargin {
			contactRefuse = true
		}
		if upper < bound-boundaryMargin {
			contactServe = true
		}
	}
	stable := o.B.FsmIdx == o.A.FsmIdx && o.B.CmdIdx == o.A.CmdIdx && o.B.UpdNs == o.A.UpdNs && o.B.AppNs == o.A.AppNs
	lag := time.Duration(o.B.UpdNs - o.B.AppNs)
	strictRefuse, strictServe := false, !o.Strict
	why := ""
	// "behind" established independently of the node's own bookkeeping: a write the
	// leader acknowledged to the harness is in this node's raft log (before and
	// after the call) and its index is above the node's applied index.
	sentBehind := o.SentCmdB != 0 && o.SentCmdB == o.SentCmdA && o.B.FsmIdx < o.SentCmdB
	if o.Strict && stable {
		behind := o.B.FsmIdx < o.B.CmdIdx
		if sentBehind {
			c.Count("none_strict_judged_behind_by_log_contents", 1)
			if !behind {
				c.Count("none_strict_behind_by_log_contents_but_not_by_command_commit_index", 1)
			}
			behind = true
		}
		if o.B.AppNs != 0 && behind && lag > bound {
			strictRefuse = true
		} else {
			strictServe = true
			switch {
			case o.B.AppNs == 0:
				why = "no-applied-entry"
			case !behind && o.B.FsmIdx == o.B.CmdIdx:
				why = "caught-up"
			case !behind:
				why = "applied-index-ahead-of-command-index"
			default:
				why = "lag-within-bound"
			}
		}
	}
	state := fmt.Sprintf(" sampled state: fsm_index=%d command_commit_index=%d apply-minus-append=%s contact before/after=%.0f/%.0f ms never=%v/%v elapsed=%s leader_fsm=%d stable=%v",
		o.B.FsmIdx, o.B.CmdIdx, lag, o.B.ContactMs, o.A.ContactMs, o.B.Never, o.A.Never, el, o.LeaderFsm, stable)
	if o.SentCmdB != 0 || o.SentCmdA != 0 {
		state += fmt.Sprintf(" newest acknowledged write in the node's raft log before/after=%d/%d (last_log_index %d/%d)", o.SentCmdB, o.SentCmdA, o.B.LastLog, o.A.LastLog)
	}
	switch {
	case contactRefuse || strictRefuse:
		reason := "no-contact-within-bound"
		if !contactRefuse {
			reason = "strict-behind-lag-over-bound"
		}
		if o.Served {
			return "violation", "none:stale-served:" + reason + ":" + o.Role, "none read served although the staleness rule says refuse (" + reason + "). " + desc + state
		}
		c.Count("none_refused:"+reason, 1)
		return "held", "", ""
	case contactServe && strictServe:
		if !o.Served {
			k := "none:fresh-refused:" + o.Role
			if o.Strict {
				k = "none-strict:fresh-refused:" + why + ":" + o.Phase
			}
			return "violation", k, "none read refused as stale although the node heard from the leader within the bound" +
				map[bool]string{true: " and the strict clause does not apply (" + why + ")", false: ""}[o.Strict] + ". " + desc + state
		}
		if o.Strict {
			c.Count("none_strict_served:"+why, 1)
		} else {
			c.Count("none_fresh_served", 1)
			if o.B.FsmIdx < o.B.CmdIdx && stable {
				c.Count("none_nonstrict_served_while_behind", 1)
			}
		}
		return "held", "", ""
	}
	c.Count("none_not_judged_(near_bound_or_unstable)", 1)
	return "", "", ""
}
