package c18

import (
	"bytes"
	"context"
	"crypto/sha256"
	"encoding/hex"
	"encoding/json"
	"fmt"
	"net/url"
	"os"
	"path/filepath"
	"sort"
	"strings"
	"time"

	"github.com/rqlite/rqlite/v10/auth"
	clproto "github.com/rqlite/rqlite/v10/cluster/proto"
	cproto "github.com/rqlite/rqlite/v10/command/proto"
	"github.com/rqlite/rqlite/v10/store"
	"verif/internal/hcluster"
	"verif/internal/sqlref"
	"verif/internal/vf"
)

// Canary strings. None of them ever appears in a request whose expected
// decision is "unauthorized", so finding one in a response is disclosure and not
// an echo of the request.
const (
	dbCanary     = "CNRYdbQ7x2Lm9vB" // row content
	schemaCanary = "CNRYscW4k8Zp1dK" // column name
	dirCanary    = "CNRYdirT5v3Hs6g" // data directory name (node detail: status, expvar)
)

var canaries = map[string]string{"db": dbCanary, "schema": schemaCanary, "dir": dirCanary}

// ---- credential store universe and the documented decision rule ----

type userDef struct {
	Name  string   `json:"username"`
	Pass  string   `json:"password,omitempty"`
	Perms []string `json:"perms,omitempty"`
}

type caseDef struct {
	No           int       `json:"no"`
	Variant      string    `json:"variant"`
	Users        []userDef `json:"users"`
	FollowerOpen bool      `json:"follower_open"` // follower runs without any credential store
}

func (cd caseDef) storeJSON() string {
	b, _ := json.Marshal(cd.Users)
	return string(b)
}

// spec is the documented rule (property C19): a permission granted to "*" (or
// "all" granted to "*") needs no authentication at all; otherwise a username
// must have been supplied, the user must exist, the password must match, and the
// user or "*" must hold the permission or "all". An entry of the credentials
// file without a username therefore authorizes nobody.
func (cd caseDef) spec(user, pass, perm string) bool {
	has := func(name, p string) bool {
		var u *userDef
		for i := range cd.Users {
			if cd.Users[i].Name == name {
				u = &cd.Users[i] // last definition wins
			}
		}
		if u == nil {
			return false
		}
		for _, q := range u.Perms {
			if q == p || q == "all" {
				return true
			}
		}
		return false
	}
	if has("*", perm) {
		return true
	}
	if user == "" {
		return false
	}
	var u *userDef
	for i := range cd.Users {
		if cd.Users[i].Name == user {
			u = &cd.Users[i]
		}
	}
	if u == nil || u.Pass != pass {
		return false
	}
	return has(user, perm)
}

// permRule is an OR of AND-sets of permissions; nil = no documented permission.
type permRule [][]string

func anyOf(p ...string) permRule {
	var r permRule
	for _, x := range p {
		r = append(r, []string{x})
	}
	return r
}
func allOf(p ...string) permRule { return permRule{p} }

func (cd caseDef) decide(rule permRule, pr pres) bool {
	user, pass := pr.User, pr.Pass
	if pr.None {
		user, pass = "", ""
	}
	for _, set := range rule {
		ok := true
		for _, p := range set {
			if !cd.spec(user, pass, p) {
				ok = false
			}
		}
		if ok {
			return true
		}
	}
	return false
}

type pres struct {
	Name string `json:"name"`
	None bool   `json:"none,omitempty"`
	User string `json:"user,omitempty"`
	Pass string `json:"pass,omitempty"`
}

func (cd caseDef) presentations() []pres {
	// "empty-credentials" differs from "none" on the wire: an Authorization header
	// carrying Basic auth of ":" / a Credentials message with empty fields, instead
	// of no header / no message.
	out := []pres{{Name: "none", None: true}, {Name: "empty-credentials", User: "", Pass: ""}, {Name: "unknown-user", User: "ghost", Pass: "pw-u1"}}
	for _, u := range cd.Users {
		if u.Name == "*" {
			continue
		}
		if u.Name == "" {
			// an entry without a username: present its password (and a wrong one) with
			// an empty username
			out = append(out, pres{Name: "wrong-password:(nameless)", User: "", Pass: u.Pass + "x"})
			if u.Pass != "" { // with an empty password this is "empty-credentials"
				out = append(out, pres{Name: "right-password:(nameless)", User: "", Pass: u.Pass})
			}
			continue
		}
		out = append(out, pres{Name: "wrong-password:" + u.Name, User: u.Name, Pass: u.Pass + "x"})
		out = append(out, pres{Name: "right-password:" + u.Name, User: u.Name, Pass: u.Pass})
	}
	out = append(out, pres{Name: "empty-password:u1", User: "u1", Pass: ""})
	return out
}

// ---- request tables ----

type hreq struct {
	Name       string
	Method     string
	Path       string
	CT         string
	Body       func(e *env, authorized bool) []byte
	Rule       permRule // nil: route without a documented permission
	FwdRule    permRule // permission of the inter-node command a follower forwards it as, when different
	Forward    bool     // needs the leader: a follower forwards it with the caller's credentials
	Irrelevant bool     // method the route does not serve: 401 or 405 both count as refusal
	LeaderOnly bool     // only sent to a follower when the expected decision is "unauthorized"
	NoFollower bool     // never sent to a follower
	Stepdown   bool     // a (wrongly) performed action moves leadership
}

type creq struct {
	Name     string
	Build    func(e *env, authorized bool) *clproto.Command
	Rule     permRule
	Stepdown bool
}

type env struct {
	cl        *hcluster.Cluster
	cd        caseDef
	leader    *hcluster.Node
	follower  *hcluster.Node
	markerDB  []byte // a valid SQLite file with other content (load/boot bodies of refused requests)
	tokN      int
	scratch   string
}

func (e *env) tok(prefix string) string {
	e.tokN++
	return fmt.Sprintf("%s-%d", prefix, e.tokN)
}

func jsonBody(v any) []byte {
	b, _ := json.Marshal(v)
	return b
}

// currentDB returns a binary copy of the leader's database (used as the body of
// loads that are expected to be allowed, so that they do not destroy the canaries).
func (e *env) currentDB() []byte {
	var buf bytes.Buffer
	if err := e.leader.Store.Backup(context.Background(), &cproto.BackupRequest{Format: cproto.BackupRequest_BACKUP_REQUEST_FORMAT_BINARY, Leader: false}, &buf); err != nil {
		return e.markerDB
	}
	return buf.Bytes()
}

func httpTable() []hreq {
	sel := url.QueryEscape("SELECT * FROM secrets")
	ins := func(e *env, _ bool) []byte {
		return jsonBody([]any{[]any{"INSERT INTO oplog(tok) VALUES(?)", e.tok("h")}})
	}
	selBody := func(*env, bool) []byte { return jsonBody([]any{"SELECT * FROM secrets"}) }
	loadBin := func(e *env, authorized bool) []byte {
		if authorized {
			return e.currentDB()
		}
		return e.markerDB
	}
	stepBody := func(e *env, authorized bool) []byte {
		if authorized {
			// performing the action is not what is asserted for allowed requests;
			// an unknown target keeps the roles of the two nodes stable
			return []byte(`{"id":"no-such-node"}`)
		}
		return nil
	}
	ex, qu, bk, ld, st := anyOf("execute"), anyOf("query"), anyOf("backup"), anyOf("load"), anyOf("status")
	return []hreq{
		{Name: "ui", Method: "GET", Path: "/console/", Rule: anyOf("ui")},
		{Name: "ui-head", Method: "HEAD", Path: "/console/", Rule: anyOf("ui")},
		{Name: "ui-asset", Method: "GET", Path: "/console/index.html", Rule: anyOf("ui")},
		{Name: "execute", Method: "POST", Path: "/db/execute", CT: "application/json", Body: ins, Rule: ex, Forward: true},
		{Name: "execute-tx", Method: "POST", Path: "/db/execute?transaction&timings", CT: "application/json", Body: ins, Rule: ex, Forward: true},
		{Name: "execute-text", Method: "POST", Path: "/db/execute", CT: "text/plain", Body: func(e *env, _ bool) []byte {
			return []byte("INSERT INTO oplog(tok) VALUES('" + e.tok("t") + "')")
		}, Rule: ex, Forward: true},
		{Name: "execute-queue", Method: "POST", Path: "/db/execute?queue&wait&timeout=20s", CT: "application/json", Body: ins, Rule: ex, LeaderOnly: true},
		{Name: "query", Method: "GET", Path: "/db/query?q=" + sel, Rule: qu, Forward: true},
		{Name: "query-none", Method: "GET", Path: "/db/query?level=none&q=" + sel, Rule: qu},
		{Name: "query-strong", Method: "GET", Path: "/db/query?level=strong&q=" + sel, Rule: qu, Forward: true},
		{Name: "query-linearizable", Method: "GET", Path: "/db/query?level=linearizable&q=" + sel, Rule: qu, Forward: true},
		{Name: "query-assoc", Method: "GET", Path: "/db/query?associative&pretty&q=" + sel, Rule: qu, Forward: true},
		{Name: "query-post", Method: "POST", Path: "/db/query", CT: "application/json", Body: selBody, Rule: qu, Forward: true},
		{Name: "query-post-text", Method: "POST", Path: "/db/query?level=none", CT: "text/plain", Body: func(*env, bool) []byte { return []byte("SELECT * FROM secrets") }, Rule: qu},
		{Name: "request-rw", Method: "POST", Path: "/db/request", CT: "application/json", Body: func(e *env, _ bool) []byte {
			return jsonBody([]any{"SELECT * FROM secrets", []any{"INSERT INTO oplog(tok) VALUES(?)", e.tok("r")}})
		}, Rule: allOf("query", "execute"), Forward: true},
		{Name: "request-ro", Method: "POST", Path: "/db/request", CT: "application/json", Body: selBody, Rule: allOf("query", "execute"), Forward: true},
		{Name: "request-ro-none", Method: "POST", Path: "/db/request?level=none", CT: "application/json", Body: selBody, Rule: allOf("query", "execute")},
		{Name: "backup", Method: "GET", Path: "/db/backup", Rule: bk, Forward: true},
		{Name: "backup-sql", Method: "GET", Path: "/db/backup?fmt=sql", Rule: bk, Forward: true},
		// (a compressed backup served through a follower only ends when the leader's idle
		// timeout closes the connection, 30 s: C21's subject; sent to the leader only)
		{Name: "backup-gz", Method: "GET", Path: "/db/backup?compress", Rule: bk, NoFollower: true},
		{Name: "backup-tables", Method: "GET", Path: "/db/backup?fmt=sql&tables=secrets", Rule: bk, Forward: true},
		{Name: "backup-noleader", Method: "GET", Path: "/db/backup?noleader", Rule: bk},
		{Name: "backup-noleader-gz", Method: "GET", Path: "/db/backup?noleader&compress", Rule: bk},
		{Name: "load-sql", Method: "POST", Path: "/db/load", CT: "text/plain", Body: func(e *env, _ bool) []byte {
			return []byte("INSERT INTO oplog(tok) VALUES('" + e.tok("l") + "');\n")
		}, Rule: ld, Forward: true, FwdRule: ex},
		{Name: "load-bin", Method: "POST", Path: "/db/load", CT: "application/octet-stream", Body: loadBin, Rule: ld, Forward: true},
		{Name: "sql-get", Method: "GET", Path: "/db/sql?q=" + url.QueryEscape("SELECT random()"), Rule: qu},
		{Name: "sql-post", Method: "POST", Path: "/db/sql", CT: "application/json", Body: func(*env, bool) []byte { return jsonBody([]any{"SELECT datetime('now')"}) }, Rule: qu},
		{Name: "boot", Method: "POST", Path: "/boot", CT: "application/octet-stream", Body: func(e *env, _ bool) []byte { return e.markerDB }, Rule: ld},
		{Name: "snapshot", Method: "POST", Path: "/snapshot", Rule: anyOf("snapshot")},
		{Name: "reap", Method: "POST", Path: "/reap", Rule: anyOf("snapshot")},
		{Name: "remove", Method: "DELETE", Path: "/remove", CT: "application/json", Body: func(*env, bool) []byte { return []byte(`{"id":"ghost-node"}`) }, Rule: anyOf("remove"), Forward: true},
		{Name: "status", Method: "GET", Path: "/status", Rule: st},
		{Name: "status-pretty-key", Method: "GET", Path: "/status?pretty&key=store", Rule: st},
		{Name: "nodes", Method: "GET", Path: "/nodes", Rule: st},
		{Name: "nodes-v2", Method: "GET", Path: "/nodes?ver=2&nonvoters&pretty", Rule: st},
		{Name: "leader-get", Method: "GET", Path: "/leader", Rule: anyOf("leader-ops")},
		{Name: "leader-stepdown", Method: "POST", Path: "/leader?wait=true", CT: "application/json", Body: stepBody, Rule: anyOf("leader-ops"), Forward: true, Stepdown: true},
		{Name: "readyz", Method: "GET", Path: "/readyz", Rule: anyOf("ready")},
		{Name: "readyz-noleader", Method: "GET", Path: "/readyz?noleader", Rule: anyOf("ready")},
		{Name: "readyz-sync", Method: "GET", Path: "/readyz?sync&timeout=5s", Rule: anyOf("ready")},
		{Name: "licenses", Method: "GET", Path: "/licenses", Rule: st},
		{Name: "expvar", Method: "GET", Path: "/debug/vars", Rule: st},
		{Name: "expvar-key", Method: "GET", Path: "/debug/vars?key=cmdline", Rule: st},
		{Name: "pprof-index", Method: "GET", Path: "/debug/pprof/", Rule: st},
		{Name: "pprof-cmdline", Method: "GET", Path: "/debug/pprof/cmdline", Rule: st},
		{Name: "pprof-heap", Method: "GET", Path: "/debug/pprof/heap?debug=1", Rule: st},
		{Name: "pprof-symbol", Method: "GET", Path: "/debug/pprof/symbol", Rule: st},
		// prefix matches of ServeHTTP reach the same handlers
		{Name: "query-prefix", Method: "GET", Path: "/db/queryX?level=none&q=" + sel, Rule: qu},
		{Name: "status-subpath", Method: "GET", Path: "/status/x", Rule: st},
		{Name: "nodes-subpath", Method: "GET", Path: "/nodes/x", Rule: st},
		{Name: "backup-prefix", Method: "GET", Path: "/db/backupX?noleader", Rule: bk},
		// methods the route does not serve
		{Name: "execute-GET", Method: "GET", Path: "/db/execute", Rule: ex, Irrelevant: true},
		{Name: "backup-POST", Method: "POST", Path: "/db/backup", Rule: bk, Irrelevant: true},
		{Name: "load-GET", Method: "GET", Path: "/db/load", Rule: ld, Irrelevant: true},
		{Name: "snapshot-GET", Method: "GET", Path: "/snapshot", Rule: anyOf("snapshot"), Irrelevant: true},
		{Name: "remove-POST", Method: "POST", Path: "/remove", CT: "application/json", Body: func(*env, bool) []byte { return []byte(`{"id":"ghost-node"}`) }, Rule: anyOf("remove"), Irrelevant: true},
		{Name: "leader-DELETE", Method: "DELETE", Path: "/leader", Rule: anyOf("leader-ops"), Irrelevant: true},
		{Name: "query-PUT", Method: "PUT", Path: "/db/query?q=" + sel, Rule: qu, Irrelevant: true},
		// routes without a documented permission: only non-disclosure and no side effect are asserted
		{Name: "root-redirect", Method: "GET", Path: "/"},
		{Name: "console-redirect", Method: "GET", Path: "/console"},
		{Name: "options-preflight", Method: "OPTIONS", Path: "/db/query?q=" + sel},
		{Name: "unknown-path", Method: "GET", Path: "/no-such-endpoint"},
	}
}

func cmdTable() []creq {
	stmt := func(sql string, params ...string) *cproto.Statement {
		s := &cproto.Statement{Sql: sql}
		for _, p := range params {
			s.Parameters = append(s.Parameters, &cproto.Parameter{Value: &cproto.Parameter_S{S: p}})
		}
		return s
	}
	reqOf := func(st ...*cproto.Statement) *cproto.Request { return &cproto.Request{Statements: st} }
	backup := func(f cproto.BackupRequest_Format, compress bool) *cproto.BackupRequest {
		return &cproto.BackupRequest{Format: f, Leader: false, Compress: compress}
	}
	bin, sqlf := cproto.BackupRequest_BACKUP_REQUEST_FORMAT_BINARY, cproto.BackupRequest_BACKUP_REQUEST_FORMAT_SQL
	T := func(t clproto.Command_Type) *clproto.Command { return &clproto.Command{Type: t} }
	return []creq{
		{Name: "GET_NODE_META", Build: func(*env, bool) *clproto.Command { return T(clproto.Command_COMMAND_TYPE_GET_NODE_META) }},
		{Name: "EXECUTE", Rule: anyOf("execute"), Build: func(e *env, _ bool) *clproto.Command {
			c := T(clproto.Command_COMMAND_TYPE_EXECUTE)
			c.Request = &clproto.Command_ExecuteRequest{ExecuteRequest: &cproto.ExecuteRequest{Request: reqOf(stmt("INSERT INTO oplog(tok) VALUES(?)", e.tok("ce")))}}
			return c
		}},
		{Name: "QUERY", Rule: anyOf("query"), Build: func(*env, bool) *clproto.Command {
			c := T(clproto.Command_COMMAND_TYPE_QUERY)
			c.Request = &clproto.Command_QueryRequest{QueryRequest: &cproto.QueryRequest{Request: reqOf(stmt("SELECT * FROM secrets")), Level: cproto.ConsistencyLevel_NONE}}
			return c
		}},
		{Name: "QUERY:strong", Rule: anyOf("query"), Build: func(*env, bool) *clproto.Command {
			c := T(clproto.Command_COMMAND_TYPE_QUERY)
			c.Request = &clproto.Command_QueryRequest{QueryRequest: &cproto.QueryRequest{Request: reqOf(stmt("SELECT * FROM secrets")), Level: cproto.ConsistencyLevel_STRONG}}
			return c
		}},
		{Name: "REQUEST", Rule: allOf("query", "execute"), Build: func(e *env, _ bool) *clproto.Command {
			c := T(clproto.Command_COMMAND_TYPE_REQUEST)
			c.Request = &clproto.Command_ExecuteQueryRequest{ExecuteQueryRequest: &cproto.ExecuteQueryRequest{
				Request: reqOf(stmt("SELECT * FROM secrets"), stmt("INSERT INTO oplog(tok) VALUES(?)", e.tok("cr")))}}
			return c
		}},
		{Name: "REQUEST:ro-none", Rule: allOf("query", "execute"), Build: func(e *env, _ bool) *clproto.Command {
			c := T(clproto.Command_COMMAND_TYPE_REQUEST)
			c.Request = &clproto.Command_ExecuteQueryRequest{ExecuteQueryRequest: &cproto.ExecuteQueryRequest{
				Request: reqOf(stmt("SELECT * FROM secrets")), Level: cproto.ConsistencyLevel_NONE}}
			return c
		}},
		{Name: "BACKUP", Rule: anyOf("backup"), Build: func(*env, bool) *clproto.Command {
			c := T(clproto.Command_COMMAND_TYPE_BACKUP)
			c.Request = &clproto.Command_BackupRequest{BackupRequest: backup(bin, false)}
			return c
		}},
		{Name: "BACKUP:sql", Rule: anyOf("backup"), Build: func(*env, bool) *clproto.Command {
			c := T(clproto.Command_COMMAND_TYPE_BACKUP)
			c.Request = &clproto.Command_BackupRequest{BackupRequest: backup(sqlf, false)}
			return c
		}},
		{Name: "BACKUP_STREAM", Rule: anyOf("backup"), Build: func(*env, bool) *clproto.Command {
			c := T(clproto.Command_COMMAND_TYPE_BACKUP_STREAM)
			c.Request = &clproto.Command_BackupRequest{BackupRequest: backup(bin, false)}
			return c
		}},
		{Name: "BACKUP_STREAM:sql", Rule: anyOf("backup"), Build: func(*env, bool) *clproto.Command {
			c := T(clproto.Command_COMMAND_TYPE_BACKUP_STREAM)
			c.Request = &clproto.Command_BackupRequest{BackupRequest: backup(sqlf, true)}
			return c
		}},
		{Name: "LOAD", Rule: anyOf("load"), Build: func(e *env, authorized bool) *clproto.Command {
			c := T(clproto.Command_COMMAND_TYPE_LOAD)
			data := e.markerDB
			if authorized {
				data = e.currentDB()
			}
			c.Request = &clproto.Command_LoadRequest{LoadRequest: &cproto.LoadRequest{Data: data}}
			return c
		}},
		{Name: "LOAD_CHUNK", Build: func(e *env, _ bool) *clproto.Command {
			c := T(clproto.Command_COMMAND_TYPE_LOAD_CHUNK)
			c.Request = &clproto.Command_LoadChunkRequest{LoadChunkRequest: &cproto.LoadChunkRequest{StreamId: "s", SequenceNum: 1, IsLast: true, Data: e.markerDB[:64]}}
			return c
		}},
		{Name: "REMOVE_NODE", Rule: anyOf("remove"), Build: func(*env, bool) *clproto.Command {
			c := T(clproto.Command_COMMAND_TYPE_REMOVE_NODE)
			c.Request = &clproto.Command_RemoveNodeRequest{RemoveNodeRequest: &cproto.RemoveNodeRequest{Id: "ghost-node"}}
			return c
		}},
		{Name: "NOTIFY", Rule: anyOf("join"), Build: func(*env, bool) *clproto.Command {
			c := T(clproto.Command_COMMAND_TYPE_NOTIFY)
			c.Request = &clproto.Command_NotifyRequest{NotifyRequest: &cproto.NotifyRequest{Id: "ghost-node", Address: "127.0.0.1:9"}}
			return c
		}},
		{Name: "JOIN:voter", Rule: anyOf("join"), Build: func(e *env, authorized bool) *clproto.Command {
			c := T(clproto.Command_COMMAND_TYPE_JOIN)
			jr := &cproto.JoinRequest{Id: "ghost-joiner", Address: "127.0.0.1:9", Voter: true}
			if authorized { // an existing member: acknowledged and ignored
				jr = &cproto.JoinRequest{Id: e.follower.ID, Address: e.follower.RaftAddr, Voter: true}
			}
			c.Request = &clproto.Command_JoinRequest{JoinRequest: jr}
			return c
		}},
		{Name: "JOIN:non-voter", Rule: anyOf("join-read-only", "join-read-replica"), Build: func(e *env, authorized bool) *clproto.Command {
			c := T(clproto.Command_COMMAND_TYPE_JOIN)
			jr := &cproto.JoinRequest{Id: "ghost-joiner", Address: "127.0.0.1:9", Voter: false}
			if authorized {
				// a non-voter that does not exist: it joins the configuration without
				// changing the quorum (re-joining the real follower as non-voter would
				// demote it); a second join of the same id and address is ignored
				jr = &cproto.JoinRequest{Id: "ghost-read-replica", Address: "127.0.0.1:9", Voter: false}
			}
			c.Request = &clproto.Command_JoinRequest{JoinRequest: jr}
			return c
		}},
		{Name: "STEPDOWN", Rule: anyOf("leader-ops"), Stepdown: true, Build: func(_ *env, authorized bool) *clproto.Command {
			c := T(clproto.Command_COMMAND_TYPE_STEPDOWN)
			sr := &cproto.StepdownRequest{Wait: true}
			if authorized {
				sr.Id = "no-such-node"
			}
			c.Request = &clproto.Command_StepdownRequest{StepdownRequest: sr}
			return c
		}},
		{Name: "HIGHWATER_MARK_UPDATE", Build: func(*env, bool) *clproto.Command {
			c := T(clproto.Command_COMMAND_TYPE_HIGHWATER_MARK_UPDATE)
			c.Request = &clproto.Command_HighwaterMarkUpdateRequest{HighwaterMarkUpdateRequest: &clproto.HighwaterMarkUpdateRequest{NodeId: "x", HighwaterMark: 1}}
			return c
		}},
		{Name: "UNKNOWN", Build: func(*env, bool) *clproto.Command { return T(clproto.Command_COMMAND_TYPE_UNKNOWN) }},
	}
}

// ---- node state ----

type nodeState struct {
	Dump   string `json:"dump"` // hash of the logical SQL dump
	Config string `json:"config"`
	Leader string `json:"leader"`
	Snaps  string `json:"snapshots"`
}

type clusterState struct {
	Commit uint64               `json:"commit_index"`
	Nodes  map[string]nodeState `json:"nodes"`
}

func (e *env) dumpHash(n *hcluster.Node) (string, error) {
	var buf bytes.Buffer
	if err := n.Store.Backup(context.Background(), &cproto.BackupRequest{Format: cproto.BackupRequest_BACKUP_REQUEST_FORMAT_SQL, Leader: false}, &buf); err != nil {
		return "", err
	}
	h := sha256.Sum256(buf.Bytes())
	return hex.EncodeToString(h[:8]), nil
}

// snapNames lists the completed snapshots of a node; busy reports a snapshot
// still being written.
func snapNames(n *hcluster.Node) (names string, busy bool) {
	ents, _ := os.ReadDir(filepath.Join(n.Dir, "wsnapshots"))
	var l []string
	for _, en := range ents {
		nm := en.Name()
		if strings.HasSuffix(nm, ".tmp") {
			busy = true
			continue
		}
		if !en.IsDir() {
			continue // marker files (FULL_NEEDED, REAP_PLAN)
		}
		l = append(l, nm)
	}
	sort.Strings(l)
	return strings.Join(l, ","), busy
}

// capture records the state of both nodes once the follower has caught up with
// the leader (same logical dump) and no snapshot is being written. A follower
// that stays different from the leader is reported in its own dump field.
func (e *env) capture() (clusterState, string) {
	cs := clusterState{Nodes: map[string]nodeState{}}
	l := e.cl.Leader()
	if l == nil {
		return cs, "no leader"
	}
	deadline := time.Now().Add(20 * time.Second)
	for {
		ci, err := l.Store.CommitIndex()
		if err != nil {
			return cs, "commit index: " + err.Error()
		}
		cs.Commit = ci
		ld, err := e.dumpHash(l)
		if err != nil {
			return cs, "dump " + l.ID + ": " + err.Error()
		}
		settled := true
		for _, n := range e.cl.Live() {
			var ns nodeState
			if n == l {
				ns.Dump = ld
			} else {
				if n.Store.AppliedIndex() < ci {
					settled = false
				}
				if ns.Dump, err = e.dumpHash(n); err != nil {
					return cs, "dump " + n.ID + ": " + err.Error()
				}
				if ns.Dump != ld {
					settled = false
				}
			}
			srv, err := n.Store.Nodes()
			if err != nil {
				return cs, "nodes " + n.ID + ": " + err.Error()
			}
			var parts []string
			for _, s := range srv {
				parts = append(parts, fmt.Sprintf("%s@%s/%v", s.ID, s.Addr, s.Suffrage))
			}
			sort.Strings(parts)
			ns.Config = strings.Join(parts, ",")
			ns.Leader, _ = n.Store.LeaderAddr()
			var busy bool
			if ns.Snaps, busy = snapNames(n); busy {
				settled = false
			}
			cs.Nodes[n.ID] = ns
		}
		if ci2, _ := l.Store.CommitIndex(); ci2 != ci {
			settled = false
		}
		if settled || time.Now().After(deadline) {
			return cs, ""
		}
		time.Sleep(3 * time.Millisecond)
	}
}

// settle waits until two captures 100 ms apart agree (used after requests that
// are known to leave work running on the leader after the response).
func (e *env) settle() {
	prev, _ := e.capture()
	for i := 0; i < 100; i++ {
		time.Sleep(100 * time.Millisecond)
		cur, _ := e.capture()
		if len(diffState(prev, cur)) == 0 {
			return
		}
		prev = cur
	}
}

func diffState(a, b clusterState) []string {
	var d []string
	if a.Commit != b.Commit {
		d = append(d, fmt.Sprintf("raft commit index %d -> %d", a.Commit, b.Commit))
	}
	for id, x := range a.Nodes {
		y := b.Nodes[id]
		if x.Dump != y.Dump {
			d = append(d, id+": database dump changed")
		}
		if x.Config != y.Config {
			d = append(d, fmt.Sprintf("%s: configuration %s -> %s", id, x.Config, y.Config))
		}
		if x.Leader != y.Leader {
			d = append(d, fmt.Sprintf("%s: leader %s -> %s", id, x.Leader, y.Leader))
		}
		if x.Snaps != y.Snaps {
			d = append(d, fmt.Sprintf("%s: snapshots [%s] -> [%s]", id, x.Snaps, y.Snaps))
		}
	}
	sort.Strings(d)
	return d
}

// ---- observations ----

type problem struct {
	Class  string `json:"class"` // not-refused | discloses | side-effect | authorized-refused
	Detail string `json:"detail"`
}

type obs struct {
	Idx      int       `json:"idx"`
	Surface  string    `json:"surface"` // http | http-fwd | internode
	Route    string    `json:"route"`
	Method   string    `json:"method,omitempty"`
	Path     string    `json:"path,omitempty"`
	Role     string    `json:"node_role"`
	Pres     pres      `json:"presentation"`
	Expected string    `json:"expected"` // authorized | unauthorized | unguarded
	Status   int       `json:"http_status,omitempty"`
	Bytes    int       `json:"bytes_received"`
	Head     string    `json:"response_head,omitempty"`
	Problems []problem `json:"problems,omitempty"`
	Inconcl  string    `json:"inconclusive,omitempty"`
}

type caseOut struct {
	Case     caseDef          `json:"case"`
	SetupErr string           `json:"setup_err,omitempty"`
	Counters map[string]int64 `json:"counters"`
	Keys     []string         `json:"keys"` // distinct non-trivial request keys
	Bad      []obs            `json:"bad"`  // observations with problems or without verdict
	Samples  []obs            `json:"samples"`
	Evals    int              `json:"evals"`
	Held     int              `json:"held"`
}

// closeCluster shuts the case's cluster down. It is called after the result has
// been written and is bounded: an rqlite node whose write queue is retrying a
// refused batch can block in Service.Close for ever.
var closeCluster = func() {}

func worker(args []string) {
	// args: caseFile dir outFile seed
	b, err := os.ReadFile(args[0])
	if err != nil {
		panic(err)
	}
	var cd caseDef
	if err := json.Unmarshal(b, &cd); err != nil {
		panic(err)
	}
	var seed int64
	fmt.Sscan(args[3], &seed)
	out := runCase(cd, args[1], seed)
	ob, _ := json.Marshal(out)
	os.WriteFile(args[2], ob, 0644)
	done := make(chan struct{})
	go func() { closeCluster(); close(done) }()
	select {
	case <-done:
	case <-time.After(20 * time.Second):
		fmt.Fprintln(os.Stderr, "cluster shutdown did not finish within 20 s; exiting")
	}
	os.Exit(0)
}

func runCase(cd caseDef, dir string, seed int64) (out caseOut) {
	out.Case = cd
	out.Counters = map[string]int64{}
	cnt := func(k string, n int64) { out.Counters[k] += n }
	fail := func(f string, a ...any) caseOut {
		out.SetupErr = fmt.Sprintf(f, a...)
		return out
	}
	cs := auth.NewCredentialsStore()
	if err := cs.Load(strings.NewReader(cd.storeJSON())); err != nil {
		return fail("load credentials: %v", err)
	}
	base := filepath.Join(dir, dirCanary)
	cl := hcluster.New(base)
	closeCluster = cl.Close // the caller closes it after the result is written
	opt := func(id string, open bool) hcluster.Options {
		o := hcluster.Options{ID: id, HeartbeatTimeout: 1500 * time.Millisecond, ElectionTimeout: 1500 * time.Millisecond, LeaderLease: time.Second,
			SnapshotInterval: time.Hour, NoSnapshotOnClose: true, ReapThreshold: 1 << 20,
			Tune: func(s *store.Store) { s.SnapshotThreshold = 1 << 30 }}
		if !open {
			o.HTTPCreds = cs
			o.ClusterCreds = cs
		}
		return o
	}
	if _, err := cl.Add(opt("n1", false), true); err != nil {
		return fail("first node: %v", err)
	}
	if _, err := cl.Add(opt("n2", cd.FollowerOpen), true); err != nil {
		return fail("second node: %v", err)
	}
	l := cl.WaitLeader(60 * time.Second)
	if l == nil {
		return fail("no leader")
	}
	e := &env{cl: cl, cd: cd, scratch: dir}
	lostPin := false
	setRoles := func() bool {
		ld := cl.WaitLeader(60 * time.Second)
		if ld == nil {
			return false
		}
		if cd.FollowerOpen && ld.ID != "n1" {
			// In this variant the roles are tied to the nodes: n1 has the store and must
			// lead. An election (machine load) made the store-less node leader: hand
			// leadership back, or give up on the case.
			cnt("follower-open:leadership-handed-back", 1)
			for i := 0; i < 5 && ld != nil && ld.ID != "n1"; i++ {
				ld.Store.Stepdown(true, "n1")
				time.Sleep(200 * time.Millisecond)
				ld = cl.WaitLeader(60 * time.Second)
			}
			if ld == nil || ld.ID != "n1" {
				lostPin = true
				return false
			}
		}
		e.leader = ld
		for _, n := range cl.Live() {
			if n != ld {
				e.follower = n
			}
		}
		return true
	}
	if !setRoles() {
		return fail("no leader")
	}
	// content
	setup := []string{
		"CREATE TABLE secrets (id INTEGER PRIMARY KEY, col_" + schemaCanary + " TEXT)",
		"INSERT INTO secrets VALUES(1, '" + dbCanary + "-row1')",
		"INSERT INTO secrets VALUES(2, 'second " + dbCanary + " row')",
		"CREATE TABLE oplog (tok TEXT NOT NULL)",
	}
	var stmts []*cproto.Statement
	for _, s := range setup {
		stmts = append(stmts, &cproto.Statement{Sql: s})
	}
	res, _, err := l.Store.Execute(context.Background(), &cproto.ExecuteRequest{Request: &cproto.Request{Statements: stmts, Transaction: true}})
	if err != nil {
		return fail("schema: %v", err)
	}
	for _, r := range res {
		if r.GetError() != "" {
			return fail("schema: %s", r.GetError())
		}
	}
	// marker database
	mp := filepath.Join(dir, "marker.sqlite")
	mdb, err := sqlref.Open(mp)
	if err != nil {
		return fail("marker db: %v", err)
	}
	if _, err := mdb.Exec("CREATE TABLE marker (x TEXT); INSERT INTO marker VALUES('loaded-by-a-refused-request')"); err != nil {
		return fail("marker db: %v", err)
	}
	mdb.Exec("PRAGMA wal_checkpoint(TRUNCATE)")
	mdb.Close()
	if e.markerDB, err = os.ReadFile(mp); err != nil || !bytes.HasPrefix(e.markerDB, []byte(sqliteMagic)) {
		return fail("marker db unreadable: %v", err)
	}

	base0, why := e.capture()
	if why != "" {
		return fail("initial state: %s", why)
	}
	cur := base0

	type job struct {
		http *hreq
		cmd  *creq
		role string // leader | follower
		pr   pres
	}
	var jobs []job
	ht, ct := httpTable(), cmdTable()
	for i := range ht {
		for _, role := range []string{"leader", "follower"} {
			if cd.FollowerOpen && role == "follower" && !ht[i].Forward {
				continue // served by the follower itself, which has no credential store: outside the property
			}
			if role == "follower" && ht[i].NoFollower {
				continue
			}
			for _, pr := range cd.presentations() {
				jobs = append(jobs, job{http: &ht[i], role: role, pr: pr})
			}
		}
	}
	for i := range ct {
		for _, role := range []string{"leader", "follower"} {
			if cd.FollowerOpen && role == "follower" {
				continue
			}
			for _, pr := range cd.presentations() {
				jobs = append(jobs, job{cmd: &ct[i], role: role, pr: pr})
			}
		}
	}
	vc := &vf.Ctx{ID: "C18", Seed: seed}
	rnd := vc.Rand(uint64(cd.No) + 1000)
	rnd.Shuffle(len(jobs), func(i, j int) { jobs[i], jobs[j] = jobs[j], jobs[i] })

	keys := map[string]bool{}
	slowLog := os.Getenv("VERIF_C18_SLOW") != ""
	for idx, jb := range jobs {
		t0 := time.Now()
		if l0 := cl.Leader(); l0 != e.leader || (cd.FollowerOpen && (l0 == nil || l0.ID != "n1")) {
			if !setRoles() {
				out.Bad = append(out.Bad, obs{Idx: idx, Inconcl: "no usable leader before the request; rest of the case skipped"})
				break
			}
			if st, w := e.capture(); w == "" {
				cur = st
			}
		}
		node := e.leader
		if jb.role == "follower" {
			node = e.follower
		}
		o := obs{Idx: idx, Role: jb.role, Pres: jb.pr}
		var rule permRule
		stepdown := false
		if jb.http != nil {
			o.Surface, o.Route, o.Method, o.Path = "http", jb.http.Name, jb.http.Method, jb.http.Path
			rule, stepdown = jb.http.Rule, jb.http.Stepdown
			if cd.FollowerOpen && jb.role == "follower" {
				// the follower has no store: the only check is the leader's, on the
				// inter-node command the request is forwarded as
				o.Surface = "http-fwd"
				if jb.http.FwdRule != nil {
					rule = jb.http.FwdRule
				}
			}
		} else {
			o.Surface, o.Route = "internode", jb.cmd.Name
			rule, stepdown = jb.cmd.Rule, jb.cmd.Stepdown
		}
		authorized := cd.decide(rule, jb.pr)
		switch {
		case rule == nil:
			o.Expected = "unguarded"
		case authorized:
			o.Expected = "authorized"
		default:
			o.Expected = "unauthorized"
		}
		if jb.http != nil && jb.http.LeaderOnly && jb.role == "follower" && o.Expected != "unauthorized" {
			cnt("skipped:allowed-on-follower:"+jb.http.Name, 1)
			continue
		}
		out.Evals++
		if slowLog {
			fmt.Fprintf(os.Stderr, "START %d %s %s %s %s %s\n", idx, o.Surface, o.Route, o.Role, jb.pr.Name, o.Expected)
		}
		cnt("requests:"+o.Surface, 1)
		cnt("expected:"+o.Expected, 1)

		var received []byte
		timedOut := false
		if jb.http != nil {
			var body []byte
			if jb.http.Body != nil {
				body = jb.http.Body(e, o.Expected == "authorized")
			}
			r := doRawHTTP(node.APIAddr, jb.http.Method, jb.http.Path, jb.http.CT, body, jb.pr.User, jb.pr.Pass, !jb.pr.None, 60*time.Second)
			received, timedOut = r.Raw, r.TimedOut || r.Status == 0
			o.Status = r.Status
			o.Head = clip(r.Raw, 160)
			all := append(append([]byte{}, r.Raw...), r.Body...)
			switch o.Expected {
			case "unauthorized":
				refused := r.Status == 401 || (jb.http.Irrelevant && r.Status == 405)
				if !timedOut && !refused {
					o.Problems = append(o.Problems, problem{"not-refused", fmt.Sprintf("status %d instead of 401", r.Status)})
				}
				if sc := scanBytes(all, canaries); len(sc.Hits) > 0 {
					o.Problems = append(o.Problems, problem{"discloses", strings.Join(sc.Hits, ",")})
				}
			case "unguarded":
				if sc := scanBytes(all, canaries); len(sc.Hits) > 0 {
					o.Problems = append(o.Problems, problem{"discloses", strings.Join(sc.Hits, ",")})
				}
			case "authorized":
				lb := bytes.ToLower(r.Body)
				if !timedOut && (r.Status == 401 || (r.Status >= 400 && (bytes.Contains(lb, []byte("unauthorized")) || bytes.Contains(lb, []byte("not authorized"))))) {
					o.Problems = append(o.Problems, problem{"authorized-refused", fmt.Sprintf("status %d body %q", r.Status, clip(r.Body, 120))})
				}
				// self-check of the scanner: allowed requests do carry the protected content
				for _, h := range scanBytes(all, canaries).Hits {
					if i := strings.LastIndex(h, ">"); i >= 0 {
						cnt("scanner-saw-in-allowed-response:gzip>"+h[i+1:], 1)
					} else {
						cnt("scanner-saw-in-allowed-response:"+h, 1)
					}
				}
			}
		} else {
			cmd := jb.cmd.Build(e, o.Expected == "authorized")
			if !jb.pr.None {
				cmd.Credentials = &clproto.Credentials{Username: jb.pr.User, Password: jb.pr.Pass}
			}
			r := doRawCommand(node.RaftAddr, cmd, 60*time.Second)
			received, timedOut = r.Raw, r.TimedOut
			o.Head = clip(r.Raw, 120)
			switch o.Expected {
			case "unauthorized":
				if !timedOut && !saysUnauthorized(r.First) {
					o.Problems = append(o.Problems, problem{"not-refused", fmt.Sprintf("first response frame (%d bytes) does not say unauthorized: %q", len(r.First), clip(r.First, 80))})
				}
				sc := scanBytes(r.Raw, canaries)
				if len(sc.Hits) > 0 {
					o.Problems = append(o.Problems, problem{"discloses", fmt.Sprintf("%s (%d bytes followed the refusal)", strings.Join(sc.Hits, ","), len(r.Trailing))})
				} else if len(r.Trailing) > 0 && saysUnauthorized(r.First) {
					o.Problems = append(o.Problems, problem{"discloses", fmt.Sprintf("%d bytes followed the refusal: %q", len(r.Trailing), clip(r.Trailing, 60))})
				}
			case "unguarded":
				if sc := scanBytes(r.Raw, canaries); len(sc.Hits) > 0 {
					o.Problems = append(o.Problems, problem{"discloses", strings.Join(sc.Hits, ",")})
				}
			case "authorized":
				if !timedOut && saysUnauthorized(r.First) {
					o.Problems = append(o.Problems, problem{"authorized-refused", clip(r.First, 80)})
				}
				for _, h := range scanBytes(r.Raw, canaries).Hits {
					if i := strings.LastIndex(h, ">"); i >= 0 {
						cnt("scanner-saw-in-allowed-response:gzip>"+h[i+1:], 1)
					} else {
						cnt("scanner-saw-in-allowed-response:"+h, 1)
					}
				}
			}
		}
		o.Bytes = len(received)
		if timedOut {
			o.Inconcl = "no complete response within the timeout"
		}
		// A BACKUP_STREAM refused by the leader is answered at once while the leader goes
		// on producing the stream into the follower's pooled connection (the known
		// finding, observed directly by the raw BACKUP_STREAM frames). Wait for that
		// work to end, then drop the connection and let a throw-away forwarded query
		// replace it, so that later requests are judged on their own (what the left-over
		// stream does to later forwarded requests is C20's subject).
		if o.Surface == "http-fwd" && strings.HasPrefix(o.Route, "backup") {
			e.settle()
			cl.Net.KillChan(e.follower.Name, e.leader.Name, "cluster")
			doRawHTTP(e.follower.APIAddr, "GET", "/db/query?timeout=5s&q=SELECT+1", "", nil, "", "", false, 30*time.Second)
			cnt("fwd-backup-connection-flushes", 1)
		}

		// node state
		after, why := e.capture()
		switch {
		case why != "":
			if o.Inconcl == "" {
				o.Inconcl = "state: " + why
			}
			if !setRoles() {
				out.Bad = append(out.Bad, o)
				return fail("cluster lost its leader after request %d (%s %s)", idx, o.Surface, o.Route)
			}
			if st, w := e.capture(); w == "" {
				cur = st
			}
		case o.Expected == "authorized":
			cur = after
		default:
			d := diffState(cur, after)
			if len(d) > 0 {
				leaderMoved := false
				for _, x := range d {
					if strings.Contains(x, ": leader ") {
						leaderMoved = true
					}
				}
				onlyCommit := len(d) == 1 && strings.HasPrefix(d[0], "raft commit index")
				reproduced := false
				if onlyCommit && len(o.Problems) == 0 {
					// Only the commit index moved. A re-election of the same leader (machine
					// load) appends an entry too, so send the same request once more: an
					// effect of the request repeats, a background entry does not.
					if jb.http != nil {
						var body []byte
						if jb.http.Body != nil {
							body = jb.http.Body(e, false)
						}
						doRawHTTP(node.APIAddr, jb.http.Method, jb.http.Path, jb.http.CT, body, jb.pr.User, jb.pr.Pass, !jb.pr.None, 60*time.Second)
					} else {
						cmd := jb.cmd.Build(e, false)
						if !jb.pr.None {
							cmd.Credentials = &clproto.Credentials{Username: jb.pr.User, Password: jb.pr.Pass}
						}
						doRawCommand(node.RaftAddr, cmd, 60*time.Second)
					}
					again, w2 := e.capture()
					if w2 == "" {
						d2 := diffState(after, again)
						reproduced = len(d2) == 1 && strings.HasPrefix(d2[0], "raft commit index")
						after = again
					}
				}
				if onlyCommit && len(o.Problems) == 0 && !reproduced {
					o.Inconcl = "commit index moved once and not again when the request was repeated (background raft entry)"
				} else if leaderMoved && !stepdown && len(o.Problems) == 0 {
					// leadership moved under a request that cannot move it: an election
					// caused by load on the machine, not an effect of the request
					o.Inconcl = "spontaneous leader change: " + strings.Join(d, "; ")
				} else {
					o.Problems = append(o.Problems, problem{"side-effect", strings.Join(d, "; ")})
				}
				cur = after
				if leaderMoved {
					setRoles()
				}
			}
		}
		if cl.Leader() != e.leader {
			setRoles()
			if st, w := e.capture(); w == "" {
				cur = st
			}
		}
		if lostPin {
			o.Problems = nil
			o.Inconcl = "the store-less node became leader and leadership could not be handed back; rest of the case skipped"
			out.Bad = append(out.Bad, o)
			break
		}

		if slowLog && time.Since(t0) > 300*time.Millisecond {
			fmt.Fprintf(os.Stderr, "SLOW %d %s %s %s %s %s: %s\n", idx, o.Surface, o.Route, o.Role, jb.pr.Name, o.Expected, time.Since(t0))
		}
		key := fmt.Sprintf("%s|%s|%s|%s|%s|%s", cd.Variant, o.Surface, o.Route, o.Role, strings.SplitN(jb.pr.Name, ":", 2)[0], o.Expected)
		if o.Inconcl == "" {
			keys[key+"|"+vf.Hash(cd.storeJSON(), jb.pr.Name)] = true
		}
		switch {
		case len(o.Problems) > 0:
			out.Bad = append(out.Bad, o)
		case o.Inconcl != "":
			out.Bad = append(out.Bad, o)
		default:
			out.Held++
			if len(out.Samples) < 3 && (idx%97 == 0) {
				out.Samples = append(out.Samples, o)
			}
		}
	}
	for k := range keys {
		out.Keys = append(out.Keys, k)
	}
	sort.Strings(out.Keys)
	return out
}
