package c30

// Value and case generation for C30. A value is described by the exact JSON
// fragment that is sent to rqlite plus the typed Go value that the harness
// binds itself on plain SQLite (the reference).

import (
	"encoding/hex"
	"encoding/json"
	"fmt"
	"math"
	"math/rand/v2"
	"regexp"
	"strconv"
	"strings"
	"unicode/utf8"
)

// Val is one parameter value.
type Val struct {
	Kind string `json:"kind"` // int float bool null text hextext hexws hexlit bytes
	JSON string `json:"json"` // the JSON fragment sent as the parameter
	Hard bool   `json:"hard"` // counts towards "non-trivial"

	class string // storage class the property demands: integer real null text blob
	i     int64
	f     float64
	b     bool
	s     string
	y     []byte
}

var (
	jsonIntRe = regexp.MustCompile(`^-?(0|[1-9][0-9]*)$`)
	hexLitRe  = regexp.MustCompile(`^[xX]'(([0-9a-fA-F]{2})*)'$`)
)

// decode fills the typed fields from Kind+JSON (used for generated values and
// for values read from a replay file alike). It is the harness's own, strict
// reading of the request grammar in the property text: a JSON number written
// without fraction/exponent that fits int64 is an integer, any other number is
// a float; a JSON string that is exactly a SQLite hex blob literal X'..' is a
// blob, any other string is text; an array of 0..255 is a blob.
func (v *Val) decode() error {
	switch v.Kind {
	case "int":
		if !jsonIntRe.MatchString(v.JSON) {
			return fmt.Errorf("not an integer literal: %s", v.JSON)
		}
		n, err := strconv.ParseInt(v.JSON, 10, 64)
		if err != nil {
			return err
		}
		v.class, v.i = "integer", n
	case "float":
		if jsonIntRe.MatchString(v.JSON) {
			return fmt.Errorf("float literal without fraction/exponent: %s", v.JSON)
		}
		f, err := strconv.ParseFloat(v.JSON, 64)
		if err != nil || math.IsInf(f, 0) || math.IsNaN(f) {
			return fmt.Errorf("bad float %s", v.JSON)
		}
		v.class, v.f = "real", f
	case "bool":
		v.class, v.b = "integer", v.JSON == "true"
		if v.b {
			v.i = 1
		}
	case "null":
		v.class = "null"
	case "text", "hextext", "hexws":
		var s string
		if err := json.Unmarshal([]byte(v.JSON), &s); err != nil {
			return err
		}
		if hexLitRe.MatchString(s) {
			return fmt.Errorf("text value is a valid hex literal: %q", s)
		}
		v.class, v.s = "text", s
	case "hexlit":
		var s string
		if err := json.Unmarshal([]byte(v.JSON), &s); err != nil {
			return err
		}
		m := hexLitRe.FindStringSubmatch(s)
		if m == nil {
			return fmt.Errorf("not a hex literal: %q", s)
		}
		y, err := hex.DecodeString(m[1])
		if err != nil {
			return err
		}
		v.class, v.y = "blob", append([]byte{}, y...)
	case "bytes":
		var a []int
		if err := json.Unmarshal([]byte(v.JSON), &a); err != nil {
			return err
		}
		y := make([]byte, len(a))
		for i, x := range a {
			if x < 0 || x > 255 {
				return fmt.Errorf("byte out of range")
			}
			y[i] = byte(x)
		}
		v.class, v.y = "blob", y
	default:
		return fmt.Errorf("unknown kind %q", v.Kind)
	}
	return nil
}

// goValue is what the harness binds on the reference database.
func (v *Val) goValue() any {
	switch v.Kind {
	case "int":
		return v.i
	case "float":
		return v.f
	case "bool":
		return v.b
	case "null":
		return nil
	case "text", "hextext", "hexws":
		return v.s
	default:
		if v.y == nil {
			return []byte{}
		}
		return v.y
	}
}

// sqlLiteral renders the value as a SQL literal (used for the statements that
// carry their values inline). ok=false when the value has no faithful literal
// (text with NUL).
func (v *Val) sqlLiteral() (string, bool) {
	switch v.Kind {
	case "int":
		return v.JSON, true
	case "float":
		s := strconv.FormatFloat(v.f, 'e', 17, 64)
		return s, true
	case "bool":
		if v.b {
			return "1", true
		}
		return "0", true
	case "null":
		return "NULL", true
	case "text", "hextext", "hexws":
		if strings.ContainsRune(v.s, 0) {
			return "", false
		}
		return "'" + strings.ReplaceAll(v.s, "'", "''") + "'", true
	default:
		return "X'" + hex.EncodeToString(v.y) + "'", true
	}
}

func mk(kind, js string, hard bool) Val {
	v := Val{Kind: kind, JSON: js, Hard: hard}
	if err := v.decode(); err != nil {
		panic(fmt.Sprintf("generator produced a bad value %s %s: %v", kind, js, err))
	}
	return v
}

func jstr(s string) string {
	b, err := json.Marshal(s)
	if err != nil {
		panic(err)
	}
	return string(b)
}

var specialInts = []int64{
	0, 1, -1, 2, 127, 128, 255, 256, 32767, 65536,
	1<<31 - 1, 1 << 31, -(1 << 31), -(1 << 31) - 1, 1 << 32, 1<<32 + 1,
	1<<53 - 1, 1 << 53, 1<<53 + 1, 1<<53 + 2, -(1 << 53), -(1 << 53) - 1, -(1 << 53) + 1,
	1 << 62, 1<<62 + 1, math.MaxInt64, math.MaxInt64 - 1, math.MinInt64, math.MinInt64 + 1,
	1000000000000000, 1000000000000000001, 999999999999999999, -999999999999999999,
	9007199254740993, 72057594037927937, 4611686018427387905,
}

var specialFloats = []string{
	"1.0", "1e2", "1E2", "1e+2", "100.0", "-0.0", "0.0", "0e0", "-0e0", "2.5", "-2.5", "1e0", "0.1e1",
	"5e-324", "4.9406564584124654e-324", "1e-323", "2.2250738585072014e-308", "2.225073858507201e-308",
	"1e308", "1.7976931348623157e308", "-1.7976931348623157e308", "1.7976931348623157E+308",
	"0.1", "0.2", "0.30000000000000004", "3.141592653589793", "2.718281828459045", "1e-7", "1.5e-7",
	"1e21", "1e20", "1e22", "1e23", "123456789012345678.0", "9007199254740993.0", "9007199254740992.0",
	"9.223372036854775807e18", "9223372036854775807.0", "9223372036854775808.0", "-9223372036854775808.0",
	"1e19", "-1e19", "1.5e300", "12345678901234567890.0", "0.000001", "0.0000001", "1e-6",
	"4.35", "0.07", "1.1", "1.005", "123456.789e3", "8.41e21", "5e-1", "1234567.0", "1e15", "1e16", "1e17",
}

var specialTexts = []string{
	"", "a", "hello world", "héllo wörld", "日本語テキスト", "😀🎉", "𝔘𝔫𝔦𝔠𝔬𝔡𝔢", "it's", `say "hi"`, "a\x00b", "\x00", "\x00\x00tail",
	"line1\nline2\ttab\r\n", `back\slash`, `\n not a newline`, " leading and trailing ", "  ", "<b>&amp;</b>", "\ufeffBOM",
	"é vs é", "\u00a0nbsp", "%", "?", "?1", ":a", "@p", "$x", ";", "--", "/* c */", "'; DROP TABLE vals; --",
	"123", "-5", "1.5", "-0", "1e5", "0x10", "true", "false", "null", "NULL", "9223372036854775808", "  42  ",
	"\u007f", "\u0001\u0002\u001f", "\ufffd", "\U0010ffff", "ß", "İi", "مرحبا", "שלום",
}

// Hex-looking text that is NOT a valid SQLite hex blob literal.
var hexLooking = []string{
	"x'zz'", "X'ABC'", "0xFF", "X'00", "x'0g'", "x 'ab'", "'X'00''", "Xabc", "X''x", "X'", "x'", "X", "x", "x'0'", "X'0 0'",
	"xx'00'", "X\"00\"", "X'00'X'00'", "X'00';", "y'00'", "X'ÀÀ'", "X'00'\x00", "x'00''", "-X'00'", "X'0x00'", "x'  '",
}

// Valid hex literals surrounded by whitespace: as a JSON *string* these are
// text (the whitespace is part of the value).
var hexWS = []string{" X'00FF'", "x'ab' ", "\tX'00'\n", " x'' ", "\nX'DEADBEEF'", "X'41' \t"}

var specialBlobs = [][]byte{
	{}, {0}, {255}, {0, 255, 16}, {0x41, 0x42}, []byte("Hi"), []byte("héllo"), {0xff, 0xfe}, {0xc3}, {0xe2, 0x82}, {0, 0, 0, 0},
	{0xde, 0xad, 0xbe, 0xef}, []byte("X'00'"), {0x80, 0x81, 0x82}, {0xf0, 0x9f, 0x98, 0x80}, {0x22, 0x5c, 0x0a}, {0xed, 0xa0, 0x80},
}

func randText(r *rand.Rand) string {
	n := r.IntN(24)
	if r.IntN(40) == 0 {
		n = 2000 + r.IntN(4000)
	}
	var sb strings.Builder
	for i := 0; i < n; i++ {
		var c rune
		switch r.IntN(8) {
		case 0:
			c = rune(r.IntN(0x20)) // control (incl. NUL)
		case 1, 2, 3:
			c = rune(0x20 + r.IntN(0x5f))
		case 4:
			c = rune(0xa0 + r.IntN(0x700))
		case 5:
			c = rune(0x3040 + r.IntN(0x6000))
		case 6:
			c = rune(0x1f300 + r.IntN(0x400))
		default:
			c = []rune{'\'', '"', '\\', 'x', 'X', '0', 'f', '\n', ' '}[r.IntN(9)]
		}
		if c >= 0xd800 && c <= 0xdfff || !utf8.ValidRune(c) {
			c = '?'
		}
		sb.WriteRune(c)
	}
	return sb.String()
}

func randBytes(r *rand.Rand) []byte {
	n := r.IntN(20)
	if r.IntN(40) == 0 {
		n = 1000 + r.IntN(3000)
	}
	y := make([]byte, n)
	for i := range y {
		switch r.IntN(4) {
		case 0:
			y[i] = byte(0x20 + r.IntN(0x5f))
		case 1:
			y[i] = []byte{0, 0xff, 0x80, 0x7f}[r.IntN(4)]
		default:
			y[i] = byte(r.IntN(256))
		}
	}
	return y
}

func hexLitJSON(r *rand.Rand, y []byte) string {
	h := hex.EncodeToString(y)
	switch r.IntN(3) {
	case 0:
		h = strings.ToUpper(h)
	case 1:
		// mixed case
		b := []byte(h)
		for i := range b {
			if r.IntN(2) == 0 && b[i] >= 'a' && b[i] <= 'f' {
				b[i] -= 32
			}
		}
		h = string(b)
	}
	p := "X"
	if r.IntN(2) == 0 {
		p = "x"
	}
	return jstr(p + "'" + h + "'")
}

func bytesJSON(y []byte) string {
	var sb strings.Builder
	sb.WriteByte('[')
	for i, b := range y {
		if i > 0 {
			sb.WriteByte(',')
		}
		sb.WriteString(strconv.Itoa(int(b)))
	}
	sb.WriteByte(']')
	return sb.String()
}

// genVal draws one value.
func genVal(r *rand.Rand) Val {
	switch k := r.IntN(100); {
	case k < 20: // integers
		switch r.IntN(4) {
		case 0:
			return mk("int", strconv.FormatInt(int64(r.IntN(2000)-1000), 10), false)
		case 1:
			return mk("int", strconv.FormatInt(int64(r.Uint64()), 10), true)
		case 2:
			// neighbourhood of a power of two
			p := int64(1) << uint(20+r.IntN(43))
			n := p + int64(r.IntN(5)) - 2
			if r.IntN(2) == 0 {
				n = -n
			}
			return mk("int", strconv.FormatInt(n, 10), true)
		default:
			return mk("int", strconv.FormatInt(specialInts[r.IntN(len(specialInts))], 10), true)
		}
	case k < 38: // floats
		if r.IntN(2) == 0 {
			lit := specialFloats[r.IntN(len(specialFloats))]
			if r.IntN(4) == 0 && !strings.HasPrefix(lit, "-") {
				lit = "-" + lit
			}
			return mk("float", lit, true)
		}
		for {
			f := math.Float64frombits(r.Uint64())
			if r.IntN(3) == 0 {
				f = (r.Float64() - 0.5) * math.Pow(10, float64(r.IntN(40)-20))
			}
			if math.IsInf(f, 0) || math.IsNaN(f) {
				continue
			}
			lit := strconv.FormatFloat(f, 'g', -1, 64)
			if r.IntN(3) == 0 {
				lit = strconv.FormatFloat(f, 'e', 20, 64) // more digits than needed
			}
			if jsonIntRe.MatchString(lit) {
				lit += ".0"
			}
			return mk("float", lit, true)
		}
	case k < 44:
		return mk("bool", []string{"true", "false"}[r.IntN(2)], false)
	case k < 50:
		return mk("null", "null", false)
	case k < 70: // text
		if r.IntN(2) == 0 {
			s := specialTexts[r.IntN(len(specialTexts))]
			return mk("text", jstr(s), s != "a" && s != "hello world")
		}
		s := randText(r)
		if hexLitRe.MatchString(s) {
			s += "!"
		}
		return mk("text", jstr(s), true)
	case k < 78:
		return mk("hextext", jstr(hexLooking[r.IntN(len(hexLooking))]), true)
	case k < 80:
		return mk("hexws", jstr(hexWS[r.IntN(len(hexWS))]), true)
	case k < 90: // hex literals
		var y []byte
		if r.IntN(2) == 0 {
			y = specialBlobs[r.IntN(len(specialBlobs))]
		} else {
			y = randBytes(r)
		}
		return mk("hexlit", hexLitJSON(r, y), true)
	default: // byte arrays
		var y []byte
		if r.IntN(2) == 0 {
			y = specialBlobs[r.IntN(len(specialBlobs))]
		} else {
			y = randBytes(r)
		}
		return mk("bytes", bytesJSON(y), true)
	}
}

// Case is one generated case: a parameter list and how it is sent.
type Case struct {
	No      int    `json:"case"`
	Vals    []Val  `json:"vals"`
	Named   int    `json:"named"`    // 0 positional ?NNN; 3 positional plain ?; 1 named, one JSON object; 2 named, one object per parameter
	Prefix  string `json:"prefix"`   // ":" "@" "$" for named
	Cols    []int  `json:"cols"`     // typed column each value is also inserted into (index into typedCols)
	InsEP   string `json:"ins_ep"`   // execute | request
	InsTx   bool   `json:"ins_tx"`   // ?transaction on the insert
	Levels  []int  `json:"levels"`   // level per request slot
	FormSel int    `json:"form_sel"` // which pair of forms goes to which endpoint
}

var typedCols = []string{"i", "r", "t", "b"} // INTEGER REAL TEXT BLOB
var colTag = map[string]string{"u": "untyped-column", "i": "integer-column", "r": "real-column", "t": "text-column", "b": "blob-column"}
var levelNames = []string{"none", "weak", "linearizable", "strong", "auto"}

func classCol(class string, r *rand.Rand) int {
	switch class {
	case "integer":
		return 0
	case "real":
		return 1
	case "text":
		return 2
	case "blob":
		return 3
	}
	return r.IntN(4)
}

func genCase(r *rand.Rand, no int) Case {
	c := Case{No: no}
	n := 1 + r.IntN(5)
	for i := 0; i < n; i++ {
		v := genVal(r)
		c.Vals = append(c.Vals, v)
		col := classCol(v.class, r)
		if r.IntN(5) == 0 {
			col = r.IntN(4) // a value of another class in a typed column
		}
		c.Cols = append(c.Cols, col)
	}
	c.Named = r.IntN(4)
	c.Prefix = []string{":", "@", "$"}[r.IntN(3)]
	c.InsEP = []string{"execute", "request"}[r.IntN(2)]
	c.InsTx = r.IntN(2) == 0
	for i := 0; i < 16; i++ {
		// strong reads go through the log: keep them a minority
		l := r.IntN(8)
		switch {
		case l < 3:
			l = 0
		case l < 5:
			l = 1
		case l < 6:
			l = 2
		case l < 7:
			l = 3
		default:
			l = 4
		}
		c.Levels = append(c.Levels, l)
	}
	c.FormSel = r.IntN(4)
	return c
}

// key is the canonical description used for the distinct count.
func (c *Case) key() string {
	var sb strings.Builder
	fmt.Fprintf(&sb, "%d|%s|%s|%v|", c.Named, c.Prefix, c.InsEP, c.InsTx)
	for i, v := range c.Vals {
		fmt.Fprintf(&sb, "%s:%s>%d;", v.Kind, v.JSON, c.Cols[i])
	}
	return sb.String()
}

func (c *Case) hard() bool {
	for _, v := range c.Vals {
		if v.Hard {
			return true
		}
	}
	return false
}
