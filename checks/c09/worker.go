package c09

import (
	"bytes"
	"encoding/json"
	"errors"
	"fmt"
	"io"
	"os"
	"path/filepath"
	"sort"
	"time"

	"github.com/hashicorp/raft"
	"github.com/rqlite/rqlite/v10/snapshot"
	"github.com/rqlite/rqlite/v10/vexport"
	"verif/checks/c09/snapgen"
	"verif/internal/vf"
)

// The worker child owns the real snapshot.Store. Every request is one API
// call (or one observation of the whole catalog); the driver holds the model.

type wreq struct {
	Op    string `json:"op"`
	Dir   string `json:"dir,omitempty"`
	H     int    `json:"h,omitempty"`
	Term  uint64 `json:"term,omitempty"`
	Index uint64 `json:"index,omitempty"`

	// write
	Kind    string   `json:"kind,omitempty"` // full | inc | raw
	DB      string   `json:"db,omitempty"`
	WALs    []string `json:"wals,omitempty"`
	Staging string   `json:"staging,omitempty"`
	Raw     []byte   `json:"raw,omitempty"`
	Cut     int      `json:"cut,omitempty"`   // >0: keep only the first Cut bytes of the stream; <0: drop -Cut bytes from the end
	Extra   []byte   `json:"extra,omitempty"` // appended after the stream
	Split   int      `json:"split,omitempty"` // write chunk size (0 = one Write)

	// close
	CrashAt string `json:"crash_at,omitempty"` // vhook point at which the process exits (197)
	ErrAt   string `json:"err_at,omitempty"`   // vhook error point that fails once

	Scratch string   `json:"scratch,omitempty"` // observe: directory for restored files
	Known   []string `json:"known,omitempty"`   // observe: stream hashes whose restore result the driver already has
}

type metaLite struct {
	ID    string `json:"id"`
	Term  uint64 `json:"term"`
	Index uint64 `json:"index"`
}

type snapObs struct {
	ID          string `json:"id"`
	OpenErr     string `json:"open_err,omitempty"`
	MetaID      string `json:"meta_id,omitempty"`
	MetaTerm    uint64 `json:"meta_term,omitempty"`
	MetaIndex   uint64 `json:"meta_index,omitempty"`
	MetaSize    int64  `json:"meta_size,omitempty"`
	StreamLen   int64  `json:"stream_len,omitempty"`
	StreamSHA   string `json:"stream_sha,omitempty"`
	Restored    bool   `json:"restored"`
	HdrErr      string `json:"hdr_err,omitempty"`
	NWALs       int    `json:"n_wals"`
	HasDB       bool   `json:"has_db"`
	RestoreErr  string `json:"restore_err,omitempty"`
	RestoreSHA  string `json:"restore_sha,omitempty"`
	RestoreFile string `json:"restore_file,omitempty"`
}

type observation struct {
	ListAll    []metaLite `json:"list_all"`
	ListAllErr string     `json:"list_all_err,omitempty"`
	List       []metaLite `json:"list"`
	ListErr    string     `json:"list_err,omitempty"`
	DueNext    string     `json:"due_next"`
	DueErr     string     `json:"due_err,omitempty"`
	Len        int        `json:"len"`
	Entries    []string   `json:"entries"` // names in the store directory
	Snaps      []snapObs  `json:"snaps"`
}

type wresp struct {
	Err     string       `json:"err,omitempty"`
	ID      string       `json:"id,omitempty"`
	H       int          `json:"h,omitempty"`
	N       int          `json:"n,omitempty"`
	C       int          `json:"c,omitempty"`
	Written int          `json:"written,omitempty"`
	Obs     *observation `json:"obs,omitempty"`
}

func errStr(err error) string {
	if err == nil {
		return ""
	}
	return err.Error()
}

func lite(ms []*raft.SnapshotMeta) []metaLite {
	out := []metaLite{}
	for _, m := range ms {
		out = append(out, metaLite{ID: m.ID, Term: m.Term, Index: m.Index})
	}
	return out
}

func init() { vf.RegisterWorker("c09", worker) }

func worker(args []string) {
	var st *snapshot.Store
	var dir string
	sinks := map[int]raft.SnapshotSink{}
	nextH := 0
	nRestore := 0
	open := func() error {
		s, err := snapshot.NewStore(dir)
		if err != nil {
			return err
		}
		// The automatic reaper is timing dependent; reaps are explicit ops.
		s.SetReapThreshold(1 << 30)
		st = s
		return nil
	}
	vf.ServeJSON(func(raw json.RawMessage) any {
		var q wreq
		if err := json.Unmarshal(raw, &q); err != nil {
			return wresp{Err: "bad request: " + err.Error()}
		}
		fmt.Fprintf(os.Stderr, "c09-worker: op=%s h=%d kind=%s crash=%s err=%s\n", q.Op, q.H, q.Kind, q.CrashAt, q.ErrAt)
		if st == nil && q.Op != "open" {
			return wresp{Err: "store not open"}
		}
		switch q.Op {
		case "open":
			dir = q.Dir
			return wresp{Err: errStr(open())}
		case "reopen":
			st.Close()
			st = nil
			sinks = map[int]raft.SnapshotSink{} // sinks of the old instance are abandoned
			return wresp{Err: errStr(open())}
		case "create":
			// Store.Create names the snapshot term-index-<unix ms>; keep two
			// creations apart so equal (term,index) never collide on the name.
			time.Sleep(3 * time.Millisecond)
			sink, err := st.Create(1, q.Index, q.Term, snapgen.Config(), 1, nil)
			if err != nil {
				return wresp{Err: err.Error()}
			}
			nextH++
			sinks[nextH] = sink
			return wresp{H: nextH, ID: sink.ID()}
		case "write":
			sink := sinks[q.H]
			if sink == nil {
				return wresp{Err: "no such sink"}
			}
			var stream []byte
			var err error
			switch q.Kind {
			case "full":
				stream, err = snapgen.FullStreamBytes(q.DB, q.WALs...)
			case "inc":
				stream, err = snapgen.IncStreamBytes(q.Staging)
			case "raw":
				stream = q.Raw
			default:
				err = fmt.Errorf("bad kind")
			}
			if err != nil {
				return wresp{Err: "harness: " + err.Error()}
			}
			if q.Cut > 0 && q.Cut < len(stream) {
				stream = stream[:q.Cut]
			} else if q.Cut < 0 && -q.Cut < len(stream) {
				stream = stream[:len(stream)+q.Cut]
			}
			stream = append(stream, q.Extra...)
			written := 0
			if len(stream) == 0 {
				return wresp{}
			}
			step := q.Split
			if step <= 0 {
				step = len(stream)
			}
			for off := 0; off < len(stream); off += step {
				end := min(off+step, len(stream))
				n, werr := sink.Write(stream[off:end])
				written += n
				if werr != nil {
					return wresp{Err: werr.Error(), Written: written}
				}
			}
			return wresp{Written: written}
		case "close":
			sink := sinks[q.H]
			if sink == nil {
				return wresp{Err: "no such sink"}
			}
			delete(sinks, q.H)
			if q.CrashAt != "" {
				vexport.HookOn(q.CrashAt, func() {
					fmt.Fprintf(os.Stderr, "c09-worker: exiting at %s\n", q.CrashAt)
					os.Exit(vexport.HookCrashExitCode)
				})
				defer vexport.HookOn(q.CrashAt, nil)
			}
			if q.ErrAt != "" {
				vexport.HookOnErr(q.ErrAt, func() error { return errors.New("injected failure at " + q.ErrAt) })
				defer vexport.HookOnErr(q.ErrAt, nil)
			}
			return wresp{Err: errStr(sink.Close())}
		case "cancel":
			sink := sinks[q.H]
			if sink == nil {
				return wresp{Err: "no such sink"}
			}
			delete(sinks, q.H)
			return wresp{Err: errStr(sink.Cancel())}
		case "drop":
			delete(sinks, q.H)
			return wresp{}
		case "setfull":
			return wresp{Err: errStr(st.SetDueNext(snapshot.Full))}
		case "reap":
			n, c, err := st.Reap()
			return wresp{N: n, C: c, Err: errStr(err)}
		case "observe":
			return wresp{Obs: observe(st, dir, q.Scratch, q.Known, &nRestore)}
		}
		return wresp{Err: "unknown op"}
	})
}

// observe reads the whole catalog through the public API and resolves every
// listed snapshot with Open → Restore.
//
// Restore is a function of the stream bytes only, so a stream whose hash the
// driver has already seen restored (known) is read and hashed but not
// restored again.
func observe(st *snapshot.Store, dir, scratch string, known []string, nRestore *int) *observation {
	o := &observation{Snaps: []snapObs{}}
	knownSet := map[string]bool{}
	for _, k := range known {
		knownSet[k] = true
	}
	all, err := st.ListAll()
	o.ListAll, o.ListAllErr = lite(all), errStr(err)
	one, err := st.List()
	o.List, o.ListErr = lite(one), errStr(err)
	due, err := st.DueNext()
	o.DueNext, o.DueErr = due.String(), errStr(err)
	o.Len = st.Len()
	if ents, err := os.ReadDir(dir); err == nil {
		for _, e := range ents {
			o.Entries = append(o.Entries, e.Name())
		}
		sort.Strings(o.Entries)
	}
	for _, m := range all {
		so := snapObs{ID: m.ID}
		meta, rc, err := st.Open(m.ID)
		if err != nil {
			so.OpenErr = err.Error()
			o.Snaps = append(o.Snaps, so)
			continue
		}
		so.MetaID, so.MetaTerm, so.MetaIndex, so.MetaSize = meta.ID, meta.Term, meta.Index, meta.Size
		b, rerr := io.ReadAll(rc)
		rc.Close()
		if rerr != nil {
			so.RestoreErr = "reading stream: " + rerr.Error()
			o.Snaps = append(o.Snaps, so)
			continue
		}
		so.StreamLen = int64(len(b))
		so.StreamSHA = snapgen.SHA256Bytes(b)
		hdr, _, _, herr := snapgen.ParseStream(b)
		if herr != nil {
			so.HdrErr = herr.Error()
		} else if f := hdr.GetFull(); f != nil {
			so.HasDB = f.DbHeader != nil
			so.NWALs = len(f.WalHeaders)
		} else {
			so.HdrErr = "stream header is not a full (database + WALs) header"
		}
		if knownSet[so.StreamSHA] {
			o.Snaps = append(o.Snaps, so)
			continue
		}
		so.Restored = true
		*nRestore++
		so.RestoreFile = filepath.Join(scratch, fmt.Sprintf("r%06d.db", *nRestore))
		if _, err := snapshot.Restore(bytes.NewReader(b), so.RestoreFile); err != nil {
			so.RestoreErr = err.Error()
		} else {
			so.RestoreSHA = snapgen.SHA256(so.RestoreFile)
		}
		o.Snaps = append(o.Snaps, so)
	}
	return o
}
