#!/usr/bin/env python3
"""Merge known_findings.d/<ids>.json into known_findings.json (then delete them).
usage: merge_findings.py C13 C27 ...   [--fixed C13:key=commit ...]"""
import json, sys, os
root='/verif'
main=json.load(open(f'{root}/known_findings.json'))
have={(e['property'],e['key']) for e in main}
fixed={}
ids=[]
for a in sys.argv[1:]:
    if a.startswith('--fixed='):
        spec=a[len('--fixed='):]
        pk,commit=spec.rsplit('=',1)
        p,k=pk.split(':',1)
        fixed[(p,k)]=commit
    else:
        ids.append(a)
for i in ids:
    p=f'{root}/known_findings.d/{i}.json'
    if not os.path.exists(p): continue
    for e in json.load(open(p)):
        k=(e['property'],e['key'])
        if k in fixed:
            e['status']='fixed'; e['commit']=fixed[k]
            e['line']=f"fixed: property={e['property']} {fixed[k]} {e['what'][:200]}"
        if k in have:
            main=[x for x in main if (x['property'],x['key'])!=k]
        main.append(e)
    os.remove(p)
json.dump(main,open(f'{root}/known_findings.json','w'),indent=1)
print(len(main),'entries')
