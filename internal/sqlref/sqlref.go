// Package sqlref is reference SQLite access that does not go through rqlite's
// db package: logical dumps, file copies, twin databases.
package sqlref

import (
	"crypto/sha256"
	"database/sql"
	"encoding/hex"
	"fmt"
	"io"
	"os"
	"path/filepath"
	"sort"
	"strings"

	_ "github.com/mattn/go-sqlite3"
)

// Open opens a plain SQLite database with the stock driver.
func Open(path string) (*sql.DB, error) {
	db, err := sql.Open("sqlite3", "file:"+path)
	if err != nil {
		return nil, err
	}
	db.SetMaxOpenConns(1)
	return db, nil
}

// OpenRO opens read-only.
func OpenRO(path string) (*sql.DB, error) {
	db, err := sql.Open("sqlite3", "file:"+path+"?mode=ro")
	if err != nil {
		return nil, err
	}
	db.SetMaxOpenConns(1)
	return db, nil
}

// CopyFile copies src to dst.
func CopyFile(src, dst string) error {
	in, err := os.Open(src)
	if err != nil {
		return err
	}
	defer in.Close()
	out, err := os.Create(dst)
	if err != nil {
		return err
	}
	if _, err := io.Copy(out, in); err != nil {
		out.Close()
		return err
	}
	return out.Close()
}

// CopyDB copies a database file and its -wal (if present) to dst / dst-wal.
// The -shm file is deliberately not copied (it is rebuilt from the WAL).
func CopyDB(src, dst string) error {
	if err := CopyFile(src, dst); err != nil {
		return err
	}
	os.Remove(dst + "-wal")
	os.Remove(dst + "-shm")
	if st, err := os.Stat(src + "-wal"); err == nil && st.Size() > 0 {
		if err := CopyFile(src+"-wal", dst+"-wal"); err != nil {
			return err
		}
	}
	return nil
}

// CopyTree copies a directory tree (regular files and dirs).
func CopyTree(src, dst string) error {
	return filepath.Walk(src, func(p string, info os.FileInfo, err error) error {
		if err != nil {
			return err
		}
		rel, _ := filepath.Rel(src, p)
		t := filepath.Join(dst, rel)
		if info.IsDir() {
			return os.MkdirAll(t, 0755)
		}
		if !info.Mode().IsRegular() {
			return nil
		}
		return CopyFile(p, t)
	})
}

// FileHash returns the sha256 of a file ("" if it does not exist).
func FileHash(path string) string {
	f, err := os.Open(path)
	if err != nil {
		return ""
	}
	defer f.Close()
	h := sha256.New()
	io.Copy(h, f)
	return hex.EncodeToString(h.Sum(nil))
}

// Dump is a canonical logical dump of a database.
type Dump struct {
	Schema []string            // "type|name|tbl_name|sql" ordered
	Tables map[string][]string // table -> canonical rows, ordered
	Pragma map[string]string   // user_version, application_id
}

// String renders the dump canonically.
func (d *Dump) String() string {
	var b strings.Builder
	for _, s := range d.Schema {
		b.WriteString("S ")
		b.WriteString(s)
		b.WriteByte('\n')
	}
	names := make([]string, 0, len(d.Tables))
	for n := range d.Tables {
		names = append(names, n)
	}
	sort.Strings(names)
	for _, n := range names {
		fmt.Fprintf(&b, "T %s (%d rows)\n", n, len(d.Tables[n]))
		for _, r := range d.Tables[n] {
			b.WriteString("  ")
			b.WriteString(r)
			b.WriteByte('\n')
		}
	}
	keys := make([]string, 0, len(d.Pragma))
	for k := range d.Pragma {
		keys = append(keys, k)
	}
	sort.Strings(keys)
	for _, k := range keys {
		fmt.Fprintf(&b, "P %s=%s\n", k, d.Pragma[k])
	}
	return b.String()
}

// Hash returns a digest of the dump.
func (d *Dump) Hash() string {
	h := sha256.Sum256([]byte(d.String()))
	return hex.EncodeToString(h[:8])
}

// Rows returns the total number of rows.
func (d *Dump) Rows() int {
	n := 0
	for _, r := range d.Tables {
		n += len(r)
	}
	return n
}

// Diff returns a short description of the first differences between dumps.
func Diff(a, b *Dump) string {
	as, bs := strings.Split(a.String(), "\n"), strings.Split(b.String(), "\n")
	cnt := map[string]int{}
	for _, l := range as {
		cnt[l]++
	}
	for _, l := range bs {
		cnt[l]--
	}
	var minus, plus []string
	for _, l := range as {
		if cnt[l] > 0 && len(minus) < 6 {
			minus = append(minus, "- "+trunc(l))
			cnt[l]--
		}
	}
	for _, l := range bs {
		if cnt[l] < 0 && len(plus) < 6 {
			plus = append(plus, "+ "+trunc(l))
			cnt[l]++
		}
	}
	return strings.Join(append(minus, plus...), "\n")
}

func trunc(s string) string {
	if len(s) > 200 {
		return s[:200] + "…"
	}
	return s
}

// CanonValue renders a scanned value with its storage class.
func CanonValue(v any) string {
	switch x := v.(type) {
	case nil:
		return "null"
	case int64:
		return fmt.Sprintf("i:%d", x)
	case float64:
		return fmt.Sprintf("r:%v", x)
	case string:
		return fmt.Sprintf("t:%q", x)
	case []byte:
		return "b:" + hex.EncodeToString(x)
	case bool:
		if x {
			return "i:1"
		}
		return "i:0"
	default:
		return fmt.Sprintf("?:%v", x)
	}
}

// DumpDB dumps an open database. Column values are read through
// typeof()/quote()-independent raw scanning, with typeof() added per column so
// that declared-type conversions of the driver cannot hide the storage class.
func DumpDB(db *sql.DB) (*Dump, error) {
	d := &Dump{Tables: map[string][]string{}, Pragma: map[string]string{}}
	rows, err := db.Query(`SELECT type, name, tbl_name, coalesce(sql,'') FROM sqlite_master ORDER BY name, type`)
	if err != nil {
		return nil, err
	}
	var tables []string
	for rows.Next() {
		var typ, name, tbl, sqls string
		if err := rows.Scan(&typ, &name, &tbl, &sqls); err != nil {
			rows.Close()
			return nil, err
		}
		d.Schema = append(d.Schema, typ+"|"+name+"|"+tbl+"|"+sqls)
		if typ == "table" && !strings.HasPrefix(name, "sqlite_stat") {
			tables = append(tables, name)
		}
	}
	rows.Close()
	if err := rows.Err(); err != nil {
		return nil, err
	}
	for _, t := range tables {
		qt := `"` + strings.ReplaceAll(t, `"`, `""`) + `"`
		// column list
		crow, err := db.Query(`SELECT name FROM pragma_table_info(?)`, t)
		if err != nil {
			return nil, err
		}
		var cols []string
		for crow.Next() {
			var n string
			crow.Scan(&n)
			cols = append(cols, n)
		}
		crow.Close()
		var sel []string
		for _, c := range cols {
			qc := `"` + strings.ReplaceAll(c, `"`, `""`) + `"`
			sel = append(sel, "typeof("+qc+")", "quote("+qc+")")
		}
		if len(sel) == 0 {
			continue
		}
		q := "SELECT " + strings.Join(sel, ",") + " FROM " + qt
		r, err := db.Query(q)
		if err != nil {
			return nil, fmt.Errorf("%s: %w", q, err)
		}
		var out []string
		n := len(sel)
		for r.Next() {
			vals := make([]sql.NullString, n)
			ptrs := make([]any, n)
			for i := range vals {
				ptrs[i] = &vals[i]
			}
			if err := r.Scan(ptrs...); err != nil {
				r.Close()
				return nil, err
			}
			var sb strings.Builder
			for i := 0; i < n; i += 2 {
				if i > 0 {
					sb.WriteByte(',')
				}
				sb.WriteString(vals[i].String)
				sb.WriteByte(':')
				sb.WriteString(vals[i+1].String)
			}
			out = append(out, sb.String())
		}
		r.Close()
		if err := r.Err(); err != nil {
			return nil, err
		}
		sort.Strings(out)
		d.Tables[t] = out
	}
	for _, p := range []string{"user_version", "application_id"} {
		var v int64
		if err := db.QueryRow("PRAGMA " + p).Scan(&v); err == nil {
			d.Pragma[p] = fmt.Sprint(v)
		}
	}
	return d, nil
}

// DumpFile dumps the database at path (with its -wal, if any) from a private
// copy, so the original files are never touched.
func DumpFile(path string) (*Dump, error) {
	dir, err := os.MkdirTemp("", "verif-dump-")
	if err != nil {
		return nil, err
	}
	defer os.RemoveAll(dir)
	cp := filepath.Join(dir, "copy.db")
	if err := CopyDB(path, cp); err != nil {
		return nil, err
	}
	db, err := Open(cp)
	if err != nil {
		return nil, err
	}
	defer db.Close()
	return DumpDB(db)
}
