package c32

import (
	"context"
	"encoding/json"
	"expvar"
	"fmt"
	"math/rand/v2"
	"os"
	"path/filepath"
	"sort"
	"strings"
	"sync"
	"sync/atomic"
	"time"

	"github.com/rqlite/rqlite/v10/cluster"
	"github.com/rqlite/rqlite/v10/command/proto"
	"github.com/rqlite/rqlite/v10/store"
	"verif/internal/faultnet"
	"verif/internal/hcluster"
	"verif/internal/vf"
)

// proc is one running (or stopped) node process image.
type proc struct {
	node     *hcluster.Node
	id       string
	addr     string
	dir      string
	alive    bool
	cut      bool
	polled   bool // included in the poller
	expectBS int
}

type watch struct {
	rec     reapRec
	t0      time.Time
	timeout time.Duration // 0: reaping is disabled for the role of the entry
	done    bool
	fhb0    int64 // failed-heartbeat observations (process-wide) when the watch started
	reaped0 int64 // nodes_reaped_ok (process-wide) when the watch started
}

// storeStat reads one of rqlite's process-wide expvar counters of the store
// package (all nodes of a history live in this process).
func storeStat(name string) int64 {
	m, ok := expvar.Get("store").(*expvar.Map)
	if !ok {
		return -1
	}
	v, ok := m.Get(name).(*expvar.Int)
	if !ok {
		return -1
	}
	return v.Value()
}

type wk struct {
	base    string
	net     *faultnet.Net
	r       *rand.Rand
	res     *histResult
	mu      sync.Mutex // guards procs, watches, res.Dups, curOp
	procs   []*proc
	watches []*watch
	curN    int
	curKind string
	nextID  int
	nextDir int
	must    []string      // kinds this history has to contain (taken as soon as feasible)
	reapV   time.Duration // ReapTimeout of every node of this history (0 = voters are never reaped)
	reapN   time.Duration // ReapReadOnlyTimeout of every node (0 = non-voters are never reaped)
	opsLeft int
	polls   atomic.Int64
	pollErr atomic.Int64
	cfgSeen map[string]bool
	maxEnt  int
	stop    chan struct{}
	pdone   chan struct{}
}

func sufName(s proto.Suffrage) string {
	switch s {
	case proto.Suffrage_VOTER:
		return "voter"
	case proto.Suffrage_NON_VOTER:
		return "nonvoter"
	}
	return "other"
}

func toEntries(ns []*store.Server) []entry {
	es := make([]entry, 0, len(ns))
	for _, n := range ns {
		es = append(es, entry{ID: n.ID, Addr: n.Addr, Suffrage: sufName(n.Suffrage)})
	}
	return es
}

func find(es []entry, id string) *entry {
	for i := range es {
		if es[i].ID == id {
			e := es[i]
			return &e
		}
	}
	return nil
}

func (w *wk) tune(expect int) func(s *store.Store) {
	return func(s *store.Store) {
		s.ReapTimeout = w.reapV
		s.ReapReadOnlyTimeout = w.reapN
		s.BootstrapExpect = expect
	}
}

// start opens a node process (not bootstrapped, not joined).
func (w *wk) start(id, addr, dir string, expect int) (*proc, error) {
	if dir == "" {
		w.nextDir++
		dir = filepath.Join(w.base, fmt.Sprintf("d%d-%s", w.nextDir, id))
	}
	o := hcluster.Options{ID: id, Dir: dir, RaftAddr: addr, HeartbeatTimeout: hbTimeout, ElectionTimeout: hbTimeout, LeaderLease: hbTimeout,
		NoSnapshotOnClose: true, Tune: w.tune(expect)}
	var n *hcluster.Node
	var err error
	for i := 0; i < 60; i++ {
		n, err = hcluster.NewNode(w.net, o)
		if err == nil {
			break
		}
		time.Sleep(100 * time.Millisecond)
	}
	if err != nil {
		return nil, fmt.Errorf("timeout: start %s on %q: %v", id, addr, err)
	}
	p := &proc{node: n, id: id, addr: n.RaftAddr, dir: dir, alive: true, polled: true, expectBS: expect}
	w.mu.Lock()
	w.procs = append(w.procs, p)
	w.mu.Unlock()
	return p, nil
}

// stop closes the process (its configuration entry, if any, stays).
func (w *wk) stopProc(p *proc) {
	w.mu.Lock()
	p.alive = false
	p.polled = false
	w.mu.Unlock()
	done := make(chan struct{})
	go func() { p.node.Close(); close(done) }()
	select {
	case <-done:
	case <-time.After(30 * time.Second):
	}
}

func (w *wk) live() []*proc {
	w.mu.Lock()
	defer w.mu.Unlock()
	var out []*proc
	for _, p := range w.procs {
		if p.alive {
			out = append(out, p)
		}
	}
	return out
}

func (w *wk) leader() *proc {
	for _, p := range w.live() {
		if !p.cut && p.node.Store.IsLeader() {
			return p
		}
	}
	return nil
}

func (w *wk) waitLeader(d time.Duration) *proc {
	deadline := time.Now().Add(d)
	for time.Now().Before(deadline) {
		if l := w.leader(); l != nil {
			return l
		}
		time.Sleep(30 * time.Millisecond)
	}
	return nil
}

// leaderCfg reads the configuration from a node that is leader before and
// after the read.
func (w *wk) leaderCfg(d time.Duration) ([]entry, *proc, bool) {
	deadline := time.Now().Add(d)
	for time.Now().Before(deadline) {
		if l := w.leader(); l != nil {
			ns, err := l.node.Store.Nodes()
			if err == nil && len(ns) > 0 && l.node.Store.IsLeader() {
				return toEntries(ns), l, true
			}
		}
		time.Sleep(30 * time.Millisecond)
	}
	return nil, nil, false
}

func dupIn(es []entry) (what, val string) {
	ids := map[string]bool{}
	addrs := map[string]bool{}
	for _, e := range es {
		if ids[e.ID] {
			return "duplicate-id", e.ID
		}
		ids[e.ID] = true
		if addrs[e.Addr] {
			return "duplicate-address", e.Addr
		}
		addrs[e.Addr] = true
	}
	return "", ""
}

// observe reads one node's configuration, checks uniqueness and feeds the
// removal watches.
func (w *wk) observe(p *proc) {
	wasLeader := p.node.Store.IsLeader()
	ns, err := p.node.Store.Nodes()
	now := time.Now()
	isLeader := p.node.Store.IsLeader()
	if err != nil {
		w.pollErr.Add(1)
		return
	}
	w.polls.Add(1)
	es := toEntries(ns)
	what, val := dupIn(es)
	key := cfgString(es)
	w.mu.Lock()
	defer w.mu.Unlock()
	if !w.cfgSeen[key] {
		w.cfgSeen[key] = true
	}
	if len(es) > w.maxEnt {
		w.maxEnt = len(es)
	}
	if what != "" && len(w.res.Dups) < 10 {
		w.res.Dups = append(w.res.Dups, dupRec{Node: p.id + "@" + p.addr, What: what, Value: val, Cfg: es, DuringN: w.curN, During: w.curKind})
	}
	if wasLeader && isLeader && len(es) > 0 && !p.cut {
		for _, wt := range w.watches {
			if wt.done {
				continue
			}
			present := false
			for _, e := range es {
				if e.ID == wt.rec.ID && e.Addr == wt.rec.Addr {
					present = true
				}
			}
			if !present {
				wt.done = true
				wt.rec.Removed = true
				wt.rec.RemovedMs = float64(now.Sub(wt.t0).Microseconds()) / 1000
				wt.rec.By = p.id
				wt.rec.FailedHBs = storeStat("failed_heartbeat_observed") - wt.fhb0
				wt.rec.ReapedOK = storeStat("nodes_reaped_ok") - wt.reaped0
			}
		}
	}
}

func (w *wk) poller() {
	defer close(w.pdone)
	for {
		select {
		case <-w.stop:
			return
		default:
		}
		w.mu.Lock()
		var ps []*proc
		for _, p := range w.procs {
			if p.alive && p.polled {
				ps = append(ps, p)
			}
		}
		w.mu.Unlock()
		for _, p := range ps {
			w.observe(p)
		}
		time.Sleep(10 * time.Millisecond)
	}
}

func (w *wk) observeAll() {
	for _, p := range w.live() {
		w.observe(p)
	}
}

// contactAge returns the node's own last-contact age in ms (-1 unknown/never).
func contactAge(p *proc) float64 {
	st, err := p.node.Store.Stats()
	if err != nil {
		return -1
	}
	rs, ok := st["raft"].(map[string]any)
	if !ok {
		return -1
	}
	switch v := rs["last_contact"].(type) {
	case string:
		if d, err := time.ParseDuration(v); err == nil {
			return float64(d.Microseconds()) / 1000
		}
	}
	return -1
}

// addWatch registers p's entry as unresponsive from now on. Call immediately
// before cutting / closing p.
func (w *wk) addWatch(p *proc, e entry, cause string) *watch {
	to := w.reapV
	if e.Suffrage != "voter" {
		to = w.reapN
	}
	age := contactAge(p)
	wt := &watch{timeout: to, rec: reapRec{ID: e.ID, Addr: e.Addr, Role: e.Suffrage, Cause: cause, TimeoutMs: float64(to.Milliseconds()), Disabled: to == 0, ContactAgeMs: age}}
	wt.fhb0, wt.reaped0 = storeStat("failed_heartbeat_observed"), storeStat("nodes_reaped_ok")
	w.mu.Lock()
	wt.rec.DuringN = w.curN
	wt.t0 = time.Now()
	w.watches = append(w.watches, wt)
	w.mu.Unlock()
	return wt
}

// touch cancels watches on an id or address an operation is about to change.
func (w *wk) touch(id, addr, why string) {
	w.mu.Lock()
	defer w.mu.Unlock()
	for _, wt := range w.watches {
		if !wt.done && (wt.rec.ID == id || (addr != "" && wt.rec.Addr == addr)) {
			wt.done = true
			wt.rec.Cancelled = why
		}
	}
}

func (w *wk) watchDone(wt *watch) bool {
	w.mu.Lock()
	defer w.mu.Unlock()
	return wt.done
}

// neverWindow is how long an unresponsive entry whose role is never reaped is
// kept under observation: well beyond the timeout of the other role, so that a
// reaper applying the other role's timeout to it is seen.
func (w *wk) neverWindow() time.Duration {
	m := w.reapV
	if w.reapN > m {
		m = w.reapN
	}
	return m + 4*time.Second
}

// closeSurvived ends the observation of an entry whose role is never reaped:
// it was still listed by the leader on every poll of the window.
func (w *wk) closeSurvived(wt *watch) {
	w.mu.Lock()
	defer w.mu.Unlock()
	if wt.done || wt.timeout != 0 {
		return
	}
	wt.done = true
	wt.rec.SurvivedMs = float64(time.Since(wt.t0).Microseconds()) / 1000
	wt.rec.FailedHBs = storeStat("failed_heartbeat_observed") - wt.fhb0
	wt.rec.ReapedOK = storeStat("nodes_reaped_ok") - wt.reaped0
}

func (w *wk) newID() string {
	w.nextID++
	return fmt.Sprintf("n%d", w.nextID)
}

func sufOf(voter bool) proto.Suffrage {
	if voter {
		return proto.Suffrage_VOTER
	}
	return proto.Suffrage_NON_VOTER
}

func wantName(voter bool) string {
	if voter {
		return "voter"
	}
	return "nonvoter"
}

// memberAddrs returns the raft addresses of live, uncut members other than p.
func (w *wk) targetsFor(p *proc) []string {
	var out []string
	for _, q := range w.live() {
		if q != p && !q.cut {
			out = append(out, q.addr)
		}
	}
	w.r.Shuffle(len(out), func(i, j int) { out[i], out[j] = out[j], out[i] })
	return out
}

// join sends a join request for (id, addr, voter) from p through the real
// Joiner and fills the op record.
func (w *wk) join(o *opRec, p *proc, voter bool, attempts int) {
	o.ID, o.Addr, o.Want = p.id, p.addr, wantName(voter)
	if cfg, _, ok := w.leaderCfg(10 * time.Second); ok {
		o.Prev = find(cfg, p.id)
	}
	w.touch(p.id, p.addr, "join "+p.id+"@"+p.addr)
	targets := w.targetsFor(p)
	if len(targets) == 0 {
		o.Err = "no targets"
		return
	}
	j := cluster.NewJoiner(p.node.Client, attempts, 500*time.Millisecond)
	ctx, cancel := context.WithTimeout(context.Background(), 60*time.Second)
	defer cancel()
	_, err := j.Do(ctx, targets, p.id, p.addr, sufOf(voter))
	if err != nil {
		o.Err = err.Error()
		// the Joiner only logs the reason; ask the leader directly once for the record
		if l := w.leader(); l != nil {
			if e2 := p.node.Client.Join(context.Background(), &proto.JoinRequest{Id: p.id, Address: p.addr, Voter: voter}, l.addr, nil, 5*time.Second); e2 != nil {
				o.Note = "direct retry: " + e2.Error()
			} else {
				o.Note = "direct retry succeeded"
				err = nil
			}
		}
		if err != nil {
			return
		}
	}
	o.Ack = true
	w.readAck(o)
}

func (w *wk) readAck(o *opRec) {
	cfg1, _, ok1 := w.leaderCfg(10 * time.Second)
	w.observeAll()
	time.Sleep(time.Second)
	cfg2, _, ok2 := w.leaderCfg(10 * time.Second)
	if ok1 && ok2 {
		o.After, o.After2 = find(cfg1, o.ID), find(cfg2, o.ID)
		o.Checked = true
	}
}

// candidates returns live, uncut, non-leader processes that are members, with
// their entries, filtered by pred.
func (w *wk) candidates(cfg []entry, l *proc, pred func(p *proc, e entry) bool) []*proc {
	var out []*proc
	for _, p := range w.live() {
		if p == l || p.cut {
			continue
		}
		e := find(cfg, p.id)
		if e == nil || e.Addr != p.addr {
			continue
		}
		if pred == nil || pred(p, *e) {
			out = append(out, p)
		}
	}
	sort.Slice(out, func(i, j int) bool { return out[i].id < out[j].id })
	return out
}

// quorumSafe reports whether the cluster keeps a quorum of live voters when
// the member with this entry stops responding.
func (w *wk) quorumSafe(cfg []entry, e entry) bool {
	if e.Suffrage != "voter" {
		return true
	}
	voters, liveVoters := 0, 0
	for _, c := range cfg {
		if c.Suffrage != "voter" {
			continue
		}
		voters++
		if c.ID == e.ID {
			continue
		}
		for _, p := range w.live() {
			if p.id == c.ID && p.addr == c.Addr && !p.cut {
				liveVoters++
			}
		}
	}
	return liveVoters >= voters/2+1
}

var opKinds = []string{
	"join-voter", "join-voter", "join-nonvoter", "boot-join-voter", "boot-join-nonvoter",
	"rejoin-newaddr-same", "rejoin-newaddr-other", "newnode-usedaddr-present", "newnode-usedaddr-removed", "newnode-usedid-same", "newnode-usedid-other",
	"rejoin-same-other", "rejoin-same-other", "rejoin-same-same", "renotify", "remove", "cut-voter", "cut-nonvoter", "cut-nonvoter",
}

// reapCfg is the pair (ReapTimeout, ReapReadOnlyTimeout) all nodes of one
// history run with; 0 means that role is never reaped.
type reapCfg struct{ voter, nonvoter time.Duration }

// Both orders of two far-apart timeouts, and each role disabled while the other
// one is reaped. History i uses reapCfgs[(i+i/4)%4], so that every required
// cut kind (w.must, i%4) meets every configuration.
var reapCfgs = []reapCfg{
	{reapShort, reapLong},
	{reapShort, 0},
	{0, reapShort},
	{reapLong, reapShort},
}

func worker(args []string) {
	var caseNo, nOps int
	var seed int64
	fmt.Sscan(args[0], &caseNo)
	fmt.Sscan(args[1], &seed)
	tier := args[2]
	dir := args[3]
	fmt.Sscan(args[4], &nOps)
	forced := ""
	if len(args) > 5 {
		forced = args[5]
	}
	res := runHistory(caseNo, seed, tier, dir, nOps, forced)
	b, _ := json.Marshal(res)
	fmt.Println(string(b))
	os.Stdout.Sync()
	os.RemoveAll(dir)
	os.Exit(0)
}

func runHistory(caseNo int, seed int64, tier, dir string, nOps int, forced string) (res histResult) {
	c := &vf.Ctx{ID: "C32", Seed: seed, Tier: tier}
	r := c.Rand(uint64(7000 + caseNo))
	res = histResult{Case: caseNo}
	os.MkdirAll(dir, 0755)
	w := &wk{base: dir, net: faultnet.New(), r: r, res: &res, cfgSeen: map[string]bool{}, stop: make(chan struct{}), pdone: make(chan struct{})}
	var forcedKinds []string
	if strings.HasPrefix(forced, "kinds:") {
		forcedKinds = strings.Split(strings.TrimPrefix(forced, "kinds:"), ",")
	}
	defer func() {
		if p := recover(); p != nil {
			res.SetupErr = fmt.Sprintf("panic: %v", p)
		}
	}()
	finish := func() {
		close(w.stop)
		<-w.pdone
		w.mu.Lock()
		for _, wt := range w.watches {
			res.Reaps = append(res.Reaps, wt.rec)
		}
		res.Polls = w.polls.Load()
		res.PollErrs = w.pollErr.Load()
		res.Distinct = len(w.cfgSeen)
		res.MaxEntries = w.maxEnt
		w.mu.Unlock()
		if cfg, _, ok := w.leaderCfg(2 * time.Second); ok {
			res.FinalCfg = cfg
		}
		w.net.HealAll()
		done := make(chan struct{})
		go func() {
			for _, p := range w.live() {
				p.node.Close()
			}
			close(done)
		}()
		select {
		case <-done:
		case <-time.After(20 * time.Second):
		}
	}
	go w.poller()
	defer finish()
	w.must = [][]string{
		{"cut-nonvoter", "rejoin-newaddr-other"},
		{"cut-voter", "rejoin-same-other"},
		{"newnode-usedaddr-present", "cut-nonvoter"},
		{"newnode-usedid-other", "cut-voter"},
	}[caseNo%4]

	// ---- reap configuration of this history (every node gets the same one)
	rc := reapCfgs[(caseNo+caseNo/4)%len(reapCfgs)]
	if len(forcedKinds) > 0 && strings.HasPrefix(forcedKinds[0], "reap=") {
		var v, n int64
		if _, err := fmt.Sscanf(forcedKinds[0], "reap=%d/%d", &v, &n); err == nil {
			rc = reapCfg{time.Duration(v) * time.Millisecond, time.Duration(n) * time.Millisecond}
		}
		forcedKinds = forcedKinds[1:]
	}
	w.reapV, w.reapN = rc.voter, rc.nonvoter
	res.ReapVoterMs, res.ReapNonVoterMs = rc.voter.Milliseconds(), rc.nonvoter.Milliseconds()

	// ---- formation
	formation := []string{"bootstrap-1", "notify-2", "notify-3", "notify-3"}[r.IntN(4)]
	if len(forcedKinds) > 0 {
		formation = forcedKinds[0]
		forcedKinds = forcedKinds[1:]
	}
	res.Formation = formation
	t0 := time.Now()
	w.curKind = "form"
	if err := w.form(formation); err != nil {
		res.SetupErr = err.Error()
		return res
	}
	res.FormedMs = float64(time.Since(t0).Milliseconds())

	// ---- operations
	n := nOps
	if len(forcedKinds) > 0 {
		n = len(forcedKinds)
	}
	for i := 0; i < n; i++ {
		cfg, l, ok := w.leaderCfg(30 * time.Second)
		if !ok {
			res.SetupErr = fmt.Sprintf("timeout: no leader before op %d", i)
			return res
		}
		var kind string
		w.opsLeft = n - i
		if len(forcedKinds) > 0 {
			kind = forcedKinds[i]
		} else {
			kind = w.pick(cfg, l)
		}
		o := opRec{N: i, Kind: kind}
		w.mu.Lock()
		w.curN, w.curKind = i, kind
		w.mu.Unlock()
		ts := time.Now()
		w.doOp(&o, cfg, l)
		o.Ms = float64(time.Since(ts).Milliseconds())
		w.observeAll()
		if cfg2, _, ok := w.leaderCfg(5 * time.Second); ok {
			o.CfgAfter = cfg2
		}
		res.Ops = append(res.Ops, o)
		if strings.HasPrefix(o.Err, "fatal:") {
			res.SetupErr = "timeout: " + o.Err
			return res
		}
	}
	// let pending watches (closed nodes still listed) run out, bounded
	deadline := time.Now().Add(w.neverWindow() + 2*time.Second)
	for time.Now().Before(deadline) {
		pending := false
		w.mu.Lock()
		var never []*watch
		for _, wt := range w.watches {
			if !wt.done {
				pending = true
				if wt.timeout == 0 && time.Since(wt.t0) >= w.neverWindow() {
					never = append(never, wt)
				}
			}
		}
		w.mu.Unlock()
		for _, wt := range never {
			w.closeSurvived(wt)
		}
		if !pending {
			break
		}
		time.Sleep(100 * time.Millisecond)
	}
	return res
}

// form creates the initial cluster.
func (w *wk) form(formation string) error {
	k := 1
	switch formation {
	case "notify-2":
		k = 2
	case "notify-3":
		k = 3
	}
	if k == 1 {
		p, err := w.start(w.newID(), "", "", 0)
		if err != nil {
			return err
		}
		if err := p.node.Bootstrap(); err != nil {
			return fmt.Errorf("timeout: bootstrap: %v", err)
		}
		if w.waitLeader(30*time.Second) == nil {
			return fmt.Errorf("timeout: no leader after bootstrap")
		}
		return nil
	}
	var ps []*proc
	var addrs []string
	for i := 0; i < k; i++ {
		p, err := w.start(w.newID(), "", "", k)
		if err != nil {
			return err
		}
		ps = append(ps, p)
		addrs = append(addrs, p.addr)
	}
	// every node runs the real boot loop concurrently, with all addresses
	// (its own included) as discovery result
	var wg sync.WaitGroup
	errs := make([]error, k)
	for i, p := range ps {
		wg.Add(1)
		go func(i int, p *proc) {
			defer wg.Done()
			bs := cluster.NewBootstrapper(cluster.NewAddressProviderString(addrs), p.node.Client)
			bs.Interval = 500 * time.Millisecond
			done := func() bool {
				a, _ := p.node.Store.LeaderAddr()
				return a != ""
			}
			errs[i] = bs.Boot(context.Background(), p.id, p.addr, proto.Suffrage_VOTER, done, 90*time.Second)
		}(i, p)
	}
	wg.Wait()
	for i, e := range errs {
		if e != nil {
			return fmt.Errorf("timeout: boot of %s: %v", ps[i].id, e)
		}
	}
	if w.waitLeader(30*time.Second) == nil {
		return fmt.Errorf("timeout: no leader after notify bootstrap")
	}
	// every node asked to be a voter: record as acknowledged joins
	time.Sleep(500 * time.Millisecond)
	cfg, _, ok := w.leaderCfg(20 * time.Second)
	if !ok {
		return fmt.Errorf("timeout: no stable leader after notify bootstrap")
	}
	w.res.BootEntries = cfg
	for _, p := range ps {
		o := opRec{N: -1, Kind: "form", ID: p.id, Addr: p.addr, Want: "voter", Ack: true, Checked: true}
		o.After, o.After2 = find(cfg, p.id), find(cfg, p.id)
		if o.After == nil {
			o.After = &entry{ID: p.id, Suffrage: "absent"}
			o.After2 = o.After
		}
		w.res.Ops = append(w.res.Ops, o)
	}
	return nil
}

// pick chooses the next feasible operation kind.
func (w *wk) pick(cfg []entry, l *proc) string {
	nLive := len(w.live())
	voters := 0
	for _, e := range cfg {
		if e.Suffrage == "voter" {
			voters++
		}
	}
	safe := func(p *proc, e entry) bool { return w.quorumSafe(cfg, e) }
	feasible := func(kind string) bool {
		switch kind {
		case "join-voter", "join-nonvoter", "boot-join-voter", "boot-join-nonvoter":
			return nLive < maxLive
		case "rejoin-newaddr-same", "rejoin-newaddr-other", "newnode-usedaddr-present", "newnode-usedaddr-removed", "newnode-usedid-same", "newnode-usedid-other", "remove":
			return len(w.candidates(cfg, l, safe)) > 0
		case "rejoin-same-other", "rejoin-same-same":
			return len(w.candidates(cfg, l, nil)) > 0
		case "renotify":
			return true
		case "cut-voter":
			return len(w.candidates(cfg, l, func(p *proc, e entry) bool { return e.Suffrage == "voter" && w.quorumSafe(cfg, e) })) > 0
		case "cut-nonvoter":
			return len(w.candidates(cfg, l, func(p *proc, e entry) bool { return e.Suffrage == "nonvoter" })) > 0
		}
		return false
	}
	// kinds this history is required to contain
	for i, k := range w.must {
		ok := feasible(k)
		if !ok && k == "cut-nonvoter" && nLive < maxLive && voters >= 2 {
			return "join-nonvoter" // make it feasible
		}
		if ok && (w.r.IntN(2) == 0 || w.opsLeft <= len(w.must)+2) {
			w.must = append(w.must[:i:i], w.must[i+1:]...)
			return k
		}
	}
	// grow first: most operations need three voters to be possible at all
	if voters < 3 && nLive < maxLive && w.r.IntN(3) > 0 {
		return "join-voter"
	}
	for try := 0; try < 50; try++ {
		k := opKinds[w.r.IntN(len(opKinds))]
		if feasible(k) {
			return k
		}
	}
	return "renotify"
}

func (w *wk) doOp(o *opRec, cfg []entry, l *proc) {
	pickFrom := func(ps []*proc) *proc {
		if len(ps) == 0 {
			return nil
		}
		return ps[w.r.IntN(len(ps))]
	}
	safe := func(p *proc, e entry) bool { return w.quorumSafe(cfg, e) }
	switch o.Kind {
	case "join-voter", "join-nonvoter":
		if len(w.live()) >= maxLive {
			o.Skipped = "too many live nodes"
			return
		}
		p, err := w.start(w.newID(), "", "", 0)
		if err != nil {
			o.Err = "fatal: " + err.Error()
			return
		}
		w.join(o, p, o.Kind == "join-voter", 4)
		if !o.Ack {
			w.stopProc(p)
		}
	case "boot-join-voter", "boot-join-nonvoter":
		if len(w.live()) >= maxLive {
			o.Skipped = "too many live nodes"
			return
		}
		voter := o.Kind == "boot-join-voter"
		expect := 0
		if voter {
			expect = 3
		}
		p, err := w.start(w.newID(), "", "", expect)
		if err != nil {
			o.Err = "fatal: " + err.Error()
			return
		}
		o.ID, o.Addr, o.Want = p.id, p.addr, wantName(voter)
		targets := append(w.targetsFor(p), p.addr)
		bs := cluster.NewBootstrapper(cluster.NewAddressProviderString(targets), p.node.Client)
		bs.Interval = 500 * time.Millisecond
		done := func() bool {
			a, _ := p.node.Store.LeaderAddr()
			return a != ""
		}
		err = bs.Boot(context.Background(), p.id, p.addr, sufOf(voter), done, 60*time.Second)
		o.Note = "boot status: " + bs.Status().String()
		if err != nil {
			o.Err = err.Error()
			w.stopProc(p)
			return
		}
		o.Ack = true
		w.readAck(o)
	case "rejoin-newaddr-same", "rejoin-newaddr-other", "newnode-usedid-same", "newnode-usedid-other":
		x := pickFrom(w.candidates(cfg, l, safe))
		if x == nil {
			o.Skipped = "no quorum-safe member"
			return
		}
		e := find(cfg, x.id)
		o.Target = x.id
		voter := e.Suffrage == "voter"
		if strings.HasSuffix(o.Kind, "-other") {
			voter = !voter
		}
		// x stops; its entry stays until the join replaces it
		w.addWatch(x, *e, "closed")
		w.stopProc(x)
		dir := ""
		if strings.HasPrefix(o.Kind, "rejoin-newaddr") {
			dir = x.dir // same node, same data, new listener
		}
		p, err := w.start(x.id, "", dir, 0)
		if err != nil {
			o.Err = "fatal: " + err.Error()
			return
		}
		if p.addr == x.addr {
			o.Note = "kernel handed out the same port"
		}
		w.join(o, p, voter, 4)
		if !o.Ack {
			w.stopProc(p)
		}
	case "newnode-usedaddr-present", "newnode-usedaddr-removed":
		x := pickFrom(w.candidates(cfg, l, safe))
		if x == nil {
			o.Skipped = "no quorum-safe member"
			return
		}
		e := find(cfg, x.id)
		o.Target = x.id
		voter := w.r.IntN(2) == 0
		var wt *watch
		if o.Kind == "newnode-usedaddr-removed" {
			w.touch(x.id, "", "remove "+x.id)
			if err := w.remove(x.id); err != nil {
				o.Err = "remove: " + err.Error()
				return
			}
			w.stopProc(x)
		} else {
			wt = w.addWatch(x, *e, "closed")
			w.stopProc(x)
		}
		p, err := w.start(w.newID(), x.addr, "", 0)
		if err != nil {
			o.Err = "fatal: " + err.Error()
			return
		}
		if o.Kind == "newnode-usedaddr-present" {
			// One attempt first, to record how a join onto a still-listed
			// address is answered. The watch on the old entry is kept: Join
			// does not (and is not expected to) remove it by address in this
			// code base; if it did, the join below would be acknowledged.
			first := opRec{}
			w.joinKeepWatch(&first, p, voter, 1)
			o.Note = fmt.Sprintf("first attempt ack=%v err=%q %s", first.Ack, first.Err, first.Note)
			// if the old entry is gone right after this request, the request (not
			// the reaper) removed it: that is no automatic removal
			if c2, _, ok := w.leaderCfg(5 * time.Second); !ok || find(c2, x.id) == nil || first.Ack {
				w.mu.Lock()
				wt.done = true
				wt.rec.Removed = false
				wt.rec.Cancelled = "entry gone right after a join request on its address"
				w.mu.Unlock()
			}
			if first.Ack {
				*o = mergeAck(*o, first)
				return
			}
			// The new node now answers on the old entry's address, so the leader's
			// heartbeats to the old entry succeed and the reaper never fires: the
			// dead entry has to be removed explicitly before the join can work.
			w.touch(x.id, "", "remove "+x.id)
			if err := w.remove(x.id); err != nil {
				o.Note += "; remove: " + err.Error()
			}
		}
		w.join(o, p, voter, 4)
		if !o.Ack {
			w.stopProc(p)
		}
	case "rejoin-same-other", "rejoin-same-same":
		x := pickFrom(w.candidates(cfg, l, nil))
		if x == nil {
			o.Skipped = "no member"
			return
		}
		e := find(cfg, x.id)
		o.Target = x.id
		voter := e.Suffrage == "voter"
		if o.Kind == "rejoin-same-other" {
			voter = !voter
			// demoting the only other voter etc. is fine for raft; but do not ask
			// to demote when that would leave a single voter with a dead peer
		}
		w.join(o, x, voter, 3)
	case "renotify":
		// every live node notifies every live node again (discovery keeps running)
		ps := w.live()
		var wg sync.WaitGroup
		for _, p := range ps {
			wg.Add(1)
			go func(p *proc) {
				defer wg.Done()
				for _, q := range ps {
					if q.cut || p.cut {
						continue
					}
					p.node.Client.Notify(context.Background(), &proto.NotifyRequest{Id: p.id, Address: p.addr}, q.addr, nil, 5*time.Second)
				}
			}(p)
		}
		wg.Wait()
		// plus a stranger announcing itself with a used address and a used id
		if len(ps) > 1 {
			ps[0].node.Client.Notify(context.Background(), &proto.NotifyRequest{Id: "stranger", Address: ps[1].addr}, ps[0].addr, nil, 5*time.Second)
			ps[0].node.Client.Notify(context.Background(), &proto.NotifyRequest{Id: ps[1].id, Address: "127.0.0.1:1"}, ps[0].addr, nil, 5*time.Second)
		}
		time.Sleep(200 * time.Millisecond)
	case "remove":
		x := pickFrom(w.candidates(cfg, l, safe))
		if x == nil {
			o.Skipped = "no quorum-safe member"
			return
		}
		o.Target = x.id
		w.touch(x.id, "", "remove "+x.id)
		if err := w.remove(x.id); err != nil {
			o.Err = err.Error()
			return
		}
		o.Ack = true
		w.stopProc(x)
	case "cut-voter", "cut-nonvoter":
		role := strings.TrimPrefix(o.Kind, "cut-")
		x := pickFrom(w.candidates(cfg, l, func(p *proc, e entry) bool { return e.Suffrage == role && w.quorumSafe(cfg, e) }))
		if x == nil {
			o.Skipped = "no quorum-safe " + role
			return
		}
		e := find(cfg, x.id)
		o.Target = x.id
		var names []string
		for _, p := range w.live() {
			names = append(names, p.id)
		}
		w.mu.Lock()
		x.polled = false
		w.mu.Unlock()
		byClose := w.r.IntN(3) == 0
		var wt *watch
		if byClose {
			// the process dies; nothing listens on its address any more
			wt = w.addWatch(x, *e, "closed")
			w.stopProc(x)
		} else {
			wt = w.addWatch(x, *e, "cut")
			w.mu.Lock()
			x.cut = true
			w.mu.Unlock()
			w.net.Isolate(x.id, names)
		}
		if wt.timeout == 0 {
			// this role is never reaped: keep the entry under observation for the
			// window; any poll of the leader without it ends the watch (removed)
			deadline := time.Now().Add(w.neverWindow())
			for time.Now().Before(deadline) && !w.watchDone(wt) {
				time.Sleep(20 * time.Millisecond)
			}
			w.observeAll()
			if !w.watchDone(wt) {
				o.Note = fmt.Sprintf("role is never reaped; still listed after %v", w.neverWindow())
				w.closeSurvived(wt)
			} else {
				o.Note = "role is never reaped, but the entry disappeared"
			}
		} else {
			deadline := time.Now().Add(wt.timeout + 10*time.Second)
			for time.Now().Before(deadline) && !w.watchDone(wt) {
				time.Sleep(20 * time.Millisecond)
			}
			if !w.watchDone(wt) {
				o.Note = "not reaped within timeout+10s"
				w.touch(x.id, "", "gave up waiting")
			}
		}
		// the node is gone for good (still cut when closed)
		if !byClose {
			w.stopProc(x)
		}
		w.net.HealAll()
		w.mu.Lock()
		x.cut = false
		w.mu.Unlock()
		// if its entry is still listed it stays a dead entry; make it go away so
		// that the history can continue with a quorum
		if c2, _, ok := w.leaderCfg(5 * time.Second); ok && find(c2, x.id) != nil {
			w.remove(x.id)
		}
	default:
		o.Skipped = "unknown kind"
	}
}

func mergeAck(o, first opRec) opRec {
	o.ID, o.Addr, o.Want, o.Prev, o.Ack, o.After, o.After2, o.Checked = first.ID, first.Addr, first.Want, first.Prev, first.Ack, first.After, first.After2, first.Checked
	return o
}

// joinKeepWatch is join without cancelling watches on the address.
func (w *wk) joinKeepWatch(o *opRec, p *proc, voter bool, attempts int) {
	o.ID, o.Addr, o.Want = p.id, p.addr, wantName(voter)
	if cfg, _, ok := w.leaderCfg(10 * time.Second); ok {
		o.Prev = find(cfg, p.id)
	}
	l := w.waitLeader(10 * time.Second)
	if l == nil {
		o.Err = "no leader"
		return
	}
	err := p.node.Client.Join(context.Background(), &proto.JoinRequest{Id: p.id, Address: p.addr, Voter: voter}, l.addr, nil, 5*time.Second)
	if err != nil {
		o.Err = err.Error()
		return
	}
	o.Ack = true
	w.readAck(o)
}

// remove removes id through the real Remover (leader lookup, retries,
// confirmation).
func (w *wk) remove(id string) error {
	l := w.waitLeader(20 * time.Second)
	if l == nil {
		return fmt.Errorf("no leader")
	}
	rm := cluster.NewRemover(l.node.Client, 10*time.Second, l.node.Store)
	ctx, cancel := context.WithTimeout(context.Background(), 40*time.Second)
	defer cancel()
	return rm.Do(ctx, id, true)
}
