package sqlref

// Reference request executor on plain SQLite (stock driver, no rqlite code).
// It states, in a few lines, what a rqlite write request is supposed to mean
// (C13) and gives per-statement callbacks so a caller can take row images and
// collect raw preupdate events around each statement (C27).

import (
	"context"
	"database/sql"
	"fmt"

	sqlite3 "github.com/mattn/go-sqlite3"
)

// RefStmt is one statement of a request.
type RefStmt struct {
	SQL        string `json:"sql"`
	ForceQuery bool   `json:"force_query,omitempty"` // run through the query path (rqlite sets it for RETURNING)
	Args       []any  `json:"args,omitempty"`        // positional parameters
}

// RefReq is a request: statements plus the flags of command.Request.
type RefReq struct {
	Stmts           []RefStmt `json:"stmts"`
	Tx              bool      `json:"tx"`
	RollbackOnError bool      `json:"rollback_on_error"`
	Unified         bool      `json:"unified"` // unified request path: read-only statements are queries
}

// RefRes is the outcome of one executed statement.
type RefRes struct {
	Kind         string   `json:"kind"` // "E" execute result, "Q" query result
	Err          string   `json:"err,omitempty"`
	PrepareErr   bool     `json:"prepare_err,omitempty"` // the statement did not prepare
	ReadOnly     bool     `json:"read_only,omitempty"`
	LastInsertID int64    `json:"last_insert_id,omitempty"`
	RowsAffected int64    `json:"rows_affected,omitempty"`
	Columns      []string `json:"columns,omitempty"`
	Rows         [][]any  `json:"-"`
	StmtIdx      int      `json:"stmt"` // index into RefReq.Stmts
}

// RefVariant switches the executor to a *wrong* semantics. Used only to
// classify an observed mismatch (which finding key), never to excuse one.
type RefVariant struct {
	// Unified path, Tx: a statement that fails to prepare is reported but the
	// transaction carries on and commits.
	PrepareErrDoesNotAbortTx bool
	// Unified path: RollbackOnError is ignored altogether.
	UnifiedIgnoresRollbackOnError bool
}

// RefHooks are optional per-statement callbacks.
type RefHooks struct {
	Before func(stmtIdx int)
	After  func(stmtIdx int, res *RefRes)
	// AfterControl is called after the executor's own BEGIN/COMMIT/ROLLBACK.
	AfterControl func(sql string, err error)
}

// RefConn is a single pinned connection to a plain SQLite database.
type RefConn struct {
	DB   *sql.DB
	Conn *sql.Conn
}

// OpenRef opens path with the stock driver on one pinned connection.
func OpenRef(path string, fk, wal bool) (*RefConn, error) {
	dsn := "file:" + path + "?_txlock=deferred&_sync=0"
	if fk {
		dsn += "&_foreign_keys=on"
	}
	if wal {
		dsn += "&_journal_mode=WAL"
	}
	db, err := sql.Open("sqlite3", dsn)
	if err != nil {
		return nil, err
	}
	db.SetMaxOpenConns(1)
	conn, err := db.Conn(context.Background())
	if err != nil {
		db.Close()
		return nil, err
	}
	return &RefConn{DB: db, Conn: conn}, nil
}

// Close closes the connection and the pool.
func (r *RefConn) Close() {
	r.Conn.Close()
	r.DB.Close()
}

// Raw gives access to the driver connection (hook registration).
func (r *RefConn) Raw(f func(c *sqlite3.SQLiteConn) error) error {
	return r.Conn.Raw(func(dc any) error { return f(dc.(*sqlite3.SQLiteConn)) })
}

// InTx reports whether the connection is inside a transaction.
func (r *RefConn) InTx() bool {
	in := false
	r.Raw(func(c *sqlite3.SQLiteConn) error { in = !c.AutoCommit(); return nil })
	return in
}

// classify prepares the statement to learn whether it prepares at all and
// whether SQLite calls it read-only.
func (r *RefConn) classify(q string) (prepErr error, ro bool) {
	prepErr = r.Raw(func(c *sqlite3.SQLiteConn) error {
		st, err := c.Prepare(q)
		if err != nil {
			return err
		}
		defer st.Close()
		ro = st.(*sqlite3.SQLiteStmt).Readonly()
		return nil
	})
	return
}

func (r *RefConn) control(q string, h *RefHooks) error {
	_, err := r.Conn.ExecContext(context.Background(), q)
	if h != nil && h.AfterControl != nil {
		h.AfterControl(q, err)
	}
	return err
}

func (r *RefConn) query(st RefStmt, res *RefRes) {
	res.Kind = "Q"
	rows, err := r.Conn.QueryContext(context.Background(), st.SQL, st.Args...)
	if err != nil {
		res.Err = err.Error()
		return
	}
	defer rows.Close()
	cols, err := rows.Columns()
	if err != nil {
		res.Err = err.Error()
		return
	}
	res.Columns = cols
	for rows.Next() {
		if len(cols) == 0 {
			break
		}
		vals := make([]any, len(cols))
		ptrs := make([]any, len(cols))
		for i := range vals {
			ptrs[i] = &vals[i]
		}
		if err := rows.Scan(ptrs...); err != nil {
			res.Err = err.Error()
			return
		}
		res.Rows = append(res.Rows, vals)
	}
	if err := rows.Err(); err != nil {
		res.Err = err.Error()
		res.Rows, res.Columns = nil, nil
	}
}

func (r *RefConn) exec(st RefStmt, res *RefRes) {
	res.Kind = "E"
	x, err := r.Conn.ExecContext(context.Background(), st.SQL, st.Args...)
	if err != nil {
		res.Err = err.Error()
		return
	}
	res.LastInsertID, _ = x.LastInsertId()
	res.RowsAffected, _ = x.RowsAffected()
}

// Run executes the request with the intended semantics:
//
//	Tx:   BEGIN; statements in order; stop at the first failure and ROLLBACK
//	      everything, otherwise COMMIT.
//	!Tx:  every statement on its own; a failure is recorded and execution
//	      continues, except that with RollbackOnError a failure issues ROLLBACK
//	      and stops.
//
// One result per executed non-empty statement, in order. The returned error is
// the failure of the executor's own BEGIN/COMMIT.
func (r *RefConn) Run(req *RefReq, v RefVariant, h *RefHooks) ([]RefRes, error) {
	if req.Tx {
		if err := r.control("BEGIN", h); err != nil {
			return nil, err
		}
	}
	var out []RefRes
	inTx := req.Tx
	for i, st := range req.Stmts {
		if st.SQL == "" {
			continue
		}
		res := RefRes{StmtIdx: i}
		if h != nil && h.Before != nil {
			h.Before(i)
		}
		perr, ro := r.classify(st.SQL)
		res.ReadOnly = ro
		switch {
		case perr != nil:
			res.PrepareErr = true
			res.Kind = "E"
			res.Err = perr.Error()
		case st.ForceQuery || (req.Unified && ro):
			r.query(st, &res)
		default:
			r.exec(st, &res)
		}
		if h != nil && h.After != nil {
			h.After(i, &res)
		}
		out = append(out, res)
		if res.Err == "" {
			continue
		}
		if inTx {
			if v.PrepareErrDoesNotAbortTx && req.Unified && res.PrepareErr {
				continue
			}
			r.control("ROLLBACK", h)
			inTx = false
			return out, nil
		}
		if req.RollbackOnError && !(req.Unified && v.UnifiedIgnoresRollbackOnError) {
			r.control("ROLLBACK", h) // fails harmlessly when no transaction is open
			return out, nil
		}
	}
	if inTx {
		if err := r.control("COMMIT", h); err != nil {
			r.control("ROLLBACK", h)
			return out, fmt.Errorf("commit: %w", err)
		}
	}
	return out, nil
}
