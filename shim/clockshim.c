/* LD_PRELOAD shim: shifts the clock SQLite sees (gettimeofday / clock_gettime
 * CLOCK_REALTIME via libc) by VERIF_SQLITE_CLOCK_OFFSET_S seconds. Go's own
 * time.Now uses the vDSO directly and is not affected. */
#define _GNU_SOURCE
#include <dlfcn.h>
#include <stdlib.h>
#include <sys/time.h>
#include <time.h>

static long long off(void) {
  static int init = 0; static long long o = 0;
  if (!init) { const char *s = getenv("VERIF_SQLITE_CLOCK_OFFSET_S"); o = s ? atoll(s) : 0; init = 1; }
  return o;
}
int gettimeofday(struct timeval *tv, void *tz) {
  static int (*real)(struct timeval *, void *) = 0;
  if (!real) real = dlsym(RTLD_NEXT, "gettimeofday");
  int r = real(tv, tz);
  if (r == 0 && tv) tv->tv_sec += off();
  return r;
}
