package c20

import (
	"encoding/json"
	"fmt"
	"sort"
	"strings"
	"sync"
	"time"

	"verif/internal/hcluster"
)

// Bursts: several requests forwarded through the SAME follower at the same
// time, placed at seeded points between the requests of the matrix, so that
// they run on whatever state the earlier requests (of every kind, outcome and
// credential presentation, including refused and failed ones) left behind in
// that follower's forwarding path (inter-node client, connection pool). Every
// request of a burst carries its own token, which a write inserts and a read
// echoes, so "this answer belongs to this request" and "this request was
// executed once" are decided per request from what the leader holds
// afterwards.

type burstReq struct {
	kind  string // execute | request-rw | query-strong | query-weak
	node  *hcluster.Node
	tok   string
	write bool
	raft  bool // goes through the leader's log
	resp  hcluster.Resp
}

const burstReplyDelay = 15 * time.Millisecond

var burstKinds = []string{"execute", "request-rw", "query-strong", "execute", "query-weak", "request-rw"}

func (e *env) burstBody(kind, tok string) (method, path string, body []byte) {
	switch kind {
	case "execute":
		body, _ = json.Marshal([]any{[]any{"INSERT INTO oplog(tok) VALUES(?)", tok}})
		return "POST", "/db/execute?raft_index", body
	case "request-rw":
		body, _ = json.Marshal([]any{[]any{"INSERT INTO oplog(tok) VALUES(?)", tok}, []any{"SELECT ? AS t", tok}})
		return "POST", "/db/request?raft_index", body
	case "query-strong":
		body, _ = json.Marshal([]any{[]any{"SELECT ? AS t, COUNT(*) FROM oplog", tok}})
		return "POST", "/db/query?level=strong&raft_index", body
	default: // query-weak
		body, _ = json.Marshal([]any{[]any{"SELECT ? AS t, COUNT(*) FROM oplog", tok}})
		return "POST", "/db/query?level=weak", body
	}
}

func tokRowid(n *hcluster.Node, tok string) []int64 {
	v, err := qInt(n, "SELECT COUNT(*), COALESCE(MIN(rowid),0) FROM oplog WHERE tok = ?", tok)
	if err != nil || len(v) != 2 {
		return nil
	}
	return v
}

// burst sends, through every follower whose inter-node pool towards the leader
// has been used before, several forwarded requests at the same time, and judges
// each of them. It returns the next observation index.
func (e *env) burst(idx int, rnd interface{ IntN(int) int }) int {
	cl := e.cl
	ld := cl.WaitLeader(90 * time.Second)
	if ld == nil {
		return idx
	}
	var reqs []*burstReq
	var via []string
	for _, n := range cl.Live() {
		if n == ld {
			continue
		}
		m := cl.Net.OpenConns(n.Name, ld.Name, "cluster")
		if m == 0 {
			// this follower has never forwarded anything to this leader (the first use of
			// a pool is left to the matrix and its lost-response probes)
			continue
		}
		// one more request than the pool holds connections, so that every pooled
		// connection is in use at the same time
		k := m + 1
		if k < 3 {
			k = 3
		}
		if k > 8 {
			k = 8
		}
		via = append(via, fmt.Sprintf("%s(%d)", n.Name, k))
		off := rnd.IntN(len(burstKinds))
		for i := 0; i < k; i++ {
			kd := burstKinds[(off+i)%len(burstKinds)]
			br := &burstReq{kind: kd, node: n, write: kd == "execute" || kd == "request-rw", raft: kd != "query-weak"}
			if br.write {
				br.tok = e.newTok("burst-"+kd, n.Name, false)
			} else {
				e.tokN++
				br.tok = fmt.Sprintf("c%d-echo-%d", e.cd.No, e.tokN)
			}
			reqs = append(reqs, br)
		}
	}
	if len(reqs) == 0 {
		e.cnt("burst:skipped-no-used-pool", 1)
		return idx
	}
	e.leaders[ld.Name] = true
	mk := func(br *burstReq) obs {
		o := obs{Idx: idx, Phase: "burst", Kind: br.kind, Node: br.node.Name, Leader: ld.Name, Pres: "admin",
			NodeAuth: e.cd.hasStore(br.node.Name), LeadAuth: e.cd.hasStore(ld.Name), Expect: "served-forwarded", Token: br.tok}
		idx++
		return o
	}
	allInconcl := func(why string) int {
		for _, br := range reqs {
			o := mk(br)
			o.Inconcl = why
			e.record(o)
		}
		return idx
	}
	if e.lastLeader != ld.Name {
		if err := ld.Store.Barrier(); err != nil {
			return allInconcl("barrier on new leader: " + err.Error())
		}
		e.lastLeader = ld.Name
	}
	if !cl.WaitConverged(30 * time.Second) {
		return allInconcl("followers did not catch up before the burst")
	}
	term0 := raftTerm(ld)
	ci0, err := ld.Store.CommitIndex()
	if err != nil {
		return allInconcl("cannot read leader state")
	}
	cmd0 := submitted()
	mark := e.rec.mark()
	e.cnt("burst:bursts", 1)
	e.cnt("burst:requests", int64(len(reqs)))

	// the leader's answers travel a little slower than usual, so that the requests of
	// a burst are all in flight together
	for _, n := range cl.Live() {
		if n != ld {
			cl.Net.SetReplyDelay(ld.Name, n.Name, burstReplyDelay)
		}
	}
	start := make(chan struct{})
	var wg sync.WaitGroup
	for _, br := range reqs {
		wg.Add(1)
		go func(br *burstReq) {
			defer wg.Done()
			method, path, body := e.burstBody(br.kind, br.tok)
			<-start
			br.resp = cl.Do(br.node, method, path, body, hdr(presentations[1]))
		}(br)
	}
	close(start)
	wg.Wait()
	for _, n := range cl.Live() {
		if n != ld {
			cl.Net.SetReplyDelay(ld.Name, n.Name, 0)
		}
	}

	ldAfter := cl.WaitLeader(90 * time.Second)
	if ldAfter == nil {
		return allInconcl("no leader after the burst")
	}
	e.leaders[ldAfter.Name] = true
	if ldAfter != ld || raftTerm(ld) != term0 || term0 == 0 {
		return allInconcl("leadership or term changed during a request that does not move leadership (election caused by machine load)")
	}
	// let the leader finish every copy of every request it received: the number of
	// commands it has built stays the same for a while
	served := int64(0)
	for _, br := range reqs {
		if br.raft && br.resp.Err == nil && br.resp.Status == 200 {
			served++
		}
	}
	cmds := submitted() - cmd0
	stable := time.Now()
	for t0 := time.Now(); time.Since(t0) < 5*time.Second; time.Sleep(20 * time.Millisecond) {
		if c := submitted() - cmd0; c != cmds {
			cmds, stable = c, time.Now()
		}
		if cmds >= served && time.Since(stable) > 150*time.Millisecond {
			break
		}
	}
	cl.WaitConverged(30 * time.Second)
	ci1, _ := ld.Store.CommitIndex()

	type wr struct {
		rowid, raftIndex int64
		tok              string
	}
	var writes []wr
	seenIdx := map[int64]string{}
	clean := true
	for _, br := range reqs {
		o := mk(br)
		K := br.kind
		bad := func(key, f string, a ...any) {
			o.Problems = append(o.Problems, problem{"concurrent-forward:" + K + ":" + key, fmt.Sprintf(f, a...)})
		}
		r := br.resp
		o.Status = r.Status
		o.ServedBy = r.Header.Get("X-Rqlite-Served-By")
		o.Body = clip(string(r.Body), 400)
		if br.write {
			if v := tokRowid(ld, br.tok); v != nil {
				o.Applied = int(v[0])
			} else {
				o.Applied = -1
			}
		}
		switch {
		case r.Err != nil:
			o.Inconcl = "transport error: " + r.Err.Error()
		case r.Status == 503 || r.Status != 200 && strings.Contains(o.Body, "leader"):
			o.Inconcl = fmt.Sprintf("status %d %q", r.Status, strings.TrimSpace(o.Body))
		}
		if o.Inconcl != "" {
			clean = false
			if br.write && o.Applied > 1 {
				o.Inconcl = ""
				bad(fmt.Sprintf("applied-%d", o.Applied), "write sent once to follower %s (answered %d %v) is on the leader %d times", br.node.Name, r.Status, r.Err, o.Applied)
			}
			e.record(o)
			continue
		}
		if r.Status != 200 {
			clean = false
			bad(fmt.Sprintf("status-%d", r.Status), "one of %d requests sent at the same time through follower %s to leader %s: expected 200, got %d %q (token rows on the leader: %d)", len(reqs), br.node.Name, ld.Name, r.Status, strings.TrimSpace(o.Body), o.Applied)
			if br.write && o.Applied > 1 {
				bad(fmt.Sprintf("applied-%d", o.Applied), "write sent once is on the leader %d times", o.Applied)
			}
			e.record(o)
			continue
		}
		a, perr := r.Parse()
		if perr != nil || a.Error != "" || len(a.Results) == 0 {
			clean = false
			bad("result", "body %s", o.Body)
			e.record(o)
			continue
		}
		resErr := ""
		for _, res := range a.Results {
			if res.Error != "" {
				resErr = res.Error
			}
		}
		if resErr != "" {
			clean = false
			if strings.Contains(resErr, "leader") {
				o.Inconcl = "result error: " + resErr
			} else {
				bad("error-result", "body %s (token rows on the leader: %d)", o.Body, o.Applied)
			}
			e.record(o)
			continue
		}
		if o.ServedBy != "" && o.ServedBy != ld.APIAddr && o.ServedBy != "http://"+ld.APIAddr && o.ServedBy != ld.RaftAddr {
			bad("served-by", "X-RQLITE-SERVED-BY %q names neither address of the leader (%s, %s)", o.ServedBy, ld.APIAddr, ld.RaftAddr)
		}
		// the answer is the answer to THIS request
		echo := func(res hcluster.Result) string {
			if len(res.Values) == 1 && len(res.Values[0]) >= 1 {
				s, _ := res.Values[0][0].(string)
				return s
			}
			return ""
		}
		want := map[string]int{"execute": 1, "request-rw": 2, "query-strong": 1, "query-weak": 1}[K]
		if len(a.Results) != want {
			bad("result", "%d results, expected %d: %s", len(a.Results), want, o.Body)
			e.record(o)
			continue
		}
		if br.write {
			e.tokens[br.tok].Outcome = "ack"
			v := tokRowid(ld, br.tok)
			if o.Applied != 1 {
				bad(fmt.Sprintf("applied-%d", o.Applied), "acknowledged write sent once to follower %s is on the leader %s %d times", br.node.Name, ld.Name, o.Applied)
			} else if a.Results[0].RowsAffected != 1 || a.Results[0].LastInsertID != v[1] {
				bad("answer-of-another-request", "result %s, but the leader inserted this request's token %s as row %d", canonJSON(a.Results[0]), br.tok, v[1])
			}
			if K == "request-rw" {
				if got := echo(a.Results[1]); got != br.tok {
					bad("answer-of-another-request", "the read part answers %q, this request asked for %q", got, br.tok)
				}
			}
			if o.Applied == 1 {
				writes = append(writes, wr{v[1], int64(a.RaftIndex), br.tok})
			}
		} else if got := echo(a.Results[0]); got != br.tok {
			bad("answer-of-another-request", "the answer carries %q, this request asked for %q", got, br.tok)
		}
		if br.raft {
			ri := int64(a.RaftIndex)
			if ri <= int64(ci0) || ri > int64(ci1) {
				bad("raft-index", "raft_index %d in the response, the leader committed the entries of this burst in (%d, %d]", ri, ci0, ci1)
			} else if other, dup := seenIdx[ri]; dup {
				bad("raft-index", "raft_index %d in the response is also the raft_index answered for %s", ri, other)
			}
			seenIdx[ri] = br.tok
		}
		e.record(o)
	}

	// ---- the burst as a whole ----
	o := obs{Idx: idx, Phase: "burst", Kind: "all", Node: strings.Join(via, "+"), Leader: ld.Name, Pres: "admin", LeadAuth: e.cd.hasStore(ld.Name), Expect: "served-forwarded"}
	idx++
	o.Cmds = submitted() - cmd0
	o.Delta = int64(ci1) - int64(ci0)
	bad := func(key, f string, a ...any) {
		o.Problems = append(o.Problems, problem{"concurrent-forward:" + key, fmt.Sprintf(f, a...)})
	}
	for _, c := range e.rec.since(mark) {
		if c.Node == ld.Name && c.Surface == "cluster" {
			o.LeaderAA = append(o.LeaderAA, c)
			if c.User != presentations[1].User || c.Pass != presentations[1].Pass {
				bad("credentials-not-carried", "the leader's inter-node check was asked about user %q (password %q) for %s while every caller presented admin", c.User, c.Pass, c.Perm)
				break
			}
		}
	}
	// rows are inserted in log order: the raft_index answered for the writes must be
	// ordered like the rows they produced
	sort.Slice(writes, func(i, j int) bool { return writes[i].rowid < writes[j].rowid })
	for i := 1; i < len(writes); i++ {
		if writes[i].raftIndex <= writes[i-1].raftIndex {
			bad("raft-index-order", "token %s is row %d with raft_index %d, token %s is row %d with raft_index %d", writes[i-1].tok, writes[i-1].rowid, writes[i-1].raftIndex, writes[i].tok, writes[i].rowid, writes[i].raftIndex)
			break
		}
	}
	if !clean {
		o.Inconcl = "a request of the burst has no definite outcome; executions not counted"
		if len(o.Problems) > 0 {
			o.Inconcl = ""
		}
	} else if o.Cmds != served {
		bad("executions", "%d requests that go through the log were sent at the same time through %s and all answered 200; the leader's Store built %d raft command(s) for them (commit index +%d)", served, o.Node, o.Cmds, o.Delta)
	}
	if len(o.LeaderAA) > 6 {
		o.LeaderAA = o.LeaderAA[:6]
	}
	e.record(o)
	return idx
}
