package c05

// Harness-owned WAL format code, written from the SQLite file-format
// description (https://www.sqlite.org/fileformat2.html#walformat). It shares
// nothing with rqlite's db/wal package: it is used to (a) build synthetic WALs
// frame by frame and (b) find the valid prefix and the commit boundaries of any
// WAL so the driver knows which resume offsets exist and whether an error is
// required. What SQLite itself recovers from every WAL is cross-checked against
// this parser (mxFrame reported by PRAGMA wal_checkpoint).

import (
	"bytes"
	"encoding/binary"
)

const (
	walHdrSize   = 32
	frameHdrSize = 24
	magicLE      = 0x377f0682
	magicBE      = 0x377f0683
	walVersion   = 3007000
)

func cksum(bo binary.ByteOrder, s0, s1 uint32, b []byte) (uint32, uint32) {
	for i := 0; i+8 <= len(b); i += 8 {
		s0 += bo.Uint32(b[i:]) + s1
		s1 += bo.Uint32(b[i+4:]) + s0
	}
	return s0, s1
}

type pframe struct {
	Pgno   uint32
	Commit uint32
	Off    int // offset of the frame header in the file
}

// parsed is what the harness parser found in a WAL image.
type parsed struct {
	HeaderOK    bool
	PageSize    int
	Salt1       uint32
	Salt2       uint32
	Frames      []pframe // the valid prefix (salt + running checksum + pgno!=0)
	Boundaries  []int    // frame counts at which a transaction ends (always starts with 0)
	LastCommit  int      // largest boundary (frames up to here are committed)
	SameSaltBad int      // complete-or-partial frames after the valid prefix that carry the header's salts
	OtherSalt   int      // complete frames after the valid prefix with different salts
	PartialTail bool     // file ends inside a frame
	TotalSlots  int      // number of complete frame slots in the file
}

func parseWAL(b []byte) *parsed {
	p := &parsed{Boundaries: []int{0}}
	if len(b) < walHdrSize {
		return p
	}
	magic := binary.BigEndian.Uint32(b[0:])
	var bo binary.ByteOrder
	switch magic {
	case magicLE:
		bo = binary.LittleEndian
	case magicBE:
		bo = binary.BigEndian
	default:
		return p
	}
	if binary.BigEndian.Uint32(b[4:]) != walVersion {
		return p
	}
	ps := int(binary.BigEndian.Uint32(b[8:]))
	if ps < 512 || ps > 65536 || ps&(ps-1) != 0 {
		return p
	}
	c0, c1 := cksum(bo, 0, 0, b[:24])
	if c0 != binary.BigEndian.Uint32(b[24:]) || c1 != binary.BigEndian.Uint32(b[28:]) {
		return p
	}
	p.HeaderOK = true
	p.PageSize = ps
	p.Salt1 = binary.BigEndian.Uint32(b[16:])
	p.Salt2 = binary.BigEndian.Uint32(b[20:])
	fsz := frameHdrSize + ps
	p.TotalSlots = (len(b) - walHdrSize) / fsz
	p.PartialTail = (len(b)-walHdrSize)%fsz != 0
	off := walHdrSize
	valid := true
	for ; off+frameHdrSize <= len(b); off += fsz {
		h := b[off : off+frameHdrSize]
		complete := off+fsz <= len(b)
		sameSalt := binary.BigEndian.Uint32(h[8:]) == p.Salt1 && binary.BigEndian.Uint32(h[12:]) == p.Salt2
		if valid {
			ok := complete && sameSalt && binary.BigEndian.Uint32(h[0:]) != 0
			if ok {
				n0, n1 := cksum(bo, c0, c1, h[:8])
				n0, n1 = cksum(bo, n0, n1, b[off+frameHdrSize:off+fsz])
				if n0 == binary.BigEndian.Uint32(h[16:]) && n1 == binary.BigEndian.Uint32(h[20:]) {
					c0, c1 = n0, n1
				} else {
					ok = false
				}
			}
			if ok {
				f := pframe{Pgno: binary.BigEndian.Uint32(h[0:]), Commit: binary.BigEndian.Uint32(h[4:]), Off: off}
				p.Frames = append(p.Frames, f)
				if f.Commit != 0 {
					p.Boundaries = append(p.Boundaries, len(p.Frames))
				}
				continue
			}
			valid = false
		}
		if sameSalt {
			p.SameSaltBad++
		} else if complete {
			p.OtherSalt++
		}
	}
	p.LastCommit = p.Boundaries[len(p.Boundaries)-1]
	return p
}

// pageData returns the page image of valid frame i.
func (p *parsed) pageData(b []byte, i int) []byte {
	o := p.Frames[i].Off + frameHdrSize
	return b[o : o+p.PageSize]
}

// walBuilder builds a WAL image frame by frame.
type walBuilder struct {
	buf      bytes.Buffer
	bo       binary.ByteOrder
	ps       int
	s1, s2   uint32
	c0, c1   uint32
	nFrames  int
	frameOff []int
}

func newWALBuilder(bigEndianCksum bool, ps int, seq, salt1, salt2 uint32) *walBuilder {
	w := &walBuilder{ps: ps, s1: salt1, s2: salt2}
	hdr := make([]byte, walHdrSize)
	if bigEndianCksum {
		w.bo = binary.BigEndian
		binary.BigEndian.PutUint32(hdr[0:], magicBE)
	} else {
		w.bo = binary.LittleEndian
		binary.BigEndian.PutUint32(hdr[0:], magicLE)
	}
	binary.BigEndian.PutUint32(hdr[4:], walVersion)
	binary.BigEndian.PutUint32(hdr[8:], uint32(ps))
	binary.BigEndian.PutUint32(hdr[12:], seq)
	binary.BigEndian.PutUint32(hdr[16:], salt1)
	binary.BigEndian.PutUint32(hdr[20:], salt2)
	w.c0, w.c1 = cksum(w.bo, 0, 0, hdr[:24])
	binary.BigEndian.PutUint32(hdr[24:], w.c0)
	binary.BigEndian.PutUint32(hdr[28:], w.c1)
	w.buf.Write(hdr)
	return w
}

// frame appends a frame continuing the running checksum.
func (w *walBuilder) frame(pgno, commit uint32, data []byte) {
	w.frameSalted(pgno, commit, data, w.s1, w.s2)
}

// frameSalted appends a frame with explicit salts (the running checksum is
// continued, as SQLite does within one WAL generation).
func (w *walBuilder) frameSalted(pgno, commit uint32, data []byte, s1, s2 uint32) {
	if len(data) != w.ps {
		panic("bad page length")
	}
	h := make([]byte, frameHdrSize)
	binary.BigEndian.PutUint32(h[0:], pgno)
	binary.BigEndian.PutUint32(h[4:], commit)
	binary.BigEndian.PutUint32(h[8:], s1)
	binary.BigEndian.PutUint32(h[12:], s2)
	w.c0, w.c1 = cksum(w.bo, w.c0, w.c1, h[:8])
	w.c0, w.c1 = cksum(w.bo, w.c0, w.c1, data)
	binary.BigEndian.PutUint32(h[16:], w.c0)
	binary.BigEndian.PutUint32(h[20:], w.c1)
	w.frameOff = append(w.frameOff, w.buf.Len())
	w.buf.Write(h)
	w.buf.Write(data)
	w.nFrames++
}

// perturbChain makes every following frame's checksum chain start from a
// different state (models frames left behind by an abandoned transaction whose
// predecessor frames were since overwritten).
func (w *walBuilder) perturbChain(x uint32) {
	w.c0 ^= x | 1
	w.c1 += x*2654435761 + 1
}

func (w *walBuilder) bytes() []byte { return append([]byte(nil), w.buf.Bytes()...) }
