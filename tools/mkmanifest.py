#!/usr/bin/env python3
"""Regenerates MANIFEST.json from tools/checks.json (one record per built check).
Properties without a record are listed under not_applicable with their reason
from tools/unclaimed.json (default: not built yet)."""
import json, subprocess, os
root = os.path.dirname(os.path.dirname(os.path.abspath(__file__)))
props = [json.loads(l) for l in open(os.path.join(root, 'properties.jsonl'))]
import glob
checks = {os.path.basename(f)[:-5]: json.load(open(f)) for f in sorted(glob.glob(os.path.join(root, 'tools', 'checks.d', 'C*.json')))}
unclaimed = json.load(open(os.path.join(root, 'tools', 'unclaimed.json')))
hooks = subprocess.run(['git', '-C', '/repo', 'log', '--format=%H %s'], capture_output=True, text=True).stdout.splitlines()
hook_commits = [l.split()[0] for l in hooks if l.split(' ', 1)[1].startswith('verif hooks:')]
m = {
    "version": 1,
    "setup_cmd": "./setup.sh",
    "hooks": {
        "guard": "verif",
        "enable": "go build -tags verif (every ./check invocation rebuilds bin/vcheck, and where needed bin/vcheck-race and bin/rqlited, from /repo's working tree with -tags verif)",
        "baseline_off_cmd": "cd /repo && GOFLAGS=-mod=mod go test -json -vet=off -count=1 -timeout 25m ./...",
        "source_commits": list(reversed(hook_commits)),
        "add_only": True,
    },
    "engines": [
        {"name": "vcheck", "path": "cmd/vcheck", "serves_properties": sorted(checks.keys()),
         "kind_free_text": "Go driver: seeded workload generators, child-process workers running the real rqlite packages (built with -tags verif), monitors/oracles (reference SQLite twin, sequential models, porcupine, event-log checkers), Go race detector builds"},
    ],
    "checks": [],
    "not_applicable": [],
    "notes": "Technique family: runtime monitoring and sanitizers. Every verdict is 'held on the executions produced'; see DESIGN.md. Exit codes: 0 held, 1 violation (VIOLATION line), 2 build failure, 3 observed too little / watchdog (inconclusive).",
}
for p in props:
    pid = p['id']
    if pid in checks:
        c = checks[pid]
        m["checks"].append({
            "property_id": pid,
            "quick_cmd": f"./check {pid} quick",
            "thorough_cmd": f"./check {pid} thorough",
            "evidence_file": f"/verif/evidence/{pid}.json",
            "replay_cmd_template": f"./check {pid} quick --replay {{path}}",
            "engine": "vcheck",
            "level_claimed": {"category": c["level"], "text": c["text"], "design_ref": f"DESIGN.md §6 {pid}"},
            "level_note": c["note"],
            "technique": c["technique"],
        })
    else:
        m["not_applicable"].append({"property_id": pid, "reason": unclaimed.get(pid, "check not built yet in this session (design in DESIGN.md §6); not claimed until it runs clean on the unchanged tree")})
json.dump(m, open(os.path.join(root, 'MANIFEST.json'), 'w'), indent=1)
print("checks:", len(m["checks"]), "not_applicable:", len(m["not_applicable"]))
