package c20

import (
	"encoding/json"
	"fmt"
	"os"
	"time"

	"github.com/rqlite/rqlite/v10/vexport"
	"verif/internal/hcluster"
)

// slowProbe makes the leader answer one forwarded write later than the
// forwarding follower is willing to wait: applies are slowed through the
// fsm.apply.entry hook while a write with a short ?timeout goes through every
// follower that has forwarded before. The follower's inter-node client gives up
// (deadline) although the leader goes on to execute the request. Afterwards the
// applies are fast again and the caller runs a burst through the same pools, whose
// per-request oracle (own token, own rowid, own raft index) shows whether anything
// of the abandoned exchange leaked into later requests.
//
// The probe itself is judged like the lost-response probes: the request may be
// applied once or not at all; more than once is the inter-node client's re-send.
func (e *env) slowProbe(idx, round int) int {
	cl := e.cl
	ld := cl.WaitLeader(90 * time.Second)
	if ld == nil {
		return idx
	}
	// one follower per round, in rotation
	var cands []*hcluster.Node
	for _, n := range cl.Live() {
		if n != ld && cl.Net.OpenConns(n.Name, ld.Name, "cluster") > 0 {
			cands = append(cands, n)
		}
	}
	if len(cands) == 0 {
		return idx
	}
	for _, n := range cands[round%len(cands) : round%len(cands)+1] {
		if !cl.WaitConverged(30 * time.Second) {
			continue
		}
		term0 := raftTerm(ld)
		tok := e.newTok("slow-execute", n.Name, true)
		body, _ := json.Marshal([]any{[]any{"INSERT INTO oplog(tok) VALUES(?)", tok}})
		o := obs{Idx: idx, Phase: "slow", Kind: "execute", Node: n.Name, Leader: ld.Name, Pres: "admin",
			NodeAuth: e.cd.hasStore(n.Name), LeadAuth: e.cd.hasStore(ld.Name), Expect: "served-forwarded", Token: tok}
		idx++
		vexport.HookSetDelay("fsm.apply.entry", slowApply)
		t0 := time.Now()
		r := cl.Do(n, "POST", "/db/execute?timeout=200ms", body, hdr(presentations[1]))
		if time.Since(t0) >= slowApply {
			e.cnt("slow:request-took-at-least-the-apply-delay", 1)
		}
		if os.Getenv("VERIF_C20_DEBUG") != "" {
			fmt.Fprintf(os.Stderr, "SLOW via %s took %s status %d err %v body %s\n", n.Name, time.Since(t0), r.Status, r.Err, clip(string(r.Body), 200))
		}
		vexport.HookSetDelay("fsm.apply.entry", 0)
		o.Status = r.Status
		e.cnt("slow:probes", 1)
		// let the leader finish whatever copies of the request it received
		last, stable := -1, time.Now()
		for t0 := time.Now(); time.Since(t0) < 15*time.Second; time.Sleep(50 * time.Millisecond) {
			if c := tokRows(ld, tok); c != last {
				last, stable = c, time.Now()
			}
			if time.Since(stable) > 2*slowApply+200*time.Millisecond {
				break
			}
		}
		cl.WaitConverged(30 * time.Second)
		o.Applied = tokRows(ld, tok)
		if l2 := cl.WaitLeader(90 * time.Second); l2 != ld || raftTerm(ld) != term0 {
			o.Inconcl = "leadership or term changed during the slow request (election caused by the slowed applies or machine load)"
			e.record(o)
			return idx
		}
		answered := false
		if a, err := r.Parse(); err == nil && r.Status == 200 && a.Error == "" {
			answered = true
		}
		if answered {
			e.cnt("slow:answered-in-time", 1)
		} else {
			e.cnt("slow:abandoned-by-follower", 1)
			o.Observed = append(o.Observed, "follower-gave-up-before-leader-answered")
		}
		switch {
		case o.Applied > 1:
			o.Problems = append(o.Problems, problem{"forward-resend-after-lost-response:write-applied-twice",
				fmt.Sprintf("execute sent to follower %s with ?timeout=200ms, forwarded to leader %s whose applies were slowed: the follower's inter-node client gave up and sent the request again on a new connection; the leader applied it %d times (status %d)", n.Name, ld.Name, o.Applied, r.Status)})
		case answered && o.Applied != 1:
			o.Problems = append(o.Problems, problem{"slow-forward:acknowledged-applied-" + fmt.Sprint(o.Applied),
				fmt.Sprintf("execute forwarded by %s to slow leader %s was answered 200 but its token is on the leader %d times", n.Name, ld.Name, o.Applied)})
		}
		e.record(o)
	}
	return idx
}

// slowApply is the per-entry apply delay during a slow probe; the probe's
// forwarding timeout is 200ms.
const slowApply = 600 * time.Millisecond
