// Package c02: writes and linearizable/strong reads form a linearizable
// history (DESIGN §6 C02).
package c02

import (
	"encoding/json"
	"expvar"
	"fmt"
	"math/rand/v2"
	"net/http"
	"net/url"
	"os"
	"path/filepath"
	"sort"
	"strings"
	"sync"
	"sync/atomic"
	"time"

	"github.com/anishathalye/porcupine"
	"github.com/rqlite/rqlite/v10/store"
	"github.com/rqlite/rqlite/v10/vexport"
	"verif/internal/hcluster"
	"verif/internal/vf"
)

func init() {
	vf.Register("C02", "exploration", run)
	vf.RegisterWorker("c02", worker)
}

// ---- history ----

type opIn struct {
	Kind string `json:"kind"` // write | append | cas | read
	Key  int    `json:"key"`
	Arg  string `json:"arg,omitempty"` // value written / appended / cas-new
	Old  string `json:"old,omitempty"` // cas expected
	Lvl  string `json:"level,omitempty"`
	Node string `json:"node"`
	// TmoMs: the request carries ?timeout=<TmoMs>ms (0 = default): a node that
	// forwards it gives up on a slow leader after that time
	TmoMs int `json:"timeout_ms,omitempty"`
}

type opOut struct {
	Failed  bool   `json:"failed,omitempty"`  // definitely not applied (refused before being sent)
	Unknown bool   `json:"unknown,omitempty"` // outcome not known to the client
	Val     string `json:"val,omitempty"`     // read result
	Rows    int64  `json:"rows,omitempty"`    // rows affected (cas / append)
	Note    string `json:"note,omitempty"`
}

type rec struct {
	Client int   `json:"client"`
	In     opIn  `json:"in"`
	Out    opOut `json:"out"`
	Call   int64 `json:"call"`
	Ret    int64 `json:"ret"` // 0 = never returned (open to the end)
}

type histOut struct {
	Case          int      `json:"case"`
	Nodes         int      `json:"nodes"`
	Recs          []rec    `json:"recs"`
	Faults        []string `json:"faults"`
	Leaders       []string `json:"leaders_seen"`
	FinalVals     []string `json:"final_vals"`
	DumpsEqual    bool     `json:"dumps_equal"`
	DumpNote      string   `json:"dump_note,omitempty"`
	SetupErr      string   `json:"setup_err,omitempty"`
	OverlapFaults int      `json:"faults_overlapping_open_ops"`
	Probes        int      `json:"new_leader_read_probes"`
	WriteProbes   int      `json:"leader_loss_write_probes"`
	DupTokens     []string `json:"tokens_applied_more_than_once"`
	ClientRetries int64    `json:"cluster_client_retries"`
}

// ---- model ----

func kvModel() porcupine.Model {
	nd := porcupine.NondeterministicModel{
		Partition: func(h []porcupine.Operation) [][]porcupine.Operation {
			m := map[int][]porcupine.Operation{}
			var keys []int
			for _, o := range h {
				k := o.Input.(opIn).Key
				if _, ok := m[k]; !ok {
					keys = append(keys, k)
				}
				m[k] = append(m[k], o)
			}
			sort.Ints(keys)
			var out [][]porcupine.Operation
			for _, k := range keys {
				out = append(out, m[k])
			}
			return out
		},
		Init: func() []interface{} { return []interface{}{""} },
		Step: func(state, input, output interface{}) []interface{} {
			st := state.(string)
			in := input.(opIn)
			out := output.(opOut)
			switch in.Kind {
			case "read":
				if out.Val == st {
					return []interface{}{st}
				}
				return nil
			case "write":
				if out.Unknown {
					return []interface{}{st, in.Arg}
				}
				return []interface{}{in.Arg}
			case "append":
				nv := st + "," + in.Arg
				if out.Unknown {
					return []interface{}{st, nv}
				}
				return []interface{}{nv}
			case "cas":
				if out.Unknown {
					if st == in.Old {
						return []interface{}{st, in.Arg}
					}
					return []interface{}{st}
				}
				if out.Rows == 1 {
					if st == in.Old {
						return []interface{}{in.Arg}
					}
					return nil
				}
				if st != in.Old {
					return []interface{}{st}
				}
				return nil
			}
			return nil
		},
		Equal: func(a, b interface{}) bool { return a.(string) == b.(string) },
		DescribeOperation: func(input, output interface{}) string {
			in, out := input.(opIn), output.(opOut)
			return fmt.Sprintf("%s(k%d %s %s)->%+v", in.Kind, in.Key, in.Old, in.Arg, out)
		},
	}
	return nd.ToModel()
}

// aoKey is the key that only ever receives appends and reads.
const aoKey = 4

// aoTokens splits the value of the append-only key into its tokens.
func aoTokens(v string) []string {
	if v == "" {
		return nil
	}
	return strings.Split(strings.TrimPrefix(v, ","), ",")
}

// appendOnlyMonitor decides the sub-history of the append-only key in
// polynomial time, independently of the search: tokens are unique and nothing
// is ever removed, so every successful read names exactly the appends it
// observed and their order. It returns "" or a description of the first
// anomaly found. Each rule follows from linearizability of an append-only list:
//
//	phantom     a read contains a token of no append invoked before the read returned
//	fork        two reads are not prefix-comparable
//	regress     a read invoked after another read returned is shorter than it
//	stale       a read invoked after an append was acknowledged does not contain it
//	twice       a token occurs twice in one read (request applied twice; reported
//	            separately through the oplog, so skipped here)
func appendOnlyMonitor(recs []rec) (kind, msg string, wit []rec) {
	var reads, apps []rec
	byTok := map[string]rec{}
	for _, r := range recs {
		if r.In.Key != aoKey {
			continue
		}
		switch {
		case r.In.Kind == "read" && r.Ret != 0 && !r.Out.Unknown && !r.Out.Failed:
			reads = append(reads, r)
		case r.In.Kind == "append":
			apps = append(apps, r)
			byTok[r.In.Arg] = r
		}
	}
	sort.Slice(reads, func(i, j int) bool { return reads[i].Call < reads[j].Call })
	lists := make([][]string, len(reads))
	for i, r := range reads {
		lists[i] = aoTokens(r.Out.Val)
		seen := map[string]bool{}
		for _, t := range lists[i] {
			if seen[t] {
				return "", "", nil // duplicate application: judged elsewhere
			}
			seen[t] = true
			a, ok := byTok[t]
			if !ok || a.Call > r.Ret {
				return "phantom", fmt.Sprintf("read returned token %q which no append invoked before the read returned carries", t), []rec{r}
			}
		}
	}
	isPrefix := func(a, b []string) bool {
		if len(a) > len(b) {
			return false
		}
		for i := range a {
			if a[i] != b[i] {
				return false
			}
		}
		return true
	}
	for i := range reads {
		for j := i + 1; j < len(reads); j++ {
			a, b := lists[i], lists[j]
			if !isPrefix(a, b) && !isPrefix(b, a) {
				return "fork", "two reads of the append-only key are not prefix-comparable", []rec{reads[i], reads[j]}
			}
			if reads[i].Ret < reads[j].Call && len(b) < len(a) {
				return "regress", "a read invoked after another read had returned observed fewer appends than it", []rec{reads[i], reads[j]}
			}
		}
	}
	for _, a := range apps {
		if a.Ret == 0 || a.Out.Unknown || a.Out.Failed || a.Out.Rows != 1 {
			continue
		}
		for i, r := range reads {
			if r.Call <= a.Ret {
				continue
			}
			found := false
			for _, t := range lists[i] {
				if t == a.In.Arg {
					found = true
					break
				}
			}
			if !found {
				return "stale", fmt.Sprintf("append %q was acknowledged before the read was invoked, but the read does not contain it", a.In.Arg), []rec{a, r}
			}
		}
	}
	return "", "", nil
}

func toOps(recs []rec, end int64) []porcupine.Operation {
	var ops []porcupine.Operation
	for _, r := range recs {
		if r.Out.Failed {
			continue
		}
		ret := r.Ret
		if ret == 0 {
			if r.In.Kind == "read" {
				continue // failed reads carry no information
			}
			ret = end + 1
		}
		if r.Out.Unknown && r.In.Kind != "read" {
			ret = end + 1 // may still take effect later
		}
		ops = append(ops, porcupine.Operation{ClientId: r.Client, Input: r.In, Call: r.Call, Output: r.Out, Return: ret})
	}
	return ops
}

// ---- driver ----

func run(c *vf.Ctx) {
	c.Rule("history = 6-8 client goroutines pinned to the nodes of a live in-process 3- or 5-node cluster (real Stores, real HTTP, forwarding through the cluster client) issue unique-valued write / append / compare-and-set / linearizable and strong reads on 4 keys while a seeded nemesis partitions (majority/minority, isolate leader, one-way), heals, steps the leader down, restarts nodes, delays links and sleeps inside the linearizable-read path; the client-side history (call recorded before send, unknown outcomes left open to the end and allowed to apply or not) is checked per key by porcupine against a register/append/cas model; a fifth key receives only appends and reads and is additionally decided by a linear-time monitor (phantom / fork / regress / stale read), and a write refused with 'leader not found' must never become visible (both decided before, and independently of, the search); every fourth history is directed: under lagging links a write is acknowledged, the leader isolated at once, applies slowed, and the node that next reports leadership immediately gets four concurrent linearizable reads (read probe), alternating with three writes in flight on a leader whose acknowledgements are slowed when it is isolated (write probe); final per-node dumps must agree. non-trivial = at least one fault overlapped an open operation and at least two different leaders were seen; distinct by case number")
	c.Assume("node crash is emulated in-process (close without snapshot, reopen on the same directory); torn on-disk states belong to C03")
	c.Assume("porcupine timeout 120 s per history => inconclusive")
	if c.ReplayFile != "" {
		replay(c)
		return
	}
	n := c.N(4, 48)
	type job struct {
		i    int
		race bool
	}
	var jobs []job
	for i := 0; i < n; i++ {
		jobs = append(jobs, job{i, i%4 == 3})
	}
	tmp := vf.TempDir("c02")
	defer os.RemoveAll(tmp)
	sem := make(chan struct{}, c.N(4, 5))
	var wg sync.WaitGroup
	outs := make([]histOut, n)
	raceLogs := make([]string, n)
	for _, j := range jobs {
		wg.Add(1)
		go func(j job) {
			defer wg.Done()
			sem <- struct{}{}
			defer func() { <-sem }()
			dir := filepath.Join(tmp, fmt.Sprintf("h%d", j.i))
			os.MkdirAll(dir, 0755)
			env := []string{}
			if j.race {
				raceLogs[j.i] = filepath.Join(tmp, fmt.Sprintf("race%d", j.i))
				env = append(env, "GORACE=halt_on_error=0 exitcode=0 log_path="+raceLogs[j.i])
			}
			outF := filepath.Join(dir, "out.json")
			_, code, ok := vf.RunWorkerOnce(j.race, "c02", []string{fmt.Sprint(j.i), fmt.Sprint(c.Seed), c.Tier, dir, outF}, env, filepath.Join(tmp, fmt.Sprintf("h%d.log", j.i)), 10*time.Minute)
			var h histOut
			b, err := os.ReadFile(outF)
			if err != nil || json.Unmarshal(b, &h) != nil || !ok || code != 0 {
				h = histOut{Case: j.i, SetupErr: fmt.Sprintf("worker exit=%d finished=%v err=%v", code, ok, err)}
			}
			outs[j.i] = h
			os.RemoveAll(dir)
		}(j)
	}
	wg.Wait()
	model := kvModel()
	for i, h := range outs {
		c.Eval(1)
		if h.SetupErr != "" {
			c.Logf("case %d: %s", i, h.SetupErr)
			c.Inconclusive("setup")
			continue
		}
		var end int64
		unk, reads, okw := 0, 0, 0
		for _, r := range h.Recs {
			if r.Ret > end {
				end = r.Ret
			}
			if r.Call > end {
				end = r.Call
			}
			switch {
			case r.In.Kind == "read" && r.Ret != 0:
				reads++
			case r.Out.Failed:
				c.Count("definite_failures", 1)
			case r.Out.Unknown || r.Ret == 0:
				unk++
			default:
				okw++
			}
		}
		c.Count("ops", int64(len(h.Recs)))
		c.Count("reads_ok", int64(reads))
		c.Count("writes_ok", int64(okw))
		c.Count("unknown_outcomes", int64(unk))
		c.Count("faults", int64(len(h.Faults)))
		c.Count("faults_overlapping_open_ops", int64(h.OverlapFaults))
		c.Count("new_leader_read_probes", int64(h.Probes))
		c.Count("leader_loss_write_probes", int64(h.WriteProbes))
		if h.OverlapFaults > 0 && len(h.Leaders) >= 2 {
			c.Nontrivial(fmt.Sprintf("case%d/%v", i, h.Faults))
		}
		// A request applied twice is also directly visible when a read shows its
		// token twice (the oplog query at the end of the history needs a stable
		// leader and may not have been possible).
		{
			have := map[string]bool{}
			for _, t := range h.DupTokens {
				have[t] = true
			}
			for _, r := range h.Recs {
				if r.In.Kind != "read" || r.Ret == 0 || r.Out.Unknown || r.Out.Failed {
					continue
				}
				seen := map[string]bool{}
				for _, t := range strings.Split(r.Out.Val, ",") {
					if t == "" {
						continue
					}
					if seen[t] && !have[t] {
						have[t] = true
						h.DupTokens = append(h.DupTokens, t)
						c.Count("duplicates_seen_in_read_values_only", 1)
					}
					seen[t] = true
				}
			}
		}
		// Requests applied more than once (observable through the oplog tokens).
		dupKeys := map[int]bool{}
		if len(h.DupTokens) > 0 {
			dup := map[string]bool{}
			for _, t := range h.DupTokens {
				dup[t] = true
			}
			var dupRecs []rec
			for _, r := range h.Recs {
				if r.In.Kind != "read" && dup[r.In.Arg] {
					dupKeys[r.In.Key] = true
					dupRecs = append(dupRecs, r)
				}
			}
			c.Count("requests_applied_twice", int64(len(h.DupTokens)))
			key := "duplicate-apply:unexplained"
			if h.ClientRetries >= int64(len(h.DupTokens)) {
				// every duplicate is matched by a re-send of the inter-node client
				key = "duplicate-apply:forward-resend-after-lost-response"
			}
			c.Violation(key, fmt.Sprintf("history %d: %d write request(s) were applied more than once (tokens %v; inter-node client re-sends in this process: %d; faults %v)", i, len(h.DupTokens), h.DupTokens, h.ClientRetries, h.Faults),
				map[string]any{"case": i, "duplicated_requests": dupRecs, "faults": h.Faults, "client_retries": h.ClientRetries})
		}
		// Keys touched by a duplicated request are not judged further: the result the
		// client saw belongs to the second application, so the register model does
		// not describe them. All other keys are checked.
		var checked []rec
		for _, r := range h.Recs {
			if !dupKeys[r.In.Key] {
				checked = append(checked, r)
			}
		}
		c.Count("keys_excluded_for_duplicates", int64(len(dupKeys)))
		// Direct oracle (linear time, decided before the search): a write that was
		// refused with "leader not found" - nothing was sent anywhere - must never
		// become visible. Tokens are unique, so a read names the writes it contains.
		refused := map[string]rec{}
		for _, r := range h.Recs {
			if r.Out.Failed && r.In.Kind != "read" {
				refused[r.In.Arg] = r
			}
		}
		var ghost []any
		for _, r := range h.Recs {
			if r.In.Kind != "read" || r.Ret == 0 || r.Out.Unknown || dupKeys[r.In.Key] {
				continue
			}
			for _, t := range strings.Split(r.Out.Val, ",") {
				if fr, ok := refused[t]; ok && fr.In.Key == r.In.Key {
					ghost = append(ghost, map[string]any{"refused_write": fr, "read": r})
					delete(refused, t)
				}
			}
		}
		if len(ghost) > 0 {
			c.Violation("refused-write-took-effect", fmt.Sprintf("history %d (%d nodes, faults %v): %d write(s) answered 503 'leader not found' are visible in later reads", i, h.Nodes, h.Faults, len(ghost)),
				map[string]any{"case": i, "faults": h.Faults, "witnesses": ghost})
			continue
		}
		if !dupKeys[aoKey] {
			if kind, msg, wit := appendOnlyMonitor(h.Recs); kind != "" {
				c.Violation("append-only-key:"+kind, fmt.Sprintf("history %d (%d nodes, faults %v): %s", i, h.Nodes, h.Faults, msg),
					map[string]any{"case": i, "faults": h.Faults, "witness": wit})
				continue
			}
			c.Count("append_only_key_histories_monitored", 1)
		}
		ops := toOps(checked, end)
		pt0 := time.Now()
		res, info := porcupine.CheckOperationsVerbose(model, ops, 90*time.Second)
		if dt := time.Since(pt0); dt > 5*time.Second {
			c.Logf("history %d: porcupine took %s for %d ops (%d unknown outcomes)", i, dt.Round(time.Millisecond), len(ops), unk)
		}
		switch res {
		case porcupine.Unknown:
			// keep the history so that it can be re-examined key by key (--replay)
			tf := filepath.Join(vf.Out, "replays", fmt.Sprintf("C02-%d-timeout%d.json", c.Seed, i))
			os.MkdirAll(filepath.Dir(tf), 0755)
			if tb, err := json.Marshal(map[string]any{"case": h}); err == nil {
				os.WriteFile(tf, tb, 0644)
			}
			c.Inconclusive("porcupine timeout")
			continue
		case porcupine.Illegal:
			wit := filepath.Join(vf.Out, "replays", fmt.Sprintf("C02-%d-case%d.html", c.Seed, i))
			os.MkdirAll(filepath.Dir(wit), 0755)
			if len(ops) <= 400 {
				porcupine.VisualizePath(model, info, wit)
			}
			c.Violation("not-linearizable", fmt.Sprintf("history %d (%d nodes, %d ops, faults %v) is not linearizable; visualization %s", i, h.Nodes, len(h.Recs), h.Faults, wit), h)
			continue
		}
		if !h.DumpsEqual {
			c.Violation("final-dumps-differ", fmt.Sprintf("history %d: nodes disagree after heal: %s", i, h.DumpNote), h)
			continue
		}
		c.Held(1)
		small := h
		if len(small.Recs) > 12 {
			small.Recs = small.Recs[:12]
		}
		c.Sample(small)
	}
	// race reports
	for i, p := range raceLogs {
		if p == "" {
			continue
		}
		files, _ := filepath.Glob(p + ".*")
		for _, f := range files {
			b, _ := os.ReadFile(f)
			nrep := strings.Count(string(b), "WARNING: DATA RACE")
			c.Count("race_reports", int64(nrep))
			if nrep > 0 {
				keep := filepath.Join(vf.Out, "replays", fmt.Sprintf("C02-%d-race%d.txt", c.Seed, i))
				os.WriteFile(keep, b, 0644)
				c.Extra("race_log", keep)
				for _, blk := range strings.Split(string(b), "==================") {
					if !strings.Contains(blk, "WARNING: DATA RACE") {
						continue
					}
					if strings.Contains(blk, "rqlite/v10/store.") && !strings.Contains(blk, "verif/") {
						c.Violation("data-race:store", "data race reported by the race detector with rqlite store frames; log "+keep, map[string]any{"case": i, "report": trunc(blk, 3000)})
					}
				}
			}
		}
	}
	c.Require(int64(n*3/4), 2)
}

// replay re-checks a recorded history key by key and prints the operations of
// every key whose sub-history is not linearizable.
func replay(c *vf.Ctx) {
	b, err := os.ReadFile(c.ReplayFile)
	if err != nil {
		panic(err)
	}
	var f struct {
		Case histOut `json:"case"`
	}
	if err := json.Unmarshal(b, &f); err != nil {
		panic(err)
	}
	h := f.Case
	var end int64
	for _, r := range h.Recs {
		if r.Ret > end {
			end = r.Ret
		}
		if r.Call > end {
			end = r.Call
		}
	}
	model := kvModel()
	byKey := map[int][]rec{}
	for _, r := range h.Recs {
		byKey[r.In.Key] = append(byKey[r.In.Key], r)
	}
	for k, recs := range byKey {
		c.Eval(1)
		c.Nontrivial(fmt.Sprint(k))
		res, _ := porcupine.CheckOperationsVerbose(model, toOps(recs, end), 120*time.Second)
		fmt.Printf("key %d: %d ops: %v\n", k, len(recs), res)
		if res == porcupine.Illegal {
			sort.Slice(recs, func(i, j int) bool { return recs[i].Call < recs[j].Call })
			for _, r := range recs {
				ret := "open"
				if r.Ret != 0 {
					ret = fmt.Sprintf("%.1f", float64(r.Ret)/1e6)
				}
				fmt.Printf("  c%-2d %9.1f .. %-9s %-6s %-12s node=%s old=%q arg=%q -> rows=%d unknown=%v val=%q %s\n", r.Client, float64(r.Call)/1e6, ret, r.In.Kind, r.In.Lvl, r.In.Node, r.In.Old, r.In.Arg, r.Out.Rows, r.Out.Unknown, r.Out.Val, r.Out.Note)
			}
			c.Violation("not-linearizable", fmt.Sprintf("recorded history: key %d not linearizable", k), nil)
		}
	}
}

func trunc(s string, n int) string {
	if len(s) > n {
		return s[:n]
	}
	return s
}

// ---- worker: one history ----

type recorder struct {
	mu   sync.Mutex
	recs []rec
	t0   time.Time
	open atomic.Int64
}

func (r *recorder) now() int64 { return int64(time.Since(r.t0)) + 1 }

func (r *recorder) begin(client int, in opIn) int {
	r.mu.Lock()
	defer r.mu.Unlock()
	r.recs = append(r.recs, rec{Client: client, In: in, Call: r.now()})
	r.open.Add(1)
	return len(r.recs) - 1
}

func (r *recorder) end(idx int, out opOut, returned bool) {
	r.mu.Lock()
	defer r.mu.Unlock()
	r.recs[idx].Out = out
	if returned {
		r.recs[idx].Ret = r.now()
	}
	r.open.Add(-1)
}

func worker(args []string) {
	var caseNo int
	var seed int64
	fmt.Sscan(args[0], &caseNo)
	fmt.Sscan(args[1], &seed)
	tier, dir, outF := args[2], args[3], args[4]
	c := &vf.Ctx{ID: "C02", Seed: seed, Tier: tier}
	h := runHistory(c, caseNo, dir)
	b, _ := json.Marshal(h)
	os.WriteFile(outF, b, 0644)
}

func runHistory(c *vf.Ctx, caseNo int, dir string) (h histOut) {
	h.Case = caseNo
	r := c.Rand(uint64(caseNo))
	nNodes := 3
	if caseNo%3 == 2 {
		nNodes = 5
	}
	h.Nodes = nNodes
	cl := hcluster.New(dir)
	defer cl.Close()
	cl.HTTP.Timeout = 4 * time.Second
	// A long commit timeout makes followers learn the commit index late, which
	// widens the window in which a newly elected leader does not yet know that
	// acknowledged writes are committed.
	commitTimeout := []time.Duration{0, 200 * time.Millisecond, 600 * time.Millisecond}[r.IntN(3)]
	if caseNo%4 == 0 {
		commitTimeout = 600 * time.Millisecond
	}
	opt := func(id string) hcluster.Options {
		return hcluster.Options{ID: id, HeartbeatTimeout: 400 * time.Millisecond, ElectionTimeout: 400 * time.Millisecond, LeaderLease: 300 * time.Millisecond, NoSnapshotOnClose: true,
			Tune: func(st *store.Store) { st.CommitTimeout = commitTimeout }}
	}
	for i := 1; i <= nNodes; i++ {
		if _, err := cl.Add(opt(fmt.Sprintf("n%d", i)), true); err != nil {
			h.SetupErr = fmt.Sprintf("add node %d: %v", i, err)
			return
		}
	}
	l := cl.WaitLeader(15 * time.Second)
	if l == nil {
		h.SetupErr = "no leader"
		return
	}
	const K = aoKey
	stmts := []any{"CREATE TABLE kv (k INTEGER PRIMARY KEY, v TEXT NOT NULL)", "CREATE TABLE oplog (tok TEXT NOT NULL)"}
	// keys 0..K-1 take every kind of op; key K (aoKey) only appends and reads, so
	// that its sub-history can also be decided by a linear-time monitor
	for k := 0; k <= K; k++ {
		stmts = append(stmts, fmt.Sprintf("INSERT INTO kv(k,v) VALUES(%d,'')", k))
	}
	if rr := cl.PostJSON(l, "/db/execute?transaction", stmts); rr.Err != nil || rr.Status != 200 {
		h.SetupErr = fmt.Sprintf("schema: %v %d %s", rr.Err, rr.Status, rr.Body)
		return
	}
	cl.WaitConverged(10 * time.Second)

	recd := &recorder{t0: time.Now()}
	stop := make(chan struct{})
	var wg sync.WaitGroup
	nClients := 6 + r.IntN(3)
	durMs := 9000
	if c.Tier == "thorough" {
		durMs = 16000
	}
	if caseNo%4 == 0 {
		durMs += 4000 // the directed history needs room for several probe rounds
	}
	var lastRead [K]atomic.Value
	for ci := 0; ci < nClients; ci++ {
		wg.Add(1)
		cr := rand.New(rand.NewPCG(uint64(c.Seed)+uint64(caseNo)*1000+uint64(ci), 77))
		go func(ci int, cr *rand.Rand) {
			defer wg.Done()
			cnt := 0
			for {
				select {
				case <-stop:
					return
				default:
				}
				nodes := cl.Live()
				if len(nodes) == 0 {
					time.Sleep(20 * time.Millisecond)
					continue
				}
				node := nodes[ci%len(nodes)]
				key := cr.IntN(K)
				cnt++
				uniq := fmt.Sprintf("c%d-%d", ci, cnt)
				var in opIn
				switch p := cr.IntN(100); {
				case p < 40:
					lvl := "linearizable"
					if cr.IntN(4) == 0 {
						lvl = "strong"
					}
					in = opIn{Kind: "read", Key: key, Lvl: lvl}
				case p < 65:
					in = opIn{Kind: "append", Key: key, Arg: uniq}
				case p < 85:
					in = opIn{Kind: "write", Key: key, Arg: uniq}
				default:
					old, _ := lastRead[key].Load().(string)
					in = opIn{Kind: "cas", Key: key, Old: old, Arg: uniq}
				}
				if cr.IntN(5) == 0 {
					// the append-only key
					if in.Kind == "read" {
						in.Key = aoKey
					} else {
						in = opIn{Kind: "append", Key: aoKey, Arg: uniq}
					}
				}
				if cr.IntN(8) == 0 {
					// impatient request: when applies are slow the forwarding node abandons
					// the exchange with the leader, which goes on to execute it
					in.TmoMs = 60 + cr.IntN(240)
				}
				in.Node = node.Name
				idx := recd.begin(ci, in)
				out, returned := doOp(cl, node, in)
				recd.end(idx, out, returned)
				if in.Kind == "read" && returned && !out.Unknown && in.Key < K {
					lastRead[in.Key].Store(out.Val)
				}
				if out.Unknown || out.Failed || !returned {
					time.Sleep(time.Duration(100+cr.IntN(200)) * time.Millisecond)
				}
				time.Sleep(time.Duration(cr.IntN(40)) * time.Millisecond)
				if caseNo%4 == 0 {
					// the directed history is longer: pace its background clients so that
					// the per-key sub-histories stay within the checker's reach
					time.Sleep(time.Duration(20+cr.IntN(40)) * time.Millisecond)
				}
			}
		}(ci, cr)
	}

	// nemesis
	leaders := map[string]bool{}
	noteLeader := func() {
		if ld := cl.Leader(); ld != nil {
			leaders[ld.Name] = true
		}
	}
	noteLeader()
	fault := func(desc string, f func()) {
		if recd.open.Load() > 0 {
			h.OverlapFaults++
		}
		h.Faults = append(h.Faults, desc)
		f()
	}
	deadline := time.Now().Add(time.Duration(durMs) * time.Millisecond)
	// Every fourth history uses a directed schedule instead of the random one:
	// repeatedly let writes flow under slow links (followers learn the commit
	// index late), make the leader vanish, and let the clients hammer the newly
	// elected leader with reads during its first, slow round trips.
	directed := caseNo%4 == 0
	probeSeq := 0
	for directed && time.Now().Before(deadline) {
		names := cl.Names()
		d := time.Duration(100+r.IntN(150)) * time.Millisecond
		fault(fmt.Sprintf("lag-all:%s", d), func() {
			for _, a := range names {
				for _, b := range names {
					if a != b {
						cl.Net.SetDelay(a, b, d)
					}
				}
			}
		})
		time.Sleep(time.Duration(500+r.IntN(500)) * time.Millisecond)
		noteLeader()
		if ld := cl.Leader(); ld != nil {
			// Probe: a write acknowledged by the leader, the leader vanishes at
			// once (the followers hold the entry but have not learned that it is
			// committed), applies are slow, and the moment another node reports
			// leadership it gets several concurrent linearizable reads of that key.
			key := aoKey
			probeSeq++
			if probeSeq%2 == 0 {
				key = r.IntN(K)
				// Write probe (every second round): several writes are in flight on the
				// leader - sent to the followers, acknowledgements still on their way
				// back - when it vanishes. Their entries survive in the next leader's
				// log, so whatever the old leader answers, they may take effect.
				rd := time.Duration(120+r.IntN(60)) * time.Millisecond
				fault("heal", func() { cl.Net.HealAll() })
				time.Sleep(300 * time.Millisecond)
				if ld = cl.WaitLeader(3 * time.Second); ld == nil {
					continue
				}
				fault(fmt.Sprintf("slow-acks-to-leader:%s:%s", ld.Name, rd), func() {
					for _, o := range names {
						if o != ld.Name {
							cl.Net.SetReplyDelay(o, ld.Name, rd)
						}
					}
				})
				time.Sleep(300 * time.Millisecond)
				if !ld.Store.IsLeader() {
					continue
				}
				var ww sync.WaitGroup
				for p := 0; p < 3; p++ {
					ww.Add(1)
					go func(p int) {
						defer ww.Done()
						in := opIn{Kind: "append", Key: (key + p) % K, Arg: fmt.Sprintf("q%d-%d", probeSeq, p), Node: ld.Name}
						idx := recd.begin(70+p, in)
						out, returned := doOp(cl, ld, in)
						recd.end(idx, out, returned)
					}(p)
				}
				time.Sleep(time.Duration(40+r.IntN(40)) * time.Millisecond)
				fault("isolate-leader-with-writes-in-flight:"+ld.Name, func() { cl.Net.Isolate(ld.Name, names) })
				h.WriteProbes++
				ww.Wait()
				time.Sleep(time.Duration(1200+r.IntN(900)) * time.Millisecond)
				noteLeader()
				fault("heal", func() { cl.Net.HealAll() })
				time.Sleep(time.Duration(800+r.IntN(600)) * time.Millisecond)
				noteLeader()
				continue
			}
			win := opIn{Kind: "append", Key: key, Arg: fmt.Sprintf("p%d", probeSeq), Node: ld.Name}
			widx := recd.begin(50, win)
			wout, wret := doOp(cl, ld, win)
			recd.end(widx, wout, wret)
			ad := time.Duration(40+r.IntN(80)) * time.Millisecond
			fault(fmt.Sprintf("hook-sleep:fsm.apply.entry:%s", ad), func() { vexport.HookSetDelay("fsm.apply.entry", ad) })
			fault("isolate-leader-after-ack:"+ld.Name, func() { cl.Net.Isolate(ld.Name, names) })
			var nl *hcluster.Node
			for huntEnd := time.Now().Add(3 * time.Second); nl == nil && time.Now().Before(huntEnd); {
				for _, n := range cl.Live() {
					if n.Name != ld.Name && n.Store.IsLeader() {
						nl = n
						break
					}
				}
				if nl == nil {
					time.Sleep(2 * time.Millisecond)
				}
			}
			if nl != nil {
				h.Probes++
				var pw sync.WaitGroup
				for p := 0; p < 4; p++ {
					pw.Add(1)
					go func(p int) {
						defer pw.Done()
						in := opIn{Kind: "read", Key: key, Lvl: "linearizable", Node: nl.Name}
						idx := recd.begin(60+p, in)
						out, returned := doOp(cl, nl, in)
						recd.end(idx, out, returned)
					}(p)
					time.Sleep(time.Duration(r.IntN(8)) * time.Millisecond)
				}
				pw.Wait()
			}
			vexport.HookSetDelay("fsm.apply.entry", 0)
		}
		time.Sleep(time.Duration(1200+r.IntN(900)) * time.Millisecond)
		noteLeader()
		fault("heal", func() { cl.Net.HealAll() })
		time.Sleep(time.Duration(800+r.IntN(600)) * time.Millisecond)
		noteLeader()
	}
	for !directed && time.Now().Before(deadline) {
		time.Sleep(time.Duration(400+r.IntN(900)) * time.Millisecond)
		noteLeader()
		names := cl.Names()
		ld := cl.Leader()
		switch r.IntN(15) {
		case 12, 13, 14: // the leader disappears while the rest of the cluster is slow
			if ld != nil {
				d := time.Duration(80+r.IntN(200)) * time.Millisecond
				fault(fmt.Sprintf("isolate-leader-under-lag:%s:%s", ld.Name, d), func() {
					for _, a := range names {
						for _, b := range names {
							if a != b && a != ld.Name && b != ld.Name {
								cl.Net.SetDelay(a, b, d)
							}
						}
					}
					cl.Net.Isolate(ld.Name, names)
				})
			}
		case 9: // slow applies: entries stay committed-but-unapplied for a while
			d := time.Duration(5+r.IntN(50)) * time.Millisecond
			fault(fmt.Sprintf("hook-sleep:fsm.apply.entry:%s", d), func() { vexport.HookSetDelay("fsm.apply.entry", d) })
		case 10, 11: // hand-over under lag: the leader's messages are delayed, then it steps down
			if ld != nil {
				d := time.Duration(60+r.IntN(160)) * time.Millisecond
				fault(fmt.Sprintf("handover-under-lag:%s:%s", ld.Name, d), func() {
					for _, o := range names {
						if o != ld.Name {
							cl.Net.SetDelay(ld.Name, o, d)
						}
					}
					time.Sleep(time.Duration(100+r.IntN(300)) * time.Millisecond)
					go ld.Store.Stepdown(false, "")
				})
			}
		case 0: // isolate leader
			if ld != nil {
				fault("isolate-leader:"+ld.Name, func() { cl.Net.Isolate(ld.Name, names) })
			}
		case 1: // random partition
			perm := r.Perm(len(names))
			cut := 1 + r.IntN(len(names)-1)
			var a, b []string
			for i, p := range perm {
				if i < cut {
					a = append(a, names[p])
				} else {
					b = append(b, names[p])
				}
			}
			fault(fmt.Sprintf("partition:%v|%v", a, b), func() { cl.Net.Partition(a, b) })
		case 2: // one-way block from leader to a follower
			if ld != nil {
				o := names[r.IntN(len(names))]
				if o != ld.Name {
					fault("oneway:"+ld.Name+">"+o, func() { cl.Net.BlockOneWay(ld.Name, o) })
				}
			}
		case 3, 4: // heal
			fault("heal", func() { cl.Net.HealAll(); vexport.HookSetDelay("fsm.apply.entry", 0) })
		case 5: // stepdown
			if ld != nil {
				fault("stepdown:"+ld.Name, func() { go ld.Store.Stepdown(false, "") })
			}
		case 6: // restart a node
			nodes := cl.Live()
			v := nodes[r.IntN(len(nodes))]
			fault("restart:"+v.Name, func() {
				if _, err := cl.Restart(v); err != nil {
					h.Faults = append(h.Faults, "restart-error:"+err.Error())
				}
			})
		case 7: // link delay
			a, b := names[r.IntN(len(names))], names[r.IntN(len(names))]
			if a != b {
				d := time.Duration(20+r.IntN(150)) * time.Millisecond
				fault(fmt.Sprintf("delay:%s>%s:%s", a, b, d), func() { cl.Net.SetDelay(a, b, d) })
			}
		case 8: // widen the linearizable-read windows
			d := time.Duration(r.IntN(300)) * time.Millisecond
			pt := []string{"linread.after_commit_index", "linread.after_verify_leader"}[r.IntN(2)]
			fault(fmt.Sprintf("hook-sleep:%s:%s", pt, d), func() { vexport.HookSetDelay(pt, d) })
		}
	}
	close(stop)
	wg.Wait()
	cl.Net.HealAll()
	vexport.HookSetDelay("linread.after_commit_index", 0)
	vexport.HookSetDelay("linread.after_verify_leader", 0)
	vexport.HookSetDelay("fsm.apply.entry", 0)
	h.Faults = append(h.Faults, "final-heal")
	noteLeader()
	// final strong read per key, as ordinary history ops
	cl.HTTP.Timeout = 15 * time.Second
	fl := cl.WaitLeader(30 * time.Second)
	if fl != nil {
		leaders[fl.Name] = true
		for k := 0; k <= K; k++ {
			in := opIn{Kind: "read", Key: k, Lvl: "strong", Node: fl.Name}
			idx := recd.begin(99, in)
			out, returned := doOp(cl, fl, in)
			recd.end(idx, out, returned)
			h.FinalVals = append(h.FinalVals, out.Val)
		}
	}
	if fl != nil {
		rr := cl.Do(fl, "GET", "/db/query?level=strong&q="+url.QueryEscape("SELECT tok FROM oplog GROUP BY tok HAVING COUNT(*) > 1 ORDER BY tok"), nil, nil)
		if a, err := rr.Parse(); err == nil && len(a.Results) == 1 {
			for _, row := range a.Results[0].Values {
				h.DupTokens = append(h.DupTokens, fmt.Sprint(row[0]))
			}
		}
	}
	if m, ok := expvar.Get("cluster").(*expvar.Map); ok {
		if v, ok := m.Get("num_client_retries").(*expvar.Int); ok {
			h.ClientRetries = v.Value()
		}
	}
	for n := range leaders {
		h.Leaders = append(h.Leaders, n)
	}
	sort.Strings(h.Leaders)
	h.Recs = recd.recs
	// final per-node agreement
	h.DumpsEqual = true
	// Barrier: a marker row written through the log must be visible locally on
	// every node before the per-node contents are compared (the FSM can lag far
	// behind Raft's applied index, e.g. after the slow-apply fault).
	converged := false
	if fl != nil {
		tok := fmt.Sprintf("marker-%d", caseNo)
		mr := cl.PostJSON(fl, "/db/execute", []any{[]any{"INSERT INTO oplog(tok) VALUES(?)", tok}})
		if mr.Err == nil && mr.Status == 200 {
			deadline := time.Now().Add(60 * time.Second)
			for time.Now().Before(deadline) {
				all := true
				for _, n := range cl.Live() {
					rr := cl.Do(n, "GET", "/db/query?level=none&q="+url.QueryEscape("SELECT count(*) FROM oplog WHERE tok='"+tok+"'"), nil, nil)
					a, err := rr.Parse()
					if err != nil || len(a.Results) != 1 || len(a.Results[0].Values) != 1 || fmt.Sprint(a.Results[0].Values[0][0]) == "0" {
						all = false
						break
					}
				}
				if all {
					converged = true
					break
				}
				time.Sleep(100 * time.Millisecond)
			}
		}
	}
	if converged {
		var ref string
		for i, n := range cl.Live() {
			rr := cl.Do(n, "GET", "/db/query?level=none&q="+url.QueryEscape("SELECT k, v FROM kv ORDER BY k"), nil, nil)
			if rr.Err != nil || rr.Status != http.StatusOK {
				h.DumpNote = fmt.Sprintf("cannot read %s: %v %d", n.Name, rr.Err, rr.Status)
				continue
			}
			a, err := rr.Parse()
			if err != nil || len(a.Results) != 1 {
				continue
			}
			s := fmt.Sprint(a.Results[0].Values)
			if i == 0 || ref == "" {
				ref = s
			} else if s != ref {
				h.DumpsEqual = false
				h.DumpNote = fmt.Sprintf("%s has %s, first node has %s", n.Name, trunc(s, 300), trunc(ref, 300))
			}
		}
	} else {
		h.DumpNote = "cluster did not converge after heal (dump comparison skipped)"
	}
	return
}

// doOp performs one client operation over HTTP. returned=false means the
// client never got an answer.
func doOp(cl *hcluster.Cluster, node *hcluster.Node, in opIn) (opOut, bool) {
	switch in.Kind {
	case "read":
		tmo := ""
		if in.TmoMs > 0 {
			tmo = fmt.Sprintf("&timeout=%dms", in.TmoMs)
		}
		rr := cl.Do(node, "GET", fmt.Sprintf("/db/query?level=%s%s&q=%s", in.Lvl, tmo, url.QueryEscape(fmt.Sprintf("SELECT v FROM kv WHERE k=%d", in.Key))), nil, nil)
		if rr.Err != nil || rr.Status != 200 {
			return opOut{Unknown: true, Note: note(rr)}, false
		}
		a, err := rr.Parse()
		if err != nil || a.Error != "" || len(a.Results) != 1 || a.Results[0].Error != "" || len(a.Results[0].Values) != 1 {
			return opOut{Unknown: true, Note: note(rr)}, false
		}
		return opOut{Val: fmt.Sprint(a.Results[0].Values[0][0])}, true
	default:
		var stmt []any
		switch in.Kind {
		case "write":
			stmt = []any{"INSERT OR REPLACE INTO kv(k,v) VALUES(?,?)", in.Key, in.Arg}
		case "append":
			stmt = []any{"UPDATE kv SET v = v || ',' || ? WHERE k=?", in.Arg, in.Key}
		case "cas":
			stmt = []any{"UPDATE kv SET v=? WHERE k=? AND v=?", in.Arg, in.Key, in.Old}
		}
		// Every write carries its unique token into an append-only oplog table in the
		// same transaction, so that a request applied more than once is observable.
		path := "/db/execute?transaction"
		if in.TmoMs > 0 {
			path += fmt.Sprintf("&timeout=%dms", in.TmoMs)
		}
		rr := cl.PostJSON(node, path, []any{[]any{"INSERT INTO oplog(tok) VALUES(?)", in.Arg}, stmt})
		if rr.Err != nil {
			return opOut{Unknown: true, Note: note(rr)}, false
		}
		a, err := rr.Parse()
		if rr.Status == 503 && strings.Contains(string(rr.Body), "leader not found") {
			// refused before anything was sent anywhere: definitely not applied
			return opOut{Failed: true, Note: note(rr)}, true
		}
		// NB: a "dial ..." error is NOT a definite failure: the inter-node client
		// re-sends after a lost response, so the error reported can be that of the
		// second attempt while the first one was applied.
		if err != nil || rr.Status != 200 || a.Error != "" || len(a.Results) != 2 || a.Results[0].Error != "" || a.Results[1].Error != "" {
			// Any other non-success is treated as "may or may not have been applied".
			return opOut{Unknown: true, Note: note(rr)}, true
		}
		return opOut{Rows: a.Results[1].RowsAffected}, true
	}
}

func note(rr hcluster.Resp) string {
	if rr.Err != nil {
		return trunc(rr.Err.Error(), 120)
	}
	return fmt.Sprintf("%d %s", rr.Status, trunc(string(rr.Body), 120))
}
