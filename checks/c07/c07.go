// Package c07: reaping snapshots is crash-safe (DESIGN §6 C07).
//
// Crash-point enumeration: a snapshot store is generated through the real
// snapshot API, Store.Reap() is run once in a child with VERIF_TRACE to learn
// the hook hits, then for every hit number n a fresh child reaps a fresh copy
// of the same store with VERIF_CRASH_N=n (process-crash model: the child exits
// at the hook, completed writes stay). A second child opens the store again
// (snapshot.NewStore runs check() and the resume) — optionally crashed again
// at each of its own hook hits — and a last child opens it for good, restores
// the newest snapshot and the driver compares (index, term) and the logical
// dump with what the store resolved to before the reap.
package c07

import (
	"encoding/json"
	"fmt"
	"os"
	"path/filepath"
	"sort"
	"strings"
	"sync"
	"time"

	"verif/internal/sqlref"
	"verif/internal/vf"
)

func init() { vf.Register("C07", "fault_enumeration", run) }

const childTimeout = 90 * time.Second

type shapeRun struct {
	sh       Shape
	dir      string
	pristine string // <dir>/pristine/store
	gen      GenResult
	pre      Resolved
	preDump  *sqlref.Dump
	trace    []TraceLine
	planOps  []string
	reapRes  OpResult
}

// Case identifies one enumerated crash case.
type Case struct {
	Shape  Shape  `json:"shape"`
	N      int    `json:"crash_n"`          // hook hit of Reap() at which the first child exits (0 = no crash)
	M      int    `json:"recovery_crash_m"` // hook hit of the recovery open at which the second child exits (0 = none)
	Point  string `json:"point,omitempty"`  // name of the first crash point
	Point2 string `json:"point2,omitempty"` // name of the second crash point
}

type driver struct {
	c    *vf.Ctx
	root string
	mu   sync.Mutex
	pts  map[string]int64
}

func (d *driver) child(logPath string, env []string, args ...string) ([]byte, int, bool) {
	if f, err := os.OpenFile(logPath, os.O_CREATE|os.O_WRONLY|os.O_APPEND, 0644); err == nil {
		fmt.Fprintf(f, "--- child: c07 %s env=%v\n", strings.Join(args, " "), env)
		f.Close()
	}
	env = append([]string{"GOMAXPROCS=2"}, env...)
	return vf.RunWorkerOnce(false, "c07", args, env, logPath, childTimeout)
}

func parseJSON[T any](out []byte) (T, bool) {
	var v T
	lines := strings.Split(strings.TrimSpace(string(out)), "\n")
	if len(lines) == 0 || lines[len(lines)-1] == "" {
		return v, false
	}
	if err := json.Unmarshal([]byte(lines[len(lines)-1]), &v); err != nil {
		return v, false
	}
	return v, true
}

func randShape(r interface{ IntN(int) int }, seed uint64) Shape {
	ng := 1 + r.IntN(3)
	sh := Shape{Seed: seed}
	for i := 0; i < ng; i++ {
		g := Group{FullWALs: r.IntN(3)}
		ni := r.IntN(5)
		if i < ng-1 {
			ni = r.IntN(2) // older groups stay small
		}
		for j := 0; j < ni; j++ {
			g.Incs = append(g.Incs, 1+r.IntN(3))
		}
		sh.Groups = append(sh.Groups, g)
	}
	if len(sh.Groups) == 1 && len(sh.Groups[0].Incs) == 0 {
		sh.Groups[0].Incs = []int{1 + r.IntN(3)} // a lone full snapshot gives Reap nothing to do
	}
	return sh
}

func shapes(c *vf.Ctx) []Shape {
	r := c.Rand(1)
	seed := func() uint64 { return r.Uint64() >> 1 }
	var out []Shape
	rounds := c.N(1, 3)
	for i := 0; i < rounds; i++ {
		// only older snapshots to drop: plan = remove_all ops
		older := []Group{{}}
		if r.IntN(2) == 0 {
			older = append(older, Group{Incs: []int{1 + r.IntN(2)}})
		}
		out = append(out, Shape{Seed: seed(), Groups: append(older, Group{})})
		// lone full + incrementals
		out = append(out, Shape{Seed: seed(), Groups: []Group{{Incs: []int{1 + r.IntN(3), 1 + r.IntN(3)}}}})
		// older full + newest full that carries its own WALs, nothing newer
		out = append(out, Shape{Seed: seed(), Groups: []Group{{}, {FullWALs: 1 + r.IntN(2)}}})
		// everything at once
		out = append(out, Shape{Seed: seed(), Groups: []Group{{Incs: []int{1}}, {FullWALs: 1 + r.IntN(2), Incs: []int{1 + r.IntN(3), 1 + r.IntN(3), 1}}}})
	}
	total := c.N(6, 30)
	for len(out) < total {
		out = append(out, randShape(r, seed()))
	}
	return out
}

func (d *driver) prepare(sr *shapeRun) error {
	c := d.c
	os.MkdirAll(sr.dir, 0755)
	logp := filepath.Join(sr.dir, "gen.log")
	sj, _ := json.Marshal(sr.sh)
	sp := filepath.Join(sr.dir, "shape.json")
	os.WriteFile(sp, sj, 0644)
	pdir := filepath.Join(sr.dir, "pristine")
	out, code, ok := d.child(logp, nil, "gen", sp, pdir)
	g, jok := parseJSON[GenResult](out)
	if !ok || code != 0 || !jok || !g.OK {
		return fmt.Errorf("generator failed (code %d, timely %v): %s %s", code, ok, g.Err, Tail(logp, 600))
	}
	sr.gen = g
	sr.pristine = filepath.Join(pdir, "store")

	// What the store resolves to before the reap (on a private copy).
	bdir := filepath.Join(sr.dir, "baseline")
	if err := ResetDir(sr.pristine, filepath.Join(bdir, "store"), sqlref.CopyTree); err != nil {
		return err
	}
	out, code, ok = d.child(logp, nil, "resolve", filepath.Join(bdir, "store"), filepath.Join(bdir, "out.db"))
	pre, jok := parseJSON[Resolved](out)
	if !ok || code != 0 || !jok || !pre.OK {
		return fmt.Errorf("baseline resolve failed (code %d): %s/%s %s", code, pre.Stage, pre.Err, Tail(logp, 600))
	}
	sr.pre = pre
	dump, err := sqlref.DumpFile(filepath.Join(bdir, "out.db"))
	if err != nil {
		return fmt.Errorf("baseline dump: %w", err)
	}
	sr.preDump = dump
	truth, err := sqlref.DumpFile(filepath.Join(pdir, "truth.db"))
	if err != nil {
		return fmt.Errorf("truth dump: %w", err)
	}
	last := g.Snaps[len(g.Snaps)-1]
	if pre.Index != last.Index || pre.Term != last.Term || truth.Hash() != dump.Hash() {
		c.Violation("baseline:newest-snapshot-differs-from-source", fmt.Sprintf(
			"before any reap the newest snapshot of shape %s resolves to (%d,%d) / dump %s but the source database was (%d,%d) / dump %s: %s",
			sr.sh.Key(), pre.Index, pre.Term, dump.Hash(), last.Index, last.Term, truth.Hash(), sqlref.Diff(truth, dump)), Case{Shape: sr.sh})
		return fmt.Errorf("baseline mismatch")
	}
	os.RemoveAll(bdir)

	// Recording run of the operation.
	rdir := filepath.Join(sr.dir, "record")
	if err := ResetDir(sr.pristine, filepath.Join(rdir, "store"), sqlref.CopyTree); err != nil {
		return err
	}
	tr := filepath.Join(rdir, "trace")
	out, code, ok = d.child(logp, []string{"VERIF_TRACE=" + tr}, "reap", filepath.Join(rdir, "store"))
	rr, jok := parseJSON[OpResult](out)
	if !ok || code != 0 || !jok {
		return fmt.Errorf("recording reap died (code %d): %s", code, Tail(logp, 600))
	}
	sr.reapRes = rr
	sr.trace, _ = ReadTrace(tr)
	c.Eval(1)
	if !rr.OK {
		c.Violation("reap:fails-without-crash", fmt.Sprintf("Reap() of shape %s failed without any fault: %s", sr.sh.Key(), rr.Err), Case{Shape: sr.sh})
		return fmt.Errorf("reap failed")
	}
	if key, what := d.judge(sr, filepath.Join(rdir, "store"), filepath.Join(rdir, "out.db"), logp); key != "" {
		c.Violation("no-crash:"+key, fmt.Sprintf("shape %s, uninterrupted Reap(): %s", sr.sh.Key(), what), Case{Shape: sr.sh})
	} else {
		c.Held(1)
	}
	os.RemoveAll(rdir)
	return nil
}

// judge runs the final open in a child and evaluates the oracle. It returns
// ("", "") when the property held.
func (d *driver) judge(sr *shapeRun, store, outDB, logp string, env ...string) (key, what string) {
	os.Remove(outDB)
	out, code, ok := d.child(logp, env, "resolve", store, outDB)
	if !ok {
		return "inconclusive", "final open timed out"
	}
	res, jok := parseJSON[Resolved](out)
	if code != 0 || !jok {
		return "final-open-dies", fmt.Sprintf("the process opening the store exited with code %d: %s", code, Tail(logp, 500))
	}
	if !res.OK {
		return "final-" + res.Stage + "-fails", fmt.Sprintf("%s failed after recovery: %s", res.Stage, res.Err)
	}
	if res.Index != sr.pre.Index || res.Term != sr.pre.Term {
		return "newest-index-term-changed", fmt.Sprintf("newest snapshot is (index %d, term %d), before the reap it was (%d, %d)", res.Index, res.Term, sr.pre.Index, sr.pre.Term)
	}
	dump, err := sqlref.DumpFile(outDB)
	if err != nil {
		return "restored-db-unreadable", fmt.Sprintf("restored database cannot be dumped: %v", err)
	}
	if dump.Hash() != sr.preDump.Hash() {
		return "restored-content-changed", "database restored from the newest snapshot differs from before the reap: " + sqlref.Diff(sr.preDump, dump)
	}
	if lo := Leftovers(store); len(lo) > 0 {
		return "leftover-after-open", fmt.Sprintf("after a successful open the store still holds %v", lo)
	}
	return "", ""
}

func readPlanOps(store string) []string {
	b, err := os.ReadFile(filepath.Join(store, "REAP_PLAN"))
	if err != nil {
		return nil
	}
	var p struct {
		Ops []struct {
			Type string `json:"type"`
		} `json:"ops"`
	}
	if json.Unmarshal(b, &p) != nil {
		return nil
	}
	var out []string
	for _, o := range p.Ops {
		out = append(out, o.Type)
	}
	return out
}

// label turns "plan.op.after#3" into "plan.op.after[checkpoint]" style names
// (op type instead of ordinal, so keys are about the kind of point).
func label(crashed string, ops []string, opBase int) string {
	name, hit, _ := strings.Cut(crashed, "#")
	if name == "plan.op.before" || name == "plan.op.after" {
		var k int
		fmt.Sscan(hit, &k)
		k -= opBase
		if k >= 1 && k <= len(ops) {
			return name + "[" + ops[k-1] + "]"
		}
	}
	return name
}

func (d *driver) countPoint(p string) {
	d.mu.Lock()
	d.pts[p]++
	d.mu.Unlock()
}

// firstLevel runs the cases with first crash n: the single-crash case and the
// double-crash cases (all m in thorough, a seeded sample in quick).
func (d *driver) firstLevel(sr *shapeRun, n int, onlyM int) {
	c := d.c
	cdir := filepath.Join(sr.dir, fmt.Sprintf("n%03d", n))
	defer os.RemoveAll(cdir)
	W := filepath.Join(cdir, "store")
	logp := filepath.Join(cdir, "log")
	if err := ResetDir(sr.pristine, W, sqlref.CopyTree); err != nil {
		c.Inconclusive("copy failed: " + err.Error())
		return
	}
	tr1 := filepath.Join(cdir, "trace1")
	_, code, ok := d.child(logp, []string{fmt.Sprintf("VERIF_CRASH_N=%d", n), "VERIF_TRACE=" + tr1}, "reap", W)
	if !ok {
		c.Eval(1)
		c.Inconclusive("reap child timed out")
		return
	}
	if code != 197 {
		c.Eval(1)
		c.Inconclusive(fmt.Sprintf("crash point %d not reached (exit %d)", n, code))
		return
	}
	_, crashed := ReadTrace(tr1)
	ops := readPlanOps(W)
	p1 := label(crashed, ops, 0)
	d.countPoint("reap:" + p1)
	c.Count("first_level_crashes", 1)
	crashedCopy := filepath.Join(cdir, "crashed")
	if err := sqlref.CopyTree(W, crashedCopy); err != nil {
		c.Inconclusive("copy failed: " + err.Error())
		return
	}

	// Single crash: the next start (snapshot.NewStore = check() + resume, then
	// list/open/restore) in one traced child; the hook hits that precede the
	// first stream.acquired are those of the recovering NewStore.
	tr2 := filepath.Join(cdir, "trace2")
	recoveryHits := func() int {
		lines, _ := ReadTrace(tr2)
		k := 0
		for _, l := range lines {
			if strings.HasPrefix(l.Name, "stream.") {
				break
			}
			k++
		}
		return k
	}
	nrec := 0
	if onlyM == 0 {
		cs := Case{Shape: sr.sh, N: n, Point: p1}
		c.Eval(1)
		c.Nontrivial(fmt.Sprintf("%s/n%d", sr.sh.Key(), n))
		key, what := d.judge(sr, W, filepath.Join(cdir, "out.db"), logp, "VERIF_TRACE="+tr2)
		nrec = recoveryHits()
		if key == "inconclusive" {
			c.Inconclusive(what)
		} else if key != "" {
			c.Violation("single-crash:"+key+":"+p1, fmt.Sprintf("shape %s, crash at hit %d (%s): %s", sr.sh.Key(), n, crashed, what), cs)
		} else {
			c.Held(1)
		}
		c.Count("recovery_hook_hits", int64(nrec))
		c.Sample(map[string]any{"shape": sr.sh.Key(), "snapshots": sr.gen.Snaps, "plan_ops": ops, "crash_hit": n, "crash_point": crashed, "recovery_hook_hits": nrec, "reap_hook_hits": len(sr.trace)})
	} else {
		// replay of one double-crash case: no verdict for the single crash
		d.child(logp, []string{"VERIF_TRACE=" + tr2}, "open", W)
		nrec = recoveryHits()
	}

	// Double crash: crash the recovery open at each of its hook hits.
	var ms []int
	switch {
	case onlyM > 0:
		ms = []int{onlyM}
	case c.Quick():
		if nrec > 0 {
			ms = []int{1 + c.Rand(uint64(n)*7919+sr.sh.Seed%1000).IntN(nrec)}
		}
	default:
		for m := 1; m <= nrec; m++ {
			ms = append(ms, m)
		}
	}
	for _, m := range ms {
		if err := ResetDir(crashedCopy, W, sqlref.CopyTree); err != nil {
			c.Inconclusive("copy failed: " + err.Error())
			continue
		}
		tr3 := filepath.Join(cdir, fmt.Sprintf("trace3-%d", m))
		_, code, ok := d.child(logp, []string{fmt.Sprintf("VERIF_CRASH_N=%d", m), "VERIF_TRACE=" + tr3}, "open", W)
		c.Eval(1)
		if !ok {
			c.Inconclusive("recovery child timed out")
			continue
		}
		if code != 197 {
			c.Inconclusive(fmt.Sprintf("recovery crash point not reached (exit %d)", code))
			continue
		}
		_, crashed2 := ReadTrace(tr3)
		// in the recovery run the plan ops are executed once, same ordinals
		p2 := label(crashed2, ops, 0)
		d.countPoint("recovery:" + p2)
		c.Count("second_level_crashes", 1)
		c.Nontrivial(fmt.Sprintf("%s/n%d/m%d", sr.sh.Key(), n, m))
		cs := Case{Shape: sr.sh, N: n, M: m, Point: p1, Point2: p2}
		if key, what := d.judge(sr, W, filepath.Join(cdir, "out.db"), logp); key == "inconclusive" {
			c.Inconclusive(what)
		} else if key != "" {
			c.Violation("double-crash:"+key+":"+p1+"+"+p2, fmt.Sprintf("shape %s, crash at reap hit %d (%s) then at recovery hit %d (%s): %s", sr.sh.Key(), n, crashed, m, crashed2, what), cs)
		} else {
			c.Held(1)
		}
		os.Remove(tr3)
	}
}

func run(c *vf.Ctx) {
	c.Rule("case = (store shape, hook hit n of Store.Reap() at which the process exits[, hook hit m of the recovering snapshot.NewStore at which it exits again]). Shapes are built through the real snapshot API from a live WAL-mode database (full snapshots streamed by NewSnapshotStreamer, optionally carrying 1-2 own WALs; incrementals of 1-3 compacted WALs moved in via staging dir + NewSnapshotPathStreamer): 0-2 older groups, newest full, 0-4 incrementals. Every hook hit of the recorded reap is a first-level case; thorough crashes the recovery run at every one of its hits too, quick at one seeded hit. Non-trivial = the child really exited (code 197) at the chosen hit of a reap that had a non-empty plan; distinct by (shape, n, m)")
	c.Assume("process-crash model: the process stops at a hook point, all writes issued before it are kept (no torn or lost writes, no power loss)")
	c.Assume("crash points are the vhook points in snapshot/store.go, snapshot/plan/plan.go and snapshot/plan/executor.go (before/after every plan op, after each WAL rename and each CheckpointRemove, around plan write/removal); code between two hooks is treated as atomic")
	c.Assume("sqlref logical dump (schema + typed rows + user_version/application_id) decides 'same database content'")

	root := vf.TempDir("c07")
	defer os.RemoveAll(root)
	d := &driver{c: c, root: root, pts: map[string]int64{}}

	if c.ReplayFile != "" {
		var rp struct {
			Case Case `json:"case"`
		}
		b, err := os.ReadFile(c.ReplayFile)
		if err == nil {
			err = json.Unmarshal(b, &rp)
		}
		if err != nil {
			c.Logf("replay: %v", err)
			return
		}
		sr := &shapeRun{sh: rp.Case.Shape, dir: filepath.Join(root, "replay")}
		if err := d.prepare(sr); err != nil {
			c.Logf("replay prepare: %v", err)
			return
		}
		if rp.Case.N > 0 {
			d.firstLevel(sr, rp.Case.N, rp.Case.M)
		}
		c.Require(1, 0)
		return
	}

	shs := shapes(c)
	par := c.N(8, 12)
	var runs []*shapeRun
	for i, sh := range shs {
		runs = append(runs, &shapeRun{sh: sh, dir: filepath.Join(root, fmt.Sprintf("s%02d", i))})
	}
	// generate + record (parallel)
	sem := make(chan struct{}, par)
	var wg sync.WaitGroup
	okRun := make([]bool, len(runs))
	for i, sr := range runs {
		wg.Add(1)
		sem <- struct{}{}
		go func() {
			defer wg.Done()
			defer func() { <-sem }()
			if err := d.prepare(sr); err != nil {
				c.Logf("shape %s: %v", sr.sh.Key(), err)
				c.Inconclusive("shape preparation failed")
				return
			}
			okRun[i] = true
		}()
	}
	wg.Wait()
	type task struct {
		sr *shapeRun
		n  int
	}
	var tasks []task
	totalHits := 0
	for i, sr := range runs {
		if !okRun[i] {
			continue
		}
		c.Count("shapes", 1)
		c.Count("snapshots_generated", int64(len(sr.gen.Snaps)))
		c.Count("sql_statements", int64(sr.gen.Stmts))
		c.Count("snapshots_reaped_recording", int64(sr.reapRes.Reaped))
		c.Count("wals_checkpointed_recording", int64(sr.reapRes.Checkpointed))
		totalHits += len(sr.trace)
		for n := 1; n <= len(sr.trace); n++ {
			tasks = append(tasks, task{sr, n})
		}
	}
	c.Count("reap_hook_hits_recorded", int64(totalHits))
	c.Logf("%d shapes prepared, %d first-level crash points", len(runs), len(tasks))
	ch := make(chan task)
	for w := 0; w < par; w++ {
		wg.Add(1)
		go func() {
			defer wg.Done()
			for t := range ch {
				d.firstLevel(t.sr, t.n, 0)
			}
		}()
	}
	for i, t := range tasks {
		ch <- t
		if i%50 == 49 {
			c.Logf("first-level %d/%d", i+1, len(tasks))
		}
	}
	close(ch)
	wg.Wait()

	var names []string
	for k := range d.pts {
		names = append(names, k)
	}
	sort.Strings(names)
	pts := map[string]int64{}
	for _, k := range names {
		pts[k] = d.pts[k]
	}
	c.Extra("crash_points_hit", pts)
	var keys []string
	for _, sh := range shs {
		keys = append(keys, sh.Key())
	}
	c.Extra("shapes", keys)
	c.Require(int64(c.N(60, 2000)), c.N(50, 1500))
}
