package c15

import (
	"context"
	"encoding/json"
	"fmt"
	"net"
	"os"
	"path/filepath"
	"time"

	"github.com/rqlite/rqlite/v10/command/proto"
	"github.com/rqlite/rqlite/v10/store"
	"verif/internal/sqlref"
	"verif/internal/vf"
)

// The node worker runs one real single-node store.Store in a child process and
// drives it through Store.Execute / Store.Query / Store.Request.

type tcpLayer struct{ ln net.Listener }

func (l *tcpLayer) Dial(addr string, timeout time.Duration) (net.Conn, error) {
	return net.DialTimeout("tcp", addr, timeout)
}
func (l *tcpLayer) Accept() (net.Conn, error) { return l.ln.Accept() }
func (l *tcpLayer) Close() error              { return l.ln.Close() }
func (l *tcpLayer) Addr() net.Addr            { return l.ln.Addr() }

type nodeReq struct {
	Op    string `json:"op"`    // send | state | insert
	Entry string `json:"entry"` // execute | request | query-none | query-weak | query-strong
	SQL   string `json:"sql"`
	// NoState: answer without reading the settings back (reading opens a
	// connection of the read-only pool, which by itself pins the journal mode)
	NoState bool `json:"no_state,omitempty"`
	// Shape: everything of the request other than the text (nil = bare request)
	Shape *shape `json:"shape,omitempty"`
}

// settings: journal_mode, wal_autocheckpoint, synchronous, query_only
type connState [4]string

type nodeState struct {
	RW    connState `json:"rw"`
	RO    connState `json:"ro"`
	Hash  string    `json:"hash"` // sha256 of db.sqlite (main file only)
	WAL   int64     `json:"wal"`  // size of db.sqlite-wal
	Err   string    `json:"err,omitempty"`
	ROErr string    `json:"ro_err,omitempty"`
}

type nodeResp struct {
	Accepted bool      `json:"accepted"`
	Err      string    `json:"err,omitempty"`      // request-level error (rejection)
	StmtErr  string    `json:"stmt_err,omitempty"` // first statement-level error
	State    nodeState `json:"state"`
	Fatal    string    `json:"fatal,omitempty"`
}

var readPragmas = []string{"PRAGMA journal_mode", "PRAGMA wal_autocheckpoint", "PRAGMA synchronous", "PRAGMA query_only"}

func stmts(sqls ...string) []*proto.Statement {
	var out []*proto.Statement
	for _, s := range sqls {
		out = append(out, &proto.Statement{Sql: s})
	}
	return out
}

func paramString(p *proto.Parameter) string {
	switch v := p.GetValue().(type) {
	case *proto.Parameter_I:
		return fmt.Sprint(v.I)
	case *proto.Parameter_D:
		return fmt.Sprint(v.D)
	case *proto.Parameter_B:
		return fmt.Sprint(v.B)
	case *proto.Parameter_S:
		return v.S
	case *proto.Parameter_Y:
		return fmt.Sprintf("%x", v.Y)
	}
	return "null"
}

func rowsToState(rows []*proto.QueryRows) (connState, error) {
	var cs connState
	if len(rows) != 4 {
		return cs, fmt.Errorf("expected 4 result sets, got %d", len(rows))
	}
	for i, r := range rows {
		if r.Error != "" {
			return cs, fmt.Errorf("%s: %s", readPragmas[i], r.Error)
		}
		if len(r.Values) != 1 || len(r.Values[0].Parameters) != 1 {
			return cs, fmt.Errorf("%s: unexpected shape", readPragmas[i])
		}
		cs[i] = paramString(r.Values[0].Parameters[0])
	}
	return cs, nil
}

type node struct {
	st  *store.Store
	dir string
}

func (n *node) state() nodeState {
	var ns nodeState
	ctx := context.Background()
	// RW connection: Execute with ForceQuery runs the statement as a query on the
	// connection that executes writes.
	ss := stmts(readPragmas...)
	for _, s := range ss {
		s.ForceQuery = true
	}
	res, _, err := n.st.Execute(ctx, &proto.ExecuteRequest{Request: &proto.Request{Statements: ss}})
	if err != nil {
		ns.Err = "read rw: " + err.Error()
		return ns
	}
	var rows []*proto.QueryRows
	for _, r := range res {
		if q := r.GetQ(); q != nil {
			rows = append(rows, q)
		} else {
			rows = append(rows, &proto.QueryRows{Error: "no rows: " + r.GetError()})
		}
	}
	if ns.RW, err = rowsToState(rows); err != nil {
		ns.Err = "read rw: " + err.Error()
		return ns
	}
	// read-only pool
	qr, _, _, err := n.st.Query(ctx, &proto.QueryRequest{
		Request: &proto.Request{Statements: stmts(readPragmas...)},
		Level:   proto.ConsistencyLevel_NONE,
	})
	if err == nil {
		ns.RO, err = rowsToState(qr)
	}
	if err != nil {
		// the read-write settings are still reported
		ns.ROErr = err.Error()
		ns.RO = connState{"unreadable", "unreadable", "unreadable", "unreadable"}
	}
	ns.Hash = sqlref.FileHash(filepath.Join(n.dir, "db.sqlite"))
	if fi, err := os.Stat(filepath.Join(n.dir, "db.sqlite-wal")); err == nil {
		ns.WAL = fi.Size()
	}
	return ns
}

func (n *node) send(entry, sqlText string, sh *shape) (accepted bool, reqErr, stmtErr string) {
	ctx, cancel := context.WithTimeout(context.Background(), 20*time.Second)
	defer cancel()
	req, timings, fresh := sh.build(sqlText)
	var freshness int64
	if fresh {
		freshness = int64(time.Hour)
	}
	switch entry {
	case "execute":
		res, _, err := n.st.Execute(ctx, &proto.ExecuteRequest{Request: req, Timings: timings})
		if err != nil {
			return false, err.Error(), ""
		}
		for _, r := range res {
			if e := r.GetError(); e != "" {
				return true, "", e
			}
			if x := r.GetE(); x != nil && x.Error != "" {
				return true, "", x.Error
			}
		}
		return true, "", ""
	case "request":
		res, _, _, err := n.st.Request(ctx, &proto.ExecuteQueryRequest{Request: req, Level: proto.ConsistencyLevel_WEAK, Timings: timings, Freshness: freshness, FreshnessStrict: fresh})
		if err != nil {
			return false, err.Error(), ""
		}
		for _, r := range res {
			if e := r.GetError(); e != "" {
				return true, "", e
			}
			if x := r.GetE(); x != nil && x.Error != "" {
				return true, "", x.Error
			}
			if q := r.GetQ(); q != nil && q.Error != "" {
				return true, "", q.Error
			}
		}
		return true, "", ""
	default:
		lvl := proto.ConsistencyLevel_NONE
		switch entry {
		case "query-weak":
			lvl = proto.ConsistencyLevel_WEAK
		case "query-strong":
			lvl = proto.ConsistencyLevel_STRONG
		case "query-linearizable":
			lvl = proto.ConsistencyLevel_LINEARIZABLE
		}
		rows, _, _, err := n.st.Query(ctx, &proto.QueryRequest{Request: req, Level: lvl, Timings: timings, Freshness: freshness, FreshnessStrict: fresh})
		if err != nil {
			return false, err.Error(), ""
		}
		for _, r := range rows {
			if r.Error != "" {
				return true, "", r.Error
			}
		}
		return true, "", ""
	}
}

func nodeWorker(args []string) {
	dir := args[0]
	fatal := func(format string, a ...any) {
		msg := fmt.Sprintf(format, a...)
		fmt.Fprintln(os.Stderr, "c15node fatal:", msg)
		b, _ := json.Marshal(nodeResp{Fatal: msg})
		fmt.Println(string(b))
		os.Exit(3)
	}
	ln, err := net.Listen("tcp", "127.0.0.1:0")
	if err != nil {
		fatal("listen: %v", err)
	}
	st := store.New(&store.Config{DBConf: store.NewDBConfig(), Dir: dir, ID: "c15"}, &tcpLayer{ln})
	// no snapshot may run on its own: a snapshot legitimately checkpoints
	st.SnapshotThreshold = 1 << 40
	st.SnapshotThresholdWALSize = 1 << 40
	st.SnapshotInterval = 24 * time.Hour
	st.NoSnapshotOnClose = true
	st.RaftLogLevel = "ERROR"
	if err := st.Open(); err != nil {
		fatal("open: %v", err)
	}
	if err := st.Bootstrap(store.NewServer(st.ID(), st.Addr(), true)); err != nil {
		fatal("bootstrap: %v", err)
	}
	if _, err := st.WaitForLeader(20 * time.Second); err != nil {
		fatal("leader: %v", err)
	}
	n := &node{st: st, dir: dir}
	if ok, e1, e2 := n.send("execute", "CREATE TABLE c15(id INTEGER PRIMARY KEY, v TEXT)", nil); !ok || e2 != "" {
		fatal("create: %s %s", e1, e2)
	}
	seq := 0
	vf.ServeJSON(func(raw json.RawMessage) any {
		var req nodeReq
		if err := json.Unmarshal(raw, &req); err != nil {
			return nodeResp{Fatal: err.Error()}
		}
		var resp nodeResp
		switch req.Op {
		case "insert": // make sure the WAL holds frames a checkpoint would move
			seq++
			ok, e1, e2 := n.send("execute", fmt.Sprintf("INSERT INTO c15(v) VALUES('row %d')", seq), nil)
			resp.Accepted, resp.Err, resp.StmtErr = ok, e1, e2
		case "send":
			fmt.Fprintf(os.Stderr, "c15node send %s %q shape=%s\n", req.Entry, req.SQL, req.Shape.key())
			resp.Accepted, resp.Err, resp.StmtErr = n.send(req.Entry, req.SQL, req.Shape)
		case "state":
			resp.Accepted = true
		}
		if !req.NoState {
			resp.State = n.state()
		}
		return resp
	})
	st.Close(true)
}
