package c20

import (
	"bytes"
	"context"
	"crypto/sha256"
	"encoding/hex"
	"encoding/json"
	"expvar"
	"fmt"
	"net/url"
	"os"
	"path/filepath"
	"sort"
	"strings"
	"sync"
	"time"

	"github.com/rqlite/rqlite/v10/auth"
	cproto "github.com/rqlite/rqlite/v10/command/proto"
	"github.com/rqlite/rqlite/v10/store"
	"verif/internal/hcluster"
	"verif/internal/sqlref"
	"verif/internal/vf"
)

// ---- credential store and the documented decision rule ----

type userDef struct {
	Name  string   `json:"username"`
	Pass  string   `json:"password,omitempty"`
	Perms []string `json:"perms,omitempty"`
}

var storeUsers = []userDef{
	{Name: "admin", Pass: "pw-admin", Perms: []string{"all"}},
	{Name: "ro", Pass: "pw-ro", Perms: []string{"query", "status", "ready"}},
	{Name: "ld", Pass: "pw-ld", Perms: []string{"load", "backup"}},
}

func spec(user, pass, perm string) bool {
	if user == "" {
		return false
	}
	for _, u := range storeUsers {
		if u.Name == user {
			if u.Pass != pass {
				return false
			}
			for _, p := range u.Perms {
				if p == perm || p == "all" {
					return true
				}
			}
		}
	}
	return false
}

type pres struct {
	Name string `json:"name"`
	User string `json:"user,omitempty"`
	Pass string `json:"pass,omitempty"`
}

var presentations = []pres{
	{Name: "none"},
	{Name: "admin", User: "admin", Pass: "pw-admin"},
	{Name: "ro", User: "ro", Pass: "pw-ro"},
	{Name: "ld", User: "ld", Pass: "pw-ld"},
	{Name: "bad-password", User: "admin", Pass: "wrong"},
}

func allowed(perms []string, p pres) bool {
	for _, q := range perms {
		if !spec(p.User, p.Pass, q) {
			return false
		}
	}
	return true
}

// ---- recorder: what each node's credential checks were asked ----

type aaCall struct {
	Node    string `json:"node"`
	Surface string `json:"surface"` // http | cluster
	User    string `json:"user"`
	Pass    string `json:"pass"`
	Perm    string `json:"perm"`
	OK      bool   `json:"ok"`
}

type recorder struct {
	mu    sync.Mutex
	calls []aaCall
}

func (r *recorder) mark() int {
	r.mu.Lock()
	defer r.mu.Unlock()
	return len(r.calls)
}

func (r *recorder) since(m int) []aaCall {
	r.mu.Lock()
	defer r.mu.Unlock()
	return append([]aaCall(nil), r.calls[m:]...)
}

// recStore wraps the real credential store (nil = the node has none: everything
// is allowed, as with a nil store) and records every decision it is asked for.
type recStore struct {
	inner   *auth.CredentialsStore
	node    string
	surface string
	rec     *recorder
}

func (s *recStore) AA(u, p, perm string) bool {
	ok := s.inner == nil || s.inner.AA(u, p, perm)
	s.rec.mu.Lock()
	s.rec.calls = append(s.rec.calls, aaCall{s.node, s.surface, u, p, perm, ok})
	s.rec.mu.Unlock()
	return ok
}

// ---- case ----

type caseDef struct {
	No        int      `json:"no"`
	Variant   string   `json:"variant"`
	AuthNodes []string `json:"auth_nodes"` // nodes that run with the credential store
}

func (cd caseDef) hasStore(id string) bool {
	for _, n := range cd.AuthNodes {
		if n == id {
			return true
		}
	}
	return false
}

type kind struct {
	Name     string
	Method   string
	Path     string // without redirect parameter
	Perms    []string
	Write    bool // inserts a unique token into oplog
	Read     bool // response compared with the same request answered by the leader
	MinDelta int  // commit-index growth on the leader when served
	MaxDelta int
	MinCmds  int // raft commands submitted by the leader's Store when served (execute / strong read / unified)
	MaxCmds  int
	Loads    int  // database loads performed when served
	Last     bool // run after all others (may leave work behind on a node)

	FollowerOnly bool // meaningless at the leader
}

var selQ = url.QueryEscape("SELECT COUNT(*), MAX(tok) FROM oplog")

var kinds = []kind{
	{Name: "execute", Method: "POST", Path: "/db/execute?raft_index", Perms: []string{"execute"}, Write: true, MinDelta: 1, MaxDelta: 1, MinCmds: 1, MaxCmds: 1},
	{Name: "execute-queued", Method: "POST", Path: "/db/execute?queue&wait&timeout=8s", Perms: []string{"execute"}, Write: true, MinDelta: 1, MaxDelta: 1, Last: true, MinCmds: 1, MaxCmds: 1},
	{Name: "query-strong", Method: "GET", Path: "/db/query?level=strong&raft_index&q=" + selQ, Perms: []string{"query"}, Read: true, MinDelta: 1, MaxDelta: 1, MinCmds: 1, MaxCmds: 1},
	{Name: "query-linearizable", Method: "GET", Path: "/db/query?level=linearizable&q=" + selQ, Perms: []string{"query"}, Read: true, MinDelta: 0, MaxDelta: 1, MaxCmds: 1},
	{Name: "query-weak", Method: "GET", Path: "/db/query?level=weak&q=" + selQ, Perms: []string{"query"}, Read: true},
	{Name: "request-rw", Method: "POST", Path: "/db/request?raft_index", Perms: []string{"query", "execute"}, Write: true, MinDelta: 1, MaxDelta: 1, MinCmds: 1, MaxCmds: 1},
	{Name: "request-ro-strong", Method: "POST", Path: "/db/request?level=strong", Perms: []string{"query", "execute"}, Read: true, MinDelta: 1, MaxDelta: 1, MinCmds: 1, MaxCmds: 1},
	// unified requests made of reads only, at the other levels that need the leader: a
	// linearizable one goes through the log only when the leader has to upgrade it to a
	// strong read (first one of its term), a weak one never does
	{Name: "request-ro-linearizable", Method: "POST", Path: "/db/request?level=linearizable", Perms: []string{"query", "execute"}, Read: true, MinDelta: 0, MaxDelta: 1, MaxCmds: 1},
	{Name: "request-ro-weak", Method: "POST", Path: "/db/request?level=weak", Perms: []string{"query", "execute"}, Read: true},
	{Name: "load-sql", Method: "POST", Path: "/db/load", Perms: []string{"load"}, Write: true, MinDelta: 1, MaxDelta: 1, MinCmds: 1, MaxCmds: 1},
	{Name: "load-bin", Method: "POST", Path: "/db/load", Perms: []string{"load"}, Write: true, MinDelta: 1, MaxDelta: 1, Loads: 1},
	{Name: "backup-bin", Method: "GET", Path: "/db/backup", Perms: []string{"backup"}, Read: true},
	{Name: "backup-sql", Method: "GET", Path: "/db/backup?fmt=sql", Perms: []string{"backup"}, Read: true},
	{Name: "remove", Method: "DELETE", Path: "/remove", Perms: []string{"remove"}, MinDelta: 1, MaxDelta: 1},
	{Name: "stepdown", Method: "POST", Path: "/leader?wait=true", Perms: []string{"leader-ops"}, MinDelta: 0, MaxDelta: 1 << 30},
	// the contacted follower itself is the requested new leader
	{Name: "stepdown-self", Method: "POST", Path: "/leader?wait=true", Perms: []string{"leader-ops"}, MinDelta: 0, MaxDelta: 1 << 30, FollowerOnly: true},
	// without ?wait the transfer is started and the answer does not wait for it
	{Name: "stepdown-nowait", Method: "POST", Path: "/leader", Perms: []string{"leader-ops"}, MinDelta: 0, MaxDelta: 1 << 30},
}

// ---- observations ----

type problem struct {
	Key    string `json:"key"`
	Detail string `json:"detail"`
}

type obs struct {
	Idx      int       `json:"idx"`
	Phase    string    `json:"phase"` // probe | matrix | concurrent
	Kind     string    `json:"kind"`
	Node     string    `json:"node"`
	Leader   string    `json:"leader"`
	Redirect bool      `json:"redirect"`
	Pres     string    `json:"credentials"`
	NodeAuth bool      `json:"node_has_store"`
	LeadAuth bool      `json:"leader_has_store"`
	Expect   string    `json:"expected"` // http-401 | redirect-301 | remote-401 | served-local | served-forwarded
	Status   int       `json:"status"`
	ServedBy string    `json:"served_by,omitempty"`
	Location string    `json:"location,omitempty"`
	Body     string    `json:"body,omitempty"`
	Token    string    `json:"token,omitempty"`
	Applied  int       `json:"token_rows_on_leader"`
	Delta    int64     `json:"leader_commit_index_delta"`
	Cmds     int64     `json:"leader_commands_submitted"`
	Loads    int64     `json:"leader_loads"`
	LeaderAA []aaCall  `json:"leader_internode_checks,omitempty"`
	Cut      bool      `json:"connection_cut_after_request_written,omitempty"`
	Problems []problem `json:"problems,omitempty"`
	Inconcl  string    `json:"inconclusive,omitempty"`
	Observed []string  `json:"observations,omitempty"`
	Skip     bool      `json:"-"`
}

type caseOut struct {
	Case       caseDef          `json:"case"`
	SetupErr   string           `json:"setup_err,omitempty"`
	Counters   map[string]int64 `json:"counters"`
	Keys       []string         `json:"keys"`
	Bad        []obs            `json:"bad"`
	Samples    []obs            `json:"samples"`
	Evals      int              `json:"evals"`
	Held       int              `json:"held"`
	Final      []problem        `json:"final_problems,omitempty"`
	FinalNote  string           `json:"final_note,omitempty"`
	LeaderSeen []string         `json:"leaders_seen"`
}

type tokInfo struct {
	Kind    string
	Node    string
	Outcome string // ack | refused | unknown
	Probe   bool
}

type env struct {
	cl         *hcluster.Cluster
	cd         caseDef
	rec        *recorder
	dir        string
	tokN       int
	tokens     map[string]*tokInfo
	order      []string
	ghostN     int
	out        *caseOut
	stuckQ     map[string]bool // nodes whose write queue is blocked by a refused batch
	leaders    map[string]bool
	lastLeader string
}

func (e *env) cnt(k string, n int64) { e.out.Counters[k] += n }

func (e *env) newTok(kind, node string, probe bool) string {
	e.tokN++
	t := fmt.Sprintf("c%d-%s-%d", e.cd.No, kind, e.tokN)
	e.tokens[t] = &tokInfo{Kind: kind, Node: node, Outcome: "unknown", Probe: probe}
	e.order = append(e.order, t)
	return t
}

func qInt(n *hcluster.Node, sql string, params ...string) ([]int64, error) {
	st := &cproto.Statement{Sql: sql}
	for _, p := range params {
		st.Parameters = append(st.Parameters, &cproto.Parameter{Value: &cproto.Parameter_S{S: p}})
	}
	rows, _, _, err := n.Store.Query(context.Background(), &cproto.QueryRequest{Request: &cproto.Request{Statements: []*cproto.Statement{st}}, Level: cproto.ConsistencyLevel_NONE})
	if err != nil {
		return nil, err
	}
	if len(rows) != 1 || rows[0].Error != "" || len(rows[0].Values) != 1 {
		return nil, fmt.Errorf("unexpected result %v", rows)
	}
	var out []int64
	for _, p := range rows[0].Values[0].Parameters {
		out = append(out, p.GetI())
	}
	return out, nil
}

func storeStat(name string) int64 {
	m, ok := expvar.Get("store").(*expvar.Map)
	if !ok {
		return -1
	}
	v, ok := m.Get(name).(*expvar.Int)
	if !ok {
		return 0
	}
	return v.Value()
}

// submitted counts the raft commands built by Store.Execute / strong Query / Request in
// this process; only a leader gets that far, so its growth around a request is
// the number of times the leader executed it.
func submitted() int64 {
	return storeStat("num_uncompressed_commands") + storeStat("num_compressed_commands")
}

// raftTerm reads the node's current raft term (0 if unavailable).
func raftTerm(n *hcluster.Node) int64 {
	st, err := n.Store.Stats()
	if err != nil {
		return 0
	}
	rs, _ := st["raft"].(map[string]any)
	t, _ := rs["term"].(int64)
	return t
}

func tokRows(n *hcluster.Node, tok string) int {
	v, err := qInt(n, "SELECT COUNT(*) FROM oplog WHERE tok = ?", tok)
	if err != nil || len(v) != 1 {
		return -1
	}
	return int(v[0])
}

func oplogCount(n *hcluster.Node) (rows, maxRowid int64) {
	v, err := qInt(n, "SELECT COUNT(*), COALESCE(MAX(rowid),0) FROM oplog")
	if err != nil || len(v) != 2 {
		return -1, -1
	}
	return v[0], v[1]
}

func dumpHash(n *hcluster.Node) (string, error) {
	var buf bytes.Buffer
	if err := n.Store.Backup(context.Background(), &cproto.BackupRequest{Format: cproto.BackupRequest_BACKUP_REQUEST_FORMAT_SQL, Leader: false}, &buf); err != nil {
		return "", err
	}
	h := sha256.Sum256(buf.Bytes())
	return hex.EncodeToString(h[:8]), nil
}

// loadFile builds a SQLite file that is the leader's current database plus one
// oplog row carrying tok.
func (e *env) loadFile(l *hcluster.Node, tok string) ([]byte, error) {
	// (built from the SQL dump: a binary backup taken right after a configuration
	// change can lack the newest rows, which is C21's subject, not this one's)
	var buf bytes.Buffer
	if err := l.Store.Backup(context.Background(), &cproto.BackupRequest{Format: cproto.BackupRequest_BACKUP_REQUEST_FORMAT_SQL, Leader: false}, &buf); err != nil {
		return nil, err
	}
	p := filepath.Join(e.dir, "load-"+tok+".sqlite")
	defer os.Remove(p)
	defer os.Remove(p + "-wal")
	defer os.Remove(p + "-shm")
	os.Remove(p)
	db, err := sqlref.Open(p)
	if err != nil {
		return nil, err
	}
	db.SetMaxOpenConns(1)
	if _, err := db.Exec("PRAGMA journal_mode=DELETE"); err != nil {
		db.Close()
		return nil, err
	}
	if _, err := db.Exec(buf.String()); err != nil {
		db.Close()
		return nil, fmt.Errorf("replaying dump: %w", err)
	}
	if _, err := db.Exec("INSERT INTO oplog(tok) VALUES(?)", tok); err != nil {
		db.Close()
		return nil, err
	}
	db.Close()
	return os.ReadFile(p)
}

func canonJSON(v any) string {
	b, _ := json.Marshal(v)
	return string(b)
}

// normBody strips the fields the property allows to differ.
func normBody(b []byte) (string, map[string]any) {
	var m map[string]any
	dec := json.NewDecoder(bytes.NewReader(b))
	dec.UseNumber()
	if err := dec.Decode(&m); err != nil {
		return "unparsable:" + string(b), nil
	}
	delete(m, "time")
	delete(m, "raft_index")
	delete(m, "sequence_number")
	if rs, ok := m["results"].([]any); ok {
		for _, r := range rs {
			if rm, ok := r.(map[string]any); ok {
				delete(rm, "time")
			}
		}
	}
	return canonJSON(m), m
}

// closeCluster shuts the case's cluster down. It is called after the result has
// been written and is bounded: an rqlite node whose write queue is retrying a
// refused batch can block in Service.Close for ever.
var closeCluster = func() {}

func worker(args []string) {
	b, err := os.ReadFile(args[0])
	if err != nil {
		panic(err)
	}
	var cd caseDef
	if err := json.Unmarshal(b, &cd); err != nil {
		panic(err)
	}
	var seed int64
	fmt.Sscan(args[3], &seed)
	out := runCase(cd, args[1], seed, args[4])
	ob, _ := json.Marshal(out)
	os.WriteFile(args[2], ob, 0644)
	done := make(chan struct{})
	go func() { closeCluster(); close(done) }()
	select {
	case <-done:
	case <-time.After(20 * time.Second):
		fmt.Fprintln(os.Stderr, "cluster shutdown did not finish within 20 s; exiting")
	}
	os.Exit(0)
}

type job struct {
	k        *kind
	node     string
	redirect bool
	pr       pres
}

func runCase(cd caseDef, dir string, seed int64, tier string) (out caseOut) {
	out.Case = cd
	out.Counters = map[string]int64{}
	fail := func(f string, a ...any) caseOut {
		out.SetupErr = fmt.Sprintf(f, a...)
		return out
	}
	cs := auth.NewCredentialsStore()
	sj, _ := json.Marshal(storeUsers)
	if err := cs.Load(bytes.NewReader(sj)); err != nil {
		return fail("load credentials: %v", err)
	}
	rec := &recorder{}
	cl := hcluster.New(filepath.Join(dir, "cluster"))
	closeCluster = cl.Close // the caller closes it after the result is written
	cl.HTTP.Timeout = 90 * time.Second
	for _, id := range []string{"n1", "n2", "n3"} {
		o := hcluster.Options{ID: id, HeartbeatTimeout: 1500 * time.Millisecond, ElectionTimeout: 1500 * time.Millisecond, LeaderLease: time.Second,
			SnapshotInterval: time.Hour, NoSnapshotOnClose: true, ReapThreshold: 1 << 20,
			Tune: func(s *store.Store) { s.SnapshotThreshold = 1 << 30 }}
		if cd.hasStore(id) {
			o.HTTPCreds = &recStore{inner: cs, node: id, surface: "http", rec: rec}
			o.ClusterCreds = &recStore{inner: cs, node: id, surface: "cluster", rec: rec}
		} else {
			// no store: the HTTP service gets none at all; the inter-node service gets a
			// recorder that allows everything (what a nil store does)
			o.ClusterCreds = &recStore{node: id, surface: "cluster", rec: rec}
		}
		if _, err := cl.Add(o, true); err != nil {
			return fail("node %s: %v", id, err)
		}
	}
	l := cl.WaitLeader(90 * time.Second)
	if l == nil {
		return fail("no leader")
	}
	res, _, err := l.Store.Execute(context.Background(), &cproto.ExecuteRequest{Request: &cproto.Request{Statements: []*cproto.Statement{
		{Sql: "CREATE TABLE oplog (tok TEXT NOT NULL)"}, {Sql: "INSERT INTO oplog(tok) VALUES('seed-row')"}}, Transaction: true}})
	if err != nil || res[0].GetError() != "" {
		return fail("schema: %v %v", err, res)
	}
	if !cl.WaitConverged(30 * time.Second) {
		return fail("initial convergence")
	}
	e := &env{cl: cl, cd: cd, rec: rec, dir: dir, tokens: map[string]*tokInfo{}, out: &out, stuckQ: map[string]bool{}, leaders: map[string]bool{}}
	vc := &vf.Ctx{ID: "C20", Seed: seed}
	rnd := vc.Rand(uint64(cd.No) + 7000)

	// ---- phase 1: lost-response probes while the inter-node pools are still empty ----
	idx := 0
	probe := func(kind, node string) {
		o := e.doRequest(idx, "probe", job{k: kindByName(kind), node: node, pr: presentations[1]}, true)
		idx++
		e.record(o)
	}
	probe("execute", "n2")
	probe("request-rw", "n3")
	// move leadership to n2: the pools of n1 and n3 towards n2 have never been used
	if ld := cl.WaitLeader(90 * time.Second); ld != nil && ld.Name == "n1" {
		cl.WaitConverged(30 * time.Second)
		if err := ld.Store.Stepdown(true, "n2"); err == nil {
			for t0 := time.Now(); time.Since(t0) < 20*time.Second; time.Sleep(20 * time.Millisecond) {
				if l2 := cl.Leader(); l2 != nil && l2.Name == "n2" {
					break
				}
			}
		}
	}
	if ld := cl.WaitLeader(90 * time.Second); ld != nil && ld.Name == "n2" {
		probe("load-sql", "n1")
		probe("query-strong", "n3")
	}

	// ---- phase 2: the request matrix ----
	var jobs, last []job
	for i := range kinds {
		for _, node := range []string{"n1", "n2", "n3"} {
			for _, rd := range []bool{false, true} {
				for _, pr := range presentations {
					j := job{k: &kinds[i], node: node, redirect: rd, pr: pr}
					if kinds[i].Last {
						last = append(last, j)
					} else {
						jobs = append(jobs, j)
					}
				}
			}
		}
	}
	rnd.Shuffle(len(jobs), func(i, j int) { jobs[i], jobs[j] = jobs[j], jobs[i] })
	rnd.Shuffle(len(last), func(i, j int) { last[i], last[j] = last[j], last[i] })
	nFirst := len(jobs)
	jobs = append(jobs, last...)
	// bursts of simultaneous forwarded requests through one follower are placed at
	// seeded points between the requests of the matrix (own stream: the matrix order
	// does not depend on them) and once more after its last leadership-moving part
	brnd := vc.Rand(uint64(cd.No) + 9000)
	nBursts := 0
	for ji, jb := range jobs {
		if ji > 0 && ji <= nFirst && (ji == nFirst || brnd.IntN(5) == 0) {
			// every twelfth burst follows a request that the follower abandoned because
			// the leader was slow
			if nBursts%12 == 1 {
				idx = e.slowProbe(idx, nBursts/12)
			}
			nBursts++
			idx = e.burst(idx, brnd)
		}
		ld := cl.WaitLeader(90 * time.Second)
		if ld == nil {
			out.FinalNote = "cluster lost its leader during the matrix"
			break
		}
		// a lost-response probe whenever the follower's pool towards the leader is empty
		probe := false
		if jb.node != ld.Name && !jb.redirect && jb.pr.Name == "admin" && !jb.k.Last &&
			(jb.k.Name == "execute" || jb.k.Name == "request-rw" || jb.k.Name == "load-sql" || jb.k.Name == "query-strong") &&
			cl.Net.OpenConns(jb.node, ld.Name, "cluster") == 0 && rnd.IntN(2) == 0 {
			probe = true
		}
		o := e.doRequest(idx, "matrix", jb, probe)
		idx++
		e.record(o)
	}

	// ---- phase 3: writes to every node while leadership moves ----
	e.concurrentPhase(rnd, tier)

	// ---- final: quiescence ----
	e.final()
	for n := range e.leaders {
		out.LeaderSeen = append(out.LeaderSeen, n)
	}
	sort.Strings(out.LeaderSeen)
	sort.Strings(out.Keys)
	return out
}

func kindByName(n string) *kind {
	for i := range kinds {
		if kinds[i].Name == n {
			return &kinds[i]
		}
	}
	panic(n)
}

func (e *env) node(name string) *hcluster.Node {
	for _, n := range e.cl.Live() {
		if n.Name == name {
			return n
		}
	}
	return nil
}

func (e *env) record(o obs) {
	if o.Skip {
		return
	}
	if os.Getenv("VERIF_C20_DEBUG") != "" {
		fmt.Fprintf(os.Stderr, "OBS %s\n", canonJSON(o))
	}
	e.out.Evals++
	key := fmt.Sprintf("%s|%s|%s|at-leader=%v|redirect=%v|%s|node-store=%v|leader-store=%v|cut=%v", o.Phase, o.Kind, o.Expect, o.Node == o.Leader, o.Redirect, o.Pres, o.NodeAuth, o.LeadAuth, o.Cut)
	for _, ob := range o.Observed {
		e.cnt("observation:"+ob, 1)
	}
	switch {
	case len(o.Problems) > 0:
		e.out.Bad = append(e.out.Bad, o)
		e.out.Keys = append(e.out.Keys, key)
	case o.Inconcl != "":
		e.out.Bad = append(e.out.Bad, o)
	default:
		e.out.Held++
		e.out.Keys = append(e.out.Keys, key)
		if len(e.out.Samples) < 4 && o.Expect == "served-forwarded" && o.Idx%7 == 0 {
			if len(o.Body) > 300 {
				o.Body = o.Body[:300] + "…"
			}
			e.out.Samples = append(e.out.Samples, o)
		}
	}
}

// stalePoolError recognises the transport errors a write to, or read from, a
// connection closed by the remote end produces.
func stalePoolError(body string) bool {
	if !strings.Contains(body, "protobuf") {
		return false
	}
	for _, m := range []string{"broken pipe", "connection reset by peer", "use of closed network connection", "EOF"} {
		if strings.Contains(body, m) {
			return true
		}
	}
	return false
}

func hdr(p pres) map[string]string {
	if p.User == "" {
		return nil
	}
	return map[string]string{"@basic": p.User + ":" + p.Pass}
}

func withParam(path, p string) string {
	if strings.Contains(path, "?") {
		return path + "&" + p
	}
	return path + "?" + p
}

// doRequest sends one request and judges it against the property.
func (e *env) doRequest(idx int, phase string, jb job, cut bool) (o obs) {
	cl := e.cl
	k := jb.k
	ld := cl.WaitLeader(90 * time.Second)
	n := e.node(jb.node)
	o = obs{Idx: idx, Phase: phase, Kind: k.Name, Node: jb.node, Redirect: jb.redirect, Pres: jb.pr.Name}
	if ld == nil || n == nil {
		o.Inconcl = "no leader"
		return
	}
	e.leaders[ld.Name] = true
	o.Leader = ld.Name
	o.NodeAuth, o.LeadAuth = e.cd.hasStore(n.Name), e.cd.hasStore(ld.Name)
	atLeader := n == ld

	// expectation (property text): the contacted node's own endpoint check, then either
	// a redirect or one execution on the leader decided by the caller's credentials
	// against the leader's store
	ok := allowed(k.Perms, jb.pr)
	switch {
	case o.NodeAuth && !ok:
		o.Expect = "http-401"
	case atLeader:
		o.Expect = "served-local"
	case jb.redirect:
		o.Expect = "redirect-301"
	case o.LeadAuth && !ok:
		o.Expect = "remote-401"
	default:
		o.Expect = "served-forwarded"
	}
	if k.FollowerOnly && atLeader {
		o.Skip = true
		return
	}
	if k.Name == "execute-queued" && e.stuckQ[n.Name] {
		// this node's write queue is blocked by an earlier batch the leader refuses
		o.Skip = true
		e.cnt("skipped:queue-blocked-by-refused-batch", 1)
		return
	}

	e.cnt("requests", 1)
	e.cnt("expected:"+o.Expect, 1)

	// request
	path := k.Path
	if jb.redirect {
		path = withParam(path, "redirect")
	}
	var body []byte
	h := hdr(jb.pr)
	if h == nil {
		h = map[string]string{}
	}
	var stepTarget *hcluster.Node
	switch k.Name {
	case "execute", "execute-queued":
		o.Token = e.newTok(k.Name, n.Name, cut)
		body, _ = json.Marshal([]any{[]any{"INSERT INTO oplog(tok) VALUES(?)", o.Token}})
	case "request-rw":
		o.Token = e.newTok(k.Name, n.Name, cut)
		body, _ = json.Marshal([]any{[]any{"INSERT INTO oplog(tok) VALUES(?)", o.Token}, "SELECT COUNT(*) FROM oplog"})
	case "request-ro-strong", "request-ro-linearizable", "request-ro-weak":
		body, _ = json.Marshal([]any{"SELECT COUNT(*), MAX(tok) FROM oplog"})
	case "load-sql":
		o.Token = e.newTok(k.Name, n.Name, cut)
		body = []byte("INSERT INTO oplog(tok) VALUES('" + o.Token + "');\n")
		h["Content-Type"] = "text/plain"
	case "load-bin":
		o.Token = e.newTok(k.Name, n.Name, cut)
		var err error
		if body, err = e.loadFile(ld, o.Token); err != nil {
			o.Inconcl = "cannot build load file: " + err.Error()
			return
		}
		h["Content-Type"] = "application/octet-stream"
	case "remove":
		e.ghostN++
		body = []byte(fmt.Sprintf(`{"id":"ghost-%d"}`, e.ghostN))
	case "stepdown", "stepdown-nowait":
		// target: a follower other than the contacted node
		names := []string{"n1", "n2", "n3"}
		for i, nm := range names {
			if nm == ld.Name {
				stepTarget = e.node(names[(i+1)%3])
				if stepTarget == n {
					stepTarget = e.node(names[(i+2)%3])
				}
			}
		}
		body = []byte(fmt.Sprintf(`{"id":%q}`, stepTarget.ID))
	case "stepdown-self":
		stepTarget = n
		body = []byte(fmt.Sprintf(`{"id":%q}`, stepTarget.ID))
	}

	// reference answer of the leader for reads
	var refBody string
	served := o.Expect == "served-local" || o.Expect == "served-forwarded"
	if k.Read && o.Expect == "served-forwarded" {
		switch k.Name {
		case "backup-bin":
			refBody = e.leaderBinaryBackupHash(ld, idx)
		default:
			rh := map[string]string{}
			if o.LeadAuth {
				rh = hdr(presentations[1])
			}
			r := cl.Do(ld, k.Method, k.Path, body, rh)
			if r.Err != nil || r.Status != 200 {
				o.Inconcl = fmt.Sprintf("reference request to the leader failed: %v %d", r.Err, r.Status)
				return
			}
			if k.Name == "backup-sql" {
				refBody = string(r.Body)
			} else {
				refBody, _ = normBody(r.Body)
			}
		}
	}

	if e.lastLeader != ld.Name {
		// a new leader commits an entry of its own term shortly after taking over; a
		// barrier makes sure that is behind us before the commit index is read
		if err := ld.Store.Barrier(); err != nil {
			o.Inconcl = "barrier on new leader: " + err.Error()
			return
		}
		e.lastLeader = ld.Name
	}
	if !cl.WaitConverged(30 * time.Second) {
		o.Inconcl = "followers did not catch up before the request"
		return
	}
	term0 := raftTerm(ld)
	ci0, err := ld.Store.CommitIndex()
	rows0, maxRowid0 := oplogCount(ld)
	if err != nil || rows0 < 0 {
		o.Inconcl = "cannot read leader state"
		return
	}
	cmd0, loads0 := submitted(), storeStat("num_loads")
	mark := e.rec.mark()
	evs0 := len(cl.Net.Events())
	if cut {
		cl.Net.CutNextAfter(n.Name, ld.Name, "cluster", 0)
		e.cnt("probes:armed", 1)
	}
	if body == nil && k.Method != "GET" {
		body = []byte{}
	}
	r := cl.Do(n, k.Method, path, body, h)
	for try := 0; try < 3 && k.Read && !cut && r.Err == nil && r.Status == 500; try++ {
		// reads are repeatable: a failing backup (snapshot in progress, ...) is retried
		e.cnt("read-retried-after-500", 1)
		time.Sleep(300 * time.Millisecond)
		r = cl.Do(n, k.Method, path, body, h)
	}
	// Inter-node calls other than execute/query/request/load are made once, on a
	// pooled connection, without the client's retry: when the leader has closed
	// that connection (30 s idle limit of its inter-node service) the follower
	// answers 500 with the transport error. That is outside this property (it
	// speaks about writes, strong reads and unified requests); the pool has dropped
	// the dead connection, so the request is sent once more and that answer judged.
	for try := 0; try < 10 && !cut && o.Token == "" && r.Err == nil && r.Status == 500 && stalePoolError(string(r.Body)); try++ {
		e.cnt("resent-after-stale-pooled-connection", 1)
		r = cl.Do(n, k.Method, path, body, h)
	}
	if cut {
		for _, ev := range cl.Net.Events()[evs0:] {
			if ev.Kind == "cut" && ev.Src == n.Name && ev.Dst == ld.Name {
				o.Cut = true
			}
		}
		if !o.Cut {
			// the armed cut was not consumed by this request: disarm by consuming it
			cl.Net.CutNextAfter(n.Name, ld.Name, "cluster", 1<<40)
		} else {
			e.cnt("probes:connection-cut-after-request-written", 1)
		}
	}
	o.Status = r.Status
	if r.Err != nil {
		o.Inconcl = "transport error: " + r.Err.Error()
		return
	}
	o.ServedBy = r.Header.Get("X-Rqlite-Served-By")
	o.Location = r.Header.Get("Location")
	o.Body = string(r.Body)
	if len(o.Body) > 600 && !strings.HasPrefix(k.Name, "backup") {
		o.Body = o.Body[:600] + "…"
	}
	if strings.HasPrefix(k.Name, "backup") && r.Status == 200 {
		o.Body = fmt.Sprintf("(%d bytes)", len(r.Body))
	}

	// leadership after the request
	var ldAfter *hcluster.Node
	for _, c := range e.rec.since(mark) {
		if c.Node == ld.Name && c.Surface == "cluster" {
			o.LeaderAA = append(o.LeaderAA, c)
		}
	}
	isStep := strings.HasPrefix(k.Name, "stepdown")
	if isStep && r.Status == 200 && stepTarget != nil && (atLeader || len(o.LeaderAA) > 0) {
		// give the transfer time to complete (it is asynchronous without ?wait)
		for t0 := time.Now(); time.Since(t0) < 8*time.Second && cl.Leader() != stepTarget; {
			time.Sleep(20 * time.Millisecond)
		}
	}
	ldAfter = cl.WaitLeader(90 * time.Second)
	if ldAfter == nil {
		o.Inconcl = "no leader after the request"
		return
	}
	e.leaders[ldAfter.Name] = true
	if !isStep && (ldAfter != ld || raftTerm(ld) != term0 || term0 == 0) {
		o.Inconcl = "leadership or term changed during a request that does not move leadership (election caused by machine load)"
		if o.Token != "" {
			e.tokens[o.Token].Outcome = "unknown"
		}
		return
	}
	ci1, _ := ld.Store.CommitIndex()
	o.Delta = int64(ci1) - int64(ci0)
	o.Cmds, o.Loads = submitted()-cmd0, storeStat("num_loads")-loads0
	if o.Token != "" {
		o.Applied = tokRows(ld, o.Token)
	}
	bad := func(key, f string, a ...any) {
		o.Problems = append(o.Problems, problem{key, fmt.Sprintf(f, a...)})
	}
	K := k.Name

	// ---- lost-response probe: at most once is all the client may rely on; exactly
	// once is what the property states for an acknowledged request ----
	if o.Cut {
		// The follower gave up on the first connection at once and sent the request
		// again while the leader may still be working on the first copy: wait until the
		// leader has finished every copy it received.
		for t0 := time.Now(); time.Since(t0) < 15*time.Second; time.Sleep(20 * time.Millisecond) {
			o.LeaderAA = nil
			okCalls := 0
			for _, c := range e.rec.since(mark) {
				if c.Node == ld.Name && c.Surface == "cluster" {
					o.LeaderAA = append(o.LeaderAA, c)
					if c.OK {
						okCalls++
					}
				}
			}
			copies := okCalls / len(k.Perms)
			ci1, _ = ld.Store.CommitIndex()
			o.Delta = int64(ci1) - int64(ci0)
			o.Cmds, o.Loads = submitted()-cmd0, storeStat("num_loads")-loads0
			if o.Token != "" {
				o.Applied = tokRows(ld, o.Token)
				if o.Applied >= copies && time.Since(t0) > 300*time.Millisecond {
					break
				}
			} else if o.Cmds >= int64(copies*k.MinCmds) && o.Delta >= o.Cmds && time.Since(t0) > 300*time.Millisecond {
				break
			}
		}
		if o.Token != "" {
			info := e.tokens[o.Token]
			info.Outcome = "unknown"
			if r.Status == 200 && !strings.Contains(o.Body, `"error"`) {
				info.Outcome = "ack"
			}
			if o.Applied > 1 {
				retries := int64(-1)
				if m, ok := expvar.Get("cluster").(*expvar.Map); ok {
					if v, ok := m.Get("num_client_retries").(*expvar.Int); ok {
						retries = v.Value()
					}
				}
				bad("forward-resend-after-lost-response:write-applied-twice", "%s sent to follower %s, forwarded to leader %s; the follower's connection was cut after the request had been written: the inter-node client sent the request again on a new connection and the leader applied it %d times (status %d, inter-node client retries so far %d)", K, n.Name, ld.Name, o.Applied, r.Status, retries)
			}
		} else if o.Cmds > int64(k.MaxCmds) {
			bad("forward-resend-after-lost-response:strong-read-executed-twice", "%s sent to follower %s: after the connection was cut behind the written request the leader put the read through its log %d times (commit index +%d)", K, n.Name, o.Cmds, o.Delta)
		}
		for _, c := range o.LeaderAA {
			if c.User != jb.pr.User || c.Pass != jb.pr.Pass {
				bad("forward:"+K+":credentials-not-carried", "leader checked %q/%q for %s, caller presented %q", c.User, c.Pass, c.Perm, jb.pr.Name)
			}
		}
		return
	}

	// A queued write whose wait timed out: unless the leader is seen refusing it, give
	// it time -- on a loaded machine the flush can simply be late.
	if K == "execute-queued" && r.Status == 408 {
		refused := false
		for _, c := range o.LeaderAA {
			if !c.OK && !atLeader {
				refused = true
			}
		}
		if !refused {
			for t0 := time.Now(); time.Since(t0) < 30*time.Second && o.Applied == 0; time.Sleep(100 * time.Millisecond) {
				o.Applied = tokRows(ld, o.Token)
				for _, c := range e.rec.since(mark) {
					if c.Node == ld.Name && c.Surface == "cluster" && !c.OK && !atLeader {
						refused = true
					}
				}
				if refused {
					break
				}
			}
			if !refused {
				o.Inconcl = fmt.Sprintf("queued write: wait timed out (408) without the leader refusing it; token rows on leader afterwards: %d", o.Applied)
				return
			}
		}
	}

	// ---- whose credentials the leader's inter-node service was asked about ----
	dropped := false
	if atLeader && K == "execute-queued" {
		// whatever the leader's inter-node service is asked meanwhile comes from other
		// nodes' queues retrying refused batches
		o.LeaderAA = nil
	}
	for _, c := range o.LeaderAA {
		if c.User != jb.pr.User || c.Pass != jb.pr.Pass {
			dropped = true
			bad("forward:"+K+":credentials-not-carried", "the leader's inter-node check was asked about user %q (password %q) for %s while the caller presented %s; status %d %q, token rows on leader %d", c.User, c.Pass, c.Perm, jb.pr.Name, r.Status, strings.TrimSpace(clip(o.Body, 120)), o.Applied)
			break
		}
	}

	if K == "stepdown-nowait" && !atLeader && r.Status == 200 && len(o.LeaderAA) == 0 {
		bad("forward:stepdown-nowait:handled-locally", "POST /leader (no ?wait) sent to follower %s (expected %s): 200 with X-RQLITE-SERVED-BY %q, the request never reached the leader %s and leadership did not move", n.Name, o.Expect, o.ServedBy, ld.Name)
		if ldAfter != ld {
			bad("forward:stepdown-nowait:moved-leadership", "leader %s -> %s", ld.Name, ldAfter.Name)
		}
		return
	}

	// ---- status ----
	wantStatus := map[string]int{"http-401": 401, "remote-401": 401, "redirect-301": 301, "served-local": 200, "served-forwarded": 200}[o.Expect]
	statusOK := r.Status == wantStatus
	if K == "execute-queued" && !atLeader && r.Status == 408 {
		// the batch was not applied within the wait: the node's queue keeps retrying it
		e.stuckQ[n.Name] = true
		if o.Expect == "remote-401" {
			statusOK = true // a queued write has no synchronous refusal to pass on
		}
	}
	if !statusOK {
		switch {
		case served && r.Status == 401 && K == "load-sql" && !atLeader && spec(jb.pr.User, jb.pr.Pass, "load") && !spec(jb.pr.User, jb.pr.Pass, "execute"):
			bad("forward:load-sql:leader-demands-execute", "POST /db/load (SQL text) by %q, who holds load but not execute, sent to follower %s: 401 %q; the leader itself accepts the same request", jb.pr.Name, n.Name, strings.TrimSpace(o.Body))
		case served && K == "execute-queued" && !atLeader && dropped:
			// already named by credentials-not-carried
		case served && K == "execute-queued" && !atLeader:
			bad("forward:execute-queued:not-applied", "queued write by %q sent to follower %s: status %d %q, token rows on leader %d", jb.pr.Name, n.Name, r.Status, strings.TrimSpace(o.Body), o.Applied)
		case K == "stepdown-self" && r.Status == 500 && strings.Contains(o.Body, "to itself"):
			bad("forward:stepdown-self:handled-locally", "POST /leader?wait=true {\"id\":%q} sent to follower %s itself (expected %s): 500 %q, the request never reached the leader %s (sent to the leader the same request moves leadership to %s)", stepTarget.ID, n.Name, o.Expect, strings.TrimSpace(o.Body), ld.Name, n.Name)
			return
		case r.Status == 503 || r.Status == 500 && strings.Contains(o.Body, "leader"):
			o.Inconcl = fmt.Sprintf("status %d %q", r.Status, strings.TrimSpace(o.Body))
			return
		case o.Expect == "redirect-301" && K == "execute-queued" && (r.Status == 200 || r.Status == 408):
			bad("redirect:execute-queued:ignored", "queued write with ?redirect sent to follower %s was accepted (200 %q) instead of being redirected to the leader", n.Name, strings.TrimSpace(o.Body))
			if o.Token != "" && r.Status == 200 {
				e.tokens[o.Token].Outcome = "ack"
			}
			return
		default:
			bad(fmt.Sprintf("%s:%s:status-%d", o.Expect, K, r.Status), "expected %d, got %d %q", wantStatus, r.Status, strings.TrimSpace(o.Body))
		}
	}
	switch o.Expect {
	case "served-forwarded", "remote-401":
		if len(o.LeaderAA) == 0 && statusOK {
			bad("forward:"+K+":leader-never-asked", "status %d but the leader's inter-node service received no request", r.Status)
		}
	default:
		if len(o.LeaderAA) > 0 && K != "execute-queued" {
			bad(o.Expect+":"+K+":forwarded-anyway", "leader's inter-node service was asked %v", o.LeaderAA)
		}
	}

	// ---- effects ----
	if !served || !statusOK {
		if o.Token != "" {
			if o.Applied != 0 {
				bad(o.Expect+":"+K+":executed", "token applied %d times on the leader although the request was answered %d", o.Applied, r.Status)
			}
			if r.Status == 401 || r.Status == 301 {
				e.tokens[o.Token].Outcome = "refused"
			}
		}
		if !served && (o.Cmds != 0 || o.Loads != 0) {
			bad(o.Expect+":"+K+":executed-on-leader", "the leader's Store built %d raft command(s) and performed %d load(s) for a request answered %d", o.Cmds, o.Loads, r.Status)
		} else if !served && o.Delta != 0 && !isStep {
			// The log grew although no command was submitted. For a request whose effect is
			// not a command (remove) send it once more: an effect repeats, an entry raft
			// appended on its own does not.
			again := int64(0)
			if K == "remove" {
				c0, _ := ld.Store.CommitIndex()
				cl.Do(n, k.Method, path, body, h)
				c1, _ := ld.Store.CommitIndex()
				again = int64(c1) - int64(c0)
			}
			if again != 0 {
				bad(o.Expect+":"+K+":log-grew", "leader commit index grew by %d, and by %d again when the refused request was repeated", o.Delta, again)
			} else {
				o.Observed = append(o.Observed, "raft-entry-not-caused-by-the-request")
			}
		}
		if isStep && !served && ldAfter != ld {
			bad(o.Expect+":"+K+":executed", "leadership moved %s -> %s", ld.Name, ldAfter.Name)
		}
		if o.Expect == "redirect-301" && statusOK {
			want := "http://" + ld.APIAddr + path
			if o.Location != want {
				bad("redirect-301:"+K+":location", "Location %q, want %q", o.Location, want)
			}
		}
		return
	}

	// served
	if o.ServedBy == "" {
		// not stated by the property; rqlite sends no such header for backups (set after
		// the body was written) and queued writes
		o.Observed = append(o.Observed, "served-by-header-absent:"+K)
	} else if o.ServedBy != ld.APIAddr && o.ServedBy != "http://"+ld.APIAddr && o.ServedBy != ld.RaftAddr {
		bad(o.Expect+":"+K+":served-by", "X-RQLITE-SERVED-BY %q names neither address of the leader (%s, %s)", o.ServedBy, ld.APIAddr, ld.RaftAddr)
	}
	if o.Cmds < int64(k.MinCmds) || o.Cmds > int64(k.MaxCmds) || o.Loads != int64(k.Loads) {
		bad(o.Expect+":"+K+":executions", "the leader's Store built %d raft command(s) and performed %d load(s) for this request, expected %d..%d and %d", o.Cmds, o.Loads, k.MinCmds, k.MaxCmds, k.Loads)
	}
	if o.Delta > int64(k.MaxDelta) && o.Delta-int64(k.MaxDelta) <= 2 && K != "remove" {
		// more log entries than commands: raft appended one on its own
		o.Observed = append(o.Observed, "raft-entry-not-caused-by-the-request")
	} else if o.Delta < int64(k.MinDelta) || o.Delta > int64(k.MaxDelta) {
		bad(o.Expect+":"+K+":log-entries", "leader commit index grew by %d, expected %d..%d", o.Delta, k.MinDelta, k.MaxDelta)
	}
	nb, m := normBody(r.Body)
	if k.Write {
		info := e.tokens[o.Token]
		info.Outcome = "ack"
		if o.Applied != 1 {
			bad(o.Expect+":"+K+":applied-count", "acknowledged write is on the leader %d times", o.Applied)
		}
		// result compared with what the leader computes for this request on this state
		res, _ := m["results"].([]any)
		num := func(v any) int64 {
			if jn, ok := v.(json.Number); ok {
				x, _ := jn.Int64()
				return x
			}
			return -1
		}
		switch K {
		case "execute", "load-sql", "request-rw":
			want := 1
			if K == "request-rw" {
				want = 2
			}
			if m == nil || len(res) != want {
				bad(o.Expect+":"+K+":result", "body %s", o.Body)
				break
			}
			r0, _ := res[0].(map[string]any)
			if num(r0["rows_affected"]) != 1 || num(r0["last_insert_id"]) != maxRowid0+1 || r0["error"] != nil {
				bad(o.Expect+":"+K+":result", "result %s differs from the leader's result for this write (last_insert_id %d, rows_affected 1)", canonJSON(r0), maxRowid0+1)
			}
			if K == "request-rw" {
				r1, _ := res[1].(map[string]any)
				vals, _ := r1["values"].([]any)
				if len(vals) != 1 || num(vals[0].([]any)[0]) != rows0+1 {
					bad(o.Expect+":"+K+":result", "read part %s, expected count %d", canonJSON(r1), rows0+1)
				}
			}
			if strings.Contains(k.Path, "raft_index") && m != nil {
				var full map[string]any
				d := json.NewDecoder(bytes.NewReader(r.Body))
				d.UseNumber()
				d.Decode(&full)
				if ri := num(full["raft_index"]); ri <= int64(ci0) || ri > int64(ci1) {
					bad(o.Expect+":"+K+":raft-index", "raft_index %v in the response, the leader committed the entry in (%d, %d]", full["raft_index"], ci0, ci1)
				}
			}
		case "execute-queued":
			if m == nil || m["error"] != nil {
				bad(o.Expect+":"+K+":result", "body %s", o.Body)
			}
		case "load-bin":
			if rows, _ := oplogCount(ld); rows != rows0+1 {
				bad(o.Expect+":"+K+":result", "oplog has %d rows after the load, expected %d", rows, rows0+1)
			}
		}
	}
	if k.Read {
		var got string
		switch K {
		case "backup-bin":
			p := filepath.Join(e.dir, fmt.Sprintf("bk-%d.sqlite", idx))
			os.WriteFile(p, r.Body, 0644)
			d, err := sqlref.DumpFile(p)
			os.Remove(p)
			if err != nil {
				bad(o.Expect+":"+K+":result", "backup is not a readable SQLite file: %v", err)
			} else if o.Expect == "served-forwarded" {
				// compare logical content with the leader's own answers: its binary backup
				// taken just before / after, or its current logical content
				match := d.Hash() == refBody
				for _, rh := range []string{e.leaderBinaryBackupHash(ld, idx), e.leaderLogicalHash(ld, idx)} {
					if rh == d.Hash() {
						match = true
					}
				}
				if !match {
					bad(o.Expect+":"+K+":result", "backup through the follower (%d rows) matches none of the leader's own answers", d.Rows())
				}
			}
		case "backup-sql":
			got = string(r.Body)
		default:
			got = nb
		}
		if o.Expect == "served-forwarded" && K != "backup-bin" && got != refBody {
			bad(o.Expect+":"+K+":result", "answer through the follower %s differs from the leader's own answer %s", clip(got, 300), clip(refBody, 300))
		}
		if strings.Contains(k.Path, "raft_index") && K == "query-strong" {
			var full map[string]any
			d := json.NewDecoder(bytes.NewReader(r.Body))
			d.UseNumber()
			d.Decode(&full)
			jn, _ := full["raft_index"].(json.Number)
			if ri, err := jn.Int64(); err != nil || ri <= int64(ci0) || ri > int64(ci1) {
				bad(o.Expect+":"+K+":raft-index", "raft_index %v in the response, the leader committed the read in (%d, %d]", full["raft_index"], ci0, ci1)
			}
		}
	}
	if isStep {
		if ldAfter != stepTarget {
			bad(o.Expect+":"+K+":not-executed", "200 but the leader is %s, requested %s", ldAfter.Name, stepTarget.Name)
		}
	}
	return
}

// leaderBinaryBackupHash: logical content of the leader's own binary backup now.
func (e *env) leaderBinaryBackupHash(ld *hcluster.Node, idx int) string {
	var buf bytes.Buffer
	if err := ld.Store.Backup(context.Background(), &cproto.BackupRequest{Format: cproto.BackupRequest_BACKUP_REQUEST_FORMAT_BINARY}, &buf); err != nil {
		return "error:" + err.Error()
	}
	p := filepath.Join(e.dir, fmt.Sprintf("bkref-%d.sqlite", idx))
	defer os.Remove(p)
	os.WriteFile(p, buf.Bytes(), 0644)
	d, err := sqlref.DumpFile(p)
	if err != nil {
		return "error:" + err.Error()
	}
	return d.Hash()
}

// leaderLogicalHash: logical content of the leader's live database, via its SQL dump.
func (e *env) leaderLogicalHash(ld *hcluster.Node, idx int) string {
	var buf bytes.Buffer
	if err := ld.Store.Backup(context.Background(), &cproto.BackupRequest{Format: cproto.BackupRequest_BACKUP_REQUEST_FORMAT_SQL}, &buf); err != nil {
		return "error:" + err.Error()
	}
	p := filepath.Join(e.dir, fmt.Sprintf("bklog-%d.sqlite", idx))
	defer os.Remove(p)
	os.Remove(p)
	db, err := sqlref.Open(p)
	if err != nil {
		return "error:" + err.Error()
	}
	db.SetMaxOpenConns(1)
	_, err = db.Exec(buf.String())
	db.Close()
	if err != nil {
		return "error:" + err.Error()
	}
	d, err := sqlref.DumpFile(p)
	if err != nil {
		return "error:" + err.Error()
	}
	return d.Hash()
}

func clip(s string, n int) string {
	if len(s) > n {
		return s[:n] + "…"
	}
	return s
}

// concurrentPhase: one client per node writes unique tokens while leadership is
// moved underneath; only classification ack / definite-fail / unknown is taken
// from the responses, the verdict comes from the final oplog.
func (e *env) concurrentPhase(rnd interface{ IntN(int) int }, tier string) {
	cl := e.cl
	per := 12
	moves := 2
	if tier == "thorough" {
		per, moves = 30, 4
	}
	if cl.WaitLeader(90*time.Second) == nil {
		return
	}
	var wg sync.WaitGroup
	var mu sync.Mutex
	stop := make(chan struct{})
	for _, nm := range []string{"n1", "n2", "n3"} {
		wg.Add(1)
		go func(nm string) {
			defer wg.Done()
			for i := 0; i < per; i++ {
				n := e.node(nm)
				mu.Lock()
				tok := e.newTok("concurrent", nm, false)
				mu.Unlock()
				jb, _ := json.Marshal([]any{[]any{"INSERT INTO oplog(tok) VALUES(?)", tok}})
				r := cl.Do(n, "POST", "/db/execute", jb, hdr(presentations[1]))
				out := "unknown"
				if r.Err == nil {
					a, err := r.Parse()
					switch {
					case r.Status == 200 && err == nil && a.Error == "" && len(a.Results) == 1 && a.Results[0].Error == "":
						out = "ack"
					case r.Status == 503 && strings.Contains(string(r.Body), "leader not found"):
						out = "refused"
					}
				}
				mu.Lock()
				e.tokens[tok].Outcome = out
				e.cnt("concurrent:"+out, 1)
				mu.Unlock()
				time.Sleep(time.Duration(20+i%5*10) * time.Millisecond)
			}
		}(nm)
	}
	go func() {
		for i := 0; i < moves; i++ {
			select {
			case <-stop:
				return
			case <-time.After(time.Duration(150+rnd.IntN(200)) * time.Millisecond):
			}
			if ld := cl.Leader(); ld != nil {
				if err := ld.Store.Stepdown(true, ""); err == nil {
					mu.Lock()
					e.cnt("concurrent:leadership-moves", 1)
					mu.Unlock()
				}
			}
		}
	}()
	wg.Wait()
	close(stop)
}

// final: at quiescence every node has the same database, every acknowledged token
// exactly once, every refused token never, every other token at most once.
func (e *env) final() {
	cl := e.cl
	cl.Net.HealAll()
	addP := func(key, f string, a ...any) {
		e.out.Final = append(e.out.Final, problem{key, fmt.Sprintf(f, a...)})
	}
	ld := cl.WaitLeader(90 * time.Second)
	if ld == nil || !cl.WaitConverged(60*time.Second) {
		e.out.FinalNote = "no quiescent state reached at the end (final comparison skipped)"
		return
	}
	e.leaders[ld.Name] = true
	// every node: same dump
	var ref string
	deadline := time.Now().Add(30 * time.Second)
	for {
		same := true
		ref, _ = dumpHash(ld)
		for _, n := range cl.Live() {
			if h, _ := dumpHash(n); h != ref {
				same = false
			}
		}
		if same {
			break
		}
		if time.Now().After(deadline) {
			var parts []string
			for _, n := range cl.Live() {
				h, _ := dumpHash(n)
				rows, _ := oplogCount(n)
				parts = append(parts, fmt.Sprintf("%s:%s(%d oplog rows)", n.Name, h, rows))
			}
			addP("final:dumps-differ", "nodes disagree at quiescence: %s", strings.Join(parts, " "))
			break
		}
		time.Sleep(50 * time.Millisecond)
	}
	// token accounting on every node
	for _, n := range cl.Live() {
		rows, _, _, err := n.Store.Query(context.Background(), &cproto.QueryRequest{Request: &cproto.Request{Statements: []*cproto.Statement{{Sql: "SELECT tok, COUNT(*) FROM oplog GROUP BY tok"}}}, Level: cproto.ConsistencyLevel_NONE})
		if err != nil || len(rows) != 1 {
			e.out.FinalNote = "cannot read oplog of " + n.Name
			return
		}
		have := map[string]int64{}
		for _, v := range rows[0].Values {
			have[v.Parameters[0].GetS()] = v.Parameters[1].GetI()
		}
		for _, t := range e.order {
			info := e.tokens[t]
			c := have[t]
			switch {
			case info.Probe:
				// judged when it was sent
			case info.Outcome == "ack" && c != 1:
				addP("final:"+info.Kind+":acknowledged-applied-"+fmt.Sprint(c), "token %s (sent to %s) was acknowledged and is on %s %d times", t, info.Node, n.Name, c)
			case info.Outcome == "refused" && c != 0:
				addP("final:"+info.Kind+":refused-but-applied", "token %s (sent to %s) was refused and is on %s %d times", t, info.Node, n.Name, c)
			case c > 1:
				addP("final:"+info.Kind+":applied-"+fmt.Sprint(c), "token %s (sent to %s, outcome unknown) is on %s %d times", t, info.Node, n.Name, c)
			}
		}
		e.cnt("final:tokens-checked", int64(len(e.order)))
	}
}
