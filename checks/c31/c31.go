// Package c31: shutdown waits for the snapshot gate only as long as needed
// (DESIGN §6 C31).
package c31

import (
	"context"
	"encoding/json"
	"fmt"
	"os"
	"path/filepath"
	"strings"
	"sync"
	"time"

	"github.com/rqlite/rqlite/v10/command/proto"
	"github.com/rqlite/rqlite/v10/vexport"
	"verif/internal/hcluster"
	"verif/internal/vf"
)

func init() {
	vf.Register("C31", "exploration", run)
	vf.RegisterWorker("c31", worker)
}

type placement struct {
	Holder    string `json:"holder"`      // backup | snapshot | none
	HoldMs    int    `json:"hold_ms"`     // how long the holder keeps the gate
	CloseAtMs int    `json:"close_at_ms"` // when Close is called, relative to the holder acquiring the gate
	Rep       int    `json:"rep"`
}

type outcome struct {
	P                        placement `json:"placement"`
	SetupErr                 string    `json:"setup_err,omitempty"`
	CloseErr                 string    `json:"close_err,omitempty"`
	CloseMs                  float64   `json:"close_ms"`         // duration of the Close call
	AfterRelease             float64   `json:"after_release_ms"` // Close return minus holder release (can be negative)
	HolderErr                string    `json:"holder_err,omitempty"`
	SecondClose              bool      `json:"second_close_called"`
	SecondCloseMs            float64   `json:"second_close_ms"`
	SecondCloseErr           string    `json:"second_close_err,omitempty"`
	SecondCloseBeforeRelease bool      `json:"second_close_returned_before_holder_released"`
	HolderBytes              int64     `json:"holder_bytes"`
	GateHeldAtClose          bool      `json:"gate_held_at_close"`
}

// blockingWriter blocks in its first Write until released.
type blockingWriter struct {
	first   sync.Once
	entered chan struct{}
	release chan struct{}
	n       int64
}

func (w *blockingWriter) Write(p []byte) (int, error) {
	w.first.Do(func() {
		close(w.entered)
		<-w.release
	})
	w.n += int64(len(p))
	return len(p), nil
}

func run(c *vf.Ctx) {
	c.Rule("placement = (gate holder kind, hold duration D, offset of the Close call inside D, repetition) on a real single-node Store in its own process; holder 'backup' = binary Backup into a writer that blocks for D (holds the gate legitimately), 'snapshot' = user snapshot slowed by a hook sleep inside the gated section, 'none' = nobody, 'startup-check' / 'startup-check-legacy' = the integrity check of a node restarted on a fingerprinted database file (fingerprint with and without checksum). Measured: duration of Store.Close and the lag L between holder release and Close returning; after a Close that gave up at the wait limit a second Close is called at once and must not return nil before the holder has released the gate. non-trivial = the gate was observed held when Close was called; distinct by (holder, D, offset)")
	c.Assume("bounded-progress restatement with wide margins: L <= 1.5 s is prompt, L >= 5 s is late, in between inconclusive; when the holder keeps the gate for >= 12 s after the Close call, Close must fail between 8 s and 13.5 s after the call (9-12 s: inconclusive); wall-clock used only with these margins")
	holds := []int{0, 20, 200, 1000, 3000, 7000, 15000}
	if !c.Quick() {
		holds = append(holds, 5500, 9000, 12000)
	}
	var ps []placement
	reps := c.N(1, 3)
	for rep := 0; rep < reps; rep++ {
		ps = append(ps, placement{Holder: "none", Rep: rep})
		for _, o := range []int{0, 50} {
			ps = append(ps, placement{Holder: "startup-check", CloseAtMs: o, Rep: rep}, placement{Holder: "startup-check-legacy", CloseAtMs: o, Rep: rep})
		}
		for _, h := range holds {
			if h == 0 {
				continue
			}
			offs := []int{5}
			if h >= 200 {
				offs = append(offs, h/2)
			}
			for _, o := range offs {
				ps = append(ps, placement{Holder: "backup", HoldMs: h, CloseAtMs: o, Rep: rep})
			}
			if h >= 200 && h <= 7000 {
				ps = append(ps, placement{Holder: "snapshot", HoldMs: h, CloseAtMs: h / 4, Rep: rep})
			}
		}
	}
	tmp := vf.TempDir("c31")
	defer os.RemoveAll(tmp)
	sem := make(chan struct{}, 12)
	var wg sync.WaitGroup
	outs := make([]outcome, len(ps))
	for i, p := range ps {
		wg.Add(1)
		go func(i int, p placement) {
			defer wg.Done()
			sem <- struct{}{}
			defer func() { <-sem }()
			b, _ := json.Marshal(p)
			dir := filepath.Join(tmp, fmt.Sprintf("p%d", i))
			out, code, ok := vf.RunWorkerOnce(false, "c31", []string{string(b), dir}, nil, filepath.Join(tmp, fmt.Sprintf("p%d.log", i)), 90*time.Second)
			os.RemoveAll(dir)
			var o outcome
			if err := json.Unmarshal(out, &o); err != nil || !ok || code != 0 {
				o = outcome{P: p, SetupErr: fmt.Sprintf("worker exit=%d finished=%v out=%q", code, ok, out)}
			}
			outs[i] = o
		}(i, p)
	}
	wg.Wait()
	// late[key] counts placements (over repetitions) with L >= 5 s.
	for _, o := range outs {
		c.Eval(1)
		if o.SetupErr != "" {
			c.Inconclusive("setup: " + o.SetupErr)
			continue
		}
		c.Sample(o)
		key := fmt.Sprintf("%s/%d/%d", o.P.Holder, o.P.HoldMs, o.P.CloseAtMs)
		if o.GateHeldAtClose {
			c.Nontrivial(key)
			c.Count("gate_held_at_close", 1)
		}
		// Only the backup holds the gate for its whole operation. A user snapshot
		// holds it while the FSM snapshot is created; persisting continues after the
		// gate is released and may legitimately be cut short by the shutdown
		// ("raft is already shutdown"), so its result is not judged.
		if o.HolderErr != "" && o.P.Holder == "snapshot" {
			c.Count("snapshot_holder_interrupted_by_shutdown", 1)
			o.HolderErr = ""
		}
		if o.SecondClose {
			c.Count("second_close_after_failed_close", 1)
			if o.SecondCloseErr == "" && o.SecondCloseBeforeRelease {
				c.Violation("second-close-did-not-wait", fmt.Sprintf("a Close that gave up after %.0f ms was followed at once by a second Close, which returned nil after %.0f ms although the %s holder had not released the gate (placement %+v)", o.CloseMs, o.SecondCloseMs, o.P.Holder, o.P), o)
				continue
			}
		}
		if o.HolderErr != "" {
			c.Violation("holder-failed:"+o.P.Holder, fmt.Sprintf("gate holder %s failed while a Close was pending: %s (placement %+v)", o.P.Holder, o.HolderErr, o.P), o)
			continue
		}
		switch {
		case strings.HasPrefix(o.P.Holder, "startup-check"):
			// the database is tiny: the integrity check holds the gate for
			// milliseconds at most, so Close has to get through promptly
			if o.CloseErr != "" {
				c.Violation("close-failed:"+o.P.Holder, fmt.Sprintf("Close %d ms after a restart on a fingerprinted database failed although the start-up integrity check had (at most) milliseconds of work: %s", o.P.CloseAtMs, o.CloseErr), o)
			} else if o.CloseMs >= 5000 {
				c.Violation("close-slow:"+o.P.Holder, fmt.Sprintf("Close after a restart on a fingerprinted database took %.0f ms", o.CloseMs), o)
			} else if o.CloseMs <= 1500 {
				c.Held(1)
			} else {
				c.Inconclusive("startup-check close in the grey band")
			}
		case o.P.Holder == "none":
			if o.CloseErr != "" {
				c.Violation("close-failed:no-holder", "Close failed with nobody holding the gate: "+o.CloseErr, o)
			} else if o.CloseMs >= 5000 {
				c.Violation("close-slow:no-holder", fmt.Sprintf("Close took %.0f ms with nobody holding the gate", o.CloseMs), o)
			} else if o.CloseMs <= 1500 {
				c.Held(1)
			} else {
				c.Inconclusive("no-holder close in the grey band")
			}
		case o.P.HoldMs-o.P.CloseAtMs > 9000 && o.P.HoldMs-o.P.CloseAtMs < 12000:
			// the holder releases about when the limit expires: either outcome is right
			c.Inconclusive("remaining hold within 9-12 s of the close call")
		case o.P.HoldMs-o.P.CloseAtMs >= 12000:
			// holder outlives the limit: Close must give up around 10 s
			if o.CloseErr == "" {
				c.Violation("close-waited-beyond-limit", fmt.Sprintf("holder kept the gate for another %d ms after the Close call but Close returned nil after %.0f ms", o.P.HoldMs-o.P.CloseAtMs, o.CloseMs), o)
			} else if o.CloseMs < 8000 {
				c.Violation("close-gave-up-early", fmt.Sprintf("Close failed after only %.0f ms (limit is about 10 s): %s", o.CloseMs, o.CloseErr), o)
			} else if o.CloseMs > 13500 {
				c.Inconclusive("close failure later than 13.5 s")
			} else {
				c.Held(1)
			}
		default:
			if o.CloseErr != "" {
				c.Violation("close-failed:holder-finished", fmt.Sprintf("holder %s released after %d ms (< limit) but Close failed after %.0f ms: %s", o.P.Holder, o.P.HoldMs, o.CloseMs, o.CloseErr), o)
			} else if !o.GateHeldAtClose {
				c.Inconclusive("gate not held at close")
			} else if o.AfterRelease < -50 {
				c.Violation("close-did-not-wait", fmt.Sprintf("Close returned %.0f ms before the %s holder released the gate", -o.AfterRelease, o.P.Holder), o)
			} else if o.AfterRelease >= 5000 {
				c.Violation("close-wait:late-after-release", fmt.Sprintf("%s holder released the gate after %d ms but Close returned %.0f ms after the release (Close took %.0f ms)", o.P.Holder, o.P.HoldMs, o.AfterRelease, o.CloseMs), o)
			} else if o.AfterRelease <= 1500 {
				c.Held(1)
			} else {
				c.Inconclusive("lag in the grey band 1.5-5 s")
			}
		}
	}
	c.Require(int64(len(ps)*3/4), 3)
}

func worker(args []string) {
	var p placement
	json.Unmarshal([]byte(args[0]), &p)
	o := outcome{P: p}
	defer func() { json.NewEncoder(os.Stdout).Encode(o) }()
	dir := args[1]
	cl := hcluster.New(dir)
	n, err := cl.Add(hcluster.Options{ID: "n1", NoSnapshotOnClose: true}, true)
	if err != nil {
		o.SetupErr = err.Error()
		return
	}
	r := cl.PostJSON(n, "/db/execute", []any{"CREATE TABLE t (id INTEGER PRIMARY KEY, v TEXT)", "INSERT INTO t(v) VALUES(hex(randomblob(20000)))"})
	if r.Err != nil || r.Status != 200 {
		o.SetupErr = fmt.Sprintf("seed write: %v %d", r.Err, r.Status)
		return
	}
	if p.Holder == "startup-check" || p.Holder == "startup-check-legacy" {
		// The gate holder is the integrity check a node runs when it starts on a
		// database file with a valid fast-restart fingerprint. "legacy": the
		// fingerprint carries no checksum (written by an older version), so there
		// is nothing to verify and the gate must be free again at once.
		if err := n.Store.Snapshot(0); err != nil {
			o.SetupErr = "snapshot before restart: " + err.Error()
			return
		}
		opts := n.Opts
		opts.Dir, opts.RaftAddr = n.Dir, n.RaftAddr
		n.Store.NoSnapshotOnClose = true
		if err := n.Close(); err != nil {
			o.SetupErr = "close before restart: " + err.Error()
			return
		}
		fpPath := filepath.Join(n.Dir, "clean_snapshot")
		fb, err := os.ReadFile(fpPath)
		if err != nil {
			o.SetupErr = "no fast-restart fingerprint after snapshot: " + err.Error()
			return
		}
		if p.Holder == "startup-check-legacy" {
			var m map[string]any
			if json.Unmarshal(fb, &m) != nil {
				o.SetupErr = "fingerprint is not JSON"
				return
			}
			delete(m, "crc32")
			nb, _ := json.MarshalIndent(m, "", "  ")
			if err := os.WriteFile(fpPath, nb, 0644); err != nil {
				o.SetupErr = err.Error()
				return
			}
		}
		var nn *hcluster.Node
		for i := 0; i < 50; i++ {
			if nn, err = hcluster.NewNode(cl.Net, opts); err == nil {
				break
			}
			time.Sleep(100 * time.Millisecond)
		}
		if err != nil {
			o.SetupErr = "reopen: " + err.Error()
			return
		}
		if _, err := os.Stat(fpPath); err == nil {
			o.GateHeldAtClose = true // the fast path was taken: the fingerprint survived Open
		}
		time.Sleep(time.Duration(p.CloseAtMs) * time.Millisecond)
		nn.Service.Close()
		t0 := time.Now()
		err = nn.Store.Close(true)
		o.CloseMs = float64(time.Since(t0).Microseconds()) / 1000
		if err != nil {
			o.CloseErr = err.Error()
		}
		return
	}
	hold := time.Duration(p.HoldMs) * time.Millisecond
	var releasedAt time.Time
	holderDone := make(chan struct{})
	acquired := make(chan struct{})
	switch p.Holder {
	case "none":
		close(acquired)
		close(holderDone)
	case "backup":
		w := &blockingWriter{entered: make(chan struct{}), release: make(chan struct{})}
		go func() {
			defer close(holderDone)
			err := n.Store.Backup(context.Background(), &proto.BackupRequest{Format: proto.BackupRequest_BACKUP_REQUEST_FORMAT_BINARY, Leader: true}, w)
			if err != nil {
				o.HolderErr = err.Error()
			}
			o.HolderBytes = w.n
		}()
		go func() {
			<-w.entered
			close(acquired)
			time.Sleep(hold)
			releasedAt = time.Now()
			close(w.release)
		}()
	case "snapshot":
		// one more write so there is something to snapshot
		cl.PostJSON(n, "/db/execute", []any{"INSERT INTO t(v) VALUES('s')"})
		var once sync.Once
		vexport.HookOn("fsmsnapshot.full.after_checkpoint", func() {
			once.Do(func() {
				close(acquired)
				time.Sleep(hold)
				releasedAt = time.Now()
			})
		})
		go func() {
			defer close(holderDone)
			if err := n.Store.Snapshot(0); err != nil {
				o.HolderErr = err.Error()
			}
		}()
	}
	select {
	case <-acquired:
	case <-time.After(20 * time.Second):
		o.SetupErr = "holder never acquired the gate"
		return
	}
	time.Sleep(time.Duration(p.CloseAtMs) * time.Millisecond)
	if p.Holder != "none" {
		select {
		case <-holderDone:
		default:
			o.GateHeldAtClose = releasedAt.IsZero()
		}
	}
	n.Service.Close()
	t0 := time.Now()
	err = n.Store.Close(true)
	t1 := time.Now()
	o.CloseMs = float64(t1.Sub(t0).Microseconds()) / 1000
	if err != nil {
		o.CloseErr = err.Error()
	}
	// A Close that gave up must leave the gate with its holder: a second Close,
	// called at once while the holder is still at work, has to wait for it again.
	if err != nil && p.Holder == "backup" && releasedAt.IsZero() {
		o.SecondClose = true
		t2 := time.Now()
		err2 := n.Store.Close(true)
		o.SecondCloseMs = float64(time.Since(t2).Microseconds()) / 1000
		if err2 != nil {
			o.SecondCloseErr = err2.Error()
		}
		o.SecondCloseBeforeRelease = releasedAt.IsZero()
	}
	if p.Holder != "none" {
		select {
		case <-holderDone:
		case <-time.After(30 * time.Second):
			o.HolderErr = "holder did not finish within 30 s of Close returning"
		}
		if !releasedAt.IsZero() {
			o.AfterRelease = float64(t1.Sub(releasedAt).Microseconds()) / 1000
		}
	}
}
