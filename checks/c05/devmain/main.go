// Dev-only driver linking just C05/C06 (removed before hand-over).
package main

import (
	_ "verif/checks/c05"
	_ "verif/checks/c06"
	"verif/internal/vf"
)

func main() { vf.Main() }
