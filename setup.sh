#!/bin/bash
# setup_cmd: builds everything the checks need from files on disk (offline).
set -eu
cd "$(dirname "$(readlink -f "$0")")"
export GOFLAGS=-mod=mod GOPROXY=off CGO_ENABLED=1 VERIF_ROOT="$PWD"
unset GOTOOLCHAIN GOSUMDB 2>/dev/null || true
mkdir -p bin evidence replays
gcc -shared -fPIC -O2 -o bin/clockshim.so shim/clockshim.c -ldl
go build -tags verif -o bin/vcheck ./cmd/vcheck
(cd /repo && go build -tags verif -o "$VERIF_ROOT/bin/rqlited" ./cmd/rqlited)
go build -race -tags verif -o bin/vcheck-race ./cmd/vcheck
echo setup ok
