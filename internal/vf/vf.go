// Package vf is the shared runtime of the checks: seeded PRNG, evidence
// writer, known-findings matcher, VIOLATION / KNOWN-FINDING printer, worker
// (child process) dispatch.
package vf

import (
	"crypto/sha256"
	"encoding/hex"
	"encoding/json"
	"fmt"
	"math/rand/v2"
	"os"
	"path/filepath"
	"sort"
	"strconv"
	"strings"
	"sync"
	"time"
)

// Root is the /verif directory (overridable for tests).
var Root = func() string {
	if r := os.Getenv("VERIF_ROOT"); r != "" {
		return r
	}
	return "/verif"
}()

// Out is where evidence/ and replays/ are written (Root unless VERIF_OUT set).
var Out = func() string {
	if r := os.Getenv("VERIF_OUT"); r != "" {
		return r
	}
	return Root
}()

// Exit codes.
const (
	ExitOK           = 0
	ExitViolation    = 1
	ExitBuild        = 2
	ExitInconclusive = 3
)

// Check describes one registered check.
type Check struct {
	ID    string
	Level string // evidence level: exploration | fault_enumeration | ...
	Run   func(c *Ctx)
}

var (
	checks  = map[string]*Check{}
	workers = map[string]func(args []string){}
)

// Register registers a check.
func Register(id, level string, run func(c *Ctx)) {
	checks[id] = &Check{ID: id, Level: level, Run: run}
}

// RegisterWorker registers a child-process entry point.
func RegisterWorker(name string, fn func(args []string)) { workers[name] = fn }

// Finding is an entry of known_findings.json.
type Finding struct {
	Property string `json:"property"`
	Key      string `json:"key"`
	Status   string `json:"status"` // known | fixed
	Commit   string `json:"commit,omitempty"`
	What     string `json:"what"`
}

// Ctx is handed to a check's Run function.
type Ctx struct {
	ID    string
	Tier  string
	Seed  int64
	Level string
	Start time.Time

	mu          sync.Mutex
	evals       int64
	nontrivial  map[string]struct{}
	samples     []any
	maxSamples  int
	counters    map[string]int64
	extra       map[string]any
	rule        string
	assumptions []string
	exhaustive  bool
	minEvals    int64
	minNontriv  int
	inconcl     int64
	inconclWhy  map[string]int64
	held        int64

	findings   []Finding
	knownSeen  map[string]int
	violations []violation
	replayN    int
	ReplayFile string // non-empty when invoked with --replay
}

type violation struct {
	Key    string
	What   string
	Replay string
}

// Quick reports whether the tier is quick.
func (c *Ctx) Quick() bool { return c.Tier != "thorough" }

// N picks a size by tier.
func (c *Ctx) N(quick, thorough int) int {
	if c.Quick() {
		return quick
	}
	return thorough
}

// Rand returns a PRNG determined by (seed, check id, stream).
func (c *Ctx) Rand(stream uint64) *rand.Rand {
	h := sha256.Sum256([]byte(c.ID))
	var k uint64
	for i := 0; i < 8; i++ {
		k = k<<8 | uint64(h[i])
	}
	return rand.New(rand.NewPCG(uint64(c.Seed)^k, stream*0x9e3779b97f4a7c15+1))
}

// Eval counts n executed cases.
func (c *Ctx) Eval(n int) {
	c.mu.Lock()
	c.evals += int64(n)
	c.mu.Unlock()
}

// Held counts n cases whose oracle said "held".
func (c *Ctx) Held(n int) {
	c.mu.Lock()
	c.held += int64(n)
	c.mu.Unlock()
}

// Nontrivial records a distinct non-trivial case by its canonical key.
func (c *Ctx) Nontrivial(key string) {
	h := sha256.Sum256([]byte(key))
	c.mu.Lock()
	c.nontrivial[string(h[:12])] = struct{}{}
	c.mu.Unlock()
}

// Sample stores an example case (bounded).
func (c *Ctx) Sample(v any) {
	c.mu.Lock()
	if len(c.samples) < c.maxSamples {
		c.samples = append(c.samples, v)
	}
	c.mu.Unlock()
}

// Count adds n to a named monitor-side counter.
func (c *Ctx) Count(name string, n int64) {
	c.mu.Lock()
	c.counters[name] += n
	c.mu.Unlock()
}

// Counter returns the value of a counter.
func (c *Ctx) Counter(name string) int64 {
	c.mu.Lock()
	defer c.mu.Unlock()
	return c.counters[name]
}

// Extra sets an extra coverage key.
func (c *Ctx) Extra(name string, v any) {
	c.mu.Lock()
	c.extra[name] = v
	c.mu.Unlock()
}

// Rule sets the coverage rule text.
func (c *Ctx) Rule(s string) { c.rule = s }

// Assume records an assumption.
func (c *Ctx) Assume(s string) {
	c.mu.Lock()
	c.assumptions = append(c.assumptions, s)
	c.mu.Unlock()
}

// Exhaustive marks the explored space as completely enumerated.
func (c *Ctx) Exhaustive(b bool) { c.exhaustive = b }

// Require sets the observed-something thresholds (exit 3 below them).
func (c *Ctx) Require(minEvals int64, minNontrivial int) {
	c.minEvals, c.minNontriv = minEvals, minNontrivial
}

// Inconclusive records a case without a verdict.
func (c *Ctx) Inconclusive(why string) {
	c.mu.Lock()
	c.inconcl++
	c.inconclWhy[why]++
	c.mu.Unlock()
}

// Logf prints a progress line to stderr.
func (c *Ctx) Logf(format string, a ...any) {
	fmt.Fprintf(os.Stderr, "[%s %6.1fs] %s\n", c.ID, time.Since(c.Start).Seconds(), fmt.Sprintf(format, a...))
}

// Violation reports a violation with a finding key. If the key is listed as
// known in known_findings.json a KNOWN-FINDING line is printed (once per key);
// otherwise a replay file is written and a VIOLATION line printed. It returns
// true when the violation is new (not known).
func (c *Ctx) Violation(key, what string, replay any) bool {
	c.mu.Lock()
	defer c.mu.Unlock()
	for _, f := range c.findings {
		if f.Property == c.ID && f.Status == "known" && f.Key == key {
			c.knownSeen[key]++
			if c.knownSeen[key] == 1 {
				fmt.Printf("KNOWN-FINDING: property=%s %s [%s]\n", c.ID, f.What, key)
			}
			return false
		}
	}
	// Only the first few violations per key get replay files.
	n := 0
	for _, v := range c.violations {
		if v.Key == key {
			n++
		}
	}
	if n >= 3 {
		c.violations = append(c.violations, violation{Key: key, What: what})
		return true
	}
	c.replayN++
	dir := filepath.Join(Out, "replays")
	os.MkdirAll(dir, 0755)
	p := filepath.Join(dir, fmt.Sprintf("%s-%d-%d.json", c.ID, c.Seed, c.replayN))
	b, _ := json.MarshalIndent(map[string]any{
		"property": c.ID, "seed": c.Seed, "tier": c.Tier, "key": key, "what": what, "case": replay,
	}, "", " ")
	os.WriteFile(p, b, 0644)
	c.violations = append(c.violations, violation{Key: key, What: what, Replay: p})
	fmt.Printf("VIOLATION property=%s replay=%s\n", c.ID, p)
	fmt.Printf("  key=%s: %s\n", key, what)
	return true
}

// NewViolations returns the number of non-known violations so far.
func (c *Ctx) NewViolations() int {
	c.mu.Lock()
	defer c.mu.Unlock()
	return len(c.violations)
}

func (c *Ctx) writeEvidence() error {
	cov := map[string]any{}
	for k, v := range c.extra {
		cov[k] = v
	}
	cov["evaluations"] = c.evals
	cov["distinct_nontrivial"] = len(c.nontrivial)
	cov["rule"] = c.rule
	samples := c.samples
	if samples == nil {
		samples = []any{}
	}
	cov["samples"] = samples
	cov["exhaustive"] = c.exhaustive
	cov["held"] = c.held
	cov["inconclusive"] = c.inconcl
	if len(c.inconclWhy) > 0 {
		cov["inconclusive_reasons"] = c.inconclWhy
	}
	cov["monitor_counts"] = c.counters
	known := []string{}
	for k := range c.knownSeen {
		known = append(known, k)
	}
	sort.Strings(known)
	cov["known_findings_observed"] = known
	vk := map[string]int{}
	for _, v := range c.violations {
		vk[v.Key]++
	}
	if len(vk) > 0 {
		cov["violation_keys"] = vk
	}
	ev := map[string]any{
		"property_id": c.ID,
		"tier":        c.Tier,
		"seed":        c.Seed,
		"level":       c.Level,
		"coverage":    cov,
		"assumptions": append([]string{}, c.assumptions...),
		"wall_s":      time.Since(c.Start).Seconds(),
		"violations":  len(c.violations),
	}
	b, err := json.MarshalIndent(ev, "", " ")
	if err != nil {
		return err
	}
	dir := filepath.Join(Out, "evidence")
	os.MkdirAll(dir, 0755)
	return os.WriteFile(filepath.Join(dir, c.ID+".json"), b, 0644)
}

func loadFindings() []Finding {
	var all []Finding
	files := []string{filepath.Join(Root, "known_findings.json")}
	// known_findings.d/ holds per-property files while a check is being
	// developed; they are merged into known_findings.json before registration.
	more, _ := filepath.Glob(filepath.Join(Root, "known_findings.d", "*.json"))
	files = append(files, more...)
	for _, p := range files {
		b, err := os.ReadFile(p)
		if err != nil {
			continue
		}
		var f []Finding
		if err := json.Unmarshal(b, &f); err != nil {
			fmt.Fprintf(os.Stderr, "%s: %v\n", p, err)
			os.Exit(ExitBuild)
		}
		all = append(all, f...)
	}
	return all
}

// Main is the entry point of the vcheck binary.
//
//	vcheck run <ID> [--tier quick|thorough] [--seed N] [--replay file]
//	vcheck worker <name> args...
//	vcheck list
func Main() {
	if len(os.Args) < 2 {
		usage()
	}
	switch os.Args[1] {
	case "list":
		ids := []string{}
		for id := range checks {
			ids = append(ids, id)
		}
		sort.Strings(ids)
		fmt.Println(strings.Join(ids, " "))
	case "worker":
		if len(os.Args) < 3 {
			usage()
		}
		w := workers[os.Args[2]]
		if w == nil {
			fmt.Fprintf(os.Stderr, "unknown worker %q\n", os.Args[2])
			os.Exit(ExitBuild)
		}
		w(os.Args[3:])
	case "run":
		if len(os.Args) < 3 {
			usage()
		}
		runCheck(os.Args[2], os.Args[3:])
	default:
		usage()
	}
}

func usage() {
	fmt.Fprintln(os.Stderr, "usage: vcheck run <ID> [--tier quick|thorough] [--seed N] [--replay f] | worker <name> ... | list")
	os.Exit(ExitBuild)
}

func runCheck(id string, args []string) {
	ck := checks[id]
	if ck == nil {
		fmt.Fprintf(os.Stderr, "unknown check %q\n", id)
		os.Exit(ExitBuild)
	}
	c := &Ctx{
		ID: id, Level: ck.Level, Tier: "quick", Seed: 1, Start: time.Now(),
		nontrivial: map[string]struct{}{}, counters: map[string]int64{}, extra: map[string]any{},
		inconclWhy: map[string]int64{}, knownSeen: map[string]int{}, maxSamples: 6,
		minEvals: 1, minNontriv: 2,
	}
	if t := os.Getenv("VERIF_TIER"); t == "quick" || t == "thorough" {
		c.Tier = t
	}
	if s := os.Getenv("VERIF_SEED"); s != "" {
		if n, err := strconv.ParseInt(s, 10, 64); err == nil {
			c.Seed = n
		}
	}
	for i := 0; i < len(args); i++ {
		switch args[i] {
		case "--tier":
			i++
			c.Tier = args[i]
		case "--seed":
			i++
			c.Seed, _ = strconv.ParseInt(args[i], 10, 64)
		case "--replay":
			i++
			c.ReplayFile = args[i]
		}
	}
	c.findings = loadFindings()
	c.Logf("start tier=%s seed=%d", c.Tier, c.Seed)
	func() {
		defer func() {
			if r := recover(); r != nil {
				c.Logf("driver panic: %v", r)
				c.Inconclusive(fmt.Sprintf("driver panic: %v", r))
				panic(r)
			}
		}()
		ck.Run(c)
	}()
	if err := c.writeEvidence(); err != nil {
		fmt.Fprintf(os.Stderr, "evidence: %v\n", err)
		os.Exit(ExitBuild)
	}
	c.Logf("done: evaluations=%d distinct_nontrivial=%d held=%d inconclusive=%d violations=%d known=%d",
		c.evals, len(c.nontrivial), c.held, c.inconcl, len(c.violations), len(c.knownSeen))
	if len(c.violations) > 0 {
		os.Exit(ExitViolation)
	}
	if c.evals < c.minEvals || len(c.nontrivial) < c.minNontriv {
		fmt.Printf("INCONCLUSIVE property=%s observed too little: evaluations=%d (min %d) distinct_nontrivial=%d (min %d)\n",
			c.ID, c.evals, c.minEvals, len(c.nontrivial), c.minNontriv)
		os.Exit(ExitInconclusive)
	}
	os.Exit(ExitOK)
}

// Hash returns a short hex digest of the parts.
func Hash(parts ...any) string {
	h := sha256.New()
	for _, p := range parts {
		fmt.Fprintf(h, "%v\x00", p)
	}
	return hex.EncodeToString(h.Sum(nil)[:8])
}
