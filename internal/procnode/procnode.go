// Package procnode is harness B: real rqlited child processes (built with
// -tags verif) on their own data directories, with SIGKILL, crash-at-hook,
// hook delays, SQLite clock skew (LD_PRELOAD shim) and directory images.
package procnode

import (
	"bytes"
	"encoding/json"
	"fmt"
	"io"
	"net"
	"net/http"
	"os"
	"os/exec"
	"path/filepath"
	"strings"
	"sync"
	"syscall"
	"time"

	"verif/internal/vf"
)

// Node is one rqlited process.
type Node struct {
	ID       string
	Dir      string // data dir
	HTTPAddr string
	RaftAddr string
	Args     []string // extra flags
	Env      []string // extra env (VERIF_CRASH=..., VERIF_SQLITE_CLOCK_OFFSET_S=...)
	ClockOff int64    // seconds; non-zero => LD_PRELOAD shim
	VLimitKB int64    // non-zero => run under `ulimit -v <KB>` (virtual memory cap)
	Auth     string   // "user:pass" sent as HTTP basic auth by Do ("" = none)
	LogPath  string

	lastJoin []string

	mu   sync.Mutex
	cmd  *exec.Cmd
	done chan struct{}
	exit int
}

// FreeAddr returns a free loopback host:port.
func FreeAddr() string {
	l, err := net.Listen("tcp", "127.0.0.1:0")
	if err != nil {
		panic(err)
	}
	defer l.Close()
	return l.Addr().String()
}

// New prepares (does not start) a node with fresh ports.
func New(id, dir string) *Node {
	return &Node{ID: id, Dir: dir, HTTPAddr: FreeAddr(), RaftAddr: FreeAddr(), LogPath: dir + ".log"}
}

// Start launches rqlited. join is a list of raft addresses to join ("" = bootstrap alone).
func (n *Node) Start(join ...string) error {
	n.mu.Lock()
	defer n.mu.Unlock()
	n.lastJoin = join
	args := []string{"-node-id", n.ID, "-http-addr", n.HTTPAddr, "-raft-addr", n.RaftAddr,
		"-raft-log-level", "ERROR"}
	if len(join) > 0 && join[0] != "" {
		args = append(args, "-join", strings.Join(join, ","), "-join-attempts", "30", "-join-interval", "500ms")
	}
	args = append(args, n.Args...)
	args = append(args, n.Dir)
	cmd := exec.Command(vf.Bin("rqlited"), args...)
	if n.VLimitKB > 0 {
		sh := fmt.Sprintf("ulimit -v %d; exec \"$0\" \"$@\"", n.VLimitKB)
		cmd = exec.Command("/bin/bash", append([]string{"-c", sh, vf.Bin("rqlited")}, args...)...)
	}
	env := append(os.Environ(), n.Env...)
	if n.ClockOff != 0 {
		env = append(env, "LD_PRELOAD="+vf.Bin("clockshim.so"), fmt.Sprintf("VERIF_SQLITE_CLOCK_OFFSET_S=%d", n.ClockOff))
	}
	cmd.Env = env
	f, err := os.OpenFile(n.LogPath, os.O_CREATE|os.O_WRONLY|os.O_APPEND, 0644)
	if err != nil {
		return err
	}
	fmt.Fprintf(f, "==== start %s %v env=%v\n", time.Now().Format(time.RFC3339Nano), args, n.Env)
	cmd.Stdout = f
	cmd.Stderr = f
	cmd.SysProcAttr = &syscall.SysProcAttr{Setpgid: true, Pdeathsig: syscall.SIGKILL}
	if err := cmd.Start(); err != nil {
		f.Close()
		return err
	}
	f.Close()
	n.cmd = cmd
	n.done = make(chan struct{})
	go func(cmd *exec.Cmd, done chan struct{}) {
		err := cmd.Wait()
		code := 0
		if err != nil {
			if ee, ok := err.(*exec.ExitError); ok {
				code = ee.ExitCode()
			} else {
				code = -1
			}
		}
		n.mu.Lock()
		n.exit = code
		n.mu.Unlock()
		close(done)
	}(cmd, n.done)
	return nil
}

// Running reports whether the process is still alive.
func (n *Node) Running() bool {
	n.mu.Lock()
	d := n.done
	n.mu.Unlock()
	if d == nil {
		return false
	}
	select {
	case <-d:
		return false
	default:
		return true
	}
}

// WaitExit waits for the process to exit; returns (exit code, exited).
func (n *Node) WaitExit(d time.Duration) (int, bool) {
	n.mu.Lock()
	ch := n.done
	n.mu.Unlock()
	if ch == nil {
		return 0, true
	}
	// Prefer the exit notification: with d == 0 both cases could be ready and
	// select would pick at random.
	select {
	case <-ch:
		n.mu.Lock()
		defer n.mu.Unlock()
		return n.exit, true
	default:
	}
	if d <= 0 {
		return 0, false
	}
	select {
	case <-ch:
		n.mu.Lock()
		defer n.mu.Unlock()
		return n.exit, true
	case <-time.After(d):
		return 0, false
	}
}

// Kill SIGKILLs the process and waits.
func (n *Node) Kill() {
	n.mu.Lock()
	cmd := n.cmd
	n.mu.Unlock()
	if cmd != nil && cmd.Process != nil {
		syscall.Kill(-cmd.Process.Pid, syscall.SIGKILL)
		cmd.Process.Kill()
	}
	n.WaitExit(10 * time.Second)
}

// Stop sends SIGTERM (graceful shutdown) and waits up to d, then kills.
func (n *Node) Stop(d time.Duration) (int, bool) {
	n.mu.Lock()
	cmd := n.cmd
	n.mu.Unlock()
	if cmd != nil && cmd.Process != nil {
		cmd.Process.Signal(syscall.SIGTERM)
	}
	code, ok := n.WaitExit(d)
	if !ok {
		n.Kill()
	}
	return code, ok
}

var client = &http.Client{Timeout: 30 * time.Second, CheckRedirect: func(*http.Request, []*http.Request) error { return http.ErrUseLastResponse }}

// Resp is an HTTP response.
type Resp struct {
	Status int
	Body   []byte
	Err    error
}

// Do performs an HTTP request.
func (n *Node) Do(method, path string, body []byte, ctype string) Resp {
	req, err := http.NewRequest(method, "http://"+n.HTTPAddr+path, bytes.NewReader(body))
	if err != nil {
		return Resp{Err: err}
	}
	if ctype != "" {
		req.Header.Set("Content-Type", ctype)
	}
	if n.Auth != "" {
		u, p, _ := strings.Cut(n.Auth, ":")
		req.SetBasicAuth(u, p)
	}
	resp, err := client.Do(req)
	if err != nil {
		return Resp{Err: err}
	}
	defer resp.Body.Close()
	b, err := io.ReadAll(resp.Body)
	return Resp{Status: resp.StatusCode, Body: b, Err: err}
}

// PostJSON posts v as JSON.
func (n *Node) PostJSON(path string, v any) Resp {
	b, _ := json.Marshal(v)
	return n.Do("POST", path, b, "application/json")
}

// portInUse reports whether the last start of the node failed because one of
// its listen addresses was taken (on a busy machine another process can grab a
// port between a stop and the restart: a harness condition, not a verdict).
func (n *Node) portInUse() bool {
	b, err := os.ReadFile(n.LogPath)
	if err != nil {
		return false
	}
	s := string(b)
	if i := strings.LastIndex(s, "==== start "); i >= 0 {
		s = s[i:]
	}
	return strings.Contains(s, "address already in use")
}

// ErrPortInUse is returned by WaitReady when the node could not bind its
// address even after several retries.
var ErrPortInUse = fmt.Errorf("listen address taken by another process")

// WaitReady polls /readyz until 200 or the process exits / d elapses. A start
// that failed with "address already in use" is retried a few times.
func (n *Node) WaitReady(d time.Duration) error {
	deadline := time.Now().Add(d)
	retries := 0
	for time.Now().Before(deadline) {
		if !n.Running() {
			code, _ := n.WaitExit(0)
			if n.portInUse() {
				if retries < 8 {
					retries++
					time.Sleep(700 * time.Millisecond)
					args := n.lastJoin
					if err := n.Start(args...); err != nil {
						return err
					}
					continue
				}
				return ErrPortInUse
			}
			return fmt.Errorf("process exited with %d while waiting for ready", code)
		}
		r := n.Do("GET", "/readyz", nil, "")
		if r.Err == nil && r.Status == 200 {
			return nil
		}
		time.Sleep(50 * time.Millisecond)
	}
	return fmt.Errorf("not ready after %s", d)
}

// APIResult mirrors one result entry.
type APIResult struct {
	LastInsertID int64    `json:"last_insert_id"`
	RowsAffected int64    `json:"rows_affected"`
	Columns      []string `json:"columns"`
	Types        []string `json:"types"`
	Values       [][]any  `json:"values"`
	Error        string   `json:"error"`
}

// APIResponse is the top-level body.
type APIResponse struct {
	Results        []APIResult `json:"results"`
	Error          string      `json:"error"`
	SequenceNumber int64       `json:"sequence_number"`
	RaftIndex      uint64      `json:"raft_index"`
}

// Parse decodes a response body.
func (r Resp) Parse() (*APIResponse, error) {
	if r.Err != nil {
		return nil, r.Err
	}
	var a APIResponse
	dec := json.NewDecoder(bytes.NewReader(r.Body))
	dec.UseNumber()
	if err := dec.Decode(&a); err != nil {
		return nil, fmt.Errorf("status %d body %.200q: %w", r.Status, r.Body, err)
	}
	return &a, nil
}

// OK reports whether the request succeeded at HTTP and statement level.
func (r Resp) OK() bool {
	a, err := r.Parse()
	if err != nil || r.Status != 200 || a.Error != "" {
		return false
	}
	for _, x := range a.Results {
		if x.Error != "" {
			return false
		}
	}
	return true
}

// Pid returns the process id (0 if not started).
func (n *Node) Pid() int {
	n.mu.Lock()
	defer n.mu.Unlock()
	if n.cmd == nil || n.cmd.Process == nil {
		return 0
	}
	return n.cmd.Process.Pid
}

// DBPath returns the node's SQLite file.
func (n *Node) DBPath() string { return filepath.Join(n.Dir, "db.sqlite") }

// ReadTrace parses a VERIF_TRACE file into (name, hit#) in global order.
func ReadTrace(path string) ([]TraceHit, error) {
	b, err := os.ReadFile(path)
	if err != nil {
		return nil, err
	}
	var out []TraceHit
	for _, line := range strings.Split(string(b), "\n") {
		var g, k int64
		var name string
		if _, err := fmt.Sscanf(line, "%d %s %d", &g, &name, &k); err == nil {
			out = append(out, TraceHit{Global: g, Name: name, Hit: k})
		}
	}
	return out, nil
}

// TraceHit is one hook hit.
type TraceHit struct {
	Global int64
	Name   string
	Hit    int64
}
