// Package c04: snapshot store plus log always rebuilds the applied state
// (DESIGN §6 C04).
package c04

import (
	"bytes"
	"context"
	"encoding/json"
	"errors"
	"fmt"
	"os"
	"path/filepath"
	"strings"
	"sync"
	"sync/atomic"
	"time"

	"github.com/rqlite/rqlite/v10/command/proto"
	"github.com/rqlite/rqlite/v10/store"
	"github.com/rqlite/rqlite/v10/vexport"
	"verif/internal/hcluster"
	"verif/internal/nscript"
	"verif/internal/sqlref"
	"verif/internal/vf"
)

func init() {
	vf.Register("C04", "exploration", run)
	vf.RegisterWorker("c04", worker)
}

// ---- worker protocol ----

type req struct {
	Cmd  string `json:"cmd"` // open | op | verify | close
	Dir  string `json:"dir,omitempty"`
	Op   string `json:"op,omitempty"`
	Arg  int    `json:"arg,omitempty"`
	Copy string `json:"copy,omitempty"`
}

type resp struct {
	OK      bool   `json:"ok"`
	Err     string `json:"err,omitempty"`
	Note    string `json:"note,omitempty"`
	Problem string `json:"problem,omitempty"` // verify: rebuilt state differs
	Diff    string `json:"diff,omitempty"`
	Staged  int    `json:"staged_wals"`
	Applied uint64 `json:"applied_index"`
	Rows    int    `json:"rows"`
	Snaps   int    `json:"snapshots"`
}

var (
	wcl   *hcluster.Cluster
	wnode *hcluster.Node
	wdir  string
)

func exec(n *hcluster.Node, tx bool, stmts ...string) error {
	ss := make([]*proto.Statement, len(stmts))
	for i := range stmts {
		ss[i] = &proto.Statement{Sql: stmts[i]}
	}
	res, _, err := n.Store.Execute(context.Background(), &proto.ExecuteRequest{Request: &proto.Request{Statements: ss, Transaction: tx}})
	if err != nil {
		return err
	}
	for _, r := range res {
		if e := r.GetError(); e != "" {
			return errors.New(e)
		}
	}
	return nil
}

func openNode(dir string) error {
	wcl = hcluster.New(filepath.Dir(dir))
	o := hcluster.Options{ID: "n1", Dir: dir, NoSnapshotOnClose: true, ReapThreshold: 1000,
		SnapshotThreshold: 1 << 30, SnapshotInterval: time.Hour,
		Tune: func(s *store.Store) { s.SnapshotThresholdWALSize = 0 }}
	fresh := true
	if _, err := os.Stat(filepath.Join(dir, "raft.db")); err == nil {
		fresh = false
	}
	// keep the raft address across restarts (the configuration names it; the
	// install op needs other nodes to reach this one)
	addrFile := filepath.Join(filepath.Dir(dir), "raftaddr")
	if b, err := os.ReadFile(addrFile); err == nil && !fresh {
		o.RaftAddr = string(b)
	}
	n, err := hcluster.NewNode(wcl.Net, o)
	for i := 0; err != nil && o.RaftAddr != "" && i < 40; i++ {
		time.Sleep(100 * time.Millisecond)
		n, err = hcluster.NewNode(wcl.Net, o)
	}
	if err != nil && o.RaftAddr != "" {
		o.RaftAddr = ""
		n, err = hcluster.NewNode(wcl.Net, o)
	}
	if err != nil {
		return err
	}
	os.WriteFile(addrFile, []byte(n.RaftAddr), 0644)
	wnode = n
	wcl.Nodes = append(wcl.Nodes, n)
	if fresh {
		if err := n.Bootstrap(); err != nil {
			return err
		}
	}
	if _, err := n.Store.WaitForLeader(30 * time.Second); err != nil {
		return err
	}
	// leader must be able to commit (applies its own noop first)
	deadline := time.Now().Add(30 * time.Second)
	for !n.Store.IsLeader() && time.Now().Before(deadline) {
		time.Sleep(20 * time.Millisecond)
	}
	if fresh {
		return exec(n, true,
			"CREATE TABLE c (n INTEGER NOT NULL)", "INSERT INTO c(n) VALUES(0)",
			"CREATE TABLE t (id INTEGER PRIMARY KEY AUTOINCREMENT, tag TEXT NOT NULL, pad BLOB)",
			"CREATE TABLE big1 (id INTEGER PRIMARY KEY, v BLOB)", "CREATE TABLE big2 (id INTEGER PRIMARY KEY, v BLOB)", "CREATE TABLE big3 (id INTEGER PRIMARY KEY, v BLOB)")
	}
	return nil
}

// det returns a deterministic SQL expression for a payload of about n bytes
// whose content depends on k. (Store.Execute does not rewrite random
// functions - that happens in the HTTP layer - so none are used here.)
func det(n, k int) string {
	return fmt.Sprintf("replace(hex(zeroblob(%d)), '0', char(%d))", n/2+1, 65+k%26)
}

func doOp(op string, arg int) (note string, err error) {
	n := wnode
	s := n.Store
	switch op {
	case "write-small":
		return "", exec(n, true, fmt.Sprintf("INSERT INTO t(tag, pad) VALUES('w%d', %s)", arg, det(50+arg%200, arg)), "UPDATE c SET n=n+1")
	case "write-heavy":
		// touch many pages in several tables, overwriting pages written earlier
		return "", exec(n, true,
			fmt.Sprintf("INSERT OR REPLACE INTO big1(id, v) VALUES(%d, %s)", arg%5, det(30000, arg)),
			fmt.Sprintf("INSERT OR REPLACE INTO big2(id, v) VALUES(%d, %s)", arg%3, det(18000, arg+7)),
			fmt.Sprintf("INSERT OR REPLACE INTO big3(id, v) VALUES(%d, zeroblob(9000))", arg%7),
			fmt.Sprintf("UPDATE t SET pad = %s WHERE id %% 3 = %d", det(300+arg%50, arg+3), arg%3),
			fmt.Sprintf("INSERT INTO t(tag, pad) VALUES('h%d', %s)", arg, det(4000, arg+11)),
			"UPDATE c SET n=n+1")
	case "snapshot":
		err := s.Snapshot(0)
		if err != nil && (errors.Is(err, store.ErrNothingNewToSnapshot) || errors.Is(err, store.ErrNoWALToSnapshot)) {
			return "nothing to snapshot", nil
		}
		return "", err
	case "ghost-join":
		// A pending configuration change makes Raft skip Persist for the next snapshot.
		if err := s.Join(&proto.JoinRequest{Id: fmt.Sprintf("ghost%d", arg), Address: fmt.Sprintf("127.0.0.1:%d", 1+arg%50), Voter: false}); err != nil {
			return "", err
		}
		err := s.Snapshot(0)
		if err == nil {
			return "snapshot after join was persisted", nil
		}
		if strings.Contains(err.Error(), "wait until the configuration entry") {
			return "persist skipped", nil
		}
		if errors.Is(err, store.ErrNothingNewToSnapshot) || errors.Is(err, store.ErrNoWALToSnapshot) {
			return "nothing to snapshot", nil
		}
		return "", err
	case "ghost-remove":
		nodes, err := s.Nodes()
		if err != nil {
			return "", err
		}
		for _, nd := range nodes {
			if strings.HasPrefix(nd.ID, "ghost") {
				if err := s.Remove(context.Background(), &proto.RemoveNodeRequest{Id: nd.ID}); err != nil {
					return "", err
				}
				return "removed " + nd.ID, nil
			}
		}
		return "no ghost", nil
	case "snapshot-close-fails-early":
		// sink Close fails before the staged WAL is consumed
		var once sync.Once
		vexport.HookOnErr("sink.close.begin", func() error {
			var e error
			once.Do(func() { e = errors.New("injected: sink close fails early") })
			return e
		})
		defer vexport.HookOnErr("sink.close.begin", nil)
		err := s.Snapshot(0)
		if err == nil {
			return "no failure injected (nothing to close?)", nil
		}
		return "snapshot failed: " + err.Error(), nil
	case "snapshot-close-fails-late":
		// sink Close fails after the staged WAL has been moved: by design the
		// process exits (incremental) - the driver restarts the worker.
		var once sync.Once
		vexport.HookOnErr("sink.close.mid", func() error {
			var e error
			once.Do(func() { e = errors.New("injected: sink close fails late") })
			return e
		})
		defer vexport.HookOnErr("sink.close.mid", nil)
		err := s.Snapshot(0)
		if err == nil {
			return "no failure injected", nil
		}
		return "snapshot failed: " + err.Error(), nil
	case "load":
		p := filepath.Join(wdir+"-scratch", fmt.Sprintf("load%d.db", arg))
		os.MkdirAll(filepath.Dir(p), 0755)
		if err := genLoadDB(p, arg); err != nil {
			return "", err
		}
		b, err := os.ReadFile(p)
		os.Remove(p)
		if err != nil {
			return "", err
		}
		return "", s.Load(context.Background(), &proto.LoadRequest{Data: b})
	case "boot":
		p := filepath.Join(wdir+"-scratch", fmt.Sprintf("boot%d.db", arg))
		os.MkdirAll(filepath.Dir(p), 0755)
		if err := genLoadDB(p, arg+100); err != nil {
			return "", err
		}
		b, err := os.ReadFile(p)
		os.Remove(p)
		if err != nil {
			return "", err
		}
		nodes, _ := s.Nodes()
		if len(nodes) != 1 {
			return "not single node", nil
		}
		_, err = s.ReadFrom(bytes.NewReader(b))
		return "", err
	case "reap":
		_, _, err := s.Reap()
		return "", err
	case "install":
		return doInstall(arg)
	case "reap-crash":
		// the process dies at the k-th hit of a hook inside the reap (plan written,
		// WAL renamed for its checkpoint, between plan ops, before the plan file is
		// removed); the driver restarts the worker, which resumes the plan
		pts := []string{"reap.after_plan_write", "plan.ckpt.after_rename", "plan.ckpt.after_remove", "plan.op.after", "plan.op.before", "reap.before_plan_remove"}
		pt := pts[arg%len(pts)]
		k := int64(1 + (arg/len(pts))%3)
		var hits atomic.Int64
		vexport.HookOn(pt, func() {
			if hits.Add(1) == k {
				fmt.Fprintf(os.Stderr, "c04: designed crash at %s hit %d\n", pt, k)
				os.Exit(197)
			}
		})
		defer vexport.HookOn(pt, nil)
		_, _, err := s.Reap()
		return fmt.Sprintf("no crash (%s not reached %d times)", pt, k), err
	case "restart", "restart-snap":
		s.NoSnapshotOnClose = op == "restart"
		if err := wnode.Close(); err != nil {
			return "", fmt.Errorf("close: %w", err)
		}
		return "", openNode(wdir)
	}
	return "", fmt.Errorf("unknown op %s", op)
}

// genLoadDB creates a database with the same schema as the live one.
func genLoadDB(path string, k int) error {
	os.Remove(path)
	db, err := sqlref.Open(path)
	if err != nil {
		return err
	}
	defer db.Close()
	m := nscript.LoadedModel(k)
	stmts := []string{"CREATE TABLE c (n INTEGER NOT NULL)", fmt.Sprintf("INSERT INTO c(n) VALUES(%d)", m.N),
		"CREATE TABLE t (id INTEGER PRIMARY KEY AUTOINCREMENT, tag TEXT NOT NULL, pad BLOB)",
		"CREATE TABLE big1 (id INTEGER PRIMARY KEY, v BLOB)", "CREATE TABLE big2 (id INTEGER PRIMARY KEY, v BLOB)", "CREATE TABLE big3 (id INTEGER PRIMARY KEY, v BLOB)"}
	for _, t := range m.Tags {
		stmts = append(stmts, fmt.Sprintf("INSERT INTO t(tag, pad) VALUES('%s', randomblob(%d))", t, 700+k*13))
	}
	stmts = append(stmts, fmt.Sprintf("INSERT INTO big1(id, v) VALUES(1, randomblob(%d))", 20000+k*100))
	for _, s := range stmts {
		if _, err := db.Exec(s); err != nil {
			return err
		}
	}
	return nil
}

// verify copies the raft directory without the SQLite files and the
// fingerprint, opens a fresh Store on the copy (restore newest snapshot, replay
// the log) and compares its logical dump with the live database's.
func verify(copyDir string) (r resp) {
	n := wnode
	// quiesce: nothing is in flight (the driver is sequential); wait for the reaper
	for i := 0; i < 200; i++ {
		if _, err := os.Stat(filepath.Join(wdir, "wsnapshots", "REAP_PLAN")); err != nil {
			break
		}
		time.Sleep(25 * time.Millisecond)
	}
	// A strong read goes through the log, so when it returns every earlier entry
	// (including entries replayed after a restart) has been applied to the live database.
	if _, _, _, err := n.Store.Query(context.Background(), &proto.QueryRequest{Level: proto.ConsistencyLevel_STRONG,
		Request: &proto.Request{Statements: []*proto.Statement{{Sql: "SELECT 1"}}}}); err != nil {
		r.Err = "live store does not answer a strong read: " + err.Error()
		return
	}
	applied := n.Store.DBAppliedIndex()
	live, err := sqlref.DumpFile(filepath.Join(wdir, "db.sqlite"))
	if err != nil {
		r.Err = "dump live: " + err.Error()
		return
	}
	r.Rows = live.Rows()
	r.Applied = applied
	if st, err := n.Store.StagedWALs(); err == nil {
		r.Staged = len(st)
	}
	os.RemoveAll(copyDir)
	err = filepath.Walk(wdir, func(p string, info os.FileInfo, err error) error {
		if err != nil {
			return nil // files may disappear (raft log compaction); tolerated
		}
		rel, _ := filepath.Rel(wdir, p)
		base := filepath.Base(p)
		if strings.HasPrefix(base, "db.sqlite") || base == "clean_snapshot" || strings.HasPrefix(rel, "wal-staging") {
			if info.IsDir() {
				return filepath.SkipDir
			}
			return nil
		}
		t := filepath.Join(copyDir, rel)
		if info.IsDir() {
			return os.MkdirAll(t, 0755)
		}
		if !info.Mode().IsRegular() {
			return nil
		}
		return sqlref.CopyFile(p, t)
	})
	if err != nil {
		r.Err = "copy: " + err.Error()
		return
	}
	if ents, err := os.ReadDir(filepath.Join(copyDir, "wsnapshots")); err == nil {
		for _, e := range ents {
			if e.IsDir() {
				r.Snaps++
			}
		}
	}
	defer os.RemoveAll(copyDir)
	o := hcluster.Options{ID: "n1", Dir: copyDir, NoSnapshotOnClose: true, ReapThreshold: 1000, SnapshotThreshold: 1 << 30, SnapshotInterval: time.Hour}
	cn, err := hcluster.NewNode(wcl.Net, o)
	if err != nil {
		r.Problem = "a fresh store cannot open a copy of the snapshot store + log: " + err.Error()
		return
	}
	defer cn.Close()
	deadline := time.Now().Add(60 * time.Second)
	for time.Now().Before(deadline) {
		if cn.Store.IsLeader() && cn.Store.DBAppliedIndex() >= applied {
			break
		}
		time.Sleep(20 * time.Millisecond)
	}
	// a barrier-like strong read makes sure every log entry has been applied
	if _, _, _, err := cn.Store.Query(context.Background(), &proto.QueryRequest{Level: proto.ConsistencyLevel_STRONG,
		Request: &proto.Request{Statements: []*proto.Statement{{Sql: "SELECT 1"}}}}); err != nil {
		r.Err = "rebuilt store does not answer a strong read: " + err.Error()
		return
	}
	rebuilt, err := sqlref.DumpFile(filepath.Join(copyDir, "db.sqlite"))
	if err != nil {
		// the live database could be dumped, the rebuilt one cannot: it is not the
		// database the node had applied
		r.Problem = "database rebuilt from newest snapshot + log cannot be read: " + err.Error()
		return
	}
	if rebuilt.Hash() != live.Hash() {
		r.Problem = "database rebuilt from newest snapshot + log differs from the live database"
		r.Diff = sqlref.Diff(live, rebuilt)
		return
	}
	r.OK = true
	return
}

func worker(args []string) {
	vf.ServeJSON(func(raw json.RawMessage) any {
		var q req
		if err := json.Unmarshal(raw, &q); err != nil {
			return resp{Err: err.Error()}
		}
		switch q.Cmd {
		case "open":
			wdir = q.Dir
			if err := openNode(q.Dir); err != nil {
				return resp{Err: err.Error()}
			}
			return resp{OK: true}
		case "op":
			note, err := doOp(q.Op, q.Arg)
			if err != nil {
				return resp{Err: err.Error(), Note: note}
			}
			return resp{OK: true, Note: note}
		case "verify":
			return verify(q.Copy)
		case "close":
			if wnode != nil {
				wnode.Close()
			}
			return resp{OK: true}
		}
		return resp{Err: "unknown cmd"}
	})
}

// ---- driver ----

type step struct {
	Op   string `json:"op"`
	Arg  int    `json:"arg"`
	Note string `json:"note,omitempty"`
}

type seqResult struct {
	Case        int    `json:"case"`
	Steps       []step `json:"steps"`
	Verifies    int    `json:"verifications"`
	Problem     string `json:"problem,omitempty"`
	Key         string `json:"key,omitempty"`
	Diff        string `json:"diff,omitempty"`
	Inconcl     string `json:"inconclusive,omitempty"`
	Skipped     int    `json:"persist_skipped"`
	Installs    int    `json:"snapshots_installed"`
	ReapCrashes int    `json:"crashes_inside_reap"`
	Died        int    `json:"process_exits_by_design"`
	MaxStaged   int    `json:"max_staged_wals"`
}

var alphabet = []string{"write-small", "write-small", "write-heavy", "write-heavy", "snapshot", "snapshot", "ghost-join", "ghost-remove",
	"snapshot-close-fails-early", "snapshot-close-fails-late", "load", "boot", "reap", "restart", "restart-snap", "install", "reap-crash"}

func genSeq(c *vf.Ctx, i int) []step {
	r := c.Rand(uint64(i))
	n := c.N(12, 20)
	steps := []step{{Op: "write-small", Arg: 0}, {Op: "snapshot"}}
	motifs := [][]string{
		// a staged WAL that never reached the store, then a snapshot installed from a Leader
		{"write-heavy", "snapshot", "write-heavy", "ghost-join", "write-heavy", "install", "write-small", "snapshot", "write-heavy", "snapshot"},
		// a reap of a full snapshot plus incrementals, killed half-way and resumed on restart
		{"write-heavy", "snapshot", "write-heavy", "snapshot", "write-small", "snapshot", "reap-crash", "write-small", "snapshot"},
		{"write-heavy", "ghost-join", "write-heavy", "load", "write-small", "snapshot", "write-heavy", "snapshot"},
		{"write-heavy", "ghost-join", "write-heavy", "boot", "write-small", "snapshot", "write-heavy", "snapshot"},
		{"write-heavy", "ghost-join", "write-heavy", "snapshot", "write-heavy", "ghost-remove", "snapshot"},
		{"write-heavy", "ghost-join", "write-small", "ghost-join", "write-heavy", "snapshot", "reap"},
		{"write-heavy", "ghost-join", "write-heavy", "snapshot-close-fails-early", "write-heavy", "snapshot"},
		{"write-heavy", "ghost-join", "write-heavy", "snapshot-close-fails-late", "write-heavy", "snapshot"},
		{"write-heavy", "ghost-join", "write-heavy", "restart", "write-heavy", "snapshot"},
		{"write-heavy", "snapshot", "write-heavy", "snapshot", "write-heavy", "snapshot", "write-heavy", "snapshot", "reap", "write-heavy", "snapshot"},
		// a load whose first following snapshot does not reach the store
		{"write-small", "snapshot", "load", "ghost-join", "write-small", "snapshot", "write-heavy", "snapshot"},
		{"write-small", "snapshot", "load", "snapshot-close-fails-early", "write-small", "snapshot"},
		// a load applied by a freshly restarted process
		{"write-small", "snapshot", "restart", "load", "write-small", "snapshot", "write-heavy", "snapshot"},
		{"write-small", "snapshot", "restart-snap", "load", "write-heavy", "snapshot"},
		// snapshot installs without and with a restart / reap around them
		{"write-heavy", "snapshot", "write-heavy", "install", "write-heavy", "snapshot", "reap", "write-small", "snapshot"},
		{"write-heavy", "ghost-join", "install", "restart", "write-small", "snapshot", "install", "write-heavy", "snapshot"},
	}
	var motif []string
	at := -1
	if i%2 == 0 {
		motif = motifs[(i/2)%len(motifs)]
		at = r.IntN(n - 2)
	}
	for j := 0; j < n; j++ {
		if j == at {
			for k, op := range motif {
				arg := 5000 + k + 100*i
				if op == "reap-crash" {
					arg = 1 + 6*(i%3) // after the WAL rename of the 1st..3rd checkpoint
				}
				steps = append(steps, step{Op: op, Arg: arg})
			}
		}
		steps = append(steps, step{Op: alphabet[r.IntN(len(alphabet))], Arg: 1 + j + 100*i})
	}
	return steps
}

func classify(steps []step) string {
	// key by the kinds of snapshot-affecting ops seen since the last verified-OK point
	seen := map[string]bool{}
	for _, s := range steps {
		switch s.Op {
		case "ghost-join":
			if s.Note == "persist skipped" {
				seen["skipped-persist"] = true
			}
		case "load", "boot", "snapshot-close-fails-early", "snapshot-close-fails-late", "reap", "restart", "restart-snap":
			seen[s.Op] = true
		case "install":
			if s.Note == "installed" {
				seen["install"] = true
			}
		case "reap-crash":
			if s.Note == "process killed inside the reap" {
				seen["reap-crash"] = true
			}
		}
	}
	var ks []string
	for _, k := range []string{"skipped-persist", "install", "reap-crash", "snapshot-close-fails-early", "snapshot-close-fails-late", "load", "boot", "reap", "restart", "restart-snap"} {
		if seen[k] {
			ks = append(ks, k)
		}
	}
	if len(ks) == 0 {
		return "plain"
	}
	return strings.Join(ks, "+")
}

func runSeq(c *vf.Ctx, tmp string, i int, steps []step) (res seqResult) {
	res.Case = i
	dir := filepath.Join(tmp, fmt.Sprintf("s%d", i), "data")
	os.MkdirAll(filepath.Dir(dir), 0755)
	defer os.RemoveAll(filepath.Dir(dir))
	logPath := filepath.Join(tmp, fmt.Sprintf("s%d.log", i))
	var p *vf.Proc
	start := func() error {
		var err error
		p, err = vf.StartWorker(false, "c04", nil, nil, logPath)
		if err != nil {
			return err
		}
		var r resp
		if err := p.Call(req{Cmd: "open", Dir: dir}, &r, 90*time.Second); err != nil {
			return err
		}
		if !r.OK {
			return errors.New(r.Err)
		}
		return nil
	}
	if err := start(); err != nil {
		res.Inconcl = "start: " + err.Error()
		return
	}
	defer func() {
		if p != nil {
			p.Call(req{Cmd: "close"}, nil, 30*time.Second)
			p.Kill()
		}
	}()
	for j := range steps {
		st := &steps[j]
		var r resp
		err := p.Call(req{Cmd: "op", Op: st.Op, Arg: st.Arg}, &r, 120*time.Second)
		res.Steps = append(res.Steps, *st)
		cur := &res.Steps[len(res.Steps)-1]
		if err == vf.ErrProcDied {
			p.Wait()
			lb, _ := os.ReadFile(logPath)
			designed := strings.Contains(string(lb[max(0, len(lb)-4000):]), "failure during incremental snapshot, exiting process")
			if st.Op == "reap-crash" && strings.Contains(string(lb[max(0, len(lb)-4000):]), "c04: designed crash at") {
				res.ReapCrashes++
				cur.Note = "process killed inside the reap"
				if err := start(); err != nil {
					res.Problem = "node does not restart after a crash inside a reap: " + err.Error()
					res.Key = "restart-failed-after:reap-crash"
					p = nil
					return
				}
			} else if (st.Op == "snapshot-close-fails-late" || st.Op == "snapshot-close-fails-early") && designed {
				// by design: any failure of an incremental sink's Close exits the process
				res.Died++
				cur.Note = "process exited (by design)"
				if err := start(); err != nil {
					res.Problem = "node does not restart after the designed exit on a failed incremental snapshot close: " + err.Error()
					res.Key = "restart-failed-after:" + st.Op
					p = nil
					return
				}
			} else {
				res.Problem = fmt.Sprintf("worker died during op %s", st.Op)
				res.Key = "process-died:" + st.Op
				p = nil
				return
			}
		} else if err != nil {
			res.Inconcl = fmt.Sprintf("op %s: %v", st.Op, err)
			return
		} else {
			cur.Note = r.Note
			if r.Note == "persist skipped" {
				res.Skipped++
			}
			if st.Op == "install" && r.Note == "installed" {
				res.Installs++
			}
			if !r.OK {
				if st.Op == "restart" || st.Op == "restart-snap" {
					res.Problem = fmt.Sprintf("op %s failed: %s", st.Op, r.Err)
					res.Key = "restart-failed"
					return
				}
				cur.Note = "failed: " + r.Err
			}
		}
		var v resp
		if err := p.Call(req{Cmd: "verify", Copy: filepath.Join(filepath.Dir(dir), "copy")}, &v, 180*time.Second); err != nil {
			res.Inconcl = fmt.Sprintf("verify after %s: %v", st.Op, err)
			return
		}
		if v.Staged > res.MaxStaged {
			res.MaxStaged = v.Staged
		}
		if v.Problem != "" {
			res.Problem = fmt.Sprintf("after step %d (%s): %s", j, st.Op, v.Problem)
			res.Key = "rebuild-mismatch:" + classify(res.Steps)
			res.Diff = v.Diff
			return
		}
		if v.Err != "" {
			res.Inconcl = fmt.Sprintf("verify after %s: %s (op note: %s)", st.Op, v.Err, cur.Note)
			return
		}
		res.Verifies++
	}
	return
}

func run(c *vf.Ctx) {
	c.Rule("sequence = write-small, snapshot, then 12 (quick) / 20 (thorough) seeded ops (every second sequence with one of 16 directed motifs spliced in, e.g. page-heavy write, skipped persist, page-heavy write, load, write, snapshot, write, snapshot) over {small write batch, page-heavy batch overwriting earlier pages in several tables, user snapshot, join of an unreachable non-voter followed at once by a snapshot (Raft then skips Persist and rqlite keeps the staged WAL), remove it, snapshot whose sink Close is made to fail before the staged WAL is consumed, snapshot whose sink Close fails after (process exits by design, worker restarted), load, boot, reap, reap during which the process is killed at a seeded hook hit (plan written / WAL renamed for its checkpoint / between plan ops / before the plan file is removed) and restarted, restart with and without snapshot-on-close, snapshot install (two helper voters join, one takes over leadership, the node under test is cut off while the helper Leader overwrites pages and truncates its log with a snapshot, the link heals so that the node under test installs that snapshot as a lagging follower, then leadership is handed back and the helpers are removed)} on a real Store that is a single-node cluster between ops; after EVERY op the raft directory is copied without db.sqlite*, clean_snapshot and the WAL staging dir, a fresh Store is opened on the copy (restore newest snapshot, replay log) and its logical dump must equal the live database's. non-trivial = sequence that contained a skipped persist, a failed close, a load/boot or a reap; distinct by op sequence")
	nSeq := c.N(14, 160)
	tmp := vf.TempDir("c04")
	defer os.RemoveAll(tmp)
	if c.ReplayFile != "" {
		b, err := os.ReadFile(c.ReplayFile)
		if err != nil {
			panic(err)
		}
		var f struct {
			Case seqResult `json:"case"`
		}
		json.Unmarshal(b, &f)
		steps := f.Case.Steps
		for i := range steps {
			steps[i].Note = ""
		}
		res := runSeq(c, tmp, 0, steps)
		out, _ := json.MarshalIndent(res, "", " ")
		fmt.Printf("%s\n", out)
		if os.Getenv("VERIF_KEEP") != "" {
			os.RemoveAll("/tmp/c04-keep")
			sqlref.CopyTree(tmp, "/tmp/c04-keep")
		}
		c.Eval(1)
		c.Nontrivial("a")
		c.Nontrivial("b")
		if res.Problem != "" {
			c.Violation(res.Key, res.Problem, res)
		}
		return
	}
	results := make([]seqResult, nSeq)
	sem := make(chan struct{}, c.N(4, 6))
	var wg sync.WaitGroup
	for i := 0; i < nSeq; i++ {
		wg.Add(1)
		go func(i int) {
			defer wg.Done()
			sem <- struct{}{}
			defer func() { <-sem }()
			results[i] = runSeq(c, tmp, i, genSeq(c, i))
		}(i)
	}
	wg.Wait()
	for _, res := range results {
		c.Eval(1)
		c.Count("verifications", int64(res.Verifies))
		c.Count("persist_skipped", int64(res.Skipped))
		c.Count("snapshots_installed_from_a_leader", int64(res.Installs))
		c.Count("crashes_inside_reap", int64(res.ReapCrashes))
		c.Count("designed_process_exits", int64(res.Died))
		if res.MaxStaged > 1 {
			c.Count("sequences_with_multiple_staged_wals", 1)
		}
		if cl := classify(res.Steps); cl != "plain" {
			b, _ := json.Marshal(res.Steps)
			c.Nontrivial(string(b))
		}
		if res.Inconcl != "" {
			c.Logf("seq %d: %s", res.Case, res.Inconcl)
			c.Inconclusive(strings.SplitN(res.Inconcl, ":", 2)[0])
			continue
		}
		if res.Problem != "" {
			c.Violation(res.Key, fmt.Sprintf("sequence %d: %s\n%s", res.Case, res.Problem, res.Diff), res)
			continue
		}
		c.Held(1)
		c.Sample(res)
	}
	c.Require(int64(nSeq*2/3), 3)
}
