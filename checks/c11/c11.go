// Package c11: open snapshot streams never race with reaping (DESIGN §6 C11).
package c11

import (
	"encoding/json"
	"errors"
	"fmt"
	"io"
	"math/rand/v2"
	"os"
	"path/filepath"
	"strings"
	"sync"
	"sync/atomic"
	"time"

	"github.com/rqlite/rqlite/v10/snapshot"
	"github.com/rqlite/rqlite/v10/vexport"
	"verif/checks/c09/snapgen"
	"verif/internal/sqlref"
	"verif/internal/vf"
)

func init() {
	vf.Register("C11", "exploration", run)
	vf.RegisterWorker("c11", worker)
}

type event struct {
	Seq  int64  `json:"seq"`
	Name string `json:"name"`
}

type runOut struct {
	Case          int      `json:"case"`
	Race          bool     `json:"race_build"`
	ReadTimeoutMs int      `json:"read_timeout_ms"`
	Created       int      `json:"snapshots_created"`
	Streams       int      `json:"streams_opened"`
	Completed     int      `json:"streams_read_to_eof"`
	TimedOut      int      `json:"streams_timed_out"`
	OpenConflicts int      `json:"open_refused_reap_active"`
	ReapsExplicit int      `json:"explicit_reaps_ok"`
	ReapExecs     int      `json:"reap_executions"`
	Acquired      int      `json:"acquired_events"`
	Released      int      `json:"released_events"`
	ByTimeout     int      `json:"released_by_timeout"`
	Abandoned     int      `json:"streams_abandoned_near_idle_timeout"`
	Problems      []string `json:"problems"`
	Keys          []string `json:"keys"`
	EventsTail    []event  `json:"events_tail,omitempty"`
	SetupErr      string   `json:"setup_err,omitempty"`
	Interleavings int      `json:"distinct_event_bigrams"`
}

type slowReader struct {
	r     io.Reader
	rnd   *rand.Rand
	stall time.Duration // one long stall after stallAt bytes (0 = none)
	at    int64
	n     int64
	done  bool
	// giveUp: after the stall the reader abandons the stream (returns an error
	// without touching it again), so that its Close lands where the stall ends
	giveUp bool
}

var errGaveUp = errors.New("reader gave up")

func (s *slowReader) Read(p []byte) (int, error) {
	if len(p) > 8192 {
		p = p[:8192]
	}
	if s.stall > 0 && !s.done && s.n >= s.at {
		s.done = true
		time.Sleep(s.stall)
		if s.giveUp {
			return 0, errGaveUp
		}
	} else if s.rnd.IntN(8) == 0 {
		time.Sleep(time.Duration(s.rnd.IntN(3000)) * time.Microsecond)
	}
	n, err := s.r.Read(p)
	s.n += int64(n)
	return n, err
}

func worker(args []string) {
	var caseNo int
	var seed int64
	fmt.Sscan(args[0], &caseNo)
	fmt.Sscan(args[1], &seed)
	tier, dir := args[2], args[3]
	out := runOut{Case: caseNo}
	defer func() { json.NewEncoder(os.Stdout).Encode(out) }()
	c := &vf.Ctx{ID: "C11", Seed: seed, Tier: tier}
	r := c.Rand(uint64(caseNo))
	durMs := 5000
	if tier == "thorough" {
		durMs = 12000
	}
	storeDir := filepath.Join(dir, "store")
	work := filepath.Join(dir, "work")
	os.MkdirAll(work, 0755)
	st, err := snapshot.NewStore(storeDir)
	if err != nil {
		out.SetupErr = err.Error()
		return
	}
	st.SetReapThreshold(2)
	rt := 30 + r.IntN(50)
	out.ReadTimeoutMs = rt
	st.SetReadTimeout(time.Duration(rt) * time.Millisecond)
	src, err := snapgen.NewSource(work, rand.New(rand.NewPCG(uint64(seed)+7, uint64(caseNo)+1)))
	if err != nil {
		out.SetupErr = err.Error()
		return
	}
	defer src.Close()

	// ---- monitor: ordered event log fed by the hook points ----
	var evMu sync.Mutex
	var events []event
	var seq int64
	vexport.HookSetSink(func(name string, _ int64) {
		switch name {
		case "stream.acquired", "stream.release.close", "stream.release.timeout", "reap.exec.begin", "reap.exec.end":
			evMu.Lock()
			seq++
			events = append(events, event{Seq: seq, Name: name})
			evMu.Unlock()
		}
	})
	// inside the idle-timer callback, between its "already closed?" test and the
	// forced close
	vexport.HookSetDelay("stream.idle.check", time.Duration(500+r.IntN(5000))*time.Microsecond)
	for _, p := range []string{"stream.acquired", "stream.release.close", "stream.release.timeout", "reap.exec.begin", "plan.op.after"} {
		if r.IntN(2) == 0 {
			vexport.HookSetDelay(p, time.Duration(r.IntN(4000))*time.Microsecond)
		}
	}

	var mu sync.Mutex
	expected := map[uint64]string{} // snapshot index -> dump hash
	problem := func(key, format string, a ...any) {
		mu.Lock()
		out.Problems = append(out.Problems, fmt.Sprintf(format, a...))
		out.Keys = append(out.Keys, key)
		mu.Unlock()
	}
	stop := make(chan struct{})
	var wg sync.WaitGroup

	// ---- creator (own PRNG: r is not shared between goroutines) ----
	cr := rand.New(rand.NewPCG(uint64(seed)+13, uint64(caseNo)+2))
	var index uint64
	create := func() error {
		index++
		due, err := st.DueNext()
		if err != nil {
			return err
		}
		if err := src.Mutate(2 + cr.IntN(6)); err != nil {
			return err
		}
		sink, err := st.Create(1, index, 1, snapgen.Config(), 1, nil)
		if err != nil {
			return err
		}
		full := due == snapshot.Full || cr.IntN(4) == 0
		stateFile := filepath.Join(work, fmt.Sprintf("state-%d.db", index))
		if full {
			fullFile := filepath.Join(work, fmt.Sprintf("full-%d.db", index))
			if err := src.CutFull(fullFile); err != nil {
				sink.Cancel()
				return err
			}
			exp, err := src.State(stateFile)
			if err != nil {
				sink.Cancel()
				return err
			}
			mu.Lock()
			expected[index] = exp.DumpHash
			mu.Unlock()
			if err := snapgen.FeedFull(sink, fullFile); err != nil {
				sink.Cancel()
				return err
			}
			os.Remove(fullFile)
		} else {
			staging := filepath.Join(work, fmt.Sprintf("staging-%d", index))
			if _, err := src.CutWALStaged(staging); err != nil {
				sink.Cancel()
				return err
			}
			exp, err := src.State(stateFile)
			if err != nil {
				sink.Cancel()
				return err
			}
			mu.Lock()
			expected[index] = exp.DumpHash
			mu.Unlock()
			if err := snapgen.FeedIncremental(sink, staging); err != nil {
				sink.Cancel()
				return err
			}
		}
		os.Remove(stateFile)
		if err := sink.Close(); err != nil {
			return fmt.Errorf("sink close: %w", err)
		}
		mu.Lock()
		out.Created++
		mu.Unlock()
		return nil
	}
	if err := create(); err != nil {
		out.SetupErr = "first snapshot: " + err.Error()
		return
	}
	wg.Add(1)
	go func() {
		defer wg.Done()
		for {
			select {
			case <-stop:
				return
			default:
			}
			if err := create(); err != nil {
				problem("creator-error", "snapshot creation failed: %v", err)
				return
			}
			time.Sleep(time.Duration(5+cr.IntN(60)) * time.Millisecond)
		}
	}()

	// ---- readers ----
	nReaders := 3 + r.IntN(4)
	var streams, completed, timedOut, conflicts, abandoned atomic.Int64
	for ri := 0; ri < nReaders; ri++ {
		wg.Add(1)
		rr := rand.New(rand.NewPCG(uint64(seed)*31+uint64(caseNo), uint64(ri)+5))
		go func(ri int, rr *rand.Rand) {
			defer wg.Done()
			for k := 0; ; k++ {
				select {
				case <-stop:
					return
				default:
				}
				time.Sleep(time.Duration(rr.IntN(30)) * time.Millisecond)
				metas, err := st.ListAll()
				if err != nil || len(metas) == 0 {
					continue
				}
				m := metas[0]
				if rr.IntN(3) == 0 {
					m = metas[rr.IntN(len(metas))]
				}
				meta, rc, err := st.Open(m.ID)
				if err != nil {
					if strings.Contains(err.Error(), "MSRW conflict") {
						conflicts.Add(1)
					} else if !errors.Is(err, snapshot.ErrSnapshotNotFound) && !strings.Contains(err.Error(), "not found") && !strings.Contains(err.Error(), "no such file") {
						// the listed snapshot may have been reaped between ListAll and Open
						problem("open-error", "Open(%s) failed: %v", m.ID, err)
					}
					continue
				}
				streams.Add(1)
				sr := &slowReader{r: rc, rnd: rr}
				switch rr.IntN(8) {
				case 0, 1:
					sr.stall = time.Duration(rt*2+rr.IntN(100)) * time.Millisecond
					sr.at = int64(rr.IntN(20000))
				case 2, 3:
					// abandon the stream just about when its idle timer fires: the
					// Close that follows meets the timer callback
					sr.stall = time.Duration(rt)*time.Millisecond + time.Duration(rr.IntN(9000)-2000)*time.Microsecond
					sr.at = int64(rr.IntN(20000))
					sr.giveUp = true
				}
				// snapshot.Restore puts its temporary WAL files next to dst under fixed
				// names, so every restore gets a directory of its own
				rdir := filepath.Join(work, fmt.Sprintf("restore-%d-%d", ri, k))
				os.MkdirAll(rdir, 0755)
				dst := filepath.Join(rdir, "restored.db")
				_, rerr := snapshot.Restore(sr, dst)
				// A Read that was in flight when the idle timer force-closed the stream
				// fails with the file's own "already closed" error rather than the
				// timeout error; the stream itself tells whether it timed out.
				forced := false
				if rerr != nil {
					_, perr := rc.Read(make([]byte, 1))
					forced = errors.Is(perr, snapshot.ErrSnapshotReaderTimeout)
				}
				// close once / twice / concurrently
				switch rr.IntN(3) {
				case 0:
					rc.Close()
				case 1:
					rc.Close()
					rc.Close()
				default:
					var cw sync.WaitGroup
					for i := 0; i < 2; i++ {
						cw.Add(1)
						go func() { defer cw.Done(); rc.Close() }()
					}
					cw.Wait()
				}
				if rerr != nil {
					if errors.Is(rerr, errGaveUp) {
						abandoned.Add(1)
					} else if errors.Is(rerr, snapshot.ErrSnapshotReaderTimeout) || strings.Contains(rerr.Error(), "idle timeout") || sr.done || forced {
						timedOut.Add(1)
					} else {
						problem("stream-corrupt", "stream of snapshot %s (index %d) did not restore although it never stalled: %v", m.ID, meta.Index, rerr)
					}
				} else {
					completed.Add(1)
					d, derr := sqlref.DumpFile(dst)
					mu.Lock()
					want := expected[meta.Index]
					mu.Unlock()
					if derr != nil {
						problem("stream-corrupt", "restored database of snapshot index %d unreadable: %v", meta.Index, derr)
					} else if want != "" && d.Hash() != want {
						problem("stream-wrong-content", "stream of snapshot %s (index %d) restored to dump %s, expected %s", m.ID, meta.Index, d.Hash(), want)
					}
				}
				os.RemoveAll(rdir)
			}
		}(ri, rr)
	}

	// ---- explicit reaper ----
	wg.Add(1)
	go func() {
		defer wg.Done()
		rr := rand.New(rand.NewPCG(uint64(seed)+99, uint64(caseNo)))
		for {
			select {
			case <-stop:
				return
			default:
			}
			time.Sleep(time.Duration(20+rr.IntN(120)) * time.Millisecond)
			if _, _, err := st.Reap(); err == nil {
				mu.Lock()
				out.ReapsExplicit++
				mu.Unlock()
			} else if !strings.Contains(err.Error(), "MSRW conflict") {
				problem("reap-error", "Reap failed: %v", err)
			}
		}
	}()

	time.Sleep(time.Duration(durMs) * time.Millisecond)
	close(stop)
	wg.Wait()
	// quiescence: every stream is closed; the idle timers may still be pending
	time.Sleep(time.Duration(rt*3+200) * time.Millisecond)
	out.Streams, out.Completed, out.TimedOut, out.OpenConflicts = int(streams.Load()), int(completed.Load()), int(timedOut.Load()), int(conflicts.Load())
	out.Abandoned = int(abandoned.Load())

	// bounded progress: with no stream open a reap must get the write lock
	var reapErr error
	for i := 0; i < 100; i++ {
		_, _, reapErr = st.Reap()
		if reapErr == nil || !strings.Contains(reapErr.Error(), "owner: reap") {
			break
		}
		time.Sleep(50 * time.Millisecond) // auto-reaper still busy
	}
	if reapErr != nil {
		if strings.Contains(reapErr.Error(), "readers active") {
			problem("hold-leaked", "after every stream was closed a reap still sees active readers: %v", reapErr)
		} else {
			problem("reap-error", "final Reap failed: %v", reapErr)
		}
	}
	st.Close()

	// ---- offline check of the event log ----
	evMu.Lock()
	evs := append([]event(nil), events...)
	evMu.Unlock()
	open, inReap := 0, false
	bigrams := map[string]bool{}
	for i, e := range evs {
		if i > 0 {
			bigrams[evs[i-1].Name+">"+e.Name] = true
		}
		switch e.Name {
		case "stream.acquired":
			out.Acquired++
			open++
			if inReap {
				problem("stream-acquired-during-reap", "event %d: a stream was opened while a reap plan was executing", e.Seq)
			}
		case "stream.release.close", "stream.release.timeout":
			out.Released++
			if e.Name == "stream.release.timeout" {
				out.ByTimeout++
			}
			open--
			if open < 0 {
				problem("double-release", "event %d: more releases than acquisitions", e.Seq)
				open = 0
			}
		case "reap.exec.begin":
			out.ReapExecs++
			inReap = true
			if open > 0 {
				problem("reap-with-open-stream", "event %d: a reap plan started executing while %d stream(s) were open", e.Seq, open)
			}
		case "reap.exec.end":
			inReap = false
		}
	}
	out.Interleavings = len(bigrams)
	if out.Acquired != out.Released {
		problem("release-count", "%d streams acquired the store lock but %d released it", out.Acquired, out.Released)
	}
	if len(out.Problems) > 0 && len(evs) > 0 {
		lo := len(evs) - 40
		if lo < 0 {
			lo = 0
		}
		out.EventsTail = evs[lo:]
	}
}

func run(c *vf.Ctx) {
	c.Rule("run = one real snapshot.Store (reap threshold 2, read idle timeout 30-80 ms) driven for 5 s (quick) / 12 s (thorough) by a creator alternating full and incremental sinks fed with real SQLite data, 3-6 readers (open newest or a random listed snapshot, read through snapshot.Restore with random pauses, a quarter stalling beyond the idle timeout, a quarter abandoning the stream just about when its idle timer fires, close once / twice / concurrently), an explicit Reap caller and the auto-reaper, with seeded sleeps at the hook points around lock acquire/release and inside the idle-timer callback; half of the runs in a -race build. Monitors: content of every stream read to EOF (restores to the database recorded for that snapshot index), ordered hook event log (no reap plan executes while a stream is open, acquisitions = releases, never more releases than acquisitions), reader-count panic, final Reap obtains the lock, race reports in snapshot/ and internal/rsync. non-trivial = run with >= 1 reap execution, >= 1 timed-out stream and >= 1 completed stream; distinct by case")
	c.Assume("a stream that stalled beyond the idle timeout, or that the store itself reports as timed out (a reader descheduled for longer than the 30-80 ms timeout on a loaded machine), may fail; nothing is asserted about its bytes")
	n := c.N(6, 60)
	tmp := vf.TempDir("c11")
	defer os.RemoveAll(tmp)
	outs := make([]runOut, n)
	raceLogs := make([]string, n)
	sem := make(chan struct{}, c.N(3, 4))
	var wg sync.WaitGroup
	for i := 0; i < n; i++ {
		wg.Add(1)
		go func(i int) {
			defer wg.Done()
			sem <- struct{}{}
			defer func() { <-sem }()
			race := i%2 == 1
			dir := filepath.Join(tmp, fmt.Sprintf("r%d", i))
			os.MkdirAll(dir, 0755)
			var env []string
			if race {
				raceLogs[i] = filepath.Join(tmp, fmt.Sprintf("race%d", i))
				env = append(env, "GORACE=halt_on_error=0 exitcode=0 log_path="+raceLogs[i])
			}
			logPath := filepath.Join(tmp, fmt.Sprintf("r%d.log", i))
			b, code, ok := vf.RunWorkerOnce(race, "c11", []string{fmt.Sprint(i), fmt.Sprint(c.Seed), c.Tier, dir}, env, logPath, 5*time.Minute)
			var o runOut
			if err := json.Unmarshal(b, &o); err != nil || !ok {
				o = runOut{Case: i, SetupErr: fmt.Sprintf("worker exit=%d finished=%v", code, ok)}
				if lb, _ := os.ReadFile(logPath); strings.Contains(string(lb), "reader count went negative") {
					o.SetupErr = ""
					o.Problems = []string{"worker panicked: reader count went negative (a stream released its hold twice)"}
					o.Keys = []string{"double-release"}
				} else if strings.Contains(string(lb), "panic:") || strings.Contains(string(lb), "fatal") {
					o.SetupErr = ""
					o.Problems = []string{"worker died: " + lastLines(string(lb), 6)}
					o.Keys = []string{"worker-died"}
				}
			}
			o.Race = race
			outs[i] = o
			os.RemoveAll(dir)
		}(i)
	}
	wg.Wait()
	for i, o := range outs {
		c.Eval(1)
		if o.SetupErr != "" {
			c.Logf("run %d: %s", i, o.SetupErr)
			c.Inconclusive("setup")
			continue
		}
		c.Count("snapshots_created", int64(o.Created))
		c.Count("streams_opened", int64(o.Streams))
		c.Count("streams_completed", int64(o.Completed))
		c.Count("streams_timed_out", int64(o.TimedOut))
		c.Count("reap_executions", int64(o.ReapExecs))
		c.Count("released_by_timeout", int64(o.ByTimeout))
		c.Count("streams_abandoned_near_idle_timeout", int64(o.Abandoned))
		c.Count("open_refused_reap_active", int64(o.OpenConflicts))
		c.Count("distinct_event_bigrams", int64(o.Interleavings))
		if o.ReapExecs > 0 && o.TimedOut > 0 && o.Completed > 0 {
			c.Nontrivial(fmt.Sprintf("run%d/%d/%d/%d", i, o.ReapExecs, o.Streams, o.ByTimeout))
		}
		if len(o.Problems) > 0 {
			seen := map[string]bool{}
			for k, p := range o.Problems {
				if seen[o.Keys[k]] {
					continue
				}
				seen[o.Keys[k]] = true
				c.Violation(o.Keys[k], fmt.Sprintf("run %d (race build %v): %s", i, o.Race, p), o)
			}
			continue
		}
		c.Held(1)
		c.Sample(o)
	}
	for i, p := range raceLogs {
		if p == "" {
			continue
		}
		files, _ := filepath.Glob(p + ".*")
		for _, f := range files {
			b, _ := os.ReadFile(f)
			for _, blk := range strings.Split(string(b), "==================") {
				if !strings.Contains(blk, "WARNING: DATA RACE") {
					continue
				}
				c.Count("race_reports", 1)
				inPkg := strings.Contains(blk, "rqlite/v10/snapshot.") || strings.Contains(blk, "rqlite/v10/internal/rsync.")
				keepAll := filepath.Join(vf.Out, "replays", fmt.Sprintf("C11-%d-racelog%d.txt", c.Seed, i))
				os.MkdirAll(filepath.Dir(keepAll), 0755)
				os.WriteFile(keepAll, b, 0644)
				if inPkg && !strings.Contains(blk, "verif/checks/") {
					keep := filepath.Join(vf.Out, "replays", fmt.Sprintf("C11-%d-race%d.txt", c.Seed, i))
					os.MkdirAll(filepath.Dir(keep), 0755)
					os.WriteFile(keep, b, 0644)
					c.Violation("data-race:snapshot", "race detector report with frames only in snapshot/rsync; log "+keep, map[string]any{"run": i, "report": blk})
				}
			}
		}
	}
	c.Require(int64(n*2/3), 2)
}

func lastLines(s string, n int) string {
	l := strings.Split(strings.TrimSpace(s), "\n")
	if len(l) > n {
		l = l[len(l)-n:]
	}
	return strings.Join(l, " | ")
}
