// Package nscript is a small op-script + sequential model used by the
// child-process checks (C03, C33, C22, C04): uniquely tagged, non-idempotent
// writes, snapshots, reaps, loads and boots against a real rqlited process.
package nscript

import (
	"encoding/json"
	"fmt"
	"net/url"
	"os"
	"path/filepath"
	"strings"
	"sync"
	"time"

	"verif/internal/procnode"
	"verif/internal/sqlref"
)

// Op is one script step.
type Op struct {
	Kind string `json:"kind"` // init | write | snapshot | reap | load | boot | restart | restart-nosnap
	Arg  int    `json:"arg"`
}

func (o Op) String() string { return fmt.Sprintf("%s(%d)", o.Kind, o.Arg) }

// Model is the sequential model of the database: a counter and a tag list.
type Model struct {
	Init bool     `json:"init"`
	N    int64    `json:"n"`
	Tags []string `json:"tags"`
}

// Clone copies the model.
func (m Model) Clone() Model {
	return Model{Init: m.Init, N: m.N, Tags: append([]string(nil), m.Tags...)}
}

// Apply returns the model after op took effect.
func (m Model) Apply(o Op) Model {
	r := m.Clone()
	switch o.Kind {
	case "init":
		r = Model{Init: true}
	case "write":
		r.N++
		r.Tags = append(r.Tags, fmt.Sprintf("w%d", o.Arg))
	case "load", "boot":
		r = LoadedModel(o.Arg)
	}
	return r
}

// Equal compares two models.
func (m Model) Equal(o Model) bool {
	if m.Init != o.Init || m.N != o.N || len(m.Tags) != len(o.Tags) {
		return false
	}
	for i := range m.Tags {
		if m.Tags[i] != o.Tags[i] {
			return false
		}
	}
	return true
}

func (m Model) String() string {
	t := m.Tags
	s := fmt.Sprintf("n=%d tags(%d)=", m.N, len(t))
	if len(t) > 8 {
		return s + strings.Join(t[:3], ",") + ",…," + strings.Join(t[len(t)-4:], ",")
	}
	return s + strings.Join(t, ",")
}

// LoadedModel is the content of the database generated for load/boot k.
func LoadedModel(k int) Model {
	m := Model{Init: true, N: int64(1000 * (k + 1))}
	for i := 0; i < 3+k%4; i++ {
		m.Tags = append(m.Tags, fmt.Sprintf("L%d-%d", k, i))
	}
	return m
}

// Schema statements.
var Schema = []string{
	"CREATE TABLE c (n INTEGER NOT NULL)",
	"INSERT INTO c(n) VALUES(0)",
	"CREATE TABLE t (id INTEGER PRIMARY KEY AUTOINCREMENT, tag TEXT NOT NULL, pad BLOB)",
}

// GenDB writes the SQLite file for load/boot k (WAL mode when k is odd). The
// rows are large enough for table t to span several leaf pages, so that pages
// of a loaded database that later writes do not touch exist.
func GenDB(path string, k int) error {
	os.Remove(path)
	db, err := sqlref.Open(path)
	if err != nil {
		return err
	}
	defer db.Close()
	if k%2 == 1 {
		if _, err := db.Exec("PRAGMA journal_mode=WAL"); err != nil {
			return err
		}
	}
	m := LoadedModel(k)
	stmts := []string{Schema[0], fmt.Sprintf("INSERT INTO c(n) VALUES(%d)", m.N), Schema[2]}
	for _, t := range m.Tags {
		stmts = append(stmts, fmt.Sprintf("INSERT INTO t(tag, pad) VALUES('%s', randomblob(%d))", t, 2600+k*137))
	}
	for _, s := range stmts {
		if _, err := db.Exec(s); err != nil {
			return fmt.Errorf("%s: %w", s, err)
		}
	}
	if k%2 == 1 {
		if _, err := db.Exec("PRAGMA wal_checkpoint(TRUNCATE)"); err != nil {
			return err
		}
	}
	return nil
}

// Outcome of executing one op.
type Outcome int

const (
	Acked   Outcome = iota // definitely took effect (or was a no-effect op that succeeded)
	Failed                 // definitely did not take effect (clean error response)
	Unknown                // transport error / process died: may or may not have taken effect
)

func (o Outcome) String() string { return [...]string{"acked", "failed", "unknown"}[o] }

var slowReads sync.Map // *procnode.Node -> chan struct{} closed when the background read returned

// slowSQL reads table c first (which opens the read transaction) and then
// counts through a recursive CTE.
const slowSQL = "SELECT count(*) FROM (SELECT n FROM c) AS a, (WITH RECURSIVE r(x) AS (SELECT 1 UNION ALL SELECT x+1 FROM r WHERE x < 4000000) SELECT x FROM r) AS b"

// Exec runs op against node n. scratch is a directory for generated files.
func Exec(n *procnode.Node, o Op, scratch string) (Outcome, string) {
	switch o.Kind {
	case "init":
		r := n.PostJSON("/db/execute?transaction", Schema)
		return classify(r)
	case "write":
		r := n.PostJSON("/db/execute?transaction", []any{
			[]any{"INSERT INTO t(tag, pad) VALUES(?, randomblob(?))", fmt.Sprintf("w%d", o.Arg), 100 + (o.Arg%7)*300},
			"UPDATE c SET n=n+1",
		})
		return classify(r)
	case "snapshot":
		r := n.Do("POST", "/snapshot", nil, "")
		if r.Err != nil {
			return Unknown, r.Err.Error()
		}
		if r.Status == 200 || r.Status == 204 {
			return Acked, ""
		}
		return Failed, fmt.Sprintf("status %d: %s", r.Status, r.Body)
	case "slow-read-begin":
		// A query that holds its read transaction (and with it the end of the WAL)
		// for a second or so runs in the background; the ops that follow - a
		// snapshot, whose checkpoint then cannot reset the WAL, and writes, which
		// SQLite appends to that same WAL - meet it. No effect on the state.
		ch := make(chan struct{})
		slowReads.Store(n, ch)
		go func() {
			defer close(ch)
			n.Do("GET", "/db/query?level=none&q="+url.QueryEscape(slowSQL), nil, "")
		}()
		time.Sleep(250 * time.Millisecond)
		return Acked, ""
	case "slow-read-end":
		if v, ok := slowReads.LoadAndDelete(n); ok {
			select {
			case <-v.(chan struct{}):
			case <-time.After(60 * time.Second):
			}
		}
		return Acked, ""
	case "reap":
		r := n.Do("POST", "/reap", nil, "")
		if r.Err != nil {
			return Unknown, r.Err.Error()
		}
		if r.Status == 200 {
			return Acked, ""
		}
		return Failed, fmt.Sprintf("status %d: %s", r.Status, r.Body)
	case "load", "boot":
		p := filepath.Join(scratch, fmt.Sprintf("gen-%s-%d.db", o.Kind, o.Arg))
		if err := GenDB(p, o.Arg); err != nil {
			return Failed, "gen: " + err.Error()
		}
		b, err := os.ReadFile(p)
		os.Remove(p)
		os.Remove(p + "-wal")
		os.Remove(p + "-shm")
		if err != nil {
			return Failed, err.Error()
		}
		path := "/db/load"
		if o.Kind == "boot" {
			path = "/boot"
		}
		r := n.Do("POST", path, b, "application/octet-stream")
		if r.Err != nil {
			return Unknown, r.Err.Error()
		}
		if r.Status != 200 {
			// A boot/load that reports an error may already have swapped the database.
			return Unknown, fmt.Sprintf("status %d: %s", r.Status, r.Body)
		}
		if o.Kind == "load" {
			if a, err := r.Parse(); err == nil && a.Error != "" {
				return Unknown, a.Error
			}
		}
		return Acked, ""
	}
	return Failed, "unknown op " + o.Kind
}

func classify(r procnode.Resp) (Outcome, string) {
	if r.Err != nil {
		return Unknown, r.Err.Error()
	}
	a, err := r.Parse()
	if err != nil {
		return Unknown, err.Error()
	}
	if r.Status != 200 {
		return Unknown, fmt.Sprintf("status %d: %s", r.Status, r.Body)
	}
	if a.Error != "" {
		return Unknown, a.Error
	}
	for _, x := range a.Results {
		if x.Error != "" {
			return Failed, x.Error
		}
	}
	return Acked, ""
}

// ReadState reads the model state from a running node (strong read, so that
// everything in the log is applied first).
func ReadState(n *procnode.Node) (Model, error) {
	var m Model
	q := func(sql string) (*procnode.APIResponse, error) {
		r := n.Do("GET", "/db/query?level=strong&q="+url.QueryEscape(sql), nil, "")
		a, err := r.Parse()
		if err != nil {
			return nil, err
		}
		if r.Status != 200 || a.Error != "" {
			return nil, fmt.Errorf("status %d error %q", r.Status, a.Error)
		}
		return a, nil
	}
	a, err := q("SELECT n FROM c")
	if err != nil {
		return m, err
	}
	if len(a.Results) != 1 {
		return m, fmt.Errorf("bad result")
	}
	if a.Results[0].Error != "" {
		if strings.Contains(a.Results[0].Error, "no such table") {
			return Model{}, nil
		}
		return m, fmt.Errorf("%s", a.Results[0].Error)
	}
	if len(a.Results[0].Values) != 1 {
		return m, fmt.Errorf("table c has %d rows", len(a.Results[0].Values))
	}
	m.Init = true
	if num, ok := a.Results[0].Values[0][0].(json.Number); ok {
		m.N, _ = num.Int64()
	}
	a, err = q("SELECT tag FROM t ORDER BY id")
	if err != nil {
		return m, err
	}
	if len(a.Results) != 1 || a.Results[0].Error != "" {
		return m, fmt.Errorf("tags: %v", a.Results)
	}
	for _, row := range a.Results[0].Values {
		m.Tags = append(m.Tags, fmt.Sprint(row[0]))
	}
	return m, nil
}
