package c08

import (
	"bytes"
	"compress/gzip"
	"encoding/binary"
	"encoding/json"
	"fmt"
	"io"
	"math/rand/v2"
	"os"
	"path/filepath"
	"sort"
	"time"

	"github.com/hashicorp/raft"
	rdb "github.com/rqlite/rqlite/v10/db"
	"verif/checks/c07"
	"verif/internal/sqlref"
)

// Input describes one old-format raft directory.
type Input struct {
	// Kind: v7-fixture | v7-fixture-empty | v8-fixture | v7-gen | v8-gen
	Kind   string `json:"kind"`
	Seed   uint64 `json:"seed"`
	NSnaps int    `json:"n_snaps,omitempty"`
	// WALMode (v8-gen): the <id>.db files are checkpointed WAL-mode files
	// (as v8/v9 wrote them); otherwise DELETE-mode files.
	WALMode bool `json:"wal_mode,omitempty"`
	// OlderBare (v7-gen): older snapshot directories hold only meta.json, as
	// in the checked-in v7.20.3 fixture.
	OlderBare bool `json:"older_bare,omitempty"`
}

// Key is the canonical text of an input.
func (in Input) Key() string {
	return fmt.Sprintf("%s/n%d/wal=%v/bare=%v#%d", in.Kind, in.NSnaps, in.WALMode, in.OlderBare, in.Seed)
}

// GenResult is what the generator reports: the newest original snapshot.
type GenResult struct {
	OK    bool   `json:"ok"`
	Err   string `json:"err,omitempty"`
	ID    string `json:"id"`
	Index uint64 `json:"index"`
	Term  uint64 `json:"term"`
	Cfg   string `json:"cfg"`
	Snaps int    `json:"snaps"`
	Bytes int64  `json:"db_bytes"`
}

func repoRoot() string {
	if r := os.Getenv("VERIF_REPO"); r != "" {
		return r
	}
	return "/repo"
}

func fixtureDir(name string) string {
	return filepath.Join(repoRoot(), "snapshot", "testdata", "upgrade", name)
}

func readMeta(path string) (*raft.SnapshotMeta, error) {
	b, err := os.ReadFile(path)
	if err != nil {
		return nil, err
	}
	m := &raft.SnapshotMeta{}
	if err := json.Unmarshal(b, m); err != nil {
		return nil, err
	}
	return m, nil
}

// newestMeta picks the newest snapshot (term, index, id) among the snapshot
// directories of dir that satisfy ok.
func newestMeta(dir string, ok func(id string) bool) (*raft.SnapshotMeta, error) {
	ents, err := os.ReadDir(dir)
	if err != nil {
		return nil, err
	}
	var ms []*raft.SnapshotMeta
	for _, e := range ents {
		if !e.IsDir() || !ok(e.Name()) {
			continue
		}
		m, err := readMeta(filepath.Join(dir, e.Name(), "meta.json"))
		if err != nil {
			continue
		}
		ms = append(ms, m)
	}
	if len(ms) == 0 {
		return nil, fmt.Errorf("no snapshot in %s", dir)
	}
	sort.Slice(ms, func(i, j int) bool {
		if ms[i].Term != ms[j].Term {
			return ms[i].Term < ms[j].Term
		}
		if ms[i].Index != ms[j].Index {
			return ms[i].Index < ms[j].Index
		}
		return ms[i].ID < ms[j].ID
	})
	return ms[len(ms)-1], nil
}

// gunzipState extracts the SQLite bytes of a v7 state.bin (16-byte header,
// then gzip). A header-only file yields an empty database file.
func gunzipState(statePath, out string) error {
	b, err := os.ReadFile(statePath)
	if err != nil {
		return err
	}
	if len(b) < 16 {
		return fmt.Errorf("state.bin too small")
	}
	if len(b) == 16 {
		return os.WriteFile(out, nil, 0644)
	}
	zr, err := gzip.NewReader(bytes.NewReader(b[16:]))
	if err != nil {
		return err
	}
	data, err := io.ReadAll(zr)
	if err != nil {
		return err
	}
	return os.WriteFile(out, data, 0644)
}

func writeV7State(path string, sqlite []byte) error {
	var z bytes.Buffer
	zw, _ := gzip.NewWriterLevel(&z, gzip.BestSpeed)
	zw.Write(sqlite)
	zw.Close()
	var hdr [16]byte
	binary.LittleEndian.PutUint64(hdr[0:8], ^uint64(0)) // v7 "compressed" marker
	binary.LittleEndian.PutUint64(hdr[8:16], uint64(z.Len()))
	return os.WriteFile(path, append(hdr[:], z.Bytes()...), 0644)
}

func writeMetaFile(dir string, m *raft.SnapshotMeta) error {
	if err := os.MkdirAll(dir, 0755); err != nil {
		return err
	}
	b, err := json.Marshal(m)
	if err != nil {
		return err
	}
	return os.WriteFile(filepath.Join(dir, "meta.json"), b, 0644)
}

// Generate builds <out>/raft/{snapshots|rsnapshots} and <out>/truth.db.
func Generate(in Input, out string) (res GenResult) {
	fail := func(err error) GenResult {
		res.Err = err.Error()
		return res
	}
	raftDir := filepath.Join(out, "raft")
	if err := os.MkdirAll(raftDir, 0755); err != nil {
		return fail(err)
	}
	truth := filepath.Join(out, "truth.db")
	done := func(m *raft.SnapshotMeta, n int) GenResult {
		cb, _ := json.Marshal(m.Configuration)
		st, _ := os.Stat(truth)
		res = GenResult{OK: true, ID: m.ID, Index: m.Index, Term: m.Term, Cfg: string(cb), Snaps: n}
		if st != nil {
			res.Bytes = st.Size()
		}
		return res
	}
	switch in.Kind {
	case "v7-fixture", "v7-fixture-empty":
		name := "v7.20.3-snapshots"
		if in.Kind == "v7-fixture-empty" {
			name = "v7.20.3-empty-snapshots"
		}
		dst := filepath.Join(raftDir, "snapshots")
		if err := sqlref.CopyTree(fixtureDir(name), dst); err != nil {
			return fail(err)
		}
		m, err := newestMeta(dst, func(string) bool { return true })
		if err != nil {
			return fail(err)
		}
		if err := gunzipState(filepath.Join(dst, m.ID, "state.bin"), truth); err != nil {
			return fail(err)
		}
		ents, _ := os.ReadDir(dst)
		return done(m, len(ents))
	case "v8-fixture":
		dst := filepath.Join(raftDir, "rsnapshots")
		if err := sqlref.CopyTree(fixtureDir("v9.4.1-snapshots"), dst); err != nil {
			return fail(err)
		}
		m, err := newestMeta(dst, func(id string) bool {
			_, err := os.Stat(filepath.Join(dst, id+".db"))
			return err == nil
		})
		if err != nil {
			return fail(err)
		}
		if err := sqlref.CopyFile(filepath.Join(dst, m.ID+".db"), truth); err != nil {
			return fail(err)
		}
		return done(m, 1)
	case "v7-gen", "v8-gen":
	default:
		return fail(fmt.Errorf("unknown kind %q", in.Kind))
	}

	r := rand.New(rand.NewPCG(in.Seed, 0xc08))
	work := filepath.Join(out, "work")
	os.MkdirAll(work, 0755)
	defer os.RemoveAll(work)
	walMode := in.Kind == "v8-gen" && in.WALMode
	live, err := rdb.Open(filepath.Join(work, "live.db"), false, walMode)
	if err != nil {
		return fail(err)
	}
	defer live.Close()
	w := c07.NewWorkload(r)
	index, term := 5+uint64(r.IntN(500)), 1+uint64(r.IntN(4))
	cfg := c07.MakeConfiguration(r)
	msec := time.Date(2023, 6, 13, 12, 0, 0, 0, time.UTC).UnixMilli() + int64(r.IntN(1e6))
	n := in.NSnaps
	if n < 1 {
		n = 1
	}
	var last *raft.SnapshotMeta
	for i := 0; i < n; i++ {
		if err := w.Exec(live, w.Batch(4+r.IntN(14))); err != nil {
			return fail(err)
		}
		if walMode {
			meta, err := live.Checkpoint(rdb.CheckpointTruncate)
			if err != nil || !meta.Success() {
				return fail(fmt.Errorf("checkpoint: %v %v", err, meta))
			}
		}
		index += 1 + uint64(r.IntN(60))
		if r.IntN(3) == 0 {
			term++
		}
		msec += 1000 + int64(r.IntN(5000))
		id := fmt.Sprintf("%d-%d-%d", term, index, msec)
		snapFile := filepath.Join(work, "snap.db")
		if err := sqlref.CopyFile(live.Path(), snapFile); err != nil {
			return fail(err)
		}
		st, _ := os.Stat(snapFile)
		m := &raft.SnapshotMeta{Version: 1, ID: id, Index: index, Term: term, Configuration: cfg, ConfigurationIndex: 1, Size: st.Size()}
		newest := i == n-1
		if in.Kind == "v7-gen" {
			sdir := filepath.Join(raftDir, "snapshots", id)
			if err := writeMetaFile(sdir, m); err != nil {
				return fail(err)
			}
			if newest || !in.OlderBare {
				data, err := os.ReadFile(snapFile)
				if err != nil {
					return fail(err)
				}
				if err := writeV7State(filepath.Join(sdir, "state.bin"), data); err != nil {
					return fail(err)
				}
			}
		} else {
			root := filepath.Join(raftDir, "rsnapshots")
			if err := writeMetaFile(filepath.Join(root, id), m); err != nil {
				return fail(err)
			}
			if err := sqlref.CopyFile(snapFile, filepath.Join(root, id+".db")); err != nil {
				return fail(err)
			}
		}
		if newest {
			if err := sqlref.CopyFile(snapFile, truth); err != nil {
				return fail(err)
			}
			last = m
		}
	}
	return done(last, n)
}
