package c30

// Worker side of C30: one real single-node rqlite (harness A) reached over real
// HTTP, one plain SQLite reference database driven by the harness itself, and
// the comparison of what came back.

import (
	"bytes"
	"database/sql"
	"encoding/base64"
	"encoding/hex"
	"encoding/json"
	"fmt"
	"math"
	"net/url"
	"os"
	"path/filepath"
	"strconv"
	"strings"
	"time"
	"unicode/utf8"

	"verif/internal/hcluster"
	"verif/internal/sqlref"
	"verif/internal/vf"
)

const schema = `CREATE TABLE vals (id INTEGER PRIMARY KEY, c INTEGER NOT NULL, k INTEGER NOT NULL, u, i INTEGER, r REAL, t TEXT, b BLOB)`
const schemaIdx = `CREATE INDEX vals_c ON vals(c)`

// Mismatch is one disagreement between rqlite and the reference.
type Mismatch struct {
	Key   string `json:"key"`
	What  string `json:"what"`
	Req   string `json:"req,omitempty"`
	Body  string `json:"body,omitempty"`
	Reply string `json:"reply,omitempty"`
}

// CaseResult is what the worker reports per case.
type CaseResult struct {
	No          int              `json:"no"`
	Key         string           `json:"key"`
	Hard        bool             `json:"hard"`
	Case        *Case            `json:"case,omitempty"` // full case: only for samples, mismatches and inconclusive cases
	Requests    int              `json:"requests"`
	Comparisons int              `json:"comparisons"`
	Mismatches  []Mismatch       `json:"mismatches,omitempty"`
	Inconcl     string           `json:"inconclusive,omitempty"`
	Counts      map[string]int64 `json:"counts,omitempty"`
}

type workerOut struct {
	SetupErr string      `json:"setup_err,omitempty"`
	Result   *CaseResult `json:"result,omitempty"`
}

// refVal is a value as the reference SQLite returned it.
type refVal struct {
	class string // integer real text blob null
	i     int64
	f     float64
	s     string
	y     []byte
}

func (v refVal) String() string {
	switch v.class {
	case "integer":
		return fmt.Sprintf("integer %d", v.i)
	case "real":
		return fmt.Sprintf("real %s (bits %016x)", strconv.FormatFloat(v.f, 'g', -1, 64), math.Float64bits(v.f))
	case "text":
		return fmt.Sprintf("text %s", truncQ(v.s))
	case "blob":
		h := hex.EncodeToString(v.y)
		if len(h) > 80 {
			h = h[:80] + "…"
		}
		return "blob x'" + h + "'"
	}
	return "null"
}

func truncQ(s string) string {
	q := strconv.Quote(s)
	if len(q) > 120 {
		q = q[:120] + "…"
	}
	return q
}

func toRef(x any) refVal {
	switch v := x.(type) {
	case nil:
		return refVal{class: "null"}
	case int64:
		return refVal{class: "integer", i: v}
	case float64:
		return refVal{class: "real", f: v}
	case string:
		return refVal{class: "text", s: v}
	case []byte:
		return refVal{class: "blob", y: append([]byte{}, v...)}
	case bool:
		if v {
			return refVal{class: "integer", i: 1}
		}
		return refVal{class: "integer", i: 0}
	}
	return refVal{class: fmt.Sprintf("?%T", x)}
}

// colSpec describes one selected column of a statement.
type colSpec struct {
	name  string // unique alias
	where string // expression | untyped-column | integer-column | ...
}

type stmtSpec struct {
	sql   string
	cols  []colSpec
	args  []any    // reference args (sql.Named for named)
	pjson []string // JSON fragments following the SQL text in the request item
	label string
	// keyFn, when set, may name the finding key for a mismatch in column ci
	// ("" = use the default key)
	keyFn func(ci int, suffix string, got any, blobArray bool) string
}

// refQuery runs the statement on the reference database.
func refQuery(db *sql.DB, st *stmtSpec) ([][]refVal, error) {
	rows, err := db.Query(st.sql, st.args...)
	if err != nil {
		return nil, err
	}
	defer rows.Close()
	cols, err := rows.Columns()
	if err != nil {
		return nil, err
	}
	if len(cols) != len(st.cols) {
		return nil, fmt.Errorf("reference returned %d columns, statement declares %d", len(cols), len(st.cols))
	}
	var out [][]refVal
	for rows.Next() {
		vals := make([]any, len(cols))
		ptrs := make([]any, len(cols))
		for i := range vals {
			ptrs[i] = &vals[i]
		}
		if err := rows.Scan(ptrs...); err != nil {
			return nil, err
		}
		row := make([]refVal, len(cols))
		for i := range vals {
			row[i] = toRef(vals[i])
		}
		out = append(out, row)
	}
	return out, rows.Err()
}

func (st *stmtSpec) item() string {
	if len(st.pjson) == 0 {
		return "[" + jstr(st.sql) + "]"
	}
	return "[" + jstr(st.sql) + "," + strings.Join(st.pjson, ",") + "]"
}

// form: bit0 associative, bit1 blob_array.
func formQuery(form int) string {
	s := ""
	if form&1 != 0 {
		s += "&associative"
	}
	if form&2 != 0 {
		s += "&blob_array"
	}
	return s
}

func formName(form int) string {
	return []string{"array", "associative", "array+blob_array", "associative+blob_array"}[form&3]
}

// lossyText is how a byte string looks after Go's JSON encoder took it for text.
func lossyText(y []byte) string {
	var sb strings.Builder
	for len(y) > 0 {
		r, n := utf8.DecodeRune(y)
		if r == utf8.RuneError && n == 1 {
			sb.WriteRune(utf8.RuneError)
		} else {
			sb.WriteRune(r)
		}
		y = y[n:]
	}
	return sb.String()
}

// compareValue compares one decoded JSON value with the reference value.
// It returns "" when they agree, otherwise (key-suffix, description).
func compareValue(exp refVal, got any, blobArray bool) (string, string) {
	describe := func() string {
		b, _ := json.Marshal(got)
		s := string(b)
		if len(s) > 160 {
			s = s[:160] + "…"
		}
		return s
	}
	switch exp.class {
	case "null":
		if got == nil {
			return "", ""
		}
		return "null:value", "expected null, got " + describe()
	case "integer":
		n, ok := got.(json.Number)
		if !ok {
			return "integer:type", fmt.Sprintf("expected %s, got %s", exp, describe())
		}
		i, err := n.Int64()
		if err != nil || i != exp.i {
			return "integer:value", fmt.Sprintf("expected %s, got %s", exp, describe())
		}
		return "", ""
	case "real":
		n, ok := got.(json.Number)
		if !ok {
			return "real:type", fmt.Sprintf("expected %s, got %s", exp, describe())
		}
		f, err := strconv.ParseFloat(n.String(), 64)
		if err != nil || math.Float64bits(f) != math.Float64bits(exp.f) {
			return "real:value", fmt.Sprintf("expected %s, got %s", exp, describe())
		}
		return "", ""
	case "text":
		s, ok := got.(string)
		if !ok {
			return "text:type", fmt.Sprintf("expected %s, got %s", exp, describe())
		}
		if s != exp.s {
			return "text:value", fmt.Sprintf("expected %s, got %s", exp, describe())
		}
		return "", ""
	case "blob":
		if blobArray {
			if a, ok := got.([]any); ok {
				y := make([]byte, 0, len(a))
				for _, e := range a {
					n, ok := e.(json.Number)
					if !ok {
						return "blob:value", fmt.Sprintf("expected %s, got %s", exp, describe())
					}
					i, err := n.Int64()
					if err != nil || i < 0 || i > 255 {
						return "blob:value", fmt.Sprintf("expected %s, got %s", exp, describe())
					}
					y = append(y, byte(i))
				}
				if !bytes.Equal(y, exp.y) {
					return "blob:value", fmt.Sprintf("expected %s, got %s", exp, describe())
				}
				return "", ""
			}
		} else if s, ok := got.(string); ok {
			if y, err := base64.StdEncoding.DecodeString(s); err == nil && bytes.Equal(y, exp.y) {
				// the one ambiguous spelling: an empty blob and an empty text are both ""
				return "", ""
			}
		}
		if s, ok := got.(string); ok && s == lossyText(exp.y) {
			return "blob-as-text", fmt.Sprintf("expected %s (base64 %q), got the bytes as a JSON text string %s", exp, base64.StdEncoding.EncodeToString(exp.y), describe())
		}
		return "blob:value", fmt.Sprintf("expected %s, got %s", exp, describe())
	}
	return "reference:class", "reference returned unknown class " + exp.class
}

type node struct {
	cl *hcluster.Cluster
	n  *hcluster.Node
}

type runner struct {
	nd     *node
	ref    *sql.DB
	res    *CaseResult
	counts map[string]int64
}

func (r *runner) mismatch(key, what, req, body string, reply []byte) {
	// at most two reports per key, so that a frequent (known) disagreement
	// cannot crowd out a different one in the same case
	n := 0
	for _, m := range r.res.Mismatches {
		if m.Key == key {
			n++
		}
	}
	r.counts["mismatch_values:"+key]++
	if n >= 2 || len(r.res.Mismatches) >= 40 {
		return
	}
	rp := string(reply)
	if len(rp) > 600 {
		rp = rp[:600] + "…"
	}
	if len(body) > 600 {
		body = body[:600] + "…"
	}
	r.res.Mismatches = append(r.res.Mismatches, Mismatch{Key: key, What: what, Req: req, Body: body, Reply: rp})
}

// do sends one request; transport errors make the case inconclusive.
func (r *runner) do(method, path string, body []byte) ([]byte, int, bool) {
	r.res.Requests++
	resp := r.nd.cl.Do(r.nd.n, method, path, body, nil)
	if resp.Err != nil {
		if r.res.Inconcl == "" {
			r.res.Inconcl = "transport: " + resp.Err.Error()
		}
		return nil, 0, false
	}
	return resp.Body, resp.Status, true
}

type apiResp struct {
	Results []map[string]any `json:"results"`
	Error   string           `json:"error"`
}

func decodeResp(b []byte) (*apiResp, error) {
	var a apiResp
	dec := json.NewDecoder(bytes.NewReader(b))
	dec.UseNumber()
	if err := dec.Decode(&a); err != nil {
		return nil, err
	}
	return &a, nil
}

// extract returns the rows of result i as [row][col] in statement column order.
func extract(res map[string]any, st *stmtSpec, assoc bool) ([][]any, error) {
	if e, ok := res["error"]; ok {
		return nil, fmt.Errorf("statement error: %v", e)
	}
	var out [][]any
	if assoc {
		rows, ok := res["rows"].([]any)
		if !ok {
			if res["rows"] == nil {
				return nil, nil
			}
			return nil, fmt.Errorf("no rows array")
		}
		for _, rw := range rows {
			m, ok := rw.(map[string]any)
			if !ok {
				return nil, fmt.Errorf("row is not an object")
			}
			if len(m) != len(st.cols) {
				return nil, fmt.Errorf("row has %d keys, want %d", len(m), len(st.cols))
			}
			row := make([]any, len(st.cols))
			for i, c := range st.cols {
				v, ok := m[c.name]
				if !ok {
					return nil, fmt.Errorf("row lacks key %q", c.name)
				}
				row[i] = v
			}
			out = append(out, row)
		}
		return out, nil
	}
	cols, _ := res["columns"].([]any)
	if len(cols) != len(st.cols) {
		return nil, fmt.Errorf("%d columns, want %d", len(cols), len(st.cols))
	}
	for i, c := range st.cols {
		if s, _ := cols[i].(string); s != c.name {
			return nil, fmt.Errorf("column %d is %q, want %q", i, cols[i], c.name)
		}
	}
	vals, _ := res["values"].([]any)
	for _, rw := range vals {
		row, ok := rw.([]any)
		if !ok || len(row) != len(st.cols) {
			return nil, fmt.Errorf("bad row")
		}
		out = append(out, row)
	}
	return out, nil
}

// readCheck sends st to an endpoint in a form at a level and compares with exp.
func (r *runner) readCheck(st *stmtSpec, exp [][]refVal, endpoint string, form, level int, get bool) {
	q := "?level=" + levelNames[level] + formQuery(form)
	var body []byte
	method := "POST"
	path := "/db/" + endpoint + q
	if get {
		method = "GET"
		path += "&q=" + url.QueryEscape(st.sql)
	} else {
		body = []byte("[" + st.item() + "]")
	}
	reqDesc := method + " " + "/db/" + endpoint + q
	rb, status, ok := r.do(method, path, body)
	if !ok {
		return
	}
	r.counts["req:"+endpoint+":"+formName(form)]++
	r.counts["req:level:"+levelNames[level]]++
	if get {
		r.counts["req:GET"]++
	}
	if status != 200 {
		r.mismatch("request-rejected:"+endpoint, fmt.Sprintf("%s (%s) answered HTTP %d: %s", st.label, reqDesc, status, truncQ(string(rb))), reqDesc, string(body)+st.sqlIfGet(get), rb)
		return
	}
	a, err := decodeResp(rb)
	if err != nil {
		r.mismatch("response-undecodable:"+endpoint, fmt.Sprintf("%s: %v", st.label, err), reqDesc, string(body)+st.sqlIfGet(get), rb)
		return
	}
	if a.Error != "" || len(a.Results) != 1 {
		r.mismatch("request-failed:"+endpoint, fmt.Sprintf("%s: error=%q results=%d", st.label, a.Error, len(a.Results)), reqDesc, string(body)+st.sqlIfGet(get), rb)
		return
	}
	rows, err := extract(a.Results[0], st, form&1 != 0)
	if err != nil {
		r.mismatch("result-shape:"+endpoint+":"+st.label, fmt.Sprintf("%s: %v", st.label, err), reqDesc, string(body)+st.sqlIfGet(get), rb)
		return
	}
	if len(rows) != len(exp) {
		r.mismatch("result-rows:"+st.label, fmt.Sprintf("%s: %d rows, reference has %d", st.label, len(rows), len(exp)), reqDesc, string(body)+st.sqlIfGet(get), rb)
		return
	}
	for ri := range exp {
		for ci := range exp[ri] {
			if exp[ri][ci].class == "text" && !utf8.ValidString(exp[ri][ci].s) {
				// text that is not valid UTF-8 has no JSON representation: outside the property
				r.counts["skipped:text-not-utf8"]++
				continue
			}
			r.res.Comparisons++
			r.counts["cmp:"+exp[ri][ci].class]++
			suffix, what := compareValue(exp[ri][ci], rows[ri][ci], form&2 != 0)
			if suffix == "" {
				continue
			}
			key := ""
			col := st.cols[ci]
			if st.keyFn != nil {
				key = st.keyFn(ci, suffix, rows[ri][ci], form&2 != 0)
			}
			switch {
			case key != "":
			case suffix == "blob-as-text":
				key = "read:blob-as-text:" + col.where
			case st.label == "bind" && strings.HasPrefix(col.name, "t"):
				key = "bind:typeof"
			case st.label == "bind":
				key = "bind:value:" + suffix
			default:
				key = "read:" + col.where + ":" + suffix
			}
			r.mismatch(key, fmt.Sprintf("%s, row %d column %s (%s), %s form via %s: %s", st.label, ri, col.name, col.where, formName(form), reqDesc, what),
				reqDesc, string(body)+st.sqlIfGet(get), rb)
		}
	}
}

func (st *stmtSpec) sqlIfGet(get bool) string {
	if get {
		return st.sql
	}
	return ""
}

func placeholder(c *Case, k int) string {
	switch c.Named {
	case 0:
		return fmt.Sprintf("?%d", k+1)
	case 3:
		return "?"
	}
	return fmt.Sprintf("%sp%d", c.Prefix, k)
}

// params builds the reference args and the JSON fragments for a statement
// whose placeholders refer, in textual order, to the values uses[0], uses[1]…
func params(c *Case, uses []int) (args []any, pjson []string) {
	seen := map[int]bool{}
	var uniq []int
	max := -1
	for _, k := range uses {
		if !seen[k] {
			seen[k] = true
			uniq = append(uniq, k)
		}
		if k > max {
			max = k
		}
	}
	switch c.Named {
	case 0:
		// numbered parameters ?1..?n: every value up to the largest index is sent
		for k := 0; k <= max; k++ {
			args = append(args, c.Vals[k].goValue())
			pjson = append(pjson, c.Vals[k].JSON)
		}
	case 3:
		// plain ? placeholders: one value per use
		for _, k := range uses {
			args = append(args, c.Vals[k].goValue())
			pjson = append(pjson, c.Vals[k].JSON)
		}
	case 1:
		var parts []string
		for _, k := range uniq {
			args = append(args, sql.Named(fmt.Sprintf("p%d", k), c.Vals[k].goValue()))
			parts = append(parts, fmt.Sprintf("%s:%s", jstr(fmt.Sprintf("p%d", k)), c.Vals[k].JSON))
		}
		pjson = []string{"{" + strings.Join(parts, ",") + "}"}
	default:
		for _, k := range uniq {
			args = append(args, sql.Named(fmt.Sprintf("p%d", k), c.Vals[k].goValue()))
			pjson = append(pjson, fmt.Sprintf("{%s:%s}", jstr(fmt.Sprintf("p%d", k)), c.Vals[k].JSON))
		}
	}
	return
}

func (r *runner) runCase(c *Case) {
	for i := range c.Vals {
		if c.Vals[i].class == "" {
			if err := c.Vals[i].decode(); err != nil {
				r.res.Inconcl = "bad replay value: " + err.Error()
				return
			}
		}
		r.counts["val:"+c.Vals[i].Kind]++
	}
	slot := 0
	nextLevel := func() int { l := c.Levels[slot%len(c.Levels)]; slot++; return l }
	// every statement is read through both endpoints, each in an associative and
	// a non-associative form, one of them with blob_array
	forms := func() (q [2]int, rq [2]int) {
		f := c.FormSel & 3
		return [2]int{f, 3 - f}, [2]int{f ^ 1, 3 - (f ^ 1)}
	}
	readAll := func(st *stmtSpec, withGet bool) bool {
		exp, err := refQuery(r.ref, st)
		if err != nil {
			r.res.Inconcl = "reference failed: " + err.Error() + " for " + st.sql
			return false
		}
		qf, rf := forms()
		for _, f := range qf {
			r.readCheck(st, exp, "query", f, nextLevel(), false)
		}
		for _, f := range rf {
			r.readCheck(st, exp, "request", f, nextLevel(), false)
		}
		if withGet {
			r.readCheck(st, exp, "query", c.FormSel&3, nextLevel(), true)
		}
		return r.res.Inconcl == ""
	}

	// 1. what SQLite sees for each bound parameter
	bind := &stmtSpec{label: "bind"}
	var sel []string
	for k := range c.Vals {
		p := placeholder(c, k)
		sel = append(sel, fmt.Sprintf("typeof(%s) AS t%d, %s AS v%d", p, k, p, k))
		bind.cols = append(bind.cols, colSpec{fmt.Sprintf("t%d", k), "expression"}, colSpec{fmt.Sprintf("v%d", k), "expression"})
	}
	bind.sql = "SELECT " + strings.Join(sel, ", ")
	var uses []int
	for k := range c.Vals {
		uses = append(uses, k, k)
	}
	bind.args, bind.pjson = params(c, uses)
	// The expected bind result is stated by the property, not by any driver:
	// typeof = the class of the JSON value, value = the value itself.
	exp := make([]refVal, 0, 2*len(c.Vals))
	for k := range c.Vals {
		v := &c.Vals[k]
		exp = append(exp, refVal{class: "text", s: v.class}, toRef(v.goValue()))
	}
	refRows, err := refQuery(r.ref, bind)
	if err != nil {
		r.res.Inconcl = "reference failed: " + err.Error()
		return
	}
	// sanity of the harness itself: typed binding on plain SQLite yields exactly that
	if len(refRows) != 1 || len(refRows[0]) != len(exp) {
		r.res.Inconcl = "reference bind probe returned an unexpected shape"
		return
	}
	for i := range exp {
		if s, _ := compareRef(exp[i], refRows[0][i]); s != "" {
			r.res.Inconcl = fmt.Sprintf("harness reference disagrees with the stated expectation for %s: %s vs %s", c.Vals[i/2].JSON, exp[i], refRows[0][i])
			return
		}
	}
	// A value whose binding is already wrong is reported here and left out of
	// the store/read-back stages: what was stored is then not the value of the
	// case, and comparing it again would only repeat the same defect.
	badBind := map[int]bool{}
	bind.keyFn = func(ci int, suffix string, got any, blobArray bool) string {
		k := ci / 2
		if suffix == "blob-as-text" {
			return "" // binding was right (typeof agrees), the echo is mis-encoded on the way back
		}
		badBind[k] = true
		v := &c.Vals[k]
		if v.Kind == "hexws" {
			// does "the surrounding whitespace was dropped and the rest taken for a blob literal" explain it?
			m := hexLitRe.FindStringSubmatch(strings.TrimSpace(v.s))
			if m != nil {
				y, _ := hex.DecodeString(m[1])
				if ci%2 == 0 {
					if s, _ := got.(string); s == "blob" {
						return "bind:text:hex-literal-padded-with-whitespace-bound-as-blob"
					}
				} else if sfx, _ := compareValue(refVal{class: "blob", y: y}, got, blobArray); sfx == "" || sfx == "blob-as-text" {
					return "bind:text:hex-literal-padded-with-whitespace-bound-as-blob"
				}
			}
		}
		return ""
	}
	qf, rf := forms()
	for _, f := range qf {
		r.readCheck(bind, [][]refVal{exp}, "query", f, nextLevel(), false)
	}
	for _, f := range rf {
		r.readCheck(bind, [][]refVal{exp}, "request", f, nextLevel(), false)
	}
	if r.res.Inconcl != "" {
		return
	}
	r.counts["values_with_wrong_binding"] += int64(len(badBind))

	stages := func() bool {
		// 2. store every value in the untyped column and in one typed column
		var items []string
		var stored []int
		for k := range c.Vals {
			if badBind[k] {
				continue
			}
			stored = append(stored, k)
			col := typedCols[c.Cols[k]]
			p := placeholder(c, k)
			st := &stmtSpec{sql: fmt.Sprintf("INSERT INTO vals(c,k,u,%s) VALUES(%d,%d,%s,%s)", col, c.No, k, p, p)}
			st.args, st.pjson = params(c, []int{k, k})
			if _, err := r.ref.Exec(st.sql, st.args...); err != nil {
				r.res.Inconcl = "reference insert failed: " + err.Error()
				return false
			}
			items = append(items, st.item())
			r.counts["insert:"+c.Vals[k].class+">"+col]++
		}
		if len(items) == 0 {
			return true
		}
		body := "[" + strings.Join(items, ",") + "]"
		path := "/db/" + c.InsEP
		if c.InsTx {
			path += "?transaction"
		}
		rb, status, ok := r.do("POST", path, []byte(body))
		if !ok {
			return false
		}
		r.counts["req:insert:"+c.InsEP]++
		insOK := false
		if status != 200 {
			r.mismatch("insert-rejected:"+c.InsEP, fmt.Sprintf("insert answered HTTP %d: %s", status, truncQ(string(rb))), "POST "+path, body, rb)
		} else if a, err := decodeResp(rb); err != nil {
			r.mismatch("response-undecodable:"+c.InsEP, err.Error(), "POST "+path, body, rb)
		} else if a.Error != "" || len(a.Results) != len(stored) {
			r.mismatch("insert-failed:"+c.InsEP, fmt.Sprintf("error=%q results=%d want %d", a.Error, len(a.Results), len(stored)), "POST "+path, body, rb)
		} else {
			insOK = true
			for j, res := range a.Results {
				k := stored[j]
				if e, bad := res["error"]; bad {
					insOK = false
					r.mismatch("insert-failed:"+c.InsEP, fmt.Sprintf("statement %d (%s): %v", k, c.Vals[k].JSON, e), "POST "+path, body, rb)
					continue
				}
				if n, _ := res["rows_affected"].(json.Number); n.String() != "1" {
					insOK = false
					r.mismatch("insert-failed:"+c.InsEP, fmt.Sprintf("statement %d rows_affected=%v", k, res["rows_affected"]), "POST "+path, body, rb)
				}
			}
		}
		if !insOK {
			// keep the reference in step with rqlite for later cases
			r.ref.Exec("DELETE FROM vals WHERE c=?", c.No)
			r.nd.cl.PostJSON(r.nd.n, "/db/execute", []any{fmt.Sprintf("DELETE FROM vals WHERE c=%d", c.No)})
			return true // the literal stage does not depend on the stored rows
		}

		// 3. read the columns back
		colsSt := &stmtSpec{label: "columns", sql: fmt.Sprintf("SELECT k, typeof(u) AS tu, u, typeof(i) AS ti, i, typeof(r) AS tr, r, typeof(t) AS tt, t, typeof(b) AS tb, b FROM vals WHERE c=%d ORDER BY k", c.No)}
		colsSt.cols = []colSpec{{"k", "integer-column"}, {"tu", "expression"}, {"u", "untyped-column"}, {"ti", "expression"}, {"i", "integer-column"},
			{"tr", "expression"}, {"r", "real-column"}, {"tt", "expression"}, {"t", "text-column"}, {"tb", "expression"}, {"b", "blob-column"}}
		if !readAll(colsSt, true) {
			return false
		}

		// 4. expressions over the stored values (no declared type)
		exprSt := &stmtSpec{label: "expressions", sql: fmt.Sprintf("SELECT +u AS e0, u || '' AS e1, CAST(u AS TEXT) AS e2, "+
			"coalesce(i, r, t, b) AS e3, (SELECT u) AS e4, CAST(u AS INTEGER) AS e5, CAST(u AS REAL) AS e6, max(u, u) AS e7, -i AS e8, r * 1 AS e9, "+
			"typeof(coalesce(i, r, t, b)) AS e10, length(u) AS e11, hex(u) AS e12, quote(u) AS e13, i - 0 AS e14, i + 0 AS e15, r + 0.0 AS e16 FROM vals WHERE c=%d ORDER BY k", c.No)}
		if c.No%3 == 0 {
			// expressions that turn every value into a blob (kept to a third of the cases)
			exprSt.sql = fmt.Sprintf("SELECT CAST(u AS BLOB) AS e0, iif(typeof(u)='blob', u, NULL) AS e1, zeroblob(k) AS e2, CAST(t AS BLOB) AS e3, substr(CAST(u AS BLOB), 1, 2) AS e4, "+
				"+u AS e5, +i AS e6, +r AS e7, +t AS e8, +b AS e9, NULL AS e10, k AS e11, k AS e12, k AS e13, k AS e14, k AS e15, k AS e16 FROM vals WHERE c=%d ORDER BY k", c.No)
			exprSt.label = "blob-expressions"
		}
		for i := 0; i <= 16; i++ {
			exprSt.cols = append(exprSt.cols, colSpec{fmt.Sprintf("e%d", i), "expression"})
		}
		if !readAll(exprSt, false) {
			return false
		}

		return true
	}
	if !stages() {
		return
	}

	// 5. the same values written inline as SQL literals, sent with GET
	lit := &stmtSpec{label: "literals"}
	sel = nil
	for k := range c.Vals {
		l, ok := c.Vals[k].sqlLiteral()
		if !ok || len(l) > 1500 {
			continue
		}
		sel = append(sel, fmt.Sprintf("typeof(%s) AS t%d, %s AS v%d", l, k, l, k))
		lit.cols = append(lit.cols, colSpec{fmt.Sprintf("t%d", k), "expression"}, colSpec{fmt.Sprintf("v%d", k), "expression"})
	}
	if len(sel) > 0 {
		lit.sql = "SELECT " + strings.Join(sel, ", ")
		lexp, err := refQuery(r.ref, lit)
		if err != nil {
			r.res.Inconcl = "reference failed: " + err.Error() + " for " + lit.sql
			return
		}
		r.readCheck(lit, lexp, "query", c.FormSel&3, nextLevel(), true)
		r.readCheck(lit, lexp, "request", 3-(c.FormSel&3), nextLevel(), false)
	}
}

// compareRef compares two reference-side values exactly.
func compareRef(a, b refVal) (string, string) {
	if a.class != b.class {
		return "class", ""
	}
	switch a.class {
	case "integer":
		if a.i != b.i {
			return "value", ""
		}
	case "real":
		if math.Float64bits(a.f) != math.Float64bits(b.f) {
			return "value", ""
		}
	case "text":
		if a.s != b.s {
			return "value", ""
		}
	case "blob":
		if !bytes.Equal(a.y, b.y) {
			return "value", ""
		}
	}
	return "", ""
}

func startNode(dir string) (*node, error) {
	cl := hcluster.New(dir)
	n, err := cl.Add(hcluster.Options{ID: "n1", HeartbeatTimeout: 2 * time.Second, ElectionTimeout: 2 * time.Second, LeaderLease: time.Second}, true)
	if err != nil {
		cl.Close()
		return nil, err
	}
	if cl.WaitLeader(90*time.Second) == nil {
		cl.Close()
		return nil, fmt.Errorf("no leader within 90 s")
	}
	return &node{cl: cl, n: n}, nil
}

// worker args: lo hi seed tier dir   |   replay <file> dir
func worker(args []string) {
	enc := json.NewEncoder(os.Stdout)
	var cases []Case
	var dir string
	if args[0] == "replay" {
		b, err := os.ReadFile(args[1])
		if err != nil {
			enc.Encode(workerOut{SetupErr: err.Error()})
			return
		}
		var f struct {
			Case CaseResult `json:"case"`
		}
		if err := json.Unmarshal(b, &f); err != nil {
			enc.Encode(workerOut{SetupErr: err.Error()})
			return
		}
		if f.Case.Case == nil {
			enc.Encode(workerOut{SetupErr: "replay file has no case"})
			return
		}
		cases = []Case{*f.Case.Case}
		dir = args[2]
	} else {
		var lo, hi int
		var seed int64
		fmt.Sscan(args[0], &lo)
		fmt.Sscan(args[1], &hi)
		fmt.Sscan(args[2], &seed)
		c := &vf.Ctx{ID: "C30", Seed: seed, Tier: args[3]}
		for i := lo; i < hi; i++ {
			cases = append(cases, genCase(c.Rand(uint64(i)), i))
		}
		dir = args[4]
	}
	os.MkdirAll(dir, 0755)
	nd, err := startNode(filepath.Join(dir, "node"))
	if err != nil {
		enc.Encode(workerOut{SetupErr: "node start: " + err.Error()})
		return
	}
	defer nd.cl.Close()
	ref, err := sqlref.Open(filepath.Join(dir, "ref.db"))
	if err != nil {
		enc.Encode(workerOut{SetupErr: "reference open: " + err.Error()})
		return
	}
	defer ref.Close()
	for _, s := range []string{schema, schemaIdx} {
		if _, err := ref.Exec(s); err != nil {
			enc.Encode(workerOut{SetupErr: "reference schema: " + err.Error()})
			return
		}
	}
	resp := nd.cl.PostJSON(nd.n, "/db/execute", []any{schema, schemaIdx})
	if a, err := resp.Parse(); err != nil || resp.Status != 200 || len(a.Results) != 2 || a.Results[0].Error != "" || a.Results[1].Error != "" {
		enc.Encode(workerOut{SetupErr: fmt.Sprintf("schema: %v %d %s", err, resp.Status, resp.Body)})
		return
	}
	for i := range cases {
		res := &CaseResult{No: cases[i].No, Key: vf.Hash(cases[i].key()), Hard: cases[i].hard(), Counts: map[string]int64{}}
		r := &runner{nd: nd, ref: ref, res: res, counts: res.Counts}
		r.runCase(&cases[i])
		if len(res.Mismatches) > 0 || res.Inconcl != "" || cases[i].No%257 == 0 {
			res.Case = &cases[i]
		}
		enc.Encode(workerOut{Result: res})
	}
}
