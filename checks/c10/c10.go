// Package c10: a snapshot transfer installs exactly the source data or nothing
// (DESIGN §6 C10).
//
// Source stores are generated through the real API (snapgen). The byte stream
// of Store.Open(id) is written into destination stores under many write
// splits, through the transport's zstd compressor/decompressor pair, and in
// thousands of mutated forms (raw and compressed domain); each result is
// compared with the source's own restore.
package c10

import (
	"encoding/json"
	"errors"
	"fmt"
	"math/rand/v2"
	"os"
	"path/filepath"
	"sort"
	"strings"
	"sync"
	"time"

	"verif/checks/c09/snapgen"
	"verif/internal/vf"
)

func init() { vf.Register("C10", "exploration", run) }

const callTimeout = 10 * time.Minute

type target struct {
	no      int
	shape   string
	man     *snapgen.Manifest
	snap    *snapgen.Snap
	stream  string
	length  int
	zstLen  int
	hdrEnd  int
	ends    []int
	nWAL    int
	long    bool // long WAL chain: header-byte / boundary / per-file mutants are sampled instead of exhaustive
	mutants map[string][]mutant // domain -> list
}

type wproc struct {
	p    *vf.Proc
	root string
	log  string
}

func startW(root string, n int) (*wproc, error) {
	w := &wproc{root: filepath.Join(root, fmt.Sprintf("w%02d", n)), log: filepath.Join(root, fmt.Sprintf("w%02d.log", n))}
	os.MkdirAll(w.root, 0755)
	p, err := vf.StartWorker(false, "c10", nil, []string{"GOMAXPROCS=2"}, w.log)
	if err != nil {
		return nil, err
	}
	w.p = p
	return w, nil
}

func (w *wproc) restart() error {
	if w.p != nil {
		w.p.Kill()
	}
	p, err := vf.StartWorker(false, "c10", nil, []string{"GOMAXPROCS=2"}, w.log)
	w.p = p
	return err
}

func splitFor(r *rand.Rand, length int) int {
	switch k := r.IntN(100); {
	case k < 55:
		return 0
	case k < 70:
		return 4096
	case k < 80:
		return 7 + r.IntN(90)
	case k < 93:
		return -1 - r.IntN(3)
	default:
		if length <= 70000 {
			return 1
		}
		return 1021
	}
}

func samplePositions(r *rand.Rand, lo, hi, n int) []int {
	if hi <= lo {
		return nil
	}
	if hi-lo <= n {
		out := make([]int, 0, hi-lo)
		for p := lo; p < hi; p++ {
			out = append(out, p)
		}
		return out
	}
	seen := map[int]bool{}
	out := []int{}
	for len(out) < n {
		p := lo + r.IntN(hi-lo)
		if !seen[p] {
			seen[p] = true
			out = append(out, p)
		}
	}
	sort.Ints(out)
	return out
}

// genMutants builds the deterministic mutant lists of one target.
func genMutants(c *vf.Ctx, t *target) {
	r := c.Rand(uint64(7000 + t.no))
	L, H := t.length, t.hdrEnd
	var raw []mutant
	add := func(m mutant) {
		m.S = splitFor(r, L)
		raw = append(raw, m)
	}
	// every byte of the length prefix and the header (long-chain streams: the
	// length prefix, the first bytes behind it and a seeded sample)
	hdrPos := samplePositions(r, 0, H, H)
	if t.long {
		hdrPos = append(samplePositions(r, 0, min(16, H), 16), samplePositions(r, min(16, H), H, c.N(32, 240))...)
	}
	for _, p := range hdrPos {
		if c.Quick() {
			add(mutant{K: "flip", P: p, B: r.IntN(8)})
			add(mutant{K: "flip", P: p, B: r.IntN(8)})
		} else {
			for b := 0; b < 8; b++ {
				add(mutant{K: "flip", P: p, B: b})
			}
		}
		add(mutant{K: "drop", P: p})
		add(mutant{K: "insert", P: p, B: r.IntN(256)})
		add(mutant{K: "dup", P: p})
		add(mutant{K: "trunc", P: p})
	}
	// boundaries
	bset := map[int]bool{H: true, H + 1: true, L - 1: true, L - 2: true}
	for _, e := range t.ends {
		for d := -1; d <= 1; d++ {
			if e+d > 0 && e+d < L {
				bset[e+d] = true
			}
		}
	}
	var bounds []int
	for p := range bset {
		if p >= 0 && p < L {
			bounds = append(bounds, p)
		}
	}
	sort.Ints(bounds)
	if nb := c.N(12, 60); t.long && len(bounds) > nb {
		var sel []int
		for _, k := range samplePositions(r, 0, len(bounds), nb) {
			sel = append(sel, bounds[k])
		}
		bounds = sel
	}
	// body positions
	var flipPos, editPos []int
	if c.Quick() {
		flipPos = samplePositions(r, H, L, map[bool]int{false: 64, true: 32}[t.long])
		editPos = flipPos
	} else {
		if L <= 8192 {
			flipPos = samplePositions(r, H, L, L)
		} else {
			flipPos = samplePositions(r, H, L, 2000)
		}
		editPos = samplePositions(r, H, L, 400)
	}
	for _, p := range append(bounds, flipPos...) {
		add(mutant{K: "flip", P: p, B: r.IntN(8)})
	}
	for _, p := range append(bounds, editPos...) {
		add(mutant{K: "drop", P: p})
		add(mutant{K: "insert", P: p, B: r.IntN(256)})
		add(mutant{K: "dup", P: p})
		add(mutant{K: "trunc", P: p})
	}
	add(mutant{K: "insert", P: L, B: 0})
	for _, n := range []int{1, 2, 7, 4096} {
		add(mutant{K: "append", B: n})
	}
	// files whose header fields / contents are edited: all of them; for a
	// long-chain stream the database, the first and last WAL and seeded others
	files := map[int]bool{}
	if t.long {
		files[0], files[1], files[t.nWAL] = true, true, true
		for _, k := range samplePositions(r, 2, t.nWAL, c.N(1, 8)) {
			files[k] = true
		}
	} else {
		for k := 0; k <= t.nWAL; k++ {
			files[k] = true
		}
	}
	for _, m := range headerEdits(t.nWAL) {
		if m.I > 0 && !files[m.I+1] {
			continue
		}
		add(m)
	}
	// header edits that only neutralise a check, on otherwise untouched data
	add(mutant{K: "hdr", H: "db-crc-0"})
	for i := 0; i < t.nWAL; i++ {
		if files[i+1] {
			add(mutant{K: "hdr", H: "wal-crc-0", I: i})
		}
	}
	// compound mutants: (header edit that neutralises or re-aligns a field,
	// data edit inside the file that field protects)
	for _, m := range pairMutants(c, t, r, files) {
		raw = append(raw, m)
	}
	// compressed domain
	var zst []mutant
	Z := t.zstLen
	var zflip, zedit []int
	if c.Quick() {
		zflip = append(samplePositions(r, 0, min(16, Z), 16), samplePositions(r, 16, Z, 48)...)
		zedit = samplePositions(r, 0, Z, 24)
	} else {
		if Z <= 4096 {
			zflip = samplePositions(r, 0, Z, Z)
		} else {
			zflip = samplePositions(r, 0, Z, 1200)
		}
		zedit = samplePositions(r, 0, Z, 200)
	}
	for _, p := range zflip {
		zst = append(zst, mutant{K: "flip", P: p, B: r.IntN(8)})
	}
	for _, p := range zedit {
		zst = append(zst, mutant{K: "drop", P: p}, mutant{K: "insert", P: p, B: r.IntN(256)}, mutant{K: "trunc", P: p})
	}
	zst = append(zst, mutant{K: "append", B: 1}, mutant{K: "append", B: 9})
	t.mutants = map[string][]mutant{"raw": raw, "zst": zst}
}

// pairMutants builds the (header edit, data edit) pairs of one stream. For
// every file of the stream (database, each WAL) data positions are chosen at
// its first and last byte, inside its own format header, at WAL frame headers
// and page bodies, and at seeded offsets; each data edit is combined with the
// header edits that a receiver trusting that field would need to accept it:
// CRC field zeroed (= absent in proto3), size field moved by the length
// change, both, or neither CRC (size only). Every pair is installed with a
// whole-stream write and with a chunked write, and restored.
func pairMutants(c *vf.Ctx, t *target, r *rand.Rand, files map[int]bool) []mutant {
	b, err := os.ReadFile(t.stream)
	if err != nil {
		return nil
	}
	var out []mutant
	nPos := c.N(4, 24)
	if t.long {
		nPos = c.N(2, 12)
	}
	start := t.hdrEnd
	for fi, end := range t.ends {
		n := end - start
		if n <= 0 || !files[fi] {
			start = end
			continue
		}
		crc0 := mutant{H: "db-crc-0"}
		sizeAdd := func(d int64) mutant { return mutant{H: "db-size-add", V: d} }
		if fi > 0 {
			crc0 = mutant{H: "wal-crc-0", I: fi - 1}
			sizeAdd = func(d int64) mutant { return mutant{H: "wal-size-add", I: fi - 1, V: d} }
		}
		// positions inside this file
		pos := []int{start, start + min(20, n-1), end - 1}
		if fi == 0 {
			pos = append(pos, start+min(100, n-1)) // inside page 1 behind the database header
		} else if n > 32+24 {
			// WAL: header is 32 bytes; frames are 24 + page size
			ps := int(b[start+8])<<24 | int(b[start+9])<<16 | int(b[start+10])<<8 | int(b[start+11])
			if ps >= 512 && ps <= 65536 {
				fr := 24 + ps
				nfr := (n - 32) / fr
				if nfr > 0 {
					last := start + 32 + (nfr-1)*fr
					pos = append(pos, start+32+8, start+32+16, start+32+24+ps/2, last+2, last+24+ps-1) // frame salts/checksum, page body, last frame
					if nfr > 1 {
						mid := start + 32 + (nfr/2)*fr
						pos = append(pos, mid+10, mid+24+7)
					}
				}
			}
		}
		for k := 0; k < nPos; k++ {
			pos = append(pos, start+r.IntN(n))
		}
		for pi, p := range pos {
			if p < start || p >= end {
				continue
			}
			for _, S := range []int{0, []int{4096, 7, 1021}[pi%3]} {
				bit := r.IntN(8)
				// the check is switched off, the data is altered
				out = append(out, mutant{K: "pair", DK: "flip", P: p, B: bit, Hs: []mutant{crc0}, S: S})
				if pi < 6 || !c.Quick() {
					out = append(out,
						mutant{K: "pair", DK: "drop", P: p, Hs: []mutant{crc0, sizeAdd(-1)}, S: S},
						mutant{K: "pair", DK: "insert", P: p, B: r.IntN(256), Hs: []mutant{crc0, sizeAdd(+1)}, S: S},
						// size re-aligned only: the CRC has to catch it
						mutant{K: "pair", DK: "drop", P: p, Hs: []mutant{sizeAdd(-1)}, S: S},
						mutant{K: "pair", DK: "dup", P: p, Hs: []mutant{sizeAdd(+1)}, S: S})
				}
			}
		}
		// all CRC fields zeroed + one flip in this file
		all := []mutant{{H: "db-crc-0"}}
		for i := 0; i < t.nWAL; i++ {
			all = append(all, mutant{H: "wal-crc-0", I: i})
		}
		out = append(out, mutant{K: "pair", DK: "flip", P: start + r.IntN(n), B: r.IntN(8), Hs: all})
		// the check of ANOTHER file switched off: this file's own check must fire
		if len(t.ends) > 1 {
			other := mutant{H: "db-crc-0"}
			if fi == 0 {
				other = mutant{H: "wal-crc-0", I: 0}
			}
			out = append(out, mutant{K: "pair", DK: "flip", P: start + r.IntN(n), B: r.IntN(8), Hs: []mutant{other}})
		}
		// last file truncated, its size field shortened accordingly
		if fi == len(t.ends)-1 && n > 64 {
			for _, cut := range []int{1, 24, n / 2} {
				for _, S := range []int{0, 4096} {
					out = append(out,
						mutant{K: "pair", DK: "trunc", P: end - cut, Hs: []mutant{crc0, sizeAdd(int64(-cut))}, S: S},
						mutant{K: "pair", DK: "trunc", P: end - cut, Hs: []mutant{sizeAdd(int64(-cut))}, S: S})
				}
			}
		}
		start = end
	}
	return out
}

func posClass(t *target, domain string, m mutant) string {
	if domain == "zst" {
		if m.P < 8 {
			return "zst-size-prefix"
		}
		return "zst-body"
	}
	switch {
	case m.K == "hdr" || m.K == "append":
		return m.K
	case m.P < 4:
		return "length-prefix"
	case m.P < t.hdrEnd:
		return "header"
	}
	for i, e := range t.ends {
		if m.P < e {
			if i == 0 {
				return "db"
			}
			return "wal"
		}
	}
	return "end"
}

func run(c *vf.Ctx) {
	c.Rule("a case = one (possibly altered) snapshot byte stream, taken from Store.Open(id) of a generated source store, handed to a destination Store sink (raft's Create/Write…/Cancel-or-Close sequence, seeded write split) and to snapshot.Restore; " +
		"unaltered streams: every split pattern (1 byte, primes, length-prefix/header/file boundaries ±1, whole) and the transport zstd pair with 3 buffer sizes × 3 read sizes + 1-byte trickle; " +
		"source stores include one seeded long WAL chain (newest full + 30..45 WAL files accumulated behind it, stream header of several hundred bytes) whose newest snapshot is transferred under the same unaltered split patterns (single-file boundaries sampled when a stream has more than 10 files) and with sampled instead of exhaustive header-byte / boundary / per-file alterations; " +
		"altered streams: bit flip / drop / insert / duplicate / truncate at every header byte, at all boundaries and at sampled (thorough: all for ≤8 KiB, 2000 sampled otherwise) body bytes, appended bytes, header-field edits (sizes ±1, CRC ±1, CRC zeroed/absent, swapped/dropped/added WAL headers, version, payload kind), compound (header edit, data edit) pairs per file — CRC field zeroed and/or size field re-aligned together with a flip/drop/insert/duplicate/truncate inside the file that field protects (database, every WAL; WAL header, frame headers, page bodies, first/last byte), each installed with a whole and a chunked write and restored —, the single edits again on the compressed bytes; plus the real NodeTransport pair over TCP with one flipped bit on the wire. " +
		"distinct = (stream, domain, mutation); non-trivial when the altered bytes differ from the original")
	c.Assume("\"identical\" is byte equality (sha256) of the database produced by Store.Open→snapshot.Restore on the destination (or by Restore on the stream) with the one produced from the unmodified source store, whose logical dump was checked against the stock-driver SQLite twin when the store was generated")
	c.Assume("an install counts as failed when no new snapshot is listed in the destination (Write or Close returned an error, Close returned nil without installing because the header never completed, or rqlite exited the process); raft's own byte-count check is not relied upon")
	c.Assume("CRC32 collisions (2^-32 per multi-byte alteration) are ignored")
	defer snapgen.UseFastTmp("c10")()
	root := vf.TempDir("c10")
	defer os.RemoveAll(root)

	// ---- source stores ----
	shapes := []snapgen.Shape{
		{OlderFulls: 0, FullWALs: 0, Incs: nil},
		{OlderFulls: 0, FullWALs: 0, Incs: []int{1, 2}},
		{OlderFulls: 1, FullWALs: 2, Incs: []int{1}},
	}
	if !c.Quick() {
		shapes = append(shapes,
			snapgen.Shape{OlderFulls: 0, FullWALs: 3, Incs: nil},
			snapgen.Shape{OlderFulls: 2, FullWALs: 0, Incs: []int{1, 1, 1, 3}},
			snapgen.Shape{OlderFulls: 0, FullWALs: 1, Incs: []int{3, 1}, Stmts: 2},
		)
		r := c.Rand(1)
		for i := 0; i < 4; i++ {
			sh := snapgen.RandomShape(r, 2, 3, 4, 3)
			sh.Stmts = 2 + r.IntN(8)
			shapes = append(shapes, sh)
		}
	}
	// long WAL chains: what a node streams when many incremental snapshots
	// have piled up behind the newest full one (reaper not yet run) or a full
	// snapshot is installed with its WALs. The stream header grows with the
	// number of files (one entry per WAL), so these are the streams whose
	// header spans hundreds of bytes and many small writes. Appended last, so
	// the seeded streams of the other shapes are unchanged.
	firstLong := len(shapes)
	{
		r := c.Rand(2)
		for _, total := range []int{c.N(30, 34) + r.IntN(12)} {
			sh := snapgen.Shape{FullWALs: 3 + r.IntN(6), Stmts: 1}
			for n := sh.FullWALs; n < total; {
				k := min(1+r.IntN(3), total-n)
				sh.Incs = append(sh.Incs, k)
				n += k
			}
			shapes = append(shapes, sh)
		}
	}
	var targets, longTargets []*target
	var tmu sync.Mutex
	var wg sync.WaitGroup
	sem := make(chan struct{}, 3)
	for i, sh := range shapes {
		wg.Add(1)
		go func() {
			defer wg.Done()
			sem <- struct{}{}
			defer func() { <-sem }()
			r := c.Rand(uint64(100 + i))
			man, err := snapgen.BuildInChild(filepath.Join(root, fmt.Sprintf("src%02d", i)), filepath.Join(root, fmt.Sprintf("work%02d", i)), sh, r.Uint64(), r.Uint64(), filepath.Join(root, fmt.Sprintf("build%02d.log", i)))
			if err != nil {
				if strings.HasPrefix(err.Error(), "mismatch:") {
					c.Violation("source:snapshot-resolves-to-wrong-database", fmt.Sprintf("shape %s: %v", sh, err), map[string]any{"shape": sh})
				} else {
					c.Inconclusive("building source store: " + err.Error())
					c.Logf("build %s: %v", sh, err)
				}
				return
			}
			// which snapshots are transferred: the newest always; in
			// thorough every snapshot of the store
			tmu.Lock()
			defer tmu.Unlock()
			if i >= firstLong {
				// the newest snapshot: newest full + every WAL behind it
				longTargets = append(longTargets, &target{shape: sh.String(), man: man, snap: &man.Snaps[len(man.Snaps)-1], long: true})
				return
			}
			for k := range man.Snaps {
				if c.Quick() && k != len(man.Snaps)-1 && !(i == 2 && k == len(man.Snaps)-2) {
					continue
				}
				targets = append(targets, &target{shape: sh.String(), man: man, snap: &man.Snaps[k]})
			}
		}()
	}
	wg.Wait()
	sort.Slice(targets, func(i, j int) bool {
		if targets[i].shape != targets[j].shape {
			return targets[i].shape < targets[j].shape
		}
		return targets[i].snap.ID < targets[j].snap.ID
	})
	if !c.Quick() && len(targets) > 10 {
		// an even spread over shapes and snapshot positions
		var sel []*target
		for i := 0; i < 10; i++ {
			sel = append(sel, targets[i*len(targets)/10])
		}
		targets = sel
	}
	targets = append(targets, longTargets...)
	c.Extra("source_streams", len(targets))
	c.Extra("long_chain_streams", len(longTargets))

	// ---- fetch streams, unaltered installs ----
	w0, err := startW(root, 0)
	if err != nil {
		c.Inconclusive("start worker: " + err.Error())
		return
	}
	for i, t := range targets {
		t.no = i
		t.stream = filepath.Join(root, fmt.Sprintf("stream%02d.bin", i))
		var r cresp
		if err := w0.p.Call(creq{Op: "fetch", Store: t.man.StoreDir, ID: t.snap.ID, Out: t.stream}, &r, callTimeout); err != nil || r.Err != "" {
			c.Inconclusive(fmt.Sprintf("fetch: %v %s", err, r.Err))
			c.Logf("fetch %s: %v %s", t.snap.ID, err, r.Err)
			t.stream = ""
			w0.restart()
			continue
		}
		t.length, t.zstLen = r.Len, r.ZstLen
		if int64(r.Len) != r.Size {
			c.Violation("source:meta-size-differs-from-stream", fmt.Sprintf("Open(%s) meta.Size=%d but the stream has %d bytes", t.snap.ID, r.Size, r.Len), nil)
		}
		b, _ := os.ReadFile(t.stream)
		hdr, he, ends, perr := snapgen.ParseStream(b)
		if perr != nil || hdr.GetFull() == nil {
			c.Violation("source:stream-not-parsable", fmt.Sprintf("stream of %s: %v", t.snap.ID, perr), nil)
			t.stream = ""
			continue
		}
		t.hdrEnd, t.ends, t.nWAL = he, ends, len(hdr.GetFull().WalHeaders)
		c.Count("stream_bytes", int64(r.Len))
		if t.long {
			c.Count("long_chain_wal_files", int64(t.nWAL))
			c.Count("long_chain_header_bytes", int64(he))
		}
		c.Count("compressed_bytes", int64(r.ZstLen))
		if r.ZstLen > r.Len {
			c.Count("streams_larger_when_compressed", 1)
		}

		var cr cresp
		if err := w0.p.Call(creq{Op: "clean", Root: w0.root, Stream: t.stream}, &cr, callTimeout); err != nil || cr.Err != "" {
			c.Inconclusive(fmt.Sprintf("clean: %v %s", err, cr.Err))
			w0.restart()
			continue
		}
		for _, v := range cr.Clean {
			c.Eval(1)
			key := fmt.Sprintf("clean/%s/%s", t.shape+"/"+t.snap.Kind, v.Variant)
			c.Nontrivial(key)
			c.Count("unaltered_installs", 1)
			if v.Outcome == "installed" && v.SHA == t.snap.RestoreSHA && v.Note == "" {
				c.Held(1)
				continue
			}
			cls := strings.SplitN(v.Variant, "-", 2)[0]
			if v.Outcome == "installed" {
				c.Violation("unaltered:different-database:"+cls, fmt.Sprintf("stream of %s (%s, %s) written as %q installs a snapshot that restores to %s, source restores to %s %s", t.snap.ID, t.shape, t.snap.Kind, v.Variant, short(v.SHA), short(t.snap.RestoreSHA), v.Note), map[string]any{"shape": t.shape, "variant": v.Variant})
			} else {
				c.Violation("unaltered:install-failed:"+cls, fmt.Sprintf("stream of %s (%s, %s) written as %q is not installed: %s %s %s", t.snap.ID, t.shape, t.snap.Kind, v.Variant, v.Outcome, v.Err, v.Note), map[string]any{"shape": t.shape, "variant": v.Variant})
			}
		}
		if i < 3 || t.long {
			c.Sample(map[string]any{"shape": t.shape, "snapshot": t.snap.ID, "kind": t.snap.Kind, "stream_len": t.length, "compressed_len": t.zstLen, "header_len": t.hdrEnd, "wal_files": t.nWAL, "unaltered_variants": len(cr.Clean)})
		}
	}

	// ---- altered streams ----
	type batch struct {
		t      *target
		domain string
		ms     []mutant
	}
	var batches []batch
	total := 0
	for _, t := range targets {
		if t.stream == "" {
			continue
		}
		genMutants(c, t)
		for _, d := range []string{"raw", "zst"} {
			ms := t.mutants[d]
			total += len(ms)
			for len(ms) > 0 {
				n := min(300, len(ms))
				batches = append(batches, batch{t, d, ms[:n]})
				ms = ms[n:]
			}
		}
	}
	c.Extra("mutants_planned", total)
	c.Logf("%d source streams, %d altered streams in %d batches", len(targets), total, len(batches))

	var smu sync.Mutex
	samples := 0
	handle := func(b batch, results []mres) {
		for _, r := range results {
			if r.Install == "skipped" {
				continue
			}
			if r.Install == "harness" {
				c.Inconclusive("harness: " + r.Detail)
				continue
			}
			c.Eval(1)
			key := fmt.Sprintf("%d/%s/%s", b.t.no, b.domain, r.M)
			if !r.Same {
				c.Nontrivial(key)
			}
			pc := posClass(b.t, b.domain, r.M)
			c.Count("install:"+r.Install, 1)
			c.Count("restore:"+r.Restore, 1)
			c.Count("altered@"+pc, 1)
			if r.M.K == "pair" {
				c.Count("pair_mutants", 1)
				var hs []string
				for _, h := range r.M.Hs {
					hs = append(hs, h.H)
				}
				c.Count("pair:"+strings.Join(hs, ",")+"+"+r.M.DK+":install="+r.Install+":restore="+r.Restore, 1)
			}
			if r.Install == "not-installed" {
				c.Count("close_returned_nil_without_installing", 1)
			}
			if r.Restore == "panic" {
				c.Count("restore_panics", 1)
				c.Extra("restore_panic_example", fmt.Sprintf("%s %s:%s", b.domain, r.M, r.Detail))
			}
			if r.Bad {
				kind := r.M.K
				if r.M.K == "hdr" {
					kind = "hdr:" + r.M.H
				}
				if r.M.K == "pair" {
					// class of the pair, without file index and operands
					var hs []string
					for _, h := range r.M.Hs {
						hs = append(hs, h.H)
					}
					kind = "pair:" + strings.Join(hs, ",") + "+" + r.M.DK
				}
				k := "install"
				if strings.Contains(r.Restore, "DIFFERENT") && !strings.Contains(r.Install, "DIFFERENT") {
					k = "restore"
				}
				vkey := fmt.Sprintf("%s:altered-data-accepted:%s:%s:%s", k, b.domain, kind, pc)
				if k == "restore" && r.Trailing {
					// one defect, many ways to reach it: Restore stops where the
					// header says and never looks whether the stream goes on
					vkey = "restore:trailing-bytes-ignored"
				}
				c.Violation(vkey,
					fmt.Sprintf("%s stream of %s (%s, %s, %d bytes) altered by %s: install=%s restore=%s %s", b.domain, b.t.snap.ID, b.t.shape, b.t.snap.Kind, b.t.length, r.M, r.Install, r.Restore, r.Detail),
					map[string]any{"shape": b.t.shape, "snapshot_kind": b.t.snap.Kind, "domain": b.domain, "mutant": r.M, "stream_len": b.t.length})
			} else {
				c.Held(1)
				smu.Lock()
				if samples < 3 && !r.Same && r.M.P > b.t.hdrEnd {
					samples++
					c.Sample(map[string]any{"shape": b.t.shape, "domain": b.domain, "mutant": r.M, "install": r.Install, "restore": r.Restore})
				}
				smu.Unlock()
			}
		}
	}

	par := snapgen.Par(c.N(4, 8))
	ch := make(chan batch)
	var wg2 sync.WaitGroup
	for n := 1; n <= par; n++ {
		wg2.Add(1)
		go func() {
			defer wg2.Done()
			w, err := startW(root, n)
			if err != nil {
				c.Inconclusive("start worker: " + err.Error())
				for range ch {
				}
				return
			}
			defer func() { w.p.Kill() }()
			for b := range ch {
				ms := b.ms
				for len(ms) > 0 {
					var r cresp
					err := w.p.Call(creq{Op: "mutants", Root: w.root, Stream: b.t.stream, Zst: b.t.stream + ".zst", Want: b.t.snap.RestoreSHA, Domain: b.domain, Mutants: ms}, &r, callTimeout)
					if err == nil && r.Err == "" {
						handle(b, r.Results)
						break
					}
					if !errors.Is(err, vf.ErrProcDied) {
						c.Inconclusive(fmt.Sprintf("mutant batch: %v %s", err, r.Err))
						w.restart()
						break
					}
					// rqlite exited the process while handling one mutant
					code := w.p.Wait()
					var pr progress
					pb, _ := os.ReadFile(filepath.Join(w.root, "progress"))
					if json.Unmarshal(pb, &pr) != nil || pr.I >= len(ms) {
						c.Inconclusive("worker died without progress marker")
						w.restart()
						break
					}
					if err := w.restart(); err != nil {
						c.Inconclusive("restart worker: " + err.Error())
						break
					}
					m := ms[pr.I]
					c.Eval(1)
					c.Nontrivial(fmt.Sprintf("%d/%s/%s", b.t.no, b.domain, m))
					c.Count("install:process-exit", 1)
					c.Count(fmt.Sprintf("process_exit_code_%d", code), 1)
					var ir cresp
					if err := w.p.Call(creq{Op: "inspect", Store: pr.Dst}, &ir, callTimeout); err != nil || ir.Err != "" {
						c.Inconclusive(fmt.Sprintf("inspect after exit: %v %s", err, ir.Err))
					} else if ir.Len != pr.Before {
						c.Violation("install:altered-data-accepted:process-exit", fmt.Sprintf("%s stream altered by %s made the process exit (code %d) and the destination lists %d snapshots, before %d", b.domain, m, code, ir.Len, pr.Before), map[string]any{"shape": b.t.shape, "mutant": m, "domain": b.domain})
					} else {
						c.Held(1)
					}
					c.Logf("process exit (code %d) on %s mutant %s of stream %d; nothing installed", code, b.domain, m, b.t.no)
					ms = ms[pr.I+1:]
				}
			}
		}()
	}
	for i, b := range batches {
		ch <- b
		if i%100 == 99 {
			c.Logf("%d/%d batches dispatched", i+1, len(batches))
		}
	}
	close(ch)
	wg2.Wait()

	// ---- the real transport pair ----
	nOff := c.N(10, 60)
	tr := c.Rand(55)
	for i, t := range targets {
		if t.stream == "" || (c.Quick() && i > 1) || i > 5 {
			continue
		}
		for _, comp := range []bool{false, true} {
			var offs []int64
			for k := 0; k < nOff; k++ {
				switch {
				case k%4 == 0:
					offs = append(offs, int64(tr.IntN(400))) // RPC header and stream header
				case k%4 == 1:
					offs = append(offs, -1-int64(tr.IntN(2000))) // tail
				default:
					offs = append(offs, int64(tr.IntN(1<<30)))
				}
			}
			var r cresp
			if err := w0.p.Call(creq{Op: "transport", Root: w0.root, Store: t.man.StoreDir, ID: t.snap.ID, Compress: comp, Offsets: offs}, &r, callTimeout); err != nil || r.Err != "" {
				c.Inconclusive(fmt.Sprintf("transport: %v %s", err, r.Err))
				c.Logf("transport: %v %s", err, r.Err)
				w0.restart()
				continue
			}
			c.Count("wire_bytes", r.Wire)
			for _, x := range r.Trans {
				c.Eval(1)
				c.Nontrivial(fmt.Sprintf("transport/%d/%v/%d", t.no, comp, x.Offset))
				if strings.HasPrefix(x.Note, "harness:") {
					c.Inconclusive(x.Note)
					continue
				}
				if x.Offset < 0 {
					c.Count("transport_clean", 1)
					if x.Success && x.Listed && x.SHA == t.snap.RestoreSHA {
						c.Held(1)
					} else if !x.Listed && (strings.Contains(x.SendErr, "timeout") || strings.Contains(x.SendErr, "deadline")) {
						// the transport's own I/O deadline fired on an overloaded machine
						c.Inconclusive("transport deadline on a clean link")
					} else {
						c.Violation(fmt.Sprintf("transport:unaltered-install-failed:compress=%v", comp), fmt.Sprintf("InstallSnapshot of %s (%s, %d bytes, compress=%v) over a clean link: send=%q recv=%q success=%v listed=%v sha=%s want %s %s", t.snap.ID, t.shape, t.length, comp, x.SendErr, x.RecvErr, x.Success, x.Listed, short(x.SHA), short(t.snap.RestoreSHA), x.Note), map[string]any{"shape": t.shape, "compress": comp})
					}
					continue
				}
				c.Count("transport_flipped", 1)
				switch {
				case x.Listed && x.SHA == t.snap.RestoreSHA:
					c.Count("transport_flip_harmless", 1)
					c.Held(1)
				case x.Listed:
					c.Violation(fmt.Sprintf("transport:altered-data-accepted:compress=%v", comp), fmt.Sprintf("one bit flipped at wire offset %d of %d (compress=%v): snapshot installed, restores to %s, source %s %s", x.Offset, r.Wire, comp, short(x.SHA), short(t.snap.RestoreSHA), x.Note), map[string]any{"shape": t.shape, "compress": comp, "offset": x.Offset})
				case x.Success:
					c.Count("transport_success_without_install", 1)
					c.Held(1)
				default:
					c.Count("transport_flip_rejected", 1)
					c.Held(1)
				}
			}
		}
	}
	w0.p.Kill()
	c.Require(int64(c.N(1500, 25000)), c.N(1200, 20000))
}
