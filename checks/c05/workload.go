package c05

// WAL producers: (1) real SQLite (stock driver, no rqlite code) running seeded
// scripts, (2) a synthetic frame-by-frame generator.

import (
	"context"
	"database/sql"
	"fmt"
	"math/rand/v2"
	"os"
	"path/filepath"

	"verif/internal/sqlref"
)

var pageSizes = []int{512, 1024, 2048, 4096, 8192, 16384, 32768, 65536}

// op is one step of a SQLite script (descriptor only; blob contents come from
// the case PRNG).
type op struct {
	K string `json:"k"`
	A int    `json:"a,omitempty"`
	B int    `json:"b,omitempty"`
}

type sqlCase struct {
	No       int    `json:"no"`
	PageSize int    `json:"page_size"`
	AutoVac  int    `json:"auto_vacuum"`
	Gens     int    `json:"earlier_generations"` // WAL generations before the captured one (their frames trail as stale tail)
	Pre      []op   `json:"-"`
	Ops      []op   `json:"ops"`
	Ending   string `json:"ending"` // closed | open_spill
}

func genOps(r *rand.Rand, n int, autoVac int, allowAbort bool) []op {
	var ops []op
	for i := 0; i < n; i++ {
		x := r.IntN(100)
		switch {
		case x < 22:
			ops = append(ops, op{K: "ins", A: 1 + r.IntN(25), B: r.IntN(10)})
		case x < 36:
			ops = append(ops, op{K: "upd", A: 2 + r.IntN(6), B: r.IntN(8)})
		case x < 52:
			ops = append(ops, op{K: "tick", A: 1 + r.IntN(3)})
		case x < 60:
			ops = append(ops, op{K: "del", A: 2 + r.IntN(4), B: r.IntN(6)})
		case x < 66:
			ops = append(ops, op{K: "mktab", A: r.IntN(3), B: 1 + r.IntN(20)})
		case x < 71:
			ops = append(ops, op{K: "drop", A: r.IntN(3)})
		case x < 76:
			ops = append(ops, op{K: "vacuum"})
		case x < 79:
			if autoVac == 2 {
				ops = append(ops, op{K: "incrvac"})
			} else {
				ops = append(ops, op{K: "delall"})
			}
		case x < 84:
			ops = append(ops, op{K: "spillcommit", A: 30 + r.IntN(40)})
		case x < 89:
			ops = append(ops, op{K: "savepoint_rb", A: 20 + r.IntN(40)})
		case x < 94:
			if allowAbort {
				ops = append(ops, op{K: "spill_rollback", A: 25 + r.IntN(50)})
			} else {
				ops = append(ops, op{K: "tick", A: 1})
			}
		case x < 97:
			ops = append(ops, op{K: "index", A: r.IntN(2)})
		default:
			ops = append(ops, op{K: "ins", A: 60 + r.IntN(120), B: 0})
		}
	}
	return ops
}

func genSQLCase(r *rand.Rand, no int) *sqlCase {
	c := &sqlCase{No: no}
	// favour small pages (cheap), keep every size represented
	w := r.IntN(100)
	switch {
	case w < 20:
		c.PageSize = 512
	case w < 38:
		c.PageSize = 1024
	case w < 50:
		c.PageSize = 2048
	case w < 68:
		c.PageSize = 4096
	case w < 78:
		c.PageSize = 8192
	case w < 86:
		c.PageSize = 16384
	case w < 93:
		c.PageSize = 32768
	default:
		c.PageSize = 65536
	}
	c.AutoVac = []int{0, 0, 1, 2}[r.IntN(4)]
	if r.IntN(100) < 45 {
		c.Gens = 1 + r.IntN(2)
	}
	for g := 0; g < c.Gens; g++ {
		c.Pre = append(c.Pre, genOps(r, 2+r.IntN(8), c.AutoVac, true)...)
		c.Pre = append(c.Pre, op{K: "checkpoint_full"})
	}
	nOps := 1 + r.IntN(22)
	if c.PageSize >= 16384 {
		nOps = 1 + r.IntN(9)
	}
	c.Ops = genOps(r, nOps, c.AutoVac, true)
	if c.Gens > 0 {
		// make sure the captured WAL is a new generation on top of the base
		// (a script whose steps all happen to be no-ops would otherwise leave
		// the previous, already checkpointed generation in the file)
		c.Ops = append([]op{{K: "ins", A: 1}}, c.Ops...)
	}
	c.Ending = "closed"
	if r.IntN(100) < 12 {
		c.Ending = "open_spill"
	}
	return c
}

type scriptRunner struct {
	ctx  context.Context
	conn *sql.Conn
	r    *rand.Rand
	ps   int
}

func (s *scriptRunner) exec(q string, args ...any) error {
	_, err := s.conn.ExecContext(s.ctx, q, args...)
	if err != nil {
		return fmt.Errorf("%s: %w", q, err)
	}
	return nil
}

func (s *scriptRunner) blob() []byte {
	var n int
	switch x := s.r.IntN(100); {
	case x < 15:
		n = s.r.IntN(16)
	case x < 88:
		n = s.r.IntN(min(s.ps, 8192)/4 + 1)
	default:
		n = s.ps + s.r.IntN(min(s.ps, 8192)) // overflow pages
	}
	b := make([]byte, n)
	for i := range b {
		b[i] = byte(s.r.UintN(256))
	}
	return b
}

// scale keeps the volume of one step roughly constant across page sizes.
func (s *scriptRunner) scale(n, floor int) int {
	if s.ps > 4096 {
		n = n * 4096 / s.ps
	}
	if n < floor {
		n = floor
	}
	return n
}

func (s *scriptRunner) inserts(tbl string, n int) error {
	if n > 30 {
		n = s.scale(n, 30)
	}
	for i := 0; i < n; i++ {
		if err := s.exec("INSERT INTO "+tbl+"(k,v) VALUES(?,?)", s.r.IntN(1000), s.blob()); err != nil {
			return err
		}
	}
	return nil
}

// spillInserts inserts enough data to dirty about `pages` pages.
func (s *scriptRunner) spillInserts(pages int) error {
	per := s.ps / 2
	n := s.scale(pages, 9) * 2
	for i := 0; i < n; i++ {
		b := make([]byte, per)
		for j := 0; j < len(b); j += 7 {
			b[j] = byte(s.r.UintN(256))
		}
		if err := s.exec("INSERT INTO t0(k,v) VALUES(?,?)", s.r.IntN(1000), b); err != nil {
			return err
		}
	}
	return nil
}

func (s *scriptRunner) run(o op) error {
	switch o.K {
	case "ins":
		if err := s.exec("BEGIN"); err != nil {
			return err
		}
		if err := s.inserts("t0", o.A); err != nil {
			return err
		}
		return s.exec("COMMIT")
	case "upd":
		return s.exec("UPDATE t0 SET v=? WHERE id%?=?", s.blob(), o.A, o.B%o.A)
	case "tick":
		for i := 0; i < o.A; i++ {
			if err := s.exec("UPDATE t0 SET k=k+1 WHERE id=(SELECT min(id) FROM t0)"); err != nil {
				return err
			}
		}
		return nil
	case "del":
		return s.exec("DELETE FROM t0 WHERE id%?=?", o.A, o.B%o.A)
	case "delall":
		return s.exec("DELETE FROM t0 WHERE id > (SELECT min(id)+3 FROM t0)")
	case "mktab":
		t := fmt.Sprintf("x%d", o.A)
		if err := s.exec("BEGIN"); err != nil {
			return err
		}
		if err := s.exec("CREATE TABLE IF NOT EXISTS " + t + "(id INTEGER PRIMARY KEY, k INT, v BLOB)"); err != nil {
			return err
		}
		if err := s.inserts(t, o.B); err != nil {
			return err
		}
		return s.exec("COMMIT")
	case "drop":
		return s.exec(fmt.Sprintf("DROP TABLE IF EXISTS x%d", o.A))
	case "vacuum":
		return s.exec("VACUUM")
	case "incrvac":
		return s.exec("PRAGMA incremental_vacuum")
	case "index":
		if o.A == 0 {
			return s.exec("CREATE INDEX IF NOT EXISTS i1 ON t0(v)")
		}
		return s.exec("DROP INDEX IF EXISTS i1")
	case "spillcommit":
		if err := s.exec("PRAGMA cache_size=3"); err != nil {
			return err
		}
		if err := s.exec("BEGIN"); err != nil {
			return err
		}
		if err := s.spillInserts(o.A); err != nil {
			return err
		}
		if err := s.exec("COMMIT"); err != nil {
			return err
		}
		return s.exec("PRAGMA cache_size=-2000")
	case "savepoint_rb":
		if err := s.exec("PRAGMA cache_size=3"); err != nil {
			return err
		}
		if err := s.exec("BEGIN"); err != nil {
			return err
		}
		if err := s.inserts("t0", 2); err != nil {
			return err
		}
		if err := s.exec("SAVEPOINT sp"); err != nil {
			return err
		}
		if err := s.spillInserts(o.A); err != nil {
			return err
		}
		if err := s.exec("ROLLBACK TO sp"); err != nil {
			return err
		}
		if err := s.exec("RELEASE sp"); err != nil {
			return err
		}
		if err := s.inserts("t0", 2); err != nil {
			return err
		}
		if err := s.exec("COMMIT"); err != nil {
			return err
		}
		return s.exec("PRAGMA cache_size=-2000")
	case "spill_rollback":
		if err := s.exec("PRAGMA cache_size=3"); err != nil {
			return err
		}
		if err := s.exec("BEGIN"); err != nil {
			return err
		}
		if err := s.spillInserts(o.A); err != nil {
			return err
		}
		if err := s.exec("ROLLBACK"); err != nil {
			return err
		}
		return s.exec("PRAGMA cache_size=-2000")
	case "checkpoint_full":
		var busy, nlog, nck int
		if err := s.conn.QueryRowContext(s.ctx, "PRAGMA wal_checkpoint(FULL)").Scan(&busy, &nlog, &nck); err != nil {
			return err
		}
		if busy != 0 || nlog != nck {
			return fmt.Errorf("setup checkpoint incomplete: %d %d %d", busy, nlog, nck)
		}
		return nil
	}
	return fmt.Errorf("unknown op %q", o.K)
}

// produce runs the case on real SQLite and returns the base database image
// (everything before the captured WAL generation checkpointed in) and the WAL
// image, copied while the connection is still open (so the driver's
// checkpoint-on-close never sees it).
func (c *sqlCase) produce(dir string, r *rand.Rand) (base, walb []byte, err error) {
	path := filepath.Join(dir, "src.db")
	db, err := sqlref.Open(path)
	if err != nil {
		return nil, nil, err
	}
	defer db.Close()
	ctx := context.Background()
	conn, err := db.Conn(ctx)
	if err != nil {
		return nil, nil, err
	}
	defer conn.Close()
	s := &scriptRunner{ctx: ctx, conn: conn, r: r, ps: c.PageSize}
	for _, q := range []string{
		fmt.Sprintf("PRAGMA page_size=%d", c.PageSize),
		fmt.Sprintf("PRAGMA auto_vacuum=%d", c.AutoVac),
		"PRAGMA journal_mode=WAL",
		"PRAGMA wal_autocheckpoint=0",
		"PRAGMA synchronous=OFF",
		"CREATE TABLE t0(id INTEGER PRIMARY KEY, k INT, v BLOB)",
		"CREATE INDEX i0 ON t0(k)",
	} {
		if err := s.exec(q); err != nil {
			return nil, nil, err
		}
	}
	if err := s.exec("BEGIN"); err != nil {
		return nil, nil, err
	}
	if err := s.inserts("t0", 5+r.IntN(60)); err != nil {
		return nil, nil, err
	}
	if err := s.exec("COMMIT"); err != nil {
		return nil, nil, err
	}
	if c.Gens == 0 {
		var busy, a, b int
		if err := conn.QueryRowContext(ctx, "PRAGMA wal_checkpoint(TRUNCATE)").Scan(&busy, &a, &b); err != nil || busy != 0 {
			return nil, nil, fmt.Errorf("setup truncate: busy=%d err=%v", busy, err)
		}
	}
	for _, o := range c.Pre {
		if err := s.run(o); err != nil {
			return nil, nil, fmt.Errorf("pre %v: %w", o, err)
		}
	}
	// Everything so far is in the database file; the WAL (if any) only holds
	// frames of finished generations.
	base, err = os.ReadFile(path)
	if err != nil {
		return nil, nil, err
	}
	var saltBefore [8]byte
	if wb, err := os.ReadFile(path + "-wal"); err == nil && len(wb) >= walHdrSize {
		copy(saltBefore[:], wb[16:24])
	}
	for _, o := range c.Ops {
		if err := s.run(o); err != nil {
			return nil, nil, fmt.Errorf("op %v: %w", o, err)
		}
	}
	if c.Ending == "open_spill" {
		if err := s.exec("PRAGMA cache_size=3"); err != nil {
			return nil, nil, err
		}
		if err := s.exec("BEGIN"); err != nil {
			return nil, nil, err
		}
		if err := s.spillInserts(30 + r.IntN(30)); err != nil {
			return nil, nil, err
		}
	}
	walb, err = os.ReadFile(path + "-wal")
	if err != nil {
		return nil, nil, err
	}
	if c.Ending == "open_spill" {
		s.exec("ROLLBACK")
	}
	if c.Gens > 0 && len(walb) >= walHdrSize && string(walb[16:24]) == string(saltBefore[:]) {
		return nil, nil, fmt.Errorf("script did not start a new WAL generation on top of the base")
	}
	return base, walb, nil
}

// ---------------------------------------------------------------- synthetic

type synthCase struct {
	No        int    `json:"no"`
	PageSize  int    `json:"page_size"`
	BigEndian bool   `json:"big_endian_checksums"`
	BasePages int    `json:"base_pages"`
	Txns      int    `json:"txns"`
	Frames    int    `json:"frames"`
	Mutation  string `json:"mutation"`
	MutArg    int    `json:"mut_arg"`
	Sparse    bool   `json:"sparse_grow"` // some commit grew the database without writing every new page
}

// page1Templates holds, per page size, page 1 of a genuine empty WAL-mode
// database made by SQLite.
func makePage1Template(dir string, ps int) ([]byte, error) {
	path := filepath.Join(dir, fmt.Sprintf("tmpl-%d.db", ps))
	db, err := sqlref.Open(path)
	if err != nil {
		return nil, err
	}
	for _, q := range []string{
		fmt.Sprintf("PRAGMA page_size=%d", ps),
		"PRAGMA journal_mode=WAL",
		"PRAGMA user_version=7",
	} {
		if _, err := db.Exec(q); err != nil {
			db.Close()
			return nil, fmt.Errorf("%s: %w", q, err)
		}
	}
	if err := db.Close(); err != nil {
		return nil, err
	}
	b, err := os.ReadFile(path)
	if err != nil {
		return nil, err
	}
	if len(b) != ps {
		return nil, fmt.Errorf("template for page size %d has %d bytes", ps, len(b))
	}
	os.Remove(path)
	return b, nil
}

func randPage(r *rand.Rand, ps int) []byte {
	b := make([]byte, ps)
	for i := 0; i+8 <= ps; i += 8 {
		x := r.Uint64()
		for j := 0; j < 8; j++ {
			b[i+j] = byte(x >> (8 * j))
		}
	}
	return b
}

// page1Image is a valid page 1 (empty schema) that differs per call: the
// user_version field and the unallocated area of the b-tree page vary.
func page1Image(r *rand.Rand, tmpl []byte) []byte {
	b := append([]byte(nil), tmpl...)
	v := r.Uint32()
	b[60], b[61], b[62], b[63] = byte(v>>24), byte(v>>16), byte(v>>8), byte(v)
	for i := 200; i < len(b); i++ {
		b[i] = byte(r.UintN(256))
	}
	return b
}

func genSynth(r *rand.Rand, no int, tmpls map[int][]byte) (*synthCase, []byte, []byte) {
	sc := &synthCase{No: no}
	switch x := r.IntN(100); {
	case x < 45:
		sc.PageSize = 512
	case x < 70:
		sc.PageSize = 1024
	case x < 90:
		sc.PageSize = 4096
	case x < 96:
		sc.PageSize = 8192
	default:
		sc.PageSize = 65536
	}
	ps := sc.PageSize
	tmpl := tmpls[ps]
	sc.BigEndian = r.IntN(4) == 0
	sc.BasePages = 1 + r.IntN(8)
	base := append([]byte(nil), tmpl...)
	for i := 1; i < sc.BasePages; i++ {
		base = append(base, randPage(r, ps)...)
	}
	muts := []string{"none", "none", "none", "stale_tail", "stale_tail", "same_salt_garbage", "same_salt_garbage_commit",
		"corrupt_data", "corrupt_cksum", "truncate_hdr", "truncate_page", "no_final_commit", "salt_flip", "bad_header", "valid_uncommitted_tail"}
	sc.Mutation = muts[r.IntN(len(muts))]

	salt1, salt2 := r.Uint32(), r.Uint32()
	build := func(w *walBuilder, nTx int, noFinalCommit bool) {
		cur := sc.BasePages
		for t := 0; t < nTx; t++ {
			nf := 1 + r.IntN(6)
			var pages []uint32
			for i := 0; i < nf; i++ {
				if r.IntN(100) < 35 {
					pages = append(pages, 1)
				} else {
					pages = append(pages, uint32(1+r.IntN(cur)))
				}
			}
			newsize := cur
			switch x := r.IntN(100); {
			case x < 30: // grow: every new page is written ...
				g := 1 + r.IntN(3)
				// ... except in a "sparse" grow (one in three), where some of the pages
				// the commit size now covers get no frame in this transaction: their
				// content is whatever an earlier frame of this WAL (written before a
				// shrink) or the base file holds. SQLite never writes such a WAL itself
				// but reads it like any other.
				sparse := r.IntN(3) == 0
				for p := cur + 1; p <= cur+g; p++ {
					if sparse && r.IntN(2) == 0 {
						sc.Sparse = true
						continue
					}
					pages = append(pages, uint32(p))
				}
				r.Shuffle(len(pages), func(i, j int) { pages[i], pages[j] = pages[j], pages[i] })
				newsize = cur + g
			case x < 45 && cur > 1: // shrink; frames above the new size may precede the commit
				newsize = 1 + r.IntN(cur-1)
			}
			// the commit frame must be a page inside the new size
			last := -1
			for i := len(pages) - 1; i >= 0; i-- {
				if int(pages[i]) <= newsize {
					last = i
					break
				}
			}
			if last < 0 {
				pages = append(pages, 1)
				last = len(pages) - 1
			}
			pages[last], pages[len(pages)-1] = pages[len(pages)-1], pages[last]
			for i, pg := range pages {
				commit := uint32(0)
				if i == len(pages)-1 && !(noFinalCommit && t == nTx-1) {
					commit = uint32(newsize)
				}
				var data []byte
				if pg == 1 {
					data = page1Image(r, tmpl)
				} else {
					data = randPage(r, ps)
				}
				w.frame(pg, commit, data)
			}
			cur = newsize
		}
	}
	sc.Txns = 1 + r.IntN(10)
	if ps == 65536 {
		sc.Txns = 1 + r.IntN(4)
	}
	w := newWALBuilder(sc.BigEndian, ps, r.Uint32(), salt1, salt2)
	build(w, sc.Txns, sc.Mutation == "no_final_commit")
	sc.Frames = w.nFrames
	fsz := frameHdrSize + ps
	out := w.bytes()
	switch sc.Mutation {
	case "stale_tail":
		// an older generation that was longer: its frames remain after ours
		old := newWALBuilder(sc.BigEndian, ps, r.Uint32(), salt1-1, r.Uint32())
		for old.nFrames <= w.nFrames+1 {
			build(old, 1+r.IntN(4), false)
		}
		ob := old.bytes()
		out = append(out, ob[len(out):]...)
		sc.MutArg = old.nFrames - w.nFrames
	case "same_salt_garbage", "same_salt_garbage_commit":
		w.perturbChain(r.Uint32())
		k := 1 + r.IntN(5)
		for i := 0; i < k; i++ {
			commit := uint32(0)
			if sc.Mutation == "same_salt_garbage_commit" && (i == k-1 || r.IntN(3) == 0) {
				commit = uint32(1 + r.IntN(6))
			}
			w.frame(uint32(1+r.IntN(sc.BasePages+2)), commit, randPage(r, ps))
		}
		out = w.bytes()
		sc.MutArg = k
	case "valid_uncommitted_tail":
		// checksum-valid frames without a commit (a spilled transaction that
		// never committed)
		k := 1 + r.IntN(5)
		for i := 0; i < k; i++ {
			w.frame(uint32(1+r.IntN(sc.BasePages+2)), 0, randPage(r, ps))
		}
		out = w.bytes()
		sc.MutArg = k
	case "corrupt_data":
		j := r.IntN(w.nFrames)
		out[walHdrSize+j*fsz+frameHdrSize+r.IntN(ps)] ^= byte(1 << r.UintN(8))
		sc.MutArg = j
	case "corrupt_cksum":
		j := r.IntN(w.nFrames)
		out[walHdrSize+j*fsz+16+r.IntN(8)] ^= byte(1 << r.UintN(8))
		sc.MutArg = j
	case "salt_flip":
		j := r.IntN(w.nFrames)
		out[walHdrSize+j*fsz+8+r.IntN(8)] ^= byte(1 << r.UintN(8))
		sc.MutArg = j
	case "truncate_hdr":
		j := r.IntN(w.nFrames)
		out = out[:walHdrSize+j*fsz+r.IntN(frameHdrSize)]
		sc.MutArg = j
	case "truncate_page":
		j := r.IntN(w.nFrames)
		out = out[:walHdrSize+j*fsz+frameHdrSize+r.IntN(ps)]
		sc.MutArg = j
	case "bad_header":
		switch r.IntN(3) {
		case 0:
			out = out[:r.IntN(walHdrSize)]
		case 1:
			out[24+r.IntN(8)] ^= 0x10
		default:
			out[16+r.IntN(8)] ^= 0x01 // salt changed without fixing the header checksum
		}
	}
	return sc, base, out
}
