// Package c13: transactional requests are all-or-nothing and results match
// statements (DESIGN §6 C13). Twin-database monitor at the db.DB level: every
// generated request is executed through rqlite's db package (Execute or the
// unified Request path) and through the reference executor of
// internal/sqlref on plain SQLite; result lists, logical dumps and the
// "transaction left open" state are compared after every request.
package c13

import (
	"context"
	"database/sql"
	"encoding/json"
	"fmt"
	"math/rand/v2"
	"os"
	"path/filepath"
	"runtime"
	"strings"
	"sync"

	proto "github.com/rqlite/rqlite/v10/command/proto"
	rdb "github.com/rqlite/rqlite/v10/db"
	"verif/internal/sqlref"
	"verif/internal/vf"
)

func init() { vf.Register("C13", "exploration", run) }

const (
	keyPrepareErr = "request-path:tx:prepare-error"
	keyROEIgnored = "request-path:rollback-on-error-ignored"
)

var seedReq = sqlref.RefReq{Tx: true, Stmts: []sqlref.RefStmt{
	{SQL: `CREATE TABLE t (id INTEGER PRIMARY KEY, u TEXT UNIQUE, n INTEGER NOT NULL, c INTEGER CHECK (c IS NULL OR c >= 0))`},
	{SQL: `CREATE TABLE p (id INTEGER PRIMARY KEY, name TEXT)`},
	{SQL: `CREATE TABLE k (id INTEGER PRIMARY KEY, pid INTEGER REFERENCES p(id), v TEXT)`},
	{SQL: `INSERT INTO p(id,name) VALUES (1,'p1'),(2,'p2'),(3,'p3'),(4,'p4')`},
	{SQL: `INSERT INTO t(u,n,c) VALUES ('u0',1,5),('u1',2,6),('u2',3,7),('u3',4,NULL)`},
	{SQL: `INSERT INTO k(pid,v) VALUES (1,'a'),(2,'b')`},
}}

// ---------------------------------------------------------------- generator

type gen struct {
	r     *rand.Rand
	clean bool // current request is drawn from statements that normally succeed
}

func (g *gen) u() string               { return fmt.Sprintf("'u%d'", g.r.IntN(300)) }
func (g *gen) n() string               { return fmt.Sprint(g.r.IntN(10)) }
func (g *gen) cv() string              { return fmt.Sprint(g.r.IntN(12)) }
func (g *gen) pick(s ...string) string { return s[g.r.IntN(len(s))] }

func (g *gen) row(bad int) string {
	switch bad {
	case 1:
		return fmt.Sprintf("(%s,NULL,%s)", g.u(), g.cv()) // NOT NULL
	case 2:
		return fmt.Sprintf("(%s,%s,-1)", g.u(), g.n()) // CHECK
	case 3:
		return fmt.Sprintf("('u0',%s,%s)", g.n(), g.cv()) // UNIQUE (u0 is seeded; usually present)
	}
	return fmt.Sprintf("(%s,%s,%s)", g.u(), g.n(), g.cv())
}

var weights = []struct {
	kind string
	w    int
}{
	{"insert", 16}, {"multi", 10}, {"updn", 10}, {"updu", 2}, {"updc", 2}, {"del", 6},
	{"insk", 5}, {"delp", 2}, {"insp", 3}, {"orx", 4}, {"syntax", 3}, {"unknown", 3},
	{"rterr", 1}, {"returning", 8}, {"select", 7}, {"selbad", 1}, {"empty", 6},
	{"ddl", 3}, {"param", 4}, {"txc", 6},
}

func (g *gen) kind(allowTxc bool) string {
	for {
		tot := 0
		for _, w := range weights {
			tot += w.w
		}
		x := g.r.IntN(tot)
		for _, w := range weights {
			if x < w.w {
				if w.kind == "txc" && !allowTxc {
					break
				}
				if g.clean {
					switch w.kind {
					case "syntax", "unknown", "rterr", "selbad", "updu", "updc", "delp", "insp", "txc":
						w.kind = ""
					}
				}
				if w.kind == "" {
					break
				}
				return w.kind
			}
			x -= w.w
		}
	}
}

func (g *gen) write() sqlref.RefStmt {
	for {
		k := g.kind(false)
		switch k {
		case "empty", "select", "selbad", "returning", "syntax", "unknown", "param":
			continue
		}
		return g.stmtOf(k)
	}
}

func (g *gen) stmtOf(kind string) sqlref.RefStmt {
	r := g.r
	S := func(f string, a ...any) sqlref.RefStmt { return sqlref.RefStmt{SQL: fmt.Sprintf(f, a...)} }
	switch kind {
	case "insert":
		return S("INSERT INTO t(u,n,c) VALUES %s", g.row(0))
	case "multi":
		n := 2 + r.IntN(3)
		badAt := -1
		if !g.clean && r.IntN(3) == 0 {
			badAt = r.IntN(n)
		}
		var rows []string
		for i := 0; i < n; i++ {
			if i == badAt {
				rows = append(rows, g.row(1+r.IntN(3)))
			} else {
				rows = append(rows, g.row(0))
			}
		}
		return S("INSERT INTO t(u,n,c) VALUES %s", strings.Join(rows, ","))
	case "updn":
		m := 2 + r.IntN(3)
		return S("UPDATE t SET n=n+%d WHERE id%%%d=%d", 1+r.IntN(3), m, r.IntN(m))
	case "updu":
		return S("UPDATE t SET u=%s WHERE id>=%d", g.u(), 1+r.IntN(8))
	case "updc":
		return S("UPDATE t SET c=c-%d WHERE id>%d", 1+r.IntN(8), r.IntN(4))
	case "del":
		m := 2 + r.IntN(4)
		return S("DELETE FROM t WHERE id%%%d=%d", m, r.IntN(m))
	case "insk":
		return S("INSERT INTO k(pid,v) VALUES(%d,'v%d')", 1+r.IntN(5), r.IntN(100))
	case "delp":
		return S("DELETE FROM p WHERE id=%d", 1+r.IntN(5))
	case "insp":
		return S("INSERT INTO p(id,name) VALUES(%d,'n%d')", 1+r.IntN(14), r.IntN(100))
	case "orx":
		return S("INSERT OR %s INTO t(id,u,n,c) VALUES(%d,%s,%s,%s)", g.pick("REPLACE", "IGNORE"), 1+r.IntN(12), g.u(), g.n(), g.cv())
	case "syntax":
		return S("%s", g.pick(
			"INSERT INTO t(u,n VALUES ('zz',1)",
			"UPDTE t SET n=1",
			"DELETE FORM t",
			"INSERT INTO t(u,n,c) VALUES ('zz',1,2",
			"SELEC 1",
			"INSERT INTO t(u,n,c) VALUES ('zz',1,2) RETURNING",
		))
	case "unknown":
		return S("%s", g.pick(
			"INSERT INTO nosuch(a) VALUES(1)",
			"UPDATE t SET zz=1",
			"DELETE FROM nosuch",
			"INSERT INTO t(u,n,c,d) VALUES('zz',1,2,3)",
			"UPDATE nosuch SET a=1 WHERE b=2",
		))
	case "rterr":
		return S("UPDATE t SET n=abs(-9223372036854775807-1) WHERE id=(SELECT min(id) FROM t)")
	case "returning":
		var s sqlref.RefStmt
		switch r.IntN(4) {
		case 0:
			s = S("INSERT INTO t(u,n,c) VALUES %s RETURNING id,u", g.row(0))
		case 1:
			s = S("INSERT INTO t(u,n,c) VALUES %s,%s RETURNING id,n,c", g.row(0), g.row(r.IntN(4)))
		case 2:
			s = S("UPDATE t SET n=n+1 WHERE id%%2=%d RETURNING id,n", r.IntN(2))
		default:
			s = S("DELETE FROM t WHERE id=(SELECT max(id) FROM t) RETURNING *")
		}
		s.ForceQuery = r.IntN(5) != 0 // rqlite's SQL processor sets it for RETURNING
		return s
	case "select":
		return S("%s", g.pick(
			"SELECT count(*), sum(n), max(id) FROM t",
			"SELECT id,u,n,c FROM t ORDER BY id LIMIT 5",
			"SELECT p.id, count(k.id) FROM p LEFT JOIN k ON k.pid=p.id GROUP BY p.id ORDER BY p.id",
			"SELECT u FROM t WHERE c IS NULL ORDER BY u",
		))
	case "selbad":
		return S("%s", g.pick("SELECT * FROM nosuch", "SELECT abs(-9223372036854775807-1)", "SELECT zz FROM t"))
	case "empty":
		return sqlref.RefStmt{}
	case "ddl":
		return S("%s", g.pick(
			"CREATE TABLE x1 (a INTEGER, b TEXT)",
			"CREATE TABLE IF NOT EXISTS x1 (a INTEGER, b TEXT)",
			"DROP TABLE x1",
			"DROP TABLE IF EXISTS x1",
			"INSERT INTO x1(a,b) VALUES(1,'one')",
			"CREATE INDEX IF NOT EXISTS t_n ON t(n)",
		))
	case "param":
		var n any = int64(r.IntN(10))
		if r.IntN(6) == 0 {
			n = nil // NOT NULL violation through a NULL parameter
		}
		return sqlref.RefStmt{SQL: "INSERT INTO t(u,n,c) VALUES(?,?,?)", Args: []any{fmt.Sprintf("u%d", r.IntN(300)), n, int64(r.IntN(12))}}
	case "txc":
		return S("%s", g.pick("BEGIN", "COMMIT", "ROLLBACK", "SAVEPOINT s1", "RELEASE s1", "ROLLBACK TO s1", "BEGIN", "ROLLBACK"))
	}
	panic("kind " + kind)
}

// failing returns a write that (normally) fails when it runs: constraint
// violations of every kind the schema has, a table that does not exist (the
// text fails to prepare only when the driver reaches it), a runtime error.
func (g *gen) failing() string {
	r := g.r
	switch r.IntN(8) {
	case 0, 1:
		return "INSERT INTO t(u,n,c) VALUES " + g.row(3) // UNIQUE
	case 2:
		return "INSERT INTO t(u,n,c) VALUES " + g.row(1) // NOT NULL
	case 3:
		return "INSERT INTO t(u,n,c) VALUES " + g.row(2) // CHECK
	case 4:
		return fmt.Sprintf("INSERT INTO k(pid,v) VALUES(%d,'fk')", 90+r.IntN(9)) // FOREIGN KEY
	case 5:
		return fmt.Sprintf("INSERT INTO p(id,name) VALUES(%d,'dup')", 1+r.IntN(4)) // PRIMARY KEY
	case 6:
		return g.stmtOf("unknown").SQL
	}
	return g.stmtOf("rterr").SQL
}

// multiSQL returns ONE statement entry whose text holds 2-4 SQL statements
// separated by semicolons (the HTTP API accepts such an array element, and
// /db/load sends a whole dump as one entry). All parts are writes, so both
// request paths run the entry through the driver's Exec, which executes the
// parts one after the other and stops at the first that fails. Half of the
// entries get a part that fails at a position >= 1, i.e. after earlier parts
// of the same entry have already run.
func (g *gen) multiSQL() sqlref.RefStmt {
	r := g.r
	n := 2 + r.IntN(3)
	failAt := -1
	saved := g.clean
	switch r.IntN(4) {
	case 0:
		g.clean = false
	case 1:
		g.clean = true
	default:
		g.clean = true
		failAt = 1 + r.IntN(n-1)
	}
	var parts []string
	for i := 0; i < n; i++ {
		if i == failAt {
			parts = append(parts, g.failing())
		} else {
			parts = append(parts, g.write().SQL)
		}
	}
	g.clean = saved
	return sqlref.RefStmt{SQL: strings.Join(parts, g.pick(";", "; ", ";\n")) + g.pick("", ";")}
}

// multiSQLRequest fills req (flags already drawn) with 1-4 entries of which at
// least one is a multi-statement text; half of the requests consist of exactly
// one such entry, some are padded with empty entries.
func (g *gen) multiSQLRequest(req sqlref.RefReq) sqlref.RefReq {
	r := g.r
	n := 1
	if r.IntN(2) == 0 {
		n = 2 + r.IntN(3)
	}
	at := r.IntN(n)
	for i := 0; i < n; i++ {
		switch {
		case i == at || r.IntN(3) == 0:
			req.Stmts = append(req.Stmts, g.multiSQL())
		case r.IntN(6) == 0:
			req.Stmts = append(req.Stmts, sqlref.RefStmt{})
		default:
			req.Stmts = append(req.Stmts, g.stmtOf(g.kind(false)))
		}
	}
	return req
}

// sqlParts is the number of SQL statements in the text of one entry. Generated
// literals never contain a semicolon.
func sqlParts(sql string) int {
	n := 0
	for _, p := range strings.Split(sql, ";") {
		if strings.TrimSpace(p) != "" {
			n++
		}
	}
	return n
}

// request generates the next request. inTx is the model's view of whether an
// explicit transaction was left open by earlier requests; it is then resolved
// first, by a one-statement COMMIT or ROLLBACK request.
func (g *gen) request(inTx bool) sqlref.RefReq {
	r := g.r
	if inTx {
		return sqlref.RefReq{Unified: r.IntN(2) == 0, Stmts: []sqlref.RefStmt{{SQL: g.pick("COMMIT", "ROLLBACK")}}}
	}
	req := sqlref.RefReq{Unified: r.IntN(2) == 0, Tx: r.IntN(2) == 0, RollbackOnError: r.IntN(3) == 0}
	if r.IntN(6) == 0 {
		return g.multiSQLRequest(req)
	}
	if !req.Unified && !req.Tx && r.IntN(8) == 0 {
		// SQL-dump style: the whole text is one statement with its own
		// BEGIN…COMMIT (what /db/load sends, with RollbackOnError).
		var parts []string
		for i, n := 0, 2+r.IntN(4); i < n; i++ {
			parts = append(parts, g.write().SQL)
		}
		req.RollbackOnError = r.IntN(4) != 0
		req.Stmts = []sqlref.RefStmt{{SQL: "BEGIN;\n" + strings.Join(parts, ";\n") + ";\nCOMMIT;"}}
		return req
	}
	n := 1 + r.IntN(8)
	g.clean = r.IntN(5) < 2
	defer func() { g.clean = false }()
	explicit := !req.Tx && r.IntN(3) == 0
	if explicit {
		req.Stmts = append(req.Stmts, sqlref.RefStmt{SQL: "BEGIN"})
		if r.IntN(2) == 0 {
			req.RollbackOnError = true
		}
	}
	for i := 0; i < n; i++ {
		req.Stmts = append(req.Stmts, g.stmtOf(g.kind(!req.Tx && r.IntN(4) == 0)))
	}
	if explicit && r.IntN(5) != 0 {
		req.Stmts = append(req.Stmts, sqlref.RefStmt{SQL: g.pick("COMMIT", "COMMIT", "ROLLBACK")})
	}
	return req
}

// ------------------------------------------------------------------- twin

type twin struct {
	dir       string
	rq        *rdb.DB
	rqReader  *sql.DB
	ref       *sqlref.RefConn
	refReader *sql.DB
}

func openRefAt(path string) (*sqlref.RefConn, *sql.DB, error) {
	ref, err := sqlref.OpenRef(path, true, true)
	if err != nil {
		return nil, nil, err
	}
	rd, err := sqlref.Open(path)
	if err != nil {
		ref.Close()
		return nil, nil, err
	}
	return ref, rd, nil
}

func openTwin() (*twin, error) {
	t := &twin{dir: vf.TempDir("c13")}
	var err error
	if t.rq, err = rdb.Open(filepath.Join(t.dir, "rq.db"), true, true); err != nil {
		os.RemoveAll(t.dir)
		return nil, err
	}
	if t.rqReader, err = sqlref.Open(filepath.Join(t.dir, "rq.db")); err != nil {
		t.close()
		return nil, err
	}
	if t.ref, t.refReader, err = openRefAt(filepath.Join(t.dir, "ref.db")); err != nil {
		t.close()
		return nil, err
	}
	return t, nil
}

func (t *twin) close() {
	if t.rqReader != nil {
		t.rqReader.Close()
	}
	if t.rq != nil {
		t.rq.Close()
	}
	if t.refReader != nil {
		t.refReader.Close()
	}
	if t.ref != nil {
		t.ref.Close()
	}
	os.RemoveAll(t.dir)
}

// outcome is everything the oracle looks at for one request.
type outcome struct {
	Results []string `json:"results"`
	CallErr bool     `json:"call_err"`
	Dump    string   `json:"-"`
	DumpH   string   `json:"dump_hash"`
	InTx    bool     `json:"open_transaction"`
	ErrText []string `json:"error_texts,omitempty"`
}

func canonVal(v any) string {
	switch x := v.(type) {
	case []byte:
		return fmt.Sprintf("t:%q", string(x)) // text/blob confusion is C30's subject, not this one
	}
	return sqlref.CanonValue(v)
}

func canonParam(p *proto.Parameter) string {
	if p == nil {
		return "null"
	}
	switch w := p.GetValue().(type) {
	case *proto.Parameter_I:
		return canonVal(w.I)
	case *proto.Parameter_D:
		return canonVal(w.D)
	case *proto.Parameter_B:
		return canonVal(w.B)
	case *proto.Parameter_S:
		return canonVal(w.S)
	case *proto.Parameter_Y:
		return canonVal(w.Y)
	case nil:
		return "null"
	}
	return "?"
}

func toProto(req *sqlref.RefReq) *proto.Request {
	pr := &proto.Request{Transaction: req.Tx, RollbackOnError: req.RollbackOnError}
	for _, s := range req.Stmts {
		st := &proto.Statement{Sql: s.SQL, ForceQuery: s.ForceQuery}
		for _, a := range s.Args {
			switch x := a.(type) {
			case int64:
				st.Parameters = append(st.Parameters, &proto.Parameter{Value: &proto.Parameter_I{I: x}})
			case float64:
				// JSON replay files turn integers into float64.
				if x == float64(int64(x)) {
					st.Parameters = append(st.Parameters, &proto.Parameter{Value: &proto.Parameter_I{I: int64(x)}})
				} else {
					st.Parameters = append(st.Parameters, &proto.Parameter{Value: &proto.Parameter_D{D: x}})
				}
			case string:
				st.Parameters = append(st.Parameters, &proto.Parameter{Value: &proto.Parameter_S{S: x}})
			case nil:
				st.Parameters = append(st.Parameters, &proto.Parameter{})
			}
		}
		pr.Statements = append(pr.Statements, st)
	}
	return pr
}

func canonRq(rs []*proto.ExecuteQueryResponse) (out, errs []string) {
	for _, r := range rs {
		switch {
		case r == nil || r.Result == nil:
			out = append(out, "NIL")
		case r.GetError() != "":
			out = append(out, "ERR")
			errs = append(errs, r.GetError())
		case r.GetQ() != nil:
			q := r.GetQ()
			if q.Error != "" {
				out = append(out, "ERR")
				errs = append(errs, q.Error)
				continue
			}
			var rows []string
			for _, v := range q.Values {
				var cs []string
				for _, p := range v.Parameters {
					cs = append(cs, canonParam(p))
				}
				rows = append(rows, "("+strings.Join(cs, ",")+")")
			}
			out = append(out, fmt.Sprintf("Q cols=%v rows=[%s]", q.Columns, strings.Join(rows, "")))
		case r.GetE() != nil:
			out = append(out, fmt.Sprintf("E last_insert_id=%d rows_affected=%d", r.GetE().LastInsertId, r.GetE().RowsAffected))
		default:
			out = append(out, "ERR")
		}
	}
	return
}

func canonRef(rs []sqlref.RefRes) (out, errs []string) {
	for _, r := range rs {
		switch {
		case r.Err != "":
			out = append(out, "ERR")
			errs = append(errs, r.Err)
		case r.Kind == "Q":
			var rows []string
			for _, v := range r.Rows {
				var cs []string
				for _, x := range v {
					cs = append(cs, canonVal(x))
				}
				rows = append(rows, "("+strings.Join(cs, ",")+")")
			}
			out = append(out, fmt.Sprintf("Q cols=%v rows=[%s]", r.Columns, strings.Join(rows, "")))
		default:
			out = append(out, fmt.Sprintf("E last_insert_id=%d rows_affected=%d", r.LastInsertID, r.RowsAffected))
		}
	}
	return
}

// rqInTx probes, through the public API only, whether rqlite's write
// connection was left inside a transaction: BEGIN fails iff one is open; if it
// succeeds it is rolled back at once, so the probe never changes the state.
func rqInTx(d *rdb.DB) (bool, error) {
	rs, err := d.Execute(&proto.Request{Statements: []*proto.Statement{{Sql: "BEGIN"}}}, false)
	if err != nil {
		return false, err
	}
	if len(rs) == 1 && rs[0].GetError() != "" {
		return true, nil
	}
	if _, err := d.Execute(&proto.Request{Statements: []*proto.Statement{{Sql: "ROLLBACK"}}}, false); err != nil {
		return false, err
	}
	return false, nil
}

func runRq(t *twin, req *sqlref.RefReq) (*outcome, error) {
	pr := toProto(req)
	var rs []*proto.ExecuteQueryResponse
	var err error
	if req.Unified {
		rs, err = t.rq.Request(pr, false)
	} else {
		rs, err = t.rq.Execute(pr, false)
	}
	o := &outcome{CallErr: err != nil}
	o.Results, o.ErrText = canonRq(rs)
	if err != nil {
		o.ErrText = append(o.ErrText, "call: "+err.Error())
	}
	if o.InTx, err = rqInTx(t.rq); err != nil {
		return nil, fmt.Errorf("probe: %w", err)
	}
	d, err := sqlref.DumpDB(t.rqReader)
	if err != nil {
		return nil, fmt.Errorf("dump rqlite db: %w", err)
	}
	o.Dump, o.DumpH = d.String(), d.Hash()
	return o, nil
}

// connDigest renders the whole database as the given connection sees it right
// now (inside its open transaction, if any).
func connDigest(conn *sql.Conn) (string, error) {
	ctx := context.Background()
	rows, err := conn.QueryContext(ctx, `SELECT name, coalesce(sql,'') FROM sqlite_master ORDER BY name`)
	if err != nil {
		return "", err
	}
	var b strings.Builder
	var tables []string
	for rows.Next() {
		var name, def string
		if err := rows.Scan(&name, &def); err != nil {
			rows.Close()
			return "", err
		}
		fmt.Fprintf(&b, "S %s %s\n", name, def)
		if strings.HasPrefix(def, "CREATE TABLE") {
			tables = append(tables, name)
		}
	}
	rows.Close()
	if err := rows.Err(); err != nil {
		return "", err
	}
	for _, t := range tables {
		r, err := conn.QueryContext(ctx, `SELECT * FROM "`+t+`" ORDER BY rowid`)
		if err != nil {
			return "", err
		}
		cols, _ := r.Columns()
		for r.Next() {
			vals := make([]any, len(cols))
			ptrs := make([]any, len(cols))
			for i := range vals {
				ptrs[i] = &vals[i]
			}
			if err := r.Scan(ptrs...); err != nil {
				r.Close()
				return "", err
			}
			fmt.Fprintf(&b, "R %s %v\n", t, vals)
		}
		r.Close()
		if err := r.Err(); err != nil {
			return "", err
		}
	}
	return b.String(), nil
}

// partialObs measures, on the reference connection, which multi-statement
// entries of a request failed AFTER earlier statements of the same entry had
// changed the database: the state the connection sees right after the failure
// (before any ROLLBACK of the executor) differs from the state before the
// entry. SQLite undoes the failing statement itself, so a difference is the
// work of the entry's earlier statements. Measurement only; not an oracle.
type partialObs struct {
	before  string
	failed  int // multi-statement entries that failed
	partial int // ... of which after earlier statements of the entry changed the database
	err     error
}

func (p *partialObs) hooks(ref *sqlref.RefConn, req *sqlref.RefReq) *sqlref.RefHooks {
	multi := false
	for _, s := range req.Stmts {
		if sqlParts(s.SQL) >= 2 {
			multi = true
		}
	}
	if !multi {
		return nil
	}
	return &sqlref.RefHooks{
		Before: func(i int) {
			if sqlParts(req.Stmts[i].SQL) >= 2 {
				p.before, p.err = connDigest(ref.Conn)
			}
		},
		After: func(i int, res *sqlref.RefRes) {
			if sqlParts(req.Stmts[i].SQL) < 2 || res.Err == "" || p.err != nil {
				return
			}
			p.failed++
			after, err := connDigest(ref.Conn)
			if err != nil {
				p.err = err
				return
			}
			if after != p.before {
				p.partial++
			}
		},
	}
}

func runRef(ref *sqlref.RefConn, reader *sql.DB, req *sqlref.RefReq, v sqlref.RefVariant, h *sqlref.RefHooks) (*outcome, []sqlref.RefRes, error) {
	rs, err := ref.Run(req, v, h)
	o := &outcome{CallErr: err != nil}
	o.Results, o.ErrText = canonRef(rs)
	o.InTx = ref.InTx()
	d, derr := sqlref.DumpDB(reader)
	if derr != nil {
		return nil, nil, fmt.Errorf("dump reference db: %w", derr)
	}
	o.Dump, o.DumpH = d.String(), d.Hash()
	return o, rs, nil
}

func sameOutcome(a, b *outcome) bool {
	return a.CallErr == b.CallErr && a.InTx == b.InTx && a.Dump == b.Dump && strings.Join(a.Results, "\n") == strings.Join(b.Results, "\n")
}

// describe says what differs (want = reference, got = rqlite).
func describe(want, got *outcome) (aspect, text string) {
	var parts []string
	if len(want.Results) != len(got.Results) {
		aspect = "result-count"
		parts = append(parts, fmt.Sprintf("rqlite returned %d results, reference %d", len(got.Results), len(want.Results)))
	} else {
		for i := range want.Results {
			if want.Results[i] != got.Results[i] {
				aspect = "result"
				parts = append(parts, fmt.Sprintf("result[%d]: rqlite %s, reference %s", i, got.Results[i], want.Results[i]))
				break
			}
		}
	}
	if want.Dump != got.Dump {
		if aspect == "" {
			aspect = "database"
		}
		parts = append(parts, "database differs (- reference, + rqlite): "+strings.ReplaceAll(lineDiff(strings.Split(want.Dump, "\n"), strings.Split(got.Dump, "\n")), "\n", " | "))
	}
	if want.InTx != got.InTx {
		if aspect == "" {
			aspect = "open-transaction"
		}
		parts = append(parts, fmt.Sprintf("transaction left open: rqlite %v, reference %v", got.InTx, want.InTx))
	}
	if want.CallErr != got.CallErr {
		if aspect == "" {
			aspect = "call-error"
		}
		parts = append(parts, fmt.Sprintf("call error: rqlite %v, reference %v", got.CallErr, want.CallErr))
	}
	return aspect, strings.Join(parts, "; ")
}

func lineDiff(a, b []string) string {
	cnt := map[string]int{}
	for _, l := range a {
		cnt[l]++
	}
	for _, l := range b {
		cnt[l]--
	}
	var out []string
	for _, l := range a {
		if cnt[l] > 0 && len(out) < 5 {
			out = append(out, "- "+strings.TrimSpace(l))
			cnt[l]--
		}
	}
	n := len(out)
	for _, l := range b {
		if cnt[l] < 0 && len(out) < n+5 {
			out = append(out, "+ "+strings.TrimSpace(l))
			cnt[l]++
		}
	}
	return strings.Join(out, "\n")
}

// classify decides the finding key of a mismatch. A known-defect key is used
// only when rqlite's observed outcome is exactly what that defect's (wrong)
// semantics predicts from the same history; anything else gets a generic key.
func classify(history []sqlref.RefReq, req *sqlref.RefReq, got *outcome, aspect string) string {
	generic := func() string {
		p := "execute-path"
		if req.Unified {
			p = "request-path"
		}
		f := "notx"
		if req.Tx {
			f = "tx"
		}
		if req.RollbackOnError {
			f += "+roe"
		}
		return p + ":" + f + ":" + aspect + "-mismatch"
	}
	var v sqlref.RefVariant
	var key string
	switch {
	case req.Unified && req.Tx:
		v, key = sqlref.RefVariant{PrepareErrDoesNotAbortTx: true}, keyPrepareErr
	case req.Unified && !req.Tx && req.RollbackOnError:
		v, key = sqlref.RefVariant{UnifiedIgnoresRollbackOnError: true}, keyROEIgnored
	default:
		return generic()
	}
	dir := vf.TempDir("c13v")
	defer os.RemoveAll(dir)
	ref, rd, err := openRefAt(filepath.Join(dir, "v.db"))
	if err != nil {
		return generic()
	}
	defer ref.Close()
	defer rd.Close()
	for i := range history {
		if _, err := ref.Run(&history[i], sqlref.RefVariant{}, nil); err != nil {
			return generic()
		}
	}
	o, _, err := runRef(ref, rd, req, v, nil)
	if err != nil || !sameOutcome(o, got) {
		return generic()
	}
	return key
}

// ------------------------------------------------------------------ driver

type caseRec struct {
	Episode  int             `json:"episode"`
	History  []sqlref.RefReq `json:"history"` // requests before the failing one (history[0] = seed)
	Request  sqlref.RefReq   `json:"request"`
	Rqlite   *outcome        `json:"rqlite"`
	Ref      *outcome        `json:"reference"`
	RefStmts []sqlref.RefRes `json:"reference_results,omitempty"`
}

func pathName(r *sqlref.RefReq) string {
	s := "execute"
	if r.Unified {
		s = "request"
	}
	if r.Tx {
		s += "+tx"
	}
	if r.RollbackOnError {
		s += "+roe"
	}
	return s
}

// runEpisode runs one twin through up to n requests. next yields the requests.
// After a mismatch the twins have diverged, so the rest of the episode goes on
// on a fresh, re-seeded twin.
func runEpisode(c *vf.Ctx, ep int, n int, next func(i int, inTx bool) (sqlref.RefReq, bool)) {
	for done := 0; done < n; {
		k := runSegment(c, ep, done, n, next)
		if k <= 0 {
			return
		}
		done += k
	}
}

// runSegment runs requests base..n-1 on one fresh twin until the first
// mismatch; it returns how many requests it evaluated (0 = stop the episode).
func runSegment(c *vf.Ctx, ep, base, n int, next func(i int, inTx bool) (sqlref.RefReq, bool)) (evaluated int) {
	t, err := openTwin()
	if err != nil {
		c.Inconclusive("open twin: " + err.Error())
		return 0
	}
	defer t.close()
	history := []sqlref.RefReq{}
	for i := base - 1; i < n; i++ {
		var req sqlref.RefReq
		if i < base {
			req = seedReq
		} else {
			var ok bool
			if req, ok = next(i, t.ref.InTx()); !ok {
				return 0
			}
		}
		var po partialObs
		want, refRes, err := runRef(t.ref, t.refReader, &req, sqlref.RefVariant{}, po.hooks(t.ref, &req))
		if err == nil && po.err != nil {
			err = fmt.Errorf("reference digest: %w", po.err)
		}
		if err != nil {
			c.Inconclusive(err.Error())
			return 0
		}
		got, err := runRq(t, &req)
		if err != nil {
			c.Inconclusive(err.Error())
			return 0
		}
		if i < base {
			if !sameOutcome(want, got) || len(want.ErrText) > 0 {
				_, d := describe(want, got)
				c.Violation("setup:seed-mismatch", "seeding the twin already differs: "+d, caseRec{Episode: ep, Request: req, Rqlite: got, Ref: want})
				return 0
			}
			history = append(history, req)
			continue
		}
		c.Eval(1)
		evaluated++
		c.Count("requests:"+pathName(&req), 1)
		nonEmpty, failed, wrote := 0, false, false
		multiEntries := 0
		for _, s := range req.Stmts {
			if s.SQL != "" {
				nonEmpty++
			}
			if sqlParts(s.SQL) >= 2 {
				multiEntries++
			}
		}
		if multiEntries > 0 {
			c.Count("multisql_entries", int64(multiEntries))
			c.Count("multisql_requests:"+pathName(&req), 1)
			c.Count("multisql_entries_failed_ref", int64(po.failed))
			c.Count("multisql_entries_failed_after_partial_write_ref", int64(po.partial))
			if req.Tx && po.partial > 0 {
				c.Count("tx_multisql_failed_after_partial_write_ref", 1)
				if nonEmpty == 1 {
					c.Count("tx_single_entry_multisql_failed_after_partial_write_ref", 1)
				}
			}
		}
		for _, r := range refRes {
			if r.Err != "" {
				failed = true
				c.Count("ref_error:"+errClass(r.Err), 1)
				if r.PrepareErr {
					c.Count("ref_failures:prepare", 1)
				} else {
					c.Count("ref_failures:runtime", 1)
				}
			} else if r.Kind == "Q" {
				c.Count("ref_query_results", 1)
				if !r.ReadOnly && len(r.Rows) > 0 {
					wrote = true
				}
			} else if r.RowsAffected > 0 && !r.ReadOnly {
				wrote = true
			}
		}
		c.Count("statements_executed_ref", int64(len(refRes)))
		c.Count("results_compared", int64(len(got.Results)))
		if failed && req.Tx {
			c.Count("tx_requests_rolled_back_ref", 1)
		}
		if !failed && req.Tx && wrote && nonEmpty >= 2 {
			c.Count("tx_requests_committed_ref", 1)
		}
		if want.InTx {
			c.Count("explicit_tx_left_open_ref", 1)
		}
		if (nonEmpty >= 2 && failed && wrote) || po.partial > 0 {
			b, _ := json.Marshal(req)
			c.Nontrivial(string(b))
		}
		if sameOutcome(want, got) {
			c.Held(1)
			newClass := req.Tx && po.partial > 0 && c.Counter("samples_multisql") < 2
			if newClass {
				c.Count("samples_multisql", 1)
			}
			if (failed && wrote && nonEmpty >= 3) || newClass {
				c.Sample(map[string]any{"request": req, "results": got.Results, "dump_hash": got.DumpH})
			}
			history = append(history, req)
			continue
		}
		aspect, d := describe(want, got)
		key := classify(history, &req, got, aspect)
		c.Count("mismatch:"+key, 1)
		c.Violation(key, fmt.Sprintf("%s request %s: %s", pathName(&req), stmtList(&req), d),
			caseRec{Episode: ep, History: history, Request: req, Rqlite: got, Ref: want, RefStmts: refRes})
		c.Count("twin_restarts_after_mismatch", 1)
		return evaluated // the twins have diverged
	}
	return evaluated
}

func errClass(e string) string {
	for _, k := range []string{"UNIQUE", "NOT NULL", "CHECK", "FOREIGN KEY", "syntax error", "incomplete input", "no such table", "no such column", "has no column", "integer overflow", "within a transaction", "no transaction is active", "no such savepoint", "already exists"} {
		if strings.Contains(e, k) {
			return k
		}
	}
	if len(e) > 24 {
		e = e[:24]
	}
	return e
}

func stmtList(r *sqlref.RefReq) string {
	var s []string
	for _, st := range r.Stmts {
		s = append(s, fmt.Sprintf("%q", st.SQL))
	}
	x := "[" + strings.Join(s, ", ") + "]"
	if len(x) > 700 {
		x = x[:700] + "…"
	}
	return x
}

func replay(c *vf.Ctx) {
	b, err := os.ReadFile(c.ReplayFile)
	if err != nil {
		c.Inconclusive("replay file: " + err.Error())
		return
	}
	var f struct {
		Case caseRec `json:"case"`
	}
	if err := json.Unmarshal(b, &f); err != nil {
		c.Inconclusive("replay file: " + err.Error())
		return
	}
	reqs := append([]sqlref.RefReq{}, f.Case.History...)
	if len(reqs) > 0 {
		reqs = reqs[1:] // history[0] is the seed, which runEpisode applies itself
	}
	reqs = append(reqs, f.Case.Request)
	for i := range reqs { // JSON turned integer parameters into float64
		for j := range reqs[i].Stmts {
			for k, a := range reqs[i].Stmts[j].Args {
				if x, ok := a.(float64); ok && x == float64(int64(x)) {
					reqs[i].Stmts[j].Args[k] = int64(x)
				}
			}
		}
	}
	runEpisode(c, f.Case.Episode, len(reqs), func(i int, _ bool) (sqlref.RefReq, bool) { return reqs[i], true })
	c.Require(1, 0)
}

func run(c *vf.Ctx) {
	c.Rule("episodes on a fresh twin (rqlite db.DB on a scratch WAL file, fk on | plain SQLite reference executor), each a seeded sequence of requests of 1-8 statements drawn from: valid INSERT/UPDATE/DELETE, multi-row statements failing on row k (UNIQUE, NOT NULL, CHECK), FK violations, OR REPLACE/IGNORE, syntax errors, unknown tables/columns, runtime errors, RETURNING (with and without force-query), parameterised inserts, SELECTs, DDL, empty strings, explicit BEGIN/COMMIT/ROLLBACK/SAVEPOINT texts and SQL-dump style one-statement texts; about one request in six carries multi-statement entries (ONE entry whose text holds 2-4 semicolon-separated writes, half of them with a part at position >=1 that fails: UNIQUE/NOT NULL/CHECK/FK/PK, unknown table, runtime error), as the only entry of the request (half), padded with empty entries, or mixed with ordinary entries; flags Transaction x RollbackOnError x {Execute, Request} for every shape. After every request: result list, logical dump and open-transaction state compared. non-trivial = request with >=2 non-empty entries where (per the reference) at least one fails and at least one changes rows, or a request with a multi-statement entry that fails after earlier statements of that same entry changed the database (measured on the reference connection: state right after the failure != state before the entry); distinct by request JSON")
	c.Assume("the reference executor (internal/sqlref/refexec.go: Tx = BEGIN, stop at first failure and ROLLBACK, else COMMIT; no Tx = statement by statement, RollbackOnError issues ROLLBACK and stops) is what the property means")
	c.Assume("SQLite and the go-sqlite3 driver are trusted on both sides (statement atomicity, last_insert_rowid, changes); error texts are not compared, only error presence; text/blob typing of returned values is not compared (C30)")
	c.Assume("db.DB level only: no Store/HTTP sample; no timeouts / context cancellation")
	if c.ReplayFile != "" {
		replay(c)
		return
	}
	perEp := 40
	total := c.N(4000, 200000)
	eps := total / perEp
	var wg sync.WaitGroup
	work := make(chan int, 64)
	nw := runtime.NumCPU()
	if nw > 8 {
		nw = 8
	}
	for w := 0; w < nw; w++ {
		wg.Add(1)
		go func() {
			defer wg.Done()
			for ep := range work {
				g := &gen{r: c.Rand(uint64(ep))}
				runEpisode(c, ep, perEp, func(_ int, inTx bool) (sqlref.RefReq, bool) { return g.request(inTx), true })
			}
		}()
	}
	for ep := 0; ep < eps; ep++ {
		work <- ep
		if ep > 0 && ep%500 == 0 {
			c.Logf("episodes dispatched: %d/%d", ep, eps)
		}
	}
	close(work)
	wg.Wait()
	c.Extra("episodes", eps)
	c.Require(int64(total/2), total/40)
	// The multi-statement-entry class must really have been exercised where it
	// matters: transactional requests whose only non-empty entry failed after
	// part of it had run (a normal quick run sees several dozen).
	if k := c.Counter("tx_single_entry_multisql_failed_after_partial_write_ref"); k < int64(total/800) {
		c.Inconclusive(fmt.Sprintf("only %d transactional single-entry multi-statement requests failed after a partial write (want >= %d)", k, total/800))
		c.Require(int64(total)*2, 0) // observed too little: exit 3 instead of passing
	}
}
