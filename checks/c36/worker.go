package c36

import (
	"bufio"
	"context"
	"encoding/json"
	"fmt"
	"math/rand/v2"
	"os"
	"runtime"
	"sync"
	"sync/atomic"
	"time"

	"github.com/rqlite/rqlite/v10/store/throttler"
	"verif/internal/vf"
)

// caseSpec is one generated case.
type caseSpec struct {
	No       int     `json:"no"`
	Mode     string  `json:"mode"` // seq | lin | idle | cancel | stale | hold
	Seed     uint64  `json:"seed"`
	DelaysUS []int64 `json:"delays_us"`
	Rate     int     `json:"rate"`
	IdleMS   int     `json:"idle_ms"` // 0 = no idle timeout
	G        int     `json:"g"`
	Ops      int     `json:"ops"` // per goroutine
	// seq with idle timeout: 1 = climb to the top, then pause/Release down again; 2 = Signal, then pause/Signal
	// (a timer that is not re-armed by every Release resp. Signal fires in the middle of the chain)
	Chain int `json:"chain,omitempty"`
}

// op kinds
const (
	kSignal = 1 + iota
	kRelease
	kReset
	kLevel
	kGetDelay
	kDelay
	kDelayCancel
	kIdleWait
	kPace
)

// ev is one recorded step. Pre/Post are logical stamps (lin mode).
type ev struct {
	K     int   `json:"k"`
	G     int   `json:"g,omitempty"`
	Pre   int64 `json:"pre,omitempty"`
	Post  int64 `json:"post,omitempty"`
	Lvl   int64 `json:"lvl"`              // Level() observed right after the step (seq) / returned value (kLevel)
	ValNS int64 `json:"val_ns,omitempty"` // GetDelay result
	DurUS int64 `json:"dur_us,omitempty"` // Delay duration
	Err   int   `json:"err,omitempty"`    // Delay returned a non-nil error
	CanUS int64 `json:"can_us,omitempty"` // context cancelled after this long (-1: cancelled before the call)
	Amb   int   `json:"amb,omitempty"`    // the idle timer may have fired around this step: no verdict on it
	Armed int   `json:"armed,omitempty"`  // kIdleWait: a timer was armed when the wait began
	GapUS int64 `json:"gap_us,omitempty"` // heartbeat max gap over the timed window
	Tries int   `json:"tries,omitempty"`  // timed calls are repeated (up to 3x) when slow; DurUS is the fastest attempt
	CtlUS int64 `json:"ctl_us,omitempty"` // after every slow attempt a plain time.Sleep of comparable length is measured on the same goroutine: largest overshoot
	Late  int   `json:"late,omitempty"`   // kIdleWait: level was not yet 0 after 3x timeout + 200 ms (polled on, up to 10 s)
}

type caseLog struct {
	No    int    `json:"no"`
	Evs   []ev   `json:"evs"`
	Panic string `json:"panic,omitempty"`
	// seq: an idle wait never saw level 0 within 10 s; the rest of the sequence was not run
	Aborted bool `json:"aborted,omitempty"`
	// the case did not finish within 30 s (e.g. a lock left held by a panicking call); Evs is then empty
	// stale mode: attempts / outcomes, and the first attempts in which a Signal was wiped
	Stale   map[string]int64 `json:"stale,omitempty"`
	StaleEx []map[string]any `json:"stale_examples,omitempty"`
	Hung    bool             `json:"hung,omitempty"`
	// hold mode: one record per round
	Hold []holdRound `json:"hold,omitempty"`
	Skip string      `json:"skip,omitempty"`
	// idle mode: quiescent observation
	Touched  bool  `json:"touched,omitempty"`
	FinalLvl int64 `json:"final_lvl,omitempty"`
	FinalGap int64 `json:"final_gap_us,omitempty"`
	WallUS   int64 `json:"wall_us"`
}

var hb *vf.Heartbeat

// panics seen by case number, readable even when the case never finishes
var panicNotes sync.Map

func notePanic(no int, p any) string {
	msg := fmt.Sprint(p)
	panicNotes.LoadOrStore(no, msg)
	return msg
}

func worker(args []string) {
	b, err := os.ReadFile(args[0])
	if err != nil {
		fmt.Fprintln(os.Stderr, err)
		os.Exit(2)
	}
	var specs []caseSpec
	if err := json.Unmarshal(b, &specs); err != nil {
		fmt.Fprintln(os.Stderr, err)
		os.Exit(2)
	}
	hb = vf.StartHeartbeat(2 * time.Millisecond)
	out := bufio.NewWriterSize(os.Stdout, 1<<20)
	enc := json.NewEncoder(out)
	var mu sync.Mutex
	var hangs atomic.Int32
	// Cases mostly sleep; a few run side by side.
	sem := make(chan struct{}, 6)
	var wg sync.WaitGroup
	for _, s := range specs {
		wg.Add(1)
		sem <- struct{}{}
		go func(s caseSpec) {
			defer wg.Done()
			defer func() { <-sem }()
			st := time.Now()
			var lg caseLog
			if hangs.Load() >= 3 {
				lg = caseLog{Skip: "skipped: three earlier cases of this worker already hung"}
			} else {
				done := make(chan caseLog, 1)
				go func() {
					switch s.Mode {
					case "seq", "cancel":
						done <- runSeq(s)
					case "lin":
						done <- runLin(s)
					case "stale":
						done <- runStale(s)
					case "hold":
						done <- runHold(s)
					default:
						done <- runIdle(s)
					}
				}()
				select {
				case lg = <-done:
				case <-time.After(30 * time.Second):
					hangs.Add(1)
					lg = caseLog{Hung: true}
					if m, ok := panicNotes.Load(s.No); ok {
						lg.Panic = m.(string)
					}
				}
			}
			lg.No = s.No
			lg.WallUS = time.Since(st).Microseconds()
			mu.Lock()
			enc.Encode(lg)
			out.Flush()
			mu.Unlock()
		}(s)
	}
	wg.Wait()
	enc.Encode(map[string]any{"summary": true, "cases": len(specs)})
	out.Flush()
	os.Exit(0)
}

func mkThrottler(s caseSpec) *throttler.Throttler {
	ds := make([]time.Duration, len(s.DelaysUS))
	for i, d := range s.DelaysUS {
		ds[i] = time.Duration(d) * time.Microsecond
	}
	return throttler.New(ds, s.Rate, time.Duration(s.IdleMS)*time.Millisecond)
}

// runSeq: one goroutine; the level is observed after every step. With an idle
// timeout the harness never lets the time since the last Signal/Release get near
// the timeout unobserved: past half of it, it waits the timeout out (3x + 200 ms)
// and the level must then be 0.
func runSeq(s caseSpec) (lg caseLog) {
	defer func() {
		if p := recover(); p != nil {
			lg.Panic = notePanic(s.No, p)
		}
	}()
	th := mkThrottler(s)
	r := rand.New(rand.NewPCG(s.Seed, 1))
	idle := time.Duration(s.IdleMS) * time.Millisecond
	armed, needIdle := false, false
	var touchB, touchA time.Time
	aborted := false
	var idleWait func()
	signalStep := func() { // recorded Signal (also used to make sure an idle wait starts from a positive level)
		e := ev{K: kSignal}
		prevArmed, prevB := armed, touchB
		tb := time.Now()
		th.Signal()
		ta := time.Now()
		e.Lvl = int64(th.Level())
		tl := time.Now()
		if idle > 0 {
			if (prevArmed && ta.Sub(prevB) >= idle/2) || tl.Sub(tb) >= idle/2 {
				e.Amb, needIdle = 1, true
			}
			armed, touchB, touchA = true, tb, ta
		}
		lg.Evs = append(lg.Evs, e)
	}
	idleWait = func() {
		if !armed {
			return
		}
		// Only a drop from a positive level to 0 proves that the timer callback has
		// run to completion; from level 0 nothing could be concluded.
		if th.Level() == 0 {
			signalStep()
		}
		e := ev{K: kIdleWait, Armed: 1}
		from := touchB
		if d := time.Until(touchA.Add(3*idle + 200*time.Millisecond)); d > 0 {
			time.Sleep(d)
		}
		if th.Level() != 0 {
			e.Late = 1
			for lim := time.Now().Add(10 * time.Second); th.Level() != 0 && time.Now().Before(lim); {
				time.Sleep(5 * time.Millisecond)
			}
		}
		e.Lvl = int64(th.Level())
		e.DurUS = time.Since(touchA).Microseconds()
		e.GapUS = hb.MaxGap(from, time.Now()).Microseconds()
		lg.Evs = append(lg.Evs, e)
		armed, needIdle = false, false
		if e.Lvl != 0 {
			aborted = true
			lg.Aborted = true
		}
	}
	// timed runs a timed call up to 3 times while it is slower than ok; returns the fastest attempt
	timed := func(ctl time.Duration, ok func(d time.Duration) bool, f func() error) (best time.Duration, gap time.Duration, err error, tries int, ctlOver time.Duration) {
		for tries = 1; ; tries++ {
			t0 := time.Now()
			e := f()
			d := time.Since(t0)
			g := hb.MaxGap(t0, time.Now())
			if tries == 1 || d < best {
				best, err = d, e
			}
			gap = max(gap, g)
			if ok(d) {
				return
			}
			// control: how late is an ordinary timer of this goroutine right now?
			c0 := time.Now()
			time.Sleep(ctl)
			ctlOver = max(ctlOver, time.Since(c0)-ctl)
			if tries == 3 {
				return
			}
		}
	}
	ambNow := func() bool { // may the timer armed by the last touch have fired by now?
		return idle > 0 && armed && time.Since(touchB) >= idle/2
	}
	maxD := int64(0)
	for _, d := range s.DelaysUS {
		maxD = max(maxD, d)
	}
	var forced []int // op selectors consumed before the random steps
	n := len(s.DelaysUS)
	switch {
	case s.Chain == 1 && idle > 0:
		for i := 0; i < n-1; i++ {
			forced = append(forced, 0)
		}
		for i := 0; i < (n-2+s.Rate-1)/s.Rate; i++ {
			forced = append(forced, 99, 99, 30)
		}
	case s.Chain == 2 && idle > 0:
		forced = append(forced, 0)
		for i := 0; i < 7; i++ {
			forced = append(forced, 99, 99, 0)
		}
	}
	for i := 0; i < s.Ops+len(forced); i++ {
		if idle > 0 && (needIdle || ambNow()) {
			idleWait()
		}
		if aborted {
			break
		}
		k := r.IntN(100)
		if idle > 0 && s.Mode == "seq" && r.IntN(100) < 30 {
			k = 99 // under an idle timeout, many short pauses: the timer must be re-armed by every Signal/Release
		}
		if i < len(forced) {
			k = forced[i]
		}
		if s.Mode == "cancel" && i == 1 {
			// level 1 has a short delay while the rest of the table is 1-4 s: a plain
			// Delay that waits for anything but the current level's entry stands out
			k = 80
		}
		var e ev
		touch := func(f func()) {
			prevArmed, prevB := armed, touchB
			tb := time.Now()
			f()
			ta := time.Now()
			e.Lvl = int64(th.Level())
			tl := time.Now()
			if idle > 0 {
				if (prevArmed && ta.Sub(prevB) >= idle/2) || tl.Sub(tb) >= idle/2 {
					e.Amb, needIdle = 1, true
				}
				armed, touchB, touchA = true, tb, ta
			}
		}
		switch {
		case s.Mode == "cancel" && i != 1:
			// climb to a level with a long delay, then Delay under a context that ends early
			if i%3 != 2 {
				e.K = kSignal
				touch(th.Signal)
				break
			}
			e.K = kDelayCancel
			how := r.IntN(4)
			switch how {
			case 0:
				e.CanUS = -1
			case 1:
				e.CanUS = int64(1000 + r.IntN(20000))
			default:
				e.CanUS = int64(500 + r.IntN(30000))
			}
			d0 := th.GetDelay()
			e.ValNS = int64(d0)
			ctl := time.Duration(max(e.CanUS, 1000)) * time.Microsecond
			best, gap, err, tries, over := timed(ctl, func(d time.Duration) bool { return d <= d0/2+100*time.Millisecond }, func() error {
				var ctx context.Context
				var cancel context.CancelFunc
				switch how {
				case 0:
					ctx, cancel = context.WithCancel(context.Background())
					cancel()
				case 1:
					ctx, cancel = context.WithTimeout(context.Background(), time.Duration(e.CanUS)*time.Microsecond)
				default:
					ctx, cancel = context.WithCancel(context.Background())
					time.AfterFunc(time.Duration(e.CanUS)*time.Microsecond, cancel)
				}
				defer cancel()
				return th.Delay(ctx)
			})
			e.DurUS, e.GapUS, e.Tries, e.CtlUS = best.Microseconds(), gap.Microseconds(), tries, over.Microseconds()
			if err != nil {
				e.Err = 1
			}
			e.Lvl = int64(th.Level())
		case k < 30:
			e.K = kSignal
			touch(th.Signal)
		case k < 50:
			e.K = kRelease
			touch(th.Release)
		case k < 55:
			e.K = kReset
			wasArmed, prevB := armed, touchB
			th.Reset()
			e.Lvl = int64(th.Level())
			armed, needIdle = false, false // Reset stops the timer
			if idle > 0 && wasArmed && time.Since(prevB) >= idle/2 {
				// the harness was held up: the timer may have fired before this Reset and
				// its callback may still be pending - nothing after this can be judged
				e.Amb = 1
				lg.Evs = append(lg.Evs, e)
				aborted = true
				continue
			}
		case k < 67:
			e.K = kLevel
			e.Lvl = int64(th.Level())
			if ambNow() {
				e.Amb = 1
			}
		case k < 77:
			e.K = kGetDelay
			e.ValNS = int64(th.GetDelay())
			e.Lvl = int64(th.Level())
			if ambNow() {
				e.Amb = 1
			}
		case k < 87:
			e.K = kDelay
			d0 := th.GetDelay()
			best, gap, err, tries, over := timed(max(d0, time.Millisecond), func(d time.Duration) bool { return d <= 3*d0+100*time.Millisecond }, func() error { return th.Delay(context.Background()) })
			e.DurUS, e.GapUS, e.Tries, e.CtlUS = best.Microseconds(), gap.Microseconds(), tries, over.Microseconds()
			if err != nil {
				e.Err = 1
			}
			e.Lvl = int64(th.Level())
			if ambNow() {
				e.Amb = 1
			}
		case k < 91 && idle > 0 && armed:
			idleWait()
			continue
		default:
			e.K = kPace
			if idle > 0 {
				time.Sleep(idle / 8)
			} else {
				runtime.Gosched()
			}
			e.Lvl = int64(th.Level())
			if ambNow() {
				e.Amb = 1
			}
		}
		lg.Evs = append(lg.Evs, e)
	}
	if idle > 0 && armed && !aborted {
		idleWait()
	}
	th.Reset() // stop the timer
	return lg
}

// runLin: several goroutines, no idle reset possible (timeout 0 or one hour);
// every call is stamped before and after with one logical clock and the history
// is checked for linearizability against the level model.
func runLin(s caseSpec) (lg caseLog) {
	th := mkThrottler(s)
	var clk atomic.Int64
	per := make([][]ev, s.G)
	panics := make([]string, s.G)
	var wg sync.WaitGroup
	for g := 0; g < s.G; g++ {
		wg.Add(1)
		go func(g int) {
			defer wg.Done()
			var evs []ev
			defer func() {
				if p := recover(); p != nil {
					panics[g] = notePanic(s.No, p)
				}
				per[g] = evs
			}()
			r := rand.New(rand.NewPCG(s.Seed, uint64(g)+1))
			for i := 0; i < s.Ops; i++ {
				switch r.IntN(4) {
				case 0:
					runtime.Gosched()
				case 1:
					time.Sleep(time.Duration(r.IntN(50)) * time.Microsecond)
				}
				e := ev{G: g}
				k := r.IntN(100)
				e.Pre = clk.Add(1)
				switch {
				case k < 30:
					e.K = kSignal
					th.Signal()
				case k < 50:
					e.K = kRelease
					th.Release()
				case k < 55:
					e.K = kReset
					th.Reset()
				case k < 78:
					e.K = kLevel
					e.Lvl = int64(th.Level())
				case k < 93:
					e.K = kGetDelay
					e.ValNS = int64(th.GetDelay())
				default:
					e.K = kDelay
					t0 := time.Now()
					if err := th.Delay(context.Background()); err != nil {
						e.Err = 1
					}
					e.DurUS = time.Since(t0).Microseconds()
					e.GapUS = hb.MaxGap(t0, time.Now()).Microseconds()
				}
				e.Post = clk.Add(1)
				evs = append(evs, e)
			}
		}(g)
	}
	wg.Wait()
	for g := range per {
		lg.Evs = append(lg.Evs, per[g]...)
		if panics[g] != "" {
			lg.Panic = panics[g]
		}
	}
	// quiescent read, stamped after everything
	e := ev{G: s.G, K: kLevel, Pre: clk.Add(1)}
	e.Lvl = int64(th.Level())
	e.Post = clk.Add(1)
	lg.Evs = append(lg.Evs, e)
	th.Reset() // stop the (one hour) timer
	return lg
}

// runIdle: several goroutines with a short idle timeout: only range
// observations while running; after quiescence and the idle timeout (x3 + 200 ms)
// the level must be 0.
func runIdle(s caseSpec) (lg caseLog) {
	th := mkThrottler(s)
	idle := time.Duration(s.IdleMS) * time.Millisecond
	per := make([][]ev, s.G)
	panics := make([]string, s.G)
	var touched atomic.Bool
	var wg sync.WaitGroup
	for g := 0; g < s.G; g++ {
		wg.Add(1)
		go func(g int) {
			defer wg.Done()
			var evs []ev
			defer func() {
				if p := recover(); p != nil {
					panics[g] = notePanic(s.No, p)
				}
				per[g] = evs
			}()
			r := rand.New(rand.NewPCG(s.Seed, uint64(g)+1))
			for i := 0; i < s.Ops; i++ {
				switch r.IntN(5) {
				case 0:
					runtime.Gosched()
				case 1:
					time.Sleep(time.Duration(r.IntN(int(idle/time.Microsecond)/4+1)) * time.Microsecond)
				}
				e := ev{G: g}
				switch k := r.IntN(100); {
				case k < 35:
					e.K = kSignal
					th.Signal()
					touched.Store(true)
					e.Lvl = int64(th.Level())
				case k < 50:
					e.K = kRelease
					th.Release()
					touched.Store(true)
					e.Lvl = int64(th.Level())
				case k < 53:
					e.K = kReset
					th.Reset()
					e.Lvl = int64(th.Level())
				case k < 75:
					e.K = kLevel
					e.Lvl = int64(th.Level())
				case k < 90:
					e.K = kGetDelay
					e.ValNS = int64(th.GetDelay())
					e.Lvl = int64(th.Level())
				default:
					e.K = kDelay
					t0 := time.Now()
					if err := th.Delay(context.Background()); err != nil {
						e.Err = 1
					}
					e.DurUS = time.Since(t0).Microseconds()
					e.GapUS = hb.MaxGap(t0, time.Now()).Microseconds()
					e.Lvl = int64(th.Level())
				}
				evs = append(evs, e)
			}
		}(g)
	}
	wg.Wait()
	t0 := time.Now()
	for g := range per {
		lg.Evs = append(lg.Evs, per[g]...)
		if panics[g] != "" {
			lg.Panic = panics[g]
		}
	}
	lg.Touched = touched.Load()
	time.Sleep(3*idle + 200*time.Millisecond)
	for lim := time.Now().Add(10 * time.Second); th.Level() != 0 && time.Now().Before(lim); {
		time.Sleep(5 * time.Millisecond)
	}
	lg.FinalLvl = int64(th.Level())
	lg.FinalGap = hb.MaxGap(t0, time.Now()).Microseconds()
	return lg
}

// runStale aims Signal calls at the moment the idle timer (armed by the previous
// Signal) is due: Signal, Signal, spin until timeout +/- 100 us, Signal, then
// read the level at once and again an eighth of the timeout later. What may
// happen by the property: the idle reset lands before the third Signal (level 1
// afterwards) or has not happened (level 3). After the third Signal has returned
// the level may not fall to 0 before a whole timeout has passed again; a reading
// of 0 taken (certainly) less than half a timeout after the third Signal was
// called means that Signal was wiped.
func runStale(s caseSpec) (lg caseLog) {
	defer func() {
		if p := recover(); p != nil {
			lg.Panic = notePanic(s.No, p)
		}
	}()
	idle := time.Duration(s.IdleMS) * time.Millisecond
	lg.Stale = map[string]int64{}
	for i := 0; i < s.Ops; i++ {
		th := mkThrottler(s)
		th.Signal()
		t0 := time.Now()
		th.Signal()
		off := time.Duration(i%200-100) * time.Microsecond
		for time.Since(t0) < idle+off {
		}
		t1 := time.Now()
		th.Signal()
		l0 := int64(th.Level())
		l0OK := time.Since(t1) < idle/2
		for time.Since(t1) < idle/8 {
		}
		l1 := int64(th.Level())
		l1OK := time.Since(t1) < idle/2
		th.Reset()
		lg.Stale["attempts"]++
		switch {
		case !l0OK:
			lg.Stale["too_slow_no_verdict"]++
		case l0 == 0 || (l1OK && l1 == 0):
			lg.Stale["signal_wiped"]++
			if len(lg.StaleEx) < 3 {
				lg.StaleEx = append(lg.StaleEx, map[string]any{"attempt": i, "third_signal_offset_from_timeout_us": off.Microseconds(), "level_right_after_signal": l0, "level_an_eighth_timeout_later": l1, "idle_ms": s.IdleMS})
			}
		case l0 == 1:
			lg.Stale["reset_before_third_signal"]++
		default:
			lg.Stale["no_reset_yet"]++
		}
	}
	return lg
}
