package main

import _ "verif/checks/c34"
