// Package c25: CDC delivers every committed row change at least once, labelled
// with the index of its log entry, across endpoint failures, leader changes,
// node restarts and snapshots; per leader tenure in non-decreasing index order
// (DESIGN §6 C25).
package c25

import (
	"encoding/json"
	"fmt"
	"os"
	"path/filepath"
	"sort"
	"strings"
	"sync"
	"time"

	"verif/internal/vf"
)

func init() {
	vf.Register("C25", "exploration", run)
	vf.RegisterWorker("c25", worker)
}

const (
	keyLabelled0 = "multi-commit-entry:later-commit-labelled-index-0"
	keyLaterLost = "multi-commit-entry:later-commit-never-delivered"
	keySkipped   = "leader-regained:unsent-batch-skipped"
	keyOverlap   = "order:replayed-batch-overlaps-persisted-batch-after-restart"
	keyFollower  = "missing:follower-snapshot-without-flush-then-restart"
	keyInstalled = "missing:entry-inside-snapshot-installed-on-later-leader"
)

func run(c *vf.Ctx) {
	c.Rule("history = one client posts a seeded script of /db/execute?raft_index requests (1-5 statements, 40% with ?transaction; single- and multi-row INSERT/UPDATE/DELETE on a rowid-alias table with UNIQUE and CHECK constraints, a plain rowid table, a table outside the configured filter, auxiliary tables created/dropped by DDL; statements that fail after touching rows (UNIQUE / CHECK midway) or at prepare) at about 30 requests/s to the leader (75%) or a random node of a live in-process 3-node cluster in which every node runs a real cdc.Service (batch size 1-5, batch delay 10-60 ms, HWM interval 100-600 ms, retry forever) posting to a recording endpoint that answers per a seeded plan (70% 200, 6% refused with a status that is neither success nor a server error: 429 with Retry-After / 404 / 408 / 401 / 403 / 413 / 400 / 409 / 300 / 304, 12% 500, 6% connection closed, 6% held beyond the transmit timeout; outages of 15-85 requests during which everything fails: 500, connection closed, or such a refusal), while a seeded schedule steps the leader down (also twice during an outage), restarts nodes (leader or follower; close without snapshot, new service instance on the same fifo.db), takes user snapshots with 0-10 trailing logs. Every applied request is replayed on a shadow SQLite (stock driver, raw preupdate/commit hooks) to obtain the row changes, and the commit groups, of its log entry; unknown outcomes are resolved by comparing the strong-read state with shadow states. In addition 1 (quick) / 4 (thorough) directed histories (batch size 100, batch delay 8 s, no automatic snapshots): endpoint down, a few seeded requests on the leader, a user snapshot on a follower that has applied them while they are still inside its batching window, immediate restart of that follower, leadership moved to it, endpoint back, more requests; and 2 (quick) / 6 (thorough) directed histories of a second motif (batch size 1-5, batch delay 10-60 ms, no automatic snapshots): a running follower (for a third of the histories a restarted process that has replayed its log) is cut off, 6-13 seeded requests are committed by the majority while its leader takes two user snapshots with 1-2 trailing logs (its log is trimmed), the requests are delivered (for a quarter of the histories the endpoint is down instead, from the cut-off until the follower leads), the follower is reconnected and is brought up to date by a snapshot sent by the leader (observed: its raft last_snapshot_index moves although it took no snapshot), 2-5 more requests are applied by it as follower (endpoint down for two thirds of the histories), leadership is moved to it, endpoint back, 3-6 requests under its leadership. non-trivial (random histories) = at least two leaders seen, at least one restart and one snapshot (user or automatic) executed, endpoint retries observed, and at least 5 multi-statement non-transaction entries with more than one non-empty commit; non-trivial (directed) = the scripted situation was reached (first motif: a non-leader took the snapshot and its restarted instance later delivered as leader; second motif: the snapshot install on the running follower was observed, entries were applied after it and the follower led the last request); distinct by case number")
	c.Assume("ground truth for the row changes of an entry are SQLite's own preupdate/commit hooks on a shadow database fed the same requests in log order; the shadow is validated per request (statement errors, rows affected) and at the end (schema and content equal to a strong read of the cluster), otherwise the history is inconclusive")
	c.Assume("delivered = payloads the endpoint answered with 200; bodies answered 5xx, refused with a 3xx/4xx status, dropped or held are not deliveries")
	c.Assume("never-delivered is decided after the endpoint has been healthy, the leader's FIFO has had nothing to send and no payload has arrived for 10 s (2.5 s when nothing required is missing); no quiet state within 150 s, or dropped_cdc_events > 0, is inconclusive")
	c.Assume("phantom events of failed statements (C27 phantom-events:failed-statement) are extra events, not missing ones; they are counted, attributed by exact content to the failed statement of the same entry, and not judged here")
	n := nRandom(c) + nDirected(c)
	tmp := vf.TempDir("c25")
	defer os.RemoveAll(tmp)
	outs := make([]histOut, n)
	sem := make(chan struct{}, 4)
	var wg sync.WaitGroup
	only := map[int]bool{} // development aid: C25_ONLY=3,7 runs just these cases
	for _, f := range strings.Split(os.Getenv("C25_ONLY"), ",") {
		var k int
		if _, err := fmt.Sscan(f, &k); err == nil {
			only[k] = true
		}
	}
	for i := 0; i < n; i++ {
		if len(only) > 0 && !only[i] {
			outs[i] = histOut{SetupErr: "skipped (C25_ONLY)"}
			continue
		}
		wg.Add(1)
		go func(i int) {
			defer wg.Done()
			sem <- struct{}{}
			defer func() { <-sem }()
			dir := filepath.Join(tmp, fmt.Sprintf("h%d", i))
			os.MkdirAll(dir, 0755)
			outF := filepath.Join(dir, "out.json")
			logP := filepath.Join(tmp, fmt.Sprintf("h%d.log", i))
			_, code, ok := vf.RunWorkerOnce(false, "c25", []string{fmt.Sprint(i), fmt.Sprint(c.Seed), c.Tier, dir, outF}, nil, logP, time.Duration(c.N(7, 16))*time.Minute)
			var h histOut
			b, err := os.ReadFile(outF)
			if err != nil || json.Unmarshal(b, &h) != nil {
				h = histOut{Spec: caseFor(c, i), SetupErr: fmt.Sprintf("worker exit=%d finished=%v err=%v", code, ok, err)}
				if lb, e := os.ReadFile(logP); e == nil {
					keep := filepath.Join(vf.Out, "replays", fmt.Sprintf("C25-%d-case%d-worker.log", c.Seed, i))
					os.MkdirAll(filepath.Dir(keep), 0755)
					os.WriteFile(keep, []byte(tailStr(string(lb), 2<<20)), 0644)
					c.Logf("case %d: worker did not deliver a history; log kept in %s", i, keep)
				}
			}
			outs[i] = h
			if h.Inconcl != "" {
				if lb, e := os.ReadFile(logP); e == nil {
					keep := filepath.Join(vf.Out, "replays", fmt.Sprintf("C25-%d-case%d-worker.log", c.Seed, i))
					os.MkdirAll(filepath.Dir(keep), 0755)
					os.WriteFile(keep, []byte(tailStr(string(lb), 2<<20)), 0644)
				}
			}
			if keep := os.Getenv("C25_KEEP"); keep != "" {
				os.MkdirAll(keep, 0755)
				os.WriteFile(filepath.Join(keep, fmt.Sprintf("h%d.json", i)), b, 0644)
				if lb, e := os.ReadFile(logP); e == nil {
					os.WriteFile(filepath.Join(keep, fmt.Sprintf("h%d.log", i)), lb, 0644)
				}
			}
			os.RemoveAll(dir)
			os.Remove(logP)
			c.Logf("case %d done: reqs=%d entries=%d receipts=%d faults=%d drain=%dms %s%s", i, len(h.Reqs), len(h.Expected), len(h.Receipts), len(h.Faults), h.DrainWaitMs, h.SetupErr, h.Inconcl)
		}(i)
	}
	wg.Wait()
	for i := range outs {
		c.Eval(1)
		judge(c, i, &outs[i])
	}
	c.Require(int64((n*3+3)/4), c.N(2, 16))

}

func tailStr(s string, n int) string {
	if len(s) > n {
		return s[len(s)-n:]
	}
	return s
}

// ---- oracle ----

type delivered struct {
	byIdx    map[uint64]map[string]int // index -> full key -> count (200-answered payloads only)
	errByIdx map[uint64]map[string]int // index -> identity key -> count, for events carrying an error instead of values
}

func collect(receipts []receipt) *delivered {
	d := &delivered{byIdx: map[uint64]map[string]int{}, errByIdx: map[uint64]map[string]int{}}
	for _, rc := range receipts {
		if rc.Mode != "ok" {
			continue
		}
		for _, m := range rc.Msgs {
			for _, ev := range m.Events {
				if ev.Err != "" {
					if d.errByIdx[m.Index] == nil {
						d.errByIdx[m.Index] = map[string]int{}
					}
					d.errByIdx[m.Index][ev.ID]++
					continue
				}
				if d.byIdx[m.Index] == nil {
					d.byIdx[m.Index] = map[string]int{}
				}
				d.byIdx[m.Index][ev.K]++
			}
		}
	}
	return d
}

func (d *delivered) has(idx uint64, e pev) bool {
	return d.byIdx[idx][e.K] > 0 || d.errByIdx[idx][e.ID] > 0
}

// anyRequiredMissing: is an event of the first commit of an entry with a known
// index still undelivered? (Used by the worker to decide how long to wait.)
func anyRequiredMissing(exp []expEntry, receipts []receipt) bool {
	d := collect(receipts)
	for _, e := range exp {
		if e.Index == 0 || len(e.Groups) == 0 {
			continue
		}
		for _, ev := range e.Groups[0] {
			if !ev.Phantom && !d.has(e.Index, ev) {
				return true
			}
		}
	}
	return false
}

// skippedAfterRegain recognises one precise way of losing a batch: a service
// instance posted the batch holding (idx, ev) without success, was then told it
// is no longer leader, and after that posted a batch of higher indices (it
// resumed behind the unsent batch). Returns a description, or "".
func skippedAfterRegain(h *histOut, idx uint64, ev pev) string {
	recs := append([]receipt(nil), h.Receipts...)
	sort.Slice(recs, func(a, b int) bool { return recs[a].Seq < recs[b].Seq })
	for _, r1 := range recs {
		if r1.Mode == "ok" {
			continue
		}
		holds := false
		for _, m := range r1.Msgs {
			if m.Index != idx {
				continue
			}
			for _, d := range m.Events {
				if d.K == ev.K || (d.Err != "" && d.ID == ev.ID) {
					holds = true
				}
			}
		}
		if !holds {
			continue
		}
		var lost int64
		for _, le := range h.LeaderEvs {
			if le.Node == r1.Node && le.Inst == r1.Inst && !le.IsLeader && le.Seq > r1.Seq && (lost == 0 || le.Seq < lost) {
				lost = le.Seq
			}
		}
		if lost == 0 {
			continue
		}
		for _, r2 := range recs {
			if r2.Seq < lost || r2.Node != r1.Node || r2.Inst != r1.Inst {
				continue
			}
			var mn uint64
			for _, m := range r2.Msgs {
				if m.Index != 0 && (mn == 0 || m.Index < mn) {
					mn = m.Index
				}
			}
			if mn > idx {
				return fmt.Sprintf("the service of %s (instance %d) posted the batch without success (payload #%d, answered %s), lost leadership (signal #%d) while retrying, and after regaining it resumed with index %d (payload #%d), behind the unsent batch; its later high-water mark made every node prune the batch", r1.Node, r1.Inst, r1.Seq, r1.Mode, lost, mn, r2.Seq)
			}
		}
	}
	return ""
}

// advancedInTenure recognises the most direct way of losing a batch: a service
// instance posted the batch holding (idx, ev), the endpoint did not take it
// (any answer other than 200), and the same instance, with no leader-change
// signal to it in between (so it was never told to stop retrying), went on to
// post a new batch of higher indices. Returns the class of the answer that
// preceded the advance ("4xx", "5xx", "close", "hang"...) and a description, or
// "", "". Only consulted for a change that was never delivered at all.
func advancedInTenure(h *histOut, idx uint64, ev pev) (string, string) {
	recs := append([]receipt(nil), h.Receipts...)
	sort.Slice(recs, func(a, b int) bool { return recs[a].Seq < recs[b].Seq })
	for i, r1 := range recs {
		if r1.Mode == "ok" || r1.Aborted || r1.Bad != "" {
			continue
		}
		holds := false
		for _, m := range r1.Msgs {
			if m.Index != idx {
				continue
			}
			for _, d := range m.Events {
				if d.K == ev.K || (d.Err != "" && d.ID == ev.ID) {
					holds = true
				}
			}
		}
		if !holds {
			continue
		}
		// the next payload of this instance that is not the same batch again
		for _, r2 := range recs[i+1:] {
			if r2.Node != r1.Node || r2.Inst != r1.Inst || r2.Aborted || r2.Bad != "" {
				continue
			}
			var mn uint64
			for _, m := range r2.Msgs {
				if m.Index != 0 && (mn == 0 || m.Index < mn) {
					mn = m.Index
				}
			}
			if mn == 0 {
				continue
			}
			if mn <= idx {
				break // still (or again) working on the batch: judged from that payload on
			}
			for _, le := range h.LeaderEvs {
				if le.Node == r1.Node && le.Inst == r1.Inst && le.Seq > r1.Seq && le.Seq < r2.Seq {
					mn = 0 // a leader change was signalled in between: other ways of losing it
				}
			}
			if mn != 0 {
				return answerClass(r1.Mode), fmt.Sprintf("the service of %s (instance %d) posted the batch and was answered %s (payload #%d), and with no leader change signalled to it went on to post index %d (payload #%d): it treated the batch as sent, its high-water mark made every node prune it", r1.Node, r1.Inst, r1.Mode, r1.Seq, mn, r2.Seq)
			}
			break
		}
	}
	return "", ""
}

// lostOnSnapshottedFollower recognises one precise way of losing a change: a
// node that was not leader took a snapshot covering the entry (so a restart
// does not apply it again), was restarted afterwards, never posted the entry's
// index, and later, as leader, posted higher indices - what it had captured
// for the entry was not in its FIFO when it went down.
func lostOnSnapshottedFollower(h *histOut, idx uint64) string {
	for _, sn := range h.Marks {
		if sn.Kind != "snapshot" || sn.IsLeader || sn.Status != 200 || sn.Applied < idx {
			continue
		}
		var rs *mark
		for k := range h.Marks {
			m := &h.Marks[k]
			if m.Kind == "restart" && m.Node == sn.Node && m.Seq > sn.Seq && (rs == nil || m.Seq < rs.Seq) {
				rs = m
			}
		}
		if rs == nil {
			continue
		}
		posted, later := false, int64(0)
		var laterIdx uint64
		for _, rc := range h.Receipts {
			if rc.Node != sn.Node || rc.Aborted {
				continue
			}
			for _, m := range rc.Msgs {
				if m.Index == idx {
					posted = true
				}
				if rc.Seq > rs.Seq && m.Index > idx && later == 0 {
					later, laterIdx = rc.Seq, m.Index
				}
			}
		}
		if !posted && later != 0 {
			return fmt.Sprintf("node %s, not leader, took a snapshot at applied index %d (action #%d), was restarted (action #%d), never posted index %d, and as leader went on with index %d (payload #%d): the changes it had captured for the entry were not in its FIFO when the snapshot allowed the log entry to be skipped at restart", sn.Node, sn.Applied, sn.Seq, rs.Seq, idx, laterIdx, later)
		}
	}
	return ""
}

func judge(c *vf.Ctx, i int, h *histOut) {
	if h.SetupErr != "" {
		c.Logf("case %d: setup: %s", i, h.SetupErr)
		c.Inconclusive("setup/worker")
		return
	}
	if h.Inconcl != "" {
		c.Logf("case %d: inconclusive: %s", i, h.Inconcl)
		c.Inconclusive(strings.SplitN(h.Inconcl, ":", 2)[0])
		return
	}
	if n := h.Expvar["db.dropped_cdc_events"]; n > 0 {
		c.Logf("case %d: dropped_cdc_events=%d (hand-off channel filled): excluded by the property", i, n)
		c.Inconclusive("dropped_cdc_events > 0")
		return
	}
	d := collect(h.Receipts)
	ctx := func(detail any) map[string]any {
		return map[string]any{"spec": h.Spec, "faults": h.Faults, "leaders": h.Leaders, "expvar": h.Expvar, "detail": detail}
	}
	bad := false
	viol := func(key, what string, detail any) {
		if c.Violation(key, fmt.Sprintf("history %d: %s", i, what), ctx(detail)) {
			bad = true
		}
	}

	// index -> entries; gaps that hold entries whose index the client never learnt
	byIdx := map[uint64][]*expEntry{}
	type gap struct {
		lo, hi  uint64
		entries []*expEntry
	}
	var gaps []*gap
	var prevKnown uint64
	var open *gap
	for k := range h.Expected {
		e := &h.Expected[k]
		if e.Index != 0 {
			byIdx[e.Index] = append(byIdx[e.Index], e)
			if open != nil {
				open.hi = e.Index
				open = nil
			}
			if e.Index <= prevKnown {
				viol("raft-index-not-increasing", fmt.Sprintf("request %d was answered with raft_index %d after an earlier request got %d", e.Req, e.Index, prevKnown), e)
			}
			prevKnown = e.Index
			continue
		}
		if open == nil {
			open = &gap{lo: prevKnown, hi: ^uint64(0)}
			gaps = append(gaps, open)
		}
		open.entries = append(open.entries, e)
	}
	inGap := func(idx uint64) *gap {
		for _, g := range gaps {
			if idx > g.lo && idx < g.hi {
				return g
			}
		}
		return nil
	}

	var nExp, nFound, nLater, nLaterFound, nLabelled0, nLaterLost, multiCommit int
	describe := func(e *expEntry, k int, ev pev) string {
		mode := "no transaction"
		if e.Tx {
			mode = "?transaction"
		}
		return fmt.Sprintf("request %d (raft index %d, %s, statements %v), commit %d of %d in the entry, event %s", e.Req, e.Index, mode, e.Kinds, k+1, len(e.Groups), trunc(ev.K, 160))
	}
	anywhere := func(ev pev) (uint64, bool) {
		for idx := range d.byIdx {
			if d.byIdx[idx][ev.K] > 0 {
				return idx, true
			}
		}
		return 0, false
	}
	for k := range h.Expected {
		e := &h.Expected[k]
		if len(e.Groups) > 1 {
			multiCommit++
		}
		if e.Index == 0 {
			// unknown index: the first commit's events must all appear under one index inside the gap
			if len(e.Groups) == 0 {
				continue
			}
			var need []pev
			for _, ev := range e.Groups[0] {
				if !ev.Phantom {
					need = append(need, ev)
				}
			}
			if len(need) == 0 {
				continue
			}
			var g *gap
			for _, gg := range gaps {
				for _, ge := range gg.entries {
					if ge == e {
						g = gg
					}
				}
			}
			if g == nil {
				continue
			}
			ok := false
			for idx := range d.byIdx {
				if idx <= g.lo || idx >= g.hi {
					continue
				}
				all := true
				for _, ev := range need {
					if !d.has(idx, ev) {
						all = false
						break
					}
				}
				if all {
					ok = true
					break
				}
			}
			nExp += len(need)
			c.Count("entries_with_index_resolved_by_state", 1)
			if ok {
				nFound += len(need)
			} else {
				viol("missing:first-commit-of-entry", fmt.Sprintf("request %d (outcome unknown to the client, applied according to the committed state) has %d row changes in its first commit that were not delivered together under any index between %d and %d", e.Req, len(need), g.lo, g.hi), e)
			}
			continue
		}
		for gi, grp := range e.Groups {
			for _, ev := range grp {
				if ev.Phantom {
					continue
				}
				nExp++
				if gi > 0 {
					nLater++
				}
				if d.has(e.Index, ev) {
					nFound++
					if gi > 0 {
						nLaterFound++
					}
					continue
				}
				at0 := d.byIdx[0][ev.K] > 0 || d.errByIdx[0][ev.ID] > 0
				other, elsewhere := anywhere(ev)
				switch {
				case gi > 0 && at0:
					nLabelled0++
					viol(keyLabelled0, "a row change committed by a later commit of a multi-commit log entry was delivered labelled index 0 instead of the entry's index: "+describe(e, gi, ev), e)
				case gi > 0 && !elsewhere:
					nLaterLost++
					viol(keyLaterLost, "a row change committed by a later commit of a multi-commit log entry was never delivered: "+describe(e, gi, ev), e)
				case gi > 0:
					viol("wrong-index:later-commit-of-entry", fmt.Sprintf("delivered only under index %d: %s", other, describe(e, gi, ev)), e)
				case at0:
					viol("wrong-index:first-commit-labelled-0", "delivered only with index 0: "+describe(e, gi, ev), e)
				case elsewhere:
					viol("wrong-index:first-commit-of-entry", fmt.Sprintf("delivered only under index %d: %s", other, describe(e, gi, ev)), e)
				default:
					if cls, why := advancedInTenure(h, e.Index, ev); why != "" {
						viol("missing:sender-advanced-past-batch-answered-"+cls, "committed row change never delivered: "+why+": "+describe(e, gi, ev), e)
					} else if why := skippedAfterRegain(h, e.Index, ev); why != "" {
						viol(keySkipped, "committed row change never delivered: "+why+": "+describe(e, gi, ev), e)
					} else if why := lostOnSnapshottedFollower(h, e.Index); why != "" {
						viol(keyFollower, "committed row change never delivered: "+why+": "+describe(e, gi, ev), map[string]any{"entry": e, "marks": h.Marks})
					} else if why := coveredByInstalledSnapshot(h, e.Index); why != "" {
						viol(keyInstalled, "committed row change never delivered: "+why+": "+describe(e, gi, ev), map[string]any{"entry": e, "marks": h.Marks})
					} else {
						viol("missing:first-commit-of-entry", "committed row change never delivered after the drain: "+describe(e, gi, ev)+afterInstall(h, e.Index), map[string]any{"entry": e, "marks": h.Marks})
					}
				}
			}
		}
	}

	// nothing delivered that its index does not imply
	var nDelivered, nPhantom, nDup, nIdx0 int
	for idx, evs := range d.byIdx {
		allowed := map[string]bool{}
		phantom := map[string]bool{}
		add := func(e *expEntry) {
			for _, grp := range e.Groups {
				for _, ev := range grp {
					if ev.Phantom {
						phantom[ev.K] = true
					} else {
						allowed[ev.K] = true
					}
				}
			}
		}
		switch {
		case idx == 0:
			// only later commits can be explained by the known defect
			for k := range h.Expected {
				for gi, grp := range h.Expected[k].Groups {
					for _, ev := range grp {
						if ev.Phantom {
							phantom[ev.K] = true
						} else if gi > 0 {
							allowed[ev.K] = true
						}
					}
				}
			}
		case len(byIdx[idx]) > 0:
			for _, e := range byIdx[idx] {
				add(e)
			}
		default:
			if g := inGap(idx); g != nil {
				for _, e := range g.entries {
					add(e)
				}
			}
		}
		for k, cnt := range evs {
			nDelivered += cnt
			if cnt > 1 {
				nDup += cnt - 1
			}
			if idx == 0 {
				nIdx0 += cnt
			}
			switch {
			case allowed[k]:
			case phantom[k]:
				nPhantom += cnt
			case idx == 0:
				viol("index-0:unattributed", fmt.Sprintf("an event was delivered with index 0 that is not a row change of a later commit of any entry: %s", trunc(k, 200)), k)
			default:
				viol("delivered-not-implied", fmt.Sprintf("an event was delivered under index %d, whose log entry does not imply it: %s", idx, trunc(k, 200)), map[string]any{"index": idx, "event": k, "entries": byIdx[idx]})
			}
		}
	}

	// order within a tenure: per service instance, between two leader-change
	// signals to that instance, the indices of successive *distinct* payloads
	// never go backwards. A body that the instance has posted before is a
	// re-send or the late arrival of an abandoned attempt (the sender gave up on
	// that connection and the request reached the handler afterwards): the first
	// arrival of a body always precedes the first arrival of the next one, so
	// only first arrivals are ordered.
	evsBy := map[string][]int64{}
	for _, le := range h.LeaderEvs {
		k := fmt.Sprintf("%s/%d", le.Node, le.Inst)
		evsBy[k] = append(evsBy[k], le.Seq)
	}
	type last struct {
		seq int64
		max uint64
	}
	lastBy := map[string]*last{}
	seenBody := map[string]bool{}           // instance + body hash
	seenMsg := map[string]map[string]bool{} // node -> index+events of every message it has posted
	msgKey := func(m rmsg) string {
		var sb strings.Builder
		fmt.Fprintf(&sb, "%d", m.Index)
		for _, e := range m.Events {
			sb.WriteString("\x00" + e.K)
		}
		return sb.String()
	}
	recs := append([]receipt(nil), h.Receipts...)
	sort.Slice(recs, func(a, b int) bool { return recs[a].Seq < recs[b].Seq })
	tenurePairs, staleBodies := 0, 0
	for _, rc := range recs {
		if rc.Aborted {
			continue
		}
		if rc.Bad != "" {
			viol("payload-unparsable", fmt.Sprintf("payload from %s: %s", rc.Node, rc.Bad), rc)
			continue
		}
		if rc.NodeID != rc.Node {
			viol("payload-node-id", fmt.Sprintf("payload posted by the service of %s carries node_id %q", rc.Node, rc.NodeID), rc)
		}
		k := fmt.Sprintf("%s/%d", rc.Node, rc.Inst)
		var mn, mx uint64
		var prev uint64
		for _, m := range rc.Msgs {
			if m.Index == 0 {
				continue
			}
			if mn == 0 || m.Index < mn {
				mn = m.Index
			}
			if m.Index > mx {
				mx = m.Index
			}
			if m.Index < prev {
				viol("order:index-decreased-within-payload", fmt.Sprintf("payload of %s lists index %d after %d", k, m.Index, prev), rc)
			}
			prev = m.Index
		}
		if seenMsg[rc.Node] == nil {
			seenMsg[rc.Node] = map[string]bool{}
		}
		if mx == 0 {
			continue
		}
		if seenBody[k+"/"+rc.Hash] {
			staleBodies++
			continue
		}
		if l := lastBy[k]; l != nil {
			sameTenure := true
			for _, s := range evsBy[k] {
				if s > l.seq && s < rc.Seq {
					sameTenure = false
				}
			}
			if sameTenure {
				tenurePairs++
				if mn < l.max {
					// One precise, known way: after a restart the replayed log entries are
					// batched with other boundaries than before, and a re-formed batch whose
					// highest index is new is stored although its lower part repeats groups
					// of a batch persisted before the restart.
					overlap := rc.Inst > 1
					for _, m := range rc.Msgs {
						if m.Index != 0 && m.Index <= l.max && !seenMsg[rc.Node][msgKey(m)] {
							overlap = false
						}
					}
					detail := map[string]any{"payload": rc, "previous_max": l.max}
					if overlap {
						viol(keyOverlap, fmt.Sprintf("service %s (restarted node) delivered a new batch with indices %d..%d right after a batch ending at index %d in the same tenure; the repeated groups are identical to ones it had already posted from a batch persisted before the restart", k, mn, mx, l.max), detail)
					} else {
						viol("order:index-decreased-within-tenure", fmt.Sprintf("service %s delivered a new payload whose lowest index %d is below the highest index %d of its previous payload, with no leader change signalled in between", k, mn, l.max), detail)
					}
				}
			}
		}
		seenBody[k+"/"+rc.Hash] = true
		for _, m := range rc.Msgs {
			seenMsg[rc.Node][msgKey(m)] = true
		}
		if l := lastBy[k]; l == nil || mx >= l.max {
			lastBy[k] = &last{seq: rc.Seq, max: mx}
		} else {
			lastBy[k] = &last{seq: rc.Seq, max: l.max}
		}
	}
	c.Count("payload_bodies_seen_again_resend_or_late_arrival", int64(staleBodies))

	// coverage
	modes := map[string]int{}
	for _, rc := range h.Receipts {
		modes[rc.Mode]++
	}
	for m, n := range modes {
		c.Count("payloads_answered_"+m, int64(n))
	}
	classes := map[string]int{}
	for _, r := range h.Reqs {
		classes[r.Class]++
	}
	for k, n := range classes {
		c.Count("requests_"+k, int64(n))
	}
	restarts, snaps, stepdowns, outages := 0, 0, 0, 0
	for _, f := range h.Faults {
		switch {
		case strings.Contains(f, " restart:"):
			restarts++
		case strings.Contains(f, " snapshot:") && strings.HasSuffix(f, "status=200"):
			snaps++
		case strings.Contains(f, " stepdown"):
			stepdowns++
		case strings.Contains(f, " outage:"):
			outages++
		}
	}
	c.Count("fault_restarts", int64(restarts))
	c.Count("fault_snapshots_ok", int64(snaps))
	c.Count("fault_stepdowns", int64(stepdowns))
	c.Count("fault_endpoint_outages", int64(outages))
	c.Count("log_entries_checked", int64(len(h.Expected)))
	c.Count("entries_with_more_than_one_commit", int64(multiCommit))
	c.Count("expected_row_changes", int64(nExp))
	c.Count("expected_row_changes_delivered_with_their_index", int64(nFound))
	c.Count("expected_in_later_commits", int64(nLater))
	c.Count("expected_in_later_commits_delivered_with_their_index", int64(nLaterFound))
	c.Count("later_commit_changes_labelled_0", int64(nLabelled0))
	c.Count("later_commit_changes_never_delivered", int64(nLaterLost))
	c.Count("delivered_events", int64(nDelivered))
	c.Count("delivered_events_index_0", int64(nIdx0))
	c.Count("delivered_duplicates", int64(nDup))
	c.Count("delivered_phantoms_of_failed_statements_C27", int64(nPhantom))
	c.Count("leader_change_signals", int64(len(h.LeaderEvs)))
	c.Count("same_tenure_payload_pairs_checked", int64(tenurePairs))
	for _, k := range []string{"cdc.service.retries", "cdc.service.fifo_enqueue_ignored", "cdc.service.batcher_write_ignored", "cdc.service.hwm_ignored", "cdc.service.snapshot_sync", "cdc.service.num_events_tx_ok"} {
		c.Count(strings.ReplaceAll(k, ".", "_"), h.Expvar[k])
	}
	if h.Spec.Directed == motifLagInstall {
		c.Count("directed_lag_histories", 1)
		// the scripted situation was reached: the running follower installed a
		// snapshot sent by the leader, entries were applied after that, and the
		// node was leader for the last requests
		var in *mark
		for k := range h.Marks {
			if h.Marks[k].Kind == "install" {
				in = &h.Marks[k]
			}
		}
		after := 0
		for _, e := range h.Expected {
			if in != nil && e.Index > in.Applied {
				after++
			}
		}
		ledLast := false
		if in != nil && len(h.Reqs) > 0 {
			last := h.Reqs[len(h.Reqs)-1]
			ledLast = last.Node == in.Node && last.Class == "applied"
		}
		if in != nil && after > 0 && ledLast && len(h.Leaders) >= 2 {
			c.Count("directed_lag_histories_situation_reached", 1)
			c.Count("entries_applied_after_snapshot_install_on_later_leader", int64(after))
			c.Nontrivial(fmt.Sprintf("directed-lag-case%d", i))
		}
	} else if h.Spec.Directed != "" {
		c.Count("directed_histories", 1)
		// the scripted situation was reached: a non-leader took the snapshot, and
		// the restarted instance of that node later delivered as leader
		reached := false
		for _, sn := range h.Marks {
			if sn.Kind != "snapshot" || sn.IsLeader || sn.Status != 200 {
				continue
			}
			for _, rc := range h.Receipts {
				if rc.Node == sn.Node && rc.Inst >= 2 && rc.Mode == "ok" && rc.Seq > sn.Seq {
					reached = true
				}
			}
		}
		if reached && len(h.Leaders) >= 2 {
			c.Count("directed_histories_situation_reached", 1)
			c.Nontrivial(fmt.Sprintf("directed-case%d", i))
		}
	} else if len(h.Leaders) >= 2 && restarts >= 1 && (snaps >= 1 || h.Expvar["store.num_snapshots"] > 0) && h.Expvar["cdc.service.retries"] > 0 && multiCommit >= 5 {
		c.Nontrivial(fmt.Sprintf("case%d", i))
	}
	if !bad {
		c.Held(1)
	} else {
		keep := filepath.Join(vf.Out, "replays", fmt.Sprintf("C25-%d-case%d-history.json", c.Seed, i))
		if b, err := json.Marshal(h); err == nil {
			os.MkdirAll(filepath.Dir(keep), 0755)
			os.WriteFile(keep, b, 0644)
			c.Logf("case %d: full history kept in %s", i, keep)
		}
	}
	var firstEntries []expEntry
	for _, e := range h.Expected {
		if len(e.Groups) > 1 && len(firstEntries) < 2 {
			firstEntries = append(firstEntries, e)
		}
	}
	c.Sample(map[string]any{"spec": h.Spec, "faults": h.Faults, "leaders": h.Leaders, "expvar": h.Expvar, "entries": len(h.Expected), "payloads": len(h.Receipts), "drain_wait_ms": h.DrainWaitMs, "example_multi_commit_entries": firstEntries})
}
