#!/bin/bash
# usage: confirm_seed.sh <seed-id> <worktree> <go pkg dir> <demo test regex>
# Confirms a seeded change in its scratch worktree: package tests pass with the
# change (demo skipped), demo fails with it and passes without it. Copies the
# artefacts to /verif/seeded/<seed-id>/ and prints a summary line.
set -u
ID=$1; WT=$2; PKG=$3; DEMO=$4
export GOFLAGS=-mod=mod GOPROXY=off
OUT=/verif/seeded/$ID; mkdir -p $OUT
cp $WT/SEED/patch.diff $OUT/patch.diff
cp $WT/SEED/README.md $OUT/README.md 2>/dev/null
for f in $WT/SEED/demo_test.go $WT/SEED/demo; do [ -e $f ] && cp -r $f $OUT/; done
cd $WT
git diff -- . ':!SEED' ':!SEED_TASK.md' > /tmp/hk/confirm-$ID.patch
if ! diff -q <(grep '^[+-]' /tmp/hk/confirm-$ID.patch | grep -v '^[+-][+-]') <(grep '^[+-]' $OUT/patch.diff | grep -v '^[+-][+-]') >/dev/null; then echo "NOTE: worktree diff differs from SEED/patch.diff"; fi
go build ./... > $OUT/build.log 2>&1; B=$?
go test -count=1 -skip "$DEMO" ./$PKG/ > $OUT/pkgtest_with_change.log 2>&1; T=$?
go test -count=1 -run "$DEMO" ./$PKG/ > $OUT/demo_with_change.log 2>&1; DW=$?
git apply -R /tmp/hk/confirm-$ID.patch
go test -count=1 -run "$DEMO" ./$PKG/ > $OUT/demo_without_change.log 2>&1; DO=$?
git apply /tmp/hk/confirm-$ID.patch
for f in $OUT/*.log; do tail -c 3000 $f > $f.t; mv $f.t $f; done
echo "$ID build=$B pkgtests_with_change=$T demo_with_change=$DW(expect!=0) demo_without_change=$DO(expect 0)"
