// Package c24: the batching queue is FIFO, lossless and batch-bounded
// (DESIGN §6 C24). A worker child (normal and -race build) drives the real
// queue.Queue[int64] with many writers / flushers / a stalling consumer and
// records an event log stamped with one logical clock; the parent decides
// offline over that log.
package c24

import (
	"bufio"
	"encoding/json"
	"expvar"
	"fmt"
	"math/rand/v2"
	"os"
	"path/filepath"
	"runtime"
	"sort"
	"strconv"
	"strings"
	"sync"
	"sync/atomic"
	"time"

	"github.com/rqlite/rqlite/v10/queue"
	"verif/internal/vf"
)

const anchoredPkg = "github.com/rqlite/rqlite/v10/queue."

func init() {
	vf.Register("C24", "exploration", run)
	vf.RegisterWorker("c24", worker)
}

// ---------------------------------------------------------------- case spec

type caseSpec struct {
	No         int    `json:"no"`
	Seed       uint64 `json:"seed"`
	Writers    int    `json:"writers"`
	WritesPer  int    `json:"writes_per"`
	MaxElems   int    `json:"max_elems"`
	Batch      int    `json:"batch"`
	MaxSize    int    `json:"max_size"`
	TimeoutUS  int    `json:"timeout_us"`
	Flushers   int    `json:"flushers"`
	FlushesPer int    `json:"flushes_per"`
	FCPct      int    `json:"fc_pct"`     // % of writes with a flush channel
	InlinePct  int    `json:"inline_pct"` // % of those where the writer itself blocks on it (only if timeout>0)
	YieldPct   int    `json:"yield_pct"`
	SleepMaxUS int    `json:"sleep_max_us"`
	StallPct   int    `json:"stall_pct"`
	StallMaxUS int    `json:"stall_max_us"`
	// Layout: where the slices handed to Write live. 0: every write is a freshly
	// allocated slice (len == cap). 1: every writer builds its whole payload once
	// and writes consecutive sub-slices of it in ascending address order (len < cap,
	// the spare capacity of a write is the writer's own not-yet-written data).
	// 2: odd writers as 1, even writers as 0. 3: as 1 but in descending address
	// order (the spare capacity is data that was written earlier and may still be
	// queued, merged or in the consumer's hands).
	Layout int `json:"layout"`
}

// caseLog is what the worker recorded for one case. Stamps are values of one
// atomic logical clock (unique, totally ordered).
type caseLog struct {
	No int `json:"no"`
	// Writes: [gid, nElems, seq, pre, post, hasFC, fcStamp, flags] flags: bit0 = Write returned an error, bit1 = the slice passed had len < cap
	Writes [][8]int64 `json:"writes"`
	// Batches: [seq, recv, preClose, postClose, mutated, fcClosedBeforeClose, fcOpenAfterClose, closePanicked]
	Batches     [][8]int64 `json:"batches"`
	Objs        [][]int64  `json:"objs"` // objects of batch i (as seen after the consumer's stall)
	Sentinel    bool       `json:"sentinel"`
	WritersDone bool       `json:"writers_done"` // false: the write list is incomplete (case aborted), unknown elements cannot be judged
	Watchdog    string     `json:"watchdog,omitempty"`
	Panic       string     `json:"panic,omitempty"`
	Depth       int        `json:"depth"`
	Stalls      int        `json:"stalls"`
	Flushes     int        `json:"flushes"`
	WallUS      int64      `json:"wall_us"`
	// Clobbered: words of the writers' pre-built payloads (Layout != 0) that no
	// longer hold what the writer put there (compared after the case has
	// drained; -1 = not compared). Diagnostic only, the verdict is taken from
	// the emitted stream.
	Clobbered int `json:"clobbered"`
}

type workerSummary struct {
	Summary     bool  `json:"summary"`
	NumTimeout  int64 `json:"num_timeout"`
	NumFlush    int64 `json:"num_flush"`
	NumObjRx    int64 `json:"num_obj_rx"`
	NumObjTx    int64 `json:"num_obj_tx"`
	Race        bool  `json:"race"`
	GoMaxProcs  int   `json:"gomaxprocs"`
	CasesServed int   `json:"cases"`
}

// The sentinel is one more write (gid = Writers*WritesPer, one element) made by
// the case's main goroutine after every writer and flusher has finished.

// ---------------------------------------------------------------- worker

func worker(args []string) {
	// args: <specfile> <race:0|1>
	b, err := os.ReadFile(args[0])
	if err != nil {
		fmt.Fprintln(os.Stderr, err)
		os.Exit(2)
	}
	var specs []caseSpec
	if err := json.Unmarshal(b, &specs); err != nil {
		fmt.Fprintln(os.Stderr, err)
		os.Exit(2)
	}
	out := bufio.NewWriterSize(os.Stdout, 1<<20)
	enc := json.NewEncoder(out)
	for _, s := range specs {
		lg := runCase(s)
		enc.Encode(lg)
		out.Flush()
	}
	sum := workerSummary{Summary: true, Race: len(args) > 1 && args[1] == "1", GoMaxProcs: runtime.GOMAXPROCS(0), CasesServed: len(specs)}
	if m, ok := expvar.Get("queue").(*expvar.Map); ok {
		get := func(k string) int64 {
			if v, ok := m.Get(k).(*expvar.Int); ok {
				return v.Value()
			}
			return -1
		}
		sum.NumTimeout, sum.NumFlush = get("num_timeout"), get("num_flush")
		sum.NumObjRx, sum.NumObjTx = get("objects_rx"), get("objects_tx")
	}
	enc.Encode(sum)
	out.Flush()
	os.Exit(0) // do not let the race runtime turn "races found" into a failure exit; the parent reads the logs
}

func yield(r *rand.Rand, pct, sleepMaxUS int) {
	if pct == 0 || r.IntN(100) >= pct {
		return
	}
	switch r.IntN(3) {
	case 0:
		runtime.Gosched()
	case 1:
		for i := r.IntN(4); i >= 0; i-- {
			runtime.Gosched()
		}
	default:
		if sleepMaxUS > 0 {
			time.Sleep(time.Duration(r.IntN(sleepMaxUS)+1) * time.Microsecond)
		} else {
			runtime.Gosched()
		}
	}
}

func isClosed(c queue.FlushChannel) bool {
	select {
	case <-c:
		return true
	default:
		return false
	}
}

func runCase(s caseSpec) (lg caseLog) {
	start := time.Now()
	lg.No = s.No
	var clk atomic.Int64
	q := queue.New[int64](s.MaxSize, s.Batch, time.Duration(s.TimeoutUS)*time.Microsecond)

	total := s.Writers * s.WritesPer
	fcs := make([]queue.FlushChannel, total+1) // index gid; last = sentinel
	perWriter := make([][][8]int64, s.Writers)
	payloads := make([][]int64, s.Writers) // Layout != 0: the writer's pre-built payload
	payWant := make([][]int64, s.Writers)  // and a private copy of what it must still hold at the end
	fcStamps := make([]atomic.Int64, total+1)

	var wWG, fcWG, flWG sync.WaitGroup
	var sentinelRec [8]int64
	sentinelWritten := false
	var flushes atomic.Int64
	// Watchdog: no stamped event for 10 s (the clock doubles as progress counter).
	// abort: the consumer saw a decided, blocking defect (a flush channel left
	// open by Request.Close) - waiting for its waiters would only time out.
	abort := make(chan struct{})
	var abortOnce sync.Once

	// consumer
	type consRes struct {
		batches  [][8]int64
		objs     [][]int64
		sentinel bool
		stalls   int
		panicS   string
	}
	consDone := make(chan consRes, 1)
	consFin := make(chan struct{})
	consStop := make(chan struct{})
	go func() {
		var res consRes
		defer func() {
			if p := recover(); p != nil {
				res.panicS = fmt.Sprint(p)
			}
			consDone <- res
			close(consFin)
		}()
		r := rand.New(rand.NewPCG(s.Seed, 0xC0))
		for {
			var req *queue.Request[int64]
			select {
			case req = <-q.C:
			case <-consStop:
				return
			}
			recv := clk.Add(1)
			snap := append([]int64(nil), req.Objects...)
			if r.IntN(100) < s.StallPct {
				res.stalls++
				if s.StallMaxUS > 0 && r.IntN(2) == 0 {
					time.Sleep(time.Duration(r.IntN(s.StallMaxUS)+1) * time.Microsecond)
				} else {
					for i := r.IntN(8); i >= 0; i-- {
						runtime.Gosched()
					}
				}
			}
			var mutated int64
			if len(snap) != len(req.Objects) {
				mutated = 1
			} else {
				for i := range snap {
					if snap[i] != req.Objects[i] {
						mutated = 1
					}
				}
			}
			// flush channels of the writes contained in this batch
			var chans []queue.FlushChannel
			sentinel := false
			for _, o := range req.Objects {
				if o >= 0 && o%8 == 0 && o/8 <= int64(total) {
					if o/8 == int64(total) {
						sentinel = true
					}
					if c := fcs[o/8]; c != nil {
						chans = append(chans, c)
					}
				}
			}
			var early, late, closePanic int64
			for _, c := range chans {
				if isClosed(c) {
					early++
				}
			}
			pre := clk.Add(1)
			func() {
				defer func() {
					if p := recover(); p != nil {
						closePanic = 1
					}
				}()
				req.Close()
			}()
			post := clk.Add(1)
			for _, c := range chans {
				if !isClosed(c) {
					late++
				}
			}
			if late > 0 {
				abortOnce.Do(func() { close(abort) })
			}
			res.batches = append(res.batches, [8]int64{req.SequenceNumber, recv, pre, post, mutated, early, late, closePanic})
			res.objs = append(res.objs, append([]int64(nil), req.Objects...))
			if sentinel {
				res.sentinel = true
				return
			}
		}
	}()

	// writers
	for w := 0; w < s.Writers; w++ {
		wWG.Add(1)
		go func(w int) {
			defer wWG.Done()
			r := rand.New(rand.NewPCG(s.Seed, uint64(w)+1))
			recs := make([][8]int64, 0, s.WritesPer)
			defer func() { perWriter[w] = recs }()
			// Pre-built payload: the writes of this writer are consecutive
			// sub-slices of one array (a producer chunking a larger buffer).
			var chunkOff, chunkLen []int
			var payload []int64
			if s.Layout == 1 || s.Layout == 3 || (s.Layout == 2 && w%2 == 1) {
				rs := rand.New(rand.NewPCG(s.Seed, uint64(w)+5000))
				chunkOff, chunkLen = make([]int, s.WritesPer), make([]int, s.WritesPer)
				tot := 0
				for i := range chunkLen {
					chunkLen[i] = 1 + rs.IntN(s.MaxElems)
					tot += chunkLen[i]
				}
				payload = make([]int64, tot)
				off := 0
				for j := 0; j < s.WritesPer; j++ {
					i := j // address order = write order
					if s.Layout == 3 {
						i = s.WritesPer - 1 - j // address order = reverse write order
					}
					chunkOff[i] = off
					for k := 0; k < chunkLen[i]; k++ {
						payload[off+k] = int64(w*s.WritesPer+i)*8 + int64(k)
					}
					off += chunkLen[i]
				}
				payloads[w], payWant[w] = payload, append([]int64(nil), payload...)
			}
			for i := 0; i < s.WritesPer; i++ {
				yield(r, s.YieldPct, s.SleepMaxUS)
				gid := int64(w*s.WritesPer + i)
				n := 1 + r.IntN(s.MaxElems)
				var objs []int64
				if payload != nil {
					n = chunkLen[i]
					objs = payload[chunkOff[i] : chunkOff[i]+n] // plain two-index slice: capacity runs to the end of the payload
				} else {
					objs = make([]int64, n)
					for k := range objs {
						objs[k] = gid*8 + int64(k)
					}
				}
				var fc queue.FlushChannel
				inline := false
				if r.IntN(100) < s.FCPct {
					fc = make(queue.FlushChannel)
					fcs[gid] = fc
					inline = s.TimeoutUS > 0 && r.IntN(100) < s.InlinePct
				}
				pre := clk.Add(1)
				seq, err := q.Write(objs, fc)
				post := clk.Add(1)
				rec := [8]int64{gid, int64(n), seq, pre, post, 0, 0, 0}
				if err != nil {
					rec[7] = 1
				}
				if cap(objs) > len(objs) {
					rec[7] |= 2
				}
				if fc != nil {
					rec[5] = 1
					if inline {
						<-fc
						fcStamps[gid].Store(clk.Add(1))
					} else {
						fcWG.Add(1)
						go func() {
							defer fcWG.Done()
							<-fc
							fcStamps[gid].Store(clk.Add(1))
						}()
					}
				}
				recs = append(recs, rec)
			}
		}(w)
	}
	// flushers
	for f := 0; f < s.Flushers; f++ {
		flWG.Add(1)
		go func(f int) {
			defer flWG.Done()
			r := rand.New(rand.NewPCG(s.Seed, uint64(f)+1000))
			for i := 0; i < s.FlushesPer; i++ {
				yield(r, 100, s.SleepMaxUS*2+50)
				q.Flush()
				flushes.Add(1)
			}
		}(f)
	}

	waitCh := func(ch <-chan struct{}, what string) bool {
		last, lastT := clk.Load(), time.Now()
		tk := time.NewTicker(50 * time.Millisecond)
		defer tk.Stop()
		for {
			select {
			case <-ch:
				return true
			case <-abort:
				lg.Watchdog = "aborted: flush channel left open by Request.Close"
				return false
			case <-tk.C:
				if now := clk.Load(); now != last {
					last, lastT = now, time.Now()
				} else if time.Since(lastT) > 10*time.Second {
					lg.Watchdog = what
					return false
				}
			}
		}
	}
	waitWG := func(wg *sync.WaitGroup, what string) bool {
		ch := make(chan struct{})
		go func() { wg.Wait(); close(ch) }()
		return waitCh(ch, what)
	}
	ok := waitWG(&wWG, "writers did not finish")
	lg.WritersDone = ok
	ok = ok && waitWG(&flWG, "flushers did not finish")
	if ok {
		// Everything is written. Flush, then push a sentinel write followed by a
		// flush: once the consumer has seen the sentinel, FIFO says every earlier
		// write must have been emitted already.
		sfc := make(queue.FlushChannel)
		fcs[total] = sfc
		done := make(chan struct{})
		go func() {
			q.Flush()
			pre := clk.Add(1)
			seq, err := q.Write([]int64{int64(total) * 8}, sfc)
			post := clk.Add(1)
			sentinelRec = [8]int64{int64(total), 1, seq, pre, post, 1, 0, 0}
			if err != nil {
				sentinelRec[7] = 1
			}
			q.Flush()
			fcWG.Add(1)
			go func() {
				defer fcWG.Done()
				<-sfc
				fcStamps[total].Store(clk.Add(1))
			}()
			close(done)
		}()
		if waitCh(done, "final flush/sentinel write blocked") {
			sentinelWritten = true
		} else {
			ok = false
		}
	}
	var res consRes
	if ok {
		if waitCh(consFin, "sentinel never reached the consumer") {
			res = <-consDone
		} else {
			ok = false
		}
	}
	if !ok {
		close(consStop)
		select {
		case res = <-consDone:
		case <-time.After(5 * time.Second):
		}
	} else {
		// all batches were closed by the consumer: every flush channel must fire
		if !waitWG(&fcWG, "flush-channel waiters still blocked after all batches were closed") {
			ok = false
		}
	}
	lg.Depth = q.Depth()
	lg.Clobbered = -1
	if ok {
		// Every writer has returned and the consumer has received the sentinel:
		// nobody uses the payloads any more.
		lg.Clobbered = 0
		for w := range payloads {
			for i := range payloads[w] {
				if payloads[w][i] != payWant[w][i] {
					lg.Clobbered++
				}
			}
		}
	}
	if ok {
		// Nothing is in flight any more (Close would block for ever if the run
		// loop were still trying to hand a batch to a consumer that has left).
		q.Close()
	}
	if lg.WritersDone {
		for w := range perWriter {
			lg.Writes = append(lg.Writes, perWriter[w]...)
		}
	}
	if sentinelWritten {
		lg.Writes = append(lg.Writes, sentinelRec)
	}
	for i := range lg.Writes {
		lg.Writes[i][6] = fcStamps[lg.Writes[i][0]].Load()
	}
	lg.Batches, lg.Objs, lg.Sentinel, lg.Stalls, lg.Panic = res.batches, res.objs, res.sentinel, res.stalls, res.panicS
	lg.Flushes = int(flushes.Load())
	lg.WallUS = time.Since(start).Microseconds()
	return lg
}

// ---------------------------------------------------------------- oracle

type verdict struct {
	key  string
	what string
}

type caseStats struct {
	writes, batches, fullBatches, partialBatches, multiWriterBatches int64
	fcChecked, overlaps, elems                                       int64
	subsliceWrites, batchesLedBySubslice                             int64
	overlapSeen                                                      bool
}

// judge is the offline oracle over one recorded case.
func judge(s caseSpec, lg caseLog) (vs []verdict, st caseStats) {
	add := func(k, f string, a ...any) {
		if len(vs) < 8 {
			vs = append(vs, verdict{k, fmt.Sprintf(f, a...)})
		}
	}
	total := s.Writers * s.WritesPer
	if lg.Panic != "" {
		add("consumer:panic", "consumer panicked: %s", lg.Panic)
	}
	type wr struct {
		n                          int
		seq, pre, post, fc, fcStmp int64
		seen                       bool
		spare                      bool // the slice passed to Write had len < cap
		batch                      int
	}
	ws := make(map[int64]*wr, len(lg.Writes))
	for _, w := range lg.Writes {
		if w[7]&1 != 0 {
			add("write:error", "Write returned an error on an open queue (write %d)", w[0])
			continue
		}
		ws[w[0]] = &wr{n: int(w[1]), seq: w[2], pre: w[3], post: w[4], fc: w[5], fcStmp: w[6], batch: -1, spare: w[7]&2 != 0}
		st.elems += w[1]
		if w[7]&2 != 0 {
			st.subsliceWrites++
		}
	}
	st.writes = int64(len(ws))
	// --- sequence numbers as returned to the writers
	bySeq := make([]int64, 0, len(ws))
	for g := range ws {
		bySeq = append(bySeq, g)
	}
	sort.Slice(bySeq, func(i, j int) bool {
		a, b := ws[bySeq[i]], ws[bySeq[j]]
		if a.seq != b.seq {
			return a.seq < b.seq
		}
		return bySeq[i] < bySeq[j]
	})
	var maxPre, maxPreG int64 = -1, -1
	for i, g := range bySeq {
		w := ws[g]
		if i > 0 && ws[bySeq[i-1]].seq == w.seq {
			add("seq:duplicate", "writes %d and %d were both given sequence number %d", bySeq[i-1], g, w.seq)
		}
		// real time: a write that returned before another one started must have the smaller number
		if maxPre >= 0 && w.post < maxPre {
			add("seq:not-monotonic", "write %d (seq %d) returned before write %d (smaller seq %d) was even called", g, w.seq, maxPreG, ws[maxPreG].seq)
		}
		if w.pre > maxPre {
			maxPre, maxPreG = w.pre, g
		}
	}
	// per writer program order
	for wtr := 0; wtr < s.Writers; wtr++ {
		var last int64 = -1 << 62
		for i := 0; i < s.WritesPer; i++ {
			if w := ws[int64(wtr*s.WritesPer+i)]; w != nil {
				if w.seq <= last {
					add("seq:not-monotonic", "writer %d: write #%d got seq %d after seq %d", wtr, i, w.seq, last)
				}
				last = w.seq
			}
		}
	}
	// overlapping Write calls of different writers (evidence of real concurrency)
	{
		type iv struct{ pre, post int64 }
		ivs := make([]iv, 0, len(ws))
		for _, w := range ws {
			ivs = append(ivs, iv{w.pre, w.post})
		}
		sort.Slice(ivs, func(i, j int) bool { return ivs[i].pre < ivs[j].pre })
		var maxPost int64 = -1
		for _, v := range ivs {
			if v.pre < maxPost {
				st.overlaps++ // same writer never overlaps itself (sequential)
			}
			if v.post > maxPost {
				maxPost = v.post
			}
		}
		st.overlapSeen = st.overlaps > 0
	}
	// --- emitted batches
	var lastBatchSeq int64 = -1 << 62
	var lastWriteSeq int64 = -1 << 62
	var lastWriteG int64 = -1
	sentinelSeen := false
	for bi, b := range lg.Batches {
		objs := lg.Objs[bi]
		st.batches++
		if b[4] != 0 {
			add("batch:mutated-after-handover", "batch %d (seq %d) changed while the consumer held it", bi, b[0])
		}
		if b[7] != 0 {
			add("flush:double-close", "Request.Close panicked for batch %d (a flush channel was already closed)", bi)
		}
		if b[5] != 0 {
			add("flush:fired-before-release", "batch %d: %d flush channel(s) already closed before the consumer called Close", bi, b[5])
		}
		if b[6] != 0 {
			add("flush:not-fired-on-release", "batch %d: %d flush channel(s) still open after the consumer called Close", bi, b[6])
		}
		if b[0] <= lastBatchSeq {
			add("batch:seq-not-increasing", "batch %d has sequence number %d after %d", bi, b[0], lastBatchSeq)
		}
		lastBatchSeq = b[0]
		nWrites := 0
		ledBySpare := false
		var maxSeq int64 = -1 << 62
		writers := map[int64]bool{}
		for i := 0; i < len(objs); {
			o := objs[i]
			g, k := o/8, o%8
			w := ws[g]
			if g == int64(total) && w != nil {
				sentinelSeen = true
			}
			if w == nil && o >= 0 && (g == int64(total) || (!lg.WritersDone && g < int64(total))) {
				i++ // write list incomplete (case aborted before the record was collected): cannot judge this element
				continue
			}
			if o < 0 || w == nil || g > int64(total) {
				add("elem:unknown", "batch %d contains element %d that was never written", bi, o)
				i++
				continue
			}
			if k != 0 {
				add("write:split-or-reordered", "batch %d: element %d of write %d appears without its predecessors", bi, k, g)
				i++
				continue
			}
			// the whole write must follow contiguously
			j := 0
			for ; j < w.n && i+j < len(objs) && objs[i+j] == g*8+int64(j); j++ {
			}
			if j != w.n {
				add("write:split-or-reordered", "write %d (%d elements) is not contiguous/complete in batch %d (got %d)", g, w.n, bi, j)
			}
			i += j
			if w.seen {
				add("elem:duplicate", "write %d emitted twice (batches %d and %d)", g, w.batch, bi)
			}
			w.seen, w.batch = true, bi
			if nWrites == 0 && w.spare {
				ledBySpare = true
			}
			nWrites++
			if g < int64(total) {
				writers[g/int64(s.WritesPer)] = true
			}
			if w.seq <= lastWriteSeq {
				add("order:not-write-order", "write %d (seq %d) emitted after write %d (seq %d)", g, w.seq, lastWriteG, lastWriteSeq)
			}
			lastWriteSeq, lastWriteG = w.seq, g
			if w.seq > maxSeq {
				maxSeq = w.seq
			}
			// completion signal only once the batch is released
			if w.fc != 0 {
				st.fcChecked++
				if w.fcStmp != 0 && w.fcStmp < b[2] {
					add("flush:fired-before-release", "write %d: flush channel observed closed at stamp %d, before the consumer started Close of its batch (stamp %d)", g, w.fcStmp, b[2])
				}
			}
		}
		if nWrites > s.Batch {
			add("batch:too-many-writes", "batch %d merges %d writes, batch size is %d", bi, nWrites, s.Batch)
		}
		if nWrites == s.Batch {
			st.fullBatches++
		} else {
			st.partialBatches++
		}
		if len(writers) > 1 {
			st.multiWriterBatches++
		}
		if ledBySpare && nWrites > 1 {
			st.batchesLedBySubslice++
		}
		if nWrites > 0 && b[0] != maxSeq {
			add("batch:seq-not-max", "batch %d carries sequence number %d, largest contained is %d", bi, b[0], maxSeq)
		}
	}
	// --- lossless (only decidable when the sentinel arrived)
	if lg.Sentinel && sentinelSeen {
		missing := 0
		var ex int64 = -1
		for g, w := range ws {
			if !w.seen && g != int64(total) {
				missing++
				if ex < 0 || g < ex {
					ex = g
				}
			}
		}
		if missing > 0 {
			add("elem:missing", "%d of %d writes never emitted although a later write (sentinel after Flush) was (e.g. write %d seq %d); Depth()=%d", missing, len(ws), ex, ws[ex].seq, lg.Depth)
		}
		for g, w := range ws {
			if w.seen && w.fc != 0 && w.fcStmp == 0 && lg.Watchdog == "" {
				add("flush:not-fired-on-release", "write %d: flush channel never observed closed although its batch was closed", g)
				break
			}
		}
	}
	return vs, st
}

// ---------------------------------------------------------------- driver

func genCase(no int, r *rand.Rand, quick bool) caseSpec {
	s := caseSpec{No: no, Seed: r.Uint64()}
	s.Writers = 2 + r.IntN(7) // 2..8
	tw := 300 + r.IntN(400)   // ≈500 writes per case
	s.WritesPer = tw/s.Writers + 1
	s.MaxElems = 1 + r.IntN(4)
	s.Batch = 1 + r.IntN(8)
	s.MaxSize = []int{1, 2, 4, 16, 128, 1024}[r.IntN(6)]
	s.TimeoutUS = []int{0, 0, 200, 200, 200, 5000, 5000, 50000}[r.IntN(8)]
	s.Flushers = r.IntN(3)
	s.FlushesPer = 5 + r.IntN(40)
	s.FCPct = []int{0, 10, 30, 60, 100}[r.IntN(5)]
	s.InlinePct = []int{0, 5, 20}[r.IntN(3)]
	if s.TimeoutUS >= 50000 {
		s.InlinePct = []int{0, 2}[r.IntN(2)]
	}
	s.YieldPct = []int{0, 0, 5, 20, 50}[r.IntN(5)] // 0: tight loops, maximal contention on the lock
	s.SleepMaxUS = []int{0, 20, 200}[r.IntN(3)]
	s.StallPct = []int{0, 5, 30}[r.IntN(3)]
	s.StallMaxUS = []int{0, 100, 2000}[r.IntN(3)]
	s.Layout = []int{0, 1, 1, 2, 2, 3}[r.IntN(6)] // drawn last: the other parameters of case i are what they were before this was added
	return s
}

func run(c *vf.Ctx) {
	c.Rule("case = seeded parameters (2-8 writers x ~500 Writes of 1-4 unique elements, handed over either as freshly allocated slices or - all writers, or only the odd ones - as consecutive sub-slices (len < cap) of one payload array the writer built beforehand, chunked in ascending or descending address order so that the spare capacity of a write is the writer's own not-yet-written resp. already-written data; 0-100% with a flush channel, 0-2 flushers, batch size 1-8, channel capacity 1-1024, timeout 0/200us/5ms/50ms, seeded Gosched/sleeps, stalling consumer) run on the real queue.Queue[int64] in a child process, once in the normal and once in the -race build; every Write (call/return stamp, returned sequence number), every received Request (objects, stamps around Request.Close) and every flush-channel close is logged with one logical clock and judged offline. non-trivial = Write calls of different writers overlapped (by stamps) and >=2 batches were emitted; distinct by (parameters, build)")
	c.Assume("write order = order of the sequence numbers returned by Write (cross-checked against real-time order of non-overlapping calls and per-writer program order)")
	c.Assume("a batch is 'released' when the single consumer calls Request.Close on it; a write counts as lost only if a later write (a sentinel written after all writers finished, followed by Flush) has already been delivered")
	c.Assume("the logical clock is an atomic counter, so it adds happens-before edges between stamped operations; data races are only reported for accesses that truly overlap between two stamps")

	nCases := c.N(400, 8000)
	chunk := c.N(25, 100)
	par := 4
	tmp := vf.TempDir("c24")
	defer os.RemoveAll(tmp)

	r := c.Rand(1)
	specs := make([]caseSpec, nCases)
	for i := range specs {
		specs[i] = genCase(i, r, c.Quick())
	}
	type job struct {
		lo, hi int
		race   bool
	}
	var jobs []job
	for lo := 0; lo < nCases; lo += chunk {
		hi := min(lo+chunk, nCases)
		jobs = append(jobs, job{lo, hi, false}, job{lo, hi, true})
	}
	var mu sync.Mutex
	var tot caseStats
	var sumTimeout, sumFlush int64
	racePrefixes := []string{}
	crashSeen := map[int]bool{}
	var crashTails, crashInPkg []string
	jobCh := make(chan int)
	var wg sync.WaitGroup
	for p := 0; p < par; p++ {
		wg.Add(1)
		go func() {
			defer wg.Done()
			for ji := range jobCh {
				j := jobs[ji]
				specFile := filepath.Join(tmp, fmt.Sprintf("spec-%d.json", ji))
				b, _ := json.Marshal(specs[j.lo:j.hi])
				os.WriteFile(specFile, b, 0644)
				prefix := filepath.Join(tmp, fmt.Sprintf("race-%d", ji))
				env := []string{"GORACE=halt_on_error=0 log_path=" + prefix}
				raceArg := "0"
				if j.race {
					raceArg = "1"
					mu.Lock()
					racePrefixes = append(racePrefixes, prefix)
					mu.Unlock()
				}
				logPath := filepath.Join(tmp, fmt.Sprintf("worker-%d.log", ji))
				out, code, intime := vf.RunWorkerOnce(j.race, "c24", []string{specFile, raceArg}, env, logPath, 10*time.Minute)
				os.Remove(specFile)
				seen := map[int]bool{}
				sc := bufio.NewScanner(bytesReader(out))
				sc.Buffer(make([]byte, 1<<20), 1<<28)
				for sc.Scan() {
					line := sc.Bytes()
					if len(line) > 12 && string(line[:11]) == `{"summary":` {
						var sum workerSummary
						if json.Unmarshal(line, &sum) == nil {
							mu.Lock()
							sumTimeout += sum.NumTimeout
							sumFlush += sum.NumFlush
							mu.Unlock()
						}
						continue
					}
					var lg caseLog
					if err := json.Unmarshal(line, &lg); err != nil {
						continue
					}
					if lg.No < j.lo || lg.No >= j.hi {
						continue
					}
					seen[lg.No] = true
					handleCase(c, specs[lg.No], lg, j.race, &mu, &tot)
				}
				for no := j.lo; no < j.hi; no++ {
					if !seen[no] {
						c.Eval(1)
						why := "worker produced no log for the case"
						if !intime {
							why = "worker timed out"
						} else if code != 0 {
							why = "worker exited " + strconv.Itoa(code) + " before the case"
							tail := tailFile(logPath, 6000)
							c.Logf("worker job %d exit %d: %s", ji, code, tail)
							mu.Lock()
							if !crashSeen[ji] {
								crashSeen[ji] = true
								if len(crashTails) < 4 {
									crashTails = append(crashTails, fmt.Sprintf("job %d exit %d: %s", ji, code, tail))
								}
								if (strings.Contains(tail, "panic:") || strings.Contains(tail, "fatal error:")) && strings.Contains(tail, anchoredPkg) {
									crashInPkg = append(crashInPkg, tail)
								}
							}
							mu.Unlock()
						}
						c.Inconclusive(why)
					}
				}
				os.Remove(logPath)
			}
		}()
	}
	for ji := range jobs {
		jobCh <- ji
		if ji%20 == 19 {
			c.Logf("dispatched %d/%d worker jobs", ji+1, len(jobs))
		}
	}
	close(jobCh)
	wg.Wait()

	// race reports of all -race children
	for _, t := range crashInPkg {
		c.Violation("worker:crash-in-queue", "the worker process died with a panic / fatal error whose stack is inside the anchored package", t)
	}
	if len(crashTails) > 0 {
		c.Extra("worker_failures", crashTails)
	}
	var anchoredRaces, otherRaces, raceBlocks int
	var otherList []string
	for _, p := range racePrefixes {
		reps, blocks := vf.ScanRaceLogs(p, []string{anchoredPkg})
		raceBlocks += blocks
		for _, rp := range reps {
			if rp.InPkg == 2 {
				anchoredRaces++
				top := func(st []string) string {
					if len(st) == 0 {
						return "?"
					}
					return st[0]
				}
				c.Violation("race:queue:"+rp.Pair, fmt.Sprintf("data race inside package queue (%d reports): %s <-> %s", rp.Count, top(rp.StackA), top(rp.StackB)), rp)
			} else {
				otherRaces++
				if len(otherList) < 5 {
					otherList = append(otherList, fmt.Sprintf("%v <-> %v", firstN(rp.StackA, 3), firstN(rp.StackB, 3)))
				}
			}
		}
	}
	c.Count("race_report_blocks", int64(raceBlocks))
	c.Count("races_in_queue_package", int64(anchoredRaces))
	c.Count("races_elsewhere", int64(otherRaces))
	if len(otherList) > 0 {
		c.Extra("races_elsewhere_examples", otherList)
	}
	c.Count("writes_logged", tot.writes)
	c.Count("elements_logged", tot.elems)
	c.Count("batches_received", tot.batches)
	c.Count("batches_full", tot.fullBatches)
	c.Count("batches_partial_timer_or_flush", tot.partialBatches)
	c.Count("batches_mixing_writers", tot.multiWriterBatches)
	c.Count("flush_channels_checked", tot.fcChecked)
	c.Count("overlapping_write_calls", tot.overlaps)
	c.Count("writes_of_subslices_len_lt_cap", tot.subsliceWrites)
	c.Count("multi_write_batches_led_by_subslice_write", tot.batchesLedBySubslice)
	c.Count("queue_expvar_num_timeout", sumTimeout)
	c.Count("queue_expvar_num_flush", sumFlush)
	c.Count("worker_jobs", int64(len(jobs)))
	c.Require(int64(nCases), nCases/2)
}

func handleCase(c *vf.Ctx, s caseSpec, lg caseLog, race bool, mu *sync.Mutex, tot *caseStats) {
	c.Eval(1)
	vs, st := judge(s, lg)
	mu.Lock()
	tot.writes += st.writes
	tot.elems += st.elems
	tot.batches += st.batches
	tot.fullBatches += st.fullBatches
	tot.partialBatches += st.partialBatches
	tot.multiWriterBatches += st.multiWriterBatches
	tot.fcChecked += st.fcChecked
	tot.overlaps += st.overlaps
	tot.subsliceWrites += st.subsliceWrites
	tot.batchesLedBySubslice += st.batchesLedBySubslice
	mu.Unlock()
	build := "normal"
	if race {
		build = "race"
	}
	if len(vs) > 0 {
		note := ""
		if lg.Clobbered > 0 {
			note = fmt.Sprintf(" (diagnostic: %d word(s) of the writers' own payload arrays, parts of which were handed to Write as sub-slices, were overwritten during the case)", lg.Clobbered)
		}
		for _, v := range vs {
			c.Violation(v.key, fmt.Sprintf("[%s build, case %d] %s%s", build, s.No, v.what, note), map[string]any{"spec": s, "build": build, "log": lg})
		}
		return
	}
	if lg.Watchdog != "" || !lg.Sentinel {
		c.Inconclusive("watchdog: " + lg.Watchdog)
		return
	}
	c.Held(1)
	if st.overlapSeen && st.batches >= 2 {
		b, _ := json.Marshal(s)
		c.Nontrivial(build + string(b))
	}
	if s.No < 3 && !race {
		c.Sample(map[string]any{"spec": s, "build": build, "writes": st.writes, "batches": st.batches, "full": st.fullBatches, "partial": st.partialBatches,
			"overlapping_write_calls": st.overlaps, "flush_channels": st.fcChecked, "wall_us": lg.WallUS,
			"first_batches": firstBatches(lg, 3)})
	}
}

func firstBatches(lg caseLog, n int) []any {
	var out []any
	for i := 0; i < len(lg.Batches) && i < n; i++ {
		out = append(out, map[string]any{"seq": lg.Batches[i][0], "recv_stamp": lg.Batches[i][1], "close_stamp": lg.Batches[i][2], "objects": lg.Objs[i]})
	}
	return out
}

func firstN(s []string, n int) []string {
	if len(s) > n {
		return s[:n]
	}
	return s
}
