package c34

import (
	"bufio"
	"encoding/json"
	"errors"
	"fmt"
	"math/rand/v2"
	"os"
	"runtime"
	"sync"
	"sync/atomic"
	"time"

	"github.com/rqlite/rqlite/v10/vexport"
	"verif/internal/vf"
)

// caseSpec is one generated case.
type caseSpec struct {
	No         int    `json:"no"`
	Kind       string `json:"kind"` // gate | mrsw | rt
	Seed       uint64 `json:"seed"`
	G          int    `json:"g"`       // goroutines (rt: subscribers)
	OpsPer     int    `json:"ops_per"` // operations per goroutine
	YieldPct   int    `json:"yield_pct"`
	SleepMaxUS int    `json:"sleep_max_us"`
	HoldYields int    `json:"hold_yields"` // how long a holder stays inside (max Gosched/sleep steps)
	// mrsw
	ReadPct  int `json:"read_pct,omitempty"`  // share of read-side operations
	BlockPct int `json:"block_pct,omitempty"` // share of blocking (vs try) acquires
	// rt
	Signalers  int `json:"signalers,omitempty"`
	SignalsPer int `json:"signals_per,omitempty"`
	Resets     int `json:"resets,omitempty"`
}

// caseLog is the recorded observation of one case. All stamps come from one
// atomic logical clock per case.
type caseLog struct {
	No   int    `json:"no"`
	Kind string `json:"kind"`
	// gate + mrsw: [goroutine, acqStamp, relStamp, mode] – acq taken right after a
	// successful acquire, rel right before the release. mode: gate 0; mrsw 0=R 1=W.
	Holds [][4]int64 `json:"holds,omitempty"`
	// counters of what happened
	N map[string]int64 `json:"n"`
	// stuck: no operation completed for 10 s
	Stuck    bool  `json:"stuck,omitempty"`
	BlockedR int   `json:"blocked_r,omitempty"`
	BlockedW int   `json:"blocked_w,omitempty"`
	OccR     int64 `json:"occ_r,omitempty"`
	OccW     int64 `json:"occ_w,omitempty"`
	HBGapUS  int64 `json:"hb_gap_us,omitempty"`
	// mrsw progress scenarios: [scenario, latencyUS (-1: not within 10 s), heartbeat max gap US, waiters]
	Prog [][4]int64 `json:"prog,omitempty"`
	// rt
	Signals [][3]int64 `json:"signals,omitempty"` // [pre, post, idx]
	ResetEv [][2]int64 `json:"resets,omitempty"`  // [pre, post]
	// [target, pre, post, immediate, wakeStamp(0: never seen closed while waiting), unsubscribed, closedAtEnd, goroutine]
	Subs [][8]int64 `json:"subs,omitempty"`
	// [target, highest index whose Signal call had returned, subscribe pre, subscribe post]:
	// Subscribe returned an open channel although a Signal(>= target) had already
	// returned when the channel was looked at (cases without Reset only)
	Lost  [][4]int64 `json:"lost_wakeups,omitempty"`
	Panic string     `json:"panic,omitempty"`
	Skip  string     `json:"skip,omitempty"`
	Wall  int64      `json:"wall_us"`
}

var hb *vf.Heartbeat

func worker(args []string) {
	b, err := os.ReadFile(args[0])
	if err != nil {
		fmt.Fprintln(os.Stderr, err)
		os.Exit(2)
	}
	var specs []caseSpec
	if err := json.Unmarshal(b, &specs); err != nil {
		fmt.Fprintln(os.Stderr, err)
		os.Exit(2)
	}
	hb = vf.StartHeartbeat(5 * time.Millisecond)
	out := bufio.NewWriterSize(os.Stdout, 1<<20)
	enc := json.NewEncoder(out)
	hangs := 0
	for _, s := range specs {
		var lg caseLog
		if hangs >= 2 && s.Kind == "mrsw" {
			lg = caseLog{No: s.No, Kind: s.Kind, N: map[string]int64{}, Skip: "skipped: two earlier cases of this worker already hung"}
		} else {
			st := time.Now()
			switch s.Kind {
			case "gate":
				lg = runGate(s)
			case "mrsw":
				lg = runMRSW(s)
			default:
				lg = runRT(s)
			}
			lg.Wall = time.Since(st).Microseconds()
			if lg.Stuck {
				hangs++
			}
			for _, p := range lg.Prog {
				if p[1] < 0 {
					hangs++
				}
			}
		}
		enc.Encode(lg)
		out.Flush()
	}
	enc.Encode(map[string]any{"summary": true, "cases": len(specs)})
	out.Flush()
	os.Exit(0)
}

type yielder struct {
	r          *rand.Rand
	pct, maxUS int
}

func (y yielder) yield() {
	if y.pct == 0 || y.r.IntN(100) >= y.pct {
		return
	}
	y.step()
}

func (y yielder) step() {
	switch y.r.IntN(3) {
	case 0:
		runtime.Gosched()
	case 1:
		for i := y.r.IntN(4); i >= 0; i-- {
			runtime.Gosched()
		}
	default:
		if y.maxUS > 0 {
			time.Sleep(time.Duration(y.r.IntN(y.maxUS)+1) * time.Microsecond)
		} else {
			runtime.Gosched()
		}
	}
}

func (y yielder) hold(max int) {
	if max <= 0 {
		return
	}
	for i := y.r.IntN(max + 1); i > 0; i-- {
		y.step()
	}
}

// counters is a per-goroutine counter set merged at the end (no shared state
// beyond the clock and the occupancy counters while the case runs).
type counters map[string]int64

func merge(dst map[string]int64, src counters) {
	for k, v := range src {
		dst[k] += v
	}
}

// waitStuck waits for wg; returns false when no operation completed for 10 s.
func waitStuck(wg *sync.WaitGroup, progress *atomic.Int64) bool {
	done := make(chan struct{})
	go func() { wg.Wait(); close(done) }()
	last, lastT := progress.Load(), time.Now()
	tk := time.NewTicker(50 * time.Millisecond)
	defer tk.Stop()
	for {
		select {
		case <-done:
			return true
		case <-tk.C:
			if now := progress.Load(); now != last {
				last, lastT = now, time.Now()
			} else if time.Since(lastT) > 10*time.Second {
				return false
			}
		}
	}
}

// ---------------------------------------------------------------- gate

func runGate(s caseSpec) caseLog {
	lg := caseLog{No: s.No, Kind: s.Kind, N: map[string]int64{}}
	g := vexport.NewCheckAndSet()
	var clk, progress atomic.Int64
	var occ atomic.Int64
	holds := make([][][4]int64, s.G)
	cnts := make([]counters, s.G)
	panics := make([]string, s.G)
	names := make([]string, s.G)
	valid := map[string]bool{"": true}
	for i := range names {
		names[i] = fmt.Sprintf("holder-%d", i)
		valid[names[i]] = true
	}
	var wg sync.WaitGroup
	for i := 0; i < s.G; i++ {
		wg.Add(1)
		go func(i int) {
			defer wg.Done()
			c := counters{}
			var hs [][4]int64
			defer func() {
				if p := recover(); p != nil {
					panics[i] = fmt.Sprint(p)
				}
				holds[i], cnts[i] = hs, c
			}()
			r := rand.New(rand.NewPCG(s.Seed, uint64(i)+1))
			y := yielder{r, s.YieldPct, s.SleepMaxUS}
			me := names[i]
			inside := func(how string) {
				n := occ.Add(1)
				acq := clk.Add(1)
				if n != 1 {
					c["occupancy_violation"]++
				}
				c["acquired_"+how]++
				y.hold(s.HoldYields)
				if r.IntN(4) == 0 {
					c["owner_checks"]++
					if o := g.Owner(); o != me {
						c["owner_not_holder"]++
					}
				}
				rel := clk.Add(1)
				occ.Add(-1)
				g.End()
				hs = append(hs, [4]int64{int64(i), acq, rel, 0})
			}
			for op := 0; op < s.OpsPer; op++ {
				y.yield()
				switch k := r.IntN(100); {
				case k < 55:
					if err := g.Begin(me); err == nil {
						inside("begin")
					} else {
						c["conflict"]++
						if !errors.Is(err, vexport.ErrCASConflict) {
							c["unexpected_error"]++
						}
					}
				case k < 85:
					to := time.Duration(r.IntN(2000)) * time.Microsecond
					iv := time.Duration(1+r.IntN(100)) * time.Microsecond
					if err := g.BeginWithRetry(me, to, iv); err == nil {
						inside("retry")
					} else {
						c["retry_timeout"]++
						if !errors.Is(err, vexport.ErrCASConflictTimeout) {
							c["unexpected_error"]++
						}
					}
				case k < 95:
					c["owner_reads"]++
					if o := g.Owner(); !valid[o] {
						c["owner_garbage"]++
					}
				default:
					c["stats_reads"]++
					_ = g.Stats()
				}
				progress.Add(1)
			}
		}(i)
	}
	if !waitStuck(&wg, &progress) {
		lg.Stuck = true
		lg.OccW = occ.Load()
		lg.HBGapUS = hb.MaxGap(time.Now().Add(-10*time.Second), time.Now()).Microseconds()
		return lg
	}
	for i := range holds {
		lg.Holds = append(lg.Holds, holds[i]...)
		merge(lg.N, cnts[i])
		if len(holds[i]) > 0 {
			lg.N["goroutines_that_held"]++
		}
		if panics[i] != "" {
			lg.Panic = panics[i]
		}
	}
	// quiescent: everybody has called End, the gate must be free
	if err := g.Begin("final"); err != nil {
		lg.N["refused_when_free"]++
	} else {
		if g.Owner() != "final" {
			lg.N["owner_not_holder"]++
		}
		g.End()
	}
	if g.Owner() != "" {
		lg.N["owner_after_end"]++
	}
	return lg
}

// ---------------------------------------------------------------- mrsw

const (
	stIdle int32 = iota
	stBlockedR
	stBlockedW
)

func runMRSW(s caseSpec) caseLog {
	lg := caseLog{No: s.No, Kind: s.Kind, N: map[string]int64{}}
	m := vexport.NewMultiRSW()
	var clk, progress atomic.Int64
	var occR, occW atomic.Int64
	holds := make([][][4]int64, s.G)
	cnts := make([]counters, s.G)
	panics := make([]string, s.G)
	state := make([]atomic.Int32, s.G)
	var wg sync.WaitGroup
	for i := 0; i < s.G; i++ {
		wg.Add(1)
		go func(i int) {
			defer wg.Done()
			c := counters{}
			var hs [][4]int64
			defer func() {
				if p := recover(); p != nil {
					panics[i] = fmt.Sprint(p)
				}
				holds[i], cnts[i] = hs, c
			}()
			r := rand.New(rand.NewPCG(s.Seed, uint64(i)+1))
			y := yielder{r, s.YieldPct, s.SleepMaxUS}
			me := fmt.Sprintf("writer-%d", i)
			enterR := func() int64 {
				n := occR.Add(1)
				acq := clk.Add(1)
				if occW.Load() != 0 {
					c["occupancy_violation"]++
				}
				if n > 1 {
					c["readers_together"]++
				}
				return acq
			}
			insideW := func(how string) {
				n := occW.Add(1)
				acq := clk.Add(1)
				if n != 1 || occR.Load() != 0 {
					c["occupancy_violation"]++
				}
				c["acquired_w_"+how]++
				y.hold(s.HoldYields)
				rel := clk.Add(1)
				occW.Add(-1)
				m.EndWrite()
				hs = append(hs, [4]int64{int64(i), acq, rel, 1})
			}
			insideR := func(how string) {
				acq := enterR()
				c["acquired_r_"+how]++
				y.hold(s.HoldYields)
				rel := clk.Add(1)
				occR.Add(-1)
				m.EndRead()
				hs = append(hs, [4]int64{int64(i), acq, rel, 0})
			}
			for op := 0; op < s.OpsPer; op++ {
				y.yield()
				read := r.IntN(100) < s.ReadPct
				block := r.IntN(100) < s.BlockPct
				upgrade := read && r.IntN(5) == 0
				switch {
				case upgrade:
					if block {
						state[i].Store(stBlockedR)
						m.BeginReadBlocking()
						state[i].Store(stIdle)
					} else if err := m.BeginRead(); err != nil {
						c["conflict"]++
						break
					}
					acq := enterR()
					y.hold(s.HoldYields)
					rel := clk.Add(1)
					occR.Add(-1) // from here on this goroutine may stop being a reader
					hs = append(hs, [4]int64{int64(i), acq, rel, 0})
					if err := m.UpgradeToWriter(me); err == nil {
						insideW("upgrade")
					} else {
						c["upgrade_refused"]++
						m.EndRead()
					}
				case read && block:
					state[i].Store(stBlockedR)
					m.BeginReadBlocking()
					state[i].Store(stIdle)
					insideR("blocking")
				case read:
					if err := m.BeginRead(); err == nil {
						insideR("try")
					} else {
						c["conflict"]++
					}
				case block:
					state[i].Store(stBlockedW)
					m.BeginWriteBlocking(me)
					state[i].Store(stIdle)
					insideW("blocking")
				default:
					if err := m.BeginWrite(me); err == nil {
						insideW("try")
					} else {
						c["conflict"]++
					}
				}
				progress.Add(1)
			}
		}(i)
	}
	finished := waitStuck(&wg, &progress)
	if !finished {
		lg.Stuck = true
		for i := range state {
			switch state[i].Load() {
			case stBlockedR:
				lg.BlockedR++
			case stBlockedW:
				lg.BlockedW++
			}
		}
		lg.OccR, lg.OccW = occR.Load(), occW.Load()
		lg.HBGapUS = hb.MaxGap(time.Now().Add(-10*time.Second), time.Now()).Microseconds()
		return lg // goroutines are leaked on purpose; per-goroutine logs are not read (they may still be written)
	}
	for i := range holds {
		lg.Holds = append(lg.Holds, holds[i]...)
		merge(lg.N, cnts[i])
		if panics[i] != "" {
			lg.Panic = panics[i]
		}
	}
	if lg.Panic != "" {
		return lg
	}

	// ---- progress scenarios on the now quiescent lock
	var sc counters = counters{}
	defer func() { merge(lg.N, sc) }()
	r := rand.New(rand.NewPCG(s.Seed, 999))
	// 1: k readers inside, one blocking writer; release the readers
	{
		k := 1 + r.IntN(3)
		for j := 0; j < k; j++ {
			if err := m.BeginRead(); err != nil {
				sc["refused_when_free"]++
				return lg
			}
			occR.Add(1)
		}
		acquired := make(chan struct{})
		var early atomic.Int64
		go func() {
			m.BeginWriteBlocking("scenario-writer")
			occW.Add(1)
			if occR.Load() != 0 {
				early.Add(1)
			}
			close(acquired)
		}()
		time.Sleep(time.Duration(200+r.IntN(2000)) * time.Microsecond)
		for j := 0; j < k; j++ {
			occR.Add(-1)
			m.EndRead()
		}
		t0 := time.Now()
		lat := int64(-1)
		select {
		case <-acquired:
			lat = time.Since(t0).Microseconds()
		case <-time.After(10 * time.Second):
		}
		lg.Prog = append(lg.Prog, [4]int64{1, lat, hb.MaxGap(t0, time.Now()).Microseconds(), 1})
		sc["occupancy_violation"] += early.Load()
		if lat < 0 {
			return lg
		}
		occW.Add(-1)
		m.EndWrite()
	}
	// 2: a writer inside, two blocking readers and one blocking writer; release the writer
	{
		if err := m.BeginWrite("scenario-holder"); err != nil {
			sc["refused_when_free"]++
			return lg
		}
		occW.Add(1)
		var wg2 sync.WaitGroup
		var bad atomic.Int64
		for j := 0; j < 3; j++ {
			wg2.Add(1)
			go func(j int) {
				defer wg2.Done()
				if j < 2 {
					m.BeginReadBlocking()
					occR.Add(1)
					if occW.Load() != 0 {
						bad.Add(1)
					}
					runtime.Gosched()
					occR.Add(-1)
					m.EndRead()
				} else {
					m.BeginWriteBlocking("scenario-writer-2")
					if occW.Add(1) != 1 || occR.Load() != 0 {
						bad.Add(1)
					}
					runtime.Gosched()
					occW.Add(-1)
					m.EndWrite()
				}
			}(j)
		}
		time.Sleep(time.Duration(200+r.IntN(2000)) * time.Microsecond)
		occW.Add(-1)
		m.EndWrite()
		t0 := time.Now()
		all := make(chan struct{})
		go func() { wg2.Wait(); close(all) }()
		lat := int64(-1)
		select {
		case <-all:
			lat = time.Since(t0).Microseconds()
		case <-time.After(10 * time.Second):
		}
		lg.Prog = append(lg.Prog, [4]int64{2, lat, hb.MaxGap(t0, time.Now()).Microseconds(), 3})
		sc["occupancy_violation"] += bad.Load()
		if lat < 0 {
			return lg
		}
	}
	// 3: a writer inside, two blocking readers that stay inside until both are in
	// (readers do not exclude each other, so once the writer left both must get in
	// without either of them leaving first)
	{
		if err := m.BeginWrite("scenario-holder-3"); err != nil {
			sc["refused_when_free"]++
			return lg
		}
		occW.Add(1)
		var in, out sync.WaitGroup
		var bad atomic.Int64
		release := make(chan struct{})
		for j := 0; j < 2; j++ {
			in.Add(1)
			out.Add(1)
			go func() {
				defer out.Done()
				m.BeginReadBlocking()
				occR.Add(1)
				if occW.Load() != 0 {
					bad.Add(1)
				}
				in.Done()
				<-release
				occR.Add(-1)
				m.EndRead()
			}()
		}
		time.Sleep(time.Duration(200+r.IntN(2000)) * time.Microsecond)
		occW.Add(-1)
		m.EndWrite()
		t0 := time.Now()
		all := make(chan struct{})
		go func() { in.Wait(); close(all) }()
		lat := int64(-1)
		select {
		case <-all:
			lat = time.Since(t0).Microseconds()
		case <-time.After(10 * time.Second):
		}
		lg.Prog = append(lg.Prog, [4]int64{3, lat, hb.MaxGap(t0, time.Now()).Microseconds(), 2})
		sc["occupancy_violation"] += bad.Load()
		close(release)
		if lat < 0 {
			return lg
		}
		out.Wait() // both readers have returned from EndRead
	}
	// finally the lock must be free for a try-writer
	if err := m.BeginWrite("final"); err != nil {
		sc["refused_when_free"]++
	} else {
		m.EndWrite()
	}
	return lg
}

// ---------------------------------------------------------------- ready target

func chClosed(ch <-chan struct{}) bool {
	select {
	case <-ch:
		return true
	default:
		return false
	}
}

func runRT(s caseSpec) caseLog {
	lg := caseLog{No: s.No, Kind: s.Kind, N: map[string]int64{}}
	rt := vexport.NewReadyTargetUint64()
	var clk, progress atomic.Int64
	var cur atomic.Uint64     // highest index handed to a signaler so far
	var doneSig atomic.Uint64 // highest index whose Signal call has returned
	var lostMu sync.Mutex
	sigs := make([][][3]int64, s.Signalers)
	subs := make([][][8]int64, s.G)
	chans := make([][]<-chan struct{}, s.G)
	panics := make([]string, s.G+s.Signalers+1)
	var resets [][2]int64
	caseDone := make(chan struct{})
	var sigWG, subWG sync.WaitGroup

	for j := 0; j < s.Signalers; j++ {
		sigWG.Add(1)
		go func(j int) {
			defer sigWG.Done()
			var ev [][3]int64
			defer func() {
				if p := recover(); p != nil {
					panics[s.G+j] = fmt.Sprint(p)
				}
				sigs[j] = ev
			}()
			r := rand.New(rand.NewPCG(s.Seed, uint64(j)+500))
			y := yielder{r, 100, s.SleepMaxUS}
			for n := 0; n < s.SignalsPer; n++ {
				y.yield()
				var idx uint64
				if c := cur.Load(); r.IntN(8) == 0 && c > 3 {
					idx = c - uint64(r.IntN(3)) // stale or repeated index
				} else {
					idx = cur.Add(uint64(1 + r.IntN(3)))
				}
				pre := clk.Add(1)
				rt.Signal(idx)
				for {
					d := doneSig.Load()
					if idx <= d || doneSig.CompareAndSwap(d, idx) {
						break
					}
				}
				post := clk.Add(1)
				ev = append(ev, [3]int64{pre, post, int64(idx)})
				progress.Add(1)
			}
		}(j)
	}
	if s.Resets > 0 {
		sigWG.Add(1)
		go func() {
			defer sigWG.Done()
			defer func() {
				if p := recover(); p != nil {
					panics[s.G+s.Signalers] = fmt.Sprint(p)
				}
			}()
			r := rand.New(rand.NewPCG(s.Seed, 700))
			for n := 0; n < s.Resets; n++ {
				time.Sleep(time.Duration(200+r.IntN(3000)) * time.Microsecond)
				pre := clk.Add(1)
				rt.Reset()
				post := clk.Add(1)
				resets = append(resets, [2]int64{pre, post})
			}
		}()
	}
	for i := 0; i < s.G; i++ {
		subWG.Add(1)
		go func(i int) {
			defer subWG.Done()
			var ev [][8]int64
			var chs []<-chan struct{}
			defer func() {
				if p := recover(); p != nil {
					panics[i] = fmt.Sprint(p)
				}
				subs[i], chans[i] = ev, chs
			}()
			r := rand.New(rand.NewPCG(s.Seed, uint64(i)+1))
			y := yielder{r, s.YieldPct, s.SleepMaxUS}
			for op := 0; op < s.OpsPer; op++ {
				select {
				case <-caseDone:
					return
				default:
				}
				y.yield()
				if r.IntN(50) == 0 {
					_ = rt.Len()
				}
				c := int64(cur.Load())
				t := c + int64(r.IntN(7)) - 2
				if t < 0 || r.IntN(200) == 0 {
					t = 0
				}
				pre := clk.Add(1)
				ch := rt.Subscribe(uint64(t))
				post := clk.Add(1)
				rec := [8]int64{t, pre, post, 0, 0, 0, 0, int64(i)}
				// Both calls have returned: Subscribe(t) just now, and Signal(d) before
				// doneSig was read. Whichever took effect first, the channel is closed by
				// now (Subscribe saw the target reached, or Signal found the waiter).
				if d := doneSig.Load(); s.Resets == 0 && t > 0 && d >= uint64(t) && !chClosed(ch) {
					lostMu.Lock()
					if len(lg.Lost) < 8 {
						lg.Lost = append(lg.Lost, [4]int64{t, int64(d), pre, post})
					}
					lg.N["lost_wakeup_observed"]++
					lostMu.Unlock()
				}
				if chClosed(ch) {
					rec[3] = 1
					rec[4] = clk.Add(1)
				} else {
					mode := r.IntN(4)
					if s.Resets > 0 && mode == 0 {
						mode = 1
					}
					var giveUp <-chan time.Time
					switch mode {
					case 0: // wait as long as it takes (or until the case ends)
					case 1, 2:
						giveUp = time.After(time.Duration(1+r.IntN(2000)) * time.Microsecond)
					default:
						giveUp = time.After(0)
					}
					select {
					case <-ch:
						rec[4] = clk.Add(1)
					case <-giveUp:
						rt.Unsubscribe(ch)
						rec[5] = 1
						if chClosed(ch) { // the signal won the race with Unsubscribe
							rec[4] = clk.Add(1)
						}
					case <-caseDone:
					}
				}
				ev = append(ev, rec)
				chs = append(chs, ch)
				progress.Add(1)
			}
		}(i)
	}
	if !waitStuck(&sigWG, &progress) {
		lg.Stuck = true
		lg.HBGapUS = hb.MaxGap(time.Now().Add(-10*time.Second), time.Now()).Microseconds()
		return lg
	}
	close(caseDone)
	if !waitStuck(&subWG, &progress) {
		lg.Stuck = true
		lg.HBGapUS = hb.MaxGap(time.Now().Add(-10*time.Second), time.Now()).Microseconds()
		return lg
	}
	// quiescent: every Signal / Reset / Subscribe / Unsubscribe call has returned
	for i := range subs {
		for k := range subs[i] {
			if chClosed(chans[i][k]) {
				subs[i][k][6] = 1
			}
		}
		lg.Subs = append(lg.Subs, subs[i]...)
	}
	for j := range sigs {
		lg.Signals = append(lg.Signals, sigs[j]...)
	}
	lg.ResetEv = resets
	for _, p := range panics {
		if p != "" {
			lg.Panic = p
		}
	}
	lg.N["len_at_end"] = int64(rt.Len())
	return lg
}
