// Package c23: queued writes are applied in the order they were accepted, each
// request's statements stay together, none are dropped while the node runs and
// a leader is reachable, and a wait response follows the apply (DESIGN §6 C23).
package c23

import (
	"encoding/json"
	"expvar"
	"fmt"
	"net/url"
	"os"
	"path/filepath"
	"runtime/pprof"
	"sort"
	"strings"
	"sync"
	"sync/atomic"
	"time"

	"verif/internal/hcluster"
	"verif/internal/vf"
)

func init() {
	vf.Register("C23", "exploration", run)
	vf.RegisterWorker("c23", worker)
}

// ---- case description (deterministic from the seed) ----

type step struct {
	K       int    `json:"k"`                 // number of statements
	Mode    string `json:"mode"`              // q | wait | waitto
	Timeout string `json:"timeout,omitempty"` // ?timeout= for waitto
	SleepMs int    `json:"sleep_ms"`
	Slow    bool   `json:"slow,omitempty"` // the (single) statement carries about 2 s of SQLite work
}

type caseSpec struct {
	Case      int      `json:"case"`
	Nodes     int      `json:"nodes"`
	BatchSz   int      `json:"batch_sz"`
	QTimeout  int      `json:"queue_timeout_ms"`
	QCap      int      `json:"queue_cap"`
	Clients   int      `json:"clients"`
	Race      bool     `json:"race"`
	Scripts   [][]step `json:"-"`
	MaxFaults int      `json:"max_faults"`
	Plan      []fault  `json:"-"`
	// per node round of the consumer-stall phase: 0 slow statement, 1 node cut off
	StallModes []int `json:"stall_modes"`
}

// fault is one pre-drawn nemesis step; what it does to whom is resolved
// against the cluster state (current leader) when it fires.
type fault struct {
	PauseMs int
	Kind    int // 0-2 stepdown, 3-4 isolate leader, 5-6 isolate node, 7 kill conns, 8-9 cut forwarded response
	Victim  int
	DurMs   int
	NBytes  int64
}

func genCase(c *vf.Ctx, caseNo int) caseSpec {
	r := c.Rand(uint64(caseNo))
	cs := caseSpec{Case: caseNo, Clients: 8, Race: caseNo%2 == 1}
	cs.Nodes = []int{1, 3, 3, 1}[caseNo%4]
	if caseNo%8 >= 4 {
		cs.Nodes = []int{3, 1, 3, 3}[caseNo%4]
	}
	cs.BatchSz = []int{2, 3, 4, 4, 8}[r.IntN(5)]
	cs.QTimeout = []int{2, 5, 5, 20}[r.IntN(4)]
	cs.QCap = []int{8, 16, 64}[r.IntN(3)]
	cs.MaxFaults = 7 + r.IntN(5)
	for f := 0; f < cs.MaxFaults; f++ {
		cs.Plan = append(cs.Plan, fault{PauseMs: 500 + r.IntN(900), Kind: r.IntN(10), Victim: r.IntN(3), DurMs: 400 + r.IntN(1100), NBytes: int64(r.IntN(6))})
	}
	perClient := 85
	if cs.Nodes == 3 {
		perClient = 80
	}
	for ci := 0; ci < cs.Clients; ci++ {
		var sc []step
		for j := 0; j < perClient; j++ {
			st := step{K: 1 + r.IntN(5), Mode: "q"}
			switch p := r.IntN(100); {
			case p < 28:
				st.Mode = "wait"
			case p < 38:
				st.Mode = "waitto"
				st.Timeout = []string{"1ms", "3ms", "10ms", "40ms", "2s"}[r.IntN(5)]
			}
			if r.IntN(10) < 3 {
				st.SleepMs = 0
			} else {
				st.SleepMs = r.IntN(170)
			}
			sc = append(sc, st)
		}
		cs.Scripts = append(cs.Scripts, sc)
	}
	for i := 0; i < 3; i++ {
		cs.StallModes = append(cs.StallModes, r.IntN(2))
	}
	if cs.Nodes == 3 && cs.StallModes[0] == cs.StallModes[1] && cs.StallModes[1] == cs.StallModes[2] {
		cs.StallModes[1+r.IntN(2)] ^= 1 // both ways of stalling in every 3-node history
	}
	return cs
}

// ---- history record ----

type reqRec struct {
	Client   int    `json:"c"`
	N        int    `json:"n"`
	K        int    `json:"k"`
	Node     string `json:"node"`
	Role     string `json:"role"` // leader | follower (role of the node when the request was sent)
	Mode     string `json:"mode"`
	Timeout  string `json:"timeout,omitempty"`
	Status   int    `json:"status"`
	Err      string `json:"err,omitempty"`
	Seq      int64  `json:"seq"`
	WaitRead string `json:"wait_read,omitempty"` // ok | missing | unread
	WaitSeen int    `json:"wait_seen,omitempty"`
	ReadTry  int    `json:"read_try,omitempty"`
}

type histOut struct {
	Spec     caseSpec         `json:"spec"`
	Reqs     []reqRec         `json:"reqs"`
	Rows     [][4]int64       `json:"rows"` // id, c, n, i in id order
	Faults   []string         `json:"faults"`
	Leaders  []string         `json:"leaders_seen"`
	Expvar   map[string]int64 `json:"expvar"`
	SetupErr string           `json:"setup_err,omitempty"`
	DrainErr string           `json:"drain_err,omitempty"`
	Stall    []stallRound     `json:"stall,omitempty"`
	Stuck    bool             `json:"stuck,omitempty"`
}

// ---- driver ----

func run(c *vf.Ctx) {
	c.Rule("history = 8 HTTP clients pinned round-robin to the nodes of a live in-process cluster (1 node, or 3 nodes so that queued writes enter at the leader and at followers and are forwarded) each post a seeded script of 80-85 /db/execute?queue requests (plain, &wait, &wait&timeout=1ms..2s) of 1-5 statements INSERT INTO q(c,n,i) into a table with an AUTOINCREMENT key, with seeded pauses (30% none) so that the queue's size flush and timer flush interleave; per case the batch size (2,3,4,8), queue timeout (2,5,20 ms) and capacity (8,16,64: producers block) vary; on 3 nodes a seeded nemesis steps the leader down, isolates the leader or a follower for 0.4-1.5 s, kills inter-node connections and cuts forwarded responses; half of the histories run under the race detector. After the clients finish: heal, then one consumer-stall round per node under light traffic: the node's queue consumer is held up in the middle of a batch A (a statement with about 2 s of SQLite work, or on 3 nodes the node is cut off so that the apply fails and is retried) while two more queued requests B and C arrive, each alone in its own timer window, and then traffic stops; the steps are sequenced on the process's queue/consumer counters (consumer took A, B handed over by a timer flush, C's timer fired while A was unfinished = staged); then heal and the queues must become quiescent (objects_rx == objects_tx == stmts_tx); then a burst of 24 producers x 120 back-to-back single-statement requests at one node (contention inside the queue's Write), one final wait request per node (drain), one strong read of the whole table. non-trivial = both flush paths were taken (timer flushes and size flushes observed in the queue counters), at least 10 wait responses were followed by a successful strong read, at least one consumer-stall round was staged, and (3 nodes) the queue consumer had to retry a batch at least once or two different leaders were seen; distinct by case number")
	c.Assume("apply order is what SQLite's AUTOINCREMENT key records; acceptance order on one node is the order of the sequence_number values that node returned")
	c.Assume("a request answered 200 or 408 (queue wait timeout) was accepted; any other status was refused before the queue; a transport error is an unknown outcome and is not required to appear")
	c.Assume("duplicates (at-least-once) are tolerated only when the process counted a queue retry or an inter-node client re-send (the latter is the known C02 finding duplicate-apply:forward-resend-after-lost-response); order is judged on first occurrences")
	c.Assume("bounded progress for 'none dropped': accepted objects held back in a queue (objects_rx > objects_tx) whose consumer has finished everything handed to it (objects_tx == stmts_tx) may stay so for one queue timeout (2-20 ms); the state lasting 12 s with unchanged counters while at least 3 strong reads through the same node succeed is reported as a violation, 3-12 s as inconclusive; queues that do not become quiescent within 90 s for any other reason are inconclusive")
	n := c.N(4, 48)
	tmp := vf.TempDir("c23")
	defer os.RemoveAll(tmp)
	outs := make([]histOut, n)
	raceP := make([]string, n)
	sem := make(chan struct{}, 4)
	var wg sync.WaitGroup
	for i := 0; i < n; i++ {
		wg.Add(1)
		go func(i int) {
			defer wg.Done()
			sem <- struct{}{}
			defer func() { <-sem }()
			cs := genCase(c, i)
			dir := filepath.Join(tmp, fmt.Sprintf("h%d", i))
			os.MkdirAll(dir, 0755)
			var env []string
			if cs.Race {
				raceP[i] = filepath.Join(tmp, fmt.Sprintf("race%d", i))
				env = append(env, "GORACE=halt_on_error=0 exitcode=0 log_path="+raceP[i])
			}
			outF := filepath.Join(dir, "out.json")
			_, code, ok := vf.RunWorkerOnce(cs.Race, "c23", []string{fmt.Sprint(i), fmt.Sprint(c.Seed), c.Tier, dir, outF}, env, filepath.Join(tmp, fmt.Sprintf("h%d.log", i)), 8*time.Minute)
			var h histOut
			b, err := os.ReadFile(outF)
			if err != nil || json.Unmarshal(b, &h) != nil || !ok || code != 0 {
				h = histOut{Spec: cs, SetupErr: fmt.Sprintf("worker exit=%d finished=%v err=%v", code, ok, err)}
				if lb, e := os.ReadFile(filepath.Join(tmp, fmt.Sprintf("h%d.log", i))); e == nil {
					keep := filepath.Join(vf.Out, "replays", fmt.Sprintf("C23-%d-case%d-worker.log", c.Seed, i))
					os.MkdirAll(filepath.Dir(keep), 0755)
					os.WriteFile(keep, []byte(tail(string(lb), 1<<20)), 0644)
					c.Logf("case %d: worker did not deliver a history; log kept in %s", i, keep)
				}
			}
			outs[i] = h
			os.RemoveAll(dir)
			c.Logf("case %d done (nodes=%d race=%v reqs=%d rows=%d faults=%d %s%s)", i, cs.Nodes, cs.Race, len(h.Reqs), len(h.Rows), len(h.Faults), h.SetupErr, h.DrainErr)
		}(i)
	}
	wg.Wait()
	for i := range outs {
		c.Eval(1)
		judge(c, i, &outs[i])
	}
	// race reports
	for i, p := range raceP {
		if p == "" {
			continue
		}
		reps, blocks := vf.ScanRaceLogs(p, []string{"github.com/rqlite/rqlite/v10/http.", "github.com/rqlite/rqlite/v10/queue."})
		c.Count("race_histories", 1)
		c.Count("race_report_blocks", int64(blocks))
		for _, rp := range reps {
			harness := false
			for _, f := range append(append([]string{}, rp.StackA...), rp.StackB...) {
				if strings.HasPrefix(f, "verif/") {
					harness = true
				}
			}
			if rp.InPkg == 2 && !harness {
				c.Violation("data-race:http-queue", fmt.Sprintf("history %d: data race with both access stacks in http/queue: %v <-> %v", i, first(rp.StackA, 3), first(rp.StackB, 3)), rp)
			} else {
				c.Count("race_reports_other_packages", 1)
				c.Extra(fmt.Sprintf("race_other_%s", rp.Key), map[string]any{"a": first(rp.StackA, 4), "b": first(rp.StackB, 4), "count": rp.Count})
			}
		}
	}
	c.Require(int64(n*3/4), c.N(2, 16))
}

func first(s []string, n int) []string {
	if len(s) > n {
		return s[:n]
	}
	return s
}

func tail(s string, n int) string {
	if len(s) > n {
		return s[len(s)-n:]
	}
	return s
}

type rkey struct{ c, n int64 }

// judge is the oracle over one recorded history.
func judge(c *vf.Ctx, i int, h *histOut) {
	if h.SetupErr != "" {
		c.Logf("case %d: setup: %s", i, h.SetupErr)
		c.Inconclusive("setup/worker")
		return
	}
	if h.DrainErr != "" {
		c.Logf("case %d: drain: %s", i, h.DrainErr)
		c.Inconclusive("drain did not complete")
		return
	}
	ev := h.Expvar
	retries := ev["http.queued_executions_failed"] + ev["cluster.num_client_execute_retries"]
	reqs := map[rkey]*reqRec{}
	for j := range h.Reqs {
		r := &h.Reqs[j]
		reqs[rkey{int64(r.Client), int64(r.N)}] = r
	}
	small := func(viol any) map[string]any {
		return map[string]any{"spec": h.Spec, "faults": h.Faults, "expvar": h.Expvar, "detail": viol}
	}
	bad := false

	// 0. Bounded progress after a consumer stall (stall.go): accepted objects
	// held back in a queue whose consumer has finished everything handed to it.
	stagedRounds := 0
	for _, sr := range h.Stall {
		if sr.Mode != "pre" {
			c.Count("stall_rounds", 1)
			c.Count("stall_rounds_"+sr.Mode, 1)
			if sr.Staged {
				stagedRounds++
				c.Count("stall_rounds_staged", 1)
				c.Count("stall_rounds_staged_"+sr.Mode+"_"+sr.Role, 1)
			}
		}
		switch {
		case sr.Settle == "stuck":
			var absent []string
			for j := range h.Reqs {
				r := &h.Reqs[j]
				if r.Err == "" && (r.Status == 200 || r.Status == 408) {
					found := false
					for _, row := range h.Rows {
						if row[1] == int64(r.Client) && row[2] == int64(r.N) {
							found = true
							break
						}
					}
					if !found && len(absent) < 12 {
						absent = append(absent, fmt.Sprintf("c=%d n=%d (%s, %s, seq %d)", r.Client, r.N, r.Node, r.Mode, r.Seq))
					}
				}
			}
			key := "none-dropped:held-back-after-consumer-stall"
			if sr.Mode == "pre" {
				key = "none-dropped:held-back-after-load"
			}
			c.Violation(key, fmt.Sprintf("history %d (%s round on %s, %s, staged=%v): %d accepted statement(s) were never handed to the queue consumer although the consumer had finished everything it was given (objects_rx=%d objects_tx=%d stmts_tx=%d, unchanged for %d ms over %d polls) and %d strong reads through the same node succeeded meanwhile; accepted requests absent from the final strong read: %v", i, sr.Mode, sr.Node, sr.Role, sr.Staged, sr.RX-sr.TX, sr.RX, sr.TX, sr.STX, sr.HeldMs, sr.Polls, sr.Controls, absent), small(map[string]any{"round": sr, "absent": absent, "stall": h.Stall}))
			bad = true
		case sr.Settle != "applied":
			c.Logf("case %d: stall round on %s (%s): queues did not become quiescent: %+v", i, sr.Node, sr.Mode, sr)
			c.Inconclusive("queues not quiescent after consumer-stall round")
			return
		case sr.HeldMax >= slowBandMs:
			c.Logf("case %d: stall round on %s (%s): pending objects were held back for %d ms before the flush", i, sr.Node, sr.Mode, sr.HeldMax)
			c.Count("stall_rounds_slow_flush", 1)
			c.Inconclusive("queue flush slow after consumer-stall round (inconclusive band)")
		}
	}

	// 1. Walk the table in apply order: it must be a concatenation of complete
	// request instances (c,n,0..k-1).
	type inst struct{ startPos, startID int64 }
	insts := map[rkey][]inst{}
	for p := 0; p < len(h.Rows); {
		row := h.Rows[p]
		k := rkey{row[1], row[2]}
		r := reqs[k]
		if r == nil {
			c.Violation("unknown-row", fmt.Sprintf("history %d: row id=%d (c=%d,n=%d,i=%d) belongs to no request that was sent", i, row[0], row[1], row[2], row[3]), small(row))
			bad = true
			p++
			continue
		}
		okRun := true
		for j := 0; j < r.K; j++ {
			if p+j >= len(h.Rows) || h.Rows[p+j][1] != k.c || h.Rows[p+j][2] != k.n || h.Rows[p+j][3] != int64(j) {
				okRun = false
				break
			}
		}
		if !okRun {
			lo, hi := p-2, p+r.K+2
			if lo < 0 {
				lo = 0
			}
			if hi > len(h.Rows) {
				hi = len(h.Rows)
			}
			c.Violation("order:within-request", fmt.Sprintf("history %d: statements of request c=%d n=%d (k=%d, node %s, %s) are not applied together in their original order; rows around id %d: %v", i, r.Client, r.N, r.K, r.Node, r.Mode, row[0], h.Rows[lo:hi]), small(map[string]any{"req": r, "rows": h.Rows[lo:hi]}))
			bad = true
			p++
			continue
		}
		insts[k] = append(insts[k], inst{int64(p), row[0]})
		p += r.K
	}

	// 2. Every accepted statement is present at least once; duplicates need a retry.
	accepted, dupReqs, unknown, refused, refusedApplied := 0, 0, 0, 0, 0
	for j := range h.Reqs {
		r := &h.Reqs[j]
		k := rkey{int64(r.Client), int64(r.N)}
		switch {
		case r.Err != "":
			unknown++
			continue
		case r.Status == 200 || r.Status == 408:
			accepted++
			c.Count("statements_accepted", int64(r.K))
			if len(insts[k]) == 0 {
				c.Violation("missing:accepted-statement", fmt.Sprintf("history %d: request c=%d n=%d (k=%d, %s, status %d, seq %d) accepted by %s (%s) has no complete set of rows after drain and strong read (retries counted: %d; faults %v)", i, r.Client, r.N, r.K, r.Mode, r.Status, r.Seq, r.Node, r.Role, retries, h.Faults), small(r))
				bad = true
			}
			if len(insts[k]) > 1 {
				dupReqs++
			}
		default:
			refused++
			if len(insts[k]) > 0 {
				refusedApplied++
			}
		}
	}
	c.Count("requests_accepted", int64(accepted))
	c.Count("requests_unknown_outcome", int64(unknown))
	c.Count("requests_refused", int64(refused))
	c.Count("requests_refused_but_applied", int64(refusedApplied))
	c.Count("requests_applied_more_than_once", int64(dupReqs))
	if dupReqs > 0 && retries == 0 {
		c.Violation("duplicate:unexplained", fmt.Sprintf("history %d: %d request(s) applied more than once although neither the queue consumer nor the inter-node client retried anything", i, dupReqs), small(nil))
		bad = true
	}

	// 3. Order between requests accepted by the same node, by sequence number.
	byNode := map[string][]*reqRec{}
	for j := range h.Reqs {
		r := &h.Reqs[j]
		if r.Status == 200 && r.Seq > 0 && r.Err == "" {
			byNode[r.Node] = append(byNode[r.Node], r)
		}
	}
	for node, rs := range byNode {
		sort.Slice(rs, func(a, b int) bool { return rs[a].Seq < rs[b].Seq })
		var prev *reqRec
		var prevPos int64 = -1
		for _, r := range rs {
			in := insts[rkey{int64(r.Client), int64(r.N)}]
			if len(in) == 0 {
				continue // already reported as missing
			}
			if prev != nil && r.Seq == prev.Seq {
				c.Violation("sequence-number-reused", fmt.Sprintf("history %d: node %s returned sequence_number %d to two requests (c=%d n=%d and c=%d n=%d)", i, node, r.Seq, prev.Client, prev.N, r.Client, r.N), small([]*reqRec{prev, r}))
				bad = true
			}
			if in[0].startPos < prevPos {
				pi := insts[rkey{int64(prev.Client), int64(prev.N)}][0]
				c.Violation("order:between-requests", fmt.Sprintf("history %d: node %s accepted c=%d n=%d with seq %d before c=%d n=%d with seq %d, but the first rows of the later one (id %d) precede the first rows of the earlier one (id %d)", i, node, prev.Client, prev.N, prev.Seq, r.Client, r.N, r.Seq, in[0].startID, pi.startID), small([]*reqRec{prev, r}))
				bad = true
			}
			c.Count("ordered_pairs_checked", 1)
			prev, prevPos = r, in[0].startPos
		}
	}

	// 4. wait responses.
	waitsOK := 0
	for j := range h.Reqs {
		r := &h.Reqs[j]
		if r.Mode == "q" || r.Mode == "burst" || r.Mode == "stall" || r.Status != 200 {
			if r.Status == 408 {
				c.Count("wait_timeouts_408", 1)
			}
			continue
		}
		switch r.WaitRead {
		case "ok":
			waitsOK++
		case "missing":
			c.Violation("wait:returned-before-applied", fmt.Sprintf("history %d: %s request c=%d n=%d (k=%d) on %s (%s) returned 200, but a strong read issued afterwards (attempt %d) saw only %d of its %d rows", i, r.Mode, r.Client, r.N, r.K, r.Node, r.Role, r.ReadTry, r.WaitSeen, r.K), small(r))
			bad = true
		default:
			c.Count("wait_responses_not_verified", 1)
		}
	}
	c.Count("wait_responses_verified", int64(waitsOK))

	// coverage
	timerFl := ev["queue.num_timeout"]
	batches := ev["http.queued_executions_ok"]
	sizeFl := batches - timerFl
	c.Count("batches_applied", batches)
	c.Count("timer_flushes", timerFl)
	c.Count("size_flushes_at_least", max64(sizeFl, 0))
	c.Count("queue_consumer_retries", ev["http.queued_executions_failed"])
	c.Count("queue_retry_no_leader", ev["http.queued_executions_no_leader"])
	c.Count("queue_retry_leadership_lost", ev["http.queued_executions_leadership_lost"])
	c.Count("queue_retry_not_leader", ev["http.queued_executions_not_leader"])
	c.Count("queue_retry_other_error", ev["http.queued_executions_unknown_error"])
	c.Count("internode_client_resends", ev["cluster.num_client_retries"])
	c.Count("rows_read", int64(len(h.Rows)))
	c.Count("faults", int64(len(h.Faults)))
	for _, r := range h.Reqs {
		if r.Status == 200 || r.Status == 408 {
			c.Count("accepted_at_"+r.Role, 1)
		}
	}
	nt := timerFl > 0 && sizeFl > 0 && waitsOK >= 10 && stagedRounds > 0
	if h.Spec.Nodes == 3 {
		nt = nt && (ev["http.queued_executions_failed"] > 0 || len(h.Leaders) >= 2)
	}
	if nt {
		c.Nontrivial(fmt.Sprintf("case%d", i))
	}
	if !bad {
		c.Held(1)
		s := *h
		s.Rows = nil
		if len(s.Reqs) > 8 {
			s.Reqs = s.Reqs[:8]
		}
		c.Sample(map[string]any{"spec": s.Spec, "faults": s.Faults, "stall_rounds": s.Stall, "leaders": s.Leaders, "expvar": s.Expvar, "first_requests": s.Reqs, "rows": len(h.Rows)})
	}
}

func max64(a, b int64) int64 {
	if a > b {
		return a
	}
	return b
}

// ---- worker: one history ----

const (
	burstProducers   = 24
	burstPerProducer = 120
)

func worker(args []string) {
	var caseNo int
	var seed int64
	fmt.Sscan(args[0], &caseNo)
	fmt.Sscan(args[1], &seed)
	tier, dir, outF := args[2], args[3], args[4]
	c := &vf.Ctx{ID: "C23", Seed: seed, Tier: tier}
	h, cl := runHistory(c, caseNo, dir)
	b, _ := json.Marshal(h)
	os.WriteFile(outF, b, 0644)
	// Shutting the nodes down is not part of the property: the observations are
	// already on disk, so a slow or stuck Close only costs a bounded wait.
	done := make(chan struct{})
	go func() { cl.Close(); close(done) }()
	select {
	case <-done:
	case <-time.After(60 * time.Second):
		logf("close watchdog: cluster Close still running after 60 s; goroutines follow")
		pprof.Lookup("goroutine").WriteTo(os.Stderr, 1)
	}
	os.Exit(0)
}

func logf(format string, a ...any) {
	fmt.Fprintf(os.Stderr, "[c23w %s] %s\n", time.Now().Format("15:04:05.000"), fmt.Sprintf(format, a...))
}

func runHistory(c *vf.Ctx, caseNo int, dir string) (h histOut, cl *hcluster.Cluster) {
	cs := genCase(c, caseNo)
	h.Spec = cs
	cl = hcluster.New(dir)
	cl.HTTP.Timeout = 75 * time.Second
	// wider raft timeouts under the race detector (5-10x slower), so that the
	// cluster can keep a leader between the injected faults on a loaded machine
	hb := 500 * time.Millisecond
	if cs.Race {
		hb = 1200 * time.Millisecond
	}
	opt := func(id string) hcluster.Options {
		return hcluster.Options{ID: id, HeartbeatTimeout: hb, ElectionTimeout: hb, LeaderLease: hb * 3 / 4, NoSnapshotOnClose: true,
			QueueBatchSz: cs.BatchSz, QueueTimeout: time.Duration(cs.QTimeout) * time.Millisecond, QueueCap: cs.QCap}
	}
	for i := 1; i <= cs.Nodes; i++ {
		if _, err := cl.Add(opt(fmt.Sprintf("n%d", i)), true); err != nil {
			h.SetupErr = fmt.Sprintf("add node %d: %v", i, err)
			return
		}
	}
	l := cl.WaitLeader(60 * time.Second)
	if l == nil {
		h.SetupErr = "no leader"
		return
	}
	schema := []any{"CREATE TABLE q (id INTEGER PRIMARY KEY AUTOINCREMENT, c INTEGER NOT NULL, n INTEGER NOT NULL, i INTEGER NOT NULL)", "CREATE INDEX qcn ON q(c, n)"}
	for try := 0; ; try++ {
		rr := cl.PostJSON(l, "/db/execute?transaction", schema)
		if a, err := rr.Parse(); err == nil && rr.Status == 200 && a.Error == "" && len(a.Results) == 2 && a.Results[0].Error == "" && a.Results[1].Error == "" {
			break
		}
		// "table q already exists" after an unknown outcome also means the schema is there
		if strings.Contains(string(rr.Body), "already exists") {
			break
		}
		if try == 20 {
			h.SetupErr = fmt.Sprintf("schema: %v %d %s", rr.Err, rr.Status, rr.Body)
			return
		}
		time.Sleep(500 * time.Millisecond)
		if nl := cl.WaitLeader(60 * time.Second); nl != nil {
			l = nl
		}
	}
	cl.WaitConverged(30 * time.Second)
	nodes := cl.Live()

	var mu sync.Mutex
	var recs []reqRec
	var wg sync.WaitGroup
	var running atomic.Int64
	for ci := 0; ci < cs.Clients; ci++ {
		wg.Add(1)
		running.Add(1)
		go func(ci int) {
			defer wg.Done()
			defer running.Add(-1)
			node := nodes[ci%len(nodes)]
			for n, st := range cs.Scripts[ci] {
				rec := doReq(cl, node, ci, n, st)
				mu.Lock()
				recs = append(recs, rec)
				mu.Unlock()
				if st.SleepMs > 0 {
					time.Sleep(time.Duration(st.SleepMs) * time.Millisecond)
				}
			}
		}(ci)
	}

	leaders := map[string]bool{}
	note := func() {
		if ld := cl.Leader(); ld != nil {
			leaders[ld.Name] = true
		}
	}
	note()
	if cs.Nodes == 3 {
		names := cl.Names()
		for _, ft := range cs.Plan {
			if running.Load() == 0 {
				break
			}
			time.Sleep(time.Duration(ft.PauseMs) * time.Millisecond)
			note()
			ld := cl.Leader()
			var desc string
			d := time.Duration(ft.DurMs) * time.Millisecond
			v := names[ft.Victim%len(names)]
			switch p := ft.Kind; {
			case p < 3:
				if ld != nil {
					desc = "stepdown:" + ld.Name
					logf("fault %s", desc)
					go ld.Store.Stepdown(false, "")
				}
			case p < 5:
				if ld != nil {
					desc = fmt.Sprintf("isolate-leader:%s:%s", ld.Name, d)
					logf("fault %s", desc)
					cl.Net.Isolate(ld.Name, names)
					time.Sleep(d)
					cl.Net.HealAll()
				}
			case p < 7:
				desc = fmt.Sprintf("isolate:%s:%s", v, d)
				logf("fault %s", desc)
				cl.Net.Isolate(v, names)
				time.Sleep(d)
				cl.Net.HealAll()
			case p < 8:
				desc = "killconns:" + v
				logf("fault %s", desc)
				cl.Net.KillConns(v)
			default:
				if ld != nil {
					if v == ld.Name {
						v = names[(ft.Victim+1)%len(names)]
					}
					desc = fmt.Sprintf("cut-forward-response:%s>%s:%d", v, ld.Name, ft.NBytes)
					logf("fault %s", desc)
					cl.Net.CutNextAfter(v, ld.Name, "cluster", ft.NBytes)
					cl.Net.KillConns(v)
				}
			}
			if desc != "" {
				h.Faults = append(h.Faults, desc)
			}
			note()
		}
	}
	wg.Wait()
	cl.Net.HealAll()
	note()
	// Consumer-stall rounds under light traffic (stall.go).
	logf("clients done, consumer-stall rounds")
	h.Stuck = !stallPhase(cl, cs, nodes, &h, func(r reqRec) { recs = append(recs, r) })
	// Burst phase: many producers hit one node's queue back to back, so that
	// concurrent acceptances contend inside queue.Write.
	logf("stall rounds done, burst")
	cl.Net.HealAll()
	cl.WaitLeader(60 * time.Second)
	if !h.Stuck {
		target := nodes[cs.Case%len(nodes)]
		var bw sync.WaitGroup
		start := make(chan struct{})
		for g := 0; g < burstProducers; g++ {
			bw.Add(1)
			go func(g int) {
				defer bw.Done()
				<-start
				for j := 0; j < burstPerProducer; j++ {
					rec := doReq(cl, target, 200+g, j, step{K: 1, Mode: "q"})
					rec.Mode = "burst"
					mu.Lock()
					recs = append(recs, rec)
					mu.Unlock()
				}
			}(g)
		}
		close(start)
		bw.Wait()
	}
	logf("burst done, draining")

	// Drain: one final wait request per node, then a strong read of everything.
	cl.HTTP.Timeout = 150 * time.Second
	if cl.WaitLeader(90*time.Second) == nil {
		h.DrainErr = "no leader after heal"
	}
	for ni, node := range nodes {
		if h.DrainErr != "" || h.Stuck {
			break
		}
		var rec reqRec
		for try := 0; try < 5; try++ {
			rec = doReq(cl, node, 100+ni, try, step{K: 2, Mode: "waitto", Timeout: "120s"})
			recs = append(recs, rec)
			if rec.Status == 200 {
				break
			}
			time.Sleep(time.Second)
		}
		if rec.Status != 200 {
			h.DrainErr = fmt.Sprintf("drain request on %s: status %d %s", node.Name, rec.Status, rec.Err)
		}
	}
	note()
	if h.DrainErr == "" {
		var last string
		ok := false
		for try := 0; try < 10 && !ok; try++ {
			ld := cl.WaitLeader(30 * time.Second)
			if ld == nil {
				last = "no leader"
				continue
			}
			rr := cl.Do(ld, "GET", "/db/query?level=strong&timeout=60s&q="+url.QueryEscape("SELECT id, c, n, i FROM q ORDER BY id"), nil, nil)
			a, err := rr.Parse()
			if err != nil || rr.Status != 200 || a.Error != "" || len(a.Results) != 1 || a.Results[0].Error != "" {
				last = fmt.Sprintf("%v %d %s", rr.Err, rr.Status, tail(string(rr.Body), 200))
				time.Sleep(500 * time.Millisecond)
				continue
			}
			for _, v := range a.Results[0].Values {
				var row [4]int64
				for j := 0; j < 4; j++ {
					row[j], _ = v[j].(json.Number).Int64()
				}
				h.Rows = append(h.Rows, row)
			}
			ok = true
		}
		if !ok {
			h.DrainErr = "final strong read failed: " + last
		}
	}
	h.Reqs = recs
	for n := range leaders {
		h.Leaders = append(h.Leaders, n)
	}
	sort.Strings(h.Leaders)
	h.Expvar = map[string]int64{}
	for _, m := range []string{"http", "queue", "cluster", "proxy"} {
		if em, ok := expvar.Get(m).(*expvar.Map); ok {
			em.Do(func(kv expvar.KeyValue) {
				if iv, ok := kv.Value.(*expvar.Int); ok {
					if strings.HasPrefix(kv.Key, "queued_") || m == "queue" || strings.Contains(kv.Key, "retries") || strings.HasPrefix(kv.Key, "remote_executions") {
						h.Expvar[m+"."+kv.Key] = iv.Value()
					}
				}
			})
		}
	}
	return
}

// doReq posts one queued request and, for a successful wait, follows it with a
// strong read of the request's rows.
func doReq(cl *hcluster.Cluster, node *hcluster.Node, ci, n int, st step) reqRec {
	rec := reqRec{Client: ci, N: n, K: st.K, Node: node.Name, Mode: st.Mode, Timeout: st.Timeout, Role: "follower"}
	if node.Store.IsLeader() {
		rec.Role = "leader"
	}
	var body []any
	for i := 0; i < st.K; i++ {
		if st.Slow {
			body = append(body, fmt.Sprintf("INSERT INTO q(c,n,i) SELECT %d, %d, %d+0*count(*) FROM (WITH RECURSIVE r(x) AS (SELECT 0 UNION ALL SELECT x+1 FROM r WHERE x<%d) SELECT x FROM r)", ci, n, i, slowStmtRows))
			continue
		}
		body = append(body, fmt.Sprintf("INSERT INTO q(c,n,i) VALUES(%d, %d, %d)", ci, n, i))
	}
	path := "/db/execute?queue"
	switch st.Mode {
	case "wait":
		path += "&wait"
	case "waitto":
		path += "&wait&timeout=" + st.Timeout
	}
	rr := cl.PostJSON(node, path, body)
	if rr.Err != nil {
		rec.Err = tail(rr.Err.Error(), 160)
		return rec
	}
	rec.Status = rr.Status
	if rr.Status != 200 {
		rec.Err = ""
		return rec
	}
	a, err := rr.Parse()
	if err != nil {
		rec.Err = "unparsable 200 body: " + err.Error()
		return rec
	}
	rec.Seq = a.SequenceNumber
	if st.Mode == "q" || st.Mode == "stall" {
		return rec
	}
	// The response is in hand: any strong read that succeeds from now on must
	// contain the rows.
	rec.WaitRead = "unread"
	q := fmt.Sprintf("SELECT i FROM q WHERE c=%d AND n=%d", ci, n)
	for try := 1; try <= 6; try++ {
		rec.ReadTry = try
		qr := cl.Do(node, "GET", "/db/query?level=strong&q="+url.QueryEscape(q), nil, nil)
		qa, err := qr.Parse()
		if err != nil || qr.Status != 200 || qa.Error != "" || len(qa.Results) != 1 || qa.Results[0].Error != "" {
			time.Sleep(250 * time.Millisecond)
			continue
		}
		seen := map[string]bool{}
		for _, v := range qa.Results[0].Values {
			seen[fmt.Sprint(v[0])] = true
		}
		rec.WaitSeen = 0
		for i := 0; i < st.K; i++ {
			if seen[fmt.Sprint(i)] {
				rec.WaitSeen++
			}
		}
		if rec.WaitSeen == st.K {
			rec.WaitRead = "ok"
		} else {
			rec.WaitRead = "missing"
		}
		break
	}
	return rec
}
