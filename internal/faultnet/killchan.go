package faultnet

// KillChan fails every open connection that src dialed to dst on the named
// channel ("cluster" or "raft") and returns how many there were. Connections
// sitting idle in rqlite's inter-node connection pool are included: the next
// user of such a connection gets a write error and rqlite dials a new one.
func (n *Net) KillChan(src, dst, ch string) int {
	n.mu.Lock()
	victims := n.victims(func(c *conn) bool { return c.src == src && c.dst == dst && c.ch == ch })
	n.mu.Unlock()
	for _, c := range victims {
		c.fail()
	}
	return len(victims)
}

// OpenConns returns the number of tracked open connections src dialed to dst
// on the named channel.
func (n *Net) OpenConns(src, dst, ch string) int {
	n.mu.Lock()
	defer n.mu.Unlock()
	return len(n.victims(func(c *conn) bool { return c.src == src && c.dst == dst && c.ch == ch }))
}
