package c07

import (
	"encoding/json"
	"fmt"
	"io"
	"os"
	"path/filepath"
	"strings"

	"github.com/rqlite/rqlite/v10/snapshot"
	"verif/internal/vf"
)

func init() { vf.RegisterWorker("c07", worker) }

// OpResult is the one-line JSON answer of the reap / open children.
type OpResult struct {
	OK           bool   `json:"ok"`
	Err          string `json:"err,omitempty"`
	Reaped       int    `json:"reaped"`
	Checkpointed int    `json:"checkpointed"`
}

// Resolved is what the resolving child reports about the newest snapshot.
type Resolved struct {
	OK      bool   `json:"ok"`
	Stage   string `json:"stage,omitempty"` // where it failed
	Err     string `json:"err,omitempty"`
	NSnaps  int    `json:"n_snaps"`
	ID      string `json:"id"`
	Index   uint64 `json:"index"`
	Term    uint64 `json:"term"`
	CfgJSON string `json:"cfg"`
}

func emit(v any) {
	b, _ := json.Marshal(v)
	fmt.Println(string(b))
}

// ResolveNewest opens the snapshot store at dir the way a starting node does
// (snapshot.NewStore, which runs check() and any resume), lists the newest
// snapshot, opens it and restores it into outDB.
func ResolveNewest(dir, outDB string) (res Resolved) {
	str, err := snapshot.NewStore(dir)
	if err != nil {
		return Resolved{Stage: "newstore", Err: err.Error()}
	}
	defer str.Close()
	all, err := str.ListAll()
	if err != nil {
		return Resolved{Stage: "listall", Err: err.Error()}
	}
	res.NSnaps = len(all)
	metas, err := str.List()
	if err != nil {
		res.Stage, res.Err = "list", err.Error()
		return res
	}
	if len(metas) == 0 {
		res.Stage, res.Err = "list", "store lists no snapshot"
		return res
	}
	m := metas[0]
	res.ID, res.Index, res.Term = m.ID, m.Index, m.Term
	cb, _ := json.Marshal(m.Configuration)
	res.CfgJSON = string(cb)
	_, rc, err := str.Open(m.ID)
	if err != nil {
		res.Stage, res.Err = "open", err.Error()
		return res
	}
	_, err = snapshot.Restore(rc, outDB)
	rc.Close()
	if err != nil {
		res.Stage, res.Err = "restore", err.Error()
		return res
	}
	res.OK = true
	return res
}

func worker(args []string) {
	if len(args) < 2 {
		fmt.Fprintln(os.Stderr, "usage: c07 gen|reap|open|resolve ...")
		os.Exit(2)
	}
	switch args[0] {
	case "gen": // gen <shape.json> <outdir>
		var sh Shape
		b, err := os.ReadFile(args[1])
		if err == nil {
			err = json.Unmarshal(b, &sh)
		}
		if err != nil {
			emit(GenResult{Err: err.Error()})
			return
		}
		emit(Generate(sh, args[2]))
	case "reap": // reap <storedir>: open the store and run one explicit Reap()
		str, err := snapshot.NewStore(args[1])
		if err != nil {
			emit(OpResult{Err: "newstore: " + err.Error()})
			return
		}
		str.SetReapThreshold(1 << 30)
		n, c, err := str.Reap()
		str.Close()
		if err != nil {
			emit(OpResult{Err: "reap: " + err.Error(), Reaped: n, Checkpointed: c})
			return
		}
		emit(OpResult{OK: true, Reaped: n, Checkpointed: c})
	case "open": // open <storedir>: what a restarting node does first
		str, err := snapshot.NewStore(args[1])
		if err != nil {
			emit(OpResult{Err: err.Error()})
			return
		}
		str.Close()
		emit(OpResult{OK: true})
	case "resolve": // resolve <storedir> <out.db>
		emit(ResolveNewest(args[1], args[2]))
	default:
		fmt.Fprintln(os.Stderr, "unknown c07 worker command", args[0])
		os.Exit(2)
	}
}

// Leftovers lists interrupted-work artefacts in a snapshot store directory:
// plan files and temporary entries.
func Leftovers(dir string) []string {
	var out []string
	ents, err := os.ReadDir(dir)
	if err != nil {
		return []string{"unreadable:" + err.Error()}
	}
	for _, e := range ents {
		n := e.Name()
		if n == "REAP_PLAN" || strings.HasSuffix(n, ".tmp") {
			out = append(out, n)
		}
	}
	return out
}

// TraceLine is one hook hit of a traced child.
type TraceLine struct {
	N    int
	Name string
	Hit  int
}

// ReadTrace parses a VERIF_TRACE file; crashed reports the CRASH marker.
func ReadTrace(path string) (lines []TraceLine, crashed string) {
	b, err := os.ReadFile(path)
	if err != nil {
		return nil, ""
	}
	for _, l := range strings.Split(string(b), "\n") {
		f := strings.Fields(l)
		if len(f) == 3 && f[0] == "CRASH" {
			crashed = f[1] + "#" + f[2]
			continue
		}
		if len(f) != 3 {
			continue
		}
		var t TraceLine
		fmt.Sscan(f[0], &t.N)
		t.Name = f[1]
		fmt.Sscan(f[2], &t.Hit)
		lines = append(lines, t)
	}
	return lines, crashed
}

// PrivateBin copies the running executable image into dir and returns the
// path of the copy. Children are started from it so that a rebuild of
// bin/vcheck by somebody else during a run cannot change (or remove) the code
// the children execute.
func PrivateBin(dir string) (string, error) {
	src, err := os.Open("/proc/self/exe")
	if err != nil {
		return "", err
	}
	defer src.Close()
	dst := filepath.Join(dir, "vcheck-private")
	out, err := os.OpenFile(dst, os.O_CREATE|os.O_WRONLY|os.O_TRUNC, 0755)
	if err != nil {
		return "", err
	}
	if _, err := io.Copy(out, src); err != nil {
		out.Close()
		return "", err
	}
	return dst, out.Close()
}

// Tail returns the last n bytes of a log file.
func Tail(path string, n int) string {
	b, _ := os.ReadFile(path)
	if len(b) > n {
		b = b[len(b)-n:]
	}
	return string(b)
}

// ResetDir replaces dst by a copy of src.
func ResetDir(src, dst string, copyTree func(string, string) error) error {
	if err := os.RemoveAll(dst); err != nil {
		return err
	}
	if err := os.MkdirAll(filepath.Dir(dst), 0755); err != nil {
		return err
	}
	return copyTree(src, dst)
}
