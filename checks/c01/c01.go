// Package c01: replicas converge - the same committed log gives the same
// database on every node, whatever the apply path and apply time
// (DESIGN §6 C01).
package c01

import (
	"encoding/json"
	"fmt"
	"math/rand/v2"
	"net/url"
	"os"
	"path/filepath"
	"sort"
	"strings"
	"sync"
	"time"

	"verif/internal/procnode"
	"verif/internal/sqlref"
	"verif/internal/vf"
)

func init() { vf.Register("C01", "exploration", run) }

// A request of a program.
type request struct {
	Path  string `json:"path"`  // /db/execute, /db/execute?transaction, /db/request, /db/execute?queue&wait
	Body  []any  `json:"body"`  // JSON array of statements
	Class string `json:"class"` // which statement class (decides the table written to)
	Via   int    `json:"via"`   // index of the node the request is sent to
}

type program struct {
	ID   int       `json:"id"`
	Reqs []request `json:"requests"`
}

// Statement classes. Each writes only to its own tables so that a divergence
// can be attributed to a class.
const (
	clsExplicit = "explicit"          // random(), randomblob(n), date/time functions with explicit 'now'
	clsPlain    = "plain"             // deterministic statements
	clsImplicit = "implicit"          // date/time functions whose time value is left implicit
	clsSpace    = "space"             // whitespace between function name and '('
	clsMultiTxt = "multi-text"        // several statements in one SQL text
	clsSubquery = "subquery"          // non-deterministic call inside a scalar sub-select
	clsAfterBad = "after-unparseable" // explicit non-deterministic call in a statement that follows, in the same request, a statement rqlite's own SQL parser rejects
)

var offsets = []int64{0, 400 * 86400, -(3*365*86400 + 17*60), 9 * 3600, -250 * 86400, 35 * 86400, -7 * 86400}

func pick[T any](r *rand.Rand, xs ...T) T { return xs[r.IntN(len(xs))] }

func caseMix(r *rand.Rand, s string) string {
	switch r.IntN(3) {
	case 0:
		return strings.ToUpper(s)
	case 1:
		b := []byte(s)
		for i := range b {
			if r.IntN(2) == 0 && b[i] >= 'a' && b[i] <= 'z' {
				b[i] -= 32
			}
		}
		return string(b)
	}
	return s
}

// ndExpr returns a non-deterministic SQL expression with explicit 'now'.
func ndExpr(r *rand.Rand) string {
	now := pick(r, "'now'", "'NOW'", "'now'", "'Now'")
	switch r.IntN(13) {
	case 0:
		return caseMix(r, "random") + "()"
	case 1:
		return "abs(" + caseMix(r, "random") + "()) % 1000"
	case 2:
		return fmt.Sprintf("%s(%d)", caseMix(r, "randomblob"), 1+r.IntN(24))
	case 3:
		return fmt.Sprintf("hex(%s(%d))", caseMix(r, "randomblob"), 1+r.IntN(12))
	case 4:
		return caseMix(r, "datetime") + "(" + now + mods(r) + ")"
	case 5:
		return caseMix(r, "date") + "(" + now + ", '" + pick(r, "+1 day", "-3 months", "start of month", "weekday 0", "+17 minutes") + "'" + mods(r) + ")"
	case 6:
		return caseMix(r, "time") + "(" + now + mods(r) + ")"
	case 7:
		return caseMix(r, "julianday") + "(" + now + mods(r) + ")"
	case 8:
		return caseMix(r, "unixepoch") + "(" + now + mods(r) + ")"
	case 9:
		return caseMix(r, "strftime") + "('" + pick(r, "%Y-%m-%d %H:%M:%f", "%s", "%J", "%H:%M:%S", "%Y-%j") + "', " + now + mods(r) + ")"
	case 10:
		if r.IntN(2) == 0 {
			return caseMix(r, "timediff") + "('2031-05-06 07:08:09', " + now + ")"
		}
		return caseMix(r, "timediff") + "(" + now + ", '2020-01-01 00:00:00')"
	case 11:
		return "(" + caseMix(r, "julianday") + "(" + now + ") - 2440587.5) * 86400.0"
	case 12:
		return "CASE WHEN " + caseMix(r, "random") + "() > 0 THEN " + caseMix(r, "datetime") + "(" + now + ", 'subsec') ELSE 'neg' END"
	default:
		return "coalesce(NULL, " + caseMix(r, "random") + "() / 2)"
	}
}

// mods returns 0-2 extra modifier arguments (", 'x'" each).
func mods(r *rand.Rand) string {
	all := []string{"+7 days", "-1 month", "start of day", "start of year", "+90 minutes", "utc", "subsec", "-13 hours"}
	switch r.IntN(4) {
	case 0:
		return ", '" + pick(r, all...) + "'"
	case 1:
		return ", '" + pick(r, all...) + "', '" + pick(r, all...) + "'"
	}
	return ""
}

func implicitExpr(r *rand.Rand) string {
	return pick(r, "datetime()", "date()", "time()", "julianday()", "unixepoch()", "strftime('%s')", "strftime('%Y-%m-%d %H:%M:%f')", "unixepoch('subsec')")
}

func genProgram(c *vf.Ctx, id int, nNodes int) program {
	r := c.Rand(uint64(id))
	p := program{ID: id}
	px := fmt.Sprintf("p%d_", id)
	via := func() int { return r.IntN(nNodes) }
	add := func(path, class string, stmts ...any) {
		p.Reqs = append(p.Reqs, request{Path: path, Body: stmts, Class: class, Via: via()})
	}
	// schema
	add("/db/execute?transaction", clsPlain,
		"CREATE TABLE "+px+"a (id INTEGER PRIMARY KEY, r, b, d, s TEXT)",
		"CREATE TABLE "+px+"b (k TEXT, r, d)",
		"CREATE INDEX "+px+"b_k ON "+px+"b(k)",
		"CREATE TABLE "+px+"log (x, note TEXT)",
		"CREATE TRIGGER "+px+"trg AFTER INSERT ON "+px+"a BEGIN INSERT INTO "+px+"log(x, note) VALUES(new.id, 'ins'); END",
		"CREATE VIEW "+px+"v AS SELECT id, r FROM "+px+"a WHERE id % 2 = 0",
		"CREATE TABLE "+px+"imp (id INTEGER PRIMARY KEY, v)",
		"CREATE TABLE "+px+"spc (id INTEGER PRIMARY KEY, v)",
		"CREATE TABLE "+px+"mst (id INTEGER PRIMARY KEY, v)",
		"CREATE TABLE "+px+"sub (id INTEGER PRIMARY KEY, v)",
		"CREATE TABLE "+px+"plain (id INTEGER PRIMARY KEY, v, w)",
		"CREATE TABLE "+px+"aft (id INTEGER PRIMARY KEY, v, w)",
	)
	n := 8 + r.IntN(10)
	for i := 0; i < n; i++ {
		path := pick(r, "/db/execute", "/db/execute", "/db/execute?transaction", "/db/request", "/db/request?transaction", "/db/execute?queue&wait")
		switch r.IntN(19) {
		case 0, 1:
			add(path, clsExplicit, fmt.Sprintf("INSERT INTO %sa(r, b, d, s) VALUES(%s, %s, %s, %s)", px, ndExpr(r), ndExpr(r), ndExpr(r), ndExpr(r)))
		case 2:
			add(path, clsExplicit, []any{fmt.Sprintf("INSERT INTO %sa(r, d, s) VALUES(? + %s, %s, ?)", px, ndExpr(r), ndExpr(r)), r.IntN(1000), fmt.Sprintf("s%d", i)})
		case 3:
			add(path, clsExplicit, []any{fmt.Sprintf("INSERT INTO %sb(k, r, d) VALUES(:k, %s, %s)", px, ndExpr(r), ndExpr(r)), map[string]any{"k": fmt.Sprintf("k%d", i)}})
		case 4:
			add(path, clsExplicit, fmt.Sprintf("UPDATE %sa SET r = %s, d = %s WHERE id %% 2 = %d", px, ndExpr(r), ndExpr(r), r.IntN(2)))
		case 5:
			add(path, clsExplicit, fmt.Sprintf("INSERT INTO %sb(k, r, d) SELECT 'c' || id, %s, %s FROM %sa", px, ndExpr(r), ndExpr(r), px))
		case 6:
			add(path, clsExplicit, fmt.Sprintf("INSERT INTO %sa(id, r) VALUES(%d, %s) ON CONFLICT(id) DO UPDATE SET r = excluded.r, s = %s", px, 1+r.IntN(4), ndExpr(r), ndExpr(r)))
		case 7:
			add(path, clsExplicit, fmt.Sprintf("DELETE FROM %sb WHERE r < %s AND rowid %% 5 = 0", px, "random()"))
		case 8:
			// multi-statement request (array of statements)
			add(path, clsExplicit,
				fmt.Sprintf("INSERT INTO %sa(r, d) VALUES(%s, %s)", px, ndExpr(r), ndExpr(r)),
				fmt.Sprintf("INSERT INTO %sb(k, r) VALUES('m%d', %s)", px, i, ndExpr(r)),
				fmt.Sprintf("UPDATE %sa SET s = %s WHERE id = (SELECT max(id) FROM %sa)", px, ndExpr(r), px))
		case 9:
			add(path, clsExplicit, fmt.Sprintf("INSERT INTO %sa(r, s) VALUES(%s, %s) RETURNING id, r", px, ndExpr(r), ndExpr(r)))
		case 10:
			add(path, clsPlain, fmt.Sprintf("INSERT INTO %splain(v, w) VALUES(%d, 'now random() datetime(''now'')')", px, r.IntN(100000)),
				fmt.Sprintf("UPDATE %splain SET w = w || 'x' WHERE id %% 3 = 0", px))
		case 11:
			add(path, clsImplicit, fmt.Sprintf("INSERT INTO %simp(v) VALUES(%s)", px, implicitExpr(r)))
		case 12:
			add(path, clsSpace, fmt.Sprintf("INSERT INTO %sspc(v) VALUES(%s)", px, pick(r, "random ()", "RANDOM ()", "randomblob (8)", "datetime ('now')", "random\t()")))
		case 14:
			add(path, clsSubquery, fmt.Sprintf("INSERT INTO %ssub(v) VALUES((SELECT %s))", px, pick(r, "random() + 1", "datetime('now')", "hex(randomblob(4))")))
		case 17:
			// non-deterministic calls in the LIMIT / OFFSET of an ordered SELECT (the
			// ORDER BY itself is deterministic), feeding an INSERT ... SELECT
			add(path, clsExplicit, fmt.Sprintf("INSERT INTO %sb(k, r) SELECT 'l' || id, id FROM %sa ORDER BY id LIMIT abs(random() %% 5) + 1 OFFSET abs(random() %% 3)", px, px))
		case 18:
			// ... and in a result column that follows a window function with its own ORDER BY
			add(path, clsExplicit, fmt.Sprintf("INSERT INTO %sb(k, r, d) SELECT 'w' || id, row_number() OVER (ORDER BY id), %s FROM %sa", px, ndExpr(r), px))
		case 15:
			// An earlier statement of the request is deterministic but not accepted by
			// rqlite's SQL parser (SQLite accepts it), and mentions a function name
			// only inside a string literal; the statement after it needs rewriting.
			add(path, clsAfterBad,
				fmt.Sprintf("INSERT INTO %splain(v, w) SELECT %d, 'random() date(''now'')' WHERE 1 IS NOT DISTINCT FROM 1", px, r.IntN(1000)),
				fmt.Sprintf("INSERT INTO %saft(v, w) VALUES(%s, %s)", px, ndExpr(r), ndExpr(r)))
		case 16:
			// the same with a statement SQLite rejects too, in a request that is not
			// transactional (the statements after the failing one still run)
			add(pick(r, "/db/execute", "/db/request"), clsAfterBad,
				fmt.Sprintf("INSRT INTO %splain(v) VALUES(random())", px),
				fmt.Sprintf("INSERT INTO %saft(v, w) VALUES(%s, %d)", px, ndExpr(r), i),
				fmt.Sprintf("UPDATE %saft SET w = %s WHERE id = (SELECT max(id) FROM %saft)", px, ndExpr(r), px))
		case 13:
			add(pick(r, "/db/execute", "/db/request"), clsMultiTxt, fmt.Sprintf("INSERT INTO %smst(v) VALUES(%d); INSERT INTO %smst(v) VALUES(%s)", px, i, px, pick(r, "random()", "datetime('now')", "1")))
		}
	}
	return p
}

type cluster struct {
	dir   string
	nodes []*procnode.Node
	log   []string
}

func nodeArgs() []string {
	return []string{"-raft-snap", "100000", "-raft-snap-int", "1h", "-raft-snap-wal-size", "0",
		"-raft-heartbeat-timeout", "1s", "-raft-election-timeout", "1s", "-raft-leader-lease-timeout", "800ms"}
}

func (cl *cluster) start(n int, offs []int64) error {
	for i := 0; i < n; i++ {
		nd := procnode.New(fmt.Sprintf("n%d", i+1), filepath.Join(cl.dir, fmt.Sprintf("n%d", i+1)))
		nd.Args = nodeArgs()
		nd.ClockOff = offs[i%len(offs)]
		var err error
		if i == 0 {
			err = nd.Start()
		} else {
			err = nd.Start(cl.nodes[0].RaftAddr)
		}
		if err != nil {
			return err
		}
		cl.nodes = append(cl.nodes, nd)
		if err := nd.WaitReady(60 * time.Second); err != nil {
			return fmt.Errorf("node %d: %w", i+1, err)
		}
	}
	return nil
}

func (cl *cluster) stop() {
	for _, n := range cl.nodes {
		n.Kill()
	}
}

// leader returns some node that accepts a strong read.
func (cl *cluster) anyUp() *procnode.Node {
	for _, n := range cl.nodes {
		if n.Running() {
			return n
		}
	}
	return nil
}

// barrier writes a marker row through node via and waits until every running
// node can see it locally (level=none): all earlier log entries are then
// applied everywhere.
func (cl *cluster) barrier(k int) error {
	up := cl.anyUp()
	if up == nil {
		return fmt.Errorf("no node up")
	}
	deadline := time.Now().Add(60 * time.Second)
	for {
		r := up.PostJSON("/db/execute", []any{"CREATE TABLE IF NOT EXISTS marker (k INTEGER)", fmt.Sprintf("INSERT INTO marker(k) VALUES(%d)", k)})
		if r.OK() {
			break
		}
		if time.Now().After(deadline) {
			return fmt.Errorf("marker write failed: %v %d %s", r.Err, r.Status, r.Body)
		}
		time.Sleep(300 * time.Millisecond)
	}
	for _, n := range cl.nodes {
		if !n.Running() {
			continue
		}
		for {
			r := n.Do("GET", "/db/query?level=none&q="+url.QueryEscape("SELECT max(k) FROM marker"), nil, "")
			if a, err := r.Parse(); err == nil && len(a.Results) == 1 && len(a.Results[0].Values) == 1 {
				if num, ok := a.Results[0].Values[0][0].(json.Number); ok {
					if v, _ := num.Int64(); v >= int64(k) {
						break
					}
				}
			}
			if time.Now().After(deadline) {
				return fmt.Errorf("node %s never saw marker %d", n.ID, k)
			}
			time.Sleep(100 * time.Millisecond)
		}
	}
	return nil
}

func (cl *cluster) dumps() (map[string]*sqlref.Dump, error) {
	out := map[string]*sqlref.Dump{}
	for _, n := range cl.nodes {
		if !n.Running() {
			continue
		}
		d, err := sqlref.DumpFile(n.DBPath())
		if err != nil {
			return nil, fmt.Errorf("dump %s: %w", n.ID, err)
		}
		out[n.ID] = d
	}
	return out, nil
}

type divergence struct {
	Path     string            `json:"apply_path"`
	NodeA    string            `json:"node_a"`
	NodeB    string            `json:"node_b"`
	Tables   []string          `json:"tables"`
	Classes  []string          `json:"classes"`
	Diff     string            `json:"diff"`
	PerTable map[string]string `json:"per_table_diff"`
}

func tableClass(t string) string {
	switch {
	case strings.HasSuffix(t, "_imp"):
		return clsImplicit
	case strings.HasSuffix(t, "_spc"):
		return clsSpace
	case strings.HasSuffix(t, "_mst"):
		return clsMultiTxt
	case strings.HasSuffix(t, "_sub"):
		return clsSubquery
	case strings.HasSuffix(t, "_aft"):
		return clsAfterBad
	case strings.HasSuffix(t, "_plain"), t == "marker":
		return clsPlain
	default:
		return clsExplicit
	}
}

// compare returns the divergences between dumps (reference = first id).
func compare(path string, ds map[string]*sqlref.Dump) []divergence {
	ids := make([]string, 0, len(ds))
	for id := range ds {
		ids = append(ids, id)
	}
	sort.Strings(ids)
	var out []divergence
	if len(ids) < 2 {
		return nil
	}
	ref := ds[ids[0]]
	for _, id := range ids[1:] {
		d := ds[id]
		if d.Hash() == ref.Hash() {
			continue
		}
		dv := divergence{Path: path, NodeA: ids[0], NodeB: id}
		cls := map[string]bool{}
		names := map[string]bool{}
		for t := range ref.Tables {
			names[t] = true
		}
		for t := range d.Tables {
			names[t] = true
		}
		for t := range names {
			if strings.Join(ref.Tables[t], "\n") != strings.Join(d.Tables[t], "\n") {
				dv.Tables = append(dv.Tables, t)
				cls[tableClass(t)] = true
			}
		}
		if strings.Join(ref.Schema, "\n") != strings.Join(d.Schema, "\n") {
			dv.Tables = append(dv.Tables, "<schema>")
			cls["schema"] = true
		}
		sort.Strings(dv.Tables)
		for k := range cls {
			dv.Classes = append(dv.Classes, k)
		}
		sort.Strings(dv.Classes)
		dv.Diff = sqlref.Diff(ref, d)
		dv.PerTable = map[string]string{}
		for _, t := range dv.Tables {
			a := &sqlref.Dump{Tables: map[string][]string{t: ref.Tables[t]}}
			b := &sqlref.Dump{Tables: map[string][]string{t: d.Tables[t]}}
			dv.PerTable[t] = sqlref.Diff(a, b)
		}
		out = append(out, dv)
	}
	return out
}

type batchResult struct {
	Batch    int          `json:"batch"`
	Programs []int        `json:"programs"`
	Offsets  []int64      `json:"sqlite_clock_offsets_s"`
	Requests int          `json:"requests_sent"`
	Failed   int          `json:"requests_failed"`
	Paths    []string     `json:"apply_paths_checked"`
	Divs     []divergence `json:"divergences"`
	Inconcl  string       `json:"inconclusive,omitempty"`
	Rows     int          `json:"rows_compared"`
	Sample   *program     `json:"sample_program,omitempty"`
}

func runBatch(c *vf.Ctx, dir string, batch int, progIDs []int, allPaths bool) (res batchResult) {
	res.Batch = batch
	res.Programs = progIDs
	r := c.Rand(uint64(100000 + batch))
	offs := []int64{0, offsets[1+r.IntN(len(offsets)-1)], offsets[1+r.IntN(len(offsets)-1)]}
	if offs[1] == offs[2] {
		offs[2] = offsets[2]
		if offs[1] == offs[2] {
			offs[2] = offsets[3]
		}
	}
	res.Offsets = offs
	cl := &cluster{dir: dir}
	defer cl.stop()
	if err := cl.start(3, offs); err != nil {
		res.Inconcl = "start: " + err.Error()
		return
	}
	marker := 0
	check := func(path string) bool {
		marker++
		if err := cl.barrier(marker); err != nil {
			res.Inconcl = path + ": " + err.Error()
			return false
		}
		ds, err := cl.dumps()
		if err != nil {
			res.Inconcl = path + ": " + err.Error()
			return false
		}
		for _, d := range ds {
			res.Rows += d.Rows()
			break
		}
		res.Paths = append(res.Paths, path)
		res.Divs = append(res.Divs, compare(path, ds)...)
		return true
	}
	for _, pid := range progIDs {
		p := genProgram(c, pid, 3)
		if res.Sample == nil {
			cp := p
			if len(cp.Reqs) > 6 {
				cp.Reqs = cp.Reqs[:6]
			}
			res.Sample = &cp
		}
		for _, rq := range p.Reqs {
			nd := cl.nodes[rq.Via%len(cl.nodes)]
			rr := nd.PostJSON(rq.Path, rq.Body)
			res.Requests++
			if rr.Err != nil || rr.Status != 200 {
				res.Failed++
			}
		}
		if !check("live-apply") {
			return
		}
	}
	if !allPaths {
		return
	}
	// (2) restart replay: kill n2, force the rebuild path, new clock offset.
	n2 := cl.nodes[1]
	n2.Kill()
	os.Remove(filepath.Join(n2.Dir, "clean_snapshot"))
	n2.ClockOff = offsets[1+r.IntN(len(offsets)-1)] + 12345
	if err := n2.Start(); err != nil {
		res.Inconcl = "restart n2: " + err.Error()
		return
	}
	if err := n2.WaitReady(60 * time.Second); err != nil {
		res.Inconcl = "restart n2: " + err.Error()
		return
	}
	if !check("restart-replay") {
		return
	}
	// (3) snapshot install: truncate the leader's log, then a brand-new node joins.
	var snapOK bool
	for _, n := range cl.nodes {
		rr := n.Do("POST", "/snapshot?trailing_logs=1", nil, "")
		if rr.Err == nil && (rr.Status == 200) {
			snapOK = true
		}
	}
	if snapOK {
		n4 := procnode.New("n4", filepath.Join(cl.dir, "n4"))
		n4.Args = nodeArgs()
		n4.ClockOff = offsets[1+r.IntN(len(offsets)-1)] - 4242
		if err := n4.Start(cl.nodes[0].RaftAddr, cl.nodes[1].RaftAddr, cl.nodes[2].RaftAddr); err != nil {
			res.Inconcl = "start n4: " + err.Error()
			return
		}
		cl.nodes = append(cl.nodes, n4)
		if err := n4.WaitReady(90 * time.Second); err != nil {
			res.Inconcl = "n4 ready: " + err.Error()
			return
		}
		if !check("snapshot-install") {
			return
		}
	}
	// (4) recovery replay on n3: stop it, write peers.json with the current
	// membership, restart under yet another clock.
	n3 := cl.nodes[2]
	// a few more writes so that the recovery has log entries to replay
	extra := genProgram(c, 900000+batch, 3)
	for _, rq := range extra.Reqs {
		nd := cl.nodes[0]
		nd.PostJSON(rq.Path, rq.Body)
		res.Requests++
	}
	marker++
	if err := cl.barrier(marker); err != nil {
		res.Inconcl = "pre-recovery barrier: " + err.Error()
		return
	}
	n3.Kill()
	type peer struct {
		ID       string `json:"id"`
		Address  string `json:"address"`
		NonVoter bool   `json:"non_voter"`
	}
	var peers []peer
	for _, n := range cl.nodes {
		peers = append(peers, peer{ID: n.ID, Address: n.RaftAddr})
	}
	pb, _ := json.Marshal(peers)
	os.MkdirAll(filepath.Join(n3.Dir, "raft"), 0755)
	os.WriteFile(filepath.Join(n3.Dir, "raft", "peers.json"), pb, 0644)
	n3.ClockOff = offsets[1+r.IntN(len(offsets)-1)] + 999
	for attempt := 0; attempt < 2; attempt++ {
		if err := n3.Start(); err != nil {
			res.Inconcl = "recover n3: " + err.Error()
			return
		}
		if err := n3.WaitReady(90 * time.Second); err == nil {
			break
		} else if attempt == 1 || n3.Running() {
			res.Inconcl = "recover n3: " + err.Error()
			return
		}
		// first start may exit because of the known reap/list race (C33 finding)
	}
	check("recovery-replay")
	return
}

func run(c *vf.Ctx) {
	c.Rule("program = seeded sequence of 9-18 HTTP write requests (/db/execute, ?transaction, ?queue&wait, /db/request) over DDL (tables with and without rowid alias, index, trigger, view), INSERT/UPDATE/DELETE/UPSERT/INSERT..SELECT/RETURNING, multi-statement arrays, positional and named parameters, with calls to random(), randomblob(n), date/time/datetime/julianday/unixepoch/strftime/timediff at 'now' (mixed case, modifiers, nested); separate labelled classes write to their own tables: implicit-now forms, whitespace before '(', multi-statement texts. Each batch of programs runs on a fresh cluster of 3 real rqlited processes whose SQLite clocks are skewed by different offsets (LD_PRELOAD shim: 0, and two of +400d/-3y/+9h/-250d/+35d/-7d); requests are sent to all nodes (forwarding). Apply paths compared by logical dump at equal applied prefix (marker barrier): live apply on 3 nodes; restart replay from the log with fingerprint removed and a new clock; snapshot install on a brand-new 4th node after log truncation; peers.json recovery replay under another clock. non-trivial = batch whose nodes ran with >= 2 distinct clock offsets and compared >= 1 path; distinct by (batch, path)")
	c.Assume("excluded by generator, as in the property: norwrandom/norwtime/noparse, db_timeout, CURRENT_*, DEFAULT expressions, RANDOM() in ORDER BY, 'localtime'")
	c.Assume("the clock shim shifts only SQLite's clock (gettimeofday) - Go time is unaffected - so apply-time differences are observable at day resolution")
	if strings.HasPrefix(c.ReplayFile, "prog:") {
		var id int
		fmt.Sscanf(c.ReplayFile, "prog:%d", &id)
		p := genProgram(c, id, 3)
		for _, rq := range p.Reqs {
			b, _ := json.Marshal(rq.Body)
			fmt.Printf("%-28s %-10s %s\n", rq.Path, rq.Class, b)
		}
		c.Eval(1)
		c.Nontrivial("a")
		c.Nontrivial("b")
		return
	}
	nBatches := c.N(3, 40)
	perBatch := c.N(3, 5)
	tmp := vf.TempDir("c01")
	defer os.RemoveAll(tmp)
	results := make([]batchResult, nBatches)
	sem := make(chan struct{}, c.N(3, 4))
	var wg sync.WaitGroup
	for b := 0; b < nBatches; b++ {
		wg.Add(1)
		go func(b int) {
			defer wg.Done()
			sem <- struct{}{}
			defer func() { <-sem }()
			var ids []int
			for i := 0; i < perBatch; i++ {
				ids = append(ids, b*perBatch+i)
			}
			dir := filepath.Join(tmp, fmt.Sprintf("b%d", b))
			os.MkdirAll(dir, 0755)
			allPaths := !c.Quick() || b == 0
			results[b] = runBatch(c, dir, b, ids, allPaths)
			os.RemoveAll(dir)
		}(b)
	}
	wg.Wait()
	for _, res := range results {
		for _, p := range res.Paths {
			c.Eval(1)
			c.Nontrivial(fmt.Sprintf("b%d/%s/%d", res.Batch, p, c.Counter("path:"+p)))
			c.Count("path:"+p, 1)
		}
		c.Count("requests", int64(res.Requests))
		c.Count("requests_failed", int64(res.Failed))
		c.Count("rows_compared", int64(res.Rows))
		if res.Inconcl != "" {
			c.Logf("batch %d: %s", res.Batch, res.Inconcl)
			c.Inconclusive(strings.SplitN(res.Inconcl, ":", 2)[0])
		}
		seen := map[string]bool{}
		for _, dv := range res.Divs {
			for _, cls := range dv.Classes {
				key := "diverge:" + cls
				if cls == clsExplicit || cls == clsPlain || cls == "schema" {
					key += ":" + dv.Path
				}
				if seen[key] {
					continue
				}
				seen[key] = true
				var tabs []string
				diff := ""
				for _, t := range dv.Tables {
					if tableClass(t) == cls || (cls == "schema" && t == "<schema>") {
						tabs = append(tabs, t)
						if len(diff) < 1500 {
							diff += t + ":\n" + dv.PerTable[t] + "\n"
						}
					}
				}
				c.Violation(key, fmt.Sprintf("batch %d path %s: node %s and %s (SQLite clock offsets %v s) differ in tables %v:\n%s", res.Batch, dv.Path, dv.NodeA, dv.NodeB, res.Offsets, tabs, diff), map[string]any{"batch": res, "divergence": dv})
			}
		}
		if len(res.Divs) == 0 && res.Inconcl == "" {
			c.Held(int(len(res.Paths)))
		}
		small := res
		small.Divs = nil
		c.Sample(small)
	}
	c.Require(int64(nBatches), 3)
}
