#!/usr/bin/env python3
"""Writes /verif/seeded/<id>/meta.json from the table below (kept here so the
catalogue can be regenerated and extended)."""
import json, os
T = {
 "C35-1": dict(property="C35", summary="checkCommandPermAll reads c.Credentials.Username directly (not the nil-safe getter); only the REQUEST handler uses it",
   needs="credential store configured AND a well-formed REQUEST command with a payload AND no Credentials field: nil dereference kills the process",
   demo="cluster/seed_c35_demo_test.go: go test -run Test_SeedC35 ./cluster/",
   caught_by="C35 quick (key crash:wellformed-unauthorized:REQUEST) - only after the check was strengthened with well-formed, payload-carrying commands under missing/empty/unknown/wrong credentials; the first version (nil payloads, random bytes, length prefixes) missed it"),
 "C11-1": dict(property="C11", summary="LockingStreamer.checkIdle takes l.mu only just before the force-close; the closed test and re-arm run lock-free",
   needs="Close() overlapping the idle timer firing (a window of a few instructions): the hold is released twice; with another stream open a reap then runs under it, otherwise the reader count goes negative",
   demo="snapshot/seed_c11_demo_test.go: go test -run Test_SeedC11 ./snapshot/",
   caught_by="C11 quick (key double-release: worker panicked 'reader count went negative'), 1 of 6 runs at seed 1; more runs in thorough"),
 "C01-1": dict(property="C01", summary="rewriter: strftime branch guard len(Args) > 1 tightened to == 2, so strftime(fmt,'now',modifier...) is no longer rewritten",
   needs="a write using strftime with at least one modifier, applied at two different times (restart replay, lagging follower, recovery, snapshot-installed node)",
   demo="store/seed_c01_demo_test.go: go test -run Test_SeedC01 ./store/",
   caught_by="C01 quick (key diverge:explicit:live-apply) - after the generator was extended with 0-2 modifier arguments on every date/time function; the first version (no modifiers on strftime) missed it",
   note="package tests of the touched packages (command/sql, http) pass; the full ./store/ run hit go test's 10-minute default timeout on the loaded machine"),
 "C31-1": dict(property="C31", summary="CheckAndSet.BeginWithRetry: exponential backoff without cap plus 'give up if the next sleep would end after the deadline'",
   needs="Close while the gate is held for 5.1-10 s: Close fails at about 5.1 s although the holder finishes before the 10 s limit (1.3-5.1 s holders only return late)",
   demo="store/seed_c31_demo_test.go: go test -run Test_SeedC31 ./store/",
   caught_by="C31 quick (key close-failed:holder-finished) - after a 7 s holder was added to the quick tier (it was thorough-only before); quick previously ended inconclusive for the 3 s holder"),
 "C38-1": dict(property="C38", summary="lastFSMIndexAtOrBefore scans down to dbAppliedIdx instead of fsmIdx",
   needs="a non-database-changing command (strong-read upgrade) as newest applied entry, then join/remove/barrier entries, then a snapshot that keeps exactly those trailing entries, then a linearizable read",
   demo="store/seed_c38_demo_test.go: go test -run Test_SeedC38 ./store/",
   caught_by="C38 quick (key lin-read-after:barrier:fsm-wait-timeout) - after log-truncating snapshot ops and directed motifs were added; the same strengthening exposed a hole in our own first C38 fix (compacted entries), repaired by a second fix commit",
   note="patch is against the tree before the second C38 fix; see meta 'rebased' field"),
 "C33-1": dict(property="C33", summary="RecoverNode: replay loop 'continue's on non-command entries (snapshot index stops at last command) and DeleteRange ends at that index",
   needs="a membership change at the log tail with no later write, shutdown without a covering snapshot, recovery with a peers file that differs from the logged configuration: the old membership is adopted",
   demo="store/seed_c33_demo_test.go: go test -run Test_SeedC33 ./store/",
   caught_by="C33 quick (key recover:config-mismatch) - after the history generator got a 'join a real non-voter process, kill it' op; the first version had no membership changes and missed it"),
 "C03-1": dict(property="C03", summary="plan.Executor.Checkpoint: the 'no listed WAL exists, return 0' early exit moved above the block that finishes a leftover data.db-wal",
   needs="reap of 3+ incrementals interrupted after the rename of the last WAL and before its checkpoint; the resumed plan skips that WAL; writes of the last incremental are lost when the node rebuilds from the snapshot store",
   demo="store/seed_c03_demo_test.go (build tag verif): go test -tags verif -run Test_SeedC03 ./store/",
   caught_by="C03 quick (key state-mismatch:rebuild:fsm.apply.entry: w8 missing after rebuild) without changes"),
 "C22-1": dict(property="C22", summary="Store.ReadFrom (boot) calls Snapshot(0) instead of Snapshot(1): the pre-boot log is not truncated",
   needs="a boot, an uncompacted log, and a node joining afterwards: the joiner replays the log from index 1 and rebuilds the pre-boot database",
   demo="store/seed_c22_demo_test.go: go test -run Test_SeedC22 ./store/",
   caught_by="C22 quick (key state-mismatch-after:join-plain) - after single-node histories got 'boot then plain late join' (the join op used to truncate logs first, and boots never met joins); first version missed it"),
 "C04-1": dict(property="C04", summary="fsmApply no longer sets FULL_NEEDED after a LOAD, relying on dbModified()",
   needs="existing snapshot, load, then the first post-load snapshot is skipped/failed (or the load is applied by a freshly restarted process), a write, a normal snapshot (wrongly incremental), then a rebuild from the store",
   demo="store/seed_c04_demo_test.go: go test -run Test_SeedC04 ./store/",
   caught_by="C04 quick (key rebuild-mismatch:...load...: rebuilt database malformed) - after load motifs (load + skipped persist, load after restart) were added and an unreadable rebuilt database was classified as a violation instead of inconclusive"),
 "C02-1": dict(property="C02", summary="Store.Query strong path stores strongReadTerm before raft.Apply instead of after the strong read committed",
   needs="leader change to a node that has an acknowledged write in its log but does not know it is committed, and two concurrent linearizable reads inside the window before that leader commits its first entry",
   demo="store/seed_c02_demo_test.go: go test -run Test_SeedC02 ./store/",
   caught_by="see DESIGN.md Appendix D"),
}

T.update({
 "C24-1": dict(property="C24", summary="Queue.Write releases seqMu before a blocking send when the batch channel is full",
   needs=">= 2 concurrent writers, queue at maxSize at the moment of the write, second writer slipping between Unlock and the channel send: write order / batch sequence numbers go backwards",
   demo="queue/seed_c24_demo_test.go: go test -run Test_SeedC24 ./queue/",
   caught_by="C24 quick without changes (keys order:not-write-order, batch:seq-not-increasing; 760 violations)"),
 "C34-1": dict(property="C34", summary="MultiRSW.BeginWriteBlocking split into two sequential wait loops; owner not re-checked after readers drain",
   needs="one reader holding the lock and two blocked writers (or a blocked writer plus a non-blocking BeginWrite) when the reader leaves: two writers hold the lock",
   demo="internal/rsync/seed_c34_demo_test.go: go test -run Test_SeedC34 ./internal/rsync/",
   caught_by="C34 quick without changes (keys mrsw:two-writers, mrsw:occupancy, mrsw:reader-with-writer, mrsw:panic)"),
 "C07-1": dict(property="C07", summary="plan.Executor.Checkpoint: leftover data.db-wal handling moved below the 'no WAL left' early return",
   needs="crash inside the multi-WAL checkpoint exactly at the last WAL (after its rename, before CheckpointRemove), then restart: the newest snapshot silently loses that WAL's data",
   demo="snapshot/seed_c07_demo_test.go: go test -run Test_SeedC07 ./snapshot/",
   caught_by="C07 quick without changes (keys restored-content-changed:after=plan.ckpt.after_rename and later points)"),
 "C08-1": dict(property="C08", summary="Upgrade8To10 resume decides completion with LastOpDone (last op is RemoveAll(old), commit point is the rename before it)",
   needs="crash after the plan's rename and before the old directory is removed, then restart: the replay fails with 'file exists' on every start",
   demo="snapshot/seed_c08_demo_test.go: go test -run Test_SeedC08 ./snapshot/",
   caught_by="C08 quick without changes (key restart-fails:upgrade8to10:resume-after-rename:old-dir-present - the key of the defect fixed earlier, reported as VIOLATION again because fixed entries suppress nothing)"),
 "C14-1": dict(property="C14", summary="Rewriter.Visit returns a nil visitor on OrderingTerm, so date/time calls at 'now' inside ORDER BY are not rewritten",
   needs="a date/time function with a 'now' time value inside an ORDER BY term (SELECT, sub-select, DELETE..ORDER BY..LIMIT, window OVER (ORDER BY ...))",
   demo="command/sql/seed_c14_demo_test.go: go test -run Test_SeedC14 ./command/sql/",
   caught_by="C14 quick (keys nondeterministic:date/now@orderby, @winorder) - after ORDER BY positions were rendered as row-and-clock dependent terms (ts < date('now')); the first version used a per-statement constant term that could not change the row order and missed it"),
 "C15-1": dict(property="C15", summary="IsBreakingPragma fast path requires a plain space after the PRAGMA keyword",
   needs="a protected PRAGMA whose keyword is followed by a tab / newline / CR / form feed",
   demo="db/seed_c15_demo_test.go: go test -run Test_SeedC15 ./db/",
   caught_by="C15 quick without changes (keys bypass:<pragma>:plain@execute|@ro-connection...)"),
 "C16-1": dict(property="C16", summary="Store.isStaleRead passes raft's AppliedIndex (handed to the FSM) instead of the FSM index to the staleness rule",
   needs="none + freshness + strict read on a follower in contact with the leader while a committed command is handed to but not yet applied by the FSM and the last applied entry lagged more than the bound",
   demo="store/seed_c16_demo_test.go: go test -run Test_SeedC16 ./store/",
   caught_by="C16 quick without changes (keys none:stale-served:strict-behind-lag-over-bound:follower|nonvoter)"),
 "C32-1": dict(property="C32", summary="Store.Join 'continue's instead of removing first when the same ID re-joins at a new address",
   needs="a voter re-joining with a new address and asking, in the same join, to become a non-voter: acknowledged but still a voter",
   demo="store/seed_c32_demo_test.go: go test -run Test_SeedC32 ./store/",
   caught_by="C32 quick without changes (join-ack:wrong-suffrage keys)"),
 "C13-1": dict(property="C13", summary="executeWithConn.handleError no longer stops after the ROLLBACK issued for RollbackOnError",
   needs="RollbackOnError without Transaction on the execute path, a multi-statement request with a failing statement followed by another write",
   demo="db/seed_c13_demo_test.go: go test -run Test_SeedC13 ./db/",
   caught_by="C13 quick without changes (151 violations)"),
})

root='/verif/seeded'
for k,v in T.items():
    d=os.path.join(root,k)
    if not os.path.isdir(d): continue
    ran={}
    for n in ['build.log','pkgtest_with_change.log','demo_with_change.log','demo_without_change.log']:
        p=os.path.join(d,n)
        if os.path.exists(p):
            t=open(p,errors='replace').read().strip().splitlines()
            ran[n]=t[-1] if t else ''
    v=dict(v); v['id']=k; v['confirmed_in_scratch_worktree']=ran
    json.dump(v,open(os.path.join(d,'meta.json'),'w'),indent=1)
print(sorted(os.listdir(root)))
