package main

import _ "verif/checks/c20"
