// Package c07: reaping snapshots is crash-safe (DESIGN §6 C07).
//
// Crash-point enumeration: a snapshot store is generated through the real
// snapshot API, Store.Reap() is run once in a child with VERIF_TRACE to learn
// the hook hits, then for every hit number n a fresh child reaps a fresh copy
// of the same store with VERIF_CRASH_N=n (process-crash model: the child exits
// at the hook, completed writes stay). A second child opens the store again
// (snapshot.NewStore runs check() and the resume) — optionally crashed again
// at each of its own hook hits — and a last child opens it for good, restores
// the newest snapshot and the driver compares (index, term) and the logical
// dump with what the store resolved to before the reap.
package c07

import (
	"crypto/sha256"
	"encoding/hex"
	"encoding/json"
	"fmt"
	"os"
	"path/filepath"
	"sort"
	"strings"
	"sync"
	"time"

	"verif/internal/sqlref"
	"verif/internal/vf"
)

func init() { vf.Register("C07", "fault_enumeration", run) }

const childTimeout = 90 * time.Second

type shapeRun struct {
	sh       Shape
	dir      string
	pristine string // <dir>/pristine/store
	gen      GenResult
	pre      Resolved
	preDump  *sqlref.Dump
	trace    []TraceLine
	reapRes  OpResult
	depth    int
	mu       sync.Mutex
	seen     map[string]*stateInfo
}

// Case identifies one enumerated crash case.
type Case struct {
	Shape Shape `json:"shape"`
	// Path[0] is the hook hit of Store.Reap() at which the first child exits,
	// Path[i>0] the hook hit of the i-th recovering snapshot.NewStore.
	Path   []int    `json:"crash_path"`
	Points []string `json:"points,omitempty"`
}

type driver struct {
	c      *vf.Ctx
	root   string
	mu     sync.Mutex
	pts    map[string]int64
	replay bool
	bin    string // private copy of the running binary, used for all children
}

func (d *driver) child(logPath string, env []string, args ...string) ([]byte, int, bool) {
	if f, err := os.OpenFile(logPath, os.O_CREATE|os.O_WRONLY|os.O_APPEND, 0644); err == nil {
		fmt.Fprintf(f, "--- child: c07 %s env=%v\n", strings.Join(args, " "), env)
		f.Close()
	}
	env = append([]string{"GOMAXPROCS=2"}, env...)
	return vf.RunOnce(d.bin, append([]string{"worker", "c07"}, args...), env, logPath, childTimeout)
}

func parseJSON[T any](out []byte) (T, bool) {
	var v T
	lines := strings.Split(strings.TrimSpace(string(out)), "\n")
	if len(lines) == 0 || lines[len(lines)-1] == "" {
		return v, false
	}
	if err := json.Unmarshal([]byte(lines[len(lines)-1]), &v); err != nil {
		return v, false
	}
	return v, true
}

func randShape(r interface{ IntN(int) int }, seed uint64) Shape {
	ng := 1 + r.IntN(3)
	sh := Shape{Seed: seed}
	for i := 0; i < ng; i++ {
		g := Group{FullWALs: r.IntN(3)}
		ni := r.IntN(5)
		if i < ng-1 {
			ni = r.IntN(2) // older groups stay small
		}
		for j := 0; j < ni; j++ {
			g.Incs = append(g.Incs, 1+r.IntN(3))
		}
		sh.Groups = append(sh.Groups, g)
	}
	if len(sh.Groups) == 1 && len(sh.Groups[0].Incs) == 0 {
		sh.Groups[0].Incs = []int{1 + r.IntN(3)} // a lone full snapshot gives Reap nothing to do
	}
	return sh
}

// numberAcross gives the snapshots of sh explicit Raft positions such that the
// identifiers of the set a reap consolidates (newest full + its incrementals)
// change their number of decimal digits inside that set: either the index
// steps over a power of ten (…8, 9, 10, 11…) or the term does (9 -> 10,
// 99 -> 100). Snapshot directory names are <term>-<index>-<msec> without
// padding, so for these stores lexical name order != chronological order.
func numberAcross(sh Shape, r interface{ IntN(int) int }, term bool) Shape {
	n := sh.NSnaps()
	k := n - 1 - len(sh.Groups[len(sh.Groups)-1].Incs) // position of the newest full
	pow := uint64(10)
	for i := r.IntN(3); i > 0; i-- {
		pow *= 10
	}
	sh.Numbering = make([]IndexTerm, n)
	if !term {
		// The step over pow lies between two incrementals (full at pow-2), or,
		// when the full carries WALs of its own, possibly between the full and
		// its first incremental: WAL files on both sides of the step are reaped.
		full := pow - 2
		if sh.Groups[len(sh.Groups)-1].FullWALs > 0 {
			full += uint64(r.IntN(2))
		}
		t := 1 + uint64(r.IntN(5))
		for i := range sh.Numbering {
			sh.Numbering[i] = IndexTerm{Index: full - uint64(k) + uint64(i), Term: t}
		}
		return sh
	}
	if pow > 100 {
		pow = 100
	}
	idx := 10 + uint64(r.IntN(1000))
	// The term steps over pow at the 2nd incremental, or (when the full carries
	// WALs of its own, which are consolidated too) at the 1st or 2nd: in both
	// cases WAL files of the old and of the new term are in the reaped set.
	rise := k + 2
	if sh.Groups[len(sh.Groups)-1].FullWALs > 0 {
		rise = k + 1 + r.IntN(2)
	}
	for i := range sh.Numbering {
		idx += 1 + uint64(r.IntN(40))
		t := pow - 1
		if i >= rise {
			t = pow
		}
		sh.Numbering[i] = IndexTerm{Index: idx, Term: t}
	}
	return sh
}

func shapes(c *vf.Ctx) []Shape {
	r := c.Rand(1)
	seed := func() uint64 { return r.Uint64() >> 1 }
	r2 := c.Rand(2) // separate stream: the shapes drawn from r stay what they were
	seed2 := func() uint64 { return r2.Uint64() >> 1 }
	var out []Shape
	rounds := c.N(1, 3)
	for i := 0; i < rounds; i++ {
		// identifiers that change their digit count inside the reaped set:
		// index over a power of ten (lone full + incrementals) ...
		out = append(out, numberAcross(Shape{Seed: seed2(), Groups: []Group{{FullWALs: r2.IntN(2), Incs: []int{1 + r2.IntN(2), 1 + r2.IntN(2), 1}}}}, r2, false))
		// ... and term 9 -> 10 / 99 -> 100 (older full + newest full + incrementals)
		out = append(out, numberAcross(Shape{Seed: seed2(), Groups: []Group{{}, {FullWALs: r2.IntN(2), Incs: []int{1 + r2.IntN(2), 1 + r2.IntN(2)}}}}, r2, true))
		// only older snapshots to drop: plan = remove_all ops
		older := []Group{{}}
		if r.IntN(2) == 0 {
			older = append(older, Group{Incs: []int{1 + r.IntN(2)}})
		}
		out = append(out, Shape{Seed: seed(), Groups: append(older, Group{})})
		// lone full + incrementals
		out = append(out, Shape{Seed: seed(), Groups: []Group{{Incs: []int{1 + r.IntN(3), 1 + r.IntN(3)}}}})
		// older full + newest full that carries its own WALs, nothing newer
		out = append(out, Shape{Seed: seed(), Groups: []Group{{}, {FullWALs: 1 + r.IntN(2)}}})
		// everything at once
		out = append(out, Shape{Seed: seed(), Groups: []Group{{Incs: []int{1}}, {FullWALs: 1 + r.IntN(2), Incs: []int{1 + r.IntN(3), 1 + r.IntN(3), 1}}}})
	}
	total := c.N(8, 26)
	for len(out) < total {
		out = append(out, randShape(r, seed()))
	}
	return out
}

func (d *driver) prepare(sr *shapeRun) error {
	c := d.c
	os.MkdirAll(sr.dir, 0755)
	logp := filepath.Join(sr.dir, "gen.log")
	sj, _ := json.Marshal(sr.sh)
	sp := filepath.Join(sr.dir, "shape.json")
	os.WriteFile(sp, sj, 0644)
	pdir := filepath.Join(sr.dir, "pristine")
	out, code, ok := d.child(logp, nil, "gen", sp, pdir)
	g, jok := parseJSON[GenResult](out)
	if !ok || code != 0 || !jok || !g.OK {
		return fmt.Errorf("generator failed (code %d, timely %v): %s %s", code, ok, g.Err, Tail(logp, 600))
	}
	sr.gen = g
	sr.pristine = filepath.Join(pdir, "store")

	// What the store resolves to before the reap (on a private copy).
	bdir := filepath.Join(sr.dir, "baseline")
	if err := ResetDir(sr.pristine, filepath.Join(bdir, "store"), sqlref.CopyTree); err != nil {
		return err
	}
	out, code, ok = d.child(logp, nil, "resolve", filepath.Join(bdir, "store"), filepath.Join(bdir, "out.db"))
	pre, jok := parseJSON[Resolved](out)
	if !ok || code != 0 || !jok || !pre.OK {
		return fmt.Errorf("baseline resolve failed (code %d): %s/%s %s", code, pre.Stage, pre.Err, Tail(logp, 600))
	}
	sr.pre = pre
	dump, err := sqlref.DumpFile(filepath.Join(bdir, "out.db"))
	if err != nil {
		return fmt.Errorf("baseline dump: %w", err)
	}
	sr.preDump = dump
	truth, err := sqlref.DumpFile(filepath.Join(pdir, "truth.db"))
	if err != nil {
		return fmt.Errorf("truth dump: %w", err)
	}
	last := g.Snaps[len(g.Snaps)-1]
	if pre.Index != last.Index || pre.Term != last.Term || truth.Hash() != dump.Hash() {
		c.Violation("baseline:newest-snapshot-differs-from-source", fmt.Sprintf(
			"before any reap the newest snapshot of shape %s resolves to (%d,%d) / dump %s but the source database was (%d,%d) / dump %s: %s",
			sr.sh.Key(), pre.Index, pre.Term, dump.Hash(), last.Index, last.Term, truth.Hash(), sqlref.Diff(truth, dump)), Case{Shape: sr.sh})
		return fmt.Errorf("baseline mismatch")
	}
	os.RemoveAll(bdir)

	// Recording run of the operation.
	rdir := filepath.Join(sr.dir, "record")
	if err := ResetDir(sr.pristine, filepath.Join(rdir, "store"), sqlref.CopyTree); err != nil {
		return err
	}
	tr := filepath.Join(rdir, "trace")
	out, code, ok = d.child(logp, []string{"VERIF_TRACE=" + tr}, "reap", filepath.Join(rdir, "store"))
	rr, jok := parseJSON[OpResult](out)
	if !ok || code != 0 || !jok {
		return fmt.Errorf("recording reap died (code %d): %s", code, Tail(logp, 600))
	}
	sr.reapRes = rr
	sr.trace, _ = ReadTrace(tr)
	c.Eval(1)
	if !rr.OK {
		c.Violation("reap:fails-without-crash", fmt.Sprintf("Reap() of shape %s failed without any fault: %s", sr.sh.Key(), rr.Err), Case{Shape: sr.sh})
		return fmt.Errorf("reap failed")
	}
	if key, what, _ := d.judge(sr, filepath.Join(rdir, "store"), rdir, logp); key != "" {
		c.Violation("no-crash:"+key, fmt.Sprintf("shape %s, uninterrupted Reap(): %s", sr.sh.Key(), what), Case{Shape: sr.sh})
	} else {
		c.Held(1)
	}
	os.RemoveAll(rdir)
	return nil
}

// judge performs the next start on store in a child (snapshot.NewStore, which
// runs check() and any resume, then List, Open, Restore) and evaluates the
// oracle. It returns ("", "") when the property held, and the number of hook
// hits made by the recovering NewStore (those before the first stream.* hit).
func (d *driver) judge(sr *shapeRun, store, scratch, logp string) (key, what string, hits int) {
	outDB := filepath.Join(scratch, "out.db")
	os.Remove(outDB)
	tr := filepath.Join(scratch, "trace-judge")
	os.Remove(tr)
	out, code, ok := d.child(logp, []string{"VERIF_TRACE=" + tr}, "resolve", store, outDB)
	if !ok {
		return "inconclusive", "final open timed out", 0
	}
	lines, _ := ReadTrace(tr)
	for _, l := range lines {
		if strings.HasPrefix(l.Name, "stream.") {
			break
		}
		hits++
	}
	res, jok := parseJSON[Resolved](out)
	if code == 2 && strings.Contains(Tail(logp, 300), "unknown worker") {
		return "inconclusive", "child binary has no c07 worker", hits
	}
	if code != 0 || !jok {
		return "open-dies", fmt.Sprintf("the process opening the store exited with code %d: %s", code, Tail(logp, 500)), hits
	}
	if !res.OK {
		return res.Stage + "-fails", fmt.Sprintf("%s failed: %s", res.Stage, res.Err), hits
	}
	if res.Index != sr.pre.Index || res.Term != sr.pre.Term {
		return "newest-index-term-changed", fmt.Sprintf("newest snapshot is (index %d, term %d), before the reap it was (%d, %d)", res.Index, res.Term, sr.pre.Index, sr.pre.Term), hits
	}
	dump, err := sqlref.DumpFile(outDB)
	if err != nil {
		return "restored-db-unreadable", fmt.Sprintf("restored database cannot be dumped: %v", err), hits
	}
	if dump.Hash() != sr.preDump.Hash() {
		return "restored-content-changed", "database restored from the newest snapshot differs from before the reap: " + sqlref.Diff(sr.preDump, dump), hits
	}
	if lo := Leftovers(store); len(lo) > 0 {
		return "leftover-after-open", fmt.Sprintf("after a successful open the store still holds %v", lo), hits
	}
	return "", "", hits
}

func readPlanOps(store string) []string {
	b, err := os.ReadFile(filepath.Join(store, "REAP_PLAN"))
	if err != nil {
		return nil
	}
	var p struct {
		Ops []struct {
			Type string `json:"type"`
		} `json:"ops"`
	}
	if json.Unmarshal(b, &p) != nil {
		return nil
	}
	var out []string
	for _, o := range p.Ops {
		out = append(out, o.Type)
	}
	return out
}

// label turns "plan.op.after#3" into "plan.op.after[checkpoint]" style names
// (op type instead of ordinal, so keys are about the kind of point).
func label(crashed string, ops []string, opBase int) string {
	name, hit, _ := strings.Cut(crashed, "#")
	if name == "plan.op.before" || name == "plan.op.after" {
		var k int
		fmt.Sscan(hit, &k)
		k -= opBase
		if k >= 1 && k <= len(ops) {
			return name + "[" + ops[k-1] + "]"
		}
	}
	return name
}

func (d *driver) countPoint(p string) {
	d.mu.Lock()
	d.pts[p]++
	d.mu.Unlock()
}

// stateInfo is what is known about one distinct on-disk state of a shape.
type stateInfo struct {
	ready    chan struct{} // closed once the verdict of an open from this state is known
	key      string
	hits     int // hook hits of the recovering snapshot.NewStore
	expanded int // largest remaining crash depth this state was expanded with
}

// treeHash identifies the on-disk state of a store directory: names and file
// contents, with the things that differ between two runs of the same reap
// normalised away: the absolute location W (embedded in REAP_PLAN) and the
// millisecond timestamp inside the ID chosen for the consolidated snapshot.
func treeHash(W string) string {
	newID := ""
	if b, err := os.ReadFile(filepath.Join(W, "REAP_PLAN")); err == nil {
		var p struct {
			Ops []struct {
				Type string `json:"type"`
				Dst  string `json:"dst"`
			} `json:"ops"`
		}
		if json.Unmarshal(b, &p) == nil && len(p.Ops) > 0 && p.Ops[len(p.Ops)-1].Type == "rename" {
			newID = filepath.Base(p.Ops[len(p.Ops)-1].Dst)
		}
	}
	norm := func(x string) string {
		x = strings.ReplaceAll(x, W, "@W@")
		if newID != "" {
			x = strings.ReplaceAll(x, newID, "@NEWID@")
		}
		return x
	}
	var lines []string
	filepath.Walk(W, func(p string, info os.FileInfo, err error) error {
		if err != nil {
			return nil
		}
		rel, _ := filepath.Rel(W, p)
		if info.IsDir() {
			lines = append(lines, "D "+norm(rel))
			return nil
		}
		if strings.HasSuffix(p, "-shm") {
			return nil // SQLite shared-memory index, rebuilt on open
		}
		b, _ := os.ReadFile(p)
		base := filepath.Base(p)
		if strings.HasPrefix(base, "REAP_PLAN") || base == "meta.json" {
			b = []byte(norm(string(b)))
		}
		lines = append(lines, fmt.Sprintf("F %s %x", norm(rel), sha256.Sum256(b)))
		return nil
	})
	sort.Strings(lines)
	h := sha256.Sum256([]byte(strings.Join(lines, "\n")))
	return hex.EncodeToString(h[:12])
}

// explore enumerates the crashes of one step: level 1 crashes Store.Reap() on a
// copy of the pristine store, deeper levels crash the recovering
// snapshot.NewStore on a copy of the previously crashed state. An open depends
// on nothing but the directory contents, so a crashed state already seen for
// this shape inherits its verdict and is expanded again only if more crash
// depth remains than when it was expanded before.
func (d *driver) explore(sr *shapeRun, W, cdir, state string, hits int, path []int, points []string, only []int) {
	c := d.c
	logp := filepath.Join(cdir, "log")
	level := len(path) + 1
	op := "reap"
	if level > 1 {
		op = "open"
	}
	var ns []int
	switch {
	case len(only) > 0:
		ns = []int{only[0]}
	case level > 1 && c.Quick() && hits > 2:
		// quick: two seeded crash points of the recovery run per state
		r := c.Rand(uint64(path[0])*7919 + sr.sh.Seed%1000)
		a := 1 + r.IntN(hits)
		b := 1 + r.IntN(hits-1)
		if b >= a {
			b++
		}
		ns = []int{a, b}
		sort.Ints(ns)
	default:
		for n := 1; n <= hits; n++ {
			ns = append(ns, n)
		}
	}
	for _, n := range ns {
		if err := ResetDir(state, W, sqlref.CopyTree); err != nil {
			c.Inconclusive("copy failed: " + err.Error())
			return
		}
		tr := filepath.Join(cdir, fmt.Sprintf("trace-l%d", level))
		os.Remove(tr)
		_, code, ok := d.child(logp, []string{fmt.Sprintf("VERIF_CRASH_N=%d", n), "VERIF_TRACE=" + tr}, op, W)
		c.Eval(1)
		if !ok {
			c.Inconclusive(op + " child timed out")
			continue
		}
		if code != 197 {
			c.Inconclusive(fmt.Sprintf("%s crash point not reached (exit %d)", op, code))
			continue
		}
		_, crashed := ReadTrace(tr)
		ops := readPlanOps(W)
		p := label(crashed, ops, 0)
		d.countPoint(fmt.Sprintf("L%d-%s:%s", level, op, p))
		c.Count(fmt.Sprintf("crashes_level_%d", level), 1)
		npath := append(append([]int{}, path...), n)
		npoints := append(append([]string{}, points...), p)
		cs := Case{Shape: sr.sh, Path: npath, Points: npoints}
		c.Nontrivial(fmt.Sprintf("%s/%v", sr.sh.Key(), npath))

		remaining := sr.depth - level
		hash := treeHash(W)
		sr.mu.Lock()
		info := sr.seen[hash]
		claimed := info == nil
		if claimed {
			info = &stateInfo{ready: make(chan struct{}), expanded: -1}
			sr.seen[hash] = info
		}
		sr.mu.Unlock()
		if d.replay {
			claimed = true
		}
		next := filepath.Join(cdir, fmt.Sprintf("state-l%d", level))
		if remaining > 0 {
			if err := ResetDir(W, next, sqlref.CopyTree); err != nil {
				c.Inconclusive("copy failed: " + err.Error())
				if claimed && !d.replay {
					info.key = "inconclusive"
					close(info.ready)
				}
				continue
			}
		}
		if claimed {
			key, what, h := d.judge(sr, W, cdir, logp)
			info.key, info.hits = key, h
			if !d.replay {
				close(info.ready)
			}
			c.Count("distinct_states_judged", 1)
			c.Count("recovery_hook_hits", int64(h))
			switch {
			case key == "inconclusive":
				c.Inconclusive(what)
			case key != "":
				c.Violation(key+":after="+p, fmt.Sprintf("shape %s, crashes at %v (hits %v): %s", sr.sh.Key(), npoints, npath, what), cs)
			default:
				c.Held(1)
			}
			c.Sample(map[string]any{"shape": sr.sh.Key(), "snapshots": sr.gen.Snaps, "plan_ops": ops, "crash_path": npath, "points": npoints, "recovery_hook_hits": h, "reap_hook_hits": len(sr.trace)})
		} else {
			<-info.ready
			c.Count("verdict_inherited_from_identical_state", 1)
			if info.key == "" {
				c.Held(1)
			}
		}
		if remaining <= 0 {
			continue
		}
		sr.mu.Lock()
		expand := info.expanded < remaining || d.replay
		if expand {
			info.expanded = remaining
		}
		sr.mu.Unlock()
		if !expand {
			c.Count("subtrees_pruned_identical_state", 1)
			continue
		}
		var o []int
		if len(only) > 1 {
			o = only[1:]
		}
		d.explore(sr, W, cdir, next, info.hits, npath, npoints, o)
	}
}

func run(c *vf.Ctx) {
	c.Rule("case = (store shape, hook hit n of Store.Reap() at which the process exits[, hook hit m of the recovering snapshot.NewStore at which it exits again]). Shapes are built through the real snapshot API from a live WAL-mode database (full snapshots streamed by NewSnapshotStreamer, optionally carrying 1-2 own WALs; incrementals of 1-3 compacted WALs moved in via staging dir + NewSnapshotPathStreamer): 0-2 older groups, newest full, 0-4 incrementals. Raft (index, term) of the snapshots are drawn from the seed (index from 10..1010 rising by 1..40), and per round two shapes are numbered explicitly so that the identifiers of the reaped set change their digit count inside the set (index stepping by one over 10/100/1000, term stepping 9->10 or 99->100: directory-name order != creation order). Every hook hit of the recorded reap is a first-level case; thorough crashes the recovery run at every one of its hits too, quick at one seeded hit. Non-trivial = the child really exited (code 197) at the chosen hit of a reap that had a non-empty plan; distinct by (shape, n, m)")
	c.Assume("process-crash model: the process stops at a hook point, all writes issued before it are kept (no torn or lost writes, no power loss)")
	c.Assume("crash points are the vhook points in snapshot/store.go, snapshot/plan/plan.go and snapshot/plan/executor.go (before/after every plan op, after each WAL rename and each CheckpointRemove, around plan write/removal); code between two hooks is treated as atomic")
	c.Assume("sqlref logical dump (schema + typed rows + user_version/application_id) decides 'same database content'")

	root := vf.TempDir("c07")
	defer os.RemoveAll(root)
	d := &driver{c: c, root: root, pts: map[string]int64{}}
	bin, err := PrivateBin(root)
	if err != nil {
		c.Logf("cannot copy own binary: %v", err)
		c.Inconclusive("cannot copy own binary")
		return
	}
	d.bin = bin

	if c.ReplayFile != "" {
		var rp struct {
			Case Case `json:"case"`
		}
		b, err := os.ReadFile(c.ReplayFile)
		if err == nil {
			err = json.Unmarshal(b, &rp)
		}
		if err != nil {
			c.Logf("replay: %v", err)
			return
		}
		d.replay = true
		sr := &shapeRun{sh: rp.Case.Shape, dir: filepath.Join(root, "replay"), depth: len(rp.Case.Path), seen: map[string]*stateInfo{}}
		if err := d.prepare(sr); err != nil {
			c.Logf("replay prepare: %v", err)
			return
		}
		if len(rp.Case.Path) > 0 {
			cdir := filepath.Join(sr.dir, "sub")
			os.MkdirAll(cdir, 0755)
			d.explore(sr, filepath.Join(cdir, "store"), cdir, sr.pristine, len(sr.trace), nil, nil, rp.Case.Path)
		}
		c.Require(1, 0)
		return
	}

	shs := shapes(c)
	par := c.N(8, 12)
	var runs []*shapeRun
	for i, sh := range shs {
		runs = append(runs, &shapeRun{sh: sh, dir: filepath.Join(root, fmt.Sprintf("s%02d", i)), depth: c.N(2, 3), seen: map[string]*stateInfo{}})
	}
	// generate + record (parallel)
	sem := make(chan struct{}, par)
	var wg sync.WaitGroup
	okRun := make([]bool, len(runs))
	for i, sr := range runs {
		wg.Add(1)
		sem <- struct{}{}
		go func() {
			defer wg.Done()
			defer func() { <-sem }()
			if err := d.prepare(sr); err != nil {
				c.Logf("shape %s: %v", sr.sh.Key(), err)
				c.Inconclusive("shape preparation failed")
				return
			}
			okRun[i] = true
		}()
	}
	wg.Wait()
	type task struct {
		sr *shapeRun
		n  int
	}
	var tasks []task
	totalHits := 0
	for i, sr := range runs {
		if !okRun[i] {
			continue
		}
		c.Count("shapes", 1)
		c.Count("snapshots_generated", int64(len(sr.gen.Snaps)))
		c.Count("sql_statements", int64(sr.gen.Stmts))
		c.Count("snapshots_reaped_recording", int64(sr.reapRes.Reaped))
		c.Count("wals_checkpointed_recording", int64(sr.reapRes.Checkpointed))
		totalHits += len(sr.trace)
		for n := 1; n <= len(sr.trace); n++ {
			tasks = append(tasks, task{sr, n})
		}
	}
	c.Count("reap_hook_hits_recorded", int64(totalHits))
	c.Logf("%d shapes prepared, %d first-level crash points", len(runs), len(tasks))
	ch := make(chan task)
	for w := 0; w < par; w++ {
		wg.Add(1)
		go func() {
			defer wg.Done()
			for t := range ch {
				cdir := filepath.Join(t.sr.dir, fmt.Sprintf("n%03d", t.n))
				os.MkdirAll(cdir, 0755)
				d.explore(t.sr, filepath.Join(cdir, "store"), cdir, t.sr.pristine, len(t.sr.trace), nil, nil, []int{t.n})
				os.RemoveAll(cdir)
			}
		}()
	}
	for i, t := range tasks {
		ch <- t
		if i%50 == 49 {
			c.Logf("first-level %d/%d", i+1, len(tasks))
		}
	}
	close(ch)
	wg.Wait()

	var names []string
	for k := range d.pts {
		names = append(names, k)
	}
	sort.Strings(names)
	pts := map[string]int64{}
	for _, k := range names {
		pts[k] = d.pts[k]
	}
	c.Extra("crash_points_hit", pts)
	var keys []string
	for _, sh := range shs {
		keys = append(keys, sh.Key())
	}
	c.Extra("shapes", keys)
	c.Require(int64(c.N(60, 2000)), c.N(50, 1500))
}
