package c17

// SQL text generator for C17. Every write statement carries a token unique to
// the text so that, if it is executed at all, the logical dump changes.

import (
	"fmt"
	"math/rand/v2"
	"strings"
)

// Text is one generated SQL text.
type Text struct {
	No      int    `json:"no"`
	Family  string `json:"family"`
	SQL     string `json:"sql"`
	Params  []any  `json:"params,omitempty"` // JSON values following the SQL text (an object = named parameters)
	Control bool   `json:"control,omitempty"`
	TxnCtl  bool   `json:"txn_ctl,omitempty"` // contains BEGIN/SAVEPOINT: the harness rolls back afterwards
	// First names the kind of the first statement when the text is "a statement
	// SQLite calls read-only, followed by a write" (used for the finding key).
	First string `json:"first,omitempty"`
	// Pre holds statements sent as separate elements of the same request, before
	// SQL (so the request is the array [Pre..., SQL]).
	Pre []string `json:"pre,omitempty"`
}

// Seed schema and data (applied through /db/execute, i.e. through the log).
var seedSQL = []string{
	`CREATE TABLE t1(id INTEGER PRIMARY KEY, v TEXT, n INTEGER)`,
	`CREATE TABLE t2(k TEXT PRIMARY KEY, v BLOB, w REAL) WITHOUT ROWID`,
	`CREATE TABLE audit(id INTEGER PRIMARY KEY, what TEXT)`,
	`CREATE INDEX t1_n ON t1(n)`,
	`CREATE VIEW v1 AS SELECT id, v FROM t1 WHERE n > 5`,
	`CREATE TRIGGER t1_ins AFTER INSERT ON t1 BEGIN INSERT INTO audit(what) VALUES('ins ' || new.id); END`,
	`PRAGMA user_version = 7`,
	`PRAGMA application_id = 1234`,
}

func seedRows(from, n int) []string {
	var out []string
	for i := from; i < from+n; i++ {
		out = append(out, fmt.Sprintf(`INSERT INTO t1(v,n) VALUES('seed%d', %d)`, i, i%17))
	}
	return out
}

func seedT2() []string {
	var out []string
	for i := 0; i < 10; i++ {
		out = append(out, fmt.Sprintf(`INSERT INTO t2(k,v,w) VALUES('k%d', x'%02x%02x', %d.25)`, i, i, 255-i, i))
	}
	return out
}

// writes returns a statement that changes the logical dump whenever it runs.
func writeStmt(r *rand.Rand, no int) string {
	u := fmt.Sprintf("%d_%d", no, r.IntN(1000))
	switch r.IntN(14) {
	case 0, 1, 2, 3:
		return fmt.Sprintf("INSERT INTO t1(v,n) VALUES('w%s', %d)", u, no%100)
	case 4:
		return "UPDATE t1 SET n = n + 1 WHERE id = (SELECT min(id) FROM t1)"
	case 5:
		return "DELETE FROM t1 WHERE id = (SELECT max(id) FROM t1)"
	case 6:
		return fmt.Sprintf("CREATE TABLE nt_%s(a, b)", u)
	case 7:
		return fmt.Sprintf("CREATE INDEX ix_%s ON t1(v)", u)
	case 8:
		return fmt.Sprintf("ALTER TABLE audit ADD COLUMN c%s", u)
	case 9:
		return fmt.Sprintf("PRAGMA user_version = %d", 1000+no*7+r.IntN(7))
	case 10:
		return fmt.Sprintf("PRAGMA application_id = %d", 5000+no*7+r.IntN(7))
	case 11:
		return fmt.Sprintf("REPLACE INTO t2(k,v,w) VALUES('r%s', NULL, 0.5)", u)
	case 12:
		return fmt.Sprintf("INSERT INTO t1(v,n) SELECT v || '_c%s', n FROM t1 LIMIT 2", u)
	default:
		return fmt.Sprintf("INSERT INTO audit(what) VALUES('a%s')", u)
	}
}

// roStmt returns a statement SQLite calls read-only.
func roStmt(r *rand.Rand, no int) (string, string) {
	switch r.IntN(16) {
	case 0, 1, 2:
		return "SELECT 1", "select"
	case 3:
		return "SELECT count(*) FROM t1", "select"
	case 4:
		return "SELECT * FROM t1 WHERE n > 3 ORDER BY id LIMIT 5", "select"
	case 5:
		return "WITH c(x) AS (VALUES(1),(2)) SELECT x FROM c", "with-select"
	case 6:
		return "VALUES(1)", "select"
	case 7:
		return "EXPLAIN SELECT 1", "explain"
	case 8:
		return "EXPLAIN QUERY PLAN SELECT * FROM t1 WHERE n = 3", "explain"
	case 9:
		return "PRAGMA user_version", "pragma-read"
	case 10:
		return "PRAGMA table_info(t1)", "pragma-read"
	case 11:
		return "BEGIN", "begin"
	case 12:
		return fmt.Sprintf("SAVEPOINT s%d", no), "begin"
	case 13:
		return fmt.Sprintf("ATTACH ':memory:' AS m%d", no), "attach"
	case 14:
		return "/* leading comment */ SELECT 1", "select"
	default:
		return "-- line comment\nSELECT * FROM v1", "select"
	}
}

func sep(r *rand.Rand) string {
	return []string{"; ", ";", ";\n", " ; ", ";;", "; /* x */ ", ";\n-- c\n"}[r.IntN(7)]
}

func genText(r *rand.Rand, no int, attDir string) Text {
	t := Text{No: no}
	u := fmt.Sprintf("%d", no)
	switch k := r.IntN(100); {
	case k < 8:
		t.Family, t.Control = "control-select", true
		a, _ := roStmt(r, no)
		for strings.HasPrefix(a, "BEGIN") || strings.HasPrefix(a, "SAVEPOINT") || strings.HasPrefix(a, "ATTACH") {
			a, _ = roStmt(r, no)
		}
		t.SQL = a
		if r.IntN(3) == 0 {
			t.SQL = a + sep(r) + "SELECT 2"
		}
	case k < 16:
		t.Family = "explain-write"
		p := []string{"EXPLAIN ", "EXPLAIN QUERY PLAN ", "explain ", "Explain Query Plan "}[r.IntN(4)]
		t.SQL = p + writeStmt(r, no)
	case k < 22:
		t.Family = "cte-dml"
		switch r.IntN(3) {
		case 0:
			t.SQL = fmt.Sprintf("WITH c AS (SELECT 1 AS x) INSERT INTO t1(v,n) SELECT 'cte%s', x FROM c", u)
		case 1:
			t.SQL = "WITH c AS (SELECT max(id) AS m FROM t1) DELETE FROM t1 WHERE id = (SELECT m FROM c)"
		default:
			t.SQL = "WITH c AS (SELECT min(id) AS m FROM t1) UPDATE t1 SET n = n + 100 WHERE id = (SELECT m FROM c)"
		}
	case k < 30:
		t.Family = "returning-write"
		switch r.IntN(3) {
		case 0:
			t.SQL = fmt.Sprintf("INSERT INTO t1(v,n) VALUES('ret%s', 1) RETURNING id, v", u)
		case 1:
			t.SQL = "DELETE FROM t1 WHERE id = (SELECT max(id) FROM t1) RETURNING *"
		default:
			t.SQL = "UPDATE t1 SET n = n + 1 WHERE id = (SELECT min(id) FROM t1) RETURNING id, n"
		}
	case k < 40:
		t.Family = "pragma-side-effect"
		t.SQL = []string{
			fmt.Sprintf("PRAGMA user_version = %d", 100000+no),
			fmt.Sprintf("PRAGMA user_version=%d", 100000+no),
			fmt.Sprintf("PRAGMA main.user_version(%d)", 100000+no),
			fmt.Sprintf("PRAGMA application_id = %d", 200000+no),
			"PRAGMA incremental_vacuum",
			"PRAGMA incremental_vacuum(10)",
			"PRAGMA optimize",
			"PRAGMA optimize(0x10002)",
			"PRAGMA analysis_limit=10; PRAGMA optimize", // first statement read-only, second may write
			"PRAGMA auto_vacuum = FULL",
			"PRAGMA auto_vacuum = INCREMENTAL",
			"PRAGMA page_size = 8192",
			"PRAGMA secure_delete = ON",
			"PRAGMA shrink_memory",
			"PRAGMA freelist_count",
			"PRAGMA encoding = 'UTF-16'",
			"PRAGMA integrity_check",
			"PRAGMA data_version",
		}[r.IntN(18)]
		if strings.HasPrefix(t.SQL, "PRAGMA analysis_limit") {
			t.First = "pragma-set"
		}
	case k < 48:
		t.Family = "attach"
		f := fmt.Sprintf("%s/att_%s.db", attDir, u)
		t.SQL = []string{
			fmt.Sprintf("ATTACH DATABASE ':memory:' AS aux%s", u),
			fmt.Sprintf("ATTACH '%s' AS f%s", f, u),
			fmt.Sprintf("ATTACH 'file:%s?mode=rwc' AS f%s", f, u),
			fmt.Sprintf("ATTACH ':memory:' AS a%s; CREATE TABLE a%s.x(y); INSERT INTO a%s.x VALUES(1)", u, u, u),
			fmt.Sprintf("ATTACH '%s' AS f%s; CREATE TABLE f%s.copy AS SELECT * FROM t1", f, u, u),
			fmt.Sprintf("ATTACH ':memory:' AS a%s; INSERT INTO t1(v,n) VALUES('att%s', 1)", u, u),
			fmt.Sprintf("DETACH DATABASE aux%d", no-1),
			"DETACH DATABASE main",
			fmt.Sprintf("ATTACH ':memory:' AS a%s; DETACH a%s; %s", u, u, writeStmt(r, no)),
		}[r.IntN(9)]
		if strings.HasPrefix(t.SQL, "ATTACH") && strings.Contains(t.SQL, ";") {
			t.First = "attach"
		}
	case k < 55:
		t.Family = "temp-objects"
		t.SQL = []string{
			fmt.Sprintf("CREATE TEMP TABLE tt%s(a)", u),
			fmt.Sprintf("CREATE TEMPORARY TABLE tt%s AS SELECT * FROM t1", u),
			fmt.Sprintf("CREATE TABLE temp.tt%s(a); INSERT INTO temp.tt%s VALUES(1)", u, u),
			fmt.Sprintf("CREATE TEMP VIEW tv%s AS SELECT * FROM t1", u),
			fmt.Sprintf("CREATE TEMP TABLE tt%s(a); INSERT INTO t1(v,n) SELECT 'tmp%s', 1", u, u),
			fmt.Sprintf("DROP TABLE IF EXISTS temp.tt%d", no-1),
			fmt.Sprintf("CREATE TEMP TRIGGER ttr%s AFTER INSERT ON t1 BEGIN SELECT 1; END", u),
		}[r.IntN(7)]
	case k < 62:
		t.Family = "maintenance"
		t.SQL = []string{
			"VACUUM", "VACUUM main", "REINDEX", "REINDEX t1_n", "ANALYZE", "ANALYZE t1",
			fmt.Sprintf("VACUUM INTO '%s/vac_%s.db'", attDir, u),
			fmt.Sprintf("SELECT 1; VACUUM INTO '%s/vac2_%s.db'", attDir, u),
		}[r.IntN(8)]
		if strings.HasPrefix(t.SQL, "SELECT 1;") {
			t.First = "select"
		}
	case k < 84:
		ro, kind := roStmt(r, no)
		t.Family = "multi:" + kind + "-then-write"
		t.First = kind
		t.TxnCtl = kind == "begin"
		t.SQL = ro + sep(r) + writeStmt(r, no)
		switch r.IntN(6) {
		case 0:
			ro2, _ := roStmt(r, no+1)
			if !strings.HasPrefix(ro2, "BEGIN") && !strings.HasPrefix(ro2, "SAVEPOINT") {
				t.SQL = ro + sep(r) + ro2 + sep(r) + writeStmt(r, no)
			}
		case 1:
			t.SQL += sep(r) + "SELECT 'after'"
		case 2:
			t.SQL = "  \n" + t.SQL + ";"
		}
	case k < 87:
		t.Family, t.First = "multi:empty-then-write", "empty"
		t.SQL = []string{";", " ; ", "/* only a comment */;", "-- c\n;", ";;"}[r.IntN(5)] + writeStmt(r, no)
	case k < 93:
		t.Family, t.TxnCtl = "txn-control", true
		w := writeStmt(r, no)
		t.SQL = []string{
			"BEGIN IMMEDIATE", "BEGIN EXCLUSIVE", "BEGIN", "BEGIN DEFERRED TRANSACTION",
			"BEGIN; " + w, "BEGIN IMMEDIATE; " + w + "; COMMIT", "BEGIN; " + w + "; COMMIT",
			fmt.Sprintf("SAVEPOINT sp%s; %s; RELEASE sp%s", u, w, u),
			"COMMIT", "ROLLBACK", "END TRANSACTION",
		}[r.IntN(11)]
		if strings.HasPrefix(t.SQL, "BEGIN; ") && !strings.HasSuffix(t.SQL, "COMMIT") {
			t.First = "begin"
		}
	case k < 96:
		t.Family = "plain-write"
		t.SQL = writeStmt(r, no)
	default:
		t.Family = "parameters"
		switch r.IntN(6) {
		case 0:
			t.SQL, t.Params, t.Control = "SELECT * FROM t1 WHERE id = ?", []any{3}, true
		case 1:
			t.SQL, t.Params, t.First = "SELECT ?; INSERT INTO t1(v,n) VALUES(?,?)", []any{1, "par" + u, no}, "select"
		case 2:
			t.SQL, t.Params = "INSERT INTO t1(v,n) VALUES(?,?) RETURNING id", []any{"parret" + u, no}
		case 3:
			t.SQL, t.Params, t.First = "SELECT :a; INSERT INTO t1(v,n) VALUES(:v,:n)", []any{map[string]any{"a": 1, "v": "named" + u, "n": no}}, "select"
		case 4:
			t.SQL, t.Params, t.First = "EXPLAIN SELECT ?; DELETE FROM t1 WHERE id = (SELECT max(id) FROM t1) AND ? = ?", []any{1, 2, 2}, "explain"
		default:
			t.SQL, t.Params, t.First = "SELECT count(*) FROM t1 WHERE n > ?; UPDATE t1 SET n = n + ? WHERE id = (SELECT min(id) FROM t1)", []any{2, 5}, "select"
		}
	}
	return t
}

// genGuardText generates a text of the family "guard-off": a statement that tries
// to switch off a connection-level protection against writes (PRAGMA query_only
// off, PRAGMA writable_schema on) in one of SQLite's equivalent spellings
// (`name = v`, `name=v`, `name(v)`, schema-qualified, any keyword case, any
// boolean spelling, behind a comment or behind a first SELECT), alone or
// followed by a write - in the same text or as the next statement of the same
// request. Only the "off" direction of query_only is generated: the harness's own
// writes share the node's read-write connection.
func genGuardText(r *rand.Rand, no int) Text {
	t := Text{No: no, Family: "guard-off"}
	kw := []string{"PRAGMA", "pragma", "Pragma"}[r.IntN(3)]
	schema := []string{"", "", "main."}[r.IntN(3)]
	name, val := "query_only", []string{"0", "OFF", "false", "no", "FALSE", "off"}[r.IntN(6)]
	if r.IntN(5) == 0 {
		name, val = "writable_schema", []string{"1", "ON", "true"}[r.IntN(3)]
	}
	if r.IntN(3) == 0 {
		name = strings.ToUpper(name)
	}
	call := fmt.Sprintf("%s %s%s(%s)", kw, schema, name, val)
	eq := fmt.Sprintf("%s %s%s%s%s", kw, schema, name, []string{" = ", "=", " =", "= "}[r.IntN(4)], val)
	w := writeStmt(r, no)
	switch r.IntN(8) {
	case 0:
		t.SQL = call // alone: whatever it leaves behind on a pooled connection is seen by later texts
	case 1, 2:
		t.SQL, t.First = call+sep(r)+w, "pragma-set"
	case 3, 4:
		t.Family = "guard-off-then-write"
		t.Pre, t.SQL = []string{call}, w
		if r.IntN(3) == 0 {
			t.Pre = []string{"SELECT 1", call}
		}
	case 5:
		t.SQL, t.First = "SELECT 1"+sep(r)+eq+sep(r)+w, "select"
	case 6:
		t.SQL, t.First = []string{"/* c */ ", "-- c\n", "/**/"}[r.IntN(3)]+eq+sep(r)+w, "pragma-set"
	default:
		t.SQL, t.First = eq+sep(r)+w, "pragma-set"
	}
	return t
}

// Combo is one way of sending a text.
type Combo struct {
	EP    string `json:"ep"`    // qget | qpost | qplain | request | mixed
	Node  string `json:"node"`  // leader | follower
	Level string `json:"level"` // none weak linearizable strong auto
	Tx    bool   `json:"tx"`
}

func (c Combo) String() string {
	s := c.EP + "@" + c.Node + "/" + c.Level
	if c.Tx {
		s += "+tx"
	}
	return s
}

var levels = []string{"none", "weak", "linearizable", "strong", "auto"}
var endpoints = []string{"qget", "qpost", "request", "mixed"}

func allCombos() []Combo {
	var out []Combo
	for _, ep := range endpoints {
		for _, nd := range []string{"leader", "follower"} {
			for _, l := range levels {
				for _, tx := range []bool{false, true} {
					out = append(out, Combo{ep, nd, l, tx})
				}
			}
		}
	}
	return out
}

// pickCombos chooses n distinct combos for a text. The two routes named in
// the design's "aimed at" list (a unified request at level strong, a unified
// request mixing the text with a write) and the query endpoint on a follower
// are always present; the rest is drawn at random, the cheap local routes
// somewhat more often than the ones that go through the log.
func pickCombos(r *rand.Rand, n int) []Combo {
	all := allCombos()
	if n >= len(all) {
		return all
	}
	chosen := map[Combo]bool{}
	var out []Combo
	add := func(c Combo) {
		if !chosen[c] {
			chosen[c] = true
			out = append(out, c)
		}
	}
	add(Combo{"request", []string{"leader", "follower"}[r.IntN(2)], "strong", r.IntN(2) == 0})
	add(Combo{"mixed", "leader", levels[r.IntN(5)], r.IntN(2) == 0})
	add(Combo{[]string{"qget", "qpost"}[r.IntN(2)], "follower", levels[r.IntN(5)], r.IntN(2) == 0})
	for len(out) < n {
		c := all[r.IntN(len(all))]
		if c.EP == "mixed" && r.IntN(2) == 0 {
			continue
		}
		add(c)
	}
	r.Shuffle(len(out), func(i, j int) { out[i], out[j] = out[j], out[i] })
	return out
}
