// Package c17: reads never modify data; databases change only through the log
// (DESIGN §6 C17). Generated SQL texts are sent to the query endpoint (GET and
// POST) and to the unified endpoint of the leader and of a follower of a real
// 3-node cluster, at every consistency level, with and without ?transaction.
// Nothing else talks to the cluster, so every difference between the state of a
// node before and after a request is the effect of that request.
package c17

import (
	"encoding/json"
	"fmt"
	"os"
	"path/filepath"
	"strings"
	"sync"
	"time"

	"verif/internal/vf"
)

func init() {
	vf.Register("C17", "exploration", run)
	vf.RegisterWorker("c17", worker)
}

const maxWorkers = 4

func run(c *vf.Ctx) {
	c.Rule("case = (generated SQL text, way of sending it). Texts: plain SELECTs (control), EXPLAIN / EXPLAIN QUERY PLAN of writes, CTE+DML, INSERT/UPDATE/DELETE … RETURNING, PRAGMAs with side effects (user_version=, application_id=, incremental_vacuum, optimize, auto_vacuum, page_size, encoding …), ATTACH/DETACH (memory, file, URI, followed by DDL/DML), temp tables/views/triggers, VACUUM / VACUUM INTO / REINDEX / ANALYZE, multi-statement texts whose first statement is one SQLite calls read-only (SELECT, WITH, VALUES, EXPLAIN, PRAGMA read, BEGIN, SAVEPOINT, ATTACH, comment, empty statement) and a later one writes, BEGIN IMMEDIATE/EXCLUSIVE/COMMIT/ROLLBACK/SAVEPOINT texts, plain writes, texts with positional and named parameters, and guard-off texts (12 per batch of 120 in quick, 20 per 200 in thorough, spread between the other texts): a PRAGMA that would switch off a connection-level write protection (query_only off, writable_schema on) spelled `name = v` / `name=v` / `name(v)`, schema-qualified or not, any keyword case and boolean spelling, at the start of the text, behind a comment or behind a first SELECT - sent alone (what it leaves on a pooled connection meets the texts that follow), followed by a write in the same text, or followed by a write as the next statement of the same request; every write carries a token unique to the text so that executing it always changes the logical dump. Ways: GET /db/query, POST /db/query (JSON or text/plain), POST /db/request with the text alone, POST /db/request with the text next to the harness's own no-op write; on the leader or a follower; level none/weak/linearizable/strong/auto; with/without ?transaction (80 ways; quick sends each text in 6 of them, thorough in 12, always including /db/request at level strong, the mixed request and the query endpoint on a follower). non-trivial = request whose text is not a control SELECT; distinct by text and way")
	c.Assume("state of a node = bytes of db.sqlite and db.sqlite-wal read from disk at quiescence (no request in flight, every node's FSM index caught up with the leader's), the logical dump of a private copy of these two files (sqlref.DumpFile: schema, all rows with storage classes, user_version, application_id), file sizes, raft commit/applied/db-applied index; the dump is recomputed whenever the bytes differ")
	c.Assume("which statements a unified request treats as read-only is taken from the real code: the statement goes through command/sql.Process and Store.RORWCount exactly as in the HTTP handler and Store.Request; a unified request is judged when rqlite treats the generated text as read-only (alone, or next to the harness's own `DELETE FROM t1 WHERE 0`), otherwise its effect is accepted as a write and the baseline is re-read")
	c.Assume("snapshots are disabled in the harness cluster (they checkpoint the WAL legitimately); files created by ATTACH / VACUUM INTO outside the node's database are counted, not judged; temp objects are connection-local and not part of the dump; after a text containing BEGIN/SAVEPOINT was sent to the unified endpoint the harness sends ROLLBACK through /db/execute so that an open transaction cannot hide later changes")
	c.Assume("a change of file bytes with identical dump and identical sizes is counted only; a transport error, a 5xx / time-out reply, a missing leader or nodes not quiescing within 60 s give no verdict (inconclusive)")

	tmp := vf.TempDir("c17")
	defer os.RemoveAll(tmp)

	if c.ReplayFile != "" {
		out, code, ok := vf.RunWorkerOnce(false, "c17", []string{"replay", c.ReplayFile, filepath.Join(tmp, "r")}, nil, filepath.Join(tmp, "r.log"), 10*time.Minute)
		if !ok || code != 0 {
			c.Inconclusive("replay worker did not finish")
		}
		consume(c, out, nil)
		c.Require(1, 0)
		return
	}

	nTexts := c.N(480, 3200)
	nCombos := c.N(6, 12)
	batch := c.N(120, 200)
	nGuard := c.N(12, 20) // guard-off texts per batch, in addition to the batch's ordinary texts
	type job struct{ lo, hi int }
	jobs := make(chan job, nTexts/batch+1)
	for lo := 0; lo < nTexts; lo += batch {
		hi := lo + batch
		if hi > nTexts {
			hi = nTexts
		}
		jobs <- job{lo, hi}
	}
	close(jobs)
	var wg sync.WaitGroup
	var mu sync.Mutex
	done := 0
	for w := 0; w < maxWorkers; w++ {
		wg.Add(1)
		go func() {
			defer wg.Done()
			for j := range jobs {
				dir := filepath.Join(tmp, fmt.Sprintf("b%d", j.lo))
				args := []string{fmt.Sprint(j.lo), fmt.Sprint(j.hi), fmt.Sprint(c.Seed), c.Tier, dir, fmt.Sprint(nCombos), fmt.Sprint(nGuard)}
				out, code, ok := vf.RunWorkerOnce(false, "c17", args, nil, filepath.Join(tmp, fmt.Sprintf("b%d.log", j.lo)), 45*time.Minute)
				os.RemoveAll(dir)
				mu.Lock()
				seen := map[int]bool{}
				consume(c, out, seen)
				if !ok || code != 0 {
					c.Logf("worker %d-%d: exit=%d finished=%v (%d of %d texts reported)", j.lo, j.hi, code, ok, len(seen), j.hi-j.lo)
				}
				for i := j.lo; i < j.hi; i++ {
					if !seen[i] {
						c.Inconclusive("text not run (worker setup failed or worker did not finish)")
					}
				}
				done += j.hi - j.lo
				c.Logf("texts %d-%d done (%d/%d)", j.lo, j.hi, done, nTexts)
				mu.Unlock()
			}
		}()
	}
	wg.Wait()
	c.Require(int64(nTexts*nCombos/3), nTexts*nCombos/4)
}

var sampled = map[string]bool{}

func consume(c *vf.Ctx, out []byte, seen map[int]bool) {
	for _, line := range strings.Split(string(out), "\n") {
		if strings.TrimSpace(line) == "" {
			continue
		}
		var wo workerOut
		if err := json.Unmarshal([]byte(line), &wo); err != nil {
			c.Logf("unparsable worker line: %v", err)
			continue
		}
		if wo.SetupErr != "" {
			c.Logf("worker setup: %s", wo.SetupErr)
			continue
		}
		for k, v := range wo.Final {
			if f, ok := v.(float64); ok {
				c.Count(k, int64(f))
			}
		}
		tr := wo.Result
		if tr == nil {
			continue
		}
		if seen != nil {
			seen[tr.Text.No] = true
		}
		for k, v := range tr.Counts {
			c.Count(k, v)
		}
		c.Count("texts:"+tr.Text.Family, 1)
		if tr.Aborted != "" {
			c.Logf("text %d: batch aborted: %s", tr.Text.No, tr.Aborted)
			c.Inconclusive("batch aborted: " + firstWords(tr.Aborted))
		}
		for _, r := range tr.Reqs {
			judge(c, &tr.Text, r)
		}
	}
}

func judge(c *vf.Ctx, t *Text, r ReqResult) {
	if r.Inconcl != "" {
		c.Logf("text %d %s: inconclusive: %s", t.No, r.Combo, r.Inconcl)
		c.Inconclusive(firstWords(r.Inconcl))
		return
	}
	scope := "query-endpoint"
	if r.Combo.EP == "request" || r.Combo.EP == "mixed" {
		scope = "unified-readonly"
		if r.QShaped && !r.Judged {
			// e.g. a RETURNING write: answered with rows, but treated (and logged) as a write
			c.Count("unified_query_shaped_reply_but_treated_as_write", 1)
		}
	}
	if !r.Judged {
		c.Count("unified_treated_as_write_not_judged", 1)
		return
	}
	c.Eval(1)
	c.Count("judged:"+scope, 1)
	c.Count("judged_family:"+t.Family, 1)
	if !t.Control {
		c.Nontrivial(strings.Join(t.Pre, "\x00") + "\x00" + t.SQL + "|" + r.Combo.String())
	}
	k := t.Family + "/" + r.Combo.EP
	if !sampled[k] && len(sampled) < 6 && !t.Control {
		sampled[k] = true
		c.Sample(map[string]any{"text": t, "request": r})
	}
	route := "local"
	if r.ViaLog {
		route = "via-log"
	}
	if r.Combo.EP == "mixed" {
		route = "mixed-request"
	}
	what := t.Family
	if t.First != "" {
		what = "first-statement-" + t.First + "-then-write"
	} else if t.Family == "pragma-side-effect" {
		what = "pragma-" + pragmaName(t.SQL)
	}
	shown := t.SQL
	if len(t.Pre) > 0 {
		shown = "[" + strings.Join(t.Pre, " | ") + " | " + t.SQL + "] (separate statements of one request)"
	}
	held := true
	reported := map[string]bool{}
	for _, ch := range r.Changes {
		var key, msg string
		switch {
		case ch.Logical:
			key = scope + ":" + what + ":" + route
			msg = fmt.Sprintf("the database of node %s changed across %s (%s): text %q sent as %s answered HTTP %d %s; raft commit index %d -> %d; dump difference:\n%s",
				ch.Node, describe(r), r.Why, shown, r.Combo, r.Status, r.Reply, ch.Before.Commit, ch.After.Commit, ch.Diff)
		case ch.SizeOnly:
			// the statement wrote to the database files although the content ended up the
			// same (e.g. the same value written again): same defect class, same key
			key = scope + ":" + what + ":" + route
			msg = fmt.Sprintf("the database files of node %s were written (db %d -> %d bytes, wal %d -> %d bytes, logical dump unchanged) across %s (%s): text %q sent as %s answered HTTP %d %s",
				ch.Node, ch.Before.DBSize, ch.After.DBSize, ch.Before.WALSize, ch.After.WALSize, describe(r), r.Why, shown, r.Combo, r.Status, r.Reply)
			c.Count("changes_files_only", 1)
		default:
			c.Count("file_bytes_changed_same_dump_same_size", 1)
			continue
		}
		held = false
		if reported[key] {
			continue
		}
		reported[key] = true
		c.Count("changed:"+key, 1)
		c.Violation(key, msg, map[string]any{"text": t, "req": r})
	}
	if held {
		c.Held(1)
	}
}

// pragmaName extracts the pragma's name from "PRAGMA [schema.]name…".
func pragmaName(sql string) string {
	f := strings.Fields(strings.ToLower(sql))
	if len(f) < 2 {
		return "unknown"
	}
	n := f[1]
	if i := strings.IndexAny(n, "=(;"); i >= 0 {
		n = n[:i]
	}
	if i := strings.LastIndex(n, "."); i >= 0 {
		n = n[i+1:]
	}
	return n
}

func describe(r ReqResult) string {
	switch r.Combo.EP {
	case "qget":
		return "a GET /db/query request"
	case "qpost":
		return "a POST /db/query request"
	case "request":
		return "a /db/request request (classification " + r.Classes + ")"
	}
	return "a /db/request request holding the text and the harness's no-op write (classification " + r.Classes + ")"
}

func firstWords(s string) string {
	if i := strings.IndexAny(s, ":\n"); i > 0 {
		s = s[:i]
	}
	if len(s) > 60 {
		s = s[:60]
	}
	return s
}
