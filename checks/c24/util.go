package c24

import (
	"bytes"
	"io"
	"os"
)

func bytesReader(b []byte) io.Reader { return bytes.NewReader(b) }

func tailFile(p string, n int) string {
	b, err := os.ReadFile(p)
	if err != nil {
		return ""
	}
	if len(b) > n {
		b = b[len(b)-n:]
	}
	return string(b)
}
