package c25

import (
	"fmt"
	"os"
	"strings"
	"time"

	"verif/internal/hcluster"
	"verif/internal/vf"
)

// Second directed motif: a running follower falls behind the leader's log
// truncation, is brought up to date by a snapshot sent by the leader (raft
// InstallSnapshot on a live node whose capture hooks are in place), applies
// further entries as follower and then delivers as leader.

const (
	motifFollowerSnap = "follower-snapshot-restart-then-leader"
	motifLagInstall   = "lagging-follower-snapshot-install-then-leader"
)

// genDirectedLag: requests are W1 (first NW1, committed while the follower is
// cut off), W2 (next NW2, applied by the follower after the install, endpoint
// down for some histories) and W3 (the rest, committed under the follower's
// leadership). Statements are drawn like everywhere else.
func genDirectedLag(c *vf.Ctx, caseNo int) caseSpec {
	r := c.Rand(uint64(caseNo))
	cs := caseSpec{Case: caseNo, Faults: map[int][]faultSpec{}, Directed: motifLagInstall}
	if caseNo%4 >= 2 {
		cs.Filter = filterRe
	}
	cs.BatchSz = []int{1, 2, 3, 5}[r.IntN(4)]
	cs.BatchDelayMs = []int{10, 25, 60}[r.IntN(3)]
	cs.HWMms = []int{100, 250}[r.IntN(2)]
	cs.EPSeed = r.Uint64()
	cs.NW1 = 6 + r.IntN(8)
	cs.NW2 = 2 + r.IntN(4)
	nw3 := 3 + r.IntN(4)
	cs.NReqs = cs.NW1 + cs.NW2 + nw3
	cs.Pick = r.IntN(2)
	cs.SnapAt = 2 + r.IntN(cs.NW1-3)        // first leader snapshot after this many W1 requests
	cs.W2Outage = r.IntN(3) != 0            // W2 cannot be delivered by the old leader
	cs.RestartFirst = r.IntN(3) == 0        // the follower has replayed its log after a restart before it falls behind
	cs.Trailing = []int{1, 1, 2}[r.IntN(3)] // trailing logs kept by the leader's snapshots
	cs.LagOutage = r.IntN(4) == 0           // W1 is still undelivered when the follower installs the snapshot that covers it
	if os.Getenv("C25_LAGOUTAGE") != "" {   // development aid
		cs.LagOutage = os.Getenv("C25_LAGOUTAGE") == "1"
	}
	if cs.LagOutage {
		cs.W2Outage = true
	}
	g := &gen{r: r, nextK: 1000}
	for i := 0; i < cs.NReqs; i++ {
		rq := reqSpec{No: i, Node: -1, SleepMs: 5}
		rq.Tx = r.IntN(10) < 4
		for j := 0; j < 1+r.IntN(3); j++ {
			s, k := g.stmt(i)
			if strings.HasPrefix(k, "ddl") {
				s, k = fmt.Sprintf("INSERT INTO t(k,v,n) VALUES(%d,'%s',%d)", g.freshK(), g.tok(), r.IntN(4)), "insert1"
			}
			rq.Stmts = append(rq.Stmts, s)
			rq.Kinds = append(rq.Kinds, k)
		}
		if i == 0 || i == cs.NW1 || i == cs.NW1+cs.NW2 { // the first request of every phase certainly changes rows
			rq.Stmts[0], rq.Kinds[0] = fmt.Sprintf("INSERT INTO t(k,v,n) VALUES(%d,'%s',1)", g.freshK(), g.tok()), "insert1"
		}
		cs.Requests = append(cs.Requests, rq)
	}
	return cs
}

// lastSnapshotIndex is the index of the newest snapshot raft knows on a node
// (taken locally or installed).
func lastSnapshotIndex(n *hcluster.Node) (uint64, bool) {
	st, err := n.Store.Stats()
	if err != nil {
		return 0, false
	}
	rs, ok := st["raft"].(map[string]any)
	if !ok {
		return 0, false
	}
	switch v := rs["last_snapshot_index"].(type) {
	case int64:
		return uint64(v), true
	case uint64:
		return v, true
	case int:
		return uint64(v), true
	}
	return 0, false
}

// runDirectedLag is the scripted history of genDirectedLag. It returns false
// when the history cannot go on (h.Inconcl says why). Every wait is a harness
// bound: running into one ends the history without a verdict.
func runDirectedLag(w *world, h *histOut, doReq func(*reqSpec) bool, noteLeader func()) bool {
	cs, cl, ep := w.cs, w.cl, w.ep
	fault := func(format string, a ...any) {
		h.Faults = append(h.Faults, fmt.Sprintf(format, a...))
		logf("directed: %s", h.Faults[len(h.Faults)-1])
	}
	snapshotOn := func(n *hcluster.Node, trailing int) int {
		mk := mark{Kind: "snapshot", Node: n.Name, Applied: n.Store.AppliedIndex(), IsLeader: n.Store.IsLeader()}
		path := "/snapshot"
		if trailing > 0 {
			path += fmt.Sprintf("?trailing_logs=%d", trailing)
		}
		rr := cl.Do(n, "POST", path, nil, nil)
		mk.Seq, mk.Status = w.seq.Add(1), rr.Status
		h.Marks = append(h.Marks, mk)
		fault("snapshot:%s:leader=%v:applied=%d:trailing=%d:status=%d", n.Name, mk.IsLeader, mk.Applied, trailing, rr.Status)
		return rr.Status
	}
	nodeByName := func(name string) *hcluster.Node {
		for _, n := range cl.Live() {
			if n.Name == name {
				return n
			}
		}
		return nil
	}
	waitApplied := func(name string, idx uint64, d time.Duration) bool {
		for t0 := time.Now(); ; {
			if n := nodeByName(name); n != nil && n.Store.AppliedIndex() >= idx {
				return true
			}
			if time.Since(t0) > d {
				return false
			}
			time.Sleep(20 * time.Millisecond)
		}
	}
	lastKnownIdx := func() uint64 {
		var mx uint64
		for _, e := range h.Expected {
			if e.Index > mx {
				mx = e.Index
			}
		}
		return mx
	}
	phase := func(from, to int) bool {
		for i := from; i < to; i++ {
			if !doReq(&cs.Requests[i]) {
				return false
			}
		}
		return true
	}

	// 0. everything so far delivered
	ld := cl.WaitLeader(30 * time.Second)
	if ld == nil {
		h.Inconcl = "directed: no leader"
		return false
	}
	noteLeader()
	for t0 := time.Now(); anyRequiredMissing(h.Expected, ep.snapshot()); {
		if time.Since(t0) > 60*time.Second {
			h.Inconcl = "directed: the setup changes were not delivered within 60 s"
			return false
		}
		time.Sleep(200 * time.Millisecond)
	}
	var followers []*hcluster.Node
	for _, n := range cl.Live() {
		if n != ld {
			followers = append(followers, n)
		}
	}
	if len(followers) != 2 {
		h.Inconcl = "directed: not two followers"
		return false
	}
	f := followers[cs.Pick%2]
	name := f.Name
	if !waitApplied(name, lastKnownIdx(), 30*time.Second) {
		h.Inconcl = "directed: follower did not apply the setup within 30 s"
		return false
	}
	// 1. optionally the follower is a restarted process that has replayed its log
	if cs.RestartFirst {
		h.Marks = append(h.Marks, mark{Seq: w.seq.Add(1), Kind: "restart", Node: name})
		if err := w.restart(f); err != nil {
			h.Inconcl = "restart failed: " + err.Error()
			return false
		}
		fault("restart:%s", name)
		if f = nodeByName(name); f == nil || !waitApplied(name, lastKnownIdx(), 60*time.Second) {
			h.Inconcl = "directed: restarted follower did not replay its log within 60 s"
			return false
		}
		if ld = cl.WaitLeader(60 * time.Second); ld == nil {
			h.Inconcl = "directed: no leader after the restart"
			return false
		}
		if ld.Name == name {
			h.Inconcl = "directed: the restarted follower became leader before it was cut off"
			return false
		}
	}
	snapBefore, ok := lastSnapshotIndex(f)
	if !ok {
		h.Inconcl = "directed: cannot read the follower's raft stats"
		return false
	}
	// 2. the follower is cut off, still running
	cl.Net.Isolate(name, cl.Names())
	cutAt := f.Store.AppliedIndex()
	fault("cut-off:%s:applied=%d:last_snapshot_index=%d", name, cutAt, snapBefore)
	// 3. W1 on the majority; the leader snapshots and trims its log (twice: the
	// entries the follower needs are gone afterwards)
	ep.setCalm(false) // the seeded answer plan: retries happen, nothing is lost
	if cs.LagOutage {
		ep.setOutage(true)
		fault("outage:start")
	}
	if !phase(0, cs.SnapAt) {
		return false
	}
	if cur := cl.Leader(); cur != nil {
		snapshotOn(cur, cs.Trailing)
	}
	if !phase(cs.SnapAt, cs.NW1) {
		return false
	}
	cur := cl.Leader()
	if cur == nil || cur.Name == name {
		h.Inconcl = "directed: no majority leader at the end of W1"
		return false
	}
	if st := snapshotOn(cur, cs.Trailing); st != 200 {
		h.Inconcl = fmt.Sprintf("directed: second snapshot on the leader answered %d", st)
		return false
	}
	// W1 is delivered by the majority's leader before the follower comes back, so
	// that what the follower skips by installing the snapshot is not at stake here
	// (unless this history is about exactly that)
	if !cs.LagOutage {
		ep.setCalm(true)
		for t0 := time.Now(); anyRequiredMissing(h.Expected, ep.snapshot()); {
			if time.Since(t0) > 60*time.Second {
				h.Inconcl = "directed: W1 was not delivered within 60 s"
				return false
			}
			time.Sleep(200 * time.Millisecond)
		}
	}
	// 4. the follower comes back and is sent the snapshot
	w1Idx := lastKnownIdx()
	cl.Net.HealAll()
	fault("healed:%s", name)
	if !waitApplied(name, w1Idx, 90*time.Second) {
		h.Inconcl = "directed: the follower did not catch up within 90 s"
		return false
	}
	f = nodeByName(name)
	snapAfter, ok := lastSnapshotIndex(f)
	if !ok || snapAfter <= snapBefore {
		h.Inconcl = fmt.Sprintf("directed: the follower caught up without installing a snapshot (last_snapshot_index %d -> %d)", snapBefore, snapAfter)
		return false
	}
	h.Marks = append(h.Marks, mark{Seq: w.seq.Add(1), Kind: "install", Node: name, Applied: snapAfter, From: cutAt})
	fault("installed:%s:snapshot_index=%d:applied=%d", name, snapAfter, f.Store.AppliedIndex())
	if cl.WaitLeader(60*time.Second) == nil {
		h.Inconcl = "directed: no leader after the follower came back"
		return false
	}
	noteLeader()
	// 5. W2: applied by the follower after the install; for some histories nobody
	// can deliver it yet
	if cs.W2Outage && !cs.LagOutage {
		ep.setCalm(false)
		ep.setOutage(true)
		fault("outage:start")
	}
	if !phase(cs.NW1, cs.NW1+cs.NW2) {
		return false
	}
	if !waitApplied(name, lastKnownIdx(), 60*time.Second) {
		h.Inconcl = "directed: the follower did not apply W2 within 60 s"
		return false
	}
	// 6. leadership moves to the follower
	for t0 := time.Now(); ; {
		f = nodeByName(name)
		cur := cl.Leader()
		if cur != nil && cur == f {
			break
		}
		if time.Since(t0) > 60*time.Second {
			h.Inconcl = "directed: leadership could not be moved to the follower within 60 s"
			return false
		}
		if cur != nil && f != nil {
			cur.Store.Stepdown(true, f.ID)
		}
		time.Sleep(300 * time.Millisecond)
	}
	noteLeader()
	fault("leadership-moved-to:%s", name)
	for t0 := time.Now(); ; {
		w.mu.Lock()
		ci := w.cdc[name]
		w.mu.Unlock()
		if ci != nil && ci.svc.IsLeader() {
			break
		}
		if time.Since(t0) > 30*time.Second {
			h.Inconcl = "directed: the CDC service of the new leader never learnt it is leader"
			return false
		}
		time.Sleep(50 * time.Millisecond)
	}
	// 7. endpoint healthy; W3 under the follower's leadership
	if cs.W2Outage {
		fault("outage:end")
	}
	ep.setCalm(true)
	if !phase(cs.NW1+cs.NW2, len(cs.Requests)) {
		return false
	}
	noteLeader()
	return true
}

// afterInstall describes, for a change that was never delivered, the node that
// installed a snapshot below the entry's index, applied the entry itself and
// was the last to deliver as leader - or "".
func afterInstall(h *histOut, idx uint64) string {
	for _, in := range h.Marks {
		if in.Kind != "install" || in.Applied >= idx {
			continue
		}
		posted := false
		var later uint64
		for _, rc := range h.Receipts {
			if rc.Node != in.Node || rc.Aborted || rc.Seq < in.Seq {
				continue
			}
			for _, m := range rc.Msgs {
				if m.Index == idx {
					posted = true
				}
				if m.Index > later {
					later = m.Index
				}
			}
		}
		if !posted {
			return fmt.Sprintf(" [node %s installed a snapshot at index %d while running (action #%d) and applied this entry afterwards; since then it has not posted the entry's index (highest index it posted after the install: %d)]", in.Node, in.Applied, in.Seq, later)
		}
	}
	return ""
}

// coveredByInstalledSnapshot recognises one precise way of losing a change: a
// running node was cut off at applied index a, installed a snapshot sent by the
// leader at index b >= idx > a (so it never applied the entry itself and has
// captured nothing for it), never posted the entry's index, and afterwards, as
// leader, had payloads with indices above b accepted - its high-water mark then
// made the nodes that had captured the entry prune it. Returns a description,
// or "".
func coveredByInstalledSnapshot(h *histOut, idx uint64) string {
	for _, in := range h.Marks {
		if in.Kind != "install" || idx <= in.From || idx > in.Applied {
			continue
		}
		posted, later := false, int64(0)
		var laterIdx uint64
		for _, rc := range h.Receipts {
			if rc.Node != in.Node || rc.Aborted {
				continue
			}
			for _, m := range rc.Msgs {
				if m.Index == idx {
					posted = true
				}
				if rc.Seq > in.Seq && rc.Mode == "ok" && m.Index > in.Applied && later == 0 {
					later, laterIdx = rc.Seq, m.Index
				}
			}
		}
		if !posted && later != 0 {
			return fmt.Sprintf("node %s, running, was cut off at applied index %d and brought up to date by a snapshot at index %d sent by the leader (action #%d), so it never applied the entry itself and captured nothing for index %d; the entry was still undelivered (endpoint failing) when that node became leader and went on with index %d (payload #%d, answered 200); its high-water mark made the nodes that had captured the entry prune it", in.Node, in.From, in.Applied, in.Seq, idx, laterIdx, later)
		}
	}
	return ""
}
