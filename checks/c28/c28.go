// Package c28: chunked loads reassemble the original bytes (DESIGN §6 C28).
//
// Real code under test: command/chunking (Chunker, Dechunker,
// DechunkerManager) and the LOAD_CHUNK branch of store.CommandProcessor.
// Oracle: the reassembled file is byte-identical to the input stream; a
// duplicated / reordered / skipped / foreign chunk is answered with an error
// and has no effect on the bytes finally reassembled; after an Abort processed
// by the command processor no dechunker file is left in the directory.
package c28

import (
	"bytes"
	"crypto/sha256"
	"encoding/hex"
	"fmt"
	"io"
	"log"
	"math/rand/v2"
	"os"
	"path/filepath"
	"reflect"
	"runtime"
	"strings"
	"sync"
	"sync/atomic"
	"testing/iotest"

	"github.com/rqlite/rqlite/v10/command"
	"github.com/rqlite/rqlite/v10/command/chunking"
	"github.com/rqlite/rqlite/v10/command/proto"
	sql "github.com/rqlite/rqlite/v10/db"
	"github.com/rqlite/rqlite/v10/store"
	"github.com/rqlite/rqlite/v10/vexport"
	"verif/internal/sqlref"
	"verif/internal/vf"
)

func init() { vf.Register("C28", "exploration", run) }

// ---------------------------------------------------------------- readers --

const (
	rkPlain        = iota // bytes.Reader: full reads, then (0, EOF)
	rkOneByte             // one byte per Read
	rkShort               // seeded short reads
	rkDataEOF             // the final bytes are returned together with io.EOF
	rkZero                // some reads return (0, nil)
	rkShortDataEOF        // short reads and final bytes together with io.EOF
	nReaderKinds
)

var readerNames = []string{"plain", "one-byte", "short-reads", "data-with-eof", "zero-reads", "short+data-with-eof"}

type shortReader struct {
	r    io.Reader
	rng  *rand.Rand
	zero bool
}

func (s *shortReader) Read(p []byte) (int, error) {
	if len(p) == 0 {
		return s.r.Read(p)
	}
	if s.zero && s.rng.IntN(3) == 0 {
		return 0, nil
	}
	n := 1 + s.rng.IntN(len(p))
	return s.r.Read(p[:n])
}

func makeReader(kind int, data []byte, rng *rand.Rand) io.Reader {
	switch kind {
	case rkOneByte:
		return iotest.OneByteReader(bytes.NewReader(data))
	case rkShort:
		return &shortReader{r: bytes.NewReader(data), rng: rng}
	case rkDataEOF:
		return iotest.DataErrReader(bytes.NewReader(data))
	case rkZero:
		return &shortReader{r: bytes.NewReader(data), rng: rng, zero: true}
	case rkShortDataEOF:
		return iotest.DataErrReader(&shortReader{r: bytes.NewReader(data), rng: rng})
	}
	return bytes.NewReader(data)
}

// ------------------------------------------------------------ chunk helper --

// chunkMu serializes "Chunker.Next + copy of the returned chunk": Next hands
// out Data that aliases a pooled buffer (see the retained-chunk case class), so
// the driver copies each chunk (by sending it through the wire encoding, as a
// sender does) before anybody else may call Next.
var chunkMu sync.Mutex

// transport encodes the chunk as the sub-command of a LOAD_CHUNK command and
// decodes it again, which is what the Raft log does to it.
func transport(ch *proto.LoadChunkRequest) (*proto.LoadChunkRequest, []byte, error) {
	sub, err := command.MarshalLoadChunkRequest(ch)
	if err != nil {
		return nil, nil, err
	}
	b, err := command.Marshal(&proto.Command{Type: proto.Command_COMMAND_TYPE_LOAD_CHUNK, SubCommand: sub})
	if err != nil {
		return nil, nil, err
	}
	var c proto.Command
	if err := command.Unmarshal(b, &c); err != nil {
		return nil, nil, err
	}
	var out proto.LoadChunkRequest
	if err := command.UnmarshalLoadChunkRequest(c.SubCommand, &out); err != nil {
		return nil, nil, err
	}
	return &out, b, nil
}

type stream struct {
	chunks []*proto.LoadChunkRequest // decoded copies
	wire   [][]byte                  // marshalled LOAD_CHUNK commands
	abort  []byte                    // marshalled Abort command
	endErr error                     // error that ended Next() (io.EOF normally)
	calls  int
}

// split runs a Chunker to the end. retain=true keeps the chunks exactly as
// Next returned them and encodes them only after the last Next call.
func split(r io.Reader, cs int64, maxCalls int, retain bool) (*stream, error) {
	chunkMu.Lock()
	defer chunkMu.Unlock()
	ck := chunking.NewChunker(r, cs)
	st := &stream{}
	var held []*proto.LoadChunkRequest
	for {
		st.calls++
		if st.calls > maxCalls {
			return st, fmt.Errorf("chunker did not finish after %d calls", maxCalls)
		}
		ch, err := ck.Next()
		if err != nil {
			st.endErr = err
			break
		}
		if retain {
			held = append(held, ch)
			continue
		}
		cp, w, err := transport(ch)
		if err != nil {
			return st, err
		}
		st.chunks = append(st.chunks, cp)
		st.wire = append(st.wire, w)
	}
	for _, ch := range held {
		cp, w, err := transport(ch)
		if err != nil {
			return st, err
		}
		st.chunks = append(st.chunks, cp)
		st.wire = append(st.wire, w)
	}
	_, w, err := transport(ck.Abort())
	if err != nil {
		return st, err
	}
	st.abort = w
	return st, nil
}

// wellFormed checks the shape of a chunk sequence for a non-empty input.
func wellFormed(st *stream) (key, what string) {
	if st.endErr != io.EOF {
		return "chunker:error", fmt.Sprintf("Next ended with %v", st.endErr)
	}
	k := len(st.chunks)
	if k == 0 {
		return "chunker:no-chunks", "non-empty input produced no chunk"
	}
	id := st.chunks[0].StreamId
	if id == "" {
		return "chunker:empty-stream-id", "empty stream id"
	}
	for i, ch := range st.chunks {
		if ch.StreamId != id {
			return "chunker:stream-id-changes", fmt.Sprintf("chunk %d has stream id %q, first had %q", i+1, ch.StreamId, id)
		}
		if ch.SequenceNum != int64(i+1) {
			return "chunker:sequence", fmt.Sprintf("chunk %d has sequence number %d", i+1, ch.SequenceNum)
		}
		if ch.Abort {
			return "chunker:abort-flag", fmt.Sprintf("chunk %d has Abort set", i+1)
		}
		if ch.IsLast != (i == k-1) {
			if i == k-1 {
				return "chunker:no-last-chunk", fmt.Sprintf("Next returned io.EOF after %d chunks but none carried IsLast: the receiver never completes the stream", k)
			}
			return "chunker:early-last", fmt.Sprintf("chunk %d of %d has IsLast", i+1, k)
		}
	}
	return "", ""
}

func sum(b []byte) string {
	h := sha256.Sum256(b)
	return hex.EncodeToString(h[:8])
}

func firstDiff(a, b []byte) string {
	n := min(len(a), len(b))
	for i := 0; i < n; i++ {
		if a[i] != b[i] {
			return fmt.Sprintf("first difference at offset %d (len got %d, want %d)", i, len(a), len(b))
		}
	}
	return fmt.Sprintf("length got %d, want %d", len(a), len(b))
}

// -------------------------------------------------------- data generation --

func genData(rng *rand.Rand, n int) []byte {
	b := make([]byte, n)
	switch rng.IntN(4) {
	case 0: // incompressible
		for i := range b {
			b[i] = byte(rng.Uint32())
		}
	case 1: // runs
		for i := 0; i < n; {
			v := byte(rng.Uint32())
			l := 1 + rng.IntN(64)
			for j := 0; j < l && i < n; j++ {
				b[i] = v
				i++
			}
		}
	case 2: // text-like
		const al = "abcdefghij \nINSERT INTO t VALUES(0123456789);"
		for i := range b {
			b[i] = al[rng.IntN(len(al))]
		}
	default: // counter (position dependent, catches shifted/reordered blocks)
		for i := range b {
			b[i] = byte(i*7 + i>>8)
		}
	}
	return b
}

// --------------------------------------------------------- function level --

type fnCase struct {
	Class  string `json:"class"`
	Len    int    `json:"len"`
	Chunk  int64  `json:"chunk_size"`
	Reader string `json:"reader"`
	Mut    string `json:"mutation,omitempty"`
	Pos    int    `json:"pos,omitempty"`
	Stream uint64 `json:"rng_stream"`
	Chunks int    `json:"chunks,omitempty"`
}

type env struct {
	c   *vf.Ctx
	dir string
}

// reassemble feeds chunks to one Dechunker; deliveries marked reject must
// fail, all others must succeed; returns the bytes of the file.
type delivery struct {
	ch     *proto.LoadChunkRequest
	reject bool
	why    string
}

func (e *env) reassemble(dels []delivery) (got []byte, key, what string) {
	d, err := chunking.NewDechunker(e.dir)
	if err != nil {
		return nil, "harness", err.Error()
	}
	closed := false
	var path string
	defer func() {
		if !closed {
			path, _ = d.Close()
		}
		os.Remove(path)
	}()
	sawLast := false
	for i, dl := range dels {
		last, err := d.WriteChunk(dl.ch)
		if dl.reject {
			e.c.Count("fn_rejections_expected", 1)
			if err == nil {
				return nil, "dechunker:accepted:" + dl.why, fmt.Sprintf("delivery %d (%s, seq %d) was accepted", i+1, dl.why, dl.ch.SequenceNum)
			}
			e.c.Count("fn_rejections_seen", 1)
			continue
		}
		if err != nil {
			return nil, "dechunker:rejected-valid-chunk", fmt.Sprintf("delivery %d (seq %d) failed: %v", i+1, dl.ch.SequenceNum, err)
		}
		if last != dl.ch.IsLast {
			return nil, "dechunker:last-flag", fmt.Sprintf("WriteChunk returned last=%v for chunk with IsLast=%v", last, dl.ch.IsLast)
		}
		sawLast = sawLast || last
	}
	if !sawLast {
		return nil, "dechunker:never-last", "no delivery completed the stream"
	}
	path, err = d.Close()
	closed = true
	if err != nil {
		return nil, "dechunker:close", err.Error()
	}
	got, err = os.ReadFile(path)
	if err != nil {
		return nil, "harness", err.Error()
	}
	return got, "", ""
}

func plain(chs []*proto.LoadChunkRequest) []delivery {
	out := make([]delivery, len(chs))
	for i, ch := range chs {
		out[i] = delivery{ch: ch}
	}
	return out
}

// roundTrip: split + reassemble, no mutation. Returns the finding key ("" =
// held) and a description.
func (e *env) roundTrip(fc *fnCase, retain bool) (key, what string) {
	c := e.c
	rng := c.Rand(fc.Stream)
	data := genData(rng, fc.Len)
	kind := 0
	for i, n := range readerNames {
		if n == fc.Reader {
			kind = i
		}
	}
	maxCalls := fc.Len/int(max(fc.Chunk, 1)) + 8
	if kind != rkPlain && kind != rkDataEOF {
		maxCalls = fc.Len + 8
	}
	st, err := split(makeReader(kind, data, rng), fc.Chunk, maxCalls, retain)
	c.Count("chunks_produced", int64(len(st.chunks)))
	if err != nil {
		return "chunker:harness-or-runaway", err.Error()
	}
	fc.Chunks = len(st.chunks)
	if fc.Len == 0 && len(st.chunks) == 0 && st.endErr == io.EOF {
		// Nothing to reassemble: "no chunk at all" is accepted for the empty
		// stream (chunks that reassemble to nothing would be, too).
		c.Count("empty_stream_no_chunks", 1)
		return "", ""
	}
	if key, what := wellFormed(st); key != "" {
		if key == "chunker:no-last-chunk" {
			key += ":" + boundaryClass(*fc, kind)
		}
		return key, what
	}
	if len(st.chunks) >= 2 || kind != rkPlain {
		c.Nontrivial(fmt.Sprintf("rt|%v|%d|%d|%s|%s", retain, fc.Len, fc.Chunk, fc.Reader, sum(data)))
	}
	if len(st.chunks) > 0 && len(st.chunks[len(st.chunks)-1].Data) == 0 {
		c.Count("final_empty_chunk_streams", 1)
	}
	got, key, what := e.reassemble(plain(st.chunks))
	if key != "" {
		return key, what
	}
	c.Count("bytes_compared", int64(len(data)))
	if !bytes.Equal(got, data) {
		return "reassembly:bytes-differ", "reassembled file differs from input: " + firstDiff(got, data)
	}
	return "", ""
}

func (e *env) runRoundTrip(fc fnCase) {
	c := e.c
	key, what := e.roundTrip(&fc, false)
	c.Eval(1)
	if key != "" {
		c.Violation(key, fmt.Sprintf("%s [len=%d chunk=%d reader=%s chunks=%d]", what, fc.Len, fc.Chunk, fc.Reader, fc.Chunks), fc)
		return
	}
	c.Held(1)
	if fc.Class == "fn-rand" && fc.Chunks > 2 {
		c.Sample(fc)
	}
}

// runRetained: all chunks are collected first (as a pipelining sender, or a
// sender serving two streams, would hold them) and only then encoded and
// reassembled. A failure is attributed to retention only if the very same
// input passes when every chunk is encoded before the next call to Next.
func (e *env) runRetained(fc fnCase) {
	c := e.c
	key, what := e.roundTrip(&fc, true)
	c.Eval(1)
	if key == "" {
		c.Held(1)
		return
	}
	if k2, _ := e.roundTrip(&fc, false); k2 == "" {
		key = "chunker:retained-chunk-data-overwritten-by-later-next"
		what = "chunks kept until the chunker was exhausted no longer reassemble to the input (" + what + "); the same input passes when each chunk is encoded before the next Next call"
	}
	c.Violation(key, fmt.Sprintf("%s [len=%d chunk=%d chunks=%d]", what, fc.Len, fc.Chunk, fc.Chunks), fc)
}

// boundaryClass names the situation in which the IsLast chunk went missing.
func boundaryClass(fc fnCase, kind int) string {
	if kind == rkDataEOF || kind == rkShortDataEOF {
		return "data-with-eof-fills-chunk"
	}
	return "reader-" + fc.Reader
}

var fnMutations = []string{"duplicate", "swap", "drop", "foreign-same-seq", "foreign-next-seq", "replay-first", "manager-foreign", "manager-interleave", "manager-stale-after-delete"}

// runMutation: a base stream with >= 2 chunks, one mutation at position pos.
func (e *env) runMutation(fc fnCase) {
	c := e.c
	rng := c.Rand(fc.Stream)
	data := genData(rng, fc.Len)
	st, err := split(bytes.NewReader(data), fc.Chunk, fc.Len/int(fc.Chunk)+8, false)
	c.Eval(1)
	if err != nil {
		c.Violation("chunker:harness-or-runaway", err.Error(), fc)
		return
	}
	if key, what := wellFormed(st); key != "" {
		c.Violation(key, what, fc)
		return
	}
	k := len(st.chunks)
	fc.Chunks = k
	if k < 2 {
		c.Inconclusive("mutation base stream has fewer than 2 chunks")
		return
	}
	other := genData(rng, fc.Len)
	ost, err := split(bytes.NewReader(other), fc.Chunk, fc.Len/int(fc.Chunk)+8, false)
	if err != nil || len(ost.chunks) != k {
		c.Violation("chunker:harness-or-runaway", fmt.Sprintf("second stream: %v chunks=%d want %d", err, len(ost.chunks), k), fc)
		return
	}
	if ost.chunks[0].StreamId == st.chunks[0].StreamId {
		c.Violation("chunker:stream-id-collision", "two chunkers produced the same stream id "+ost.chunks[0].StreamId, fc)
		return
	}
	p := min(fc.Pos, k-1) // 0-based index of the chunk the mutation is about
	var dels []delivery
	chs := st.chunks
	switch fc.Mut {
	case "duplicate": // 1..p+1, p+1 again, rest
		dels = append(dels, plain(chs[:p+1])...)
		dels = append(dels, delivery{ch: chs[p], reject: true, why: "duplicate"})
		dels = append(dels, plain(chs[p+1:])...)
	case "swap": // chunk p+2 arrives before p+1 (needs p+1 < k)
		if p+1 >= k {
			p = k - 2
		}
		dels = append(dels, plain(chs[:p])...)
		dels = append(dels, delivery{ch: chs[p+1], reject: true, why: "out-of-order"})
		dels = append(dels, plain(chs[p:])...)
	case "drop": // chunk p+1 lost, later one arrives
		if p+1 >= k {
			p = k - 2
		}
		later := p + 1 + rng.IntN(k-p-1)
		dels = append(dels, plain(chs[:p])...)
		dels = append(dels, delivery{ch: chs[later], reject: true, why: "gap"})
		dels = append(dels, plain(chs[p:])...)
	case "foreign-same-seq": // other stream's chunk with the number just accepted
		dels = append(dels, plain(chs[:p+1])...)
		dels = append(dels, delivery{ch: ost.chunks[p], reject: true, why: "foreign-stream"})
		dels = append(dels, plain(chs[p+1:])...)
	case "foreign-next-seq": // other stream's chunk with exactly the expected number
		if p+1 >= k {
			p = k - 2
		}
		dels = append(dels, plain(chs[:p+1])...)
		dels = append(dels, delivery{ch: ost.chunks[p+1], reject: true, why: "foreign-stream"})
		dels = append(dels, plain(chs[p+1:])...)
	case "replay-first": // chunk 1 again after p+1 chunks
		dels = append(dels, plain(chs[:p+1])...)
		dels = append(dels, delivery{ch: chs[0], reject: true, why: "replayed-first"})
		dels = append(dels, plain(chs[p+1:])...)
	case "manager-foreign", "manager-interleave", "manager-stale-after-delete":
		e.runManager(fc, st, ost, data, other, p)
		return
	}
	c.Nontrivial(fmt.Sprintf("mut|%s|%d|%d|%d|%s", fc.Mut, fc.Len, fc.Chunk, p, sum(data)))
	got, key, what := e.reassemble(dels)
	if key != "" {
		c.Violation(key, fmt.Sprintf("%s [mutation=%s pos=%d len=%d chunk=%d chunks=%d]", what, fc.Mut, p, fc.Len, fc.Chunk, k), fc)
		return
	}
	c.Count("bytes_compared", int64(len(data)))
	if !bytes.Equal(got, data) {
		c.Violation("reassembly:bytes-differ-after-rejected-chunk", fmt.Sprintf("%s [mutation=%s pos=%d len=%d chunk=%d]", firstDiff(got, data), fc.Mut, p, fc.Len, fc.Chunk), fc)
		return
	}
	c.Held(1)
	if p > 0 {
		c.Sample(fc)
	}
}

func dechunkerFiles(dir string) []string {
	ents, _ := os.ReadDir(dir)
	var out []string
	for _, en := range ents {
		if strings.HasPrefix(en.Name(), "dechunker-") {
			out = append(out, en.Name())
		}
	}
	return out
}

// runManager: the same through a DechunkerManager (own directory).
func (e *env) runManager(fc fnCase, a, b *stream, da, db []byte, p int) {
	c := e.c
	dir, err := os.MkdirTemp(e.dir, "mgr-")
	if err != nil {
		c.Violation("harness", err.Error(), fc)
		return
	}
	defer os.RemoveAll(dir)
	mgr, err := chunking.NewDechunkerManager(dir)
	if err != nil {
		c.Violation("harness", err.Error(), fc)
		return
	}
	if n := dechunkerFiles(dir); len(n) != 0 {
		c.Violation("manager:probe-file-left", fmt.Sprintf("NewDechunkerManager left %v", n), fc)
		return
	}
	k := len(a.chunks)
	c.Nontrivial(fmt.Sprintf("mut|%s|%d|%d|%d|%s", fc.Mut, fc.Len, fc.Chunk, p, sum(da)))
	write := func(ch *proto.LoadChunkRequest) (bool, error) {
		d, err := mgr.Get(ch.StreamId)
		if err != nil {
			return false, err
		}
		return d.WriteChunk(ch)
	}
	finish := func(ch *proto.LoadChunkRequest, want []byte) bool {
		d, _ := mgr.Get(ch.StreamId)
		path, err := d.Close()
		mgr.Delete(ch.StreamId)
		if err != nil {
			c.Violation("dechunker:close", err.Error(), fc)
			return false
		}
		got, _ := os.ReadFile(path)
		os.Remove(path)
		c.Count("bytes_compared", int64(len(want)))
		if !bytes.Equal(got, want) {
			c.Violation("reassembly:bytes-differ:"+fc.Mut, fmt.Sprintf("%s [pos=%d len=%d chunk=%d]", firstDiff(got, want), p, fc.Len, fc.Chunk), fc)
			return false
		}
		return true
	}
	switch fc.Mut {
	case "manager-foreign":
		// While stream A is at p+1 chunks, a chunk of stream B with a
		// sequence number > 1 arrives: it belongs to a stream the manager has
		// not seen start, and must be refused; A must be unaffected.
		if p+1 >= k {
			p = k - 2
		}
		for i := 0; i <= p; i++ {
			if _, err := write(a.chunks[i]); err != nil {
				c.Violation("dechunker:rejected-valid-chunk", err.Error(), fc)
				return
			}
		}
		c.Count("fn_rejections_expected", 1)
		if _, err := write(b.chunks[p+1]); err == nil {
			c.Violation("dechunker:accepted:foreign-stream-mid-sequence", fmt.Sprintf("chunk seq %d of a stream never started was accepted", p+2), fc)
			return
		}
		c.Count("fn_rejections_seen", 1)
		for i := p + 1; i < k; i++ {
			if _, err := write(a.chunks[i]); err != nil {
				c.Violation("dechunker:rejected-valid-chunk", err.Error(), fc)
				return
			}
		}
		if !finish(a.chunks[0], da) {
			return
		}
	case "manager-interleave":
		// Two streams advance alternately (seeded schedule).
		rng := c.Rand(fc.Stream ^ 0x5555)
		ia, ib := 0, 0
		for ia < k || ib < k {
			pickA := ib >= k || (ia < k && rng.IntN(2) == 0)
			var ch *proto.LoadChunkRequest
			if pickA {
				ch = a.chunks[ia]
				ia++
			} else {
				ch = b.chunks[ib]
				ib++
			}
			last, err := write(ch)
			if err != nil {
				c.Violation("dechunker:rejected-valid-chunk:interleaved", err.Error(), fc)
				return
			}
			if last != ch.IsLast {
				c.Violation("dechunker:last-flag", "last flag wrong with interleaved streams", fc)
				return
			}
		}
		if !finish(a.chunks[0], da) || !finish(b.chunks[0], db) {
			return
		}
		c.Count("interleaved_stream_pairs", 1)
	case "manager-stale-after-delete":
		// Stream deleted after p+1 chunks (as the command processor does on
		// Abort); the next chunk of it must not be accepted as a continuation.
		if p+1 >= k {
			p = k - 2
		}
		for i := 0; i <= p; i++ {
			if _, err := write(a.chunks[i]); err != nil {
				c.Violation("dechunker:rejected-valid-chunk", err.Error(), fc)
				return
			}
		}
		d, _ := mgr.Get(a.chunks[0].StreamId)
		path, _ := d.Close()
		mgr.Delete(a.chunks[0].StreamId)
		os.Remove(path)
		c.Count("fn_rejections_expected", 1)
		if _, err := write(a.chunks[p+1]); err == nil {
			c.Violation("dechunker:accepted:chunk-of-deleted-stream", fmt.Sprintf("chunk seq %d accepted after its stream was deleted", p+2), fc)
			return
		}
		c.Count("fn_rejections_seen", 1)
	}
	mgr.Close()
	c.Held(1)
}

// ------------------------------------------------- command-processor level --

type image struct {
	name string
	data []byte
	page int
}

func makeImages(c *vf.Ctx, dir string) ([]image, error) {
	specs := []struct {
		page, rows, blob int
	}{
		{512, 0, 0}, {512, 40, 30}, {1024, 200, 50}, {4096, 0, 0}, {4096, 300, 100},
		{4096, 2000, 200}, {8192, 500, 700}, {65536, 10, 10}, {4096, 60, 9000},
	}
	if !c.Quick() {
		specs = append(specs, struct{ page, rows, blob int }{4096, 20000, 150}, struct{ page, rows, blob int }{2048, 3000, 1500})
	}
	var out []image
	rng := c.Rand(900)
	for i, s := range specs {
		p := filepath.Join(dir, fmt.Sprintf("img-%d.db", i))
		db, err := sqlref.Open(p)
		if err != nil {
			return nil, err
		}
		stmts := []string{
			fmt.Sprintf("PRAGMA page_size=%d", s.page),
			"CREATE TABLE t(id INTEGER PRIMARY KEY, v BLOB, s TEXT)",
			"CREATE INDEX ti ON t(s)",
		}
		for _, q := range stmts {
			if _, err := db.Exec(q); err != nil {
				return nil, fmt.Errorf("%s: %v", q, err)
			}
		}
		tx, _ := db.Begin()
		for r := 0; r < s.rows; r++ {
			b := make([]byte, rng.IntN(s.blob+1))
			for j := range b {
				b[j] = byte(rng.Uint32())
			}
			if _, err := tx.Exec("INSERT INTO t(v,s) VALUES(?,?)", b, fmt.Sprintf("row-%d-%d", i, r)); err != nil {
				return nil, err
			}
		}
		if err := tx.Commit(); err != nil {
			return nil, err
		}
		db.Close()
		data, err := os.ReadFile(p)
		if err != nil {
			return nil, err
		}
		os.Remove(p)
		out = append(out, image{name: fmt.Sprintf("page%d-rows%d-blob%d", s.page, s.rows, s.blob), data: data, page: s.page})
	}
	return out, nil
}

type cpCase struct {
	Class  string `json:"class"`
	Image  string `json:"image"`
	Len    int    `json:"len"`
	Chunk  int64  `json:"chunk_size"`
	Kind   string `json:"kind"`
	Pos    int    `json:"pos"`
	Chunks int    `json:"chunks"`
	Image2 string `json:"image2,omitempty"`
}

// respErr digs the (unexported) error out of the FSM response.
func respErr(resp any) (bool, string) {
	v := reflect.ValueOf(resp)
	if v.Kind() == reflect.Pointer {
		v = v.Elem()
	}
	if v.Kind() != reflect.Struct {
		return false, ""
	}
	f := v.FieldByName("error")
	if !f.IsValid() || f.IsNil() {
		return false, ""
	}
	x := f.Elem()
	if x.Kind() == reflect.Pointer {
		x = x.Elem()
	}
	msg := "error"
	if x.Kind() == reflect.Struct {
		for _, n := range []string{"s", "msg"} {
			if s := x.FieldByName(n); s.IsValid() && s.Kind() == reflect.String {
				msg = s.String()
			}
		}
	}
	return true, msg
}

// swapObs is filled by the hook at "swap.after_rename": the bytes of the file
// that has just been moved into place as the new database.
var swapObs struct {
	mu    sync.Mutex
	path  string
	files [][]byte
}

var cpKinds = []string{"clean", "duplicate", "swap", "drop", "foreign-mid", "interleave", "abort", "abort-then-reload", "stale-after-complete"}

type cpEnv struct {
	c      *vf.Ctx
	dir    string
	db     *sql.SwappableDB
	proc   *store.CommandProcessor
	mgr    *chunking.DechunkerManager
	dbPath string
	cc     cpCase
	failed bool
}

func (e *cpEnv) fail(key, what string) {
	if !e.failed {
		e.failed = true
		e.c.Violation(key, fmt.Sprintf("%s [kind=%s pos=%d image=%s len=%d chunk=%d chunks=%d]", what, e.cc.Kind, e.cc.Pos, e.cc.Image, e.cc.Len, e.cc.Chunk, e.cc.Chunks), e.cc)
	}
}

func (e *cpEnv) swaps() int {
	swapObs.mu.Lock()
	defer swapObs.mu.Unlock()
	return len(swapObs.files)
}

// send processes one wire command; wantErr tells whether an error response
// is required (true), forbidden (false).
func (e *cpEnv) send(wire []byte, wantErr bool, why string) {
	if e.failed {
		return
	}
	before := e.swaps()
	_, _, resp := e.proc.Process(wire, e.db)
	e.c.Count("cp_commands_processed", 1)
	isErr, msg := respErr(resp)
	if wantErr {
		e.c.Count("cp_rejections_expected", 1)
		if !isErr {
			e.fail("processor:accepted:"+why, "chunk that must be refused got a success response")
			return
		}
		e.c.Count("cp_rejections_seen", 1)
		if e.swaps() != before {
			e.fail("processor:swap-on-rejected-chunk:"+why, "database swapped while the chunk was refused")
		}
		return
	}
	if isErr {
		e.fail("processor:rejected-valid:"+why, "valid command answered with error: "+msg)
	}
}

// expectLoaded checks that exactly one more swap happened and that both the
// file moved into place and the database file now on disk equal want.
func (e *cpEnv) expectLoaded(before int, want []byte) {
	if e.failed {
		return
	}
	swapObs.mu.Lock()
	files := swapObs.files
	swapObs.mu.Unlock()
	if len(files) != before+1 {
		e.fail("processor:load-not-applied", fmt.Sprintf("last chunk processed but %d swaps observed", len(files)-before))
		return
	}
	got := files[len(files)-1]
	e.c.Count("bytes_compared", int64(len(want)))
	if !bytes.Equal(got, want) {
		e.fail("reassembly:bytes-differ:processor", "file moved into place differs from the stream: "+firstDiff(got, want))
		return
	}
	onDisk, err := os.ReadFile(e.dbPath)
	if err != nil || !bytes.Equal(onDisk, want) {
		e.fail("reassembly:bytes-differ:database-file", fmt.Sprintf("database file after load differs from the stream (%v)", err))
		return
	}
	if left := dechunkerFiles(e.dir); len(left) != 0 {
		e.fail("processor:file-left-after-complete", fmt.Sprintf("files left after completed stream: %v", left))
	}
}

func runCP(c *vf.Ctx, root string, n int, cc cpCase, a, b image) {
	dir := filepath.Join(root, fmt.Sprintf("cp-%d", n))
	if err := os.MkdirAll(dir, 0755); err != nil {
		c.Violation("harness", err.Error(), cc)
		return
	}
	defer os.RemoveAll(dir)
	dbPath := filepath.Join(dir, "db.sqlite")
	// Initial database with a marker, built with the stock driver.
	{
		rdb, err := sqlref.Open(dbPath)
		if err != nil {
			c.Violation("harness", err.Error(), cc)
			return
		}
		rdb.Exec("CREATE TABLE marker(x)")
		rdb.Exec("INSERT INTO marker VALUES(42)")
		rdb.Close()
	}
	initial, _ := os.ReadFile(dbPath)
	db, err := sql.OpenSwappable(dbPath, nil, false, false, 0)
	if err != nil {
		c.Violation("harness", "OpenSwappable: "+err.Error(), cc)
		return
	}
	defer db.Close()
	mgr, err := chunking.NewDechunkerManager(dir)
	if err != nil {
		c.Violation("harness", err.Error(), cc)
		return
	}
	defer mgr.Close()
	e := &cpEnv{c: c, dir: dir, db: db, mgr: mgr, dbPath: dbPath, cc: cc,
		proc: store.NewCommandProcessor(log.New(io.Discard, "", 0), mgr)}
	swapObs.mu.Lock()
	swapObs.path = dbPath
	swapObs.files = nil
	swapObs.mu.Unlock()

	sa, err := split(bytes.NewReader(a.data), cc.Chunk, len(a.data)/int(cc.Chunk)+8, false)
	c.Eval(1)
	if err != nil {
		c.Violation("chunker:harness-or-runaway", err.Error(), cc)
		return
	}
	if key, what := wellFormed(sa); key != "" {
		c.Violation(key, what, cc)
		return
	}
	k := len(sa.chunks)
	e.cc.Chunks = k
	p := cc.Pos
	if p > k-1 {
		p = k - 1
	}
	e.cc.Pos = p
	if k >= 2 || cc.Kind == "abort" || cc.Kind == "abort-then-reload" {
		c.Nontrivial(fmt.Sprintf("cp|%s|%s|%d|%d", cc.Kind, cc.Image, cc.Chunk, p))
	}
	inOrder := func(from, to int) {
		for i := from; i < to; i++ {
			before := e.swaps()
			e.send(sa.wire[i], false, "in-order")
			if i == k-1 {
				e.expectLoaded(before, a.data)
			} else if !e.failed && e.swaps() != before {
				e.fail("processor:early-swap", fmt.Sprintf("database swapped after chunk %d of %d", i+1, k))
			}
		}
	}
	unchanged := func(what string) {
		if e.failed {
			return
		}
		cur, _ := os.ReadFile(dbPath)
		if !bytes.Equal(cur, initial) {
			e.fail("processor:database-changed:"+what, "database file changed although no stream completed")
		}
	}
	needTwo := func() bool {
		if k < 2 {
			c.Inconclusive("cp mutation needs >= 2 chunks")
			return false
		}
		return true
	}
	switch cc.Kind {
	case "clean":
		inOrder(0, k)
	case "duplicate":
		inOrder(0, p+1)
		if p+1 < k {
			e.send(sa.wire[p], true, "duplicate")
			inOrder(p+1, k)
		} else if k >= 2 {
			// duplicate of the last chunk after completion: its stream is gone
			e.send(sa.wire[p], true, "duplicate-of-last")
		}
	case "swap":
		if !needTwo() {
			return
		}
		if p+1 >= k {
			p = k - 2
		}
		inOrder(0, p)
		e.send(sa.wire[p+1], true, "out-of-order")
		if p == 0 {
			// The refused chunk opened the stream's dechunker; continuing is
			// still legal because the dechunker is still waiting for chunk 1.
		}
		inOrder(p, k)
	case "drop":
		if !needTwo() {
			return
		}
		if p+1 >= k {
			p = k - 2
		}
		inOrder(0, p)
		e.send(sa.wire[p+1], true, "gap")
		unchanged("gap")
		inOrder(p, k)
	case "foreign-mid", "interleave":
		sb, err := split(bytes.NewReader(b.data), cc.Chunk, len(b.data)/int(cc.Chunk)+8, false)
		if err != nil {
			c.Violation("chunker:harness-or-runaway", err.Error(), cc)
			return
		}
		kb := len(sb.chunks)
		if cc.Kind == "foreign-mid" {
			if kb < 2 {
				c.Inconclusive("foreign stream has < 2 chunks")
				return
			}
			inOrder(0, p+1)
			j := 1 + p%(kb-1) // a sequence number > 1 of the other stream
			e.send(sb.wire[j], true, "foreign-stream-mid-sequence")
			if p+1 < k {
				unchanged("foreign")
			}
			// the sender of the refused stream gives up: removes the
			// dechunker the refused chunk created
			e.send(sb.abort, false, "abort")
			inOrder(p+1, k)
		} else {
			rng := c.Rand(uint64(n) ^ 0xabcdef)
			ia, ib := 0, 0
			for (ia < k || ib < kb) && !e.failed {
				pickA := ib >= kb || (ia < k && rng.IntN(2) == 0)
				before := e.swaps()
				if pickA {
					e.send(sa.wire[ia], false, "interleaved")
					ia++
					if ia == k {
						e.expectLoadedInterleaved(before, a.data, ib > 0 && ib < kb)
					}
				} else {
					e.send(sb.wire[ib], false, "interleaved")
					ib++
					if ib == kb {
						e.expectLoadedInterleaved(before, b.data, ia > 0 && ia < k)
					}
				}
			}
			c.Count("interleaved_stream_pairs", 1)
		}
	case "abort", "abort-then-reload":
		// p chunks (0..k-1) then Abort.
		for i := 0; i < p; i++ {
			e.send(sa.wire[i], false, "in-order")
		}
		if !e.failed && p > 0 && len(dechunkerFiles(dir)) == 0 {
			c.Count("abort_without_partial_file", 1) // observation only
		}
		if p > 0 {
			c.Count("aborts_with_partial_data", 1)
		}
		e.send(sa.abort, false, "abort")
		c.Count("aborts_processed", 1)
		if left := dechunkerFiles(dir); len(left) != 0 && !e.failed {
			e.fail("abort:partial-file-left", fmt.Sprintf("after Abort at position %d the directory still holds %v", p, left))
		}
		unchanged("abort")
		if e.swaps() != 0 {
			e.fail("abort:swap", "database swapped by an aborted stream")
		}
		if cc.Kind == "abort" {
			// a later chunk of the aborted stream must not continue it
			if p >= 1 && p < k {
				e.send(sa.wire[p], true, "chunk-of-aborted-stream")
				unchanged("after-abort")
				e.send(sa.abort, false, "abort")
				if left := dechunkerFiles(dir); len(left) != 0 && !e.failed {
					e.fail("abort:partial-file-left", fmt.Sprintf("after second Abort the directory still holds %v", left))
				}
			}
		} else {
			// the sender starts over with a new stream of the same bytes
			sa2, err := split(bytes.NewReader(a.data), cc.Chunk, len(a.data)/int(cc.Chunk)+8, false)
			if err != nil {
				c.Violation("chunker:harness-or-runaway", err.Error(), cc)
				return
			}
			sa = sa2
			inOrder(0, k)
		}
	case "stale-after-complete":
		if !needTwo() {
			return
		}
		inOrder(0, k)
		j := 1 + p%(k-1)
		e.send(sa.wire[j], true, "chunk-of-completed-stream")
		after, _ := os.ReadFile(dbPath)
		if !e.failed && !bytes.Equal(after, a.data) {
			e.fail("processor:database-changed:stale-chunk", "database changed by a chunk of a completed stream")
		}
		if left := dechunkerFiles(dir); len(left) != 0 {
			c.Count("files_left_by_refused_chunk_of_unknown_stream", int64(len(left))) // observation: not an aborted stream
		}
		e.send(sa.abort, false, "abort")
		if left := dechunkerFiles(dir); len(left) != 0 && !e.failed {
			e.fail("abort:partial-file-left", fmt.Sprintf("after Abort the directory still holds %v", left))
		}
	}
	if !e.failed {
		c.Held(1)
		if k >= 3 && p > 0 {
			c.Sample(e.cc)
		}
	}
}

// expectLoadedInterleaved is expectLoaded, except that files of the other,
// still running stream may legitimately be present in the directory.
func (e *cpEnv) expectLoadedInterleaved(before int, want []byte, otherRunning bool) {
	if e.failed {
		return
	}
	swapObs.mu.Lock()
	files := swapObs.files
	swapObs.mu.Unlock()
	if len(files) != before+1 {
		e.fail("processor:load-not-applied", fmt.Sprintf("last chunk processed but %d swaps observed", len(files)-before))
		return
	}
	e.c.Count("bytes_compared", int64(len(want)))
	if got := files[len(files)-1]; !bytes.Equal(got, want) {
		e.fail("reassembly:bytes-differ:interleaved", "file moved into place differs from its stream: "+firstDiff(got, want))
		return
	}
	left := dechunkerFiles(e.dir)
	wantLeft := 0
	if otherRunning {
		wantLeft = 1
	}
	if len(left) != wantLeft {
		e.fail("processor:file-left-after-complete", fmt.Sprintf("%d dechunker files present, expected %d", len(left), wantLeft))
	}
}

// ------------------------------------------------------------------- run --

func logUniform(rng *rand.Rand, lo, hi int) int {
	// integer roughly log-uniform in [lo,hi]
	bitsLo, bitsHi := 0, 0
	for v := lo; v > 1; v >>= 1 {
		bitsLo++
	}
	for v := hi; v > 1; v >>= 1 {
		bitsHi++
	}
	b := bitsLo + rng.IntN(bitsHi-bitsLo+1)
	v := (1 << b) + rng.IntN(1<<b)
	return min(max(v, lo), hi)
}

func run(c *vf.Ctx) {
	c.Rule("(1) every length 0..3c+1 for chunk sizes c in {1,2,3,7,64} x 6 reader behaviours (full, one-byte, short, final data together with io.EOF, zero-length reads, short + data-with-EOF), chunked by the real Chunker, each chunk sent through command.Marshal/Unmarshal, reassembled by the real Dechunker; (2) seeded lengths up to 4 MiB (quick 1 MiB) with chunk sizes up to 3 MiB incl. forced exact multiples; (3) every mutation {duplicate, swap, drop, foreign same/next seq, replayed first, manager: foreign mid-sequence, interleaved streams, chunk of deleted stream} at every position of small streams plus seeded larger ones; (4) real SQLite images (page sizes 512..65536) fed chunk by chunk as LOAD_CHUNK commands to store.CommandProcessor with the same mutations and Abort at every position, bytes observed at hook swap.after_rename and in the database file; (5) chunks retained until the chunker is exhausted. non-trivial = stream of >=2 chunks, a non-plain reader, or an abort; distinct by (class, mutation, position, length, chunk size, content hash)")
	c.Assume("byte equality of the reassembled file with the generated input is the reference; 'rejected' means WriteChunk / the FSM response carries an error and the bytes finally reassembled are unaffected")
	c.Assume("a chunk with sequence number 1 of an unknown stream id is a legitimate start of a new stream, so only foreign chunks with sequence number > 1 (through the manager) or any foreign chunk handed to a Dechunker already bound to a stream must be refused")
	c.Assume("'aborted stream' = an Abort chunk processed by the command processor; files left by a refused chunk of a never-started stream are counted, not judged")

	root := vf.TempDir("c28")
	defer os.RemoveAll(root)

	// ---- case lists
	var rts []fnCase
	stream := uint64(1)
	for _, cs := range []int64{1, 2, 3, 7, 64} {
		for l := 0; l <= int(3*cs+1); l++ {
			for k := 0; k < nReaderKinds; k++ {
				stream++
				rts = append(rts, fnCase{Class: "fn-exh", Len: l, Chunk: cs, Reader: readerNames[k], Stream: stream})
			}
		}
	}
	{
		rng := c.Rand(2)
		maxLen := c.N(1<<20, 4<<20)
		for i := 0; i < c.N(260, 5000); i++ {
			l := logUniform(rng, 1, maxLen)
			cs := int64(logUniform(rng, 1, 1<<20))
			if rng.IntN(12) == 0 {
				cs = int64(1<<20 + rng.IntN(2<<20)) // beyond the chunker's internal 1 MiB buffer
			}
			for int64(l)/cs > 1500 {
				cs *= 2
			}
			if rng.IntN(3) == 0 { // exact multiple of the chunk size
				m := 1 + rng.IntN(6)
				if int64(m)*cs <= int64(maxLen) {
					l = m * int(cs)
				}
			}
			kind := rng.IntN(nReaderKinds)
			if kind == rkOneByte && l > 1<<16 {
				kind = rkShort
			}
			stream++
			rts = append(rts, fnCase{Class: "fn-rand", Len: l, Chunk: cs, Reader: readerNames[kind], Stream: stream})
		}
	}
	var muts []fnCase
	for _, cs := range []int64{1, 2, 3, 7} {
		for l := int(cs) + 1; l <= int(3*cs+1); l++ {
			k := l/int(cs) + 1 // chunk count (data chunks + possibly final empty one)
			for _, m := range fnMutations {
				for p := 0; p < k; p++ {
					stream++
					muts = append(muts, fnCase{Class: "fn-mut-exh", Len: l, Chunk: cs, Reader: "plain", Mut: m, Pos: p, Stream: stream})
				}
			}
		}
	}
	{
		rng := c.Rand(3)
		for i := 0; i < c.N(600, 150000); i++ {
			cs := int64(logUniform(rng, 1, 1<<12))
			k := 2 + rng.IntN(12)
			l := int(cs)*(k-1) + rng.IntN(int(cs)+1)
			if l <= int(cs) {
				l = int(cs) + 1
			}
			stream++
			muts = append(muts, fnCase{Class: "fn-mut-rand", Len: l, Chunk: cs, Reader: "plain", Mut: fnMutations[rng.IntN(len(fnMutations))], Pos: rng.IntN(k), Stream: stream})
		}
	}
	// positions beyond the real chunk count are clamped inside runMutation
	for i := range muts {
		k := (muts[i].Len + int(muts[i].Chunk) - 1) / int(muts[i].Chunk)
		if muts[i].Len%int(muts[i].Chunk) == 0 {
			k++
		}
		if muts[i].Pos >= k {
			muts[i].Pos = k - 1
		}
	}

	// ---- function level, parallel
	e := &env{c: c, dir: root}
	var wg sync.WaitGroup
	work := make(chan func(), 256)
	for w := 0; w < min(runtime.NumCPU(), 8); w++ {
		wg.Add(1)
		go func() {
			defer wg.Done()
			for f := range work {
				f()
			}
		}()
	}
	var done atomic.Int64
	fed := make(chan struct{})
	go func() {
		defer close(fed)
		for _, fc := range rts {
			fc := fc
			work <- func() { e.runRoundTrip(fc); done.Add(1) }
		}
		for _, fc := range muts {
			fc := fc
			work <- func() { e.runMutation(fc); done.Add(1) }
		}
	}()

	// ---- command-processor level, sequential (one global hook), meanwhile
	vexport.HookOn("swap.after_rename", func() {
		swapObs.mu.Lock()
		defer swapObs.mu.Unlock()
		b, err := os.ReadFile(swapObs.path)
		if err != nil {
			b = []byte("unreadable: " + err.Error())
		}
		swapObs.files = append(swapObs.files, b)
	})
	imgs, err := makeImages(c, root)
	if err != nil {
		c.Violation("harness", "image generation: "+err.Error(), nil)
	}
	c.Extra("sqlite_images", func() []string {
		var s []string
		for _, im := range imgs {
			s = append(s, fmt.Sprintf("%s:%dB", im.name, len(im.data)))
		}
		return s
	}())
	if len(imgs) > 0 {
		rng := c.Rand(4)
		ncp := c.N(450, 3000)
		for n := 0; n < ncp; n++ {
			a := imgs[rng.IntN(len(imgs))]
			b := imgs[rng.IntN(len(imgs))]
			var cs int64
			switch rng.IntN(4) {
			case 0: // whole pages: the length is an exact multiple
				cs = int64(a.page) * int64(1+rng.IntN(4))
			case 1:
				cs = int64(len(a.data))/int64(2+rng.IntN(6)) + int64(rng.IntN(3)) - 1
			default:
				cs = int64(logUniform(rng, 64, 1<<19))
			}
			for cs < 1 || int64(len(a.data))/cs > 60 {
				cs = cs*2 + 1
			}
			kind := cpKinds[rng.IntN(len(cpKinds))]
			if kind != "clean" && kind != "abort" && kind != "abort-then-reload" {
				// mutations need at least two chunks in both streams
				if m := int64(min(len(a.data), len(b.data))); cs >= m {
					cs = m/int64(2+rng.IntN(3)) + int64(rng.IntN(2))
				}
			}
			k := int((int64(len(a.data)) + cs - 1) / cs)
			cc := cpCase{Class: "cp", Image: a.name, Len: len(a.data), Chunk: cs, Kind: kind, Pos: rng.IntN(k + 1), Image2: b.name}
			if kind == "abort" || kind == "abort-then-reload" {
				cc.Pos = rng.IntN(k) // 0..k-1 chunks delivered before the Abort
			}
			runCP(c, root, n, cc, a, b)
			if n%100 == 99 {
				c.Logf("cp cases %d/%d, fn cases %d/%d", n+1, ncp, done.Load(), len(rts)+len(muts))
			}
		}
	}
	vexport.HookOn("swap.after_rename", nil)
	c.Count("hook_swap_after_rename_hits", vexport.HookHits("swap.after_rename"))

	<-fed
	close(work)
	wg.Wait()

	// ---- retained chunks (sequential: nothing else may touch the pool)
	{
		rng := c.Rand(5)
		for i := 0; i < c.N(40, 400); i++ {
			cs := int64(logUniform(rng, 8, 1<<14))
			k := 1 + rng.IntN(5)
			l := int(cs)*k - rng.IntN(int(cs))
			stream++
			e.runRetained(fnCase{Class: "fn-retain", Len: l, Chunk: cs, Reader: "plain", Stream: stream})
		}
	}
	c.Require(int64(c.N(2500, 100000)), c.N(1500, 60000))
}
