package c10

import (
	"bytes"
	"encoding/binary"
	"encoding/json"
	"errors"
	"fmt"
	"hash/crc32"
	"io"
	"net"
	"os"
	"path/filepath"
	"strings"
	"sync"
	"sync/atomic"
	"time"

	"github.com/hashicorp/raft"
	"github.com/rqlite/rqlite/v10/snapshot"
	"github.com/rqlite/rqlite/v10/snapshot/proto"
	"github.com/rqlite/rqlite/v10/store"
	"github.com/rqlite/rqlite/v10/vexport"
	pb "google.golang.org/protobuf/proto"
	"verif/checks/c09/snapgen"
	"verif/internal/vf"
)

// ---- mutants ------------------------------------------------------------

// mutant describes one alteration of a byte stream.
type mutant struct {
	K string `json:"k"`           // flip drop insert dup trunc append hdr
	P int    `json:"p,omitempty"` // byte position
	B int    `json:"b,omitempty"` // bit (flip) / byte value (insert) / count (append)
	H string `json:"h,omitempty"` // header edit name
	I int    `json:"i,omitempty"` // header edit index
	S int    `json:"s,omitempty"` // write split for the install (0 whole, -1 header boundary, else chunk size)
	V int64  `json:"v,omitempty"` // header edit operand (size delta)
	// K == "pair": a data edit (DK at P/B, inside one file of the stream)
	// together with header edits (Hs) that would make the altered data look
	// consistent to a receiver that trusts the edited field: "a header that
	// does not match the data" as (header edit, data edit) pairs.
	DK string   `json:"dk,omitempty"`
	Hs []mutant `json:"hs,omitempty"`
}

func (m mutant) String() string {
	if m.K == "pair" {
		return fmt.Sprintf("pair[%s+%s@%d/%d]", m.pairName(), m.DK, m.P, m.B)
	}
	return fmt.Sprintf("%s@%d/%d%s#%d", m.K, m.P, m.B, m.H, m.I)
}

// pairName names the header part of a compound mutant, e.g. "wal-crc-0#1,wal-size-add#1".
func (m mutant) pairName() string {
	var p []string
	for _, h := range m.Hs {
		n := h.H
		if strings.HasPrefix(h.H, "wal-") {
			n += fmt.Sprintf("#%d", h.I)
		}
		p = append(p, n)
	}
	return strings.Join(p, ",")
}

// headerEdits lists the edits applicable to a stream with nWAL WAL headers.
func headerEdits(nWAL int) []mutant {
	out := []mutant{
		{K: "hdr", H: "db-size+1"}, {K: "hdr", H: "db-size-1"}, {K: "hdr", H: "db-crc+1"}, {K: "hdr", H: "db-crc-1"},
		{K: "hdr", H: "db-size-0"}, {K: "hdr", H: "db-header-nil"}, {K: "hdr", H: "version-2"}, {K: "hdr", H: "version-0"},
		{K: "hdr", H: "add-wal-header"}, {K: "hdr", H: "to-incremental"}, {K: "hdr", H: "payload-nil"},
	}
	for i := 0; i < nWAL; i++ {
		out = append(out, mutant{K: "hdr", H: "wal-size+1", I: i}, mutant{K: "hdr", H: "wal-size-1", I: i},
			mutant{K: "hdr", H: "wal-crc+1", I: i}, mutant{K: "hdr", H: "wal-crc-1", I: i}, mutant{K: "hdr", H: "drop-wal-header", I: i})
		if i+1 < nWAL {
			out = append(out, mutant{K: "hdr", H: "swap-wal-headers", I: i})
		}
	}
	return out
}

func apply(base []byte, m mutant) ([]byte, error) {
	n := len(base)
	switch m.K {
	case "flip":
		if m.P >= n {
			return nil, errors.New("pos")
		}
		out := bytes.Clone(base)
		out[m.P] ^= 1 << (m.B & 7)
		return out, nil
	case "drop":
		if m.P >= n {
			return nil, errors.New("pos")
		}
		return append(bytes.Clone(base[:m.P]), base[m.P+1:]...), nil
	case "insert":
		if m.P > n {
			return nil, errors.New("pos")
		}
		out := append(bytes.Clone(base[:m.P]), byte(m.B))
		return append(out, base[m.P:]...), nil
	case "dup":
		if m.P >= n {
			return nil, errors.New("pos")
		}
		out := append(bytes.Clone(base[:m.P+1]), base[m.P])
		return append(out, base[m.P+1:]...), nil
	case "trunc":
		if m.P >= n {
			return nil, errors.New("pos")
		}
		return bytes.Clone(base[:m.P]), nil
	case "append":
		out := bytes.Clone(base)
		for i := 0; i < m.B; i++ {
			out = append(out, byte(i*37+1))
		}
		return out, nil
	case "pair":
		out := base
		var err error
		if m.DK != "" {
			if out, err = apply(base, mutant{K: m.DK, P: m.P, B: m.B}); err != nil {
				return nil, err
			}
		}
		// header edits keep everything behind the header, so they are applied
		// after the data edit (whose position lies behind the header)
		for _, h := range m.Hs {
			h.K = "hdr"
			if out, err = apply(out, h); err != nil {
				return nil, err
			}
		}
		return out, nil
	case "hdr":
		hdr, he, _, err := snapgen.ParseStream(base)
		if err != nil {
			return nil, err
		}
		f := hdr.GetFull()
		if f == nil {
			return nil, errors.New("not full")
		}
		w := func() *proto.Header {
			if m.I < len(f.WalHeaders) {
				return f.WalHeaders[m.I]
			}
			return &proto.Header{}
		}
		switch m.H {
		case "db-size+1":
			f.DbHeader.SizeBytes++
		case "db-size-1":
			f.DbHeader.SizeBytes--
		case "db-size-0":
			f.DbHeader.SizeBytes = 0
		case "db-crc+1":
			f.DbHeader.Crc32++
		case "db-crc-1":
			f.DbHeader.Crc32--
		case "db-crc-0": // proto3: 0 and "field absent" are the same bytes
			f.DbHeader.Crc32 = 0
		case "wal-crc-0":
			w().Crc32 = 0
		case "db-size-add":
			f.DbHeader.SizeBytes = uint64(int64(f.DbHeader.SizeBytes) + m.V)
		case "wal-size-add":
			w().SizeBytes = uint64(int64(w().SizeBytes) + m.V)
		case "db-header-nil":
			f.DbHeader = nil
		case "version-2":
			hdr.FormatVersion = 2
		case "version-0":
			hdr.FormatVersion = 0
		case "add-wal-header":
			f.WalHeaders = append(f.WalHeaders, &proto.Header{SizeBytes: 0, Crc32: 0})
		case "to-incremental":
			hdr.Payload = &proto.SnapshotHeader_IncrementalFile{IncrementalFile: &proto.IncrementalFileSnapshot{WalDirPath: "/nonexistent/verif-c10"}}
		case "payload-nil":
			hdr.Payload = nil
		case "wal-size+1":
			w().SizeBytes++
		case "wal-size-1":
			w().SizeBytes--
		case "wal-crc+1":
			w().Crc32++
		case "wal-crc-1":
			w().Crc32--
		case "drop-wal-header":
			f.WalHeaders = append(f.WalHeaders[:m.I:m.I], f.WalHeaders[m.I+1:]...)
		case "swap-wal-headers":
			f.WalHeaders[m.I], f.WalHeaders[m.I+1] = f.WalHeaders[m.I+1], f.WalHeaders[m.I]
		default:
			return nil, errors.New("unknown header edit")
		}
		hb, err := pb.Marshal(hdr)
		if err != nil {
			return nil, err
		}
		out := make([]byte, 4, 4+len(hb)+n-he)
		binary.BigEndian.PutUint32(out, uint32(len(hb)))
		out = append(out, hb...)
		return append(out, base[he:]...), nil
	}
	return nil, errors.New("unknown mutant kind")
}

// ---- install / restore on the receiving side -----------------------------

type receiver struct {
	root   string
	dst    *snapshot.Store
	dstDir string
	nDst   int
	index  uint64
	nOut   int
}

func (rc *receiver) fresh() error {
	if rc.dst != nil {
		rc.dst.Close()
		os.RemoveAll(rc.dstDir)
	}
	rc.nDst++
	rc.dstDir = filepath.Join(rc.root, fmt.Sprintf("dst-%04d", rc.nDst))
	st, err := snapshot.NewStore(rc.dstDir)
	if err != nil {
		return err
	}
	st.SetReapThreshold(1 << 30)
	rc.dst = st
	return nil
}

type installResult struct {
	Outcome string `json:"outcome"` // write-error close-error not-installed installed
	Err     string `json:"err,omitempty"`
	SHA     string `json:"sha,omitempty"` // restore of the installed snapshot
	Note    string `json:"note,omitempty"`
}

// install writes the stream into a new sink of the destination store the way
// raft's installSnapshot does (Create, copy, Cancel on error, Close), except
// that raft's own byte-count check is left out: the sink has to notice.
func (rc *receiver) install(feed func(w io.Writer) error) installResult {
	if rc.dst == nil || rc.dst.Len() >= 12 {
		if err := rc.fresh(); err != nil {
			return installResult{Outcome: "harness", Err: err.Error()}
		}
	}
	before := rc.dst.Len()
	rc.index++
	sink, err := rc.dst.Create(1, rc.index, 3, snapgen.Config(), 1, nil)
	if err != nil {
		return installResult{Outcome: "harness", Err: err.Error()}
	}
	id := sink.ID()
	res := installResult{}
	feedSafe := func() (err error) {
		defer func() {
			if p := recover(); p != nil {
				err = fmt.Errorf("PANIC in sink.Write: %v", p)
			}
		}()
		return feed(sink)
	}
	if err := feedSafe(); err != nil {
		sink.Cancel()
		res.Outcome, res.Err = "write-error", err.Error()
	} else if err := sink.Close(); err != nil {
		res.Outcome, res.Err = "close-error", err.Error()
	} else {
		res.Outcome = "not-installed"
	}
	listed := false
	metas, lerr := rc.dst.ListAll()
	if lerr != nil {
		res.Note = "ListAll: " + lerr.Error()
	}
	for _, m := range metas {
		if m.ID == id {
			listed = true
		}
	}
	if !listed {
		if len(metas) != before {
			res.Note += fmt.Sprintf(" destination lists %d snapshots, before %d", len(metas), before)
		}
		return res
	}
	if res.Outcome != "not-installed" {
		res.Note += " listed although " + res.Outcome
	}
	res.Outcome = "installed"
	_, r, err := rc.dst.Open(id)
	if err != nil {
		res.Note += " open: " + err.Error()
		return res
	}
	defer r.Close()
	rc.nOut++
	out := filepath.Join(rc.root, fmt.Sprintf("inst-%d.db", rc.nOut%4))
	if _, err := snapshot.Restore(r, out); err != nil {
		res.Note += " restore of installed: " + err.Error()
		return res
	}
	res.SHA = snapgen.SHA256(out)
	return res
}

func splitFeed(data []byte, split, hdrEnd int) func(w io.Writer) error {
	return func(w io.Writer) error {
		if len(data) == 0 {
			return nil
		}
		off := 0
		write := func(n int) error {
			n = min(n, len(data)-off)
			if n <= 0 {
				return nil
			}
			_, err := w.Write(data[off : off+n])
			off += n
			return err
		}
		switch {
		case split == 0:
			return write(len(data))
		case split < 0: // first chunk ends around the header boundary
			if err := write(max(hdrEnd+split+2, 1)); err != nil { // -1: hdrEnd+1, -2: hdrEnd, -3: hdrEnd-1
				return err
			}
			return write(len(data))
		}
		for off < len(data) {
			if err := write(split); err != nil {
				return err
			}
		}
		return nil
	}
}

// boundaryFeed writes with chunk ends at the given absolute offsets.
func boundaryFeed(data []byte, cuts []int) func(w io.Writer) error {
	return func(w io.Writer) error {
		off := 0
		for _, c := range append(cuts, len(data)) {
			if c <= off || c > len(data) {
				continue
			}
			if _, err := w.Write(data[off:c]); err != nil {
				return err
			}
			off = c
		}
		return nil
	}
}

func compress(data []byte, size int64, bufSz int, readChunk int) ([]byte, error) {
	c, err := vexport.NewZstdCompressor(bytes.NewReader(data), size, bufSz)
	if err != nil {
		return nil, err
	}
	defer c.Close()
	var out bytes.Buffer
	buf := make([]byte, readChunk)
	for {
		n, err := c.Read(buf)
		out.Write(buf[:n])
		if err == io.EOF {
			return out.Bytes(), nil
		}
		if err != nil {
			return nil, err
		}
	}
}

func restore(root string, data []byte, k int) (sha string, rerr string) {
	out := filepath.Join(root, fmt.Sprintf("rest-%d.db", k%4))
	os.Remove(out)
	defer func() {
		// a panic inside Restore would take a real node down; here it is
		// recorded as the way this restore failed
		if p := recover(); p != nil {
			sha, rerr = "", fmt.Sprintf("PANIC: %v", p)
		}
	}()
	if _, err := snapshot.Restore(bytes.NewReader(data), out); err != nil {
		return "", err.Error()
	}
	return snapgen.SHA256(out), ""
}

var castagnoli = crc32.MakeTable(crc32.Castagnoli)

// declaredLen is the stream length the (possibly altered) header describes
// (-1 when the header cannot be parsed as a database+WALs header, or the
// stream is shorter); consistent reports whether every file the header
// describes has exactly the CRC32 the header states, i.e. whether the part of
// the stream that Restore consumes is self-consistent.
func declaredLen(data []byte) (n int, consistent bool) {
	hdr, he, ends, err := snapgen.ParseStream(data)
	if err != nil || hdr.GetFull() == nil || hdr.GetFull().DbHeader == nil {
		return -1, false
	}
	f := hdr.GetFull()
	crcs := []uint32{f.DbHeader.Crc32}
	for _, w := range f.WalHeaders {
		crcs = append(crcs, w.Crc32)
	}
	off := he
	consistent = true
	for i, e := range ends {
		if e > len(data) || e < off {
			return -1, false
		}
		if crc32.Checksum(data[off:e], castagnoli) != crcs[i] {
			consistent = false
		}
		off = e
	}
	return off, consistent
}

// ---- worker ----------------------------------------------------------------

type creq struct {
	Op       string   `json:"op"`
	Root     string   `json:"root,omitempty"`
	Store    string   `json:"store,omitempty"`
	ID       string   `json:"id,omitempty"`
	Out      string   `json:"out,omitempty"`
	Stream   string   `json:"stream,omitempty"` // file with the pristine stream
	Zst      string   `json:"zst,omitempty"`    // file with the pristine compressed stream
	Want     string   `json:"want,omitempty"`   // sha256 of the pristine restore
	Mutants  []mutant `json:"mutants,omitempty"`
	Domain   string   `json:"domain,omitempty"` // raw | zst
	Compress bool     `json:"compress,omitempty"`
	Offsets  []int64  `json:"offsets,omitempty"` // transport: wire offsets at which one bit is flipped
}

type progress struct {
	I      int    `json:"i"`
	Dst    string `json:"dst"`
	Before int    `json:"before"`
}

type mres struct {
	M       mutant `json:"m"`
	Same    bool   `json:"same,omitempty"` // mutant equals the original bytes
	Install string `json:"install"`
	Restore string `json:"restore"`
	Detail  string `json:"detail,omitempty"`
	Bad     bool   `json:"bad,omitempty"`
	// Trailing: Restore returned nil although the stream is longer than its
	// (altered) header describes.
	Trailing bool `json:"trailing,omitempty"`
}

type cresp struct {
	Err     string         `json:"err,omitempty"`
	Len     int            `json:"len,omitempty"`
	Size    int64          `json:"size,omitempty"`
	ZstLen  int            `json:"zst_len,omitempty"`
	Results []mres         `json:"results,omitempty"`
	Counts  map[string]int `json:"counts,omitempty"`
	Clean   []cleanRes     `json:"clean,omitempty"`
	Wire    int64          `json:"wire,omitempty"`
	Trans   []transRes     `json:"trans,omitempty"`
}

type cleanRes struct {
	Variant string `json:"variant"`
	Outcome string `json:"outcome"`
	Err     string `json:"err,omitempty"`
	SHA     string `json:"sha,omitempty"`
	Note    string `json:"note,omitempty"`
}

func init() { vf.RegisterWorker("c10", worker) }

func worker(args []string) {
	var rc *receiver
	k := 0
	vf.ServeJSON(func(raw json.RawMessage) any {
		var q creq
		if err := json.Unmarshal(raw, &q); err != nil {
			return cresp{Err: "bad request: " + err.Error()}
		}
		fmt.Fprintf(os.Stderr, "c10-worker: op=%s id=%s n=%d domain=%s\n", q.Op, q.ID, len(q.Mutants), q.Domain)
		if q.Root != "" && (rc == nil || rc.root != q.Root) {
			os.MkdirAll(q.Root, 0755)
			rc = &receiver{root: q.Root}
		}
		switch q.Op {
		case "fetch":
			st, err := snapshot.NewStore(q.Store)
			if err != nil {
				return cresp{Err: err.Error()}
			}
			defer st.Close()
			st.SetReapThreshold(1 << 30)
			meta, r, err := st.Open(q.ID)
			if err != nil {
				return cresp{Err: err.Error()}
			}
			b, err := io.ReadAll(r)
			r.Close()
			if err != nil {
				return cresp{Err: err.Error()}
			}
			if err := os.WriteFile(q.Out, b, 0644); err != nil {
				return cresp{Err: err.Error()}
			}
			z, err := compress(b, meta.Size, 262144, 32768)
			if err != nil {
				return cresp{Err: "compress: " + err.Error()}
			}
			if err := os.WriteFile(q.Out+".zst", z, 0644); err != nil {
				return cresp{Err: err.Error()}
			}
			return cresp{Len: len(b), Size: meta.Size, ZstLen: len(z)}
		case "clean":
			return clean(rc, q)
		case "inspect":
			st, err := snapshot.NewStore(q.Store)
			if err != nil {
				return cresp{Err: err.Error()}
			}
			defer st.Close()
			return cresp{Len: st.Len()}
		case "mutants":
			base, err := os.ReadFile(q.Stream)
			if err != nil {
				return cresp{Err: err.Error()}
			}
			zbase, err := os.ReadFile(q.Zst)
			if err != nil {
				return cresp{Err: err.Error()}
			}
			_, hdrEnd, _, _ := snapgen.ParseStream(base)
			resp := cresp{Counts: map[string]int{}}
			for mi, m := range q.Mutants {
				k++
				r := mres{M: m}
				// progress marker: if a mutant makes rqlite exit the process, the
				// driver learns which one it was and how the destination looked
				if rc.dst == nil || rc.dst.Len() >= 12 {
					rc.fresh()
				}
				pm, _ := json.Marshal(progress{I: mi, Dst: rc.dstDir, Before: rc.dst.Len()})
				os.WriteFile(filepath.Join(rc.root, "progress"), pm, 0644)
				var data []byte // what the receiver's sink/restore gets to see
				var feed func(w io.Writer) error
				if q.Domain == "zst" {
					mz, err := apply(zbase, m)
					if err != nil {
						r.Install, r.Restore = "skipped", "skipped"
						resp.Results = append(resp.Results, r)
						continue
					}
					r.Same = bytes.Equal(mz, zbase)
					feed = func(w io.Writer) error {
						_, err := io.Copy(w, vexport.NewZstdDecompressor(bytes.NewReader(mz)))
						return err
					}
					// Restore reads through the same decompressor
					dec, derr := io.ReadAll(vexport.NewZstdDecompressor(bytes.NewReader(mz)))
					if derr != nil {
						r.Restore = "error"
						resp.Counts["zst-decode-error"]++
					} else {
						data = dec
					}
				} else {
					md, err := apply(base, m)
					if err != nil {
						r.Install, r.Restore = "skipped", "skipped"
						resp.Results = append(resp.Results, r)
						continue
					}
					r.Same = bytes.Equal(md, base)
					data = md
					feed = splitFeed(md, m.S, hdrEnd)
				}
				ir := rc.install(feed)
				switch {
				case ir.Outcome == "harness":
					r.Install, r.Detail = "harness", ir.Err
				case ir.Outcome == "installed" && ir.SHA == q.Want && ir.Note == "":
					r.Install = "installed-identical"
				case ir.Outcome == "installed":
					r.Install, r.Bad = "INSTALLED-DIFFERENT", true
					r.Detail = fmt.Sprintf("installed snapshot restores to %s, source %s %s", short(ir.SHA), short(q.Want), ir.Note)
				case ir.Note != "":
					r.Install, r.Bad = "DESTINATION-CHANGED", true
					r.Detail = ir.Outcome + ":" + ir.Note
				default:
					r.Install = ir.Outcome
					if len(ir.Err) > 0 {
						resp.Counts["install-err:"+errClass(ir.Err)]++
					}
				}
				if r.Restore == "" {
					sha, rerr := restore(rc.root, data, k)
					switch {
					case strings.HasPrefix(rerr, "PANIC"):
						r.Restore = "panic"
						r.Detail += " " + rerr
					case rerr != "":
						r.Restore = "error"
						resp.Counts["restore-err:"+errClass(rerr)]++
					case sha == q.Want:
						r.Restore = "restored-identical"
					default:
						r.Restore, r.Bad = "RESTORED-DIFFERENT", true
						dl, cons := declaredLen(data)
						r.Trailing = dl >= 0 && dl < len(data) && cons
						r.Detail += fmt.Sprintf(" Restore returned nil with a database %s, source %s (altered header describes %d bytes, stream has %d)", short(sha), short(q.Want), dl, len(data))
					}
				}
				resp.Counts["install:"+r.Install]++
				resp.Counts["restore:"+r.Restore]++
				if r.Same {
					resp.Counts["mutant-equals-original"]++
				}
				resp.Results = append(resp.Results, r)
			}
			return resp
		case "transport":
			return transport(rc, q)
		}
		return cresp{Err: "unknown op"}
	})
}

func short(s string) string {
	if len(s) > 12 {
		return s[:12]
	}
	return s
}

func errClass(e string) string {
	for _, k := range []string{"CRC32 mismatch", "incomplete", "no more data", "unmarshal", "header invalid", "not a valid SQLite", "WAL file", "full snapshot needed", "unexpected data", "unrecognized", "EOF", "no database", "checkpoint", "magic", "invalid input", "window size", "corrupt", "checksum"} {
		if bytes.Contains([]byte(e), []byte(k)) {
			return k
		}
	}
	if len(e) > 40 {
		return e[:40]
	}
	return e
}

// clean installs the unmodified stream under every write split and with and
// without transport compression.
func clean(rc *receiver, q creq) cresp {
	base, err := os.ReadFile(q.Stream)
	if err != nil {
		return cresp{Err: err.Error()}
	}
	_, hdrEnd, ends, err := snapgen.ParseStream(base)
	if err != nil {
		return cresp{Err: err.Error()}
	}
	resp := cresp{}
	add := func(variant string, feed func(w io.Writer) error) {
		ir := rc.install(feed)
		resp.Clean = append(resp.Clean, cleanRes{Variant: variant, Outcome: ir.Outcome, Err: ir.Err, SHA: ir.SHA, Note: ir.Note})
	}
	add("whole", splitFeed(base, 0, hdrEnd))
	if len(base) <= 300000 {
		add("1-byte", splitFeed(base, 1, hdrEnd))
	}
	for _, p := range []int{2, 3, 7, 13, 4093, 4099, 65537} {
		add(fmt.Sprintf("chunks-of-%d", p), splitFeed(base, p, hdrEnd))
	}
	// single file boundaries: every file; for a stream of many files the
	// first two, the last two and evenly spaced ones in between (the combined
	// all-file-boundaries variants below still cut at every file)
	single := map[int]bool{}
	for i := range ends {
		single[i] = len(ends) <= 10 || i < 2 || i >= len(ends)-2 || i%(len(ends)/4) == 0
	}
	for _, d := range []int{-1, 0, 1} {
		add(fmt.Sprintf("header-boundary%+d", d), boundaryFeed(base, []int{hdrEnd + d}))
		add(fmt.Sprintf("length-prefix%+d", d), boundaryFeed(base, []int{4 + d}))
		for i, e := range ends {
			if !single[i] {
				continue
			}
			add(fmt.Sprintf("file-%d-boundary%+d", i, d), boundaryFeed(base, []int{e + d}))
		}
		var all []int
		for _, e := range ends {
			all = append(all, e+d)
		}
		add(fmt.Sprintf("all-file-boundaries%+d", d), boundaryFeed(base, append([]int{hdrEnd + d}, all...)))
	}
	for _, bufSz := range []int{262144, 4096, 1000} {
		for _, rd := range []int{32768, 1, 4097} {
			if rd == 1 && len(base) > 300000 {
				continue
			}
			z, err := compress(base, int64(len(base)), bufSz, rd)
			if err != nil {
				resp.Clean = append(resp.Clean, cleanRes{Variant: fmt.Sprintf("zstd-buf%d-read%d", bufSz, rd), Outcome: "compress-error", Err: err.Error()})
				continue
			}
			add(fmt.Sprintf("zstd-buf%d-read%d", bufSz, rd), func(w io.Writer) error {
				_, err := io.Copy(w, vexport.NewZstdDecompressor(bytes.NewReader(z)))
				return err
			})
			// the decompressor fed one byte at a time (slow network)
			if rd == 4097 {
				add(fmt.Sprintf("zstd-buf%d-trickle", bufSz), func(w io.Writer) error {
					_, err := io.Copy(w, vexport.NewZstdDecompressor(iotestOneByte{bytes.NewReader(z)}))
					return err
				})
			}
		}
	}
	// Restore of the unmodified stream, also through the compressor pair.
	sha, rerr := restore(rc.root, base, 0)
	resp.Clean = append(resp.Clean, cleanRes{Variant: "restore", Outcome: map[bool]string{true: "installed", false: "restore-error"}[rerr == ""], Err: rerr, SHA: sha})
	return resp
}

type iotestOneByte struct{ r io.Reader }

func (o iotestOneByte) Read(p []byte) (int, error) {
	if len(p) == 0 {
		return 0, nil
	}
	return o.r.Read(p[:1])
}

// ---- real transport pair ----------------------------------------------------

type transRes struct {
	Offset  int64  `json:"offset"` // -1: clean link
	SendErr string `json:"send_err,omitempty"`
	Success bool   `json:"success"`
	RecvErr string `json:"recv_err,omitempty"`
	Listed  bool   `json:"listed"`
	SHA     string `json:"sha,omitempty"`
	Note    string `json:"note,omitempty"`
}

// tcpLayer is a store.Layer over loopback TCP whose outgoing connections can
// flip one bit at an absolute offset of the dialer→listener byte stream.
type tcpLayer struct {
	ln     net.Listener
	flipAt *atomic.Int64 // <0: none
	sent   *atomic.Int64
}

func (l *tcpLayer) Accept() (net.Conn, error) { return l.ln.Accept() }
func (l *tcpLayer) Close() error              { return l.ln.Close() }
func (l *tcpLayer) Addr() net.Addr            { return l.ln.Addr() }
func (l *tcpLayer) Dial(addr string, timeout time.Duration) (net.Conn, error) {
	c, err := net.DialTimeout("tcp", addr, timeout)
	if err != nil {
		return nil, err
	}
	return &flipConn{Conn: c, l: l}, nil
}

type flipConn struct {
	net.Conn
	l *tcpLayer
}

func (c *flipConn) Write(p []byte) (int, error) {
	start := c.l.sent.Add(int64(len(p))) - int64(len(p))
	if f := c.l.flipAt.Load(); f >= start && f < start+int64(len(p)) {
		q := bytes.Clone(p)
		q[f-start] ^= 0x10
		return c.Conn.Write(q)
	}
	return c.Conn.Write(p)
}

func transport(rc *receiver, q creq) cresp {
	src, err := snapshot.NewStore(q.Store)
	if err != nil {
		return cresp{Err: err.Error()}
	}
	defer src.Close()
	src.SetReapThreshold(1 << 30)

	mk := func() (*tcpLayer, error) {
		ln, err := net.Listen("tcp", "127.0.0.1:0")
		if err != nil {
			return nil, err
		}
		l := &tcpLayer{ln: ln, flipAt: &atomic.Int64{}, sent: &atomic.Int64{}}
		l.flipAt.Store(-1)
		return l, nil
	}
	la, err := mk()
	if err != nil {
		return cresp{Err: err.Error()}
	}
	lb, err := mk()
	if err != nil {
		return cresp{Err: err.Error()}
	}
	logw := os.Stderr
	ta := store.NewNodeTransport(raft.NewNetworkTransport(store.NewTransport(la), 1, 8*time.Second, logw), q.Compress)
	tb := store.NewNodeTransport(raft.NewNetworkTransport(store.NewTransport(lb), 1, 8*time.Second, logw), q.Compress)
	defer ta.Close()
	defer tb.Close()

	type recv struct {
		err string
		id  string
	}
	var mu sync.Mutex
	var last recv
	done := make(chan struct{})
	stop := make(chan struct{})
	cons := tb.Consumer()
	go func() {
		defer close(done)
		for {
			var rpc raft.RPC
			select {
			case rpc = <-cons:
			case <-stop:
				return
			}
			req, ok := rpc.Command.(*raft.InstallSnapshotRequest)
			if !ok {
				rpc.Respond(nil, errors.New("unexpected rpc"))
				continue
			}
			// what raft.installSnapshot does with the stream
			r := recv{}
			resp := &raft.InstallSnapshotResponse{Term: req.Term}
			func() {
				defer func() {
					// raft.DecodeConfiguration panics on undecodable bytes
					if p := recover(); p != nil {
						r.err = fmt.Sprintf("panic: %v", p)
					}
				}()
				sink, err := rc.dst.Create(req.SnapshotVersion, req.LastLogIndex, req.LastLogTerm, raft.DecodeConfiguration(req.Configuration), req.ConfigurationIndex, tb)
				if err != nil {
					r.err = "create: " + err.Error()
					return
				}
				r.id = sink.ID()
				n, err := io.Copy(sink, rpc.Reader)
				if err != nil {
					sink.Cancel()
					r.err = "copy: " + err.Error()
					return
				}
				if n != req.Size {
					sink.Cancel()
					r.err = fmt.Sprintf("short read %d/%d", n, req.Size)
					return
				}
				if err := sink.Close(); err != nil {
					r.err = "close: " + err.Error()
					return
				}
				resp.Success = true
			}()
			mu.Lock()
			last = r
			mu.Unlock()
			var rerr error
			if r.err != "" {
				rerr = errors.New(r.err)
			}
			rpc.Respond(resp, rerr)
		}
	}()

	out := cresp{}
	index := rc.index + 1000
	one := func(off int64) transRes {
		tr := transRes{Offset: off}
		meta, r, err := src.Open(q.ID)
		if err != nil {
			tr.Note = "harness: open source: " + err.Error()
			return tr
		}
		defer r.Close()
		if rc.dst == nil || rc.dst.Len() >= 12 {
			rc.fresh()
		}
		before := rc.dst.Len()
		mu.Lock()
		last = recv{}
		mu.Unlock()
		index++
		rc.index = index
		la.sent.Store(0)
		la.flipAt.Store(off)
		req := &raft.InstallSnapshotRequest{
			RPCHeader:          raft.RPCHeader{ProtocolVersion: raft.ProtocolVersionMax},
			SnapshotVersion:    1,
			Term:               3,
			Leader:             []byte(ta.LocalAddr()),
			LastLogIndex:       index,
			LastLogTerm:        3,
			Configuration:      raft.EncodeConfiguration(snapgen.Config()),
			ConfigurationIndex: 1,
			Size:               meta.Size,
		}
		var resp raft.InstallSnapshotResponse
		err = ta.InstallSnapshot("b", tb.LocalAddr(), req, &resp, r)
		la.flipAt.Store(-1)
		if off < 0 {
			out.Wire = la.sent.Load()
		}
		tr.SendErr = errString(err)
		tr.Success = err == nil && resp.Success
		// give the receiving side a moment to finish its own error path
		for i := 0; i < 200; i++ {
			mu.Lock()
			l := last
			mu.Unlock()
			if l.id != "" || l.err != "" || tr.Success {
				break
			}
			time.Sleep(10 * time.Millisecond)
		}
		time.Sleep(20 * time.Millisecond)
		mu.Lock()
		tr.RecvErr = last.err
		mu.Unlock()
		mu.Lock()
		rid := last.id
		mu.Unlock()
		metas, _ := rc.dst.ListAll()
		for _, m := range metas {
			if m.ID == rid {
				tr.Listed = true
			}
		}
		if !tr.Listed && len(metas) != before {
			tr.Note = fmt.Sprintf("destination lists %d snapshots, before %d, none is the receiver's sink %q", len(metas), before, rid)
		}
		if tr.Listed {
			_, rd, err := rc.dst.Open(rid)
			if err != nil {
				tr.Note = "open installed: " + err.Error()
				return tr
			}
			defer rd.Close()
			p := filepath.Join(rc.root, "trans.db")
			if _, err := snapshot.Restore(rd, p); err != nil {
				tr.Note = "restore installed: " + err.Error()
				return tr
			}
			tr.SHA = snapgen.SHA256(p)
		}
		return tr
	}
	out.Trans = append(out.Trans, one(-1))
	for _, off := range q.Offsets {
		o := off
		if o < 0 { // relative to the end of the wire stream
			o = out.Wire + off
		}
		if out.Wire > 0 && o >= out.Wire {
			o = o % out.Wire
		}
		out.Trans = append(out.Trans, one(o))
	}
	close(stop)
	select {
	case <-done:
	case <-time.After(2 * time.Second):
	}
	return out
}

func errString(err error) string {
	if err == nil {
		return ""
	}
	return err.Error()
}
