// Package c27: CDC events describe exactly the rows changed (DESIGN §6 C27).
//
// Twin-database monitor at the db.DB level. rqlite side: db.Open on a scratch
// file, RegisterPreUpdateHook + RegisterCommitHook wired to a CDCStreamer and
// Reset(index) before every request, exactly as Store.fsmApply does. Reference
// side: plain SQLite (stock driver) running the same request through the
// reference executor of internal/sqlref, with the raw driver's own preupdate
// and commit hooks and full row images (rowid -> row) taken before and after
// every statement. The reference event groups are (1) checked against the row
// images (replaying a group over the image at the previous commit must give
// the image at this commit, and every "before" must equal the row as it was)
// and (2) compared, group by group and event by event, with what the
// CDCStreamer emitted; the JSON envelope is compared too.
package c27

import (
	"bytes"
	"context"
	"database/sql"
	"encoding/json"
	"fmt"
	"math/rand/v2"
	"os"
	"path/filepath"
	"reflect"
	"regexp"
	"runtime"
	"sort"
	"strings"
	"sync"

	sqlite3 "github.com/mattn/go-sqlite3"
	cdcjson "github.com/rqlite/rqlite/v10/cdc/json"
	proto "github.com/rqlite/rqlite/v10/command/proto"
	rdb "github.com/rqlite/rqlite/v10/db"
	"verif/internal/sqlref"
	"verif/internal/vf"
)

func init() { vf.Register("C27", "exploration", run) }

const (
	keyPhantomFailed   = "phantom-events:failed-statement"
	keyPhantomRollback = "phantom-events:rolled-back-transaction"
	keyColsCreated     = "column-names:table-created-in-same-transaction"
	keyColsAltered     = "column-names:table-altered-in-same-transaction"
	keyColsStale       = "column-names:stale-after-earlier-alter-table"
)

// ------------------------------------------------------------------ events

// evt is one change event in comparable form.
type evt struct {
	Op    string   `json:"op"`
	Table string   `json:"table"`
	OldID int64    `json:"old_row_id,omitempty"`
	NewID int64    `json:"new_row_id,omitempty"`
	Old   []string `json:"old,omitempty"` // canonical values (storage class + value); nil = absent
	New   []string `json:"new,omitempty"`
	Cols  []string `json:"cols,omitempty"`
	Err   string   `json:"error,omitempty"`
	oldV  []any
	newV  []any
	stmt  int // statement that produced it (reference side)
	// reference side, for naming the column-name findings only: did the table
	// exist at the last commit before this event, and with which columns
	txCreated     bool
	committedCols []string
}

func (e evt) String() string {
	b, _ := json.Marshal(e)
	return string(b)
}

func canonRow(vs []any) []string {
	out := make([]string, len(vs))
	for i, v := range vs {
		out[i] = sqlref.CanonValue(v)
	}
	return out
}

// numRow is canonRow with integral REAL values written as integers. SQLite's
// sqlite3_preupdate_new() hands out the to-be-stored form of a row, in which a
// REAL column holding an integral value is an integer (its on-disk encoding),
// while a SELECT (and sqlite3_preupdate_old) gives the same value as a real.
// The two are the same SQL number; comparisons between hook values and row
// images therefore use this form. (rqlite's events against the reference
// events are compared exactly.)
func numRow(vs []any) string {
	out := make([]string, len(vs))
	for i, v := range vs {
		if f, ok := v.(float64); ok && f == float64(int64(f)) && f > -(1<<53) && f < (1<<53) {
			out[i] = sqlref.CanonValue(int64(f))
		} else {
			out[i] = sqlref.CanonValue(v)
		}
	}
	return strings.Join(out, ",")
}

func fromCDCRow(r *proto.CDCRow) ([]string, []any) {
	if r == nil {
		return nil, nil
	}
	vs := make([]any, len(r.Values))
	for i, v := range r.Values {
		switch w := v.GetValue().(type) {
		case *proto.CDCValue_I:
			vs[i] = w.I
		case *proto.CDCValue_D:
			vs[i] = w.D
		case *proto.CDCValue_B:
			vs[i] = w.B
		case *proto.CDCValue_S:
			vs[i] = w.S
		case *proto.CDCValue_Y:
			if w.Y == nil {
				vs[i] = []byte{}
			} else {
				vs[i] = w.Y
			}
		default:
			vs[i] = nil
		}
	}
	return canonRow(vs), vs
}

func fromProto(e *proto.CDCEvent) evt {
	x := evt{Op: e.Op.String(), Table: e.Table, OldID: e.OldRowId, NewID: e.NewRowId, Cols: e.ColumnNames, Err: e.Error}
	x.Old, x.oldV = fromCDCRow(e.OldRow)
	x.New, x.newV = fromCDCRow(e.NewRow)
	return x
}

// ------------------------------------------------------------------ images

// image is the content of all user tables: table -> rowid -> canonical row.
type image struct {
	cols map[string][]string
	rows map[string]map[int64]string // numRow form
	raw  map[string]map[int64]string // exact storage classes
}

func takeImage(conn *sql.Conn) (*image, error) {
	ctx := context.Background()
	im := &image{cols: map[string][]string{}, rows: map[string]map[int64]string{}, raw: map[string]map[int64]string{}}
	rs, err := conn.QueryContext(ctx, `SELECT name FROM sqlite_master WHERE type='table' AND name NOT LIKE 'sqlite_%' ORDER BY name`)
	if err != nil {
		return nil, err
	}
	var tables []string
	for rs.Next() {
		var n string
		rs.Scan(&n)
		tables = append(tables, n)
	}
	rs.Close()
	for _, t := range tables {
		r, err := conn.QueryContext(ctx, `SELECT rowid AS "__rowid__", * FROM "`+t+`"`)
		if err != nil {
			return nil, err
		}
		cols, _ := r.Columns()
		im.cols[t] = cols[1:]
		m, mr := map[int64]string{}, map[int64]string{}
		for r.Next() {
			vals := make([]any, len(cols))
			ptrs := make([]any, len(cols))
			for i := range vals {
				ptrs[i] = &vals[i]
			}
			if err := r.Scan(ptrs...); err != nil {
				r.Close()
				return nil, err
			}
			id, _ := vals[0].(int64)
			m[id] = numRow(vals[1:])
			mr[id] = strings.Join(canonRow(vals[1:]), ",")
		}
		r.Close()
		if err := r.Err(); err != nil {
			return nil, err
		}
		im.rows[t] = m
		im.raw[t] = mr
	}
	return im, nil
}

func (a *image) equal(b *image) bool {
	return reflect.DeepEqual(a.cols, b.cols) && reflect.DeepEqual(a.raw, b.raw)
}

// replayGroup applies the events to a copy of 'from' and reports the first
// disagreement with the row images ("" = consistent with from -> to). Tables
// whose shape changed, appeared or disappeared between the images, or that the
// request drops (DROP TABLE removes rows without row events), are skipped.
func replayGroup(from, to *image, evs []evt, dropped map[string]bool) string {
	cur := map[string]map[int64]string{}
	ok := func(t string) bool {
		return !dropped[t] && from.rows[t] != nil && to.rows[t] != nil && reflect.DeepEqual(from.cols[t], to.cols[t])
	}
	for t, m := range from.rows {
		if ok(t) {
			c := make(map[int64]string, len(m))
			for k, v := range m {
				c[k] = v
			}
			cur[t] = c
		}
	}
	for i, e := range evs {
		m := cur[e.Table]
		if m == nil {
			continue
		}
		switch e.Op {
		case "INSERT":
			if _, dup := m[e.NewID]; dup {
				return fmt.Sprintf("event %d inserts %s rowid %d which already exists", i, e.Table, e.NewID)
			}
			m[e.NewID] = numRow(e.newV)
		case "DELETE":
			was, there := m[e.OldID]
			if !there {
				return fmt.Sprintf("event %d deletes %s rowid %d which does not exist", i, e.Table, e.OldID)
			}
			if was != numRow(e.oldV) {
				return fmt.Sprintf("event %d: before-image of deleted %s rowid %d is [%s], row was [%s]", i, e.Table, e.OldID, numRow(e.oldV), was)
			}
			delete(m, e.OldID)
		case "UPDATE":
			was, there := m[e.OldID]
			if !there {
				return fmt.Sprintf("event %d updates %s rowid %d which does not exist", i, e.Table, e.OldID)
			}
			if was != numRow(e.oldV) {
				return fmt.Sprintf("event %d: before-image of updated %s rowid %d is [%s], row was [%s]", i, e.Table, e.OldID, numRow(e.oldV), was)
			}
			delete(m, e.OldID)
			if _, dup := m[e.NewID]; dup {
				return fmt.Sprintf("event %d moves %s rowid %d onto existing rowid %d", i, e.Table, e.OldID, e.NewID)
			}
			m[e.NewID] = numRow(e.newV)
		}
	}
	for t, m := range cur {
		if !reflect.DeepEqual(m, to.rows[t]) {
			return fmt.Sprintf("table %s after replaying the events differs from the table as read: %s", t, mapDiff(m, to.rows[t]))
		}
	}
	return ""
}

func mapDiff(a, b map[int64]string) string {
	var out []string
	for k, v := range a {
		if w, ok := b[k]; !ok {
			out = append(out, fmt.Sprintf("rowid %d only in replay [%s]", k, v))
		} else if w != v {
			out = append(out, fmt.Sprintf("rowid %d replay [%s] read [%s]", k, v, w))
		}
	}
	for k, v := range b {
		if _, ok := a[k]; !ok {
			out = append(out, fmt.Sprintf("rowid %d only in table [%s]", k, v))
		}
	}
	sort.Strings(out)
	if len(out) > 4 {
		out = out[:4]
	}
	return strings.Join(out, "; ")
}

// ------------------------------------------------------- reference monitor

// refMon turns raw hook calls on the reference connection into event groups.
type refMon struct {
	stmt      int
	cur       []evt   // raw events of the running statement
	pending   []evt   // surviving events since the last commit
	groups    [][]evt // closed groups of this request (truth)
	commitsAt []int   // statement index (or -1 for executor COMMIT) that closed each group

	// What a streamer that never forgets would emit: every raw event stays
	// pending until the next commit. Only used to name a known defect.
	dPending []evt
	dGroups  [][]evt

	droppedFailed   int // raw events discarded because their statement failed
	droppedRollback int // surviving events discarded by a ROLLBACK
	hookErr         string
}

func (m *refMon) preupdate(d sqlite3.SQLitePreUpdateData) {
	e := evt{Table: d.TableName, stmt: m.stmt}
	n := d.Count()
	switch d.Op {
	case sqlite3.SQLITE_INSERT:
		e.Op, e.NewID = "INSERT", d.NewRowID
	case sqlite3.SQLITE_UPDATE:
		e.Op, e.OldID, e.NewID = "UPDATE", d.OldRowID, d.NewRowID
	case sqlite3.SQLITE_DELETE:
		e.Op, e.OldID = "DELETE", d.OldRowID
	default:
		m.hookErr = fmt.Sprintf("unknown op %d", d.Op)
	}
	if d.Op != sqlite3.SQLITE_INSERT {
		v := make([]any, n)
		if err := d.Old(v...); err != nil {
			m.hookErr = err.Error()
		}
		e.oldV, e.Old = v, canonRow(v)
	}
	if d.Op != sqlite3.SQLITE_DELETE {
		v := make([]any, n)
		if err := d.New(v...); err != nil {
			m.hookErr = err.Error()
		}
		e.newV, e.New = v, canonRow(v)
	}
	m.cur = append(m.cur, e)
	m.dPending = append(m.dPending, e)
}

func (m *refMon) commit() int {
	g := append(append([]evt{}, m.pending...), m.cur...)
	m.pending, m.cur = nil, nil
	m.groups = append(m.groups, g)
	m.commitsAt = append(m.commitsAt, m.stmt)
	if len(m.dPending) > 0 {
		m.dGroups = append(m.dGroups, m.dPending)
		m.dPending = nil
	}
	return 0
}

func (m *refMon) resetForRequest() {
	*m = refMon{}
}

// ------------------------------------------------------------------- twin

type config struct {
	Filter   string `json:"filter"` // "" = none
	IDsOnly  bool   `json:"ids_only"`
	Triggers bool   `json:"triggers"`
}

type twin struct {
	dir      string
	cfg      config
	re       *regexp.Regexp
	rq       *rdb.DB
	rqReader *sql.DB
	streamer *rdb.CDCStreamer
	ch       chan *proto.CDCIndexedEventGroup
	ref      *sqlref.RefConn
	refRead  *sql.DB
	mon      *refMon
	index    uint64
	// column lists every table has had at earlier commit points (JSON of the
	// list); used only to name the stale-schema finding.
	seenCols map[string]map[string]bool
}

func (t *twin) noteCols(im *image) {
	if t.seenCols == nil {
		t.seenCols = map[string]map[string]bool{}
	}
	for name, cols := range im.cols {
		if t.seenCols[name] == nil {
			t.seenCols[name] = map[string]bool{}
		}
		b, _ := json.Marshal(cols)
		t.seenCols[name][string(b)] = true
	}
}

func schema(cfg config) sqlref.RefReq {
	s := []string{
		`CREATE TABLE a1 (id INTEGER PRIMARY KEY, i INTEGER, r REAL, t TEXT, b BLOB, x)`,
		`CREATE TABLE a2 (k TEXT, i INTEGER UNIQUE, r REAL, b BLOB, n NUMERIC)`,
		`CREATE TABLE b1 (id INTEGER PRIMARY KEY AUTOINCREMENT, t TEXT NOT NULL, v INTEGER CHECK (v IS NULL OR v < 1000))`,
		`CREATE TABLE lg (seq INTEGER PRIMARY KEY, what TEXT, ref INTEGER, o, n)`,
	}
	if cfg.Triggers {
		s = append(s,
			`CREATE TRIGGER a1_ai AFTER INSERT ON a1 BEGIN INSERT INTO lg(what,ref,n) VALUES('a1+', new.id, new.t); END`,
			`CREATE TRIGGER a1_au AFTER UPDATE OF i ON a1 BEGIN INSERT INTO lg(what,ref,o,n) VALUES('a1~', old.id, old.i, new.i); END`,
			`CREATE TRIGGER a2_ad AFTER DELETE ON a2 BEGIN INSERT INTO lg(what,ref,o) VALUES('a2-', old.rowid, old.k); END`,
			`CREATE TRIGGER b1_ai AFTER INSERT ON b1 BEGIN UPDATE a1 SET r = coalesce(r,0)+1 WHERE id = (SELECT min(id) FROM a1); END`,
		)
	}
	s = append(s,
		`INSERT INTO a1(i,r,t,b,x) VALUES (1,1.5,'one',x'01',NULL),(2,2.0,'two',x'',7),(3,NULL,'',NULL,'x'),(4,-0.5,'four',x'00ff',x'aa'),(5,1e10,NULL,zeroblob(2),2.5)`,
		`INSERT INTO a2(k,i,r,b,n) VALUES ('k1',1,0.25,x'10',1),('k2',2,NULL,NULL,'2'),('k3',3,3.0,x'',3.5),('k4',4,4,x'ff','n'),('k5',5,5.5,NULL,NULL)`,
		`INSERT INTO b1(t,v) VALUES ('b-one',10),('b-two',NULL),('b-three',999)`,
	)
	req := sqlref.RefReq{Tx: true}
	for _, q := range s {
		req.Stmts = append(req.Stmts, sqlref.RefStmt{SQL: q})
	}
	return req
}

func openTwin(cfg config) (*twin, error) {
	t := &twin{dir: vf.TempDir("c27"), cfg: cfg, mon: &refMon{}}
	if cfg.Filter != "" {
		t.re = regexp.MustCompile(cfg.Filter)
	}
	fail := func(err error) (*twin, error) { t.close(); return nil, err }
	var err error
	if t.rq, err = rdb.Open(filepath.Join(t.dir, "rq.db"), false, true); err != nil {
		return fail(err)
	}
	if t.rqReader, err = sqlref.Open(filepath.Join(t.dir, "rq.db")); err != nil {
		return fail(err)
	}
	if t.ref, err = sqlref.OpenRef(filepath.Join(t.dir, "ref.db"), false, true); err != nil {
		return fail(err)
	}
	if t.refRead, err = sqlref.Open(filepath.Join(t.dir, "ref.db")); err != nil {
		return fail(err)
	}
	// Schema and seed rows go in before CDC is switched on, on both sides.
	sreq := schema(cfg)
	if rs, err := t.ref.Run(&sreq, sqlref.RefVariant{}, nil); err != nil {
		return fail(err)
	} else {
		for _, r := range rs {
			if r.Err != "" {
				return fail(fmt.Errorf("seed (reference): %s", r.Err))
			}
		}
	}
	rs, err := t.rq.Execute(toProto(&sreq), false)
	if err != nil {
		return fail(err)
	}
	for _, r := range rs {
		if r.GetError() != "" {
			return fail(fmt.Errorf("seed (rqlite): %s", r.GetError()))
		}
	}
	// rqlite side: the wiring of Store.fsmApply.
	t.ch = make(chan *proto.CDCIndexedEventGroup, 4096)
	if t.streamer, err = rdb.NewCDCStreamer(t.ch, t.rq); err != nil {
		return fail(err)
	}
	if err = t.rq.RegisterPreUpdateHook(t.streamer.PreupdateHook, t.re, cfg.IDsOnly); err != nil {
		return fail(err)
	}
	if err = t.rq.RegisterCommitHook(t.streamer.CommitHook); err != nil {
		return fail(err)
	}
	// reference side: the raw driver hooks.
	err = t.ref.Raw(func(c *sqlite3.SQLiteConn) error {
		c.RegisterPreUpdateHook(func(d sqlite3.SQLitePreUpdateData) { t.mon.preupdate(d) })
		c.RegisterCommitHook(func() int { return t.mon.commit() })
		return nil
	})
	if err != nil {
		return fail(err)
	}
	return t, nil
}

// schemaState reads, from the reference, what the generator must know so that
// it never produces a statement that cannot prepare.
func (t *twin) schemaState() (c1, extra bool) {
	var n int
	t.ref.Conn.QueryRowContext(context.Background(), `SELECT count(*) FROM sqlite_master WHERE name='c1'`).Scan(&n)
	c1 = n > 0
	t.ref.Conn.QueryRowContext(context.Background(), `SELECT count(*) FROM pragma_table_info('a2') WHERE name='extra'`).Scan(&n)
	extra = n > 0
	return
}

func (t *twin) close() {
	if t.rqReader != nil {
		t.rqReader.Close()
	}
	if t.rq != nil {
		t.rq.Close()
	}
	if t.refRead != nil {
		t.refRead.Close()
	}
	if t.ref != nil {
		t.ref.Close()
	}
	os.RemoveAll(t.dir)
}

func toProto(req *sqlref.RefReq) *proto.Request {
	pr := &proto.Request{Transaction: req.Tx, RollbackOnError: req.RollbackOnError}
	for _, s := range req.Stmts {
		pr.Statements = append(pr.Statements, &proto.Statement{Sql: s.SQL, ForceQuery: s.ForceQuery})
	}
	return pr
}

// ------------------------------------------------------------- one request

type refRun struct {
	groups      [][]evt // truth, unfiltered, with values, empty groups removed
	dGroups     [][]evt // what a never-forgetting streamer would emit
	results     []sqlref.RefRes
	selfCheck   string // non-empty: the reference's own events disagree with the row images
	failedTouch int    // raw events fired by statements that then failed
	rolledBack  int    // events dropped by an explicit/executor ROLLBACK
	stmtsOK     int
	stmtsFailed int
	intForReal  int // after-images where SQLite's hook typed an integral REAL as integer
}

// runRef executes the request on the reference, building the true event groups.
func (t *twin) runRef(req *sqlref.RefReq) (*refRun, error) {
	m := t.mon
	m.resetForRequest()
	out := &refRun{}
	committed, err := takeImage(t.ref.Conn)
	if err != nil {
		return nil, err
	}
	t.noteCols(committed)
	dropped := map[string]bool{}
	for _, st := range req.Stmts {
		if f := strings.Fields(st.SQL); len(f) >= 3 && strings.EqualFold(f[0], "DROP") && strings.EqualFold(f[1], "TABLE") {
			dropped[f[len(f)-1]] = true
		}
	}
	var before *image
	var ierr error
	closed := 0 // groups already self-checked
	afterPoint := func(now *image) {
		// Every group closed since the last point must replay from the image at
		// the previous commit to the image now.
		for closed < len(m.groups) {
			g := m.groups[closed]
			closed++
			for i := range g {
				if g[i].Cols == nil { // events of the committing statement itself
					g[i].Cols = now.cols[g[i].Table]
					g[i].committedCols = committed.cols[g[i].Table]
					g[i].txCreated = g[i].committedCols == nil
				}
			}
			if d := replayGroup(committed, now, g, dropped); d != "" && out.selfCheck == "" {
				out.selfCheck = d
			} else if d == "" {
				for _, e := range g {
					if e.newV == nil {
						continue
					}
					if raw, ok := now.raw[e.Table][e.NewID]; ok && now.rows[e.Table][e.NewID] == numRow(e.newV) && raw != strings.Join(e.New, ",") {
						out.intForReal++
					}
				}
			}
			committed = now
		}
	}
	h := &sqlref.RefHooks{
		Before: func(i int) {
			m.stmt = i
			m.cur = nil
			if before, ierr = takeImage(t.ref.Conn); ierr != nil {
				before = nil
			}
		},
		After: func(i int, res *sqlref.RefRes) {
			now, err := takeImage(t.ref.Conn)
			if err != nil || before == nil {
				ierr = fmt.Errorf("image: %v", err)
				return
			}
			if res.Err != "" {
				out.stmtsFailed++
				if len(m.cur) > 0 && now.equal(before) {
					// The statement touched rows and was undone: none of its events survive.
					out.failedTouch += len(m.cur)
					m.droppedFailed += len(m.cur)
					m.cur = nil
				}
			} else {
				out.stmtsOK++
			}
			if res.Err == "" && strings.EqualFold(strings.TrimSpace(req.Stmts[i].SQL), "ROLLBACK") {
				out.rolledBack += len(m.pending)
				m.droppedRollback += len(m.pending)
				m.pending = nil
			}
			for k := range m.cur { // column names as of the statement that made the change
				m.cur[k].Cols = now.cols[m.cur[k].Table]
				m.cur[k].committedCols = committed.cols[m.cur[k].Table]
				m.cur[k].txCreated = m.cur[k].committedCols == nil
			}
			m.pending = append(m.pending, m.cur...)
			m.cur = nil
			afterPoint(now)
		},
		AfterControl: func(q string, err error) {
			m.stmt = -1
			if q == "ROLLBACK" && err == nil {
				out.rolledBack += len(m.pending)
				m.droppedRollback += len(m.pending)
				m.pending = nil
			}
			if q == "COMMIT" {
				now, e := takeImage(t.ref.Conn)
				if e != nil {
					ierr = e
					return
				}
				afterPoint(now)
			}
		},
	}
	rs, err := t.ref.Run(req, sqlref.RefVariant{}, h)
	if err != nil {
		return nil, fmt.Errorf("reference executor: %w", err)
	}
	if ierr != nil {
		return nil, ierr
	}
	if m.hookErr != "" {
		return nil, fmt.Errorf("reference hook: %s", m.hookErr)
	}
	if t.ref.InTx() {
		return nil, fmt.Errorf("reference left a transaction open (generator bug)")
	}
	out.results = rs
	for _, g := range m.groups {
		if len(g) > 0 {
			out.groups = append(out.groups, g)
		}
	}
	out.dGroups = m.dGroups
	return out, nil
}

// view applies the configured filter and ids-only mode to reference groups.
func (t *twin) view(groups [][]evt) [][]evt {
	var out [][]evt
	for _, g := range groups {
		var ng []evt
		for _, e := range g {
			if t.re != nil && !t.re.MatchString(e.Table) {
				continue
			}
			if t.cfg.IDsOnly {
				e.Old, e.New, e.oldV, e.newV = nil, nil, nil, nil
			}
			ng = append(ng, e)
		}
		if len(ng) > 0 {
			out = append(out, ng)
		}
	}
	return out
}

func (t *twin) runRq(req *sqlref.RefReq) ([][]evt, []*proto.CDCIndexedEventGroup, []*proto.ExecuteQueryResponse, error) {
	t.index++
	t.streamer.Reset(t.index) // as fsmApply does before every log entry
	var rs []*proto.ExecuteQueryResponse
	var err error
	if req.Unified {
		rs, err = t.rq.Request(toProto(req), false)
	} else {
		rs, err = t.rq.Execute(toProto(req), false)
	}
	if err != nil {
		return nil, nil, nil, err
	}
	var groups [][]evt
	var raw []*proto.CDCIndexedEventGroup
	for {
		select {
		case g := <-t.ch:
			raw = append(raw, g)
			var evs []evt
			for _, e := range g.Events {
				evs = append(evs, fromProto(e))
			}
			groups = append(groups, evs)
			continue
		default:
		}
		break
	}
	return groups, raw, rs, nil
}

func sameEvent(a, b evt, withCols bool) string {
	switch {
	case a.Op != b.Op:
		return "op"
	case a.Table != b.Table:
		return "table"
	case a.OldID != b.OldID || a.NewID != b.NewID:
		return "rowid"
	case (a.Old == nil) != (b.Old == nil) || (a.New == nil) != (b.New == nil):
		return "row-presence"
	case strings.Join(a.Old, "\x00") != strings.Join(b.Old, "\x00"):
		return "before-values"
	case strings.Join(a.New, "\x00") != strings.Join(b.New, "\x00"):
		return "after-values"
	}
	if withCols {
		if a.Err != b.Err {
			return "error"
		}
		if strings.Join(a.Cols, "\x00") != strings.Join(b.Cols, "\x00") {
			return "column-names"
		}
	}
	return ""
}

// diffGroups returns "" when equal, else (aspect, text) of the first difference.
func diffGroups(want, got [][]evt, withCols bool) (string, string) {
	for gi := 0; gi < len(want) || gi < len(got); gi++ {
		if gi >= len(want) {
			return "extra-group", fmt.Sprintf("commit %d: rqlite emitted a group of %d events the reference does not have, first %s", gi, len(got[gi]), got[gi][0])
		}
		if gi >= len(got) {
			return "missing-group", fmt.Sprintf("commit %d: rqlite emitted nothing, reference has %d events, first %s", gi, len(want[gi]), want[gi][0])
		}
		w, g := want[gi], got[gi]
		for i := 0; i < len(w) || i < len(g); i++ {
			if i >= len(w) {
				return "extra-event", fmt.Sprintf("commit %d event %d: rqlite has extra %s (group sizes rqlite %d, reference %d)", gi, i, g[i], len(g), len(w))
			}
			if i >= len(g) {
				return "missing-event", fmt.Sprintf("commit %d event %d: rqlite lacks %s (group sizes rqlite %d, reference %d)", gi, i, w[i], len(g), len(w))
			}
			if a := sameEvent(w[i], g[i], withCols); a != "" {
				return a, fmt.Sprintf("commit %d event %d differs in %s: rqlite %s, reference %s", gi, i, a, g[i], w[i])
			}
		}
	}
	return "", ""
}

// ---- JSON envelope

type jsonEvent struct {
	Op       string         `json:"op"`
	Table    string         `json:"table,omitempty"`
	NewRowID int64          `json:"new_row_id,omitempty"`
	OldRowID int64          `json:"old_row_id,omitempty"`
	Before   map[string]any `json:"before,omitempty"`
	After    map[string]any `json:"after,omitempty"`
}

func expectedJSON(groups [][]evt) any {
	var payload []any
	for _, g := range groups {
		var evs []jsonEvent
		for _, e := range g {
			je := jsonEvent{Op: e.Op, Table: e.Table, NewRowID: e.NewID, OldRowID: e.OldID}
			if e.oldV != nil {
				je.Before = map[string]any{}
				for i, v := range e.oldV {
					je.Before[e.Cols[i]] = v
				}
			}
			if e.newV != nil {
				je.After = map[string]any{}
				for i, v := range e.newV {
					je.After[e.Cols[i]] = v
				}
			}
			evs = append(evs, je)
		}
		payload = append(payload, map[string]any{"events": evs})
	}
	return payload
}

func decodeNum(b []byte) (any, error) {
	d := json.NewDecoder(bytes.NewReader(b))
	d.UseNumber()
	var v any
	err := d.Decode(&v)
	return v, err
}

// jsonCheck marshals rqlite's groups through cdc/json and compares the payload
// (without index / timestamps) with one built from the reference events.
func jsonCheck(raw []*proto.CDCIndexedEventGroup, want [][]evt) string {
	if len(raw) == 0 {
		return ""
	}
	b, err := cdcjson.MarshalToEnvelopeJSON("svc", "node", false, raw)
	if err != nil {
		return "MarshalToEnvelopeJSON: " + err.Error()
	}
	got, err := decodeNum(b)
	if err != nil {
		return "envelope is not JSON: " + err.Error()
	}
	env, _ := got.(map[string]any)
	pl, _ := env["payload"].([]any)
	for _, p := range pl {
		if m, ok := p.(map[string]any); ok {
			delete(m, "index")
		}
	}
	wb, err := json.Marshal(expectedJSON(want))
	if err != nil {
		return ""
	}
	wv, _ := decodeNum(wb)
	if !reflect.DeepEqual(any(pl), wv) {
		gb, _ := json.Marshal(pl)
		return fmt.Sprintf("envelope payload %s, expected %s", trunc(string(gb), 600), trunc(string(wb), 600))
	}
	return ""
}

func trunc(s string, n int) string {
	if len(s) > n {
		return s[:n] + "…"
	}
	return s
}

// ---------------------------------------------------------------- generator

type gen struct {
	r      *rand.Rand
	c1     bool // table c1 exists (model)
	extra  bool // a2.extra exists (model)
	nextID int
}

func (g *gen) pick(s ...string) string { return s[g.r.IntN(len(s))] }

func (g *gen) val() string {
	switch g.r.IntN(5) {
	case 0:
		return g.pick("0", "1", "-1", "42", "9007199254740993", "9223372036854775807", "(-9223372036854775807-1)", "1000", "77")
	case 1:
		return g.pick("1.5", "-2.25", "3.0", "1e300", "0.1", "1e-7", "123456789.125")
	case 2:
		return g.pick("'a'", "''", "'it''s'", "'naïve ☃'", "'12'", "'1.5'", "'x\"y'", "'"+strings.Repeat("long-", 40)+"'", "'NULL'")
	case 3:
		return g.pick("x''", "x'00ff'", "x'deadbeef'", "zeroblob(3)", "x'303132'")
	}
	return "NULL"
}

func (g *gen) smallInt() string { return fmt.Sprint(1 + g.r.IntN(12)) }

func (g *gen) where(col string) string {
	m := 2 + g.r.IntN(3)
	return fmt.Sprintf("%s%%%d=%d", col, m, g.r.IntN(m))
}

func (g *gen) a1rows(n int) string {
	var rows []string
	for i := 0; i < n; i++ {
		rows = append(rows, fmt.Sprintf("(%s,%s,%s,%s,%s)", g.val(), g.val(), g.val(), g.val(), g.val()))
	}
	return strings.Join(rows, ",")
}

// stmt returns one statement text. mayFailPrepare=false keeps out statements
// whose only way to fail is at prepare time (those are C13's subject).
func (g *gen) stmt() string {
	r := g.r
	switch r.IntN(30) {
	case 0, 1, 2:
		return "INSERT INTO a1(i,r,t,b,x) VALUES " + g.a1rows(1+r.IntN(3))
	case 3:
		// explicit ids: a primary-key conflict on row k undoes rows 1..k-1
		var rows []string
		for i, n := 0, 1+r.IntN(3); i < n; i++ {
			rows = append(rows, fmt.Sprintf("(%d,%s,%s)", 1+r.IntN(14), g.val(), g.val()))
		}
		return "INSERT INTO a1(id,i,t) VALUES " + strings.Join(rows, ",")
	case 4, 5:
		var rows []string
		for i, n := 0, 1+r.IntN(4); i < n; i++ {
			rows = append(rows, fmt.Sprintf("(%s,%d,%s,%s,%s)", g.val(), 1+r.IntN(14), g.val(), g.val(), g.val()))
		}
		return "INSERT INTO a2(k,i,r,b,n) VALUES " + strings.Join(rows, ",") // UNIQUE(i) conflicts on row k
	case 6, 7:
		var rows []string
		for i, n := 0, 1+r.IntN(3); i < n; i++ {
			t := g.pick("'t1'", "'t2'", "''", "'x'", "NULL") // NULL violates NOT NULL
			v := g.pick("1", "50", "999", "NULL", "1000")    // 1000 violates CHECK
			rows = append(rows, "("+t+","+v+")")
		}
		return "INSERT INTO b1(t,v) VALUES " + strings.Join(rows, ",")
	case 8, 9:
		return fmt.Sprintf("UPDATE a1 SET i=%s, x=%s WHERE %s", g.val(), g.val(), g.where("id"))
	case 10:
		return fmt.Sprintf("UPDATE a1 SET t = coalesce(t,'') || '!', b=%s WHERE %s", g.val(), g.where("id"))
	case 11:
		return g.pick(
			"UPDATE a1 SET id = id + 100 WHERE id = (SELECT min(id) FROM a1)",
			"UPDATE a2 SET rowid = rowid + 50 WHERE rowid = (SELECT max(rowid) FROM a2)",
			"UPDATE a1 SET id = (SELECT max(id) FROM a1) WHERE id = (SELECT min(id) FROM a1)", // PK conflict unless single row
		)
	case 12:
		return fmt.Sprintf("UPDATE a2 SET i = %d WHERE rowid >= %d", 1+r.IntN(14), 1+r.IntN(6)) // UNIQUE fails on the second row touched
	case 13:
		return fmt.Sprintf("UPDATE a2 SET r=%s, n=%s, k=%s WHERE %s", g.val(), g.val(), g.val(), g.where("i"))
	case 14:
		return fmt.Sprintf("UPDATE b1 SET v = coalesce(v,0) + %d", g.r.IntN(700)) // CHECK fails after k rows
	case 15, 16:
		return "DELETE FROM a1 WHERE " + g.where("id")
	case 17:
		return g.pick("DELETE FROM a2", "DELETE FROM a2 WHERE "+g.where("i"), "DELETE FROM b1 WHERE id = (SELECT max(id) FROM b1)", "DELETE FROM lg WHERE seq%2=0")
	case 18, 19:
		return fmt.Sprintf("INSERT INTO a2(k,i) VALUES(%s,%d) ON CONFLICT(i) DO UPDATE SET k = coalesce(excluded.k,'') || '+', n = coalesce(n,0)+1", g.val(), 1+r.IntN(14))
	case 20:
		return fmt.Sprintf("INSERT OR REPLACE INTO a2(k,i,r) VALUES(%s,%d,%s),(%s,%d,%s)", g.val(), 1+r.IntN(14), g.val(), g.val(), 1+r.IntN(14), g.val())
	case 21:
		return fmt.Sprintf("REPLACE INTO a1(id,i,t) VALUES(%d,%s,%s)", 1+r.IntN(14), g.val(), g.val())
	case 22:
		return fmt.Sprintf("INSERT OR IGNORE INTO a2(k,i) VALUES(%s,%d),(%s,%d),(%s,%d)", g.val(), 1+r.IntN(14), g.val(), 1+r.IntN(14), g.val(), 1+r.IntN(14))
	case 23:
		return fmt.Sprintf("INSERT OR FAIL INTO a2(k,i) VALUES(%s,%d),(%s,%d),(%s,%d)", g.val(), 1+r.IntN(20), g.val(), 1+r.IntN(20), g.val(), 1+r.IntN(20))
	case 24:
		return g.pick("UPDATE a1 SET i=1 WHERE id<0", "DELETE FROM a2 WHERE i>1000", "SELECT count(*) FROM a1", "CREATE INDEX IF NOT EXISTS a1_i ON a1(i)")
	case 25, 26:
		// DDL and DML on a table that may be created in the same transaction.
		switch {
		case !g.c1:
			g.c1 = true
			return "CREATE TABLE IF NOT EXISTS c1 (id INTEGER PRIMARY KEY, v TEXT, w)"
		case r.IntN(3) == 0:
			g.c1 = false
			return "DROP TABLE IF EXISTS c1"
		case r.IntN(3) == 0:
			return "DELETE FROM c1 WHERE " + g.where("id")
		default:
			return fmt.Sprintf("INSERT INTO c1(v,w) VALUES(%s,%s),(%s,%s)", g.val(), g.val(), g.val(), g.val())
		}
	case 27:
		if !g.extra {
			if r.IntN(3) == 0 {
				g.extra = true
				return "ALTER TABLE a2 ADD COLUMN extra TEXT DEFAULT 'd'"
			}
			return "UPDATE a2 SET k = 'pre' WHERE " + g.where("i")
		}
		return fmt.Sprintf("UPDATE a2 SET extra = %s WHERE %s", g.val(), g.where("i"))
	case 28:
		return fmt.Sprintf("UPDATE a1 SET r = abs(%s) WHERE %s", g.pick("(-9223372036854775807-1)", "-3"), g.where("id")) // integer overflow at run time after k rows
	default:
		return fmt.Sprintf("UPDATE a2 SET b=%s WHERE i=%d", g.val(), 1+r.IntN(14))
	}
}

func (g *gen) request() sqlref.RefReq {
	r := g.r
	req := sqlref.RefReq{Unified: r.IntN(2) == 0, Tx: r.IntN(2) == 0}
	n := 1 + r.IntN(5)
	var sqls []string
	for i := 0; i < n; i++ {
		if !req.Tx && r.IntN(6) == 0 {
			// an explicit transaction inside a non-transactional request,
			// committed or rolled back
			sqls = append(sqls, "BEGIN")
			c1b, extrab := g.c1, g.extra
			for j, k := 0, 1+r.IntN(3); j < k; j++ {
				sqls = append(sqls, g.stmt())
			}
			if r.IntN(2) == 0 {
				sqls = append(sqls, "COMMIT")
			} else {
				sqls = append(sqls, "ROLLBACK")
				g.c1, g.extra = c1b, extrab
			}
			continue
		}
		sqls = append(sqls, g.stmt())
	}
	for _, q := range sqls {
		req.Stmts = append(req.Stmts, sqlref.RefStmt{SQL: q})
	}
	return req
}

// ------------------------------------------------------------------ driver

type caseRec struct {
	Episode  int             `json:"episode"`
	Config   config          `json:"config"`
	History  []sqlref.RefReq `json:"history"`
	Request  sqlref.RefReq   `json:"request"`
	Rqlite   [][]evt         `json:"rqlite_groups"`
	Expected [][]evt         `json:"expected_groups"`
}

func pathName(r *sqlref.RefReq) string {
	s := "execute"
	if r.Unified {
		s = "request"
	}
	if r.Tx {
		s += "+tx"
	}
	return s
}

func stmtList(r *sqlref.RefReq) string {
	var s []string
	for _, st := range r.Stmts {
		s = append(s, fmt.Sprintf("%q", trunc(st.SQL, 160)))
	}
	return trunc("["+strings.Join(s, ", ")+"]", 900)
}

// columnsOnly reports whether observed differs from expected only in the
// column names / error field of events on tables created or altered inside the
// still-uncommitted transaction, in exactly the way reading the schema through
// another connection before the commit would produce.
func (t *twin) columnsOnly(want, got [][]evt, rr *refRun) string {
	if a, _ := diffGroups(want, got, false); a != "" {
		return ""
	}
	key := ""
	for gi := range want {
		for i := range want[gi] {
			w, g := want[gi][i], got[gi][i]
			if sameEvent(w, g, true) == "" {
				continue
			}
			switch {
			case w.txCreated && g.Err != "" && len(g.Cols) == 0:
				if key == "" {
					key = keyColsCreated
				}
			case !w.txCreated && g.Err == "" && !reflect.DeepEqual(w.committedCols, w.Cols) && reflect.DeepEqual(g.Cols, w.committedCols):
				key = keyColsAltered
			case g.Err == "" && w.Err == "" && t.seenBefore(w.Table, g.Cols):
				// the names are those the table had at an earlier commit
				if key == "" {
					key = keyColsStale
				}
			default:
				return ""
			}
		}
	}
	return key
}

func (t *twin) seenBefore(table string, cols []string) bool {
	b, _ := json.Marshal(cols)
	return t.seenCols[table][string(b)]
}

// segment runs requests on one twin until the databases diverge.
func runSegment(c *vf.Ctx, ep int, cfg config, base, n int, next func(i int, t *twin) sqlref.RefReq) int {
	t, err := openTwin(cfg)
	if err != nil {
		c.Inconclusive("open twin: " + err.Error())
		return 0
	}
	defer t.close()
	var history []sqlref.RefReq
	evaluated := 0
	for i := base; i < n; i++ {
		req := next(i, t)
		rr, err := t.runRef(&req)
		if err != nil {
			c.Inconclusive(err.Error())
			return 0
		}
		prep := false
		for _, r := range rr.results {
			if r.PrepareErr {
				prep = true
				c.Count("ref_prepare_errors", 1)
			}
		}
		if prep && req.Unified && req.Tx {
			// A statement that does not prepare inside a transactional unified
			// request is C13's known defect (the transaction is not aborted);
			// the reference rolled everything back, so skipping the request on
			// the rqlite side keeps the twins equal.
			c.Inconclusive("generated statement failed to prepare in a transactional unified request (C13's subject)")
			continue
		}
		got, raw, _, err := t.runRq(&req)
		if err != nil {
			c.Inconclusive("rqlite call: " + err.Error())
			return 0
		}
		c.Eval(1)
		evaluated++
		rec := func(want [][]evt) caseRec {
			return caseRec{Episode: ep, Config: cfg, History: history, Request: req, Rqlite: got, Expected: want}
		}
		// Monitor-side counters.
		nEv := 0
		ops := map[string]bool{}
		for _, g := range rr.groups {
			nEv += len(g)
			for _, e := range g {
				ops[e.Op] = true
				c.Count("ref_events:"+e.Op, 1)
			}
		}
		nGot := 0
		for _, g := range got {
			nGot += len(g)
		}
		c.Count("requests:"+pathName(&req), 1)
		c.Count("ref_commit_groups", int64(len(rr.groups)))
		c.Count("rqlite_groups", int64(len(got)))
		c.Count("rqlite_events", int64(nGot))
		c.Count("ref_statements_ok", int64(rr.stmtsOK))
		c.Count("ref_statements_failed", int64(rr.stmtsFailed))
		c.Count("ref_events_of_failed_statements", int64(rr.failedTouch))
		c.Count("ref_events_rolled_back", int64(rr.rolledBack))
		c.Count("sqlite_hook_after_image_integral_real_typed_integer", int64(rr.intForReal))
		if nEv >= 2 && (len(ops) >= 2 || rr.failedTouch > 0 || rr.rolledBack > 0) {
			b, _ := json.Marshal(req)
			c.Nontrivial(fmt.Sprintf("%v|%s", cfg, b))
		}
		if rr.selfCheck != "" {
			// The reference's own event list does not reproduce the row images:
			// no verdict can be based on it.
			c.Count("reference_selfcheck_failed", 1)
			c.Inconclusive("reference self-check: " + trunc(rr.selfCheck, 120))
			c.Logf("reference self-check failed for %s: %s", stmtList(&req), rr.selfCheck)
		} else {
			want := t.view(rr.groups)
			ok := true
			// Mode checks that need no reference at all.
			for _, g := range got {
				for _, e := range g {
					if t.cfg.IDsOnly && (e.Old != nil || e.New != nil) {
						ok = false
						c.Violation("ids-only:values-present", fmt.Sprintf("row-ids-only mode but event carries values: %s", e), rec(want))
					}
					if t.re != nil && !t.re.MatchString(e.Table) {
						ok = false
						c.Violation("filter:unmatched-table", fmt.Sprintf("table filter %q but event for table %s: %s", cfg.Filter, e.Table, e), rec(want))
					}
				}
			}
			if aspect, text := diffGroups(want, got, true); aspect != "" {
				ok = false
				key := "events:" + aspect
				if a2, _ := diffGroups(t.view(rr.dGroups), got, false); a2 == "" && (rr.failedTouch > 0 || rr.rolledBack > 0) {
					// exactly what a streamer that never drops pending events emits
					if rr.failedTouch > 0 {
						key = keyPhantomFailed
					} else {
						key = keyPhantomRollback
					}
				} else if k := t.columnsOnly(want, got, rr); k != "" {
					key = k
				}
				c.Count("mismatch:"+key, 1)
				c.Violation(key, fmt.Sprintf("cfg %+v, %s request %s: %s", cfg, pathName(&req), stmtList(&req), text), rec(want))
			} else {
				if d := jsonCheck(raw, want); d != "" {
					ok = false
					c.Violation("json:envelope-mismatch", fmt.Sprintf("%s request %s: %s", pathName(&req), stmtList(&req), d), rec(want))
				} else {
					c.Count("json_envelopes_compared", 1)
				}
			}
			if ok {
				c.Held(1)
				if nEv >= 3 && len(ops) >= 2 {
					c.Sample(map[string]any{"config": cfg, "request": req, "groups": got})
				}
			}
		}
		// The twins must still hold the same data.
		dr, err1 := sqlref.DumpDB(t.refRead)
		dq, err2 := sqlref.DumpDB(t.rqReader)
		if err1 != nil || err2 != nil {
			c.Inconclusive(fmt.Sprintf("dump: %v %v", err1, err2))
			return evaluated
		}
		if dr.String() != dq.String() {
			c.Violation("twin:database-diverged", fmt.Sprintf("%s request %s: databases differ (- reference, + rqlite) %s", pathName(&req), stmtList(&req), strings.ReplaceAll(sqlref.Diff(dr, dq), "\n", " | ")), rec(nil))
			return evaluated
		}
		history = append(history, req)
	}
	return evaluated
}

var filters = []string{"", "", "^a", "^(a1|lg)$", "b1|c1", "2$"}

func episodeConfig(r *rand.Rand) config {
	return config{Filter: filters[r.IntN(len(filters))], IDsOnly: r.IntN(4) == 0, Triggers: r.IntN(3) != 0}
}

func replay(c *vf.Ctx) {
	b, err := os.ReadFile(c.ReplayFile)
	if err != nil {
		c.Inconclusive("replay file: " + err.Error())
		return
	}
	var f struct {
		Case caseRec `json:"case"`
	}
	if err := json.Unmarshal(b, &f); err != nil {
		c.Inconclusive("replay file: " + err.Error())
		return
	}
	reqs := append(append([]sqlref.RefReq{}, f.Case.History...), f.Case.Request)
	runSegment(c, f.Case.Episode, f.Case.Config, 0, len(reqs), func(i int, _ *twin) sqlref.RefReq { return reqs[i] })
	c.Require(1, 0)
}

func run(c *vf.Ctx) {
	c.Rule("episodes on a fresh twin with a seeded CDC configuration (table filter regex none/^a/^(a1|lg)$/b1|c1/2$, row-ids-only on/off, triggers on/off); tables a1 (INTEGER PRIMARY KEY alias; INTEGER, REAL, TEXT, BLOB and untyped columns), a2 (plain rowid, UNIQUE, NUMERIC), b1 (AUTOINCREMENT, NOT NULL, CHECK), lg (trigger log), c1 (created/dropped by the programs); programs of 1-5 statements: multi-row INSERT/UPDATE/DELETE with values of every storage class in every column, rowid-changing UPDATE, UPSERT, REPLACE (implicit delete), OR IGNORE/OR FAIL, DELETE without WHERE, trigger cascades, statements failing after k rows (UNIQUE, PRIMARY KEY, NOT NULL, CHECK, integer overflow), DDL + DML in one transaction, explicit BEGIN..COMMIT/ROLLBACK blocks; Transaction on/off x {Execute, Request}. non-trivial = request whose surviving events number >=2 and that either mixes operations or contains events discarded by a failed statement / rollback; distinct by (config, request)")
	c.Assume("SQLite's preupdate/commit hooks as delivered by the go-sqlite3 driver are the ground truth for order and row ids; they are cross-checked per commit against full row images read with SELECT (replay must reproduce the table, every before-image must equal the row) - a disagreement there is reported as inconclusive, not as a verdict")
	c.Assume("hooks and streamer wired as Store.fsmApply does (Reset(index) before each request); group Index and CommitTimestamp are not compared (C25); WITHOUT ROWID tables excluded; db.DB level only, no Store sample")
	if c.ReplayFile != "" {
		replay(c)
		return
	}
	perEp := 20
	total := c.N(2000, 80000)
	eps := total / perEp
	var wg sync.WaitGroup
	work := make(chan int, 64)
	nw := runtime.NumCPU()
	if nw > 8 {
		nw = 8
	}
	for w := 0; w < nw; w++ {
		wg.Add(1)
		go func() {
			defer wg.Done()
			for ep := range work {
				r := c.Rand(uint64(ep))
				cfg := episodeConfig(r)
				g := &gen{r: r}
				c.Count(fmt.Sprintf("episodes:filter=%q", cfg.Filter), 1)
				if cfg.IDsOnly {
					c.Count("episodes:ids-only", 1)
				}
				for done := 0; done < perEp; {
					k := runSegment(c, ep, cfg, done, perEp, func(_ int, t *twin) sqlref.RefReq {
						g.c1, g.extra = t.schemaState()
						return g.request()
					})
					if k <= 0 {
						break
					}
					done += k
				}
			}
		}()
	}
	for ep := 0; ep < eps; ep++ {
		work <- ep
		if ep > 0 && ep%500 == 0 {
			c.Logf("episodes dispatched: %d/%d", ep, eps)
		}
	}
	close(work)
	wg.Wait()
	c.Extra("episodes", eps)
	c.Require(int64(total/2), total/40)
}
