// Package c12: corrupt snapshot data is detected before it is used
// (DESIGN §6 C12).
//
// Stores are generated through the real API (snapgen). One data file or
// checksum sidecar of a private copy is altered, either before the store is
// opened (cold) or after its first successful verification (warm); then a
// child process runs one consumer on it (open+restore, open+install into a
// second store, reap then restart+open+restore, real node start). Whatever a
// consumer hands out must be byte-identical to what it hands out on the
// unaltered store; failing (error or rqlite's fatal exit) is the other
// acceptable outcome.
package c12

import (
	"bufio"
	"bytes"
	"encoding/json"
	"fmt"
	"os"
	"path/filepath"
	"sort"
	"strings"
	"sync"
	"time"

	"verif/checks/c09/snapgen"
	"verif/internal/sqlref"
	"verif/internal/vf"
)

func init() { vf.Register("C12", "fault_enumeration", run) }

type fileInfo struct {
	rel     string
	size    int64
	sidecar bool
	class   string // db | wal | db-sidecar | wal-sidecar
	content string // sidecars only
}

type storeInfo struct {
	no      int
	man     *snapgen.Manifest
	files   []fileInfo
	reapSHA string // restore after reap on the unaltered store
	reapDet bool   // that is reproducible byte for byte
	reapDmp string
	nodeDmp string // logical dump of the database a node start restores
	nodeSHA string
}

type kase struct {
	no       int
	st       *storeInfo
	timing   string
	cr       corruption
	consumer string
	id       string
}

func (k kase) key() string {
	return fmt.Sprintf("%d/%s/%s/%s/%d/%d/%d/%s/%s/%s", k.st.no, k.cr.File, k.cr.Kind, k.cr.Tag, k.cr.Off, k.cr.Bit, k.cr.N, k.timing, k.consumer, k.id)
}

type outcome struct {
	stages   []stage
	code     int
	finished bool
	fatalMsg bool
	log      string
}

func (o *outcome) find(name string) *stage {
	for i := range o.stages {
		if o.stages[i].Stage == name {
			return &o.stages[i]
		}
	}
	return nil
}

// runChild runs one consumer in a child process on a private copy.
func runChild(root string, n int, st *storeInfo, q jreq) (*outcome, string) {
	dir := filepath.Join(root, fmt.Sprintf("case-%06d", n))
	os.MkdirAll(dir, 0755)
	storeCopy := filepath.Join(dir, "store")
	if q.Consumer == "node" {
		storeCopy = filepath.Join(dir, "node", "wsnapshots")
		q.Store = filepath.Join(dir, "node")
	} else {
		q.Store = storeCopy
	}
	if err := sqlref.CopyTree(st.man.StoreDir, storeCopy); err != nil {
		return nil, dir
	}
	q.Scratch = filepath.Join(dir, "scratch")
	b, _ := json.Marshal(q)
	logPath := filepath.Join(dir, "child.log")
	out, code, ok := vf.RunWorkerOnce(false, "c12", []string{string(b)}, []string{"GOMAXPROCS=2"}, logPath, 120*time.Second)
	o := &outcome{code: code, finished: ok}
	sc := bufio.NewScanner(bytes.NewReader(out))
	sc.Buffer(make([]byte, 1<<20), 1<<20)
	for sc.Scan() {
		var s stage
		if json.Unmarshal(sc.Bytes(), &s) == nil && s.Stage != "" {
			o.stages = append(o.stages, s)
		}
	}
	lb, _ := os.ReadFile(logPath)
	o.fatalMsg = bytes.Contains(lb, []byte("fatal snapshot integrity error"))
	if len(lb) > 600 {
		lb = lb[len(lb)-600:]
	}
	o.log = string(lb)
	return o, dir
}

func listFiles(man *snapgen.Manifest) []fileInfo {
	var out []fileInfo
	for _, sn := range man.Snaps {
		ents, _ := os.ReadDir(filepath.Join(man.StoreDir, sn.ID))
		for _, e := range ents {
			name := e.Name()
			fi := fileInfo{rel: filepath.Join(sn.ID, name)}
			info, err := e.Info()
			if err != nil {
				continue
			}
			fi.size = info.Size()
			switch {
			case name == "data.db":
				fi.class = "db"
			case strings.HasSuffix(name, ".wal"):
				fi.class = "wal"
			case name == "data.db.crc32":
				fi.class, fi.sidecar = "db-sidecar", true
			case strings.HasSuffix(name, ".wal.crc32"):
				fi.class, fi.sidecar = "wal-sidecar", true
			default:
				continue // meta.json is not a data file or checksum record
			}
			if fi.sidecar {
				b, _ := os.ReadFile(filepath.Join(man.StoreDir, fi.rel))
				fi.content = string(b)
			}
			out = append(out, fi)
		}
	}
	sort.Slice(out, func(i, j int) bool { return out[i].rel < out[j].rel })
	return out
}

func run(c *vf.Ctx) {
	c.Rule("a case = (generated store, one data file or checksum sidecar, one alteration {bit flip at a page-aligned offset | bit flip at a random offset | truncate | extend | sidecar with another valid CRC | sidecar deleted | sidecar garbage | sidecar byte flip}, timing {before the store is opened | after its first successful verification}, consumer {Open+Restore | Open+install into a second store+Restore there | Reap, restart, Open+Restore | real store.Store node start without database/fingerprint}); each case runs in its own child process on a private copy of the store; all cases alter exactly one file, all are non-trivial; distinct = the tuple")
	c.Assume("reference outputs come from running the same consumer in a child on an unaltered copy of the same store; the generated stores were checked against the stock-driver SQLite twin when built")
	c.Assume("detection = the consumer returns an error or rqlite exits the process; a consumer that hands out bytes identical to the reference is harmless (this only happens when the altered file is not part of what the consumer reads, or for sidecar edits that do not change the recorded CRC, e.g. the case of a hex digit)")
	c.Assume("meta.json is neither a data file nor a checksum record and is not altered; sidecars are never rewritten with \"disabled\":true (a deliberate downgrade marker, not corruption)")
	defer snapgen.UseFastTmp("c12")()
	root := vf.TempDir("c12")
	defer os.RemoveAll(root)

	// ---- stores ----
	shapes := []snapgen.Shape{
		{OlderFulls: 0, FullWALs: 0, Incs: []int{1}},
		{OlderFulls: 1, FullWALs: 1, Incs: []int{2}},
		{OlderFulls: 0, FullWALs: 2, Incs: []int{1, 1}, Stmts: 4},
	}
	if !c.Quick() {
		shapes = append(shapes, snapgen.Shape{OlderFulls: 2, FullWALs: 0, Incs: []int{1, 3}}, snapgen.Shape{OlderFulls: 0, FullWALs: 0, Incs: nil}, snapgen.Shape{OlderFulls: 1, FullWALs: 0, Incs: nil})
		r := c.Rand(1)
		for i := 0; i < 2; i++ {
			sh := snapgen.RandomShape(r, 2, 2, 4, 3)
			sh.Stmts = 2 + r.IntN(6)
			shapes = append(shapes, sh)
		}
	}
	var stores []*storeInfo
	for i, sh := range shapes {
		r := c.Rand(uint64(100 + i))
		man, err := snapgen.BuildInChild(filepath.Join(root, fmt.Sprintf("src%02d", i)), filepath.Join(root, fmt.Sprintf("work%02d", i)), sh, r.Uint64(), r.Uint64(), filepath.Join(root, fmt.Sprintf("build%02d.log", i)))
		if err != nil {
			if strings.HasPrefix(err.Error(), "mismatch:") {
				c.Violation("source:snapshot-resolves-to-wrong-database", fmt.Sprintf("shape %s: %v", sh, err), map[string]any{"shape": sh})
			} else {
				c.Inconclusive("building store: " + err.Error())
				c.Logf("build %s: %v", sh, err)
			}
			continue
		}
		si := &storeInfo{no: i, man: man, files: listFiles(man)}
		// reference runs on unaltered copies
		nref := 0
		ref := func(consumer string) *outcome {
			nref++
			o, dir := runChild(root, 900000+i*10+nref, si, jreq{Timing: "none", Consumer: consumer, ID: man.Newest().ID})
			defer os.RemoveAll(dir)
			if o == nil {
				return nil
			}
			// keep the dump, drop the files
			if consumer == "node" {
				if s := o.find("node-db"); s != nil && s.File != "" {
					if d, err := sqlref.DumpFile(s.File); err == nil {
						si.nodeDmp, si.nodeSHA = d.Hash(), s.SHA
					}
				}
			}
			if consumer == "reap" {
				if s := o.find("restore"); s != nil && s.File != "" {
					if d, err := sqlref.DumpFile(s.File); err == nil {
						si.reapDmp = d.Hash()
					}
				}
			}
			return o
		}
		okRef := true
		r1, r2 := ref("reap"), ref("reap")
		if r1 == nil || r2 == nil || r1.find("restore") == nil || r1.find("restore").SHA == "" || r2.find("restore") == nil {
			c.Inconclusive("reference reap run failed")
			c.Logf("store %d: reference reap failed: %+v", i, r1)
			okRef = false
		} else {
			si.reapSHA = r1.find("restore").SHA
			si.reapDet = r2.find("restore").SHA == si.reapSHA
			if si.reapDmp != man.Newest().DumpHash {
				c.Violation("reference:reap-changes-database", fmt.Sprintf("store %s: after Reap the newest snapshot restores to another database than before", sh), map[string]any{"shape": sh})
				okRef = false
			}
		}
		if rn := ref("node"); rn == nil || si.nodeDmp == "" {
			c.Inconclusive("reference node start failed")
			c.Logf("store %d: reference node start failed: %+v", i, rn)
			okRef = false
		} else if si.nodeDmp != man.Newest().DumpHash {
			c.Violation("reference:node-start-restores-wrong-database", fmt.Sprintf("store %s: a node started on the unaltered store ends with another database than the newest snapshot's", sh), map[string]any{"shape": sh})
			okRef = false
		}
		if okRef {
			stores = append(stores, si)
			c.Count("stores", 1)
			c.Count("store_files", int64(len(si.files)))
			if si.reapDet {
				c.Count("stores_with_byte_reproducible_reap", 1)
			}
			if si.reapSHA == man.Newest().RestoreSHA {
				c.Count("stores_where_reap_keeps_restore_bytes", 1)
			}
		}
	}

	// ---- cases ----
	var cases []kase
	consumers := []string{"restore", "transfer", "reap"}
	for _, si := range stores {
		r := c.Rand(uint64(500 + si.no))
		pickID := func() string {
			if r.IntN(3) == 0 {
				return si.man.Snaps[r.IntN(len(si.man.Snaps))].ID
			}
			return si.man.Newest().ID
		}
		rot := 0
		addAll := func(cr corruption, allConsumers bool) {
			for _, tm := range []string{"cold", "warm"} {
				if allConsumers {
					for _, cs := range consumers {
						cases = append(cases, kase{st: si, timing: tm, cr: cr, consumer: cs, id: pickID()})
					}
				} else {
					rot++
					cases = append(cases, kase{st: si, timing: tm, cr: cr, consumer: consumers[rot%3], id: pickID()})
				}
			}
		}
		var nodeCands []corruption
		for _, f := range si.files {
			if !f.sidecar {
				n := f.size
				var aligned []int64
				for o := int64(0); o < n; o += 4096 {
					aligned = append(aligned, o)
				}
				nAligned, nRandom := 1, 1
				if !c.Quick() {
					nAligned, nRandom = min(len(aligned), 16), 6
				}
				r.Shuffle(len(aligned), func(i, j int) { aligned[i], aligned[j] = aligned[j], aligned[i] })
				for _, o := range aligned[:min(nAligned, len(aligned))] {
					cr := corruption{File: f.rel, Kind: "flip", Off: o, Bit: r.IntN(8), Tag: f.class + ":flip-page-aligned"}
					addAll(cr, true)
					nodeCands = append(nodeCands, cr)
				}
				for k := 0; k < nRandom; k++ {
					cr := corruption{File: f.rel, Kind: "flip", Off: r.Int64N(n), Bit: r.IntN(8), Tag: f.class + ":flip-random"}
					addAll(cr, true)
					nodeCands = append(nodeCands, cr)
				}
				truncs := []int64{n - 1, n / 2, 0, 1, n - 4096}
				exts := []int64{1, 4096}
				if c.Quick() {
					x := r.IntN(3)
					truncs = truncs[x : x+1]
					exts = exts[:1]
				}
				for _, t := range truncs {
					if t >= 0 && t < n {
						cr := corruption{File: f.rel, Kind: "truncate", N: t, Tag: f.class + ":truncate"}
						addAll(cr, false)
						nodeCands = append(nodeCands, cr)
					}
				}
				for _, e := range exts {
					addAll(corruption{File: f.rel, Kind: "extend", N: e, Bit: r.IntN(256), Tag: f.class + ":extend"}, false)
				}
				continue
			}
			// checksum sidecar
			var sc struct {
				CRC  string `json:"crc"`
				Type string `json:"type"`
			}
			json.Unmarshal([]byte(f.content), &sc)
			other := func(k int) string {
				b := []byte(sc.CRC)
				if len(b) != 8 {
					return "00000000"
				}
				p := k % 8
				d := "0123456789abcdef"
				b[p] = d[(strings.IndexByte(d, b[p])+1+k/8)%16]
				return string(b)
			}
			nEdit := 1
			if !c.Quick() {
				nEdit = 8
			}
			for k := 0; k < nEdit; k++ {
				cr := corruption{File: f.rel, Kind: "replace", Data: fmt.Sprintf(`{"crc":"%s","type":"%s"}`, other(k+r.IntN(8)), sc.Type), Tag: f.class + ":other-valid-crc"}
				addAll(cr, false)
				nodeCands = append(nodeCands, cr)
			}
			cr := corruption{File: f.rel, Kind: "delete", Tag: f.class + ":deleted"}
			addAll(cr, false)
			nodeCands = append(nodeCands, cr)
			garbage := []string{"", "{", "not json at all", `{"crc":"zzzzzzzz","type":"castagnoli"}`, `{"crc":"` + sc.CRC + `","type":"crc32"}`, `{"crc":"` + sc.CRC[:min(7, len(sc.CRC))] + `","type":"castagnoli"}`}
			if c.Quick() {
				x := r.IntN(len(garbage))
				garbage = garbage[x : x+1]
			}
			for _, g := range garbage {
				addAll(corruption{File: f.rel, Kind: "replace", Data: g, Tag: f.class + ":garbage"}, false)
			}
			var pos []int64
			for p := int64(0); p < f.size; p++ {
				pos = append(pos, p)
			}
			if c.Quick() {
				r.Shuffle(len(pos), func(i, j int) { pos[i], pos[j] = pos[j], pos[i] })
				pos = pos[:min(1, len(pos))]
			}
			for _, p := range pos {
				addAll(corruption{File: f.rel, Kind: "flip", Off: p, Bit: r.IntN(8), Tag: f.class + ":byte-flip"}, false)
			}
		}
		// real node start: "present when a node starts" — cold only
		r.Shuffle(len(nodeCands), func(i, j int) { nodeCands[i], nodeCands[j] = nodeCands[j], nodeCands[i] })
		for _, cr := range nodeCands[:min(c.N(4, 40), len(nodeCands))] {
			cases = append(cases, kase{st: si, timing: "cold", cr: cr, consumer: "node"})
		}
	}
	for i := range cases {
		cases[i].no = i
	}
	c.Extra("cases_planned", len(cases))
	c.Logf("%d stores, %d cases", len(stores), len(cases))

	var mu sync.Mutex
	sampled := map[string]bool{}
	evalCase := func(k kase) {
		q := jreq{Timing: k.timing, Corrupt: &k.cr, Consumer: k.consumer, ID: k.id}
		o, dir := runChild(root, k.no, k.st, q)
		defer os.RemoveAll(dir)
		if o == nil {
			c.Inconclusive("harness: copying store")
			return
		}
		if !o.finished {
			c.Inconclusive("child watchdog (120 s)")
			return
		}
		if h := o.find("harness-error"); h != nil {
			c.Inconclusive("harness: " + h.Err)
			c.Logf("case %d: harness error %s", k.no, h.Err)
			return
		}
		if o.find("corrupted") == nil {
			c.Inconclusive("corruption was not applied")
			return
		}
		c.Eval(1)
		c.Nontrivial(k.key())
		c.Count("cases_"+k.timing+"_"+k.consumer, 1)
		c.Count("altered_"+k.cr.Tag, 1)

		// what did the consumer hand out?
		produced, same := false, false
		gotSHA := ""
		switch k.consumer {
		case "restore":
			if s := o.find("restore"); s != nil && s.Err == "" && s.SHA != "" {
				produced, gotSHA = true, s.SHA
				same = s.SHA == k.st.man.ByID(k.id).RestoreSHA
			}
		case "transfer":
			if s := o.find("dst-list"); s != nil && s.N > 0 {
				produced = true
				if rs := o.find("dst-restore"); rs != nil && rs.Err == "" {
					gotSHA = rs.SHA
					same = rs.SHA == k.st.man.ByID(k.id).RestoreSHA
				}
			}
		case "reap":
			if s := o.find("restore"); s != nil && s.Err == "" && s.SHA != "" {
				produced, gotSHA = true, s.SHA
				if k.st.reapDet {
					same = s.SHA == k.st.reapSHA
				} else if d, err := sqlref.DumpFile(s.File); err == nil {
					same = d.Hash() == k.st.reapDmp
				}
			}
		case "node":
			if s := o.find("node-db"); s != nil && s.Err == "" && s.File != "" {
				produced, gotSHA = true, s.SHA
				if d, err := sqlref.DumpFile(s.File); err == nil {
					same = d.Hash() == k.st.nodeDmp
				}
			}
		}

		// where was it stopped?
		where := "nowhere"
		switch {
		case o.code != 0 && o.fatalMsg:
			where = "fatal-exit"
		case o.code != 0:
			where = fmt.Sprintf("exit-code-%d", o.code)
		default:
			for _, s := range o.stages {
				if s.Err != "" {
					where = "error@" + s.Stage
					break
				}
			}
		}
		c.Count("stopped:"+where, 1)
		if strings.HasPrefix(where, "exit-code-") {
			c.Logf("case %d (%s %s %s %s): child exit %d without the integrity message: %s", k.no, k.timing, k.consumer, k.cr.Tag, k.cr.File, o.code, lastLines(o.log))
		}
		if k.consumer == "reap" && where != "nowhere" {
			// detection must come before the reap starts rewriting the store
			if _, err := os.Stat(filepath.Join(dir, "store", "REAP_PLAN")); err == nil {
				c.Count("reap_plan_left_after_failed_reap", 1)
			}
		}

		switch {
		case produced && !same:
			cls := strings.SplitN(k.cr.Tag, ":", 2)[0]
			c.Violation(fmt.Sprintf("%s:%s:%s", k.timing, k.consumer, cls),
				fmt.Sprintf("store %s: %s altered (%s, off=%d bit=%d n=%d) %s; consumer %s(%s) handed out a database (%s) that differs from the one of the unaltered store; stopped: %s; stages: %s",
					k.st.man.Shape, k.cr.File, k.cr.Tag, k.cr.Off, k.cr.Bit, k.cr.N, map[string]string{"cold": "before the store was opened", "warm": "after the store's first successful verification"}[k.timing], k.consumer, k.id, short(gotSHA), where, stageSummary(o)),
				map[string]any{"shape": k.st.man.Shape, "seed_stream": 100 + k.st.no, "corruption": k.cr, "timing": k.timing, "consumer": k.consumer, "id": k.id})
		case produced:
			c.Held(1)
			c.Count("handed_out_identical_bytes", 1)
			if where == "nowhere" {
				c.Count("not_detected_but_harmless", 1)
				c.Count("harmless:"+k.timing+":"+k.cr.Tag, 1)
			}
		default:
			c.Held(1)
			c.Count("nothing_handed_out", 1)
		}
		mu.Lock()
		sk := k.timing + k.consumer + strings.SplitN(k.cr.Tag, ":", 2)[0]
		if !sampled[sk] && len(sampled) < 6 {
			sampled[sk] = true
			c.Sample(map[string]any{"shape": k.st.man.Shape.String(), "corruption": k.cr, "timing": k.timing, "consumer": k.consumer, "stopped": where, "handed_out": produced, "identical": same, "stages": stageSummary(o)})
		}
		mu.Unlock()
	}

	par := snapgen.Par(c.N(4, 8))
	ch := make(chan kase)
	var wg sync.WaitGroup
	for w := 0; w < par; w++ {
		wg.Add(1)
		go func() {
			defer wg.Done()
			for k := range ch {
				evalCase(k)
			}
		}()
	}
	for i, k := range cases {
		ch <- k
		if i%500 == 499 {
			c.Logf("%d/%d cases dispatched", i+1, len(cases))
		}
	}
	close(ch)
	wg.Wait()
	c.Require(int64(c.N(120, 3000)), c.N(120, 3000))
}

func short(s string) string {
	if len(s) > 12 {
		return s[:12]
	}
	return s
}

func lastLines(s string) string {
	l := strings.Split(strings.TrimSpace(s), "\n")
	if len(l) > 3 {
		l = l[len(l)-3:]
	}
	return strings.Join(l, " | ")
}

func stageSummary(o *outcome) string {
	var p []string
	for _, s := range o.stages {
		x := s.Stage
		if s.Err != "" {
			e := s.Err
			if len(e) > 90 {
				e = e[:90] + "…"
			}
			x += "(err: " + e + ")"
		}
		p = append(p, x)
	}
	return strings.Join(p, " → ") + fmt.Sprintf(" exit=%d", o.code)
}
