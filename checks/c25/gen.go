package c25

import (
	"fmt"
	"math/rand/v2"
	"strings"

	"verif/internal/vf"
)

// ---- case description (deterministic from the seed) ----

type reqSpec struct {
	No      int      `json:"no"`
	Stmts   []string `json:"stmts"`
	Tx      bool     `json:"tx"`
	Node    int      `json:"node"` // -1 = whoever is leader, otherwise node index
	SleepMs int      `json:"sleep_ms"`
	Kinds   []string `json:"kinds"`
}

type faultSpec struct {
	Kind   string `json:"kind"` // stepdown | restart | snapshot | outage
	Victim int    `json:"victim"`
	Param  int    `json:"param"`
}

type caseSpec struct {
	Case         int                 `json:"case"`
	NReqs        int                 `json:"n_requests"`
	Filter       string              `json:"table_filter"`
	BatchSz      int                 `json:"cdc_max_batch_size"`
	BatchDelayMs int                 `json:"cdc_max_batch_delay_ms"`
	HWMms        int                 `json:"cdc_hwm_interval_ms"`
	EPSeed       uint64              `json:"endpoint_seed"`
	Requests     []reqSpec           `json:"-"`
	Faults       map[int][]faultSpec `json:"-"`
	NFaults      int                 `json:"n_faults"`
	// Directed is non-empty for a scripted history (see runDirected); the
	// requests are then W1 (first NW1) and W2 (the rest).
	Directed string `json:"directed,omitempty"`
	NW1      int    `json:"n_w1,omitempty"`
	Pick     int    `json:"follower_pick,omitempty"`
	// lagging-follower motif (see runDirectedLag): W1 = first NW1 requests, W2 =
	// next NW2, W3 = the rest.
	NW2          int  `json:"n_w2,omitempty"`
	SnapAt       int  `json:"first_leader_snapshot_after,omitempty"`
	Trailing     int  `json:"leader_snapshot_trailing_logs,omitempty"`
	W2Outage     bool `json:"endpoint_down_during_w2,omitempty"`
	LagOutage    bool `json:"endpoint_down_from_cut_off_until_follower_leads,omitempty"`
	RestartFirst bool `json:"follower_restarted_before_cut_off,omitempty"`
}

// nRandom is the number of random histories per tier; cases from nRandom on
// are directed histories: first nDirectedSnap of the follower-snapshot motif,
// then nDirectedLag of the lagging-follower motif.
func nRandom(c *vf.Ctx) int       { return c.N(3, 32) }
func nDirectedSnap(c *vf.Ctx) int { return c.N(1, 4) }
func nDirectedLag(c *vf.Ctx) int  { return c.N(2, 6) }
func nDirected(c *vf.Ctx) int     { return nDirectedSnap(c) + nDirectedLag(c) }

// caseFor returns the case description for a case number.
func caseFor(c *vf.Ctx, caseNo int) caseSpec {
	if caseNo >= nRandom(c)+nDirectedSnap(c) {
		return genDirectedLag(c, caseNo)
	}
	if caseNo >= nRandom(c) {
		return genDirected(c, caseNo)
	}
	return genCase(c, caseNo)
}

// genDirected: changes captured on a follower while they are still inside the
// batching window, a snapshot on that follower, an immediate restart of it,
// the endpoint down for the old leader, leadership moved to the restarted
// node, endpoint back. The statements are drawn like everywhere else.
func genDirected(c *vf.Ctx, caseNo int) caseSpec {
	r := c.Rand(uint64(caseNo))
	cs := caseSpec{Case: caseNo, Faults: map[int][]faultSpec{}, Directed: motifFollowerSnap}
	if caseNo%2 == 1 {
		cs.Filter = filterRe
	}
	cs.BatchSz = 100
	cs.BatchDelayMs = 8000
	cs.HWMms = 100
	cs.EPSeed = r.Uint64()
	cs.NW1 = 4 + r.IntN(4)
	cs.NReqs = cs.NW1 + 3
	cs.Pick = r.IntN(2)
	g := &gen{r: r, nextK: 1000}
	for i := 0; i < cs.NReqs; i++ {
		rq := reqSpec{No: i, Node: -1, SleepMs: 5}
		rq.Tx = r.IntN(10) < 4
		for j := 0; j < 1+r.IntN(3); j++ {
			s, k := g.stmt(i)
			if strings.HasPrefix(k, "ddl") {
				s, k = fmt.Sprintf("INSERT INTO t(k,v,n) VALUES(%d,'%s',%d)", g.freshK(), g.tok(), r.IntN(4)), "insert1"
			}
			rq.Stmts = append(rq.Stmts, s)
			rq.Kinds = append(rq.Kinds, k)
		}
		if i == 0 { // the first W1 request certainly changes rows
			rq.Stmts[0], rq.Kinds[0] = fmt.Sprintf("INSERT INTO t(k,v,n) VALUES(%d,'%s',1)", g.freshK(), g.tok()), "insert1"
		}
		cs.Requests = append(cs.Requests, rq)
	}
	return cs
}

const filterRe = `^(t|u|x[0-9]+)$`

type gen struct {
	r      *rand.Rand
	xs     []string // auxiliary tables the script has created (and not dropped)
	nextK  int
	tokens int
}

func (g *gen) tok() string {
	g.tokens++
	return fmt.Sprintf("v%d", g.tokens)
}

func (g *gen) freshK() int {
	g.nextK++
	return g.nextK
}

// stmt returns one statement and its kind.
func (g *gen) stmt(no int) (string, string) {
	r := g.r
	switch p := r.IntN(100); {
	case p < 16: // single-row insert
		return fmt.Sprintf("INSERT INTO t(k,v,n) VALUES(%d,'%s',%d)", g.freshK(), g.tok(), r.IntN(4)), "insert1"
	case p < 28: // multi-row insert
		n := 2 + r.IntN(4)
		var rows []string
		for i := 0; i < n; i++ {
			rows = append(rows, fmt.Sprintf("(%d,'%s',%d)", g.freshK(), g.tok(), r.IntN(4)))
		}
		return "INSERT INTO t(k,v,n) VALUES" + strings.Join(rows, ","), "insertN"
	case p < 36: // plain rowid table
		n := 1 + r.IntN(3)
		var rows []string
		for i := 0; i < n; i++ {
			rows = append(rows, fmt.Sprintf("(%d,'%s')", r.IntN(50), g.tok()))
		}
		return "INSERT INTO u(a,b) VALUES" + strings.Join(rows, ","), "insertU"
	case p < 50: // multi-row update
		m := 2 + r.IntN(6)
		return fmt.Sprintf("UPDATE t SET v='%s', n=n+1 WHERE id %% %d = %d", g.tok(), m, r.IntN(m)), "updateN"
	case p < 56:
		return fmt.Sprintf("UPDATE u SET b='%s' WHERE a %% 5 = %d", g.tok(), r.IntN(5)), "updateU"
	case p < 64: // delete a few rows
		return fmt.Sprintf("DELETE FROM t WHERE id IN (SELECT id FROM t ORDER BY id LIMIT %d OFFSET %d)", 1+r.IntN(3), r.IntN(12)), "deleteN"
	case p < 68:
		return fmt.Sprintf("DELETE FROM u WHERE rowid IN (SELECT rowid FROM u ORDER BY rowid LIMIT %d OFFSET %d)", 1+r.IntN(2), r.IntN(6)), "deleteU"
	case p < 75: // fails midway: UNIQUE violation on the last row after two fresh rows
		return fmt.Sprintf("INSERT INTO t(k,v,n) VALUES(%d,'%s',1),(%d,'%s',1),((SELECT min(k) FROM t),'%s',1)", g.freshK(), g.tok(), g.freshK(), g.tok(), g.tok()), "fail-unique-midway"
	case p < 80: // fails midway: CHECK(n>=0) once a row with n=0 is reached
		return fmt.Sprintf("UPDATE t SET n = n - 1, v='%s' WHERE id <= (SELECT min(id) + %d FROM t)", g.tok(), 3+r.IntN(6)), "fail-check-midway"
	case p < 83: // fails before touching anything
		return []string{"INSERT INTO nosuch(a) VALUES(1)", "UPDATE t SET nocol=1", "INSERT INTO t(k,v,n) VALUES(1,2"}[r.IntN(3)], "fail-prepare"
	case p < 88: // table outside the filter (when one is configured)
		return fmt.Sprintf("INSERT INTO nf(v) VALUES('%s')", g.tok()), "insertNF"
	case p < 92: // DDL: new table
		name := fmt.Sprintf("x%d", no*10+len(g.xs)%10)
		for _, x := range g.xs {
			if x == name {
				return fmt.Sprintf("CREATE INDEX IF NOT EXISTS i%d ON t(n)", no), "ddl-index"
			}
		}
		g.xs = append(g.xs, name)
		return fmt.Sprintf("CREATE TABLE %s (id INTEGER PRIMARY KEY, v TEXT)", name), "ddl-create"
	case p < 97: // write to an auxiliary table
		if len(g.xs) == 0 {
			return fmt.Sprintf("INSERT INTO u(a,b) VALUES(%d,'%s')", r.IntN(50), g.tok()), "insertU"
		}
		x := g.xs[r.IntN(len(g.xs))]
		if r.IntN(3) == 0 {
			return fmt.Sprintf("UPDATE %s SET v='%s'", x, g.tok()), "updateX"
		}
		return fmt.Sprintf("INSERT INTO %s(v) VALUES('%s'),('%s')", x, g.tok(), g.tok()), "insertX"
	default: // DDL: drop an auxiliary table created by an earlier request
		if len(g.xs) < 2 {
			return fmt.Sprintf("CREATE INDEX IF NOT EXISTS j%d ON u(a)", no), "ddl-index"
		}
		x := g.xs[0]
		g.xs = g.xs[1:]
		return "DROP TABLE " + x, "ddl-drop"
	}
}

func genCase(c *vf.Ctx, caseNo int) caseSpec {
	r := c.Rand(uint64(caseNo))
	cs := caseSpec{Case: caseNo, NReqs: c.N(300, 1100), Faults: map[int][]faultSpec{}}
	if caseNo%2 == 1 {
		cs.Filter = filterRe
	}
	cs.BatchSz = []int{1, 2, 3, 3, 5}[r.IntN(5)]
	cs.BatchDelayMs = []int{10, 25, 60}[r.IntN(3)]
	cs.HWMms = []int{100, 250, 600}[r.IntN(3)]
	cs.EPSeed = r.Uint64()
	g := &gen{r: r, nextK: 1000}
	for i := 0; i < cs.NReqs; i++ {
		rq := reqSpec{No: i, Node: -1, SleepMs: 8 + r.IntN(30)}
		if r.IntN(4) == 0 {
			rq.Node = r.IntN(3)
		}
		ns := 1
		switch p := r.IntN(10); {
		case p < 4:
			ns = 1
		case p < 7:
			ns = 2
		default:
			ns = 3 + r.IntN(3)
		}
		rq.Tx = r.IntN(10) < 4
		var createdHere []string
		for j := 0; j < ns; j++ {
			s, k := g.stmt(i)
			if k == "ddl-drop" {
				// never drop a table in the request that created it
				skip := false
				for _, x := range createdHere {
					if strings.HasSuffix(s, " "+x) {
						skip = true
					}
				}
				if skip {
					s, k = fmt.Sprintf("INSERT INTO u(a,b) VALUES(%d,'%s')", r.IntN(50), g.tok()), "insertU"
				}
			}
			if k == "ddl-create" {
				createdHere = append(createdHere, g.xs[len(g.xs)-1])
			}
			rq.Stmts = append(rq.Stmts, s)
			rq.Kinds = append(rq.Kinds, k)
		}
		cs.Requests = append(cs.Requests, rq)
	}
	// faults: one roughly every 25-45 requests
	// the first four faults are one of each kind (in seeded order), the rest are drawn
	first := []string{"stepdown", "restart", "snapshot", "outage"}
	r.Shuffle(len(first), func(a, b int) { first[a], first[b] = first[b], first[a] })
	nf := 0
	for at := 15 + r.IntN(20); at < cs.NReqs-10; at += 22 + r.IntN(24) {
		var kind string
		switch p := r.IntN(100); {
		case p < 28:
			kind = "stepdown"
		case p < 52:
			kind = "restart"
		case p < 70:
			kind = "snapshot"
		default:
			kind = "outage"
		}
		if nf < len(first) {
			kind = first[nf]
		}
		nf++
		f := faultSpec{Kind: kind, Victim: r.IntN(4), Param: r.IntN(3)} // victim 3 = current leader
		if kind == "outage" {
			f.Param = 15 + r.IntN(70) // endpoint fails everything for this many requests
		}
		cs.Faults[at] = append(cs.Faults[at], f)
		cs.NFaults++
		if f.Kind == "outage" && r.IntN(2) == 0 {
			// leadership moves (twice) while the endpoint is down
			a := at + 3 + r.IntN(5)
			cs.Faults[a] = append(cs.Faults[a], faultSpec{Kind: "stepdown"})
			cs.NFaults++
			if r.IntN(2) == 0 {
				b := a + 8 + r.IntN(8)
				cs.Faults[b] = append(cs.Faults[b], faultSpec{Kind: "stepdown"})
				cs.NFaults++
			}
		}
	}
	return cs
}
