package c16

// Linearizable reads observed at the hook points inside the read-index path
// (linread.after_commit_index = the read has just sampled the commit index,
// linread.after_verify_leader = the quorum has just confirmed leadership).
//
// Every linearizable Store.Query issued by this check records the node's raft
// term (raft's own "term" statistic) at both points, on the calling goroutine.
// The "lin-term-change" scenarios additionally stall one read at one of the two
// points and, while it is stalled, make the node lose its leadership (transfer
// or isolation until the lease runs out) and - in most variants - regain it in
// a later term, optionally with writes acknowledged by the interim leader.
// The worker only reports; verdicts are computed by the driver (judgeObs).

import (
	"fmt"
	"sync"
	"time"

	"github.com/rqlite/rqlite/v10/vexport"
	"verif/internal/hcluster"
)

// linTermBase: case numbers from here on are "lin-term-change" scenarios.
const linTermBase = 1000000

type linRec struct {
	node    *wnode
	termCI  int64 // term when the hook after_commit_index was entered (0 = not reached / unknown)
	termVL  int64 // term when the hook after_verify_leader was entered
	stall   string
	disturb func()
}

var linRecs sync.Map // goroutine id -> *linRec

func installLinHooks() {
	vexport.HookOn("linread.after_commit_index", func() { linHook("after_commit_index") })
	vexport.HookOn("linread.after_verify_leader", func() { linHook("after_verify_leader") })
}

func linHook(point string) {
	v, ok := linRecs.Load(goid())
	if !ok {
		return
	}
	rec := v.(*linRec)
	t := termOf(rec.node.Node)
	if point == "after_commit_index" {
		rec.termCI = t
	} else {
		rec.termVL = t
	}
	if rec.stall == point && rec.disturb != nil {
		d := rec.disturb
		rec.disturb = nil
		d()
	}
}

// termOf returns the node's current raft term as raft reports it (0 = unknown).
func termOf(n *hcluster.Node) (t int64) {
	defer func() {
		if recover() != nil {
			t = 0
		}
	}()
	st, err := n.Store.Stats()
	if err != nil || st == nil {
		return 0
	}
	rs, ok := st["raft"].(map[string]any)
	if !ok {
		return 0
	}
	if v, ok := rs["term"].(int64); ok {
		return v
	}
	return 0
}

func waitCond(d time.Duration, f func() bool) bool {
	deadline := time.Now().Add(d)
	for {
		if f() {
			return true
		}
		if time.Now().After(deadline) {
			return false
		}
		time.Sleep(20 * time.Millisecond)
	}
}

type linVariant struct {
	stall   string // hook point at which the read is stalled
	disturb string // what happens to the leadership while it is stalled
	writes  bool   // interim leader acknowledges writes
}

var linVariants = []linVariant{
	{"after_commit_index", "transfer-away-and-back", true},
	{"after_commit_index", "transfer-away-and-back", false},
	{"after_commit_index", "isolate-until-deposed-then-regain", true},
	{"after_commit_index", "transfer-away", true},
	{"after_verify_leader", "transfer-away-and-back", true},
	{"after_commit_index", "none", false},
}

// insertOn writes one uniquely tagged row through n (which must lead).
func (w *wk) insertOn(n *wnode) error {
	_, err := w.execOn(n.Node, fmt.Sprintf("INSERT OR IGNORE INTO t(id, v) VALUES(%d, 'r%d')", w.rows+1, w.rows+1))
	if err == nil {
		w.rows++
	}
	return err
}

// scnLinTerm: l leads, other is the second voter.
func scnLinTerm(w *wk, r interface{ IntN(int) int }, caseNo int, seed int64, l, other *wnode) {
	// every variant appears in every block of len(linVariants) consecutive cases
	v := linVariants[(caseNo-linTermBase+int(seed%1000))%len(linVariants)]
	nWrites := 0
	if v.writes {
		nWrites = 1 + r.IntN(2)
	}
	rounds := 1 + r.IntN(2)
	w.res.Params["stall"] = v.stall
	w.res.Params["disturb"] = v.disturb
	w.res.Params["interim_writes"] = nWrites
	w.res.Params["rounds"] = rounds

	for round := 0; round < rounds; round++ {
		// the stalled read must take the read-index path: a strong read has to
		// have gone through the log in the current term
		ready := false
		for try := 0; try < 5 && !ready; try++ {
			w.add(w.query(l, "prep", "strong", 0, false, false, w.rows))
			pre := w.query(l, "prep", "linearizable", 0, false, false, w.rows)
			w.add(pre)
			ready = pre.Served && pre.EffLevel == "LINEARIZABLE"
		}
		if !ready || !l.Store.IsLeader() {
			w.note("round %d: leader does not serve read-index reads", round)
			return
		}
		w.waitApplied(10 * time.Second)

		info := map[string]any{}
		disturb := func() {
			t0 := time.Now()
			switch v.disturb {
			case "none":
				time.Sleep(time.Duration(50+r.IntN(100)) * time.Millisecond)
				return
			case "isolate-until-deposed-then-regain":
				w.cl.Net.Isolate(l.ID, w.cl.Names())
				dep := waitCond(15*time.Second, func() bool { return !l.Store.IsLeader() })
				w.cl.Net.HealAll()
				if !dep {
					info["failed"] = "leader not deposed"
					return
				}
			default:
				if err := l.Store.Stepdown(true, other.ID); err != nil {
					info["failed"] = "stepdown: " + err.Error()
					return
				}
			}
			nl := w.waitLeader(20 * time.Second)
			if nl == nil {
				info["failed"] = "no leader"
				return
			}
			info["interim_leader"] = nl.ID
			if nl != l {
				for i := 0; i < nWrites; i++ {
					if err := w.insertOn(nl); err != nil {
						info["write_err"] = err.Error()
						break
					}
					info["interim_acked"] = i + 1
				}
			}
			if v.disturb != "transfer-away" && nl != l {
				if err := nl.Store.Stepdown(true, l.ID); err != nil {
					info["failed"] = "stepdown back: " + err.Error()
					return
				}
				if !waitCond(20*time.Second, func() bool { return l.Store.IsLeader() }) {
					info["failed"] = "leadership not regained"
					return
				}
			}
			info["regained"] = l.Store.IsLeader()
			info["term_after_disturbance"] = termOf(l.Node)
			info["disturb_ms"] = time.Since(t0).Milliseconds()
		}
		w.nextStall, w.nextDisturb = v.stall, disturb
		want := w.rows
		if v.disturb != "none" {
			want = -1 // writes may be acknowledged while the read is in flight
		}
		o := w.query(l, "stalled:"+v.stall, "linearizable", 0, false, false, want)
		w.nextStall, w.nextDisturb = "", nil
		o.Disturb = v.disturb
		if f, ok := info["failed"].(string); ok {
			o.Disturb = "" // the disturbance did not take place as planned: generic rules only
			w.note("round %d: disturbance failed: %s", round, f)
		}
		w.add(o)
		w.res.Params[fmt.Sprintf("round%d", round)] = info

		// whoever leads now: everything acknowledged so far (incl. by the
		// interim leader) must be visible to its linearizable reads, the first
		// of which is upgraded to strong
		nl := w.waitLeader(20 * time.Second)
		if nl == nil {
			w.note("round %d: no leader afterwards", round)
			return
		}
		for i := 0; i < 3; i++ {
			w.add(w.query(nl, "after-disturbance", "linearizable", 0, false, false, w.rows))
		}
		if nl != l {
			// roles for the next round follow the leadership
			l, other = nl, l
		}
		if err := w.insert(); err != nil {
			w.note("insert: %v", err)
			return
		}
	}
}
