// Package c15: no request can change rqlite-critical SQLite settings
// (DESIGN §6 C15). SQL texts come from a grammar of PRAGMA forms; ground truth
// per text comes from executing it on a scratch SQLite database opened like
// rqlite's read-write connection; the system side is a real single-node
// store.Store (child process) driven through Execute / Query / Request.
package c15

import (
	"database/sql"
	"encoding/json"
	"fmt"
	"math/rand/v2"
	"os"
	"path/filepath"
	"sort"
	"strings"
	"time"

	_ "github.com/mattn/go-sqlite3"
	rdb "github.com/rqlite/rqlite/v10/db"
	"verif/internal/sqlref"
	"verif/internal/vf"
)

func init() {
	vf.Register("C15", "exploration", run)
	vf.RegisterWorker("c15node", nodeWorker)
}

// ---------------------------------------------------------------------------
// Text grammar
// ---------------------------------------------------------------------------

type tspec struct {
	Pragma  string `json:"pragma"`
	Schema  string `json:"schema,omitempty"`  // "" main MAIN temp dq bt br sq
	DotSp   bool   `json:"dot_sp,omitempty"`  // spaces around the dot
	NameQ   string `json:"name_q,omitempty"`  // "" dq bt br
	Syntax  string `json:"syntax,omitempty"`  // "" (= value) call read
	EqSp    int    `json:"eq_sp,omitempty"`   // spacing around '=' / '('
	Val     int    `json:"val,omitempty"`     // value spelling index
	KwCase  int    `json:"kw_case,omitempty"` // 0 PRAGMA 1 pragma 2 PrAgMa
	NmCase  int    `json:"nm_case,omitempty"`
	Sep     string `json:"sep,omitempty"`    // whitespace between PRAGMA and the name: "" = one space
	Prefix  string `json:"prefix,omitempty"` // "" ws nl line-comment block-comment semi
	Inline  string `json:"inline,omitempty"` // "" after-kw before-op after-op
	Pos     string `json:"pos,omitempty"`    // "" second third after-insert after-pragma
	Suffix  string `json:"suffix,omitempty"` // "" semi comment then-select
	Explain bool   `json:"explain,omitempty"`
	Raw     string `json:"raw,omitempty"` // literal value overriding Val (restore only)
}

var protected = []string{"journal_mode", "wal_autocheckpoint", "wal_checkpoint", "synchronous", "query_only"}
var harmless = []string{"cache_size", "busy_timeout", "foreign_keys", "temp_store", "case_sensitive_like"}

var values = map[string][]string{
	"journal_mode":        {"DELETE", "delete", "'delete'", `"DELETE"`, "TRUNCATE", "PERSIST", "MEMORY", "OFF", "WAL"},
	"wal_autocheckpoint":  {"500", "1000", "1", "'500'", "+7", "1000.0"},
	"wal_checkpoint":      {"TRUNCATE", "PASSIVE", "FULL", "RESTART", "truncate", "'TRUNCATE'"},
	"synchronous":         {"2", "1", "3", "NORMAL", "FULL", "EXTRA", "'full'", "ON", "normal"},
	"query_only":          {"1", "ON", "TRUE", "true", "yes", "'on'", "0", "OFF", "false"},
	"cache_size":          {"-4000", "2000"},
	"busy_timeout":        {"1000", "50"},
	"foreign_keys":        {"ON", "0"},
	"temp_store":          {"MEMORY", "0"},
	"case_sensitive_like": {"1", "0"},
}

func mixCase(s string, k int) string {
	switch k {
	case 1:
		return strings.ToLower(s)
	case 2:
		b := []byte(strings.ToLower(s))
		for i := range b {
			if i%2 == 0 {
				b[i] = strings.ToUpper(string(b[i]))[0]
			}
		}
		return string(b)
	case 3:
		return strings.ToUpper(s)
	}
	return s
}

func (t *tspec) pragmaText() string {
	var b strings.Builder
	b.WriteString(mixCase("PRAGMA", t.KwCase))
	if t.Inline == "after-kw" {
		b.WriteString("/* c */")
	} else if t.Sep != "" {
		b.WriteString(t.Sep)
	} else {
		b.WriteString(" ")
	}
	switch t.Schema {
	case "main", "temp":
		b.WriteString(t.Schema)
	case "MAIN":
		b.WriteString("MAIN")
	case "dq":
		b.WriteString(`"main"`)
	case "bt":
		b.WriteString("`main`")
	case "br":
		b.WriteString("[main]")
	case "sq":
		b.WriteString("'main'")
	}
	if t.Schema != "" {
		if t.DotSp {
			b.WriteString(" . ")
		} else {
			b.WriteString(".")
		}
	}
	name := mixCase(t.Pragma, t.NmCase)
	switch t.NameQ {
	case "dq":
		name = `"` + name + `"`
	case "bt":
		name = "`" + name + "`"
	case "br":
		name = "[" + name + "]"
	}
	b.WriteString(name)
	vs := values[t.Pragma]
	v := vs[t.Val%len(vs)]
	if t.Raw != "" {
		v = t.Raw
	}
	if t.Inline == "before-op" {
		b.WriteString(" /* c */ ")
	}
	switch t.Syntax {
	case "call":
		b.WriteString([]string{"(", " (", "\t( ", "\n("}[t.EqSp%4])
		if t.Inline == "after-op" {
			b.WriteString("/* c */")
		}
		b.WriteString(v)
		b.WriteString([]string{")", " )"}[t.EqSp%2])
	case "read":
	default:
		b.WriteString([]string{" = ", "=", " =", "= ", "\t=\n", "  =  "}[t.EqSp%6])
		if t.Inline == "after-op" {
			b.WriteString("/* c */ ")
		}
		b.WriteString(v)
	}
	return b.String()
}

func (t *tspec) text() string {
	s := t.pragmaText()
	if t.Explain {
		s = "EXPLAIN " + s
	}
	switch t.Pos {
	case "second":
		s = "SELECT 1; " + s
	case "third":
		s = "SELECT 1; SELECT 2;\n" + s
	case "after-insert":
		s = "INSERT INTO c15(v) VALUES('via text'); " + s
	case "after-pragma":
		s = "PRAGMA cache_size = -2000; " + s
	}
	switch t.Suffix {
	case "semi":
		s += ";"
	case "comment":
		s += " -- trailing"
	case "then-select":
		s += "; SELECT 3"
	}
	switch t.Prefix {
	case "ws":
		s = "  \t" + s
	case "nl":
		s = "\n\r\n" + s
	case "line-comment":
		s = "-- note\n" + s
	case "block-comment":
		s = "/* note */ " + s
	case "semi":
		s = "; " + s
	}
	return s
}

// classes lists the syntactic classes of a text that differ from the plain
// `PRAGMA name = value`, in a fixed priority order. Harmless variation (case,
// whitespace the guard's \s handles, value spelling, suffix) is not a class.
func (t *tspec) classes() []string {
	var c []string
	if t.Explain {
		c = append(c, "explain")
	}
	if t.Syntax == "call" {
		c = append(c, "call-syntax")
	}
	switch t.Prefix {
	case "line-comment", "block-comment":
		c = append(c, "leading-comment")
	case "semi":
		c = append(c, "leading-semicolon")
	}
	if t.Pos != "" {
		c = append(c, "non-first-statement")
	}
	switch t.Schema {
	case "dq", "bt", "br", "sq":
		c = append(c, "quoted-schema")
	case "main", "MAIN", "temp":
		c = append(c, "schema-prefix")
	}
	if t.DotSp && t.Schema != "" {
		c = append(c, "spaced-dot")
	}
	if t.NameQ != "" {
		c = append(c, "quoted-name")
	}
	if t.Inline != "" {
		c = append(c, "inline-comment")
	}
	return c
}

// single returns the spec reduced to one class (everything else plain).
func (t *tspec) single(class string) *tspec {
	n := &tspec{Pragma: t.Pragma, Val: t.Val}
	if t.Syntax == "read" {
		n.Syntax = "read"
	}
	switch class {
	case "explain":
		n.Explain = true
	case "call-syntax":
		n.Syntax = "call"
	case "leading-comment", "leading-semicolon":
		n.Prefix = t.Prefix
	case "non-first-statement":
		n.Pos = t.Pos
	case "quoted-schema", "schema-prefix":
		n.Schema = t.Schema
	case "spaced-dot":
		n.Schema, n.DotSp = "main", true
	case "quoted-name":
		n.NameQ = t.NameQ
	case "inline-comment":
		n.Inline = t.Inline
	}
	return n
}

func pick[T any](r *rand.Rand, l []T) T { return l[r.IntN(len(l))] }

func genText(r *rand.Rand) *tspec {
	t := &tspec{}
	if r.IntN(7) == 0 {
		t.Pragma = pick(r, harmless)
	} else {
		t.Pragma = pick(r, protected)
	}
	t.Val = r.IntN(16)
	t.EqSp = r.IntN(12)
	t.KwCase = r.IntN(4)
	t.NmCase = r.IntN(4)
	if r.IntN(4) == 0 {
		t.Sep = pick(r, []string{"  ", "\t", "\n", " \r\n ", "\f"})
	}
	// each class with moderate probability, so that plain and single-class texts are frequent
	if r.IntN(3) == 0 {
		t.Schema = pick(r, []string{"main", "MAIN", "temp", "dq", "bt", "br", "sq", "main"})
		t.DotSp = r.IntN(6) == 0
	}
	if r.IntN(10) == 0 {
		t.NameQ = pick(r, []string{"dq", "bt", "br"})
	}
	switch r.IntN(10) {
	case 0, 1, 2:
		t.Syntax = "call"
	case 3:
		t.Syntax = "read"
	}
	if t.Pragma == "wal_checkpoint" && r.IntN(3) == 0 {
		t.Syntax = "read" // plain PRAGMA wal_checkpoint runs a checkpoint
	}
	if r.IntN(3) == 0 {
		t.Prefix = pick(r, []string{"ws", "nl", "line-comment", "block-comment", "semi"})
	}
	if r.IntN(8) == 0 {
		t.Inline = pick(r, []string{"after-kw", "before-op", "after-op"})
	}
	if r.IntN(4) == 0 {
		t.Pos = pick(r, []string{"second", "third", "after-insert", "after-pragma"})
	}
	if r.IntN(3) == 0 {
		t.Suffix = pick(r, []string{"semi", "comment", "then-select"})
	}
	t.Explain = r.IntN(25) == 0
	if t.Syntax == "read" && t.Inline == "after-op" {
		t.Inline = ""
	}
	return t
}

// systematic: every protected pragma x every single class value, plus plain.
func systematic() []*tspec {
	var out []*tspec
	for _, p := range protected {
		base := tspec{Pragma: p}
		add := func(f func(t *tspec)) {
			for _, syn := range []string{"", "call"} {
				t := base
				t.Syntax = syn
				f(&t)
				out = append(out, &t)
				if p == "query_only" && t.Val == 0 {
					// the read-only pool has query_only on: the dangerous value there is 0
					off := t
					off.Val = 6
					out = append(out, &off)
				}
			}
		}
		add(func(t *tspec) {})
		for v := 1; v < len(values[p]); v++ {
			v := v
			add(func(t *tspec) { t.Val = v })
		}
		for _, s := range []string{"main", "MAIN", "temp", "dq", "bt", "br", "sq"} {
			s := s
			add(func(t *tspec) { t.Schema = s })
			add(func(t *tspec) { t.Schema = s; t.DotSp = true })
		}
		for _, q := range []string{"dq", "bt", "br"} {
			q := q
			add(func(t *tspec) { t.NameQ = q })
		}
		for _, x := range []string{"ws", "nl", "line-comment", "block-comment", "semi"} {
			x := x
			add(func(t *tspec) { t.Prefix = x })
		}
		for _, x := range []string{"after-kw", "before-op", "after-op"} {
			x := x
			add(func(t *tspec) { t.Inline = x })
		}
		for _, x := range []string{"second", "third", "after-insert", "after-pragma"} {
			x := x
			add(func(t *tspec) { t.Pos = x })
		}
		for _, x := range []string{"semi", "comment", "then-select"} {
			x := x
			add(func(t *tspec) { t.Suffix = x })
		}
		for k := 1; k < 4; k++ {
			k := k
			add(func(t *tspec) { t.KwCase = k; t.NmCase = (k + 1) % 4 })
		}
		for _, x := range []string{"  ", "\t", "\n", " \r\n ", "\f"} {
			x := x
			add(func(t *tspec) { t.Sep = x })
		}
		for k := 1; k < 6; k++ {
			k := k
			add(func(t *tspec) { t.EqSp = k })
		}
		add(func(t *tspec) { t.Explain = true })
		rd := base
		rd.Syntax = "read"
		out = append(out, &rd)
		rd2 := rd
		rd2.Prefix = "block-comment"
		out = append(out, &rd2)
		rd3 := rd
		rd3.Pos = "second"
		out = append(out, &rd3)
		rd4 := rd
		rd4.Schema = "dq"
		out = append(out, &rd4)
	}
	return out
}

// ---------------------------------------------------------------------------
// Ground truth: the text executed on a scratch database opened like rqlite's
// read-write connection, with frames pending in the WAL.
// ---------------------------------------------------------------------------

type truth struct {
	Changed []string `json:"changed,omitempty"` // settings that differ afterwards, "checkpoint" when the main file changed
	Err     string   `json:"err,omitempty"`
}

type scratch struct {
	dir      string
	template string
	n        int
}

func rwDSN(path string) string {
	// same options as rqlite's db.MakeDSN(path, ModeReadWrite, false, true)
	return "file:" + path + "?_fk=false&_journal=WAL&_sync=0"
}

func newScratch(dir string) (*scratch, error) {
	s := &scratch{dir: dir, template: filepath.Join(dir, "template.db")}
	db, err := sql.Open("sqlite3", rwDSN(s.template))
	if err != nil {
		return nil, err
	}
	db.SetMaxOpenConns(1)
	for _, q := range []string{
		"PRAGMA wal_autocheckpoint=0",
		"CREATE TABLE c15(id INTEGER PRIMARY KEY, v TEXT)",
		"INSERT INTO c15(v) VALUES('seed')",
		"PRAGMA wal_checkpoint(TRUNCATE)",
		"INSERT INTO c15(v) VALUES('pending 1')",
		"INSERT INTO c15(v) VALUES('pending 2')",
	} {
		if _, err := db.Exec(q); err != nil {
			db.Close()
			return nil, fmt.Errorf("%s: %w", q, err)
		}
	}
	// copy while the connection is open, so the WAL with its pending frames exists
	if err := sqlref.CopyDB(s.template, s.template+".snap"); err != nil {
		db.Close()
		return nil, err
	}
	db.Close()
	if fi, err := os.Stat(s.template + ".snap-wal"); err != nil || fi.Size() == 0 {
		return nil, fmt.Errorf("scratch template has no pending WAL frames")
	}
	return s, nil
}

func readSettings(db *sql.DB) (cs connState, err error) {
	for i, q := range readPragmas {
		var v any
		if err = db.QueryRow(q).Scan(&v); err != nil {
			return cs, fmt.Errorf("%s: %w", q, err)
		}
		switch x := v.(type) {
		case []byte:
			cs[i] = string(x)
		default:
			cs[i] = fmt.Sprint(x)
		}
	}
	return cs, nil
}

// evaluate runs text (as an exec, like Store.Execute does) on a fresh copy.
func (s *scratch) evaluate(text string, sh *shape) truth {
	s.n++
	p := filepath.Join(s.dir, fmt.Sprintf("gt%d.db", s.n%4))
	for _, sfx := range []string{"", "-wal", "-shm", "-journal"} {
		os.Remove(p + sfx)
	}
	if err := sqlref.CopyDB(s.template+".snap", p); err != nil {
		return truth{Err: err.Error()}
	}
	db, err := sql.Open("sqlite3", rwDSN(p))
	if err != nil {
		return truth{Err: err.Error()}
	}
	defer db.Close()
	db.SetMaxOpenConns(1)
	if _, err := db.Exec("PRAGMA wal_autocheckpoint=0"); err != nil {
		return truth{Err: err.Error()}
	}
	before, err := readSettings(db)
	if err != nil {
		return truth{Err: err.Error()}
	}
	h0 := sqlref.FileHash(p)
	var tr truth
	var args []any
	if sh != nil {
		for _, nv := range paramValues(sh.Params) {
			args = append(args, sql.Named(nv.Name, nv.Value))
		}
	}
	if _, err := db.Exec(text, args...); err != nil {
		tr.Err = err.Error()
	}
	after, err := readSettings(db)
	if err != nil {
		tr.Err += " | read: " + err.Error()
		return tr
	}
	names := []string{"journal_mode", "wal_autocheckpoint", "synchronous", "query_only"}
	for i := range before {
		if !strings.EqualFold(before[i], after[i]) {
			tr.Changed = append(tr.Changed, names[i])
		}
	}
	if sqlref.FileHash(p) != h0 {
		tr.Changed = append(tr.Changed, "checkpoint")
	}
	return tr
}

// ---------------------------------------------------------------------------
// Driver
// ---------------------------------------------------------------------------

type nodeProc struct {
	p     *vf.Proc
	dir   string
	state nodeState
}

func startNode(base string, n int) (*nodeProc, error) {
	dir := filepath.Join(base, fmt.Sprintf("node%d", n))
	if err := os.MkdirAll(dir, 0755); err != nil {
		return nil, err
	}
	p, err := vf.StartWorker(false, "c15node", []string{dir}, nil, filepath.Join(base, fmt.Sprintf("node%d.log", n)))
	if err != nil {
		return nil, err
	}
	np := &nodeProc{p: p, dir: dir}
	var r nodeResp
	if err := p.Call(nodeReq{Op: "insert"}, &r, 90*time.Second); err != nil || r.Fatal != "" || r.State.Err != "" || !r.Accepted {
		p.Kill()
		return nil, fmt.Errorf("node start: %v %s %s %s", err, r.Fatal, r.State.Err, r.Err)
	}
	p.Call(nodeReq{Op: "insert"}, &r, 30*time.Second)
	np.state = r.State
	return np, nil
}

func (np *nodeProc) stop() {
	if np != nil && np.p != nil {
		np.p.Kill()
	}
}

func diffState(a, b nodeState) []string {
	var d []string
	names := []string{"journal_mode", "wal_autocheckpoint", "synchronous", "query_only"}
	for i := range names {
		if !strings.EqualFold(a.RW[i], b.RW[i]) {
			d = append(d, fmt.Sprintf("rw.%s %s->%s", names[i], a.RW[i], b.RW[i]))
		}
	}
	for i := range names {
		if !strings.EqualFold(a.RO[i], b.RO[i]) {
			d = append(d, fmt.Sprintf("ro.%s %s->%s", names[i], a.RO[i], b.RO[i]))
		}
	}
	if a.Hash != b.Hash {
		d = append(d, "main database file changed (checkpoint)")
	}
	return d
}

var entries = []string{"execute", "request", "query-none", "query-weak", "query-strong", "query-linearizable"}

type sendResult struct {
	Entry    string   `json:"entry"`
	Shape    *shape   `json:"shape,omitempty"`
	Accepted bool     `json:"accepted"`
	Err      string   `json:"err,omitempty"`
	StmtErr  string   `json:"stmt_err,omitempty"`
	Changed  []string `json:"changed,omitempty"`
	Broken   string   `json:"broken,omitempty"`
}

type harness struct {
	c        *vf.Ctx
	base     string
	np       *nodeProc
	nodes    int
	restarts int
}

func (h *harness) ensureNode() error {
	if h.np != nil {
		return nil
	}
	h.nodes++
	np, err := startNode(h.base, h.nodes)
	if err != nil {
		return err
	}
	h.np = np
	return nil
}

func (h *harness) restart(why string) {
	h.c.Logf("restarting node: %s", why)
	h.restarts++
	if h.np != nil {
		h.np.stop()
		os.RemoveAll(h.np.dir)
		h.np = nil
	}
}

// send runs one text through one entry point and reports what changed. The
// node is put back into its original state afterwards (recreated if needed).
func (h *harness) send(entry, text string, t *tspec, sh *shape) (*sendResult, error) {
	if sh.zero() {
		sh = nil
	}
	if err := h.ensureNode(); err != nil {
		return nil, err
	}
	np := h.np
	res := &sendResult{Entry: entry, Shape: sh}
	var r nodeResp
	// a checkpoint needs frames in the WAL to be visible in the main file
	if np.state.WAL == 0 {
		if err := np.p.Call(nodeReq{Op: "insert"}, &r, 30*time.Second); err != nil || r.Fatal != "" {
			h.restart("insert failed")
			return nil, fmt.Errorf("insert: %v %s", err, r.Fatal)
		}
		np.state = r.State
	}
	before := np.state
	if err := np.p.Call(nodeReq{Op: "send", Entry: entry, SQL: text, Shape: sh}, &r, 60*time.Second); err != nil || r.Fatal != "" {
		res.Broken = fmt.Sprintf("node did not answer: %v %s", err, r.Fatal)
		h.restart(res.Broken)
		return res, nil
	}
	res.Accepted, res.Err, res.StmtErr = r.Accepted, r.Err, r.StmtErr
	if r.State.Err != "" {
		res.Broken = "settings unreadable afterwards: " + r.State.Err
		h.restart(res.Broken)
		return res, nil
	}
	after := r.State
	np.state = after
	res.Changed = diffState(before, after)
	if len(res.Changed) > 0 {
		// settings changed: start the next case from a clean node
		changedSetting := false
		for _, d := range res.Changed {
			if !strings.HasPrefix(d, "main database") {
				changedSetting = true
			}
		}
		if changedSetting && !h.restore(t, sh, before, after) {
			h.restart("settings changed by " + fmt.Sprintf("%q", text) + " and could not be put back")
		}
	}
	return res, nil
}

// restore puts the changed setting back by sending the same form of text (in
// the same request shape) with the original value (read-write side through Execute, read-only side through
// Query level none); it reports whether the node is in its previous state
// (apart from the main file, which a checkpoint has changed for good).
func (h *harness) restore(t *tspec, sh *shape, want, got nodeState) bool {
	if t == nil || t.Syntax == "read" {
		return false
	}
	idx := map[string]int{"journal_mode": 0, "wal_autocheckpoint": 1, "synchronous": 2, "query_only": 3}
	i, ok := idx[t.Pragma]
	if !ok {
		return false
	}
	rt := *t
	rt.Pos, rt.Suffix = "", ""
	if t.Pos != "" {
		rt.Pos = "second"
	}
	var r nodeResp
	try := func(entry, orig string) bool {
		rt.Raw = orig
		h.c.Count("restores_attempted", 1)
		if err := h.np.p.Call(nodeReq{Op: "send", Entry: entry, SQL: rt.text(), Shape: sh}, &r, 60*time.Second); err != nil || r.Fatal != "" || r.State.Err != "" {
			return false
		}
		h.np.state = r.State
		return true
	}
	if !strings.EqualFold(want.RW[i], got.RW[i]) && !try("execute", want.RW[i]) {
		return false
	}
	if !strings.EqualFold(want.RO[i], got.RO[i]) && !try("query-none", want.RO[i]) {
		return false
	}
	cmp := h.np.state
	cmp.Hash = want.Hash
	if d := diffState(want, cmp); len(d) != 0 {
		h.c.Logf("restore after %q incomplete: %v", t.text(), d)
		return false
	}
	h.c.Count("restores_succeeded", 1)
	return true
}

type caseRec struct {
	N     int           `json:"case"`
	Spec  *tspec        `json:"spec"`
	Text  string        `json:"text"`
	Truth truth         `json:"ground_truth"`
	Guard bool          `json:"guard_matches"`
	Sends []*sendResult `json:"sends"`
	// Shape: set for the cases of the request-shape part (the text is then one
	// that the bare request had refused)
	Shape *shape `json:"shape,omitempty"`
}

func run(c *vf.Ctx) {
	c.Rule("SQL texts rendered from specs: pragma {journal_mode, wal_autocheckpoint, wal_checkpoint, synchronous, query_only, 5 harmless ones} x schema {none, main, MAIN, temp, \"main\", `main`, [main], 'main'} (tight or spaced dot) x name quoting x syntax {= value, (value), no value} with 6/4 spacings x up to 9 value spellings x keyword/name case x separator whitespace x prefix {none, blanks, newlines, -- comment, /* */ comment, ';'} x inline comment x position {alone, 2nd, 3rd statement, after an INSERT, after another PRAGMA} x suffix x EXPLAIN. First every single variation of every protected pragma (systematic), then seeded random combinations. Each text goes through Store.Execute, Store.Request and Store.Query (levels rotate none/weak/strong/linearizable) as the bare request {statements:[{sql:text}]}. Request shapes: every text that the node has just refused as a bare request through all three entry points is sent again (a) in one single-element shape, rotating over bound parameters attached to the placeholder-free statement {int, string, null, real, bool, blob, three values, named, positional+named}, a benign statement before it in the same request {SELECT, INSERT, parameterized INSERT, parameterized SELECT} or after it, Statement.forceQuery, Statement.sql_explain, Request.transaction, rollbackOnError, dbTimeout, qualifyColumns, timings, freshness, and (b) in a seeded random combination of 1-4 of these; before that the plain form of every protected pragma goes through every single-element shape x Execute/Request/Query. non-trivial = ground truth says the text (with the same bound values) changes a protected setting or checkpoints when executed on the scratch database; distinct by text (x entry x shape for shaped requests)")
	c.Assume("ground truth = the text executed with Exec on a scratch SQLite database opened with rqlite's read-write DSN options (WAL, synchronous off), wal_autocheckpoint=0 and two committed transactions pending in the WAL; 'checkpoint' = sha256 of the main database file changed")
	c.Assume("node settings are read back through the store itself: read-write connection via Execute with ForceQuery (PRAGMA x), read-only pool via Query level none; main file = <dir>/db.sqlite hashed by the child; automatic snapshots are disabled (thresholds 2^40, interval 24h) so only a request can checkpoint")
	c.Assume("a request counts as rejected only when the Store call returns an error; the guard rejecting a harmless text is not a violation")
	c.Assume("request shapes are only tried on texts whose bare request was observed to be refused without effect, so a change after a shaped request is due to the shape; ForceStall (fault-injection flag that blocks the query) is not used")

	base := vf.TempDir("c15")
	defer os.RemoveAll(base)
	sc, err := newScratch(base)
	if err != nil {
		c.Logf("scratch: %v", err)
		c.Inconclusive("cannot build scratch database")
		return
	}
	h := &harness{c: c, base: base}
	defer func() { h.np.stop() }()

	if c.ReplayFile != "" {
		replay(c, h, sc)
		return
	}

	specs := systematic()
	c.Extra("systematic_single_variation_cases", len(specs))
	n := c.N(760, 6000)
	for i := 0; len(specs) < n; i++ {
		specs = append(specs, genText(c.Rand(uint64(i))))
	}

	shapes := newShapeRun(c, h, sc)
	shapes.systematic()
	c.Extra("systematic_single_shape_cases", shapes.n)

	// which (pragma, class, connection) singles violate: filled by the systematic part
	singleBad := map[string]bool{}
	singleKey := func(p, class, conn string) string { return p + "|" + class + "|" + conn }
	lvl := 0
	samples := 0
	for i, t := range specs {
		text := t.text()
		rec := &caseRec{N: i, Spec: t, Text: text, Truth: sc.evaluate(text, nil), Guard: rdb.IsBreakingPragma(text)}
		dangerous := len(rec.Truth.Changed) > 0
		if dangerous {
			c.Nontrivial(text)
			c.Count("texts_dangerous_by_ground_truth", 1)
		}
		if rec.Guard {
			c.Count("texts_matched_by_guard_pattern", 1)
		}
		ents := []string{"execute", "request", entries[2+lvl%4]}
		lvl++
		c.Eval(1)
		held := true
		inconclusive := false
		allRefused := true
		for _, e := range ents {
			sr, err := h.send(e, text, t, nil)
			if err != nil {
				c.Logf("case %d: %v", i, err)
				inconclusive = true
				break
			}
			rec.Sends = append(rec.Sends, sr)
			if !refused(sr) {
				allRefused = false
			}
			c.Count("requests_sent", 1)
			if sr.Accepted {
				c.Count("requests_accepted:"+e, 1)
			} else {
				c.Count("requests_rejected:"+e, 1)
			}
			if sr.Broken != "" {
				held = false
				c.Violation("node-broken:"+t.Pragma+":"+strings.Join(t.classes(), "+"),
					fmt.Sprintf("after %s of %q the node could not be used: %s", e, text, sr.Broken), rec)
				continue
			}
			if len(sr.Changed) == 0 {
				continue
			}
			held = false
			conn := "rw"
			for _, d := range sr.Changed {
				if strings.HasPrefix(d, "ro.") {
					conn = "ro"
				}
			}
			classes := t.classes()
			class := "plain"
			switch {
			case len(classes) == 1:
				class = classes[0]
				singleBad[singleKey(t.Pragma, class, conn)] = true
			case len(classes) > 1:
				// attribute to the first class that violates on its own
				class = ""
				for _, cl := range classes {
					if singleBad[singleKey(t.Pragma, cl, conn)] {
						class = cl
						break
					}
				}
				if class == "" {
					// not yet known: try each class alone on the node
					for _, cl := range classes {
						st := t.single(cl)
						sr2, err := h.send(e, st.text(), st, nil)
						c.Count("attribution_requests", 1)
						if err == nil && sr2 != nil && len(sr2.Changed) > 0 {
							singleBad[singleKey(t.Pragma, cl, conn)] = true
							class = cl
							break
						}
					}
				}
				if class == "" {
					class = strings.Join(classes, "+")
				}
			}
			key := fmt.Sprintf("bypass:%s:%s", t.Pragma, class)
			if conn == "ro" {
				key += "@ro-connection"
			}
			if class == "plain" {
				key += "@" + e
			}
			state := "accepted"
			if !sr.Accepted {
				state = "rejected (" + sr.Err + ") but effective"
			}
			c.Violation(key, fmt.Sprintf("%s via %s was %s and changed: %s", fmt.Sprintf("%q", text), e, state, strings.Join(sr.Changed, ", ")), rec)
		}
		if inconclusive {
			c.Inconclusive("node unavailable")
			continue
		}
		if held {
			c.Held(1)
		}
		if allRefused {
			// the node refuses this text as a bare request: try it in other request shapes
			shapes.after(i, t, text, ents)
		}
		if samples < 6 && (i%97 == 3) {
			samples++
			c.Sample(rec)
		}
		if (i+1)%500 == 0 {
			c.Logf("case %d/%d (node restarts %d)", i+1, len(specs), h.restarts)
		}
	}
	journalFresh(c, h, sc)
	c.Count("node_restarts", int64(h.restarts))
	var bad []string
	for k := range singleBad {
		bad = append(bad, k)
	}
	sort.Strings(bad)
	c.Extra("violating_single_classes", bad)
	badShapes := []string{}
	for k := range shapes.singleBad {
		badShapes = append(badShapes, k)
	}
	sort.Strings(badShapes)
	c.Extra("violating_single_shape_elements", badShapes)
	c.Count("shaped_cases", int64(shapes.n))
	// a normal quick run has ~1000 shaped cases on top of the n texts
	c.Require(int64(n/2+400), n/10)
}

// journalFresh: SQLite refuses to leave WAL mode while another connection has
// the database open, and every settings read-back opens a connection of the
// read-only pool. rqlite itself opens that pool lazily and closes idle
// connections after 30 s, so the journal-mode texts are also sent to a node
// whose read-only pool has never been used; settings are read only afterwards.
func journalFresh(c *vf.Ctx, h *harness, sc *scratch) {
	if h.np != nil {
		h.np.stop()
		os.RemoveAll(h.np.dir)
		h.np = nil
	}
	var specs []*tspec
	base := tspec{Pragma: "journal_mode"}
	mk := func(f func(t *tspec)) {
		t := base
		f(&t)
		specs = append(specs, &t)
	}
	mk(func(t *tspec) {})
	mk(func(t *tspec) { t.Syntax = "call" })
	mk(func(t *tspec) { t.Prefix = "block-comment" })
	mk(func(t *tspec) { t.Prefix = "line-comment"; t.Val = 4 })
	mk(func(t *tspec) { t.Prefix = "semi" })
	mk(func(t *tspec) { t.Pos = "second" })
	mk(func(t *tspec) { t.Pos = "after-insert"; t.Val = 5 })
	mk(func(t *tspec) { t.Schema = "dq" })
	mk(func(t *tspec) { t.Schema = "main"; t.DotSp = true })
	mk(func(t *tspec) { t.NameQ = "dq" })
	mk(func(t *tspec) { t.Inline = "after-kw" })
	mk(func(t *tspec) { t.Explain = true })
	mk(func(t *tspec) { t.Schema = "main"; t.KwCase = 1; t.NmCase = 3 })
	if !c.Quick() {
		for v := 1; v < 8; v++ {
			v := v
			mk(func(t *tspec) { t.Syntax = "call"; t.Val = v })
			mk(func(t *tspec) { t.Prefix = "block-comment"; t.Val = v })
		}
	}
	// The plain text (first case, refused as a bare request) again in request
	// shapes; judged only when that first case was seen to be refused.
	shaped := map[int]*shape{}
	for _, sh := range []*shape{{Params: "int"}, {Params: "named"}, {Lead: "select"}, {Lead: "param-insert"}, {Tx: true}, {ForceQuery: true}} {
		shaped[len(specs)] = sh
		mk(func(t *tspec) {})
	}
	if !c.Quick() {
		for _, sh := range singleShapes() {
			shaped[len(specs)] = sh
			mk(func(t *tspec) {})
		}
	}
	bareRefused := false
	for i, t := range specs {
		text := t.text()
		sh := shaped[i]
		if sh != nil && !bareRefused {
			c.Count("fresh_node_shape_cases_skipped_no_control", 1)
			continue
		}
		h.nodes++
		dir := filepath.Join(h.base, fmt.Sprintf("node%d", h.nodes))
		os.MkdirAll(dir, 0755)
		p, err := vf.StartWorker(false, "c15node", []string{dir}, nil, filepath.Join(h.base, fmt.Sprintf("node%d.log", h.nodes)))
		if err != nil {
			c.Inconclusive("node unavailable")
			continue
		}
		entry := "execute"
		rec := &caseRec{N: i, Spec: t, Text: text, Truth: sc.evaluate(text, sh), Guard: rdb.IsBreakingPragma(text), Shape: sh}
		var r1, r2 nodeResp
		err1 := p.Call(nodeReq{Op: "send", Entry: entry, SQL: text, NoState: true, Shape: sh}, &r1, 90*time.Second)
		err2 := p.Call(nodeReq{Op: "state"}, &r2, 60*time.Second)
		p.Kill()
		os.RemoveAll(dir)
		c.Eval(1)
		c.Count("fresh_node_journal_mode_cases", 1)
		if len(rec.Truth.Changed) > 0 {
			c.Nontrivial("fresh:" + text + "\x00" + sh.key())
		}
		sr := &sendResult{Entry: entry, Shape: sh, Accepted: r1.Accepted, Err: r1.Err, StmtErr: r1.StmtErr}
		rec.Sends = []*sendResult{sr}
		if err1 != nil || r1.Fatal != "" {
			c.Inconclusive("node unavailable")
			continue
		}
		if r2.State.ROErr != "" {
			c.Count("fresh_node_ro_pool_unusable_afterwards", 1)
		}
		if err2 != nil || r2.Fatal != "" || r2.State.Err != "" {
			sr.Broken = fmt.Sprintf("settings unreadable afterwards: %v %s %s", err2, r2.Fatal, r2.State.Err)
			c.Violation("node-broken:journal_mode:"+strings.Join(append(t.classes(), sh.classes()...), "+"),
				fmt.Sprintf("after %s of %q (request shape %s) on a fresh node the node could not be used: %s", entry, text, sh.key(), sr.Broken), rec)
			continue
		}
		if !strings.EqualFold(r2.State.RW[0], "wal") {
			sr.Changed = []string{"rw.journal_mode wal->" + r2.State.RW[0]}
			if sh != nil {
				c.Violation("shape-bypass:journal_mode:"+strings.Join(sh.classes(), "+"),
					fmt.Sprintf("%q, refused as a bare request, in request shape %s via %s on a node whose read-only pool is idle was accepted=%v and left the read-write connection in journal mode %s (read-only pool afterwards: %s)", text, sh.key(), entry, r1.Accepted, r2.State.RW[0], orOK(r2.State.ROErr)), rec)
				continue
			}
			class := "plain@" + entry
			for _, cl := range t.classes() {
				// a bare schema prefix is covered by the guard; it is never the cause here
				if class == "plain@"+entry || class == "schema-prefix" {
					class = cl
				}
			}
			c.Violation("bypass:journal_mode:"+class,
				fmt.Sprintf("%q via %s on a node whose read-only pool is idle was accepted=%v and left the read-write connection in journal mode %s (read-only pool afterwards: %s)", text, entry, r1.Accepted, r2.State.RW[0], orOK(r2.State.ROErr)), rec)
			continue
		}
		if i == 0 && !r1.Accepted {
			bareRefused = true
		}
		c.Held(1)
	}
}

func orOK(s string) string {
	if s == "" {
		return "usable"
	}
	return s
}

func replay(c *vf.Ctx, h *harness, sc *scratch) {
	b, err := os.ReadFile(c.ReplayFile)
	if err != nil {
		c.Logf("replay: %v", err)
		return
	}
	var f struct {
		Case caseRec `json:"case"`
	}
	if err := json.Unmarshal(b, &f); err != nil || f.Case.Text == "" {
		c.Logf("replay: no text in %s (%v)", c.ReplayFile, err)
		return
	}
	text := f.Case.Text
	sh := f.Case.Shape
	tr := sc.evaluate(text, sh)
	c.Logf("text %q ground truth %+v guard=%v", text, tr, rdb.IsBreakingPragma(text))
	c.Eval(1)
	c.Nontrivial(text)
	c.Nontrivial(text + " ")
	held := true
	for _, e := range entries {
		sr, err := h.send(e, text, f.Case.Spec, sh)
		if err != nil {
			c.Inconclusive("node unavailable")
			return
		}
		c.Logf("  %s shape=%s: accepted=%v err=%q stmt_err=%q changed=%v", e, sh.key(), sr.Accepted, sr.Err, sr.StmtErr, sr.Changed)
		if len(sr.Changed) > 0 {
			held = false
			c.Violation("replay:"+e, fmt.Sprintf("%q in request shape %s via %s changed %v", text, sh.key(), e, sr.Changed), f.Case)
		}
	}
	if held {
		c.Held(1)
	}
}
