// Package c36: write throttling stays within its configured bounds (DESIGN §6
// C36). A worker child (normal and -race build) drives the real
// throttler.Throttler with generated delay tables / release rates / idle
// timeouts from one or several goroutines and records every call with what it
// returned (and how long Delay took); the parent replays the level model over
// the log (sequential cases), checks linearizability against the model
// (concurrent cases, porcupine) and applies the wide-margin timing rules. The
// hold mode (hold.go) looks at calls arriving while requests wait inside Delay
// and decides on the order of logical stamps against a twin throttler.
package c36

import (
	"bufio"
	"bytes"
	"encoding/json"
	"fmt"
	"math/rand/v2"
	"os"
	"path/filepath"
	"strconv"
	"strings"
	"sync"
	"time"

	"github.com/anishathalye/porcupine"
	"verif/internal/vf"
)

const anchoredPkg = "github.com/rqlite/rqlite/v10/store/throttler."

func init() {
	vf.Register("C36", "exploration", run)
	vf.RegisterWorker("c36", worker)
}

type verdict struct{ key, what string }

type judged struct {
	vs      []verdict
	inconcl string
	nontriv bool
	cnt     map[string]int64
}

const (
	hbHealthyUS  = 100_000 // a heartbeat gap beyond this makes a timing observation meaningless
	ctlHealthyUS = 50_000  // so does a control sleep (same goroutine, right after the slow call) that overshoots by this much
)

// model of the level arithmetic, written from the property text.
type model struct {
	n, rate int
}

func (m model) signal(l int) int  { return min(l+1, m.n-1) }
func (m model) release(l int) int { return max(l-m.rate, 0) }

func mkModel(s caseSpec) model {
	m := model{n: len(s.DelaysUS), rate: s.Rate}
	if m.n == 0 {
		m.n = 1
	}
	if m.rate < 1 {
		m.rate = 1
	}
	return m
}

func delayUS(s caseSpec, l int) int64 {
	if len(s.DelaysUS) == 0 {
		return 0
	}
	return s.DelaysUS[l]
}

func judge(s caseSpec, lg caseLog) (j judged) {
	j.cnt = map[string]int64{}
	add := func(k, f string, a ...any) {
		if len(j.vs) < 8 {
			j.vs = append(j.vs, verdict{k, fmt.Sprintf(f, a...)})
		}
	}
	if lg.Panic != "" {
		add("throttler:panic", "throttler panicked: %s", lg.Panic)
	}
	if lg.Skip != "" {
		j.inconcl = lg.Skip + "|"
		return
	}
	if lg.Hung {
		if lg.Panic != "" {
			add("throttler:hang-after-panic", "after the panic the case never finished (30 s): other calls block for ever, the panicking call left the lock held")
		} else {
			j.inconcl = "case did not finish within 30 s|"
		}
		return
	}
	m := mkModel(s)
	inRange := func(where string, l int64) bool {
		if l < 0 || l > int64(m.n-1) {
			add("level:out-of-range", "%s: Level()=%d outside [0,%d]", where, l, m.n-1)
			return false
		}
		return true
	}
	delayRule := func(where string, e ev, dUS int64) {
		// "waits no longer than the current delay": dur <= 3d+100ms held; beyond
		// 3d+2s with a healthy heartbeat a violation; in between no verdict.
		j.cnt["delay_calls"]++
		if e.Err != 0 {
			add("delay:error-without-cancel", "%s: Delay returned an error under a context that never ends", where)
		}
		if e.DurUS < dUS && e.Tries > 0 { // only where the level (hence the delay) is known exactly
			j.cnt["delay_shorter_than_configured"]++
		}
		switch {
		case e.DurUS <= 3*dUS+100_000:
		case e.GapUS >= hbHealthyUS || e.CtlUS >= ctlHealthyUS || (e.Tries < 3 && e.DurUS <= 3*dUS+10_000_000) || (e.Tries == 3 && e.DurUS <= 3*dUS+1_000_000):
			// single measurement (concurrent modes): only an absurd duration counts;
			// sequential mode: all of three attempts must have been slower than
			// 3x delay + 1 s while ordinary timers of the same goroutine were on time
			if j.inconcl == "" {
				j.inconcl = fmt.Sprintf("Delay slower than 3x delay + 100 ms but within the band, or process stalled|%s: Delay took %d us for a delay of %d us (heartbeat gap %d us)", where, e.DurUS, dUS, e.GapUS)
			}
		default:
			add("delay:too-long", "%s: Delay took %d us although the current delay is at most %d us (heartbeat gap %d us)", where, e.DurUS, dUS, e.GapUS)
		}
	}
	maxD := int64(0)
	for _, d := range s.DelaysUS {
		maxD = max(maxD, d)
	}
	switch s.Mode {
	case "hold":
		judgeHold(s, lg, &j, add)
	case "stale":
		for k, v := range lg.Stale {
			j.cnt["stale_"+k] += v
		}
		if lg.Stale["signal_wiped"] > 0 {
			add("idle:stale-timer-wipes-signal", "%d of %d Signal calls aimed at the moment the idle timer (%d ms) was due were wiped: the level was >=1 right after Signal returned and 0 less than half a timeout later, without Release/Reset (first: %v)", lg.Stale["signal_wiped"], lg.Stale["attempts"], s.IdleMS, lg.StaleEx)
		}
		j.nontriv = lg.Stale["reset_before_third_signal"] > 0 && lg.Stale["no_reset_yet"] > 0
	case "seq", "cancel":
		lvl := 0 // -1: unknown until the next idle wait
		reachedMax, clamped, sawPositive := false, false, false
		for i, e := range lg.Evs {
			where := fmt.Sprintf("step %d", i)
			if !inRange(where, e.Lvl) {
				break
			}
			exp := lvl
			switch e.K {
			case kSignal:
				if lvl >= 0 {
					if lvl == m.n-1 {
						reachedMax = true
					}
					exp = m.signal(lvl)
				}
				j.cnt["signals"]++
			case kRelease:
				if lvl >= 0 {
					if lvl > 0 && lvl < m.rate {
						clamped = true
					}
					exp = m.release(lvl)
				}
				j.cnt["releases"]++
			case kReset:
				exp = 0
				j.cnt["resets"]++
			case kIdleWait:
				j.cnt["idle_waits"]++
				if e.Armed != 0 {
					if e.Lvl != 0 {
						if e.GapUS >= 1_000_000 {
							if j.inconcl == "" {
								j.inconcl = fmt.Sprintf("process stalled during an idle wait|%s: gap %d us", where, e.GapUS)
							}
						} else {
							add("idle:not-reset", "%s: level still %d as long as %d ms after the last Signal/Release (idle timeout %d ms; heartbeat gap %d us)", where, e.Lvl, e.DurUS/1000, s.IdleMS, e.GapUS)
						}
					} else if e.Late != 0 && j.inconcl == "" {
						j.inconcl = fmt.Sprintf("idle reset later than 3x timeout + 200 ms (but within 10 s)|%s: reset seen %d ms after the last Signal/Release, timeout %d ms, heartbeat gap %d us", where, e.DurUS/1000, s.IdleMS, e.GapUS)
					}
					if lvl > 0 || lvl < 0 {
						j.cnt["idle_resets_from_positive_level"]++
					}
					lvl = 0
					continue
				}
			}
			if e.Amb != 0 {
				j.cnt["ambiguous_steps_skipped"]++
				lvl = -1
				continue
			}
			if lvl < 0 && e.K != kReset {
				continue
			}
			if e.Lvl != int64(exp) {
				what := map[int]string{kSignal: "Signal", kRelease: "Release", kReset: "Reset", kLevel: "Level", kGetDelay: "GetDelay", kDelay: "Delay", kDelayCancel: "Delay(cancelled ctx)", kIdleWait: "idle wait (no timer armed)", kPace: "pause shorter than half the idle timeout"}[e.K]
				key := "level:model-mismatch"
				if (e.K == kPace || e.K == kLevel || e.K == kGetDelay || e.K == kDelay) && e.Lvl == 0 {
					key = "idle:reset-too-early"
				}
				add(key, "%s: after %s the level is %d, the model (table of %d, release rate %d, level before %d) says %d", where, what, e.Lvl, m.n, m.rate, lvl, exp)
				break
			}
			lvl = exp
			if lvl > 0 {
				sawPositive = true
			}
			j.cnt["level_observations_compared"]++
			switch e.K {
			case kGetDelay:
				if e.ValNS != delayUS(s, lvl)*1000 {
					add("delay:wrong-value", "%s: GetDelay()=%dns at level %d, table says %dus", where, e.ValNS, lvl, delayUS(s, lvl))
				}
			case kDelay:
				delayRule(where, e, delayUS(s, lvl))
			case kDelayCancel:
				d := delayUS(s, lvl)
				j.cnt["cancelled_delays"]++
				if d == 0 {
					break
				}
				if e.Err == 0 && e.DurUS < d {
					j.cnt["cancelled_delay_returned_nil_early"]++
				}
				switch {
				case e.DurUS <= d/2+100_000:
					j.cnt["cancelled_delays_returned_early"]++
				case e.GapUS >= hbHealthyUS || e.CtlUS >= ctlHealthyUS || e.DurUS < d*9/10 || e.Tries < 3:
					if j.inconcl == "" {
						j.inconcl = fmt.Sprintf("cancelled Delay later than delay/2 + 100 ms but before 90%% of the delay, or process stalled|%s: cancelled Delay took %d us (delay %d us, cancel after %d us, gap %d us)", where, e.DurUS, d, e.CanUS, e.GapUS)
					}
				default:
					add("delay:ignores-cancel", "%s: Delay waited %d us (the whole delay of %d us) although its context ended after %d us", where, e.DurUS, d, e.CanUS)
				}
			}
		}
		if s.Mode == "cancel" {
			j.nontriv = j.cnt["cancelled_delays_returned_early"] > 0
		} else {
			j.nontriv = sawPositive && (reachedMax || clamped)
		}
	case "lin":
		var ops []porcupine.Operation
		overlap := false
		var maxPost int64 = -1
		lastG := -1
		for i, e := range lg.Evs {
			switch e.K {
			case kLevel:
				inRange(fmt.Sprintf("event %d", i), e.Lvl)
			case kDelay:
				delayRule(fmt.Sprintf("event %d", i), e, maxD)
				continue // not a state operation
			}
			ops = append(ops, porcupine.Operation{ClientId: e.G, Input: e.K, Call: e.Pre, Output: e, Return: e.Post})
		}
		// concurrency evidence: calls of different goroutines overlapping by stamps
		sorted := append([]ev(nil), lg.Evs...)
		sortEvs(sorted)
		for _, e := range sorted {
			if e.Pre < maxPost && e.G != lastG {
				overlap = true
				j.cnt["overlapping_calls"]++
			}
			if e.Post > maxPost {
				maxPost, lastG = e.Post, e.G
			}
		}
		pm := porcupine.Model{
			Init: func() any { return 0 },
			Step: func(state, in, out any) (bool, any) {
				l := state.(int)
				e := out.(ev)
				switch in.(int) {
				case kSignal:
					return true, m.signal(l)
				case kRelease:
					return true, m.release(l)
				case kReset:
					return true, 0
				case kLevel:
					return e.Lvl == int64(l), l
				case kGetDelay:
					return e.ValNS == delayUS(s, l)*1000, l
				}
				return true, l
			},
			Equal: func(a, b any) bool { return a.(int) == b.(int) },
		}
		j.cnt["lin_operations"] += int64(len(ops))
		switch porcupine.CheckOperationsTimeout(pm, ops, 20*time.Second) {
		case porcupine.Ok:
		case porcupine.Illegal:
			add("level:not-linearizable", "the concurrent history of %d Signal/Release/Reset/Level/GetDelay calls (table of %d, release rate %d) has no sequential explanation under the level model", len(ops), m.n, m.rate)
		default:
			j.inconcl = "linearizability search timed out|"
		}
		j.nontriv = overlap
	default: // idle
		for i, e := range lg.Evs {
			if !inRange(fmt.Sprintf("event %d", i), e.Lvl) {
				break
			}
			j.cnt["range_observations"]++
			if e.K == kGetDelay {
				ok := len(s.DelaysUS) == 0 && e.ValNS == 0
				for _, d := range s.DelaysUS {
					if d*1000 == e.ValNS {
						ok = true
					}
				}
				if !ok {
					add("delay:wrong-value", "event %d: GetDelay()=%dns is not in the table", i, e.ValNS)
				}
			}
			if e.K == kDelay {
				delayRule(fmt.Sprintf("event %d", i), e, maxD)
			}
		}
		if lg.FinalLvl != 0 {
			if lg.FinalGap >= 1_000_000 {
				j.inconcl = fmt.Sprintf("process stalled during an idle wait|final wait, gap %d us", lg.FinalGap)
			} else {
				add("idle:not-reset", "level still %d more than 10 s after quiescence (idle timeout %d ms)", lg.FinalLvl, s.IdleMS)
			}
		}
		j.nontriv = lg.Touched && len(lg.Evs) > 0
	}
	return
}

func sortEvs(e []ev) {
	// insertion into order of Pre (histories are short)
	for i := 1; i < len(e); i++ {
		for k := i; k > 0 && e[k].Pre < e[k-1].Pre; k-- {
			e[k], e[k-1] = e[k-1], e[k]
		}
	}
}

// ---------------------------------------------------------------- driver

func genCase(no int, r *rand.Rand) caseSpec {
	s := caseSpec{No: no, Seed: r.Uint64()}
	s.Mode = []string{"seq", "seq", "seq", "seq", "seq", "lin", "lin", "lin", "idle", "cancel"}[r.IntN(10)]
	if r.IntN(40) == 0 {
		s.Mode = "stale"
	}
	n := 1 + r.IntN(8)
	s.Rate = 1 + r.IntN(5)
	switch s.Mode {
	case "seq":
		if r.IntN(25) == 0 {
			n = 0 // empty table: New substitutes {0}
		}
		for i := 0; i < n; i++ {
			d := int64(0)
			if i > 0 || r.IntN(3) == 0 {
				d = int64(r.IntN(40001)) // 0..40 ms
			}
			if r.IntN(3) == 0 {
				d = int64(r.IntN(3000))
			}
			s.DelaysUS = append(s.DelaysUS, d)
		}
		s.Ops = 30 + r.IntN(50)
		if r.IntN(2) == 0 && n >= 2 { // an idle reset is only observable as a drop from a positive level
			s.IdleMS = 30 + r.IntN(71)
			s.Ops = 20 + r.IntN(25)
			if n >= 5 && r.IntN(3) == 0 {
				s.Chain = 1 + r.IntN(2)
				if s.Chain == 1 {
					s.Rate = 1 + r.IntN(2)
				}
			}
		}
	case "lin":
		for i := 0; i < n; i++ {
			s.DelaysUS = append(s.DelaysUS, int64(r.IntN(2000))*int64(min(i, 1))) // distinct-ish small delays, first 0
		}
		s.G = 2 + r.IntN(3)
		s.Ops = 20 + r.IntN(40)
		s.IdleMS = []int{0, 3600_000}[r.IntN(2)]
	case "idle":
		for i := 0; i < n; i++ {
			s.DelaysUS = append(s.DelaysUS, int64(r.IntN(3000))*int64(min(i, 1)))
		}
		s.G = 1 + r.IntN(4)
		s.Ops = 20 + r.IntN(40)
		s.IdleMS = 30 + r.IntN(71)
	case "stale":
		s.DelaysUS = []int64{0, 1, 2, 3, 4, 5}
		s.Rate = 1
		s.IdleMS = 4 + r.IntN(5)
		s.Ops = 200
	default: // cancel
		n = 2 + r.IntN(4)
		n = 3 + r.IntN(4)
		s.DelaysUS = []int64{0, int64(1000 + r.IntN(4000))}
		for i := 2; i < n; i++ {
			s.DelaysUS = append(s.DelaysUS, int64(1_000_000+r.IntN(3_000_000)))
		}
		s.Ops = 3 * (1 + r.IntN(3))
	}
	return s
}

func run(c *vf.Ctx) {
	c.Rule("case = (mode, delay table of 0-8 entries, release rate 1-5, idle timeout 0 / 30-100 ms / 1 h, seeded call sequence) on the real throttler.Throttler in a child process, once in the normal and once in the -race build. seq: one goroutine, 20-80 steps of Signal/Release/Reset/Level/GetDelay/Delay/idle-wait, level observed after every step and replayed against the model; lin: 2-4 goroutines, stamped history checked for linearizability against the model; idle: 1-4 goroutines under a short idle timeout, range checks + level 0 after quiescence and the timeout; cancel: Delay at a 1-4 s level under a context that ends after <=30 ms; stale (1 case in 40): 200 x (Signal, Signal, spin to the idle timeout +/-100 us, Signal, read the level twice); hold (40 extra cases, quick; own seed stream): up to 3 rounds of {1-3 requests enter Delay at a level whose delay is 2-3.5 s under a context only the harness ends; then a writer arrives from another goroutine (Signal / Release / Reset, or the 30-100 ms idle timeout expiring); then a reader (Level / GetDelay / Delay under an ended context or one ending after <=30 ms; idle variant: Level polled until the reset shows)}, every writer/reader call paired with the same call on a twin throttler with nobody waiting, all calls stamped with one logical clock; the harness ends the waiting requests as soon as writer and reader have returned. non-trivial = seq: a positive level and a saturation (Signal at the top or Release clamped at 0) occurred; lin: calls of different goroutines overlapped; idle: the timer was armed; cancel: a cancelled Delay returned early; stale: both orders (reset before / after the aimed Signal) were seen; hold: a round in which every request was still waiting in Delay when writer and reader had returned; distinct by (parameters, build)")
	c.Assume("model from the property text: Signal = min(level+1, len(table)-1); Release = max(level-rate, 0); Reset = 0; idle timeout without Signal/Release = 0; Delay waits table[level]")
	c.Assume("wall clock is used only with wide margins and repetition: a Delay slower than 3x delay + 100 ms is repeated (3 attempts); held if any attempt is within the bound, violation only if all three are slower than 3x delay + 1 s while the heartbeat is healthy and a control sleep on the same goroutine after each slow attempt was on time (concurrent modes, single attempt: only > 3x the largest delay + 10 s), else inconclusive; a Delay (delay 1-4 s) whose context ended after <=30 ms must return within delay/2 + 100 ms, a violation only if all of three attempts waited >= 90% of the delay (same heartbeat / control-sleep conditions)")
	c.Assume("idle timeout: every idle wait starts from a positive level (a Signal is inserted if needed) so that seeing 0 proves the timer callback ran; 0 within 3x timeout + 200 ms held, later but within 10 s inconclusive, never within 10 s (heartbeat gap < 1 s) violation; steps taken later than half the idle timeout after the last Signal/Release get no verdict and the timeout is then waited out; a level that drops to 0 earlier than half the timeout after the last Signal/Release is a violation")
	c.Assume("a heartbeat gap >= 100 ms during a timed Delay makes that observation inconclusive")
	c.Assume("hold mode decides on the order of logical stamps only: violation when, in at least two rounds of a case, a call invoked while a request was waiting in Delay returned only after that request's whole delay (2-3.5 s) had run out by itself, although the same call on the twin throttler, invoked later, had returned before the delay ran out (heartbeat gap < 100 ms over the round); the pattern in one round only, with an unhealthy heartbeat, or a waiting request running out without the pattern is inconclusive. Level at quiescence (and Level/GetDelay of the reader) against the model as in the other modes")

	nCases := c.N(500, 8000)
	chunk := c.N(50, 200)
	par := 4
	tmp := vf.TempDir("c36")
	defer os.RemoveAll(tmp)
	r := c.Rand(1)
	specs := make([]caseSpec, nCases)
	for i := range specs {
		specs[i] = genCase(i, r)
	}
	// hold cases come from their own stream and are appended (the other cases of a
	// seed stay what they were); they run in jobs of their own
	nHold := c.N(40, 600)
	rh := c.Rand(2)
	for i := 0; i < nHold; i++ {
		specs = append(specs, genHold(nCases+i, rh))
	}
	type job struct {
		lo, hi int
		race   bool
	}
	var jobs []job
	for lo := nCases; lo < nCases+nHold; lo += 10 {
		hi := min(lo+10, nCases+nHold)
		jobs = append(jobs, job{lo, hi, false}, job{lo, hi, true})
	}
	for lo := 0; lo < nCases; lo += chunk {
		hi := min(lo+chunk, nCases)
		jobs = append(jobs, job{lo, hi, false}, job{lo, hi, true})
	}
	var mu sync.Mutex
	tot := map[string]int64{}
	var racePrefixes []string
	sampled := map[string]int{}
	crashSeen := map[int]bool{}
	var crashTails, crashInPkg []string
	jobCh := make(chan int)
	var wg sync.WaitGroup
	for p := 0; p < par; p++ {
		wg.Add(1)
		go func() {
			defer wg.Done()
			for ji := range jobCh {
				j := jobs[ji]
				specFile := filepath.Join(tmp, fmt.Sprintf("spec-%d.json", ji))
				b, _ := json.Marshal(specs[j.lo:j.hi])
				os.WriteFile(specFile, b, 0644)
				prefix := filepath.Join(tmp, fmt.Sprintf("race-%d", ji))
				env := []string{"GORACE=halt_on_error=0 log_path=" + prefix}
				if j.race {
					mu.Lock()
					racePrefixes = append(racePrefixes, prefix)
					mu.Unlock()
				}
				logPath := filepath.Join(tmp, fmt.Sprintf("worker-%d.log", ji))
				out, code, intime := vf.RunWorkerOnce(j.race, "c36", []string{specFile}, env, logPath, 15*time.Minute)
				os.Remove(specFile)
				seen := map[int]bool{}
				sc := bufio.NewScanner(bytes.NewReader(out))
				sc.Buffer(make([]byte, 1<<20), 1<<28)
				for sc.Scan() {
					line := sc.Bytes()
					if bytes.HasPrefix(line, []byte(`{"cases":`)) {
						continue
					}
					var lg caseLog
					if err := json.Unmarshal(line, &lg); err != nil || lg.No < j.lo || lg.No >= j.hi || seen[lg.No] {
						continue
					}
					seen[lg.No] = true
					s := specs[lg.No]
					build := "normal"
					if j.race {
						build = "race"
					}
					c.Eval(1)
					jd := judge(s, lg)
					mu.Lock()
					tot["cases_"+s.Mode]++
					tot["events_"+s.Mode] += int64(len(lg.Evs))
					for k, v := range jd.cnt {
						tot[k] += v
					}
					doSample := jd.nontriv && len(jd.vs) == 0 && sampled[s.Mode] < 2 && !j.race
					if doSample {
						sampled[s.Mode]++
					}
					mu.Unlock()
					if len(jd.vs) > 0 {
						for _, v := range jd.vs {
							c.Violation(v.key, fmt.Sprintf("[%s build, case %d, %s] %s", build, s.No, s.Mode, v.what), map[string]any{"spec": s, "build": build, "log": lg})
						}
						continue
					}
					if jd.inconcl != "" {
						parts := strings.SplitN(jd.inconcl, "|", 2)
						c.Inconclusive(parts[0])
						c.Logf("inconclusive case %d (%s): %s", s.No, build, jd.inconcl)
						continue
					}
					c.Held(1)
					if jd.nontriv {
						sb, _ := json.Marshal(s)
						c.Nontrivial(build + string(sb))
					}
					if doSample {
						smp := map[string]any{"spec": s, "build": build, "events": len(lg.Evs), "first_events": firstEvs(lg.Evs, 6), "counts": jd.cnt, "wall_us": lg.WallUS}
						if len(lg.Hold) > 0 {
							smp["hold_rounds"] = len(lg.Hold)
							smp["first_hold_round"] = lg.Hold[0]
						}
						c.Sample(smp)
					}
				}
				for no := j.lo; no < j.hi; no++ {
					if !seen[no] {
						c.Eval(1)
						why := "worker produced no log for the case"
						if !intime {
							why = "worker timed out"
						} else if code != 0 {
							why = "worker exited " + strconv.Itoa(code) + " before the case"
							tail := tailFile(logPath, 6000)
							mu.Lock()
							if !crashSeen[ji] {
								crashSeen[ji] = true
								c.Logf("worker job %d exit %d: %s", ji, code, tail)
								if len(crashTails) < 4 {
									crashTails = append(crashTails, fmt.Sprintf("job %d exit %d: %s", ji, code, tail))
								}
								if (strings.Contains(tail, "panic:") || strings.Contains(tail, "fatal error:")) && strings.Contains(tail, anchoredPkg) {
									crashInPkg = append(crashInPkg, tail)
								}
							}
							mu.Unlock()
						}
						c.Inconclusive(why)
					}
				}
				os.Remove(logPath)
			}
		}()
	}
	for ji := range jobs {
		jobCh <- ji
		if ji%20 == 19 {
			c.Logf("dispatched %d/%d worker jobs", ji+1, len(jobs))
		}
	}
	close(jobCh)
	wg.Wait()

	for _, t := range crashInPkg {
		c.Violation("worker:crash-in-throttler", "the worker process died with a panic / fatal error whose stack is inside the anchored package", t)
	}
	if len(crashTails) > 0 {
		c.Extra("worker_failures", crashTails)
	}
	var anchoredRaces, otherRaces, raceBlocks int
	var otherList []string
	for _, p := range racePrefixes {
		reps, blocks := vf.ScanRaceLogs(p, []string{anchoredPkg})
		raceBlocks += blocks
		for _, rp := range reps {
			top := func(st []string) string {
				if len(st) == 0 {
					return "?"
				}
				return st[0]
			}
			if rp.InPkg == 2 {
				anchoredRaces++
				c.Violation("race:throttler:"+rp.Pair, fmt.Sprintf("data race inside package store/throttler (%d reports): %s <-> %s", rp.Count, top(rp.StackA), top(rp.StackB)), rp)
			} else {
				otherRaces++
				if len(otherList) < 5 {
					otherList = append(otherList, top(rp.StackA)+" <-> "+top(rp.StackB))
				}
			}
		}
	}
	for k, v := range tot {
		c.Count(k, v)
	}
	c.Count("race_report_blocks", int64(raceBlocks))
	c.Count("races_in_throttler_package", int64(anchoredRaces))
	c.Count("races_elsewhere", int64(otherRaces))
	if len(otherList) > 0 {
		c.Extra("races_elsewhere_examples", otherList)
	}
	c.Count("worker_jobs", int64(len(jobs)))
	c.Require(int64(nCases+nHold), (nCases+nHold)/2)
	if tot["hold_rounds_all_requests_waiting_throughout"]+tot["hold_rounds_blocked"] < int64(nHold) {
		// 2 builds x nHold cases x up to 3 rounds were run: the hold monitor saw too little to mean anything
		c.Logf("hold mode: only %d rounds in which the requests were waiting in Delay while writer and reader ran (+ %d blocked rounds), need %d", tot["hold_rounds_all_requests_waiting_throughout"], tot["hold_rounds_blocked"], nHold)
		c.Inconclusive("too few hold rounds in which the requests were waiting in Delay while writer and reader ran")
		c.Require(1<<62, (nCases+nHold)/2)
	}
}

func firstEvs(e []ev, n int) []ev {
	if len(e) > n {
		return e[:n]
	}
	return e
}

func tailFile(p string, n int) string {
	b, err := os.ReadFile(p)
	if err != nil {
		return ""
	}
	if len(b) > n {
		b = b[len(b)-n:]
	}
	return string(b)
}
