package c36

// "hold" mode: calls that arrive while requests are waiting inside Delay.
//
// One round = 1-3 requests enter Delay at a level whose delay is 2-3.5 s under a
// context only the harness ends; then a writer arrives (Signal / Release / Reset
// from another goroutine, or simply the idle timeout expiring); then a reader
// arrives (Level, GetDelay, Delay under a context that has ended / ends after
// <= 30 ms; for the idle-expiry writer: Level polled until the reset shows).
// Every writer / reader call has a control: the same call on a twin throttler
// (same table, same level, nobody waiting in Delay), invoked after the real one.
// The harness ends the waiting requests' context as soon as writer and reader
// have returned, so on a throttler whose calls do not wait for each other no
// waiting request ever gets to the end of its delay.
//
// All calls are stamped before and after with one logical clock; the verdict is
// on the order of the stamps only (see holdBlocked).

import (
	"context"
	"fmt"
	"math/rand/v2"
	"sync"
	"sync/atomic"
	"time"

	"github.com/rqlite/rqlite/v10/store/throttler"
)

type holdWaiter struct {
	Pre   int64 `json:"pre"`
	Post  int64 `json:"post"`
	Err   int   `json:"err,omitempty"` // Delay returned the context error (the harness ended it)
	DurUS int64 `json:"dur_us"`
}

type holdCall struct {
	Who  string `json:"who"`  // w = writer, r = reader
	Kind string `json:"kind"` // signal | release | reset | level | getdelay | delay-ctx-ended | delay-ctx-timeout | level-poll-until-idle-reset
	Pre  int64  `json:"pre"`
	Post int64  `json:"post"`
	Val  int64  `json:"val"` // Level / GetDelay (ns) result; poll: last level seen
	Err  int    `json:"err,omitempty"`
	// control: the same call on the twin, invoked after this one was
	CPre  int64 `json:"c_pre"`
	CPost int64 `json:"c_post"`
	CVal  int64 `json:"c_val"`
	CErr  int   `json:"c_err,omitempty"`
	Polls int   `json:"polls,omitempty"`
	CtxUS int64 `json:"ctx_us,omitempty"` // delay-ctx-timeout: the context ends after this long
}

type holdRound struct {
	L         int          `json:"l"` // level at which the requests entered Delay
	Waiters   []holdWaiter `json:"waiters"`
	Calls     []holdCall   `json:"calls"`
	Cancel    int64        `json:"cancel"` // stamp at which the harness ended the waiting requests' context (after writer, reader and controls had returned)
	Final     int64        `json:"final"`  // Level() at quiescence
	FinalTwin int64        `json:"final_twin"`
	GapUS     int64        `json:"gap_us"`
	WallUS    int64        `json:"wall_us"`
}

// holdBlocked lists the calls of a round that show the pattern
//
//	call invoked  <  control invoked and returned  <  a waiting request's Delay ran
//	out by itself (returned nil before the harness ended its context)  <  call returned
//
// i.e. a call that was invoked while a request was waiting in Delay returned only
// after that request's whole delay had run out, although the same call on the
// twin (invoked later) had long returned. Stamps only, no durations.
func holdBlocked(rd holdRound) (kinds []string) {
	for _, c := range rd.Calls {
		if c.CPost == 0 || c.Post == 0 {
			continue
		}
		if c.Kind == "level-poll-until-idle-reset" && c.CVal != 0 {
			continue // the twin never showed its idle reset: nothing to compare with
		}
		for _, a := range rd.Waiters {
			if a.Err == 0 && a.Post != 0 && a.Post < rd.Cancel && a.Pre < c.Pre && c.Pre < a.Post && c.CPost < a.Post && a.Post < c.Post {
				kinds = append(kinds, c.Kind)
				break
			}
		}
	}
	return
}

// holdRanOut: some waiting request reached the end of its delay before the
// harness ended it.
func holdRanOut(rd holdRound) bool {
	for _, a := range rd.Waiters {
		if a.Err == 0 && a.Post < rd.Cancel {
			return true
		}
	}
	return false
}

func holdIdleVariant(s caseSpec) bool { return s.IdleMS > 0 && s.IdleMS < 3_600_000 }

func runHold(s caseSpec) (lg caseLog) {
	defer func() {
		if p := recover(); p != nil {
			lg.Panic = notePanic(s.No, p)
		}
	}()
	r := rand.New(rand.NewPCG(s.Seed, 7))
	blocked := 0
	for i := 0; i < s.Ops && blocked < 2; i++ {
		rd, pnc := holdOnce(s, r)
		lg.Hold = append(lg.Hold, rd)
		if pnc != "" {
			lg.Panic = pnc
			break
		}
		if len(holdBlocked(rd)) > 0 {
			blocked++
		}
	}
	return lg
}

func holdOnce(s caseSpec, r *rand.Rand) (rd holdRound, pnc string) {
	var pmu sync.Mutex
	safe := func(f func()) {
		defer func() {
			if p := recover(); p != nil {
				pmu.Lock()
				pnc = notePanic(s.No, p)
				pmu.Unlock()
			}
		}()
		f()
	}
	n := len(s.DelaysUS)
	th, twin := mkThrottler(s), mkThrottler(s)
	defer func() { // stop the timers
		safe(th.Reset)
		safe(twin.Reset)
	}()
	idle := time.Duration(s.IdleMS) * time.Millisecond
	climb := 1 + r.IntN(n)
	jitter := time.Duration(200+r.IntN(1800)) * time.Microsecond
	wk := []string{"signal", "release", "reset"}[r.IntN(3)]
	rk := []string{"level", "getdelay", "delay-ctx-ended", "delay-ctx-timeout"}[r.IntN(4)]
	readerWaits := r.IntN(3) != 0 // the reader is invoked after the writer returned or 1-3 ms later, whichever is first
	readerLag := time.Duration(1000+r.IntN(2000)) * time.Microsecond
	ctxUS := int64(500 + r.IntN(29500))
	g := max(s.G, 1)

	t0 := time.Now()
	for i := 0; i < climb; i++ {
		th.Signal()
		twin.Signal()
	}
	rd.L = min(climb, n-1)
	var clk atomic.Int64
	ctxA, cancelA := context.WithCancel(context.Background())
	defer cancelA()
	rd.Waiters = make([]holdWaiter, g)
	var wgA sync.WaitGroup
	entered := make(chan struct{}, g)
	for i := 0; i < g; i++ {
		wgA.Add(1)
		go func(a *holdWaiter) {
			defer wgA.Done()
			safe(func() {
				a.Pre = clk.Add(1)
				entered <- struct{}{}
				st := time.Now()
				err := th.Delay(ctxA)
				a.Post = clk.Add(1)
				a.DurUS = time.Since(st).Microseconds()
				if err != nil {
					a.Err = 1
				}
			})
		}(&rd.Waiters[i])
	}
	aDone := make(chan struct{})
	go func() { wgA.Wait(); close(aDone) }()
	for i := 0; i < g; i++ {
		select {
		case <-entered:
		case <-aDone: // a waiter died
		}
	}
	time.Sleep(jitter) // let the requests get into their wait

	// one call on th and, invoked after it, its control on the twin
	type op func(t *throttler.Throttler) (val int64, err int)
	var wgC sync.WaitGroup
	launch := func(c *holdCall, f op) (returned chan struct{}) {
		returned = make(chan struct{})
		invoked := make(chan struct{})
		wgC.Add(2)
		go func() {
			defer wgC.Done()
			defer close(returned)
			safe(func() {
				c.Pre = clk.Add(1)
				close(invoked)
				c.Val, c.Err = f(th)
				c.Post = clk.Add(1)
			})
		}()
		select {
		case <-invoked:
		case <-returned:
		}
		go func() {
			defer wgC.Done()
			safe(func() {
				c.CPre = clk.Add(1)
				c.CVal, c.CErr = f(twin)
				c.CPost = clk.Add(1)
			})
		}()
		return
	}

	if holdIdleVariant(s) {
		// writer = the idle timeout expiring (armed by the last Signal of the climb);
		// reader = Level polled until the reset shows or the waiting requests are gone
		rd.Calls = make([]holdCall, 1)
		c := &rd.Calls[0]
		c.Who, c.Kind = "r", "level-poll-until-idle-reset"
		// th: keep the stamps of the poll during which most else happened (a poll that
		// was held up spans the other goroutines' stamps); twin: those of the last poll
		poll := func(t *throttler.Throttler, pre, post, val *int64, polls *int, last bool) {
			var widest int64 = -1
			for lim := time.Now().Add(10 * time.Second); ; {
				p0 := clk.Add(1)
				v := int64(t.Level())
				p1 := clk.Add(1)
				*val = v
				if polls != nil {
					*polls++
				}
				if last || p1-p0 > widest {
					widest, *pre, *post = p1-p0, p0, p1
				}
				if v == 0 || time.Now().After(lim) {
					return
				}
				select {
				case <-aDone:
					return
				case <-time.After(idle / 16):
				}
			}
		}
		wgC.Add(2)
		go func() {
			defer wgC.Done()
			safe(func() { poll(th, &c.Pre, &c.Post, &c.Val, &c.Polls, false) })
		}()
		go func() {
			defer wgC.Done()
			safe(func() { poll(twin, &c.CPre, &c.CPost, &c.CVal, nil, true) })
		}()
	} else {
		rd.Calls = make([]holdCall, 2)
		w, rdr := &rd.Calls[0], &rd.Calls[1]
		w.Who, w.Kind = "w", wk
		rdr.Who, rdr.Kind = "r", rk
		wReturned := launch(w, func(t *throttler.Throttler) (int64, int) {
			switch wk {
			case "signal":
				t.Signal()
			case "release":
				t.Release()
			default:
				t.Reset()
			}
			return 0, 0
		})
		if readerWaits {
			select {
			case <-wReturned:
			case <-time.After(readerLag):
			}
		}
		if rk == "delay-ctx-timeout" {
			rdr.CtxUS = ctxUS
		}
		launch(rdr, func(t *throttler.Throttler) (int64, int) {
			switch rk {
			case "level":
				return int64(t.Level()), 0
			case "getdelay":
				return int64(t.GetDelay()), 0
			case "delay-ctx-ended":
				ctx, cancel := context.WithCancel(context.Background())
				cancel()
				if t.Delay(ctx) != nil {
					return 0, 1
				}
				return 0, 0
			default:
				ctx, cancel := context.WithTimeout(context.Background(), time.Duration(ctxUS)*time.Microsecond)
				defer cancel()
				if t.Delay(ctx) != nil {
					return 0, 1
				}
				return 0, 0
			}
		})
	}
	wgC.Wait()
	rd.Cancel = clk.Add(1)
	cancelA()
	<-aDone
	safe(func() {
		rd.Final = int64(th.Level())
		rd.FinalTwin = int64(twin.Level())
	})
	rd.GapUS = hb.MaxGap(t0, time.Now()).Microseconds()
	rd.WallUS = time.Since(t0).Microseconds()
	return
}

// judgeHold: order pattern (see holdBlocked) plus the level model at the points
// where the level is determined.
func judgeHold(s caseSpec, lg caseLog, j *judged, add func(k, f string, a ...any)) {
	m := mkModel(s)
	blockedRounds, stalledBlocked, ranOutOnly := 0, 0, 0
	var example string
	kindsSeen := map[string]bool{}
	for i, rd := range lg.Hold {
		where := fmt.Sprintf("round %d", i)
		j.cnt["hold_rounds"]++
		j.cnt["hold_waiting_requests"] += int64(len(rd.Waiters))
		held := true // every waiting request was still waiting when writer and reader had returned
		for _, a := range rd.Waiters {
			if a.Err == 0 || a.Post < rd.Cancel {
				held = false
			}
		}
		for _, c := range rd.Calls {
			for _, a := range rd.Waiters {
				if a.Pre > c.Pre {
					held = false
				}
			}
			j.cnt["hold_calls_"+c.Kind]++
		}
		if held {
			j.cnt["hold_rounds_all_requests_waiting_throughout"]++
			j.nontriv = true
		}
		if kinds := holdBlocked(rd); len(kinds) > 0 {
			j.cnt["hold_rounds_blocked"]++
			if rd.GapUS >= hbHealthyUS {
				stalledBlocked++
			} else {
				blockedRounds++
				for _, k := range kinds {
					kindsSeen[k] = true
				}
				if example == "" {
					example = fmt.Sprintf("%s: %d request(s) waiting in Delay at level %d (delay %d us); %v invoked meanwhile returned only after a waiting request's whole delay had run out (waiters %+v, calls %+v, harness ended the waiters' context at stamp %d), while the same call(s) on a twin throttler with nobody waiting, invoked later, had returned before", where, len(rd.Waiters), rd.L, delayUS(s, rd.L), kinds, rd.Waiters, rd.Calls, rd.Cancel)
				}
			}
		} else if holdRanOut(rd) {
			ranOutOnly++
		}
		// level model
		if rd.Final < 0 || rd.Final > int64(m.n-1) {
			add("level:out-of-range", "%s: Level()=%d outside [0,%d]", where, rd.Final, m.n-1)
			continue
		}
		if holdIdleVariant(s) {
			if len(rd.Calls) == 1 && rd.Calls[0].Val == 0 && rd.Calls[0].Post != 0 {
				j.cnt["hold_idle_resets_seen_while_requests_waiting"]++
				if rd.Final != 0 {
					add("level:model-mismatch", "%s: Level() showed the idle reset (0) while requests were waiting, yet at quiescence, with no Signal in between, the level is %d", where, rd.Final)
				}
			}
			continue
		}
		if len(rd.Calls) != 2 || rd.Calls[0].Post == 0 || rd.Calls[1].Post == 0 {
			continue
		}
		w, rr := rd.Calls[0], rd.Calls[1]
		exp := rd.L
		switch w.Kind {
		case "signal":
			exp = m.signal(rd.L)
		case "release":
			exp = m.release(rd.L)
		default:
			exp = 0
		}
		if rd.Final != int64(exp) || rd.FinalTwin != int64(exp) {
			add("level:model-mismatch", "%s: level %d, then %s while %d request(s) waited in Delay: at quiescence the level is %d (twin without waiting requests: %d), the model (table of %d, release rate %d) says %d", where, rd.L, w.Kind, len(rd.Waiters), rd.Final, rd.FinalTwin, m.n, m.rate, exp)
			continue
		}
		j.cnt["level_observations_compared"] += 2
		okLvl := func(l int64, pre int64) bool {
			return l == int64(exp) || (pre < w.Post && l == int64(rd.L))
		}
		switch rr.Kind {
		case "level":
			if !okLvl(rr.Val, rr.Pre) {
				add("level:model-mismatch", "%s: Level()=%d invoked at stamp %d; level before the %s (stamps %d-%d) %d, after it %d", where, rr.Val, rr.Pre, w.Kind, w.Pre, w.Post, rd.L, exp)
			}
		case "getdelay":
			if !(rr.Val == delayUS(s, exp)*1000 || (rr.Pre < w.Post && rr.Val == delayUS(s, rd.L)*1000)) {
				add("delay:wrong-value", "%s: GetDelay()=%dns invoked at stamp %d; level before the %s (stamps %d-%d) %d, after it %d", where, rr.Val, rr.Pre, w.Kind, w.Pre, w.Post, rd.L, exp)
			}
		default:
			// a Delay under an ended context at a level known to have a delay of seconds
			if rr.Pre > w.Post && delayUS(s, exp) > 0 {
				if rr.Err != 0 {
					j.cnt["hold_ended_ctx_delays_returned_ctx_error"]++
				} else {
					j.cnt["hold_ended_ctx_delays_returned_nil"]++
				}
			}
		}
	}
	switch {
	case blockedRounds >= 2:
		ks := ""
		for _, k := range []string{"signal", "release", "reset", "level", "getdelay", "delay-ctx-ended", "delay-ctx-timeout", "level-poll-until-idle-reset"} {
			if kindsSeen[k] {
				ks += " " + k
			}
		}
		add("delay:waiting-request-blocks-other-calls", "in %d of %d rounds calls that arrived while a request was waiting in Delay (kinds:%s) returned only after that request's whole delay had run out: they wait longer than the current delay / do not return when their context ends / the level change is held up. %s", blockedRounds, len(lg.Hold), ks, example)
	case blockedRounds == 1 || stalledBlocked > 0:
		j.inconcl = fmt.Sprintf("a call returned only after a waiting Delay had run out, but in one round only or with an unhealthy heartbeat|%s", example)
	case ranOutOnly > 0:
		j.inconcl = "a waiting Delay ran out before the harness ended it, without the order pattern (process stalled?)|"
	}
	if len(lg.Hold) == 0 && j.inconcl == "" {
		j.inconcl = "hold case produced no round|"
	}
}

func genHold(no int, r *rand.Rand) caseSpec {
	s := caseSpec{No: no, Mode: "hold", Seed: r.Uint64()}
	n := 2 + r.IntN(6)
	s.DelaysUS = []int64{0}
	for i := 1; i < n; i++ {
		s.DelaysUS = append(s.DelaysUS, int64(2_000_000+r.IntN(1_500_000)))
	}
	s.Rate = 1 + r.IntN(3)
	s.G = 1 + r.IntN(3)
	s.Ops = 3
	if r.IntN(3) == 0 {
		s.IdleMS = 30 + r.IntN(71)
	} else {
		s.IdleMS = []int{0, 3_600_000}[r.IntN(2)]
	}
	return s
}
