// Package c29: commands survive encoding into the log unchanged (DESIGN §6 C29).
//
// Real code under test: command.RequestMarshaler.Marshal, command.Marshal /
// Unmarshal / UnmarshalSubCommand / (Un)MarshalLoadRequest /
// (Un)MarshalLoadChunkRequest / (Un)MarshalNoop, and (end to end) the encode
// path of store.Store into a real Raft log.
//
// Oracle: a canonical text rendering of the request, written here without any
// protobuf machinery, is computed from the request before encoding (driver
// process) and from the request decoded by a second process (worker child
// "c29"); the two must be identical. In addition proto.Equal in-process, and
// "compressed => smaller than the plain encoding or forced".
package c29

import (
	"bytes"
	"compress/gzip"
	"context"
	"crypto/sha256"
	"encoding/base64"
	"encoding/hex"
	"encoding/json"
	"fmt"
	"io"
	"log"
	"math"
	"math/rand/v2"
	"net"
	"os"
	"path/filepath"
	"strconv"
	"strings"
	"sync"
	"time"

	"github.com/hashicorp/raft"
	"github.com/rqlite/rqlite/v10/command"
	"github.com/rqlite/rqlite/v10/command/proto"
	"github.com/rqlite/rqlite/v10/store"
	rlog "github.com/rqlite/rqlite/v10/store/log"
	pb "google.golang.org/protobuf/proto"
	"verif/internal/sqlref"
	"verif/internal/vf"
)

func init() {
	vf.Register("C29", "exploration", run)
	vf.RegisterWorker("c29", worker)
}

// ------------------------------------------------------- canonical rendering

func canonParam(sb *strings.Builder, p *proto.Parameter) {
	if p == nil {
		sb.WriteString("{nil}")
		return
	}
	fmt.Fprintf(sb, "{name=%x ", p.Name)
	switch v := p.Value.(type) {
	case nil:
		sb.WriteString("none")
	case *proto.Parameter_I:
		fmt.Fprintf(sb, "i:%d", v.I)
	case *proto.Parameter_D:
		fmt.Fprintf(sb, "d:%016x", math.Float64bits(v.D))
	case *proto.Parameter_B:
		fmt.Fprintf(sb, "b:%v", v.B)
	case *proto.Parameter_Y:
		fmt.Fprintf(sb, "y:%d:%x", len(v.Y), v.Y)
	case *proto.Parameter_S:
		fmt.Fprintf(sb, "s:%d:%x", len(v.S), v.S)
	default:
		fmt.Fprintf(sb, "unknown:%T", v)
	}
	sb.WriteString("}")
}

func canonRequest(sb *strings.Builder, r *proto.Request) {
	if r == nil {
		sb.WriteString("request=absent\n")
		return
	}
	fmt.Fprintf(sb, "request tx=%v dbTimeout=%d rollback=%v qualify=%v n=%d\n", r.Transaction, r.DbTimeout, r.RollbackOnError, r.QualifyColumns, len(r.Statements))
	for i, s := range r.Statements {
		if s == nil {
			fmt.Fprintf(sb, " %d nil\n", i)
			continue
		}
		fmt.Fprintf(sb, " %d fq=%v fs=%v ex=%v sql=%d:%x params=%d", i, s.ForceQuery, s.ForceStall, s.SqlExplain, len(s.Sql), s.Sql, len(s.Parameters))
		for _, p := range s.Parameters {
			canonParam(sb, p)
		}
		sb.WriteString("\n")
	}
}

// canon renders any of the six command payloads.
func canon(m any) string {
	var sb strings.Builder
	switch r := m.(type) {
	case *proto.ExecuteRequest:
		fmt.Fprintf(&sb, "execute timings=%v\n", r.Timings)
		canonRequest(&sb, r.Request)
	case *proto.QueryRequest:
		fmt.Fprintf(&sb, "query timings=%v level=%d fresh=%d strict=%v lin=%d\n", r.Timings, r.Level, r.Freshness, r.FreshnessStrict, r.LinearizableTimeout)
		canonRequest(&sb, r.Request)
	case *proto.ExecuteQueryRequest:
		fmt.Fprintf(&sb, "execute_query timings=%v level=%d fresh=%d strict=%v lin=%d\n", r.Timings, r.Level, r.Freshness, r.FreshnessStrict, r.LinearizableTimeout)
		canonRequest(&sb, r.Request)
	case *proto.LoadRequest:
		h := sha256.Sum256(r.Data)
		fmt.Fprintf(&sb, "load n=%d sha=%x\n", len(r.Data), h)
	case *proto.LoadChunkRequest:
		h := sha256.Sum256(r.Data)
		fmt.Fprintf(&sb, "load_chunk id=%x seq=%d last=%v abort=%v n=%d sha=%x\n", r.StreamId, r.SequenceNum, r.IsLast, r.Abort, len(r.Data), h)
	case *proto.Noop:
		fmt.Fprintf(&sb, "noop id=%x\n", r.Id)
	default:
		fmt.Fprintf(&sb, "unknown %T\n", m)
	}
	return sb.String()
}

func hashOf(s string) string {
	h := sha256.Sum256([]byte(s))
	return hex.EncodeToString(h[:])
}

// decodeEntry decodes a log entry the way store.CommandProcessor.Process does:
// the command type found in the entry selects the payload type.
func decodeEntry(data []byte) (kind string, compressed bool, subLen int, msg any, err error) {
	var c proto.Command
	if err := command.Unmarshal(data, &c); err != nil {
		return "", false, 0, nil, fmt.Errorf("unmarshal command: %v", err)
	}
	compressed, subLen = c.Compressed, len(c.SubCommand)
	switch c.Type {
	case proto.Command_COMMAND_TYPE_EXECUTE:
		var m proto.ExecuteRequest
		err = command.UnmarshalSubCommand(&c, &m)
		return "execute", compressed, subLen, &m, err
	case proto.Command_COMMAND_TYPE_QUERY:
		var m proto.QueryRequest
		err = command.UnmarshalSubCommand(&c, &m)
		return "query", compressed, subLen, &m, err
	case proto.Command_COMMAND_TYPE_EXECUTE_QUERY:
		var m proto.ExecuteQueryRequest
		err = command.UnmarshalSubCommand(&c, &m)
		return "execute_query", compressed, subLen, &m, err
	case proto.Command_COMMAND_TYPE_LOAD:
		var m proto.LoadRequest
		err = command.UnmarshalLoadRequest(c.SubCommand, &m)
		return "load", compressed, subLen, &m, err
	case proto.Command_COMMAND_TYPE_LOAD_CHUNK:
		var m proto.LoadChunkRequest
		err = command.UnmarshalLoadChunkRequest(c.SubCommand, &m)
		return "load_chunk", compressed, subLen, &m, err
	case proto.Command_COMMAND_TYPE_NOOP:
		var m proto.Noop
		err = command.UnmarshalNoop(c.SubCommand, &m)
		return "noop", compressed, subLen, &m, err
	}
	return fmt.Sprintf("type-%d", c.Type), compressed, subLen, nil, fmt.Errorf("unhandled command type %v", c.Type)
}

// ------------------------------------------------------------ worker (child)

type decReq struct {
	Wires []string `json:"wires"` // base64 log entries
	Full  bool     `json:"full"`
}

type decRes struct {
	Kind       string `json:"kind"`
	Compressed bool   `json:"compressed"`
	Hash       string `json:"hash"`
	Text       string `json:"text,omitempty"`
	Err        string `json:"err,omitempty"`
}

type decResp struct {
	Pid     int      `json:"pid"`
	Results []decRes `json:"results"`
}

func worker(args []string) {
	if len(args) > 0 && args[0] == "e2e-run" {
		e2eWorker(args[1:])
		return
	}
	if len(args) > 0 && args[0] == "e2e-read" {
		e2eRead(args[1])
		return
	}
	vf.ServeJSON(func(raw json.RawMessage) any {
		var rq decReq
		if err := json.Unmarshal(raw, &rq); err != nil {
			return decResp{Pid: os.Getpid(), Results: []decRes{{Err: "bad request: " + err.Error()}}}
		}
		out := decResp{Pid: os.Getpid()}
		for _, w := range rq.Wires {
			b, err := base64.StdEncoding.DecodeString(w)
			if err != nil {
				out.Results = append(out.Results, decRes{Err: "base64: " + err.Error()})
				continue
			}
			kind, comp, _, m, err := decodeEntry(b)
			r := decRes{Kind: kind, Compressed: comp}
			if err != nil {
				r.Err = err.Error()
			} else {
				t := canon(m)
				r.Hash = hashOf(t)
				if rq.Full {
					r.Text = t
				}
			}
			out.Results = append(out.Results, r)
		}
		return out
	})
}

// ----------------------------------------------------------------- generator

type mcfg struct {
	Batch int  `json:"batch_threshold"`
	Size  int  `json:"size_threshold"`
	Force bool `json:"force"`
}

type gcase struct {
	No     int    `json:"case"`
	Kind   string `json:"kind"`
	Cfg    mcfg   `json:"marshaler"`
	Shape  string `json:"shape"`
	NStmt  int    `json:"statements"`
	MaxSQL int    `json:"max_sql_bytes"`
	msg    pb.Message
}

var letters = "abcdefghijklmnopqrstuvwxyzABCDEFGHIJKLMNOPQRSTUVWXYZ0123456789+/"

// genText returns valid UTF-8 of exactly n bytes.
func genText(rng *rand.Rand, n int, style int) string {
	if n <= 0 {
		return ""
	}
	var sb strings.Builder
	sb.Grow(n)
	switch style {
	case 0: // compressible SQL-like
		const base = "INSERT INTO foo(id, name, value) VALUES(1, 'fiona', 3.14159); "
		for sb.Len() < n {
			sb.WriteString(base)
		}
	case 1: // incompressible ASCII
		for sb.Len() < n {
			sb.WriteByte(letters[rng.IntN(64)])
		}
	case 2: // multi-byte unicode, all planes, incl. NUL and controls
		for sb.Len() < n {
			var r rune
			switch rng.IntN(5) {
			case 0:
				r = rune(rng.IntN(0x80))
			case 1:
				r = rune(0x80 + rng.IntN(0x780))
			case 2:
				r = rune(0x800 + rng.IntN(0xD000))
			case 3:
				r = rune(0xE000 + rng.IntN(0x1FFE))
			default:
				r = rune(0x10000 + rng.IntN(0x100000))
			}
			sb.WriteRune(r)
		}
	default: // low entropy single byte
		ch := byte('a' + rng.IntN(26))
		for sb.Len() < n {
			sb.WriteByte(ch)
		}
	}
	s := sb.String()
	if len(s) > n {
		// cut on a rune boundary, pad with ASCII
		cut := n
		for cut > 0 && !isRuneStart(s[cut]) {
			cut--
		}
		s = s[:cut] + strings.Repeat("x", n-cut)
	}
	return s
}

func isRuneStart(b byte) bool { return b&0xC0 != 0x80 }

var edgeInts = []int64{0, 1, -1, 63, 64, -64, -65, 127, 128, math.MaxInt32, math.MinInt32, math.MaxInt64, math.MinInt64, 1 << 53, -(1 << 53)}
var edgeFloats = []float64{0, math.Copysign(0, -1), 1, -1, math.Inf(1), math.Inf(-1), math.NaN(), math.Float64frombits(0x7ff8000000000001), math.Float64frombits(0xfff0000000000001), math.SmallestNonzeroFloat64, math.MaxFloat64, 0.1, 1e-320}

func genParam(rng *rand.Rand) *proto.Parameter {
	p := &proto.Parameter{}
	if rng.IntN(4) == 0 {
		p.Name = genText(rng, 1+rng.IntN(12), rng.IntN(3))
	}
	switch rng.IntN(11) {
	case 0:
		p.Value = &proto.Parameter_I{I: edgeInts[rng.IntN(len(edgeInts))]}
	case 1:
		p.Value = &proto.Parameter_I{I: int64(rng.Uint64())}
	case 2:
		p.Value = &proto.Parameter_D{D: edgeFloats[rng.IntN(len(edgeFloats))]}
	case 3:
		p.Value = &proto.Parameter_D{D: math.Float64frombits(rng.Uint64())}
	case 4:
		p.Value = &proto.Parameter_B{B: rng.IntN(2) == 0}
	case 5:
		n := []int{0, 0, 1, 7, 200, 5000}[rng.IntN(6)]
		y := make([]byte, n)
		for i := range y {
			y[i] = byte(rng.Uint32())
		}
		p.Value = &proto.Parameter_Y{Y: y}
	case 6:
		p.Value = &proto.Parameter_Y{Y: nil}
	case 7:
		p.Value = &proto.Parameter_S{S: ""}
	case 8, 9:
		p.Value = &proto.Parameter_S{S: genText(rng, rng.IntN(300), rng.IntN(4))}
	default:
		// no value at all (NULL)
	}
	return p
}

func genStatement(rng *rand.Rand, sqlLen int, style int, maxParams int) *proto.Statement {
	s := &proto.Statement{Sql: genText(rng, sqlLen, style)}
	if maxParams > 0 {
		np := rng.IntN(maxParams + 1)
		for i := 0; i < np; i++ {
			s.Parameters = append(s.Parameters, genParam(rng))
		}
	}
	if rng.IntN(5) == 0 {
		s.ForceQuery = true
	}
	if rng.IntN(7) == 0 {
		s.ForceStall = true
	}
	if rng.IntN(6) == 0 {
		s.SqlExplain = true
	}
	return s
}

var cfgBatches = []int{0, 1, 2, 3, 8, 33}
var cfgSizes = []int{0, 1, 5, 16, 64, 100, 1000}

func genCfg(rng *rand.Rand) mcfg {
	if rng.IntN(5) < 2 {
		return mcfg{Batch: 512, Size: 4096, Force: rng.IntN(6) == 0}
	}
	return mcfg{Batch: cfgBatches[rng.IntN(len(cfgBatches))], Size: cfgSizes[rng.IntN(len(cfgSizes))], Force: rng.IntN(4) == 0}
}

func genRequest(rng *rand.Rand, cfg mcfg, g *gcase) *proto.Request {
	if rng.IntN(60) == 0 {
		g.Shape = "absent-request"
		return nil
	}
	r := &proto.Request{}
	if rng.IntN(2) == 0 {
		r.Transaction = true
	}
	if rng.IntN(3) == 0 {
		r.DbTimeout = []int64{1, -1, 1000, math.MaxInt64, math.MinInt64}[rng.IntN(5)]
	}
	if rng.IntN(3) == 0 {
		r.RollbackOnError = true
	}
	if rng.IntN(3) == 0 {
		r.QualifyColumns = true
	}
	style := func() int { return rng.IntN(4) }
	switch rng.IntN(10) {
	case 0, 1, 2: // statement count around the batch threshold
		g.Shape = "batch-boundary"
		n := cfg.Batch - 1 + rng.IntN(3)
		if n < 0 {
			n = 0
		}
		st := style()
		for i := 0; i < n; i++ {
			l := rng.IntN(40)
			if cfg.Size > 0 && l >= cfg.Size {
				l = cfg.Size - 1 // keep the size rule out of the way
			}
			r.Statements = append(r.Statements, genStatement(rng, l, st, 2))
		}
	case 3, 4, 5, 6: // one statement with a length around the size threshold
		g.Shape = "size-boundary"
		n := 1 + rng.IntN(3)
		if cfg.Batch > 0 && n >= cfg.Batch {
			n = max(cfg.Batch-1, 1)
		}
		which := rng.IntN(n)
		for i := 0; i < n; i++ {
			l := rng.IntN(min(max(cfg.Size-2, 1), 30))
			if i == which {
				l = max(cfg.Size-2+rng.IntN(5), 0)
			}
			r.Statements = append(r.Statements, genStatement(rng, l, style(), 3))
		}
	case 7: // many statements
		g.Shape = "many"
		n := rng.IntN(601)
		st := style()
		for i := 0; i < n; i++ {
			r.Statements = append(r.Statements, genStatement(rng, rng.IntN(80), st, 1))
		}
	case 8: // large statement(s) well beyond the thresholds
		g.Shape = "large"
		n := 1 + rng.IntN(3)
		for i := 0; i < n; i++ {
			r.Statements = append(r.Statements, genStatement(rng, cfg.Size+rng.IntN(40000), style(), 4))
		}
	default: // small mixed
		g.Shape = "small"
		n := rng.IntN(6)
		for i := 0; i < n; i++ {
			r.Statements = append(r.Statements, genStatement(rng, rng.IntN(200), style(), 8))
		}
	}
	return r
}

var levels = []proto.ConsistencyLevel{proto.ConsistencyLevel_NONE, proto.ConsistencyLevel_WEAK, proto.ConsistencyLevel_STRONG, proto.ConsistencyLevel_AUTO, proto.ConsistencyLevel_LINEARIZABLE}

func genCase(c *vf.Ctx, no int) *gcase {
	rng := c.Rand(uint64(no) + 1000)
	g := &gcase{No: no, Cfg: genCfg(rng)}
	k := rng.IntN(100)
	switch {
	case k < 35:
		g.Kind = "execute"
		g.msg = &proto.ExecuteRequest{Request: genRequest(rng, g.Cfg, g), Timings: rng.IntN(2) == 0}
	case k < 55:
		g.Kind = "query"
		g.msg = &proto.QueryRequest{Request: genRequest(rng, g.Cfg, g), Timings: rng.IntN(2) == 0, Level: levels[rng.IntN(5)],
			Freshness: int64(rng.IntN(3)) * int64(rng.Uint64()>>1), FreshnessStrict: rng.IntN(2) == 0, LinearizableTimeout: int64(rng.IntN(2)) * int64(rng.Uint32())}
	case k < 80:
		g.Kind = "execute_query"
		g.msg = &proto.ExecuteQueryRequest{Request: genRequest(rng, g.Cfg, g), Timings: rng.IntN(2) == 0, Level: levels[rng.IntN(5)],
			Freshness: -int64(rng.IntN(2)) * int64(rng.Uint32()), FreshnessStrict: rng.IntN(2) == 0, LinearizableTimeout: int64(rng.IntN(2)) * int64(rng.Uint64()>>1)}
	case k < 87:
		g.Kind, g.Shape = "load", "load"
		n := []int{0, 1, 100, 4096, 70000, 1 << 20}[rng.IntN(6)]
		if n > 4096 && c.Quick() && rng.IntN(3) != 0 {
			n = 4096
		}
		d := make([]byte, n)
		if rng.IntN(2) == 0 {
			for i := range d {
				d[i] = byte(rng.Uint32())
			}
		}
		g.msg = &proto.LoadRequest{Data: d}
	case k < 95:
		g.Kind, g.Shape = "load_chunk", "load_chunk"
		d := make([]byte, []int{0, 0, 10, 5000, 200000}[rng.IntN(5)])
		for i := range d {
			d[i] = byte(rng.Uint32())
		}
		if len(d) == 0 && rng.IntN(2) == 0 {
			d = nil
		}
		g.msg = &proto.LoadChunkRequest{StreamId: genText(rng, rng.IntN(40), rng.IntN(3)), SequenceNum: edgeInts[rng.IntN(len(edgeInts))],
			IsLast: rng.IntN(2) == 0, Abort: rng.IntN(4) == 0, Data: d}
	default:
		g.Kind, g.Shape = "noop", "noop"
		g.msg = &proto.Noop{Id: genText(rng, rng.IntN(60), rng.IntN(3))}
	}
	if rq, ok := g.msg.(command.Requester); ok {
		st := rq.GetRequest().GetStatements()
		g.NStmt = len(st)
		for _, s := range st {
			g.MaxSQL = max(g.MaxSQL, len(s.Sql))
		}
	}
	return g
}

// ------------------------------------------------------------ encode + judge

func gz(b []byte) []byte {
	var buf bytes.Buffer
	w, _ := gzip.NewWriterLevel(&buf, gzip.DefaultCompression)
	w.Write(b)
	w.Close()
	return buf.Bytes()
}

func gunzip(b []byte) ([]byte, error) {
	r, err := gzip.NewReader(bytes.NewReader(b))
	if err != nil {
		return nil, err
	}
	return io.ReadAll(r)
}

type encoded struct {
	g         *gcase
	canonPre  string
	wire      []byte
	failed    bool
	compress  bool
	threshold bool
}

// encode runs the leader-side path of store.execute / Query / Request / load /
// Noop on the message and judges everything that can be judged in-process.
func encode(c *vf.Ctx, g *gcase) *encoded {
	e := &encoded{g: g}
	fail := func(key, what string) *encoded {
		e.failed = true
		c.Violation(key, fmt.Sprintf("%s [case=%d kind=%s shape=%s statements=%d max_sql=%d marshaler=%+v]", what, g.No, g.Kind, g.Shape, g.NStmt, g.MaxSQL, g.Cfg), g)
		return e
	}
	e.canonPre = canon(g.msg)
	raw, err := pb.Marshal(g.msg)
	if err != nil {
		return fail("encode:plain-marshal-error", err.Error())
	}
	cmd := &proto.Command{}
	switch g.Kind {
	case "execute", "query", "execute_query":
		m := &command.RequestMarshaler{BatchThreshold: g.Cfg.Batch, SizeThreshold: g.Cfg.Size, ForceCompression: g.Cfg.Force}
		rq := g.msg.(command.Requester)
		out, compressed, err := m.Marshal(rq)
		if err != nil {
			return fail("encode:error", err.Error())
		}
		st := rq.GetRequest().GetStatements()
		met := len(st) >= g.Cfg.Batch
		for _, s := range st {
			if len(s.Sql) >= g.Cfg.Size {
				met = true
			}
		}
		e.compress, e.threshold = compressed, met
		c.Count("marshal_calls", 1)
		if met {
			c.Count("threshold_met", 1)
		} else {
			c.Count("threshold_not_met", 1)
		}
		if compressed {
			c.Count("compressed", 1)
			plain, err := gunzip(out)
			if err != nil {
				return fail("compression:flag-set-but-not-gzip", err.Error())
			}
			if !bytes.Equal(plain, raw) {
				// protobuf encoding is not canonical in general, so only a
				// length mismatch is judged here; content is judged by decode.
				if len(plain) != len(raw) {
					return fail("compression:payload-length", fmt.Sprintf("decompressed %d bytes, plain encoding has %d", len(plain), len(raw)))
				}
			}
			if len(out) < len(raw) {
				c.Count("compressed_and_smaller", 1)
			} else if g.Cfg.Force {
				c.Count("compressed_not_smaller_forced", 1)
			} else {
				return fail("compression:used-although-not-smaller-and-not-forced", fmt.Sprintf("entry payload %d bytes compressed, %d bytes plain, ForceCompression=false", len(out), len(raw)))
			}
			if !met {
				c.Count("observation_compressed_below_thresholds", 1)
			}
		} else {
			c.Count("uncompressed", 1)
			if len(out) != len(raw) {
				return fail("compression:flag-clear-but-payload-differs", fmt.Sprintf("payload %d bytes, plain encoding %d", len(out), len(raw)))
			}
			if met {
				if g2 := gz(raw); len(g2) < len(raw) {
					// not demanded by the property text ("used only when…"):
					// recorded, not judged
					c.Count("observation_threshold_met_gzip_smaller_but_not_compressed", 1)
				} else {
					c.Count("threshold_met_gzip_not_smaller_left_plain", 1)
				}
			}
		}
		cmd.SubCommand, cmd.Compressed = out, compressed
		switch g.Kind {
		case "execute":
			cmd.Type = proto.Command_COMMAND_TYPE_EXECUTE
		case "query":
			cmd.Type = proto.Command_COMMAND_TYPE_QUERY
		default:
			cmd.Type = proto.Command_COMMAND_TYPE_EXECUTE_QUERY
		}
	case "load":
		b, err := command.MarshalLoadRequest(g.msg.(*proto.LoadRequest))
		if err != nil {
			return fail("encode:error", err.Error())
		}
		if len(b) >= len(raw) {
			c.Count("observation_load_entry_not_smaller_than_plain", 1)
		}
		cmd.Type, cmd.SubCommand = proto.Command_COMMAND_TYPE_LOAD, b
	case "load_chunk":
		b, err := command.MarshalLoadChunkRequest(g.msg.(*proto.LoadChunkRequest))
		if err != nil {
			return fail("encode:error", err.Error())
		}
		cmd.Type, cmd.SubCommand = proto.Command_COMMAND_TYPE_LOAD_CHUNK, b
	case "noop":
		b, err := command.MarshalNoop(g.msg.(*proto.Noop))
		if err != nil {
			return fail("encode:error", err.Error())
		}
		cmd.Type, cmd.SubCommand = proto.Command_COMMAND_TYPE_NOOP, b
	}
	wire, err := command.Marshal(cmd)
	if err != nil {
		return fail("encode:command-error", err.Error())
	}
	e.wire = wire
	if post := canon(g.msg); post != e.canonPre {
		return fail("encode:request-mutated", "the request object changed while being encoded")
	}
	// in-process decode + proto.Equal
	kind, comp, _, m, err := decodeEntry(wire)
	if err != nil {
		return fail("roundtrip:decode-error", err.Error())
	}
	if kind != g.Kind {
		return fail("roundtrip:kind", fmt.Sprintf("decoded as %s", kind))
	}
	if comp != e.compress {
		return fail("roundtrip:compressed-flag", "Compressed flag changed in the command envelope")
	}
	if !pb.Equal(m.(pb.Message), g.msg) {
		return fail("roundtrip:not-equal:in-process", "proto.Equal(decoded, original) is false")
	}
	if t := canon(m); t != e.canonPre {
		return fail("roundtrip:not-identical:in-process", "canonical rendering differs: "+diffText(t, e.canonPre))
	}
	return e
}

func diffText(got, want string) string {
	gl, wl := strings.Split(got, "\n"), strings.Split(want, "\n")
	for i := 0; i < len(gl) && i < len(wl); i++ {
		if gl[i] != wl[i] {
			return fmt.Sprintf("line %d: got %.160q want %.160q", i, gl[i], wl[i])
		}
	}
	return fmt.Sprintf("line count got %d want %d", len(gl), len(wl))
}

// ---------------------------------------------------------------------- run

func run(c *vf.Ctx) {
	c.Rule("seeded requests of all six logged command kinds (execute, query, execute_query with every Request/Statement/Parameter field: sint64/double (incl. NaN payloads, -0, inf)/bool/bytes/string/absent values, named parameters, unicode of all planes, absent Request), statement counts BatchThreshold-1..+1, SQL byte lengths SizeThreshold-2..+2, 0..600 statements, statements up to 40 KB beyond the threshold, compressible and incompressible text; load (0..1 MiB), load_chunk, noop), encoded exactly as store.execute/Query/Request/load/Noop do, under default (512/4096) and 42 small threshold configurations with and without ForceCompression; every entry decoded in-process and by a separate worker process; plus end to end: requests sent to a real single-node Store and read back from its raft.db after Close. non-trivial = request with >=1 statement or a non-empty load/chunk/noop payload; distinct by the hash of the canonical rendering + marshaler configuration")
	c.Assume("the canonical text rendering written in this package (every field, strings/bytes in hex, doubles by bit pattern, oneof presence) is the notion of 'identical request'")
	c.Assume("strings are valid UTF-8 (protobuf refuses others; the HTTP layer cannot produce them)")
	c.Assume("the compression rule is judged for entries carrying the Compressed flag (RequestMarshaler); LoadRequest's unconditional gzip framing is part of its encoding and only counted; 'compression not used although it would be smaller' is counted, not judged, because the property only says when compression may be used")

	tmp := vf.TempDir("c29")
	defer os.RemoveAll(tmp)

	n := c.N(4000, 300000)
	nw := 4
	type job struct{ from, to int }
	jobs := make(chan job, 64)
	var wg sync.WaitGroup
	pids := map[int]bool{}
	var pmu sync.Mutex
	for w := 0; w < nw; w++ {
		wg.Add(1)
		go func(w int) {
			defer wg.Done()
			logPath := filepath.Join(tmp, fmt.Sprintf("dec-%d.log", w))
			var p *vf.Proc
			start := func() bool {
				var err error
				p, err = vf.StartWorker(false, "c29", nil, nil, logPath)
				if err != nil {
					c.Logf("worker start: %v", err)
					return false
				}
				return true
			}
			if !start() {
				for j := range jobs {
					for i := j.from; i < j.to; i++ {
						c.Inconclusive("decode worker could not be started")
					}
				}
				return
			}
			defer func() { p.Kill() }()
			for j := range jobs {
				var encs []*encoded
				var rq decReq
				for i := j.from; i < j.to; i++ {
					g := genCase(c, i)
					e := encode(c, g)
					c.Eval(1)
					if e.failed {
						continue
					}
					encs = append(encs, e)
					rq.Wires = append(rq.Wires, base64.StdEncoding.EncodeToString(e.wire))
				}
				if len(encs) == 0 {
					continue
				}
				var resp decResp
				if err := p.Call(rq, &resp, 120*time.Second); err != nil || len(resp.Results) != len(encs) {
					// The child died or hung on this batch: that is an
					// observation about the decoder, find the culprit one by one.
					c.Logf("decode worker: %v (batch %d..%d), retrying singly", err, j.from, j.to)
					p.Kill()
					resp.Results = nil
					for _, e := range encs {
						if !start() {
							resp.Results = append(resp.Results, decRes{Err: "worker restart failed"})
							continue
						}
						var r1 decResp
						err := p.Call(decReq{Wires: []string{base64.StdEncoding.EncodeToString(e.wire)}}, &r1, 120*time.Second)
						if err != nil || len(r1.Results) != 1 {
							code := p.Kill()
							resp.Results = append(resp.Results, decRes{Err: fmt.Sprintf("decoder process died/hung (exit %d): %v", code, err)})
							continue
						}
						p.Kill()
						resp.Results = append(resp.Results, r1.Results[0])
					}
					start()
				}
				pmu.Lock()
				if resp.Pid != 0 {
					pids[resp.Pid] = true
				}
				pmu.Unlock()
				for k, e := range encs {
					r := resp.Results[k]
					g := e.g
					c.Count("entries_decoded_by_second_process", 1)
					ctx := fmt.Sprintf(" [case=%d kind=%s shape=%s statements=%d max_sql=%d marshaler=%+v compressed=%v]", g.No, g.Kind, g.Shape, g.NStmt, g.MaxSQL, g.Cfg, e.compress)
					switch {
					case r.Err != "":
						c.Violation("roundtrip:second-process-decode-error", r.Err+ctx, g)
					case r.Kind != g.Kind:
						c.Violation("roundtrip:second-process-kind", "decoded as "+r.Kind+ctx, g)
					case r.Compressed != e.compress:
						c.Violation("roundtrip:second-process-compressed-flag", "flag differs"+ctx, g)
					case r.Hash != hashOf(e.canonPre):
						detail := ""
						var full decResp
						if p.Call(decReq{Wires: []string{base64.StdEncoding.EncodeToString(e.wire)}, Full: true}, &full, 120*time.Second) == nil && len(full.Results) == 1 {
							detail = ": " + diffText(full.Results[0].Text, e.canonPre)
						}
						c.Violation("roundtrip:not-identical:second-process", "request decoded by the second process differs from the one encoded"+detail+ctx, g)
					default:
						c.Held(1)
						nontrivial := g.NStmt > 0
						switch m := g.msg.(type) {
						case *proto.LoadRequest:
							nontrivial = len(m.Data) > 0
						case *proto.LoadChunkRequest:
							nontrivial = len(m.Data) > 0 || m.StreamId != ""
						case *proto.Noop:
							nontrivial = m.Id != ""
						}
						if nontrivial {
							c.Nontrivial(r.Hash + fmt.Sprint(g.Cfg))
						}
						c.Count("kind_"+g.Kind, 1)
						c.Count("shape_"+g.Shape, 1)
						if e.compress && g.NStmt > 1 && g.No%7 == 0 {
							c.Sample(g)
						}
					}
				}
			}
		}(w)
	}
	const batch = 24
	for i := 0; i < n; i += batch {
		jobs <- job{i, min(i+batch, n)}
		if (i/batch)%2000 == 1999 {
			c.Logf("function-level cases queued: %d/%d", i, n)
		}
	}
	close(jobs)
	wg.Wait()
	selfPid := os.Getpid()
	delete(pids, selfPid)
	c.Count("distinct_decoder_processes", int64(len(pids)))
	c.Extra("driver_pid_differs_from_decoder_pids", len(pids) > 0)

	runE2E(c, tmp)
	c.Require(int64(c.N(3000, 200000)), c.N(2000, 100000))
}

// --------------------------------------------------------------- end to end

type e2eLine struct {
	// one of:
	Sent   *int   `json:"sent,omitempty"` // request number acknowledged by the store
	SentEr string `json:"sent_err,omitempty"`
	Index  uint64 `json:"index,omitempty"` // raft index of a command entry read back
	Kind   string `json:"kind,omitempty"`
	Comp   bool   `json:"compressed,omitempty"`
	SubLen int    `json:"sub_len,omitempty"`
	RawLen int    `json:"raw_len,omitempty"` // length after decompression
	Hash   string `json:"hash,omitempty"`
	Text   string `json:"text,omitempty"`
	Err    string `json:"err,omitempty"`
	Fatal  string `json:"fatal,omitempty"`
	Done   bool   `json:"done,omitempty"`
}

var e2eCfgs = []mcfg{{512, 4096, false}, {8, 64, false}, {3, 1000, false}, {33, 16, false}}

// genE2E generates request no i of an end-to-end run: executable against a
// real store (no stalls, no pragmas), sizes around the thresholds in force.
func genE2E(c interface{ Rand(uint64) *rand.Rand }, i int, image []byte) (kind string, cfg mcfg, msg pb.Message) {
	rng := c.Rand(uint64(i) + 5_000_000)
	cfg = e2eCfgs[(i/20)%len(e2eCfgs)]
	pad := func(n int, style int) string { // SQL comment of n bytes
		if n < 4 {
			return strings.Repeat(" ", max(n, 0))
		}
		t := genText(rng, n-3, style)
		t = strings.NewReplacer("\n", " ", "\r", " ", "\x00", " ", " ", " ", " ", " ").Replace(t)
		for len(t) > n-3 {
			t = t[:len(t)-1]
		}
		for len(t) < n-3 {
			t += " "
		}
		return " --" + t
	}
	stmt := func(target int) *proto.Statement {
		var s *proto.Statement
		switch rng.IntN(4) {
		case 0:
			s = &proto.Statement{Sql: "INSERT INTO t(a,b) VALUES(?,?)", Parameters: []*proto.Parameter{genParam(rng), genParam(rng)}}
			for _, p := range s.Parameters {
				p.Name = ""
			}
		case 1:
			s = &proto.Statement{Sql: fmt.Sprintf("INSERT INTO t(a,b) VALUES(%d,'%s')", rng.IntN(1000), strings.ReplaceAll(genText(rng, rng.IntN(30), 1), "'", ""))}
		case 2:
			s = &proto.Statement{Sql: "SELECT count(*) FROM t"}
		default:
			s = &proto.Statement{Sql: "UPDATE t SET b=:v WHERE a=:k", Parameters: []*proto.Parameter{{Name: "v", Value: &proto.Parameter_S{S: genText(rng, rng.IntN(50), 2)}}, {Name: "k", Value: &proto.Parameter_I{I: int64(rng.IntN(100))}}}}
		}
		if target > len(s.Sql) {
			s.Sql += pad(target-len(s.Sql), rng.IntN(3))
			// unicode replacement may have changed byte lengths; force exact
			for len(s.Sql) < target {
				s.Sql += " "
			}
		}
		return s
	}
	req := &proto.Request{Transaction: rng.IntN(2) == 0, RollbackOnError: rng.IntN(3) == 0}
	switch rng.IntN(4) {
	case 0:
		n := max(cfg.Batch-1+rng.IntN(3), 1)
		for j := 0; j < n; j++ {
			req.Statements = append(req.Statements, stmt(0))
		}
	case 1:
		req.Statements = append(req.Statements, stmt(max(cfg.Size-2+rng.IntN(5), 1)))
	case 2:
		req.Statements = append(req.Statements, stmt(cfg.Size+rng.IntN(20000)))
	default:
		for j := 0; j < 1+rng.IntN(4); j++ {
			req.Statements = append(req.Statements, stmt(0))
		}
	}
	switch k := rng.IntN(100); {
	case k < 48:
		return "execute", cfg, &proto.ExecuteRequest{Request: req, Timings: rng.IntN(2) == 0}
	case k < 66:
		return "query", cfg, &proto.QueryRequest{Request: req, Timings: rng.IntN(2) == 0, Level: proto.ConsistencyLevel_STRONG, Freshness: int64(rng.IntN(1000))}
	case k < 88:
		return "execute_query", cfg, &proto.ExecuteQueryRequest{Request: req, Timings: rng.IntN(2) == 0, Level: proto.ConsistencyLevel_STRONG, FreshnessStrict: rng.IntN(2) == 0}
	case k < 94:
		return "load", cfg, &proto.LoadRequest{Data: image}
	default:
		return "noop", cfg, &proto.Noop{Id: fmt.Sprintf("c29-%d-%s", i, genText(rng, rng.IntN(20), 2))}
	}
}

type tcpLayer struct{ net.Listener }

func (l *tcpLayer) Dial(addr string, timeout time.Duration) (net.Conn, error) {
	return net.DialTimeout("tcp", addr, timeout)
}

func e2eOut(v e2eLine) {
	b, _ := json.Marshal(v)
	os.Stdout.Write(append(b, '\n'))
}

// e2eWorker <dir> <requests file>: opens a single-node store in dir, sends
// the requests in the file (one JSON line each: kind, thresholds, base64 of the
// plain protobuf encoding as a mere transport from the driver), printing one
// line per answered request, and closes the store.
func e2eWorker(args []string) {
	dir, reqFile := args[0], args[1]
	type inLine struct {
		No    int    `json:"no"`
		Kind  string `json:"kind"`
		Batch int    `json:"batch"`
		Size  int    `json:"size"`
		Msg   string `json:"msg"`
	}
	data, err := os.ReadFile(reqFile)
	if err != nil {
		e2eOut(e2eLine{Fatal: err.Error()})
		return
	}
	ln, err := net.Listen("tcp", "127.0.0.1:0")
	if err != nil {
		e2eOut(e2eLine{Fatal: err.Error()})
		return
	}
	st := store.New(&store.Config{DBConf: store.NewDBConfig(), Dir: dir, ID: "n1", Logger: log.New(os.Stderr, "[store] ", log.LstdFlags)}, &tcpLayer{ln})
	if err := st.Open(); err != nil {
		e2eOut(e2eLine{Fatal: "open: " + err.Error()})
		return
	}
	if err := st.Bootstrap(store.NewServer(st.ID(), st.Addr(), true)); err != nil {
		e2eOut(e2eLine{Fatal: "bootstrap: " + err.Error()})
		return
	}
	if _, err := st.WaitForLeader(30 * time.Second); err != nil {
		e2eOut(e2eLine{Fatal: "leader: " + err.Error()})
		return
	}
	ctx := context.Background()
	if _, _, err := st.Execute(ctx, &proto.ExecuteRequest{Request: &proto.Request{Statements: []*proto.Statement{{Sql: "CREATE TABLE t(a,b)"}}}}); err != nil {
		e2eOut(e2eLine{Fatal: "create: " + err.Error()})
		return
	}
	for _, line := range bytes.Split(data, []byte("\n")) {
		if len(line) == 0 {
			continue
		}
		var in inLine
		if err := json.Unmarshal(line, &in); err != nil {
			e2eOut(e2eLine{Fatal: "bad line: " + err.Error()})
			return
		}
		raw, _ := base64.StdEncoding.DecodeString(in.Msg)
		st.SetRequestCompression(in.Batch, in.Size)
		var serr error
		switch in.Kind {
		case "execute":
			var m proto.ExecuteRequest
			pb.Unmarshal(raw, &m)
			_, _, serr = st.Execute(ctx, &m)
		case "query":
			var m proto.QueryRequest
			pb.Unmarshal(raw, &m)
			_, _, _, serr = st.Query(ctx, &m)
		case "execute_query":
			var m proto.ExecuteQueryRequest
			pb.Unmarshal(raw, &m)
			_, _, _, serr = st.Request(ctx, &m)
		case "load":
			var m proto.LoadRequest
			pb.Unmarshal(raw, &m)
			serr = st.Load(ctx, &m)
		case "noop":
			var m proto.Noop
			pb.Unmarshal(raw, &m)
			var f raft.ApplyFuture
			f, serr = st.Noop(m.Id)
			if serr == nil {
				serr = f.Error()
			}
		}
		no := in.No
		if serr != nil {
			e2eOut(e2eLine{Sent: &no, SentEr: serr.Error()})
		} else {
			e2eOut(e2eLine{Sent: &no})
		}
	}
	if err := st.Close(true); err != nil {
		e2eOut(e2eLine{Fatal: "close: " + err.Error()})
		return
	}
	ln.Close()
	e2eOut(e2eLine{Done: true})
}

// e2eRead <dir>: a fresh process reads raft.db back and prints every command
// entry, decoded as a node replaying its log would decode it.
func e2eRead(dir string) {
	// Read the log back with the same reader rqlite uses at start-up.
	lg, err := rlog.New(filepath.Join(dir, "raft.db"), false)
	if err != nil {
		e2eOut(e2eLine{Fatal: "open raft.db: " + err.Error()})
		return
	}
	defer lg.Close()
	first, last, err := lg.Indexes()
	if err != nil {
		e2eOut(e2eLine{Fatal: "indexes: " + err.Error()})
		return
	}
	for idx := first; idx <= last && idx != 0; idx++ {
		var ent raft.Log
		if err := lg.GetLog(idx, &ent); err != nil {
			e2eOut(e2eLine{Index: idx, Err: "GetLog: " + err.Error()})
			continue
		}
		if ent.Type != raft.LogCommand {
			continue
		}
		kind, comp, subLen, m, err := decodeEntry(ent.Data)
		l := e2eLine{Index: idx, Kind: kind, Comp: comp, SubLen: subLen}
		if err != nil {
			l.Err = err.Error()
		} else {
			t := canon(m)
			l.Hash = hashOf(t)
			if len(t) < 3000 {
				l.Text = t
			}
			if pm, ok := m.(pb.Message); ok {
				l.RawLen = pb.Size(pm)
			}
		}
		e2eOut(l)
	}
	e2eOut(e2eLine{Done: true})
}

func runE2E(c *vf.Ctx, tmp string) {
	n := c.N(160, 1600)
	dir := filepath.Join(tmp, "e2e")
	os.MkdirAll(dir, 0755)
	// a small valid SQLite image for LOAD requests
	imgPath := filepath.Join(tmp, "img.db")
	var image []byte
	if db, err := sqlref.Open(imgPath); err == nil {
		db.Exec("CREATE TABLE t(a,b)")
		db.Exec("INSERT INTO t VALUES(1,'loaded')")
		db.Close()
		image, _ = os.ReadFile(imgPath)
	}
	if len(image) == 0 {
		c.Inconclusive("e2e: could not build SQLite image")
		return
	}
	type sent struct {
		kind  string
		canon string
		cfg   mcfg
	}
	var sents []sent
	var sb bytes.Buffer
	for i := 0; i < n; i++ {
		kind, cfg, msg := genE2E(c, i, image)
		raw, err := pb.Marshal(msg)
		if err != nil {
			c.Violation("harness", "e2e marshal: "+err.Error(), nil)
			return
		}
		sents = append(sents, sent{kind, canon(msg), cfg})
		b, _ := json.Marshal(map[string]any{"no": i, "kind": kind, "batch": cfg.Batch, "size": cfg.Size, "msg": base64.StdEncoding.EncodeToString(raw)})
		sb.Write(b)
		sb.WriteByte('\n')
	}
	reqFile := filepath.Join(tmp, "e2e-requests.jsonl")
	os.WriteFile(reqFile, sb.Bytes(), 0644)
	logPath := filepath.Join(tmp, "e2e.log")
	out, code, ok := vf.RunWorkerOnce(false, "c29", []string{"e2e-run", dir, reqFile}, nil, logPath, time.Duration(c.N(240, 900))*time.Second)
	if !ok {
		for range sents {
			c.Inconclusive("e2e: store worker timed out")
		}
		return
	}
	var acked []int
	var entries []e2eLine
	parse := func(out []byte) (done bool) {
		for _, line := range bytes.Split(out, []byte("\n")) {
			if len(line) == 0 {
				continue
			}
			var l e2eLine
			if err := json.Unmarshal(line, &l); err != nil {
				continue
			}
			switch {
			case l.Fatal != "":
				c.Logf("e2e worker: %s", l.Fatal)
			case l.Done:
				done = true
			case l.Sent != nil:
				// A request answered with an error by the store may or may
				// not have been logged; only plain acknowledgements count.
				if l.SentEr == "" {
					acked = append(acked, *l.Sent)
				} else {
					c.Count("e2e_requests_refused", 1)
					acked = append(acked, -1-*l.Sent)
				}
			case l.Index != 0:
				entries = append(entries, l)
			}
		}
		return done
	}
	ranToEnd := parse(out)
	if !ranToEnd {
		// The node died: an observation. If it died in the FSM because it
		// could not decode an entry it had itself written, that is the
		// property failing; whatever was acknowledged is still compared.
		logb, _ := os.ReadFile(logPath)
		tail := logb
		if len(tail) > 600 {
			tail = tail[len(tail)-600:]
		}
		c.Logf("e2e store worker exit=%d after %d answers; log tail: %s", code, len(acked), tail)
		if i := bytes.Index(logb, []byte("failed to unmarshal")); i >= 0 {
			msg := logb[i:]
			if j := bytes.IndexByte(msg, '\n'); j >= 0 {
				msg = msg[:j]
			}
			next := len(acked)
			what := fmt.Sprintf("the node panicked applying a log entry it had encoded itself: %.200s", msg)
			if next < len(sents) {
				what += fmt.Sprintf(" (request %d, %s, thresholds %d/%d)", next, sents[next].kind, sents[next].cfg.Batch, sents[next].cfg.Size)
			}
			c.Violation("e2e:node-panic-decoding-own-entry", what, next)
		}
		for i := len(acked); i < len(sents); i++ {
			c.Eval(1)
			c.Inconclusive("e2e: store worker died before this request was answered")
		}
	}
	out2, _, ok2 := vf.RunWorkerOnce(false, "c29", []string{"e2e-read", dir}, nil, logPath, 300*time.Second)
	if !ok2 || !parse(out2) {
		for range acked {
			c.Eval(1)
			c.Inconclusive("e2e: log reader did not complete")
		}
		return
	}
	c.Count("e2e_log_command_entries_read", int64(len(entries)))
	// Entries in the log that belong to us, in order: everything except the
	// CREATE TABLE (first execute) and noops not sent by us.
	var mine []e2eLine
	skippedCreate := false
	for _, l := range entries {
		if l.Err != "" {
			c.Violation("e2e:undecodable-log-entry", fmt.Sprintf("raft index %d (%s): %s", l.Index, l.Kind, l.Err), l)
			continue
		}
		if l.Kind == "execute" && !skippedCreate {
			skippedCreate = true
			continue
		}
		if l.Kind == "noop" && !strings.Contains(l.Text, hex.EncodeToString([]byte("c29-"))) {
			c.Count("e2e_foreign_noops_ignored", 1)
			continue
		}
		mine = append(mine, l)
	}
	k := 0
	for _, a := range acked {
		c.Eval(1)
		if a < 0 {
			// refused request: if it is in the log at the cursor it must
			// still be identical; otherwise skip it
			no := -1 - a
			if k < len(mine) && mine[k].Hash == hashOf(sents[no].canon) {
				k++
				c.Held(1)
			} else {
				c.Inconclusive("e2e: request refused by the store (" + sents[no].kind + ")")
			}
			continue
		}
		s := sents[a]
		if k >= len(mine) {
			c.Violation("e2e:acknowledged-request-not-in-log", fmt.Sprintf("request %d (%s) acknowledged but the log has no further command entry", a, s.kind), a)
			continue
		}
		l := mine[k]
		k++
		if l.Kind != s.kind {
			c.Violation("e2e:kind", fmt.Sprintf("request %d sent as %s, log entry %d is %s", a, s.kind, l.Index, l.Kind), a)
			continue
		}
		if l.Hash != hashOf(s.canon) {
			d := ""
			if l.Text != "" {
				d = ": " + diffText(l.Text, s.canon)
			}
			c.Violation("e2e:not-identical", fmt.Sprintf("request %d (%s, thresholds %d/%d): entry at raft index %d decodes to a different request%s", a, s.kind, s.cfg.Batch, s.cfg.Size, l.Index, d), a)
			continue
		}
		if l.Comp {
			c.Count("e2e_compressed_entries", 1)
			if l.SubLen >= l.RawLen {
				c.Violation("e2e:compression-used-although-not-smaller", fmt.Sprintf("request %d: compressed payload %d bytes, plain %d", a, l.SubLen, l.RawLen), a)
				continue
			}
		} else {
			c.Count("e2e_plain_entries", 1)
		}
		c.Held(1)
		c.Nontrivial("e2e|" + l.Hash + strconv.Itoa(s.cfg.Batch))
		c.Count("e2e_kind_"+s.kind, 1)
	}
	if k < len(mine) {
		c.Count("e2e_unmatched_log_entries", int64(len(mine)-k))
	}
}
