package c12

import (
	"bytes"
	"encoding/json"
	"fmt"
	"io"
	"net"
	"os"
	"path/filepath"
	"time"

	"github.com/rqlite/rqlite/v10/snapshot"
	"github.com/rqlite/rqlite/v10/store"
	"verif/checks/c09/snapgen"
	"verif/internal/vf"
)

// corruption is one alteration of one file of a snapshot store.
type corruption struct {
	File string `json:"file"` // path relative to the store directory
	Kind string `json:"kind"` // flip | truncate | extend | delete | replace
	Off  int64  `json:"off,omitempty"`
	Bit  int    `json:"bit,omitempty"`
	N    int64  `json:"n,omitempty"`    // truncate: new length; extend: bytes added
	Data string `json:"data,omitempty"` // replace: new content
	Tag  string `json:"tag,omitempty"`  // class for evidence / finding keys
}

func (cr corruption) apply(storeDir string) error {
	p := filepath.Join(storeDir, cr.File)
	switch cr.Kind {
	case "flip":
		f, err := os.OpenFile(p, os.O_RDWR, 0)
		if err != nil {
			return err
		}
		defer f.Close()
		var b [1]byte
		if _, err := f.ReadAt(b[:], cr.Off); err != nil {
			return err
		}
		b[0] ^= 1 << (cr.Bit & 7)
		_, err = f.WriteAt(b[:], cr.Off)
		return err
	case "truncate":
		return os.Truncate(p, cr.N)
	case "extend":
		f, err := os.OpenFile(p, os.O_WRONLY|os.O_APPEND, 0)
		if err != nil {
			return err
		}
		defer f.Close()
		ext := make([]byte, cr.N)
		for i := range ext {
			ext[i] = byte(cr.Bit + i)
		}
		_, err = f.Write(ext)
		return err
	case "delete":
		return os.Remove(p)
	case "replace":
		return os.WriteFile(p, []byte(cr.Data), 0644)
	}
	return fmt.Errorf("unknown corruption kind %q", cr.Kind)
}

type jreq struct {
	Store    string      `json:"store"`   // private copy of the generated store (node consumer: the node directory, store in wsnapshots)
	Scratch  string      `json:"scratch"` // private scratch directory
	Timing   string      `json:"timing"`  // cold | warm | none (no corruption: reference run)
	Corrupt  *corruption `json:"corrupt,omitempty"`
	Consumer string      `json:"consumer"` // restore | transfer | reap | node
	ID       string      `json:"id,omitempty"`
}

// Every stage that completes prints one line, so the driver sees how far the
// child got when rqlite exits the process.
type stage struct {
	Stage string `json:"stage"`
	Err   string `json:"err,omitempty"`
	SHA   string `json:"sha,omitempty"`
	File  string `json:"file,omitempty"`
	ID    string `json:"id,omitempty"`
	N     int    `json:"n,omitempty"`
	C     int    `json:"c,omitempty"`
	IDs   string `json:"ids,omitempty"`
}

func emit(s stage) {
	b, _ := json.Marshal(s)
	os.Stdout.Write(append(b, '\n'))
}

func es(err error) string {
	if err == nil {
		return ""
	}
	return err.Error()
}

func init() { vf.RegisterWorker("c12", worker) }

func worker(args []string) {
	var q jreq
	if len(args) < 1 || json.Unmarshal([]byte(args[0]), &q) != nil {
		fmt.Fprintln(os.Stderr, "c12 worker: bad request")
		os.Exit(2)
	}
	fmt.Fprintf(os.Stderr, "c12-worker: %s\n", args[0])
	os.MkdirAll(q.Scratch, 0755)
	storeDir := q.Store
	if q.Consumer == "node" {
		storeDir = filepath.Join(q.Store, "wsnapshots")
	}
	if q.Timing == "cold" {
		if err := q.Corrupt.apply(storeDir); err != nil {
			emit(stage{Stage: "harness-error", Err: err.Error()})
			return
		}
		emit(stage{Stage: "corrupted"})
	}
	if q.Consumer == "node" {
		nodeStart(q)
		return
	}
	st, err := snapshot.NewStore(storeDir)
	if err != nil {
		emit(stage{Stage: "newstore", Err: err.Error()})
		return
	}
	st.SetReapThreshold(1 << 30)
	emit(stage{Stage: "newstore"})
	if q.Timing == "warm" {
		// first successful verification, forced by one Open + full read + Close
		metas, err := st.List()
		if err != nil || len(metas) == 0 {
			emit(stage{Stage: "harness-error", Err: "warm-up list: " + es(err)})
			return
		}
		_, rc, err := st.Open(metas[0].ID)
		if err != nil {
			emit(stage{Stage: "harness-error", Err: "warm-up open: " + err.Error()})
			return
		}
		io.Copy(io.Discard, rc)
		rc.Close()
		if err := q.Corrupt.apply(storeDir); err != nil {
			emit(stage{Stage: "harness-error", Err: err.Error()})
			return
		}
		emit(stage{Stage: "corrupted"})
	}

	openRestore := func(s *snapshot.Store, id, tag string) {
		_, rc, err := s.Open(id)
		if err != nil {
			emit(stage{Stage: tag + "open", Err: err.Error(), ID: id})
			return
		}
		emit(stage{Stage: tag + "open", ID: id})
		out := filepath.Join(q.Scratch, tag+"restored.db")
		_, err = snapshot.Restore(rc, out)
		rc.Close()
		if err != nil {
			emit(stage{Stage: tag + "restore", Err: err.Error(), ID: id})
			return
		}
		emit(stage{Stage: tag + "restore", SHA: snapgen.SHA256(out), File: out, ID: id})
	}

	switch q.Consumer {
	case "restore":
		openRestore(st, q.ID, "")
	case "transfer":
		meta, rc, err := st.Open(q.ID)
		if err != nil {
			emit(stage{Stage: "open", Err: err.Error(), ID: q.ID})
			return
		}
		emit(stage{Stage: "open", ID: q.ID})
		dst, err := snapshot.NewStore(filepath.Join(q.Scratch, "dst"))
		if err != nil {
			emit(stage{Stage: "harness-error", Err: err.Error()})
			return
		}
		dst.SetReapThreshold(1 << 30)
		// what raft.installSnapshot does on the receiving node
		sink, err := dst.Create(1, meta.Index, meta.Term, meta.Configuration, meta.ConfigurationIndex, nil)
		if err != nil {
			emit(stage{Stage: "harness-error", Err: err.Error()})
			return
		}
		n, err := io.Copy(sink, rc)
		rc.Close()
		switch {
		case err != nil:
			sink.Cancel()
			emit(stage{Stage: "install", Err: "copy: " + err.Error()})
		case n != meta.Size:
			sink.Cancel()
			emit(stage{Stage: "install", Err: fmt.Sprintf("short read %d/%d", n, meta.Size)})
		default:
			if err := sink.Close(); err != nil {
				emit(stage{Stage: "install", Err: "close: " + err.Error()})
			} else {
				emit(stage{Stage: "install", ID: sink.ID()})
			}
		}
		metas, err := dst.ListAll()
		emit(stage{Stage: "dst-list", N: len(metas), Err: es(err)})
		if len(metas) > 0 {
			openRestore(dst, metas[0].ID, "dst-")
		}
	case "reap":
		n, c, err := st.Reap()
		emit(stage{Stage: "reap", N: n, C: c, Err: es(err)})
		// the consolidated store as the next process start sees it
		st.Close()
		st2, err := snapshot.NewStore(storeDir)
		if err != nil {
			emit(stage{Stage: "reopen", Err: err.Error()})
			return
		}
		st2.SetReapThreshold(1 << 30)
		metas, err := st2.ListAll()
		ids := ""
		for _, m := range metas {
			ids += m.ID + " "
		}
		emit(stage{Stage: "reopen", N: len(metas), IDs: ids, Err: es(err)})
		if len(metas) > 0 {
			openRestore(st2, metas[0].ID, "")
		}
	}
}

type tcpLayer struct{ ln net.Listener }

func (l *tcpLayer) Accept() (net.Conn, error) { return l.ln.Accept() }
func (l *tcpLayer) Close() error              { return l.ln.Close() }
func (l *tcpLayer) Addr() net.Addr            { return l.ln.Addr() }
func (l *tcpLayer) Dial(addr string, timeout time.Duration) (net.Conn, error) {
	return net.DialTimeout("tcp", addr, timeout)
}

// nodeStart opens a real store.Store on a node directory whose snapshot store
// is the (corrupted) generated one and that has no database file and no
// clean-snapshot marker, so starting means restoring from the snapshot store.
func nodeStart(q jreq) {
	ln, err := net.Listen("tcp", "127.0.0.1:0")
	if err != nil {
		emit(stage{Stage: "harness-error", Err: err.Error()})
		return
	}
	s := store.New(&store.Config{DBConf: store.NewDBConfig(), Dir: q.Store, ID: "1"}, &tcpLayer{ln})
	if s == nil {
		emit(stage{Stage: "harness-error", Err: "store.New returned nil"})
		return
	}
	if err := s.Open(); err != nil {
		emit(stage{Stage: "node-open", Err: err.Error()})
		return
	}
	emit(stage{Stage: "node-open"})
	dbPath := filepath.Join(q.Store, "db.sqlite")
	if err := s.Close(true); err != nil {
		emit(stage{Stage: "node-close", Err: err.Error()})
	}
	out := filepath.Join(q.Scratch, "node.db")
	b, err := os.ReadFile(dbPath)
	if err != nil {
		emit(stage{Stage: "node-db", Err: err.Error()})
		return
	}
	if w, err := os.ReadFile(dbPath + "-wal"); err == nil && len(w) > 0 {
		os.WriteFile(out+"-wal", w, 0644)
	}
	os.WriteFile(out, b, 0644)
	emit(stage{Stage: "node-db", File: out, SHA: snapgen.SHA256Bytes(bytes.Clone(b))})
}
