package c15

import (
	"math/rand/v2"
	"strings"

	"github.com/rqlite/rqlite/v10/command/proto"
)

// A shape is everything of a request other than the SQL text of the statement
// under test: bound parameters attached to that statement, the per-statement
// and per-request flags of the protobuf messages, and other (benign)
// statements carried by the same request. The zero shape is the bare request
// `{statements:[{sql:text}]}` that the text part of the check sends.
//
// Nothing in a shape can make a breaking PRAGMA legitimate: SQLite ignores
// surplus bound values (positional or named) of a statement without
// placeholders, and the flags only select how results are produced.
type shape struct {
	// Params: bound values attached to the statement although its text has no
	// placeholder: "" int str null real bool blob three named named-mixed
	Params     string `json:"params,omitempty"`
	ForceQuery bool   `json:"force_query,omitempty"` // Statement.forceQuery
	SQLExplain bool   `json:"sql_explain,omitempty"` // Statement.sql_explain
	Tx         bool   `json:"tx,omitempty"`          // Request.transaction
	Rollback   bool   `json:"rollback,omitempty"`    // Request.rollbackOnError
	Timeout    bool   `json:"timeout,omitempty"`     // Request.dbTimeout = 5 s
	Qualify    bool   `json:"qualify,omitempty"`     // Request.qualifyColumns
	Timings    bool   `json:"timings,omitempty"`     // <X>Request.timings
	Freshness  bool   `json:"freshness,omitempty"`   // freshness = 1 h, strict (Query / Request only)
	// Lead: a benign Statement placed before the one under test in the same
	// request: "" select insert param-insert param-select
	Lead string `json:"lead,omitempty"`
	// Trail: a benign Statement placed after it: "" select param-select
	Trail string `json:"trail,omitempty"`
}

func (s *shape) zero() bool { return s == nil || *s == shape{} }

// classes lists the elements of a shape in a fixed priority order.
func (s *shape) classes() []string {
	if s == nil {
		return nil
	}
	var c []string
	if s.Params != "" {
		c = append(c, "bound-parameters")
	}
	switch s.Lead {
	case "param-insert", "param-select":
		c = append(c, "after-parameterized-statement")
	case "select", "insert":
		c = append(c, "later-statement-of-request")
	}
	if s.Trail != "" {
		c = append(c, "followed-by-statement")
	}
	if s.ForceQuery {
		c = append(c, "force-query")
	}
	if s.SQLExplain {
		c = append(c, "sql-explain-flag")
	}
	if s.Tx {
		c = append(c, "transaction")
	}
	if s.Rollback {
		c = append(c, "rollback-on-error")
	}
	if s.Timeout {
		c = append(c, "db-timeout")
	}
	if s.Qualify {
		c = append(c, "qualify-columns")
	}
	if s.Timings {
		c = append(c, "timings")
	}
	if s.Freshness {
		c = append(c, "freshness")
	}
	return c
}

// single returns the shape reduced to one element.
func (s *shape) single(class string) *shape {
	n := &shape{}
	switch class {
	case "bound-parameters":
		n.Params = s.Params
	case "after-parameterized-statement", "later-statement-of-request":
		n.Lead = s.Lead
	case "followed-by-statement":
		n.Trail = s.Trail
	case "force-query":
		n.ForceQuery = true
	case "sql-explain-flag":
		n.SQLExplain = true
	case "transaction":
		n.Tx = true
	case "rollback-on-error":
		n.Rollback = true
	case "db-timeout":
		n.Timeout = true
	case "qualify-columns":
		n.Qualify = true
	case "timings":
		n.Timings = true
	case "freshness":
		n.Freshness = true
	}
	return n
}

func (s *shape) key() string {
	if s.zero() {
		return "bare"
	}
	var b strings.Builder
	b.WriteString(strings.Join(s.classes(), "+"))
	b.WriteString("/" + s.Params + "/" + s.Lead + "/" + s.Trail)
	return b.String()
}

var paramKinds = []string{"int", "str", "null", "real", "bool", "blob", "three", "named", "named-mixed"}
var leadKinds = []string{"select", "insert", "param-insert", "param-select"}
var trailKinds = []string{"select", "param-select"}

// singleShapes: every shape that has exactly one element, every spelling of it.
func singleShapes() []*shape {
	var out []*shape
	for _, k := range paramKinds {
		out = append(out, &shape{Params: k})
	}
	for _, k := range leadKinds {
		out = append(out, &shape{Lead: k})
	}
	for _, k := range trailKinds {
		out = append(out, &shape{Trail: k})
	}
	out = append(out,
		&shape{ForceQuery: true}, &shape{SQLExplain: true}, &shape{Tx: true}, &shape{Rollback: true},
		&shape{Timeout: true}, &shape{Qualify: true}, &shape{Timings: true}, &shape{Freshness: true})
	return out
}

// genShape draws a shape with one to four elements.
func genShape(r *rand.Rand) *shape {
	for {
		s := &shape{}
		if r.IntN(2) == 0 {
			s.Params = pick(r, paramKinds)
		}
		if r.IntN(4) == 0 {
			s.Lead = pick(r, leadKinds)
		}
		if r.IntN(6) == 0 {
			s.Trail = pick(r, trailKinds)
		}
		s.ForceQuery = r.IntN(6) == 0
		s.SQLExplain = r.IntN(8) == 0
		s.Tx = r.IntN(5) == 0
		s.Rollback = r.IntN(8) == 0
		s.Timeout = r.IntN(8) == 0
		s.Qualify = r.IntN(10) == 0
		s.Timings = r.IntN(8) == 0
		s.Freshness = r.IntN(10) == 0
		if n := len(s.classes()); n >= 1 && n <= 4 {
			return s
		}
	}
}

// params builds the bound values of a kind.
func params(kind string) []*proto.Parameter {
	pi := func(v int64) *proto.Parameter { return &proto.Parameter{Value: &proto.Parameter_I{I: v}} }
	ps := func(v string) *proto.Parameter { return &proto.Parameter{Value: &proto.Parameter_S{S: v}} }
	switch kind {
	case "int":
		return []*proto.Parameter{pi(1)}
	case "str":
		return []*proto.Parameter{ps("x")}
	case "null":
		return []*proto.Parameter{{}}
	case "real":
		return []*proto.Parameter{{Value: &proto.Parameter_D{D: 1.5}}}
	case "bool":
		return []*proto.Parameter{{Value: &proto.Parameter_B{B: true}}}
	case "blob":
		return []*proto.Parameter{{Value: &proto.Parameter_Y{Y: []byte{0, 1, 2}}}}
	case "three":
		return []*proto.Parameter{pi(1), ps("two"), {Value: &proto.Parameter_D{D: 3}}}
	case "named":
		p := ps("x")
		p.Name = "v"
		return []*proto.Parameter{p}
	case "named-mixed":
		p := pi(2)
		p.Name = "n"
		return []*proto.Parameter{pi(1), p}
	}
	return nil
}

// paramValues: the same bound values for the stock driver (ground truth),
// passed the way rqlite's db layer passes them (sql.Named with an empty name
// for positional values).
func paramValues(kind string) []namedValue {
	var out []namedValue
	for _, p := range params(kind) {
		nv := namedValue{Name: p.GetName()}
		switch v := p.GetValue().(type) {
		case *proto.Parameter_I:
			nv.Value = v.I
		case *proto.Parameter_D:
			nv.Value = v.D
		case *proto.Parameter_B:
			nv.Value = v.B
		case *proto.Parameter_Y:
			nv.Value = v.Y
		case *proto.Parameter_S:
			nv.Value = v.S
		}
		out = append(out, nv)
	}
	return out
}

type namedValue struct {
	Name  string
	Value any
}

// build renders the protobuf request for text in this shape.
func (s *shape) build(text string) (req *proto.Request, timings, fresh bool) {
	st := &proto.Statement{Sql: text}
	req = &proto.Request{}
	if s == nil {
		req.Statements = []*proto.Statement{st}
		return req, false, false
	}
	st.Parameters = params(s.Params)
	st.ForceQuery = s.ForceQuery
	st.SqlExplain = s.SQLExplain
	benign := func(kind string, tag string) *proto.Statement {
		switch kind {
		case "select":
			return &proto.Statement{Sql: "SELECT 1"}
		case "insert":
			return &proto.Statement{Sql: "INSERT INTO c15(v) VALUES('" + tag + "')"}
		case "param-insert":
			return &proto.Statement{Sql: "INSERT INTO c15(v) VALUES(?)", Parameters: params("str")}
		case "param-select":
			return &proto.Statement{Sql: "SELECT ?", Parameters: params("int")}
		}
		return nil
	}
	if b := benign(s.Lead, "lead"); b != nil {
		req.Statements = append(req.Statements, b)
	}
	req.Statements = append(req.Statements, st)
	if b := benign(s.Trail, "trail"); b != nil {
		req.Statements = append(req.Statements, b)
	}
	req.Transaction = s.Tx
	req.RollbackOnError = s.Rollback
	if s.Timeout {
		req.DbTimeout = int64(5e9)
	}
	req.QualifyColumns = s.Qualify
	return req, s.Timings, s.Freshness
}
