// Package snapgen generates rqlite snapshot stores of given shapes through the
// real snapshot API, fed with real SQLite data, and records for every
// snapshot the database it has to resolve to.
//
// Pieces (all small, see each doc comment):
//
//	Source            a live SQLite database (stock driver, WAL mode) that is
//	                  mutated with random SQL and from which full copies and
//	                  compacted WAL segments are cut exactly the way
//	                  db/checkpoint_manager.go + store.fsmSnapshot do it
//	FeedFull          NewSnapshotStreamer(db, wals...)  -> sink
//	FeedIncremental   NewSnapshotPathStreamer(staging)  -> sink
//	Shape / Build     build a whole store (older fulls, newest full with own
//	                  WALs, incrementals with 1..n WALs) and return a Manifest
//	BuildInChild      the same inside a `vcheck worker snapgen` child process
//	                  (use this one: store code can hard-exit the process)
//
// Nothing in here decides a verdict; it only produces inputs and the expected
// databases (logical dump hash via sqlref, file kept on disk).
package snapgen

import (
	"context"
	"database/sql"
	"fmt"
	"math/rand/v2"
	"os"
	"path/filepath"
	"strings"

	"github.com/rqlite/rqlite/v10/db/wal"
	"github.com/rqlite/rqlite/v10/snapshot"
	"verif/internal/sqlref"
)

// Source is a live SQLite database in WAL mode, driven through the stock
// sqlite3 driver (no rqlite code on the SQL side). Automatic checkpoints are
// off, so everything written since the last Cut*/Checkpoint call sits in the
// -wal file, as it does in a running rqlite node between snapshots.
type Source struct {
	Dir  string
	Path string // main database file

	db   *sql.DB
	conn *sql.Conn
	r    *rand.Rand
	seq  int
}

// NewSource creates (or reopens) the database <dir>/src.db.
func NewSource(dir string, r *rand.Rand) (*Source, error) {
	if err := os.MkdirAll(dir, 0755); err != nil {
		return nil, err
	}
	s := &Source{Dir: dir, Path: filepath.Join(dir, "src.db"), r: r}
	if err := s.open(); err != nil {
		return nil, err
	}
	if err := s.exec(`CREATE TABLE IF NOT EXISTS t0 (id INTEGER PRIMARY KEY, a INTEGER, b TEXT, c BLOB)`); err != nil {
		return nil, err
	}
	if err := s.exec(`CREATE TABLE IF NOT EXISTS t1 (k TEXT PRIMARY KEY, v REAL, w TEXT) WITHOUT ROWID`); err != nil {
		return nil, err
	}
	return s, nil
}

func (s *Source) open() error {
	db, err := sqlref.Open(s.Path)
	if err != nil {
		return err
	}
	conn, err := db.Conn(context.Background())
	if err != nil {
		db.Close()
		return err
	}
	s.db, s.conn = db, conn
	for _, p := range []string{"PRAGMA journal_mode=WAL", "PRAGMA wal_autocheckpoint=0", "PRAGMA synchronous=OFF"} {
		if _, err := conn.ExecContext(context.Background(), p); err != nil {
			return fmt.Errorf("%s: %w", p, err)
		}
	}
	var mode string
	if err := conn.QueryRowContext(context.Background(), "PRAGMA journal_mode").Scan(&mode); err != nil || mode != "wal" {
		return fmt.Errorf("source database is not in WAL mode (%q, %v)", mode, err)
	}
	return nil
}

// Close closes the database (SQLite checkpoints and removes the WAL).
func (s *Source) Close() {
	if s.conn != nil {
		s.conn.Close()
	}
	if s.db != nil {
		s.db.Close()
	}
	s.conn, s.db = nil, nil
}

func (s *Source) exec(q string, args ...any) error {
	_, err := s.conn.ExecContext(context.Background(), q, args...)
	if err != nil {
		return fmt.Errorf("%s: %w", trunc(q), err)
	}
	return nil
}

func trunc(s string) string {
	if len(s) > 80 {
		return s[:80] + "…"
	}
	return s
}

func (s *Source) randText(max int) string {
	n := s.r.IntN(max + 1)
	var b strings.Builder
	for i := 0; i < n; i++ {
		b.WriteByte(byte('a' + s.r.IntN(26)))
	}
	return b.String()
}

func (s *Source) randBlob() []byte {
	var n int
	switch k := s.r.IntN(20); {
	case k == 0:
		n = 9000 + s.r.IntN(12000) // several overflow pages
	case k < 5:
		n = 500 + s.r.IntN(3000)
	default:
		n = s.r.IntN(120)
	}
	b := make([]byte, n)
	for i := range b {
		b[i] = byte(s.r.UintN(256))
	}
	return b
}

// Mutate applies n random statements (inserts, updates, deletes, now and then
// DDL). At least one of them is an insert, so the WAL is never left empty.
func (s *Source) Mutate(n int) error {
	if n < 1 {
		n = 1
	}
	must := s.r.IntN(n)
	for i := 0; i < n; i++ {
		k := s.r.IntN(100)
		if i == must {
			k = 0
		}
		s.seq++
		var err error
		switch {
		case k < 40:
			err = s.exec(`INSERT INTO t0(a,b,c) VALUES(?,?,?)`, s.r.Int64N(1<<40)-(1<<39), s.randText(200), s.randBlob())
		case k < 55:
			err = s.exec(`INSERT OR REPLACE INTO t1(k,v,w) VALUES(?,?,?)`, fmt.Sprintf("k%04d", s.r.IntN(400)), s.r.Float64()*1e6, s.randText(60))
		case k < 75:
			err = s.exec(`UPDATE t0 SET a=a+?, b=? WHERE id IN (SELECT id FROM t0 ORDER BY id LIMIT 3 OFFSET ?)`, s.r.IntN(9), s.randText(90), s.r.IntN(40))
		case k < 85:
			err = s.exec(`DELETE FROM t0 WHERE id IN (SELECT id FROM t0 ORDER BY id LIMIT 2 OFFSET ?)`, s.r.IntN(40))
		case k < 89:
			err = s.exec(`DELETE FROM t1 WHERE k < ?`, fmt.Sprintf("k%04d", s.r.IntN(60)))
		case k < 93:
			err = s.exec(fmt.Sprintf(`CREATE TABLE IF NOT EXISTS x%d (id INTEGER PRIMARY KEY, v TEXT)`, s.r.IntN(4)))
		case k < 96:
			err = s.exec(fmt.Sprintf(`CREATE INDEX IF NOT EXISTS i%d ON t0(%s)`, s.r.IntN(3), []string{"a", "b", "a,b"}[s.r.IntN(3)]))
		case k < 98:
			err = s.exec(fmt.Sprintf(`DROP INDEX IF EXISTS i%d`, s.r.IntN(3)))
		default:
			t := s.r.IntN(4)
			if err = s.exec(fmt.Sprintf(`CREATE TABLE IF NOT EXISTS x%d (id INTEGER PRIMARY KEY, v TEXT)`, t)); err == nil {
				err = s.exec(fmt.Sprintf(`INSERT INTO x%d(v) VALUES(?)`, t), s.randText(400))
			}
		}
		if err != nil {
			return err
		}
	}
	return nil
}

// Checkpoint moves the whole WAL into the main file and truncates the WAL
// (what rqlite does before streaming a full snapshot).
func (s *Source) Checkpoint() error {
	var busy, log, ckpt int
	row := s.conn.QueryRowContext(context.Background(), "PRAGMA wal_checkpoint(TRUNCATE)")
	if err := row.Scan(&busy, &log, &ckpt); err != nil {
		return err
	}
	if busy != 0 {
		return fmt.Errorf("source checkpoint busy")
	}
	if st, err := os.Stat(s.Path + "-wal"); err == nil && st.Size() != 0 {
		return fmt.Errorf("source WAL not truncated (%d bytes)", st.Size())
	}
	return nil
}

// CutFull checkpoints the source and copies the main database file to dst:
// the file a full snapshot streams.
func (s *Source) CutFull(dst string) error {
	if err := s.Checkpoint(); err != nil {
		return err
	}
	return sqlref.CopyFile(s.Path, dst)
}

// compactWAL writes the compacted form of the current WAL to w, using the
// compacting scanner + writer exactly as db.CheckpointManager.Checkpoint does.
func (s *Source) compactWAL(w interface{ Write([]byte) (int, error) }) (int64, error) {
	fd, err := os.Open(s.Path + "-wal")
	if err != nil {
		return 0, err
	}
	defer fd.Close()
	if st, _ := fd.Stat(); st.Size() == 0 {
		return 0, fmt.Errorf("source WAL is empty: nothing to cut")
	}
	sc, err := wal.NewCompactingFrameScanner(fd, 0, false)
	if err != nil {
		return 0, fmt.Errorf("compacting scanner: %w", err)
	}
	ww, err := wal.NewWriter(sc)
	if err != nil {
		return 0, err
	}
	return ww.WriteTo(w)
}

// CutWALStaged writes the compacted WAL of everything since the last cut into
// the staging directory through snapshot.NewStagingDir(dir).CreateWAL() (which
// also writes the .crc32 sidecar), then checkpoints the source. This is the
// incremental-snapshot path of store.fsmSnapshot. It returns the WAL path.
func (s *Source) CutWALStaged(stagingDir string) (string, error) {
	if err := os.MkdirAll(stagingDir, 0755); err != nil {
		return "", err
	}
	sd := snapshot.NewStagingDir(stagingDir)
	w, p, err := sd.CreateWAL()
	if err != nil {
		return "", err
	}
	defer w.Cancel()
	if _, err := s.compactWAL(w); err != nil {
		return "", err
	}
	if err := s.Checkpoint(); err != nil {
		return "", err
	}
	if err := w.Close(); err != nil {
		return "", err
	}
	return p, nil
}

// CutWALFile is CutWALStaged into a plain file (no sidecar): the WAL part of a
// "full + WALs" install stream built with snapshot.NewSnapshotStreamer.
func (s *Source) CutWALFile(dst string) error {
	f, err := os.Create(dst)
	if err != nil {
		return err
	}
	if _, err := s.compactWAL(f); err != nil {
		f.Close()
		return err
	}
	if err := f.Close(); err != nil {
		return err
	}
	return s.Checkpoint()
}

// Expect is the database a snapshot has to resolve to.
type Expect struct {
	DBFile   string `json:"db_file"`   // copy of the source's main file at that moment (checkpointed)
	DumpHash string `json:"dump_hash"` // sqlref logical dump hash
	Rows     int    `json:"rows"`
}

// State checkpoints the source, copies its main file to dst and returns the
// logical dump of that copy. Call it right after the cut that a snapshot
// carries.
func (s *Source) State(dst string) (Expect, error) {
	if err := s.CutFull(dst); err != nil {
		return Expect{}, err
	}
	d, err := sqlref.DumpFile(dst)
	if err != nil {
		return Expect{}, err
	}
	return Expect{DBFile: dst, DumpHash: d.Hash(), Rows: d.Rows()}, nil
}

// ResetTo replaces the source database by a copy of dbFile (what a node does
// when it restores from its snapshot store after a restart or an install).
func (s *Source) ResetTo(dbFile string) error {
	s.Close()
	for _, sfx := range []string{"", "-wal", "-shm"} {
		os.Remove(s.Path + sfx)
	}
	if err := sqlref.CopyFile(dbFile, s.Path); err != nil {
		return err
	}
	return s.open()
}
