package c16

// "catch-up" scenarios: a follower / non-voter is sent SEVERAL command entries
// at once (what a node gets when it catches up after having been cut off, or
// over a slow link while the leader keeps committing), its FSM goroutine is
// slowed down at the fsm.apply.entry hook so that strict-freshness reads arrive
// while it sits between those entries.
//
// The harness records the raft index of every write the leader acknowledged to
// it during the scenario. Together with the node's own raft log extent
// (last_log_index statistic) this tells, without consulting the node's
// command_commit_index bookkeeping, which acknowledged command entries the node
// has been sent: every acknowledged write whose index is <= last_log_index is in
// the node's log. If the newest of them is above the node's applied index, the
// node is behind (driver: judgeNone, sentBehind).

import (
	"fmt"
	"sort"
	"sync"
	"time"
)

// catchUpBase: case numbers from here on are "catch-up" scenarios.
const catchUpBase = 2000000

func scnCatchUp(w *wk, r interface{ IntN(int) int }, k int, n1, n2, n3 *wnode) {
	d := time.Duration(600+100*r.IntN(4)) * time.Millisecond
	nw := 3 + r.IntN(3)
	mode := "cut-off"
	target := n3
	if k%4 == 1 {
		// a voter cannot be cut off without stopping the writes (two voters):
		// slow link from the leader + writes issued concurrently
		mode = "slow-link"
		target = n2
	}
	small := d / 3
	w.res.Params["mode"] = mode
	w.res.Params["target"] = target.role
	w.res.Params["delay_ms"] = d.Milliseconds()
	w.res.Params["writes"] = nw
	type variant struct {
		fresh  time.Duration
		strict bool
	}
	vs := []variant{{small, true}, {time.Second, true}, {small, false}, {d + d/2, true}, {time.Second, true}}
	var ackMu sync.Mutex
	var acked []uint64
	sent := func(lastLog uint64) uint64 {
		ackMu.Lock()
		defer ackMu.Unlock()
		var m uint64
		for _, a := range acked {
			if a <= lastLog && a > m {
				m = a
			}
		}
		return m
	}
	q := func(phase string, v variant) {
		o := w.query(target, phase, "none", v.fresh, v.strict, true, -1)
		o.SentCmdB, o.SentCmdA = sent(o.B.LastLog), sent(o.A.LastLog)
		w.add(o)
	}
	for _, v := range vs[:4] {
		q("before", v)
	}
	l := w.leader()
	if l == nil || l == target {
		w.note("no usable leader")
		return
	}
	write := func(id int) {
		idx, err := w.execOn(l.Node, fmt.Sprintf("INSERT OR IGNORE INTO t(id, v) VALUES(%d, 'cu%d')", id, id))
		if err != nil {
			w.note("write %d: %v", id, err)
			return
		}
		ackMu.Lock()
		acked = append(acked, idx)
		ackMu.Unlock()
	}
	idBase := 100000
	switch mode {
	case "cut-off":
		cut := time.Now()
		w.cl.Net.Isolate(target.ID, w.cl.Names())
		for i := 0; i < nw; i++ {
			write(idBase + i)
		}
		// the first missed entry must be older than the largest strict bound
		// used below when it finally gets applied
		if rest := 1600*time.Millisecond - time.Since(cut); rest > 0 {
			time.Sleep(rest)
		}
		delayGoid.Store(target.fsmG)
		delayNs.Store(d.Nanoseconds())
		w.cl.Net.HealAll()
	case "slow-link":
		delayGoid.Store(target.fsmG)
		delayNs.Store(d.Nanoseconds())
		w.cl.Net.SetDelay(l.ID, target.ID, 120*time.Millisecond)
		var wg sync.WaitGroup
		for i := 0; i < nw; i++ {
			wg.Add(1)
			go func(i int) { defer wg.Done(); write(idBase + i) }(i)
		}
		wg.Wait()
		w.cl.Net.SetDelay(l.ID, target.ID, 0)
	}
	ackMu.Lock()
	sort.Slice(acked, func(i, j int) bool { return acked[i] < acked[j] })
	na := len(acked)
	var last uint64
	if na > 0 {
		last = acked[na-1]
	}
	w.res.Params["acked_indexes"] = fmt.Sprint(acked)
	ackMu.Unlock()
	w.rows += int64(na)
	if na < 2 {
		w.note("fewer than two writes acknowledged")
		delayNs.Store(0)
		return
	}
	deadline := time.Now().Add(time.Duration(nw+2)*d + 20*time.Second)
	i := r.IntN(len(vs))
	for time.Now().Before(deadline) {
		if fsmOf(target.Node) >= last {
			break
		}
		q("catching-up", vs[i%len(vs)])
		i++
		time.Sleep(time.Duration(10+r.IntN(40)) * time.Millisecond)
	}
	delayNs.Store(0)
	w.res.Params["delayed_applies"] = delayed.Load()
	if !w.waitApplied(20 * time.Second) {
		w.note("target did not catch up")
		return
	}
	// wait for steady contact, then everything asked must be served again
	dl := time.Now().Add(10 * time.Second)
	for time.Now().Before(dl) {
		if s := takeSample(target.Node); s.OK && !s.Never && s.ContactMs < 100 {
			break
		}
		time.Sleep(40 * time.Millisecond)
	}
	lf := uint64(0)
	if cur := w.leader(); cur != nil {
		lf = fsmOf(cur.Node)
	}
	for _, v := range vs[:4] {
		o := w.query(target, "caught-up", "none", v.fresh, v.strict, true, -1)
		o.SentCmdB, o.SentCmdA = sent(o.B.LastLog), sent(o.A.LastLog)
		o.LeaderFsm = lf
		w.add(o)
	}
}
